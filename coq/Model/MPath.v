(* C12 -- executable model of the request-path pipeline of htp_normalize_parsed_uri:
     htp_decode_path_inplace  ->  htp_utf8_decode_path_inplace | htp_utf8_validate_path  ->  htp_normalize_uri_path_inplace
   Code-shaped: one function per C function, same branch order, same guards (rpos + 2 < len, rpos + 5 < len ...).
   All three in-place loops keep wpos <= rpos, every read is at an index >= rpos and every write at an index < the
   new rpos, so the unread suffix is always the ORIGINAL input: the models recurse over the unread suffix and build
   the output functionally.  Tables, flag bits, enum values come from Htp.Gen.Generated (regenerated from /repo).
   No proofs here. *)
Require Import Htp.Model.Base.
Local Open Scope N_scope.

(* character literals of the C source *)
Definition pth_PCT : N := 37.      (* '%' *)
Definition pth_SL : N := 47.       (* '/' *)
Definition pth_BSL : N := 92.      (* '\\' *)
Definition pth_DOT : N := 46.      (* '.' *)
Definition pth_u : N := 117.       (* 'u' *)
Definition pth_U : N := 85.        (* 'U' *)

(* what the decoders write into the transaction: tx->flags, tx->response_status_expected_number *)
Definition pst := (N * Z)%type.
Definition pth_st0 : pst := (0, 0%Z).
Definition pth_flag (f : N) (st : pst) : pst := (N.lor (fst st) f, snd st).
(* if (cfg->..._unwanted != HTP_UNWANTED_IGNORE) tx->response_status_expected_number = cfg->..._unwanted; *)
Definition pth_unwanted (u : nat) (st : pst) : pst :=
  if Z.eqb (Z.of_nat u) c_pth_UNWANTED_IGNORE then st else (fst st, Z.of_nat u).
Definition pth_has (f : N) (st : pst) : bool := negb (N.land (fst st) f =? 0).

(* x2c: "happily converts invalid input"; unsigned char arithmetic = arithmetic modulo 256 *)
Definition pth_hexv (b : N) : Z :=
  if 65 <=? b then (Z.of_N (N.land b 223) - 65 + 10)%Z else (Z.of_N b - 48)%Z.
Definition pth_x2c (a b : N) : N := Z.to_N ((pth_hexv a * 16 + pth_hexv b) mod 256)%Z.

(* the best-fit map: triples (codepoint-hi, codepoint-lo, byte); the regenerated table stops at the 0,0 terminator *)
Fixpoint pth_bestfit_u (m : list N) (c1 c2 dflt : N) : N :=
  match m with
  | p0 :: p1 :: p2 :: m' => if (p0 =? c1) && (p1 =? c2) then p2 else pth_bestfit_u m' c1 c2 dflt
  | _ => dflt
  end.

(* decode_u_encoding_path(cfg, tx, data) on the four bytes after "%u" *)
Definition pth_decode_u (c : dcfg) (a0 a1 a2 a3 : N) (st : pst) : N * pst :=
  let c1 := pth_x2c a0 a1 in
  let c2 := pth_x2c a2 a3 in
  let '(r, st) :=
    if c1 =? 0 then (c2, pth_flag c_HTP_PATH_OVERLONG_U st)
    else
      let st := if c1 =? 255 then pth_flag c_HTP_PATH_HALF_FULL_RANGE st else st in
      let st := pth_unwanted (d_u_unwanted c) st in
      (pth_bestfit_u t_bestfit_1252 c1 c2 (d_replacement c), st) in
  let st := if (r =? pth_SL) || (d_backslash c && (r =? pth_BSL))
            then pth_flag c_HTP_PATH_ENCODED_SEPARATOR st else st in
  (r, st).

(* url_encoding_invalid_handling: the three values of enum htp_url_encoding_handling_t. Other integers cannot be
   passed through the typed setter; the model maps them to PRESERVE and the drivers refuse them. *)
Inductive pth_inv := Pth_preserve | Pth_remove | Pth_process.
Definition pth_handling (c : dcfg) : pth_inv :=
  let h := Z.of_nat (d_invalid_handling c) in
  if Z.eqb h c_HTP_URL_DECODE_REMOVE_PERCENT then Pth_remove
  else if Z.eqb h c_HTP_URL_DECODE_PROCESS_INVALID then Pth_process
  else Pth_preserve.

(* tx->flags |= HTP_PATH_INVALID_ENCODING; if (..invalid_unwanted != IGNORE) status = ..invalid_unwanted *)
Definition pth_mark_invalid (c : dcfg) (st : pst) : pst :=
  pth_unwanted (d_inv_unwanted c) (pth_flag c_HTP_PATH_INVALID_ENCODING st).

(* one pass through the top half of the while body, at data[rpos..] = rest:
   Pth_stop  = bstr_adjust_len(path, wpos); return
   Pth_skip  = rpos += adv; continue                (REMOVE_PERCENT)
   Pth_emit  = rpos += adv; fall to "Place the character into output" with c = ch *)
Inductive pth_act := Pth_stop (st : pst) | Pth_skip (adv : nat) (st : pst) | Pth_emit (ch : N) (adv : nat) (st : pst).

Definition pth_step (c : dcfg) (rest : bytes) (st : pst) : pth_act :=
  match rest with
  | [] => Pth_stop st
  | x :: r =>
    if x =? pth_PCT then
      match r with
      | a1 :: a2 :: r2 =>                                    (* rpos + 2 < len *)
        if d_u_decode c && ((a1 =? pth_u) || (a1 =? pth_U)) then
          (* handled = 1 *)
          let st := pth_unwanted (d_u_unwanted c) st in
          match r2 with
          | a3 :: a4 :: a5 :: _ =>                            (* rpos + 5 < len *)
            if c_isxdigit a2 && c_isxdigit a3 && c_isxdigit a4 && c_isxdigit a5 then
              let '(ch, st) := pth_decode_u c a2 a3 a4 a5 st in
              let st := if ch =? 0
                        then pth_unwanted (d_nul_enc_unwanted c) (pth_flag c_HTP_PATH_ENCODED_NUL st) else st in
              Pth_emit ch 6 st
            else
              let st := pth_mark_invalid c st in
              match pth_handling c with
              | Pth_remove => Pth_skip 1 st
              | Pth_preserve => Pth_emit pth_PCT 1 st
              | Pth_process => let '(ch, st) := pth_decode_u c a2 a3 a4 a5 st in Pth_emit ch 6 st
              end
          | _ =>                                              (* not enough data *)
            let st := pth_mark_invalid c st in
            match pth_handling c with
            | Pth_remove => Pth_skip 1 st
            | Pth_preserve => Pth_emit pth_PCT 1 st
            | Pth_process => Pth_emit pth_PCT 1 st
            end
          end
        else
          (* standard URL encoding *)
          if c_isxdigit a1 && c_isxdigit a2 then
            let ch := pth_x2c a1 a2 in
            let st := if ch =? 0
                      then pth_unwanted (d_nul_enc_unwanted c) (pth_flag c_HTP_PATH_ENCODED_NUL st) else st in
            if (ch =? 0) && d_nul_enc_term c then Pth_stop st
            else if (ch =? pth_SL) || (d_backslash c && (ch =? pth_BSL)) then
              let st := pth_unwanted (d_sep_enc_unwanted c) (pth_flag c_HTP_PATH_ENCODED_SEPARATOR st) in
              if d_sep_decode c then Pth_emit ch 3 st
              else Pth_emit pth_PCT 1 st                      (* leave encoded *)
            else Pth_emit ch 3 st
          else
            let st := pth_mark_invalid c st in
            match pth_handling c with
            | Pth_remove => Pth_skip 1 st
            | Pth_preserve => Pth_emit pth_PCT 1 st
            | Pth_process => Pth_emit (pth_x2c a1 a2) 3 st
            end
      | _ =>                                                  (* not enough data *)
        let st := pth_mark_invalid c st in
        match pth_handling c with
        | Pth_remove => Pth_skip 1 st
        | Pth_preserve => Pth_emit pth_PCT 1 st
        | Pth_process => Pth_emit pth_PCT 1 st
        end
      end
    else
      (* one non-encoded character *)
      if x =? 0 then
        let st := pth_flag c_HTP_PATH_RAW_NUL st in
        let st := pth_unwanted (d_nul_raw_unwanted c) st in
        if d_nul_raw_term c then Pth_stop st else Pth_emit x 1 st
      else Pth_emit x 1 st
  end.

(* "Place the character into output": control characters, backslash, lower-casing *)
Definition pth_post (c : dcfg) (ch : N) (st : pst) : N * pst :=
  let st := if ch <? 32 then pth_unwanted (d_ctl_unwanted c) st else st in
  let ch := if (ch =? pth_BSL) && d_backslash c then pth_SL else ch in
  let ch := if d_lowercase c then c_tolower ch else ch in
  (ch, st).

(* the while loop. skip = bytes of the current escape still to be stepped over (rpos += adv done one byte at a time,
   which makes the recursion structural); prev = previous_was_separator *)
Fixpoint pth_loop (c : dcfg) (skip : nat) (rest : bytes) (prev : bool) (st : pst) : bytes * pst :=
  match rest with
  | [] => ([], st)
  | _ :: r =>
    match skip with
    | S k => pth_loop c k r prev st
    | O =>
      match pth_step c rest st with
      | Pth_stop st => ([], st)
      | Pth_skip adv st => pth_loop c (adv - 1) r prev st
      | Pth_emit ch adv st =>
        let '(ch, st) := pth_post c ch st in
        if d_sep_compress c then
          if ch =? pth_SL then
            if prev then pth_loop c (adv - 1) r true st
            else let '(o, st) := pth_loop c (adv - 1) r true st in (ch :: o, st)
          else let '(o, st) := pth_loop c (adv - 1) r false st in (ch :: o, st)
        else let '(o, st) := pth_loop c (adv - 1) r prev st in (ch :: o, st)
      end
    end
  end.

(* htp_decode_path_inplace(tx, path): new path, tx->flags, tx->response_status_expected_number *)
Definition pth_decode_path_st (c : dcfg) (s : bytes) (st : pst) : bytes * pst := pth_loop c 0 s false st.
Definition pth_decode_path (c : dcfg) (s : bytes) : bytes * pst := pth_decode_path_st c s pth_st0.

(* ------------------------------------------------------------------ UTF-8 *)

Definition utf8_ACCEPT : N := Z.to_N c_HTP_UTF8_ACCEPT.
Definition utf8_REJECT : N := Z.to_N c_HTP_UTF8_REJECT.

(* htp_utf8_decode_allow_overlong(&state, &codep, byte); uint32_t arithmetic *)
Definition utf8_step (state cp byte : N) : N * N :=
  let type := tget t_utf8d_allow_overlong byte in
  let cp' := if negb (state =? utf8_ACCEPT)
             then N.lor (N.land byte 63) (N.shiftl cp 6 mod 4294967296)
             else N.land (N.shiftr 255 type) byte in
  (tget t_utf8d (256 + state * 16 + type), cp').

(* bestfit_codepoint(cfg, HTP_DECODER_URL_PATH, codepoint) *)
Fixpoint utf8_bestfit_map (m : list N) (cp dflt : N) : N :=
  match m with
  | p0 :: p1 :: p2 :: m' =>
    let x := N.shiftl p0 8 + p1 in
    if x =? 0 then dflt else if x =? cp then p2 else utf8_bestfit_map m' cp dflt
  | _ => dflt
  end.
Definition utf8_bestfit_codepoint (c : dcfg) (cp : N) : N :=
  if cp <? 256 then cp
  else if 65535 <? cp then d_replacement c
  else utf8_bestfit_map t_bestfit_1252 cp (d_replacement c).

(* switch (counter) { case 2: if (codepoint < 0x80) ...; case 3: < 0x800; case 4: < 0x10000 } *)
Definition utf8_overlong (counter : nat) (cp : N) : bool :=
  match counter with
  | 2%nat => cp <? 128
  | 3%nat => cp <? 2048
  | 4%nat => cp <? 65536
  | _ => false
  end.

(* loop variables of both UTF-8 functions *)
Record utf8_vars := mk_utf8_vars { u_state : N; u_cp : N; u_counter : nat; u_seen : bool; u_st : pst }.
Definition utf8_vars0 (st : pst) : utf8_vars := mk_utf8_vars utf8_ACCEPT 0 0 false st.

(* one iteration of the while loop of htp_utf8_decode_path_inplace at data[rpos] = x:
   (byte written if any, whether rpos advanced, new loop variables) *)
Definition utf8_dec_iter (c : dcfg) (x : N) (v : utf8_vars) : option N * bool * utf8_vars :=
  let counter := S (u_counter v) in
  let '(state, cp) := utf8_step (u_state v) (u_cp v) x in
  if state =? utf8_ACCEPT then
    if Nat.eqb counter 1 then
      (Some (cp mod 256), true, mk_utf8_vars state cp 0 (u_seen v) (u_st v))
    else
      let st := u_st v in
      let st := if utf8_overlong counter cp then pth_flag c_HTP_PATH_UTF8_OVERLONG st else st in
      let st := if (65280 <=? cp) && (cp <=? 65519) then pth_flag c_HTP_PATH_HALF_FULL_RANGE st else st in
      (Some (utf8_bestfit_codepoint c cp), true, mk_utf8_vars state cp 0 true st)
  else if state =? utf8_REJECT then
    let st := pth_unwanted (d_utf8_inv_unwanted c) (pth_flag c_HTP_PATH_UTF8_INVALID (u_st v)) in
    (* if the invalid byte was first in a sequence, consume it; otherwise it starts the next character *)
    (Some (d_replacement c), Nat.eqb counter 1, mk_utf8_vars utf8_ACCEPT 0 0 (u_seen v) st)
  else
    (None, true, mk_utf8_vars state cp counter (u_seen v) (u_st v)).

Definition utf8_cons (o : option N) (l : bytes) : bytes := match o with Some b => b :: l | None => l end.

Fixpoint utf8_dec_loop (c : dcfg) (rest : bytes) (v : utf8_vars) : bytes * utf8_vars :=
  match rest with
  | [] => ([], v)
  | x :: r =>
    let '(o1, adv, v1) := utf8_dec_iter c x v in
    if adv then
      let '(out, vf) := utf8_dec_loop c r v1 in (utf8_cons o1 out, vf)
    else
      (* rpos unchanged: the next iteration looks at the same byte, with counter = 0 it always advances *)
      let '(o2, _, v2) := utf8_dec_iter c x v1 in
      let '(out, vf) := utf8_dec_loop c r v2 in (utf8_cons o1 (utf8_cons o2 out), vf)
  end.

(* if ((seen_valid) && (!(tx->flags & HTP_PATH_UTF8_INVALID))) tx->flags |= HTP_PATH_UTF8_VALID; *)
Definition utf8_finish (v : utf8_vars) : pst :=
  if u_seen v && negb (pth_has c_HTP_PATH_UTF8_INVALID (u_st v)) then pth_flag c_HTP_PATH_UTF8_VALID (u_st v) else u_st v.

Definition utf8_decode_path (c : dcfg) (s : bytes) (st : pst) : bytes * pst :=
  let '(out, v) := utf8_dec_loop c s (utf8_vars0 st) in (out, utf8_finish v).

(* htp_utf8_validate_path: one iteration; rpos always advances *)
Definition utf8_val_iter (x : N) (v : utf8_vars) : utf8_vars :=
  let counter := S (u_counter v) in
  let '(state, cp) := utf8_step (u_state v) (u_cp v) x in
  if state =? utf8_ACCEPT then
    let st := u_st v in
    let seen := if Nat.ltb 1 counter then true else u_seen v in
    let st := if Nat.ltb 1 counter && utf8_overlong counter cp then pth_flag c_HTP_PATH_UTF8_OVERLONG st else st in
    let st := if (65279 <? cp) && (cp <? 65536) then pth_flag c_HTP_PATH_HALF_FULL_RANGE st else st in
    mk_utf8_vars state cp 0 seen st
  else if state =? utf8_REJECT then
    (* state overridden, codepoint kept *)
    mk_utf8_vars utf8_ACCEPT cp 0 (u_seen v) (pth_flag c_HTP_PATH_UTF8_INVALID (u_st v))
  else
    mk_utf8_vars state cp counter (u_seen v) (u_st v).

Definition utf8_validate_path (s : bytes) (st : pst) : pst :=
  utf8_finish (fold_left (fun v x => utf8_val_iter x v) s (utf8_vars0 st)).

(* ------------------------------------------------------------------ dot segments (htp_normalize_uri_path_inplace) *)

(* "Remove the last segment": while (wpos > 0 && data[wpos-1] != '/') wpos--; if (wpos > 0) wpos--;  (o reversed) *)
Fixpoint dot_drop_seg (o : bytes) : bytes :=
  match o with [] => [] | x :: o' => if x =? pth_SL then o' else dot_drop_seg o' end.

(* rule E inner loop: copy bytes up to, not including, the next '/' *)
Fixpoint dot_copy_seg (rest o : bytes) : bytes * bytes :=
  match rest with
  | [] => ([], o)
  | x :: r => if x =? pth_SL then (rest, o) else dot_copy_seg r (x :: o)
  end.

(* what the C looks at: up to three bytes of look-ahead *)
Inductive dot_vw := DV_nil | DV_sl (r : bytes) | DV_dot_end | DV_dot_sl (r : bytes)
                  | DV_dotdot_end | DV_dotdot_sl (r : bytes) | DV_other.
Definition dot_view (rest : bytes) : dot_vw :=
  match rest with
  | [] => DV_nil
  | a :: r1 =>
    if a =? pth_SL then DV_sl r1 else
    if a =? pth_DOT then
      match r1 with
      | [] => DV_dot_end
      | b :: r2 =>
        if b =? pth_SL then DV_dot_sl r2 else
        if b =? pth_DOT then
          match r2 with
          | [] => DV_dotdot_end
          | c :: r3 => if c =? pth_SL then DV_dotdot_sl r3 else DV_other
          end
        else DV_other
      end
    else DV_other
  end.

Inductive dot_act := Dot_exit | Dot_cont (c : option N) (rest o : bytes).

Definition dot_stepE (c : N) (rest o : bytes) : dot_act :=
  let '(r', o') := dot_copy_seg rest (c :: o) in Dot_cont None r' o'.

(* one iteration of while ((rpos < len) && (wpos < len)); c = pending character (None = -1), rest = data[rpos..] *)
Definition dot_iter (c : option N) (rest o : bytes) : dot_act :=
  match rest with
  | [] => Dot_exit
  | x :: r =>
    let '(c, rest) := match c with None => (x, r) | Some c => (c, rest) end in
    if c =? pth_DOT then
      match dot_view rest with
      | DV_dot_sl r' => Dot_cont None r' o          (* A: "../" *)
      | DV_sl r' => Dot_cont None r' o              (* A: "./"  *)
      | DV_nil => Dot_exit                          (* D: "."   *)
      | DV_dot_end => Dot_exit                      (* D: ".."  *)
      | _ => dot_stepE c rest o
      end
    else if c =? pth_SL then
      match dot_view rest with
      | DV_dot_sl r' => Dot_cont (Some pth_SL) r' o                     (* B: "/./" *)
      | DV_dot_end => Dot_cont (Some pth_SL) [] o                       (* B: "/."  *)
      | DV_dotdot_sl r' => Dot_cont (Some pth_SL) r' (dot_drop_seg o)   (* C: "/../" *)
      | DV_dotdot_end => Dot_cont (Some pth_SL) [] (dot_drop_seg o)     (* C: "/.."  *)
      | _ => dot_stepE c rest o
      end
    else dot_stepE c rest o
  end.

Fixpoint dot_run (fuel : nat) (c : option N) (rest o : bytes) : option bytes :=
  match fuel with
  | O => None
  | S f => match dot_iter c rest o with
           | Dot_exit => Some o
           | Dot_cont c' r' o' => dot_run f c' r' o'
           end
  end.

Definition dot_normalize_opt (s : bytes) : option bytes :=
  option_map (@rev N) (dot_run (2 * length s + 2) None s []).

(* OutOfFuel is excluded by PPath.dot_fuel_sufficient; the fallback value is never taken *)
Definition dot_normalize (s : bytes) : bytes :=
  match dot_normalize_opt s with Some o => o | None => s end.

Definition dot_is_dotseg (g : bytes) : bool :=
  match g with
  | [a] => a =? pth_DOT
  | [a; b] => (a =? pth_DOT) && (b =? pth_DOT)
  | _ => false
  end.

(* ------------------------------------------------------------------ the path part of htp_normalize_parsed_uri *)

Definition pth_pipeline_st (c : dcfg) (s : bytes) : bytes * pst :=
  let '(p1, st1) := pth_decode_path c s in
  let '(p2, st2) := if d_bestfit c then utf8_decode_path c p1 st1 else (p1, utf8_validate_path p1 st1) in
  (dot_normalize p2, st2).
Definition pth_pipeline (c : dcfg) (s : bytes) : bytes := fst (pth_pipeline_st c s).
