(* Data model of the connection parser (htp_connp_t + htp_conn_t + htp_tx_t + the part of
   htp_cfg_t the stream parser reads). Every field names the C field it stands for; pointer
   identity of a transaction is its index in conn->transactions (+ the number of slots already
   shifted out by htp_connp_tx_freed). Not modelled: log text, timestamps, addresses,
   user_data, hybrid setters, file extraction; decompression, urlencoded/multipart content
   handlers, cookies and authorization parsing are switched off in the configuration the
   S-connp suite uses (they have their own suites). *)
From RecordUpdate Require Export RecordUpdate.
Require Export Htp.Model.Base.

(* ---- configuration (read-only argument of every step) ---- *)
Record cfg := mkcfg {
  g_personality : Z;                 (* enum htp_server_personality_t as a number *)
  g_field_limit_hard : nat;
  g_max_tx : nat;                    (* 0 = unlimited *)
  g_tx_auto_destroy : bool;
  g_allow_space_uri : bool;
  g_leading_ws_unwanted : Z;         (* requestline_leading_whitespace_unwanted, 0 = IGNORE *)
  g_dec_defaults : dcfg; g_dec_urlencoded : dcfg; g_dec_url_path : dcfg;   (* decoder_cfgs[] *)
  g_nul_terminates_line : bool       (* parse_request_line = htp_parse_request_line_apache_2_2 *)
}.

(* ---- hooks and the callback oracle ---- *)
(* hook ids (also used in the driver formats):
   0 REQUEST_START 1 REQUEST_LINE 2 REQUEST_URI_NORMALIZE 3 REQUEST_HEADER_DATA 4 REQUEST_HEADERS
   5 REQUEST_BODY_DATA 6 REQUEST_FILE_DATA 7 REQUEST_TRAILER_DATA 8 REQUEST_TRAILER 9 REQUEST_COMPLETE
   10 RESPONSE_START 11 RESPONSE_LINE 12 RESPONSE_HEADER_DATA 13 RESPONSE_HEADERS 14 RESPONSE_BODY_DATA
   15 RESPONSE_TRAILER_DATA 16 RESPONSE_TRAILER 17 RESPONSE_COMPLETE 18 TRANSACTION_COMPLETE *)
Definition H_REQUEST_START := 0%nat. Definition H_REQUEST_LINE := 1%nat. Definition H_REQUEST_URI_NORMALIZE := 2%nat.
Definition H_REQUEST_HEADER_DATA := 3%nat. Definition H_REQUEST_HEADERS := 4%nat. Definition H_REQUEST_BODY_DATA := 5%nat.
Definition H_REQUEST_FILE_DATA := 6%nat. Definition H_REQUEST_TRAILER_DATA := 7%nat. Definition H_REQUEST_TRAILER := 8%nat.
Definition H_REQUEST_COMPLETE := 9%nat. Definition H_RESPONSE_START := 10%nat. Definition H_RESPONSE_LINE := 11%nat.
Definition H_RESPONSE_HEADER_DATA := 12%nat. Definition H_RESPONSE_HEADERS := 13%nat. Definition H_RESPONSE_BODY_DATA := 14%nat.
Definition H_RESPONSE_TRAILER_DATA := 15%nat. Definition H_RESPONSE_TRAILER := 16%nat. Definition H_RESPONSE_COMPLETE := 17%nat.
Definition H_TRANSACTION_COMPLETE := 18%nat.
(* tx-level body hooks registered by a callback (htp_tx_register_*_body_data): they log and return OK *)
Definition H_TX_REQUEST_BODY_DATA := 19%nat. Definition H_TX_RESPONSE_BODY_DATA := 20%nat. Definition N_HOOKS := 21%nat.

(* what a registered callback does when invoked: 0 OK, 1 DECLINED, 2 STOP, 3 ERROR,
   4 register a tx-level request-body hook on the tx (then OK), 5 same for the response body,
   6 htp_tx_destroy(the transaction the hook runs for) (then OK) *)
Inductive cb_action := CB_OK | CB_DECLINED | CB_STOP | CB_ERROR | CB_REG_REQ_BODY | CB_REG_RES_BODY | CB_DESTROY_TX.
(* the oracle: hook id -> n-th invocation of that hook on this connection (from 0) -> action *)
Definition cb_oracle := nat -> nat -> cb_action.

(* inner status of a state function (htp_status_t) *)
Inductive st := ST_OK | ST_ERROR | ST_DECLINED | ST_DATA | ST_DATA_OTHER | ST_STOP | ST_DATA_BUFFER.

(* ---- transaction ---- *)
Record header := mkhdr { h_name : bytes; h_value : bytes; h_flags : N }.
Record puri := mkpuri { u_scheme : option bytes; u_user : option bytes; u_pass : option bytes; u_host : option bytes;
                        u_port : option bytes; u_path : option bytes; u_query : option bytes; u_frag : option bytes;
                        u_port_number : Z }.
Definition puri_empty := mkpuri None None None None None None None None (-1)%Z.

Record tx := mktx {
  t_id : nat;                          (* identity: order of creation on this connection *)
  t_index : nat;                       (* tx->index: size of conn->transactions when it was created *)
  t_request_ignored_lines : nat; t_request_line : option bytes; t_request_method : option bytes;
  t_request_uri : option bytes; t_request_protocol : option bytes;
  t_request_method_number : Z; t_request_protocol_number : Z; t_is_protocol_0_9 : bool;
  t_parsed_uri_raw : puri; t_parsed_uri : option puri;
  t_request_message_len : Z; t_request_entity_len : Z;
  t_request_headers : list header;           (* htp_table_t, insertion order (C17) *)
  t_request_transfer_coding : Z; t_request_content_length : Z; t_request_content_type : option bytes;
  t_request_hostname : option bytes; t_request_port_number : Z;
  t_req_header_repetitions : nat;
  t_hook_request_body : nat; t_hook_response_body : nat;     (* number of tx-level callbacks registered *)
  t_response_ignored_lines : nat; t_response_line : option bytes; t_response_protocol : option bytes;
  t_response_status : option bytes; t_response_message : option bytes;
  t_response_protocol_number : Z; t_response_status_number : Z; t_response_status_expected_number : Z;
  t_seen_100continue : nat;
  t_response_headers : list header; t_res_header_repetitions : nat;
  t_response_message_len : Z; t_response_entity_len : Z; t_response_content_length : Z;
  t_response_transfer_coding : Z; t_response_content_type : option bytes;
  t_flags : N; t_request_progress : Z; t_response_progress : Z;
  t_res_cep : Z                        (* response_content_encoding_processing; 0 (calloc) = HTP_COMPRESSION_UNKNOWN *)
}.
#[export] Instance eta_tx : Settable _ := settable! mktx
  <t_id; t_index; t_request_ignored_lines; t_request_line; t_request_method; t_request_uri; t_request_protocol;
   t_request_method_number; t_request_protocol_number; t_is_protocol_0_9; t_parsed_uri_raw; t_parsed_uri;
   t_request_message_len; t_request_entity_len; t_request_headers; t_request_transfer_coding; t_request_content_length;
   t_request_content_type; t_request_hostname; t_request_port_number; t_req_header_repetitions;
   t_hook_request_body; t_hook_response_body; t_response_ignored_lines; t_response_line; t_response_protocol;
   t_response_status; t_response_message; t_response_protocol_number; t_response_status_number;
   t_response_status_expected_number; t_seen_100continue; t_response_headers; t_res_header_repetitions;
   t_response_message_len; t_response_entity_len; t_response_content_length; t_response_transfer_coding;
   t_response_content_type; t_flags; t_request_progress; t_response_progress; t_res_cep>.

(* htp_tx_create *)
Definition tx_new (id idx : nat) : tx :=
  mktx id idx 0 None None None None c_HTP_M_UNKNOWN c_HTP_PROTOCOL_UNKNOWN false puri_empty None
       0 0 [] c_HTP_CODING_UNKNOWN (-1) None None 0 0 0 0
       0 None None None None c_HTP_PROTOCOL_UNKNOWN c_HTP_STATUS_UNKNOWN 0 0 [] 0 0 0 (-1) c_HTP_CODING_UNKNOWN None
       0%N c_HTP_REQUEST_NOT_STARTED c_HTP_RESPONSE_NOT_STARTED 0.

(* payload of a data event: None = NULL data pointer; TRANSACTION_COMPLETE carries a snapshot of the tx *)
Record event := mkev { ev_hook : nat; ev_tx : nat; ev_data : option bytes; ev_last : bool; ev_snapshot : option tx }.

(* ---- one direction's view of the caller's chunk + its buffers ---- *)
Record cursor := mkcur {
  k_data : option bytes;        (* in_current_data: None = NULL (gap, close, or no call yet) *)
  k_len : nat;                  (* in_current_len *)
  k_read : nat; k_consume : nat; k_receiver : nat;     (* _read_offset / _consume_offset / _receiver_offset *)
  k_next_byte : option N;       (* in_next_byte: None = -1 *)
  k_buf : option bytes;         (* in_buf / in_buf_size: None = NULL; Some [] is reachable on the response side *)
  k_header : option bytes;      (* in_header *)
  k_receiver_hook : option nat  (* in_data_receiver_hook: the cfg hook id receiving raw header/trailer bytes *)
}.
#[export] Instance eta_cursor : Settable _ := settable! mkcur
  <k_data; k_len; k_read; k_consume; k_receiver; k_next_byte; k_buf; k_header; k_receiver_hook>.
Definition cursor_new := mkcur None 0 0 0 0 None None None None.

Inductive req_state := REQ_IDLE | REQ_LINE | REQ_PROTOCOL | REQ_HEADERS | REQ_CONNECT_CHECK | REQ_CONNECT_WAIT_RESPONSE
  | REQ_CONNECT_PROBE_DATA | REQ_BODY_DETERMINE | REQ_BODY_IDENTITY | REQ_BODY_CHUNKED_LENGTH | REQ_BODY_CHUNKED_DATA
  | REQ_BODY_CHUNKED_DATA_END | REQ_FINALIZE | REQ_IGNORE_DATA_AFTER_HTTP_0_9.
Inductive res_state := RES_IDLE | RES_LINE | RES_HEADERS | RES_BODY_DETERMINE | RES_BODY_IDENTITY_CL_KNOWN
  | RES_BODY_IDENTITY_STREAM_CLOSE | RES_BODY_CHUNKED_LENGTH | RES_BODY_CHUNKED_DATA | RES_BODY_CHUNKED_DATA_END | RES_FINALIZE.
Definition req_state_eqb (a b : req_state) : bool :=
  match a, b with
  | REQ_IDLE, REQ_IDLE | REQ_LINE, REQ_LINE | REQ_PROTOCOL, REQ_PROTOCOL | REQ_HEADERS, REQ_HEADERS
  | REQ_CONNECT_CHECK, REQ_CONNECT_CHECK | REQ_CONNECT_WAIT_RESPONSE, REQ_CONNECT_WAIT_RESPONSE
  | REQ_CONNECT_PROBE_DATA, REQ_CONNECT_PROBE_DATA | REQ_BODY_DETERMINE, REQ_BODY_DETERMINE
  | REQ_BODY_IDENTITY, REQ_BODY_IDENTITY | REQ_BODY_CHUNKED_LENGTH, REQ_BODY_CHUNKED_LENGTH
  | REQ_BODY_CHUNKED_DATA, REQ_BODY_CHUNKED_DATA | REQ_BODY_CHUNKED_DATA_END, REQ_BODY_CHUNKED_DATA_END
  | REQ_FINALIZE, REQ_FINALIZE | REQ_IGNORE_DATA_AFTER_HTTP_0_9, REQ_IGNORE_DATA_AFTER_HTTP_0_9 => true
  | _, _ => false
  end.
Definition res_state_eqb (a b : res_state) : bool :=
  match a, b with
  | RES_IDLE, RES_IDLE | RES_LINE, RES_LINE | RES_HEADERS, RES_HEADERS | RES_BODY_DETERMINE, RES_BODY_DETERMINE
  | RES_BODY_IDENTITY_CL_KNOWN, RES_BODY_IDENTITY_CL_KNOWN | RES_BODY_IDENTITY_STREAM_CLOSE, RES_BODY_IDENTITY_STREAM_CLOSE
  | RES_BODY_CHUNKED_LENGTH, RES_BODY_CHUNKED_LENGTH | RES_BODY_CHUNKED_DATA, RES_BODY_CHUNKED_DATA
  | RES_BODY_CHUNKED_DATA_END, RES_BODY_CHUNKED_DATA_END | RES_FINALIZE, RES_FINALIZE => true
  | _, _ => false
  end.

(* ---- the connection parser ---- *)
Record connp := mkconnp {
  c_in_status : Z; c_out_status : Z;                 (* enum htp_stream_state_t as numbers , c_HTP_STREAM_x *)
  c_in_state : req_state; c_in_state_previous : option req_state;      (* None = NULL function pointer *)
  c_out_state : res_state; c_out_state_previous : option res_state;
  c_in : cursor; c_out : cursor;
  c_in_tx : option nat; c_out_tx : option nat;       (* ABSOLUTE transaction index (t_index) *)
  c_txs : list (option tx);                          (* conn->transactions; None = slot NULLed by htp_tx_destroy *)
  c_txs_shifted : nat;                               (* slots removed at the front by htp_connp_tx_freed *)
  c_out_next_tx_index : nat;                         (* position in c_txs (as in the C: index into the list) *)
  c_out_data_other_at_tx_end : bool;
  c_in_content_length : Z; c_in_body_data_left : Z; c_in_chunked_length : Z;
  c_out_content_length : Z; c_out_body_data_left : Z; c_out_chunked_length : Z;
  c_in_chunk_count : nat; c_in_chunk_request_index : nat;
  c_conn_flags : N; c_in_data_counter : Z; c_out_data_counter : Z;
  c_hook_calls : list nat;                           (* per hook id: invocations so far (feeds the oracle) *)
  c_events : list event;                             (* events of the current API call, newest first *)
  c_fault : bool                                     (* a checked access failed / a freed tx was used (C01 observable) *)
}.
#[export] Instance eta_connp : Settable _ := settable! mkconnp
  <c_in_status; c_out_status; c_in_state; c_in_state_previous; c_out_state; c_out_state_previous; c_in; c_out;
   c_in_tx; c_out_tx; c_txs; c_txs_shifted; c_out_next_tx_index; c_out_data_other_at_tx_end;
   c_in_content_length; c_in_body_data_left; c_in_chunked_length; c_out_content_length; c_out_body_data_left;
   c_out_chunked_length; c_in_chunk_count; c_in_chunk_request_index; c_conn_flags; c_in_data_counter; c_out_data_counter;
   c_hook_calls; c_events; c_fault>.

(* htp_connp_create *)
Definition connp_new : connp :=
  mkconnp c_HTP_STREAM_NEW c_HTP_STREAM_NEW REQ_IDLE None RES_IDLE None cursor_new cursor_new None None [] 0 0 false
          0 0 0 0 0 0 0 0 0%N 0 0 (repeat 0 N_HOOKS) [] false.

(* ---- transaction table access (by absolute index) ---- *)
Definition tx_slot (c : connp) (i : nat) : option tx :=
  if i <? c_txs_shifted c then None
  else match nth_error (c_txs c) (i - c_txs_shifted c) with Some (Some t) => Some t | _ => None end.
(* reading through a tx pointer that does not name a live transaction is a fault; the model then
   continues with a fresh record so that it stays total *)
Definition tx_get (c : connp) (i : nat) : tx := match tx_slot c i with Some t => t | None => tx_new i 0 end.
Definition tx_put (c : connp) (i : nat) (t : tx) : connp :=
  if i <? c_txs_shifted c then c <| c_fault := true |>
  else if i - c_txs_shifted c <? length (c_txs c)
       then c <| c_txs := upd (c_txs c) (i - c_txs_shifted c) (Some t) |>
       else c <| c_fault := true |>.
Definition tx_upd (c : connp) (i : nat) (f : tx -> tx) : connp :=
  match tx_slot c i with Some t => tx_put c i (f t) | None => c <| c_fault := true |> end.
(* connp->in_tx / out_tx as a dereferenced pointer: None (NULL) dereferenced = fault *)
Definition in_txi (c : connp) : nat := match c_in_tx c with Some i => i | None => 0 end.
Definition out_txi (c : connp) : nat := match c_out_tx c with Some i => i | None => 0 end.

(* ---- events and callbacks ---- *)
Definition flag_set (f bit : N) : N := N.lor f bit.
Definition flag_has (f bit : N) : bool := negb (N.land f bit =? 0)%N.

Definition hook_count (c : connp) (h : nat) : nat := nth h (c_hook_calls c) 0.
Definition bump_hook (c : connp) (h : nat) : connp := c <| c_hook_calls := upd (c_hook_calls c) h (S (hook_count c h)) |>.
Definition emit (c : connp) (e : event) : connp := c <| c_events := e :: c_events c |>.

Definition st_of_action (a : cb_action) : st :=
  match a with CB_STOP => ST_STOP | CB_ERROR => ST_ERROR | CB_DECLINED => ST_DECLINED | _ => ST_OK end.
