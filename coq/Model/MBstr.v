(* bstr.c / htp_util.c / htp_parsers.c: byte-string primitives and numeric parsers.
   Loops over (data,len) become structural recursion over the unread suffix; C integers whose
   range matters are Z with the C range test written where the C has it. *)
Require Import Htp.Model.Base.
Local Open Scope Z_scope.

Definition zb (b : N) : Z := Z.of_N b.

(* ---- compare ---- *)
(* bstr_util_cmp_mem *)
Fixpoint cmp_mem (a b : bytes) : Z :=
  match a, b with
  | [], [] => 0
  | [], _ :: _ => -1
  | _ :: _, [] => 1
  | x :: a', y :: b' => if (x =? y)%N then cmp_mem a' b' else if (x <? y)%N then -1 else 1
  end.

(* bstr_util_cmp_mem_nocase *)
Fixpoint cmp_mem_nocase (a b : bytes) : Z :=
  match a, b with
  | [], [] => 0
  | [], _ :: _ => -1
  | _ :: _, [] => 1
  | x :: a', y :: b' =>
    if (c_tolower x =? c_tolower y)%N then cmp_mem_nocase a' b'
    else if (c_tolower x <? c_tolower y)%N then -1 else 1
  end.

(* bstr_util_cmp_mem_nocasenorzero: NUL bytes of the FIRST argument are skipped *)
Fixpoint skip_zeros (a : bytes) : bytes :=
  match a with x :: a' => if (x =? 0)%N then skip_zeros a' else a | [] => [] end.
Fixpoint cmp_mem_nocasenorzero (a b : bytes) : Z :=
  match a with
  | [] => match b with [] => 0 | _ :: _ => -1 end
  | x :: a' =>
    match b with
    | [] => match skip_zeros a with [] => 0 | _ :: _ => 1 end
    | y :: b' =>
      if (x =? 0)%N then cmp_mem_nocasenorzero a' b
      else if (c_tolower x =? c_tolower y)%N then cmp_mem_nocasenorzero a' b'
      else if (c_tolower x <? c_tolower y)%N then -1 else 1
    end
  end.

(* ---- search ---- *)
(* inner loop of bstr_util_mem_index_of_mem: true iff it leaves with j == len2 *)
Fixpoint match_at (h n : bytes) : bool :=
  match n with
  | [] => true
  | y :: n' => match h with [] => false | x :: h' => if (x =? y)%N then match_at h' n' else false end
  end.
Fixpoint index_from (h n : bytes) (i : Z) : Z :=
  match h with
  | [] => -1
  | _ :: h' => if match_at h n then i else index_from h' n (i + 1)
  end.
Definition index_of_mem (h n : bytes) : Z := index_from h n 0.

Fixpoint match_at_nocase (h n : bytes) : bool :=
  match n with
  | [] => true
  | y :: n' => match h with [] => false
                       | x :: h' => if (c_toupper x =? c_toupper y)%N then match_at_nocase h' n' else false end
  end.
Fixpoint index_from_nocase (h n : bytes) (i : Z) : Z :=
  match h with
  | [] => -1
  | _ :: h' => if match_at_nocase h n then i else index_from_nocase h' n (i + 1)
  end.
Definition index_of_mem_nocase (h n : bytes) : Z := index_from_nocase h n 0.

(* ..._nocasenorzero: NULs in the haystack are skipped, a match never starts on a NUL *)
Fixpoint match_at_nz (h n : bytes) : bool :=
  match n with
  | [] => true
  | y :: n' =>
    match h with
    | [] => false
    | x :: h' => if (x =? 0)%N then match_at_nz h' n
                 else if (c_toupper x =? c_toupper y)%N then match_at_nz h' n' else false
    end
  end.
Fixpoint index_from_nz (h n : bytes) (i : Z) : Z :=
  match h with
  | [] => -1
  | x :: h' => if (x =? 0)%N then index_from_nz h' n (i + 1)
               else if match_at_nz h n then i else index_from_nz h' n (i + 1)
  end.
Definition index_of_mem_nocasenorzero (h n : bytes) : Z := index_from_nz h n 0.

(* bstr_begins_with_mem / _nocase *)
Fixpoint begins_with_mem (h n : bytes) : bool :=
  match n with
  | [] => true
  | y :: n' => match h with [] => false | x :: h' => if (x =? y)%N then begins_with_mem h' n' else false end
  end.
Fixpoint begins_with_mem_nocase (h n : bytes) : bool :=
  match n with
  | [] => true
  | y :: n' => match h with [] => false
                       | x :: h' => if (c_tolower x =? c_tolower y)%N then begins_with_mem_nocase h' n' else false end
  end.

(* bstr_chr / bstr_rchr *)
Fixpoint chr_from (s : bytes) (c : N) (i : Z) : Z :=
  match s with [] => -1 | x :: r => if (x =? c)%N then i else chr_from r c (i + 1) end.
Definition bstr_chr (s : bytes) (c : N) : Z := chr_from s c 0.
Definition bstr_rchr (s : bytes) (c : N) : Z :=
  match chr_from (rev s) c 0 with -1 => -1 | k => Z.of_nat (length s) - 1 - k end.

(* bstr_util_mem_trim (isspace on both ends) *)
Fixpoint drop_while (p : N -> bool) (s : bytes) : bytes :=
  match s with [] => [] | x :: r => if p x then drop_while p r else s end.
Definition strip_right (p : N -> bool) (s : bytes) : bytes := rev (drop_while p (rev s)).
Definition mem_trim (s : bytes) : bytes := strip_right c_isspace (drop_while c_isspace s).

(* bstr_to_lowercase *)
Definition to_lowercase (s : bytes) : bytes := map c_tolower s.

(* bstr_add_mem_noex: dest has capacity size and content d; returns the new content *)
Definition add_mem_noex (size : nat) (d src : bytes) : bytes :=
  if (size <? length d + length src)%nat then d ++ firstn (size - length d) src else d ++ src.

(* ---- numbers ---- *)
Definition INT64_MAX : Z := c_INT64_MAX.
Definition INT32_MAX : Z := c_INT32_MAX.

Definition digit_of (c : N) : Z :=
  let c := zb c in
  if (48 <=? c) && (c <=? 57) then c - 48
  else if (97 <=? c) && (c <=? 122) then c - 87
  else if (65 <=? c) && (c <=? 90) then c - 55
  else -1.

(* bstr_util_mem_to_pint: (return value, *lastlen) *)
Fixpoint pint_loop (s : bytes) (base : Z) (i : nat) (rval : Z) (tflag : bool) : Z * nat :=
  match s with
  | [] => (rval, S i)
  | c :: r =>
    let d := digit_of c in
    if (d =? -1) || (base <=? d) then ((if tflag then rval else -1), i)
    else if tflag then
      if (INT64_MAX - d) / base <? rval then (-2, i)
      else pint_loop r base (S i) (rval * base + d) true
    else pint_loop r base (S i) d true
  end.
Definition mem_to_pint (s : bytes) (base : Z) : Z * nat := pint_loop s base 0 0 false.

(* htp_parse_positive_integer_whitespace *)
Definition parse_positive_integer_whitespace (s : bytes) (base : Z) : Z :=
  match s with
  | [] => -1003
  | _ =>
    let s1 := drop_while htp_is_lws s in
    match s1 with
    | [] => -1001
    | _ =>
      let '(r, lastpos) := mem_to_pint s1 base in
      if r <? 0 then r
      else if forallb htp_is_lws (skipn lastpos s1) then r else -1002
    end
  end.

(* htp_parse_content_length (connp = NULL: no logging) *)
Definition is_dec_digit (c : N) : bool := (48 <=? zb c) && (zb c <=? 57).
Definition parse_content_length (s : bytes) : Z :=
  match s with
  | [] => -1003
  | _ =>
    match drop_while (fun c => negb (is_dec_digit c)) s with
    | [] => -1001
    | s1 => fst (mem_to_pint s1 10)
    end
  end.

(* htp_parse_chunked_length: (value, extension flag raised) *)
Definition is_chunk_ctl (c : N) : bool :=
  let c := zb c in (c =? 13) || (c =? 10) || (c =? 32) || (c =? 9) || (c =? 11) || (c =? 12).
Definition is_hex_digit (c : N) : bool :=
  c_isdigit c || ((97 <=? zb c) && (zb c <=? 102)) || ((65 <=? zb c) && (zb c <=? 70)).
Fixpoint take_while (p : N -> bool) (s : bytes) : bytes :=
  match s with [] => [] | x :: r => if p x then x :: take_while p r else [] end.
Definition parse_chunked_length (s : bytes) : Z * bool :=
  match drop_while is_chunk_ctl s with
  | [] => (-1004, false)
  | s1 =>
    let digs := take_while is_hex_digit s1 in
    let rest := drop_while is_hex_digit s1 in
    let ext := existsb (fun c => (c =? 59)%N) rest in
    let v := parse_positive_integer_whitespace digs 16 in
    ((if v <? 0 then v else if INT32_MAX <? v then -1 else v), ext)
  end.

(* htp_parse_status *)
Definition parse_status (s : bytes) : Z :=
  let r := parse_positive_integer_whitespace s 10 in
  if (c_HTP_VALID_STATUS_MIN <=? r) && (r <=? c_HTP_VALID_STATUS_MAX) then r else c_HTP_STATUS_INVALID.

(* htp_parse_protocol *)
Definition parse_protocol (s : bytes) : Z :=
  match s with
  | [h; t1; t2; p; sl; a; dot; b] =>
    if ((h =? 72) && (t1 =? 84) && (t2 =? 84) && (p =? 80) && (sl =? 47) && (dot =? 46))%N then
      if (a =? 48)%N then (if (b =? 57)%N then c_HTP_PROTOCOL_0_9 else c_HTP_PROTOCOL_INVALID)
      else if (a =? 49)%N then
        (if (b =? 48)%N then c_HTP_PROTOCOL_1_0 else if (b =? 49)%N then c_HTP_PROTOCOL_1_1 else c_HTP_PROTOCOL_INVALID)
      else c_HTP_PROTOCOL_INVALID
    else c_HTP_PROTOCOL_INVALID
  | _ => c_HTP_PROTOCOL_INVALID
  end.
