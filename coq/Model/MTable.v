(* htp_table_* (htp/htp_table.c): keys and elements alternate in an htp_list. The list is used
   through its abstract interface (Proof/PList.v proves the ring buffer implements it); element
   values are opaque non-zero ids, keys are byte strings. *)
Require Import Htp.Model.Base Htp.Model.MBstr.

Inductive elem := EK (k : bytes) | EV (v : nat).
(* alloc_type: 0 unknown, 1 copied (add), 2 adopted (addn), 3 referenced (addk) *)
Record table := mktable { t_alloc : nat; t_list : list elem }.

Inductive top :=
  | TAdd (mode : nat) (k : bytes) (v : nat)      (* htp_table_add / addn / addk *)
  | TGet (k : bytes) | TGetC (k : bytes) | TGetMem (k : bytes)
  | TGetIndex (i : nat) | TSize | TClear.
Inductive tres := TOk | TError | TVal (v : option nat) | TKeyVal (k : option bytes) (v : option nat) | TSz (n : nat) | TUnit.

Definition tcreate : table := mktable 0 [].

(* _htp_table_add after the mode test *)
Definition tadd (t : table) (mode : nat) (k : bytes) (v : nat) : table * tres :=
  if t_alloc t =? 0 then (mktable mode (t_list t ++ [EK k; EV v]), TOk)
  else if t_alloc t =? mode then (mktable (t_alloc t) (t_list t ++ [EK k; EV v]), TOk)
  else (t, TError).

(* the lookup loops: i = 0, 2, 4 ...; candidate at i, element at i+1 *)
Fixpoint tscan (p : bytes -> bool) (l : list elem) : option nat :=
  match l with
  | EK k :: EV v :: r => if p k then Some v else tscan p r
  | _ => None
  end.

Definition tget (t : table) (k : bytes) := tscan (fun c => (cmp_mem_nocase c k =? 0)%Z) (t_list t).
Definition tget_c (t : table) (k : bytes) := tscan (fun c => (cmp_mem_nocasenorzero c k =? 0)%Z) (t_list t).
Definition tget_mem (t : table) (k : bytes) := tscan (fun c => (cmp_mem_nocase c k =? 0)%Z) (t_list t).

Definition tget_index (t : table) (i : nat) : tres :=
  if length (t_list t) <=? i then TKeyVal None None
  else TKeyVal (match nth_error (t_list t) (i * 2) with Some (EK k) => Some k | _ => None end)
               (match nth_error (t_list t) (i * 2 + 1) with Some (EV v) => Some v | _ => None end).

Definition tstep (t : table) (o : top) : table * tres :=
  match o with
  | TAdd m k v => tadd t m k v
  | TGet k => (t, TVal (tget t k))
  | TGetC k => (t, TVal (tget_c t k))
  | TGetMem k => (t, TVal (tget_mem t k))
  | TGetIndex i => (t, tget_index t i)
  | TSize => (t, TSz (Nat.div2 (length (t_list t))))
  | TClear => (mktable (t_alloc t) [], TUnit)
  end.

(* ---- the abstract type: an insertion-ordered multimap with a key-management mode ---- *)
Record mmap := mkmm { m_mode : nat; m_pairs : list (bytes * nat) }.
Definition lower (s : bytes) := map c_tolower s.
Definition nonzero (s : bytes) := filter (fun b => negb (b =? 0)%N) s.
Definition mfind (p : bytes -> bool) (l : list (bytes * nat)) : option nat :=
  match find (fun kv => p (fst kv)) l with Some kv => Some (snd kv) | None => None end.
Definition mstep (m : mmap) (o : top) : mmap * tres :=
  match o with
  | TAdd mode k v =>
    if (m_mode m =? 0) || (m_mode m =? mode) then (mkmm (if m_mode m =? 0 then mode else m_mode m) (m_pairs m ++ [(k, v)]), TOk)
    else (m, TError)
  | TGet k | TGetMem k => (m, TVal (mfind (fun c => if list_eq_dec N.eq_dec (lower c) (lower k) then true else false) (m_pairs m)))
  | TGetC k => (m, TVal (mfind (fun c => if list_eq_dec N.eq_dec (lower (nonzero c)) (lower k) then true else false) (m_pairs m)))
  | TGetIndex i => (m, match nth_error (m_pairs m) i with Some (k, v) => TKeyVal (Some k) (Some v) | None => TKeyVal None None end)
  | TSize => (m, TSz (length (m_pairs m)))
  | TClear => (mkmm (m_mode m) [], TUnit)
  end.

Definition tobserve {S} (step : S -> top -> S * tres) (s0 : S) (ops : list top) : list tres :=
  snd (fold_left (fun '(s, acc) o => let '(s', x) := step s o in (s', x :: acc)) ops (s0, [])).
