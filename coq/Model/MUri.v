(* htp_util.c: htp_parse_uri, htp_parse_hostport (+ htp_parse_port), and the port conversion of
   htp_normalize_parsed_uri. Code-shaped: every scan `while (pos < len && data[pos] != c) pos++` /
   memchr is a split of the unread suffix at the first occurrence, in the order the C performs them;
   the (data,len,pos) arithmetic becomes the pair (part before, part after). What htp_parse_uri stores
   in htp_uri_t is the record below (NULL = None, empty bstr = Some []), BEFORE normalisation. *)
Require Import Htp.Model.Base Htp.Model.MBstr.
Local Open Scope N_scope.

Record uri := mk_uri {
  uri_scheme : option bytes; uri_username : option bytes; uri_password : option bytes;
  uri_hostname : option bytes; uri_port : option bytes; uri_path : option bytes;
  uri_query : option bytes; uri_fragment : option bytes }.

(* calloc'ed htp_uri_t: every pointer NULL *)
Definition uri_empty : uri := mk_uri None None None None None None None None.

(* memchr(s, c, len): None when absent, else (bytes before the first c, bytes after it) *)
Fixpoint uri_memchr (c : N) (s : bytes) : option (bytes * bytes) :=
  match s with
  | [] => None
  | x :: r => if x =? c then Some ([], r)
              else match uri_memchr c r with Some (a, b) => Some (x :: a, b) | None => None end
  end.

(* while ((pos < len) && !stop(data[pos])) pos++ : (bytes passed over, unread suffix) *)
Fixpoint uri_until (stop : N -> bool) (s : bytes) : bytes * bytes :=
  match s with
  | [] => ([], [])
  | x :: r => if stop x then ([], s) else let '(a, b) := uri_until stop r in (x :: a, b)
  end.

Definition uri_COLON : N := 58.  Definition uri_SLASH : N := 47.  Definition uri_AT : N := 64.
Definition uri_QMARK : N := 63.  Definition uri_HASH : N := 35.
Definition uri_LBR : N := 91.    Definition uri_RBR : N := 93.

(* "remove trailing spaces": while (len > 0) { if (data[len-1] != ' ') break; len--; } *)
Definition uri_strip (input : bytes) : bytes := strip_right (N.eqb SP) input.

(* scheme test: only when data[0] != '/'; no colon -> pos = 0 and no scheme *)
Definition uri_split_scheme (t : bytes) : option bytes * bytes :=
  match t with
  | [] => (None, t)
  | c0 :: _ =>
    if c0 =? uri_SLASH then (None, t)
    else match uri_memchr uri_COLON t with
         | None => (None, t)
         | Some (s, r) => (Some s, r)
         end
  end.

(* authority test: scheme seen, pos + 2 < len, "//" not followed by a third '/'.
   Returns (authority text if recognised, unread suffix). *)
Definition uri_auth_stop (c : N) : bool := (c =? uri_QMARK) || (c =? uri_SLASH) || (c =? uri_HASH).
Definition uri_split_authority (scheme : option bytes) (r : bytes) : option bytes * bytes :=
  match scheme with
  | None => (None, r)
  | Some _ =>
    match r with
    | x :: y :: z :: r' =>
      if (x =? uri_SLASH) && (y =? uri_SLASH) && negb (z =? uri_SLASH)
      then let '(a, rest) := uri_until uri_auth_stop (z :: r') in (Some a, rest)
      else (None, r)
    | _ => (None, r)
    end
  end.

(* credentials: memchr(data + start, '@', pos - start); user[:password] before it *)
Definition uri_split_credentials (a : bytes) : option bytes * option bytes * bytes :=
  match uri_memchr uri_AT a with
  | Some (cred, hostpart) =>
    match uri_memchr uri_COLON cred with
    | Some (u, p) => (Some u, Some p, hostpart)
    | None => (Some cred, None, hostpart)
    end
  | None => (None, None, a)
  end.

(* "Parsing authority without credentials": (hostname, port) *)
Definition uri_parse_hostpart (h : bytes) : option bytes * option bytes :=
  let plain :=
    match uri_memchr uri_COLON h with
    | Some (hn, p) => (Some hn, Some p)
    | None => (Some h, None)
    end in
  match h with
  | c :: _ =>
    if c =? uri_LBR then
      match uri_memchr uri_RBR h with
      | None => (Some h, None)                            (* invalid IPv6: entire string *)
      | Some (b, rest) =>
        (* hostname = up to and including ']'; the port is searched in what follows it *)
        match uri_memchr uri_COLON rest with
        | Some (_, p) => (Some (b ++ [uri_RBR]), Some p)
        | None => (Some (b ++ [uri_RBR]), None)
        end
      end
    else plain
  | [] => plain
  end.

Definition uri_pq_stop (c : N) : bool := (c =? uri_QMARK) || (c =? uri_HASH).
Definition uri_q_stop (c : N) : bool := c =? uri_HASH.

(* path / query / fragment of the unread suffix *)
Definition uri_parse_tail (r : bytes) : option bytes * option bytes * option bytes :=
  let '(path, r3) := uri_until uri_pq_stop r in
  match r3 with
  | [] => (Some path, None, None)                           (* pos == len *)
  | c :: r3' =>
    if c =? uri_QMARK then
      let '(q, r4) := uri_until uri_q_stop r3' in
      match r4 with
      | [] => (Some path, Some q, None)                     (* pos == len *)
      | d :: f => if d =? uri_HASH then (Some path, Some q, Some f) else (Some path, Some q, None)
      end
    else if c =? uri_HASH then (Some path, None, Some r3')
    else (Some path, None, None)
  end.

Definition parse_uri (input : bytes) : uri :=
  let t := uri_strip input in
  match t with
  | [] => uri_empty                                         (* len == 0: nothing is set, not even the path *)
  | _ :: _ =>
    let '(scheme, r1) := uri_split_scheme t in
    let '(auth, r2) := uri_split_authority scheme r1 in
    let '(path, query, frag) := uri_parse_tail r2 in
    match auth with
    | None => mk_uri scheme None None None None path query frag
    | Some a =>
      let '(user, pass, hostpart) := uri_split_credentials a in
      let '(host, port) := uri_parse_hostpart hostpart in
      mk_uri scheme user pass host port path query frag
    end
  end.

(* ---- ports ---- *)
Local Open Scope Z_scope.

(* the range test shared by htp_parse_port and htp_normalize_parsed_uri: (port_number, invalid raised) *)
Definition uri_port_of_parsed (v : Z) : Z * bool :=
  if v <? 0 then (-1, true)
  else if (0 <? v) && (v <? 65536) then (v, false)
  else (-1, true).

(* htp_parse_port *)
Definition uri_parse_port (p : bytes) : Z * bool :=
  match p with
  | [] => (-1, true)
  | _ :: _ => uri_port_of_parsed (parse_positive_integer_whitespace p 10)
  end.

(* htp_normalize_parsed_uri, "Port." for incomplete->port != NULL: (normalized->port_number, HTP_HOSTU_INVALID raised) *)
Definition norm_port (p : bytes) : Z * bool :=
  uri_port_of_parsed (parse_positive_integer_whitespace p 10).
(* ... and for the optional raw port of a parsed URI *)
Definition uri_norm_port_opt (p : option bytes) : Z * bool :=
  match p with Some p => norm_port p | None => (-1, false) end.

(* htp_parse_hostport: (hostname, port, port_number, invalid) *)
Definition parse_hostport (hp : bytes) : option bytes * option bytes * Z * bool :=
  let d := mem_trim hp in
  match d with
  | [] => (None, None, -1, true)
  | c0 :: _ =>
    if (c0 =? uri_LBR)%N then
      match uri_memchr uri_RBR d with
      | None => (None, None, -1, true)
      | Some (b, rest) =>
        let hn := b ++ [uri_RBR] in
        match rest with
        | [] => (Some hn, None, -1, false)
        | c :: p =>
          if (c =? uri_COLON)%N then let '(v, i) := uri_parse_port p in (Some hn, Some p, v, i)
          else (Some hn, None, -1, true)
        end
      end
    else
      match uri_memchr uri_COLON d with
      | None => (Some (to_lowercase d), None, -1, false)
      | Some (h, p) =>
        let '(v, i) := uri_parse_port p in (Some (strip_right c_isspace h), Some p, v, i)
      end
  end.

(* ---- the property's checker (run on the model in the theorems, on the implementation as oracle) ---- *)
Local Open Scope N_scope.

Definition uri_ob (o : option bytes) : bytes := match o with Some b => b | None => [] end.
Definition uri_some {A} (o : option A) : bool := match o with Some _ => true | None => false end.

Definition uri_has_auth (u : uri) : bool :=
  uri_some (uri_hostname u) || uri_some (uri_username u) || uri_some (uri_password u) || uri_some (uri_port u).

Definition rejoin (u : uri) : bytes :=
  (match uri_scheme u with Some s => s ++ [58] | None => [] end) ++
  (if uri_has_auth u then
     [47; 47] ++
     (if uri_some (uri_username u) || uri_some (uri_password u)
      then uri_ob (uri_username u) ++ (match uri_password u with Some p => 58 :: p | None => [] end) ++ [64]
      else []) ++
     uri_ob (uri_hostname u) ++ (match uri_port u with Some p => 58 :: p | None => [] end)
   else []) ++
  uri_ob (uri_path u) ++
  (match uri_query u with Some q => 63 :: q | None => [] end) ++
  (match uri_fragment u with Some f => 35 :: f | None => [] end).

Fixpoint uri_bytes_eqb (a b : bytes) : bool :=
  match a, b with
  | [], [] => true
  | x :: a', y :: b' => (x =? y) && uri_bytes_eqb a' b'
  | _, _ => false
  end.

(* re-joining reproduces the target minus trailing spaces, and a target that starts with '/'
   has no scheme and no authority component *)
Definition check_C13 (t : bytes) (u : uri) : bool :=
  uri_bytes_eqb (rejoin u) (strip_right (N.eqb SP) t) &&
  match t with
  | c :: _ => if c =? 47 then negb (uri_some (uri_scheme u)) && negb (uri_has_auth u) else true
  | [] => true
  end.

(* the premise of the partial theorem: in the authority's host part (after the first '@', if any),
   when it starts with '[' and contains ']', what follows the first ']' is empty or starts with ':' *)
Definition uri_authority_of (t : bytes) : option bytes :=
  let '(scheme, r1) := uri_split_scheme (uri_strip t) in fst (uri_split_authority scheme r1).
Definition uri_hostpart_of (a : bytes) : bytes := snd (uri_split_credentials a).
Definition uri_after_bracket (h : bytes) : option bytes :=
  match h with
  | c :: _ => if c =? uri_LBR then
                match uri_memchr uri_RBR h with Some (_, rest) => Some rest | None => None end
              else None
  | [] => None
  end.
Definition no_junk_after_bracketb (t : bytes) : bool :=
  match uri_authority_of t with
  | None => true
  | Some a =>
    match uri_after_bracket (uri_hostpart_of a) with
    | None => true
    | Some [] => true
    | Some (c :: _) => c =? uri_COLON
    end
  end.

(* the port oracle: decimal value of LWS* digits LWS* when in 1..65535, else -1 and invalid *)
Definition uri_is_lws (b : N) : bool := (b =? 32) || (b =? 9).
Definition uri_is_digit (b : N) : bool := (48 <=? b) && (b <=? 57).
Definition uri_dec (ds : bytes) : Z := fold_left (fun a d => (a * 10 + Z.of_N (d - 48))%Z) ds 0%Z.
Definition check_C13_port (p : bytes) (v : Z) (invalid : bool) : bool :=
  let s := drop_while uri_is_lws p in
  let ds := take_while uri_is_digit s in
  let r := drop_while uri_is_digit s in
  if negb (match ds with [] => true | _ => false end) && forallb uri_is_lws r &&
     (1 <=? uri_dec ds)%Z && (uri_dec ds <=? 65535)%Z
  then (v =? uri_dec ds)%Z && negb invalid
  else (v =? -1)%Z && invalid.
