(* What htp_tx_state_request_line does to the request URI: htp_parse_uri / htp_parse_uri_hostport into
   tx->parsed_uri_raw, htp_normalize_parsed_uri into tx->parsed_uri, the hostname check. The leaf
   decoders are the models of C13 (MUri), C12 (MPath) and C15 (MUrlenc); this file only wires them
   the way htp_util.c does. *)
Require Import Htp.Model.MConnTypes Htp.Model.MBstr Htp.Model.MUri Htp.Model.MPath Htp.Model.MUrlenc Htp.Model.MReqLine.
Local Open Scope Z_scope.

(* htp_tx_urldecode_uri_inplace(tx, input): decoder context HTP_DECODER_URL_PATH, private flags word mapped to HTP_PATH_* *)
Definition rq_urldecode_uri (g : cfg) (s : bytes) (t : tx) : bytes * tx :=
  let '(out, fl, st) := ud_urldecode_from (g_dec_url_path g) 0%N (t_response_status_expected_number t) s in
  let f := t_flags t in
  let f := if flag_has fl c_HTP_URLEN_INVALID_ENCODING then flag_set f c_HTP_PATH_INVALID_ENCODING else f in
  let f := if flag_has fl c_HTP_URLEN_ENCODED_NUL then flag_set f c_HTP_PATH_ENCODED_NUL else f in
  let f := if flag_has fl c_HTP_URLEN_RAW_NUL then flag_set f c_HTP_PATH_RAW_NUL else f in
  (out, t <| t_flags := f |> <| t_response_status_expected_number := st |>).
Definition rq_urldecode_uri_opt (g : cfg) (s : option bytes) (t : tx) : option bytes * tx :=
  match s with
  | None => (None, t)
  | Some s => let '(o, t) := rq_urldecode_uri g s t in (Some o, t)
  end.

(* htp_normalize_hostname_inplace *)
Definition htp_normalize_hostname (h : bytes) : bytes := strip_right (fun b => (b =? 46)%N) (to_lowercase h).

(* the path part: htp_decode_path_inplace; htp_utf8_decode_path_inplace | htp_utf8_validate_path; htp_normalize_uri_path_inplace *)
Definition rq_normalize_path (g : cfg) (p : bytes) (t : tx) : bytes * tx :=
  let c := g_dec_url_path g in
  let st0 : pst := (t_flags t, t_response_status_expected_number t) in
  let '(p1, st1) := pth_decode_path_st c p st0 in
  let '(p2, st2) := if d_bestfit c then utf8_decode_path c p1 st1 else (p1, utf8_validate_path p1 st1) in
  (dot_normalize p2, t <| t_flags := fst st2 |> <| t_response_status_expected_number := snd st2 |>).

(* htp_normalize_parsed_uri(tx, incomplete, normalized) *)
Definition htp_normalize_parsed_uri (g : cfg) (raw : puri) (t : tx) : puri * tx :=
  let scheme := option_map to_lowercase (u_scheme raw) in
  let '(user, t) := rq_urldecode_uri_opt g (u_user raw) t in
  let '(pass, t) := rq_urldecode_uri_opt g (u_pass raw) t in
  let '(host, t) := rq_urldecode_uri_opt g (u_host raw) t in
  let host := option_map htp_normalize_hostname host in
  let '(pn, inv) := uri_norm_port_opt (u_port raw) in
  let t := if inv then t <| t_flags ::= (fun f => flag_set f c_HTP_HOSTU_INVALID) |> else t in
  let '(path, t) := match u_path raw with
                    | None => (None, t)
                    | Some p => let '(o, t) := rq_normalize_path g p t in (Some o, t)
                    end in
  let '(frag, t) := rq_urldecode_uri_opt g (u_frag raw) t in
  (* normalized->port stays NULL: only port_number is set *)
  (mkpuri scheme user pass host None path (u_query raw) frag pn, t).

(* htp_parse_uri(tx->request_uri, &tx->parsed_uri_raw): fills the pointer fields of the calloc'ed/htp_uri_alloc'ed record *)
Definition rq_parse_uri_into (raw : puri) (uri : option bytes) : puri :=
  match uri with
  | None => raw
  | Some s =>
    let u := parse_uri s in
    mkpuri (uri_scheme u) (uri_username u) (uri_password u) (uri_hostname u) (uri_port u) (uri_path u)
           (uri_query u) (uri_fragment u) (u_port_number raw)
  end.

(* htp_parse_uri_hostport(connp, tx->request_uri, tx->parsed_uri_raw): None = HTP_ERROR (NULL request_uri) *)
Definition rq_parse_uri_hostport (raw : puri) (uri : option bytes) (t : tx) : option (puri * tx) :=
  match uri with
  | None => None
  | Some s =>
    let '(hn, port, pn, invalid) := parse_hostport s in
    let invalid := match hn with Some h => invalid || negb (htp_validate_hostname h) | None => invalid end in
    let t := if invalid then t <| t_flags ::= (fun f => flag_set f c_HTP_HOSTU_INVALID) |> else t in
    Some (mkpuri (u_scheme raw) (u_user raw) (u_pass raw) hn port (u_path raw) (u_query raw) (u_frag raw) pn, t)
  end.

(* the URI part of htp_tx_state_request_line; None = HTP_ERROR *)
Definition rq_uri_pipeline_opt (g : cfg) (is_connect : bool) (uri : option bytes) (t : tx) : option tx :=
  let r := if is_connect then rq_parse_uri_hostport (t_parsed_uri_raw t) uri t
           else Some (rq_parse_uri_into (t_parsed_uri_raw t) uri, t) in
  match r with
  | None => None
  | Some (raw, t) =>
    let t := t <| t_parsed_uri_raw := raw |> in
    let '(nu, t) := match t_parsed_uri t with
                    | Some nu => (nu, t)
                    | None => htp_normalize_parsed_uri g raw t
                    end in
    let t := t <| t_parsed_uri := Some nu |> in
    Some (match u_host nu with
          | Some h => if htp_validate_hostname h then t else t <| t_flags ::= (fun f => flag_set f c_HTP_HOSTU_INVALID) |>
          | None => t
          end)
  end.

(* with a request URI present the pipeline cannot fail *)
Definition rq_uri_pipeline (g : cfg) (is_connect : bool) (uri : bytes) (t : tx) : tx :=
  match rq_uri_pipeline_opt g is_connect (Some uri) t with Some t' => t' | None => t end.
