(* C15 -- executable model of htp/htp_urlencoded.c (streaming key/value parser), of
   htp_urldecode_inplace_ex + x2c + decode_u_encoding_params (htp/htp_util.c) and of the way
   htp/htp_content_handlers.c feeds query string and body into the parser.
   Code-shaped: same loops, same branch order, same guards. No proofs here. *)
Require Import Htp.Model.Base.
Local Open Scope N_scope.

Definition ud_PCT : N := 37.    (* '%' *)
Definition ud_PLUS : N := 43.   (* '+' *)
Definition ud_LC_U : N := 117.  (* 'u' *)
Definition ud_UC_U : N := 85.   (* 'U' *)
Definition ue_EQ : N := 61.     (* '=' *)

(* ------------------------------------------------------------------ x2c
   static unsigned char x2c(unsigned char *what):
     digit = (what[0] >= 'A' ? ((what[0] & 0xdf) - 'A') + 10 : (what[0] - '0'));
     digit *= 16;
     digit += (what[1] >= 'A' ? ((what[1] & 0xdf) - 'A') + 10 : (what[1] - '0'));
   `digit` is an unsigned char: every assignment is reduced modulo 256 ("happily converts
   invalid input"). For x >= 'A', (x & 0xdf) >= 64, so (x & 0xdf) + 10 - 'A' does not go
   below zero; for x < 'A', x - '0' may be negative and wraps. *)
Definition ud_x2c_digit (x : N) : N :=
  if 65 <=? x then (N.land x 223 + 10 - 65) mod 256 else (x + 256 - 48) mod 256.
Definition ud_x2c (a b : N) : N :=
  (((ud_x2c_digit a) * 16) mod 256 + ud_x2c_digit b) mod 256.

(* the best-fit table: triples (codepoint-hi, codepoint-lo, byte), searched linearly, the scan
   stops at a (0,0) pair (the regenerated table ends where the C table has its terminator) *)
Fixpoint ud_bestfit_find (t : list N) (c1 c2 dflt : N) : N :=
  match t with
  | a :: b :: r :: t' =>
      if (a =? 0) && (b =? 0) then dflt
      else if (a =? c1) && (b =? c2) then r
      else ud_bestfit_find t' c1 c2 dflt
  | _ => dflt
  end.

(* decode_u_encoding_params(cfg, ctx, data, flags): data = h1 h2 h3 h4 *)
Definition ud_decode_u (cfg : dcfg) (fl : N) (h1 h2 h3 h4 : N) : N * N :=
  let c1 := ud_x2c h1 h2 in
  let c2 := ud_x2c h3 h4 in
  if c1 =? 0 then (N.lor fl c_HTP_URLEN_OVERLONG_U, c2)
  else
    let fl := if (c1 =? 255) && (c2 <=? 239) then N.lor fl c_HTP_URLEN_HALF_FULL_RANGE else fl in
    (fl, ud_bestfit_find t_bestfit_1252 c1 c2 (d_replacement cfg)).

(* if (X_unwanted != HTP_UNWANTED_IGNORE) *expected_status_code = X_unwanted; *)
Definition ud_unwanted (st : Z) (u : nat) : Z :=
  if Z.eqb (Z.of_nat u) c_ue_UNWANTED_IGNORE then st else Z.of_nat u.

(* *flags |= HTP_URLEN_INVALID_ENCODING; if (url_encoding_invalid_unwanted != IGNORE) ... *)
Definition ud_mark_invalid (cfg : dcfg) (fl : N) (st : Z) : N * Z :=
  (N.lor fl c_HTP_URLEN_INVALID_ENCODING, ud_unwanted st (d_inv_unwanted cfg)).

(* switch (cfg->decoder_cfgs[ctx].url_encoding_invalid_handling): the C switch has exactly three
   cases and no default *)
Inductive ud_handling := UdRemove | UdPreserve | UdProcess | UdNoCase.
Definition ud_handling_of (cfg : dcfg) : ud_handling :=
  let h := Z.of_nat (d_invalid_handling cfg) in
  if Z.eqb h c_HTP_URL_DECODE_REMOVE_PERCENT then UdRemove
  else if Z.eqb h c_HTP_URL_DECODE_PRESERVE_PERCENT then UdPreserve
  else if Z.eqb h c_HTP_URL_DECODE_PROCESS_INVALID then UdProcess
  else UdNoCase.

(* What one pass through the `if (c == '%') { ... }` block does before the encoded-NUL test:
   UdByte c rest' : c is to be written, the unread suffix is now rest'
   UdSkip rest'   : `rpos++; continue;`  (REMOVE_PERCENT)
   UdStuck        : the switch matched no case: c stays '%', rpos is not advanced *)
Inductive ud_act := UdByte (c : N) (rest' : bytes) | UdSkip (rest' : bytes) | UdStuck.

(* r1 = the bytes after the '%' (data[rpos+1 ..]) *)
Definition ud_pct (cfg : dcfg) (fl : N) (st : Z) (r1 : bytes) : N * Z * ud_act :=
  match r1 with
  | h1 :: h2 :: r3 =>                                   (* rpos + 2 < len *)
      if (d_u_decode cfg) && ((h1 =? ud_LC_U) || (h1 =? ud_UC_U)) then
        (* handled = 1 *)
        let st := ud_unwanted st (d_u_unwanted cfg) in
        match r3 with
        | h3 :: h4 :: h5 :: r6 =>                       (* rpos + 5 < len *)
            if c_isxdigit h2 && c_isxdigit h3 && c_isxdigit h4 && c_isxdigit h5 then
              let '(fl, c) := ud_decode_u cfg fl h2 h3 h4 h5 in (fl, st, UdByte c r6)
            else
              let '(fl, st) := ud_mark_invalid cfg fl st in
              match ud_handling_of cfg with
              | UdRemove => (fl, st, UdSkip r1)
              | UdPreserve => (fl, st, UdByte ud_PCT r1)
              | UdProcess => let '(fl, c) := ud_decode_u cfg fl h2 h3 h4 h5 in (fl, st, UdByte c r6)
              | UdNoCase => (fl, st, UdStuck)
              end
        | _ =>                                          (* %u: not enough data *)
            let '(fl, st) := ud_mark_invalid cfg fl st in
            match ud_handling_of cfg with
            | UdRemove => (fl, st, UdSkip r1)
            | UdPreserve => (fl, st, UdByte ud_PCT r1)
            | UdProcess => (fl, st, UdByte ud_PCT r1)
            | UdNoCase => (fl, st, UdStuck)
            end
        end
      else
        (* !handled: standard %HH *)
        if c_isxdigit h1 && c_isxdigit h2 then (fl, st, UdByte (ud_x2c h1 h2) r3)
        else
          let '(fl, st) := ud_mark_invalid cfg fl st in
          match ud_handling_of cfg with
          | UdRemove => (fl, st, UdSkip r1)
          | UdPreserve => (fl, st, UdByte ud_PCT r1)
          | UdProcess => (fl, st, UdByte (ud_x2c h1 h2) r3)
          | UdNoCase => (fl, st, UdStuck)
          end
  | _ =>                                                (* not enough data for %HH *)
      let '(fl, st) := ud_mark_invalid cfg fl st in
      match ud_handling_of cfg with
      | UdRemove => (fl, st, UdSkip r1)
      | UdPreserve => (fl, st, UdByte ud_PCT r1)
      | UdProcess => (fl, st, UdByte ud_PCT r1)
      | UdNoCase => (fl, st, UdStuck)
      end
  end.

(* while ((rpos < len) && (wpos < len)): `rest` = data[rpos..], `out` = data[0..wpos) reversed,
   len = bstr_len(input). wpos <= rpos throughout (every pass advances rpos by at least as much as
   wpos) except in the UdStuck case, where the loop keeps writing '%' without advancing rpos until
   wpos = len: the result is then the output so far followed by '%' up to the original length.
   Explicit fuel (one unit per pass); None = out of fuel, excluded by ud_fuel_sufficient. *)
Fixpoint ud_loop (fuel : nat) (cfg : dcfg) (len : nat) (fl : N) (st : Z) (out rest : bytes)
  : option (bytes * N * Z) :=
  match fuel with
  | O => None
  | S fuel =>
    match rest with
    | [] => Some (rev out, fl, st)
    | c :: r1 =>
      if c =? ud_PCT then
        match ud_pct cfg fl st r1 with
        | (fl, st, UdSkip r') => ud_loop fuel cfg len fl st out r'
        | (fl, st, UdStuck) => Some (rev out ++ repeat ud_PCT (len - length out), fl, st)
        | (fl, st, UdByte b r') =>
            if b =? 0 then
              let st := ud_unwanted st (d_nul_enc_unwanted cfg) in
              let fl := N.lor fl c_HTP_URLEN_ENCODED_NUL in
              if d_nul_enc_term cfg then Some (rev out, fl, st)
              else ud_loop fuel cfg len fl st (b :: out) r'
            else ud_loop fuel cfg len fl st (b :: out) r'
        end
      else if c =? ud_PLUS then
        ud_loop fuel cfg len fl st ((if d_plusspace cfg then 32 else c) :: out) r1
      else
        if c =? 0 then
          let st := ud_unwanted st (d_nul_raw_unwanted cfg) in
          let fl := N.lor fl c_HTP_URLEN_RAW_NUL in
          if d_nul_raw_term cfg then Some (rev out, fl, st)
          else ud_loop fuel cfg len fl st (c :: out) r1
        else ud_loop fuel cfg len fl st (c :: out) r1
    end
  end.

(* htp_urldecode_inplace_ex(cfg, ctx, input, &flags, &expected_status_code) with
   cfg->decoder_cfgs[ctx] = cfg, *flags = fl and *expected_status_code = st on entry *)
Definition ud_urldecode_from (cfg : dcfg) (fl : N) (st : Z) (s : bytes) : bytes * N * Z :=
  match ud_loop (S (length s)) cfg (length s) fl st [] s with
  | Some r => r
  | None => ([], fl, st)
  end.

(* ... with both starting at 0, as htp_urldecode_inplace calls it *)
Definition ud_urldecode_ex (cfg : dcfg) (s : bytes) : bytes * N * Z := ud_urldecode_from cfg 0 0%Z s.

Definition ud_bytes (cfg : dcfg) (s : bytes) : bytes := fst (fst (ud_urldecode_ex cfg s)).

(* ------------------------------------------------------------------ htp_urlenp_t *)
Inductive ue_kv := UeKey | UeValue.

Record ue_state := mk_ue {
  ue_sep : N;                    (* argument_separator *)
  ue_decode : bool;              (* decode_url_encoding *)
  ue_mode : ue_kv;               (* _state *)
  ue_name : option bytes;        (* _name (NULL = None) *)
  ue_bb : list bytes;            (* _bb: the pieces in the string builder *)
  ue_complete : bool;            (* _complete *)
  ue_params : list (bytes * bytes);   (* params, in insertion order *)
  ue_flags : N;                  (* tx->flags *)
  ue_status : Z                  (* tx->response_status_expected_number *)
}.

(* htp_urlenp_create(tx) for a transaction whose flags / expected status are fl / st *)
Definition ue_create (fl : N) (st : Z) : ue_state :=
  mk_ue c_ue_default_separator c_ue_default_decode
        (if Z.eqb c_ue_initial_state c_ue_STATE_KEY then UeKey else UeValue)
        None [] c_ue_initial_complete [] fl st.
Definition ue_init : ue_state := ue_create 0 0%Z.

Definition ue_ne (p : bytes) : bool := match p with [] => false | _ => true end.
Definition ue_dflt (o : option bytes) : bytes := match o with Some b => b | None => [] end.
Definition ue_some {A} (o : option A) : bool := match o with Some _ => true | None => false end.

(* if (urlenp->decode_url_encoding) htp_tx_urldecode_params_inplace(urlenp->tx, b); *)
Definition ue_dec (cfg : dcfg) (dec : bool) (fl : N) (st : Z) (b : bytes) : bytes * N * Z :=
  if dec then ud_urldecode_from cfg fl st b else (b, fl, st).

(* htp_urlenp_add_field_piece(urlenp, data, startpos, endpos, last_char):
   p = data[startpos..endpos), last = None for last_char = -1 *)
Definition ue_add_field_piece (cfg : dcfg) (s : ue_state) (p : bytes) (last : option N) : ue_state :=
  if ue_some last || ue_complete s then
    (* bstr *field = NULL; assemble from the builder if it is in use *)
    let '(field, bb') :=
      match ue_bb s with
      | _ :: _ => (Some (concat (if ue_ne p then ue_bb s ++ [p] else ue_bb s)), [])
      | [] => ((if ue_ne p then Some p else None), ue_bb s)
      end in
    let is_sep := match last with Some c => c =? ue_sep s | None => false end in
    match ue_mode s with
    | UeKey =>
        if ue_complete s || is_sep then
          if ue_some field || is_sep then
            let '(name, fl, st) := ue_dec cfg (ue_decode s) (ue_flags s) (ue_status s) (ue_dflt field) in
            mk_ue (ue_sep s) (ue_decode s) (ue_mode s) None bb' (ue_complete s)
                  (ue_params s ++ [(name, [])]) fl st
          else
            mk_ue (ue_sep s) (ue_decode s) (ue_mode s) (ue_name s) bb' (ue_complete s)
                  (ue_params s) (ue_flags s) (ue_status s)
        else
          mk_ue (ue_sep s) (ue_decode s) (ue_mode s) field bb' (ue_complete s)
                (ue_params s) (ue_flags s) (ue_status s)
    | UeValue =>
        let '(name, fl, st) := ue_dec cfg (ue_decode s) (ue_flags s) (ue_status s) (ue_dflt (ue_name s)) in
        let '(value, fl, st) := ue_dec cfg (ue_decode s) fl st (ue_dflt field) in
        mk_ue (ue_sep s) (ue_decode s) (ue_mode s) None bb' (ue_complete s)
              (ue_params s ++ [(name, value)]) fl st
    end
  else
    if ue_ne p then
      mk_ue (ue_sep s) (ue_decode s) (ue_mode s) (ue_name s) (ue_bb s ++ [p]) (ue_complete s)
            (ue_params s) (ue_flags s) (ue_status s)
    else s.

Definition ue_set_mode (s : ue_state) (m : ue_kv) : ue_state :=
  mk_ue (ue_sep s) (ue_decode s) m (ue_name s) (ue_bb s) (ue_complete s) (ue_params s) (ue_flags s) (ue_status s).

(* the do { ... } while (c != -1) scan; acc = data[startpos..pos) reversed, rest = data[pos..len) *)
Fixpoint ue_scan (cfg : dcfg) (s : ue_state) (acc : bytes) (rest : bytes) : ue_state :=
  match rest with
  | [] => ue_add_field_piece cfg s (rev acc) None                    (* c = -1 in either state *)
  | c :: r =>
    match ue_mode s with
    | UeKey =>
        if (c =? ue_EQ) || (c =? ue_sep s) then
          let s' := ue_add_field_piece cfg s (rev acc) (Some c) in
          ue_scan cfg (ue_set_mode s' (if c =? ue_sep s then UeKey else UeValue)) [] r
        else ue_scan cfg s (c :: acc) r
    | UeValue =>
        if c =? ue_sep s then
          let s' := ue_add_field_piece cfg s (rev acc) (Some c) in
          ue_scan cfg (ue_set_mode s' UeKey) [] r
        else ue_scan cfg s (c :: acc) r
    end
  end.

Definition ue_parse_partial (cfg : dcfg) (s : ue_state) (chunk : bytes) : ue_state := ue_scan cfg s [] chunk.

Definition ue_set_complete (s : ue_state) : ue_state :=
  mk_ue (ue_sep s) (ue_decode s) (ue_mode s) (ue_name s) (ue_bb s) true (ue_params s) (ue_flags s) (ue_status s).

(* htp_urlenp_finalize: _complete = 1; parse_partial(urlenp, NULL, 0) *)
Definition ue_finalize (cfg : dcfg) (s : ue_state) : ue_state := ue_parse_partial cfg (ue_set_complete s) [].

(* htp_urlenp_parse_complete *)
Definition ue_parse_complete (cfg : dcfg) (s : ue_state) (data : bytes) : ue_state :=
  ue_finalize cfg (ue_parse_partial cfg s data).

Definition ue_run_state (cfg : dcfg) (s0 : ue_state) (chunks : list bytes) : ue_state :=
  ue_finalize cfg (fold_left (ue_parse_partial cfg) chunks s0).

(* create; parse_partial on every chunk; finalize; read params *)
Definition ue_run (cfg : dcfg) (chunks : list bytes) : list (bytes * bytes) :=
  ue_params (ue_run_state cfg ue_init chunks).
(* ... together with tx->flags and tx->response_status_expected_number *)
Definition ue_run_full (cfg : dcfg) (chunks : list bytes) : list (bytes * bytes) * N * Z :=
  let s := ue_run_state cfg ue_init chunks in (ue_params s, ue_flags s, ue_status s).

(* driver entry with a non-default separator / decode switch (htp_urlenp_set_* only store the value) *)
Definition ue_run_with (cfg : dcfg) (sep : N) (dec : bool) (chunks : list bytes) : list (bytes * bytes) * N * Z :=
  let s0 := mk_ue sep dec (ue_mode ue_init) None [] (ue_complete ue_init) [] 0 0%Z in
  let s := ue_run_state cfg s0 chunks in (ue_params s, ue_flags s, ue_status s).

(* API misuse is still deterministic: htp_urlenp_finalize in the middle (None), more data afterwards *)
Definition ue_step (cfg : dcfg) (s : ue_state) (o : option bytes) : ue_state :=
  match o with Some b => ue_parse_partial cfg s b | None => ue_finalize cfg s end.
Definition ue_run_ops (cfg : dcfg) (sep : N) (dec : bool) (ops : list (option bytes)) : list (bytes * bytes) * N * Z :=
  let s0 := mk_ue sep dec (ue_mode ue_init) None [] (ue_complete ue_init) [] 0 0%Z in
  let s := ue_finalize cfg (fold_left (ue_step cfg) ops s0) in (ue_params s, ue_flags s, ue_status s).

(* ------------------------------------------------------------------ htp_content_handlers.c
   htp_ch_urlencoded_callback_request_line: no parser for a NULL or empty query; otherwise
   parse_complete and every pair appended to tx->request_params with source QUERY_STRING.
   htp_ch_urlencoded_callback_request_headers + ..._request_body_data: parse_partial per body chunk,
   finalize on the NULL-data call, pairs appended with source BODY. Both share tx->flags. *)
Definition ue_tx_query (cfg : dcfg) (query : option bytes) (fl : N) (st : Z) : list (Z * bytes * bytes) * N * Z :=
  match query with
  | None => ([], fl, st)
  | Some q =>
      if (length q =? 0)%nat then ([], fl, st)
      else
        let s := ue_parse_complete cfg (ue_create fl st) q in
        (map (fun nv => (c_ue_SOURCE_QUERY_STRING, fst nv, snd nv)) (ue_params s), ue_flags s, ue_status s)
  end.

Definition ue_tx_body (cfg : dcfg) (chunks : list bytes) (fl : N) (st : Z) : list (Z * bytes * bytes) * N * Z :=
  let s := ue_run_state cfg (ue_create fl st) chunks in
  (map (fun nv => (c_ue_SOURCE_BODY, fst nv, snd nv)) (ue_params s), ue_flags s, ue_status s).

(* request line hook, then (when body = Some chunks: the content type matched) the body *)
Definition ue_tx (cfg : dcfg) (query : option bytes) (body : option (list bytes)) : list (Z * bytes * bytes) * N * Z :=
  let '(p1, fl, st) := ue_tx_query cfg query 0 0%Z in
  match body with
  | None => (p1, fl, st)
  | Some chunks => let '(p2, fl, st) := ue_tx_body cfg chunks fl st in (p1 ++ p2, fl, st)
  end.
