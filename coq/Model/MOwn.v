(* Ownership model (C18): which C function allocates, frees and dereferences which object, with
   the k-th allocation failing.  Only liveness is modelled: a heap cell is an id that is live or
   not; struct fields that hold pointers are [ow_oid] fields of small records (None = NULL).  Each
   definition transcribes one C function, ONE allocation event per C allocation, in the C order,
   every error path included.  Contents of containers that matter to ownership (table keys,
   builder pieces, hook callbacks, header structs) are kept by the owner next to the ring-buffer
   *shape* (block, first, max, size); Proof/PList.v (C17) covers the ring contents themselves. *)
Require Import Htp.Model.Base.

Definition ow_oid := option nat.

Inductive ow_ev := OwEvA (i : nat) | OwEvX | OwEvF (i : nat) | OwEvR (o n : nat).

Record ow_state := ow_mk_os {
  oos_sched : nat -> bool;     (* true = the n-th allocation (0-based) fails *)
  oos_next : nat;              (* next fresh id *)
  oos_cnt : nat;               (* allocations attempted so far *)
  oos_live : list nat;
  oos_trace : list ow_ev       (* newest first *)
}.

Inductive ow_res (A : Type) := OwOk (a : A) (s : ow_state) | OwFault (code : nat) (s : ow_state).
Arguments OwOk {A}. Arguments OwFault {A}.

Definition ow_M (A : Type) := ow_state -> ow_res A.
Definition ow_ret {A} (a : A) : ow_M A := fun s => OwOk a s.
Definition ow_bind {A B} (m : ow_M A) (f : A -> ow_M B) : ow_M B :=
  fun s => match m s with OwOk a s' => f a s' | OwFault c s' => OwFault c s' end.
Notation "x <- m ;; f" := (ow_bind m (fun x => f)) (at level 61, m at next level, right associativity).
Notation "m ;;; f" := (ow_bind m (fun _ => f)) (at level 61, right associativity).

Definition ow_mem (i : nat) (l : list nat) : bool := existsb (Nat.eqb i) l.
Definition ow_del (i : nat) (l : list nat) : list nat := filter (fun j => negb (Nat.eqb i j)) l.

(* fault codes: 1 free of a non-live cell (double / invalid free), 2 use after free, 3 NULL dereference *)
Definition ow_malloc : ow_M ow_oid := fun s =>
  if oos_sched s (oos_cnt s)
  then OwOk None (ow_mk_os (oos_sched s) (oos_next s) (S (oos_cnt s)) (oos_live s) (OwEvX :: oos_trace s))
  else OwOk (Some (oos_next s))
            (ow_mk_os (oos_sched s) (S (oos_next s)) (S (oos_cnt s)) (oos_next s :: oos_live s) (OwEvA (oos_next s) :: oos_trace s)).

Definition ow_free (p : ow_oid) : ow_M unit := fun s =>
  match p with
  | None => OwOk tt s
  | Some i => if ow_mem i (oos_live s)
              then OwOk tt (ow_mk_os (oos_sched s) (oos_next s) (oos_cnt s) (ow_del i (oos_live s)) (OwEvF i :: oos_trace s))
              else OwFault 1 s
  end.

Definition ow_use (p : ow_oid) : ow_M unit := fun s =>
  match p with
  | None => OwFault 3 s
  | Some i => if ow_mem i (oos_live s) then OwOk tt s else OwFault 2 s
  end.

(* realloc: NULL -> malloc; success = free old + allocate new (whether or not the block moves);
   failure leaves the old block alone *)
Definition ow_realloc (p : ow_oid) : ow_M ow_oid := fun s =>
  match p with
  | None => ow_malloc s
  | Some i =>
    if ow_mem i (oos_live s) then
      if oos_sched s (oos_cnt s)
      then OwOk None (ow_mk_os (oos_sched s) (oos_next s) (S (oos_cnt s)) (oos_live s) (OwEvX :: oos_trace s))
      else OwOk (Some (oos_next s))
                (ow_mk_os (oos_sched s) (S (oos_next s)) (S (oos_cnt s)) (oos_next s :: ow_del i (oos_live s))
                       (OwEvR i (oos_next s) :: oos_trace s))
    else OwFault 2 s
  end.

Definition ow_isnull (p : ow_oid) : bool := match p with None => true | Some _ => false end.

Fixpoint ow_iter {A} (f : A -> ow_M unit) (l : list A) : ow_M unit :=
  match l with
  | [] => ow_ret tt
  | a :: r => f a ;;; ow_iter f r
  end.

(* ------------------------------------------------------------------ bstr.c *)
Definition ow_bstr_alloc : ow_M ow_oid := ow_malloc.
Definition ow_bstr_dup_mem : ow_M ow_oid := ow_bstr_alloc.
(* bstr_dup / bstr_dup_ex: reads the source (length), allocates, copies *)
Definition ow_bstr_dup (b : ow_oid) : ow_M ow_oid :=
  ow_use b ;;;
  n <- ow_bstr_alloc ;;
  match n with None => ow_ret None | Some _ => ow_use b ;;; ow_ret n end.
(* bstr_expand: refuses wrapped strings and shrinking *)
Definition ow_bstr_expand (b : ow_oid) (wrapped shrink : bool) : ow_M ow_oid :=
  ow_use b ;;;
  if wrapped then ow_ret None else if shrink then ow_ret None else
  n <- ow_realloc b ;;
  match n with None => ow_ret None | Some _ => ow_use n ;;; ow_ret n end.
(* bstr_add_mem: expands when the data does not fit *)
Definition ow_bstr_add_mem (b : ow_oid) (wrapped fits : bool) : ow_M ow_oid :=
  ow_use b ;;;
  if fits then ow_ret b else
  d <- ow_bstr_expand b wrapped false ;;
  match d with None => ow_ret None | Some _ => ow_use d ;;; ow_ret d end.

(* ------------------------------------------------------------------ htp_list.c (array-backed) *)
(* ool_self: the cell that holds the htp_list_array_t itself (the container for an embedded list) *)
Record ow_lst := ow_mk_lst { ool_self : ow_oid; ool_blk : ow_oid; ool_first : nat; ool_max : nat; ool_size : nat }.

Definition ow_list_init (self : ow_oid) (size : nat) : ow_M (option ow_lst) :=
  b <- ow_malloc ;;
  match b with
  | None => ow_ret None
  | Some _ => ow_use self ;;; ow_ret (Some (ow_mk_lst self b 0 size 0))
  end.

Definition ow_list_create (size : nat) : ow_M (option ow_lst) :=
  if size =? 0 then ow_ret None else
  l <- ow_malloc ;;
  match l with
  | None => ow_ret None
  | Some _ =>
    r <- ow_list_init l size ;;
    match r with
    | None => ow_free l ;;; ow_ret None
    | Some x => ow_ret (Some x)
    end
  end.

Definition ow_list_destroy (l : option ow_lst) : ow_M unit :=
  match l with
  | None => ow_ret tt
  | Some l => ow_use (ool_self l) ;;; ow_free (ool_blk l) ;;; ow_free (ool_self l)
  end.

Definition ow_list_release (l : ow_lst) : ow_M unit := ow_use (ool_self l) ;;; ow_free (ool_blk l).

Definition ow_list_push (l : ow_lst) : ow_M (bool * ow_lst) :=
  ow_use (ool_self l) ;;;
  if ool_max l <=? ool_size l then
    if ool_first l =? 0 then
      nb <- ow_realloc (ool_blk l) ;;
      match nb with
      | None => ow_ret (false, l)
      | Some _ => ow_use nb ;;; ow_ret (true, ow_mk_lst (ool_self l) nb 0 (ool_max l * 2) (S (ool_size l)))
      end
    else
      nb <- ow_malloc ;;
      match nb with
      | None => ow_ret (false, l)
      | Some _ =>
        ow_use (ool_blk l) ;;; ow_use nb ;;;          (* the two memcpy *)
        ow_free (ool_blk l) ;;;
        ow_use nb ;;; ow_ret (true, ow_mk_lst (ool_self l) nb 0 (ool_max l * 2) (S (ool_size l)))
      end
  else
    ow_use (ool_blk l) ;;; ow_ret (true, ow_mk_lst (ool_self l) (ool_blk l) (ool_first l) (ool_max l) (S (ool_size l))).

Definition ow_list_pop (l : ow_lst) : ow_lst :=
  if ool_size l =? 0 then l else ow_mk_lst (ool_self l) (ool_blk l) (ool_first l) (ool_max l) (ool_size l - 1).
Definition ow_list_shift (l : ow_lst) : ow_lst :=
  if ool_size l =? 0 then l
  else ow_mk_lst (ool_self l) (ool_blk l) (if S (ool_first l) =? ool_max l then 0 else S (ool_first l)) (ool_max l) (ool_size l - 1).
Definition ow_list_clear (l : ow_lst) : ow_lst := ow_mk_lst (ool_self l) (ool_blk l) 0 (ool_max l) 0.

(* ------------------------------------------------------------------ htp_table.c *)
Record ow_tbl := ow_mk_tbl { oot_self : ow_oid; oot_mode : nat; oot_lst : ow_lst; oot_keys : list ow_oid }.

Definition ow_table_create (size : nat) : ow_M (option ow_tbl) :=
  if size =? 0 then ow_ret None else
  t <- ow_malloc ;;
  match t with
  | None => ow_ret None
  | Some _ =>
    l <- ow_list_init t (size * 2) ;;
    match l with
    | None => ow_free t ;;; ow_ret None
    | Some l => ow_ret (Some (ow_mk_tbl t c_ow_KEYS_UNKNOWN l []))
    end
  end.

(* _htp_table_add: key, then element; the key is popped again when the element cannot be added *)
Definition ow_table_add_raw (t : ow_tbl) (key : ow_oid) : ow_M (bool * ow_tbl) :=
  r1 <- ow_list_push (oot_lst t) ;;
  if negb (fst r1) then ow_ret (false, ow_mk_tbl (oot_self t) (oot_mode t) (snd r1) (oot_keys t)) else
  r2 <- ow_list_push (snd r1) ;;
  if negb (fst r2) then ow_ret (false, ow_mk_tbl (oot_self t) (oot_mode t) (ow_list_pop (snd r2)) (oot_keys t))
  else ow_ret (true, ow_mk_tbl (oot_self t) (oot_mode t) (snd r2) (oot_keys t ++ [key])).

Definition ow_table_set_mode (t : ow_tbl) (m : nat) : ow_tbl := ow_mk_tbl (oot_self t) m (oot_lst t) (oot_keys t).

(* htp_table_add: the key is copied; the copy is freed when it cannot be stored *)
Definition ow_table_add (t : ow_tbl) (key : ow_oid) : ow_M (bool * ow_tbl) :=
  if ow_isnull key then ow_ret (false, t) else
  ow_use (oot_self t) ;;;
  if (oot_mode t =? c_ow_KEYS_UNKNOWN) || (oot_mode t =? c_ow_KEYS_COPIED) then
    let t1 := ow_table_set_mode t c_ow_KEYS_COPIED in
    d <- ow_bstr_dup key ;;
    match d with
    | None => ow_ret (false, t1)
    | Some _ =>
      r <- ow_table_add_raw t1 d ;;
      if fst r then ow_ret (true, snd r) else ow_free d ;;; ow_ret (false, snd r)
    end
  else ow_ret (false, t).

(* htp_table_addn (mode = ADOPTED) / htp_table_addk (mode = REFERENCED): the key pointer itself is stored *)
Definition ow_table_add_nk (mode : nat) (t : ow_tbl) (key : ow_oid) : ow_M (bool * ow_tbl) :=
  if ow_isnull key then ow_ret (false, t) else
  ow_use (oot_self t) ;;;
  if (oot_mode t =? c_ow_KEYS_UNKNOWN) || (oot_mode t =? mode) then
    ow_table_add_raw (ow_table_set_mode t mode) key
  else ow_ret (false, t).
Definition ow_table_addn := ow_table_add_nk c_ow_KEYS_ADOPTED.
Definition ow_table_addk := ow_table_add_nk c_ow_KEYS_REFERENCED.

Definition ow_table_clear (t : ow_tbl) : ow_M ow_tbl :=
  ow_use (oot_self t) ;;;
  (if (oot_mode t =? c_ow_KEYS_COPIED) || (oot_mode t =? c_ow_KEYS_ADOPTED)
   then ow_iter ow_free (oot_keys t) else ow_ret tt) ;;;
  ow_ret (ow_mk_tbl (oot_self t) (oot_mode t) (ow_list_clear (oot_lst t)) []).

Definition ow_table_destroy (t : option ow_tbl) : ow_M unit :=
  match t with
  | None => ow_ret tt
  | Some t => t1 <- ow_table_clear t ;; ow_list_release (oot_lst t1) ;;; ow_free (oot_self t1)
  end.

(* ------------------------------------------------------------------ bstr_builder.c *)
Record ow_bb := ow_mk_bb { obb_self : ow_oid; obb_lst : ow_lst; obb_pieces : list ow_oid }.

Definition ow_builder_create : ow_M (option ow_bb) :=
  b <- ow_malloc ;;
  match b with
  | None => ow_ret None
  | Some _ =>
    l <- ow_list_create c_ow_builder_cap ;;
    match l with
    | None => ow_free b ;;; ow_ret None
    | Some l => ow_ret (Some (ow_mk_bb b l []))
    end
  end.

(* bstr_builder_append_mem (after faef489): the new piece is freed when the push fails *)
Definition ow_builder_append_mem_gen (fixed : bool) (bb : ow_bb) : ow_M (bool * ow_bb) :=
  b <- ow_bstr_dup_mem ;;
  match b with
  | None => ow_ret (false, bb)
  | Some _ =>
    ow_use (obb_self bb) ;;;
    r <- ow_list_push (obb_lst bb) ;;
    if fst r then ow_ret (true, ow_mk_bb (obb_self bb) (snd r) (obb_pieces bb ++ [b]))
    else (if fixed then ow_free b else ow_ret tt) ;;; ow_ret (false, ow_mk_bb (obb_self bb) (snd r) (obb_pieces bb))
  end.
Definition ow_builder_append_mem := ow_builder_append_mem_gen true.
Definition ow_builder_append_mem_old := ow_builder_append_mem_gen false.

Definition ow_builder_clear (bb : ow_bb) : ow_M ow_bb :=
  ow_use (obb_self bb) ;;; ow_use (ool_self (obb_lst bb)) ;;;
  if ool_size (obb_lst bb) =? 0 then ow_ret bb else
  ow_iter ow_free (obb_pieces bb) ;;;
  ow_ret (ow_mk_bb (obb_self bb) (ow_list_clear (obb_lst bb)) []).

Definition ow_builder_destroy (bb : option ow_bb) : ow_M unit :=
  match bb with
  | None => ow_ret tt
  | Some bb =>
    ow_use (obb_self bb) ;;;
    ow_iter ow_free (obb_pieces bb) ;;;
    ow_list_destroy (Some (obb_lst bb)) ;;;
    ow_free (obb_self bb)
  end.

Definition ow_builder_to_str (bb : ow_bb) : ow_M ow_oid :=
  ow_use (obb_self bb) ;;;
  ow_iter ow_use (obb_pieces bb) ;;;
  n <- ow_bstr_alloc ;;
  match n with
  | None => ow_ret None
  | Some _ => ow_iter (fun p => ow_use p ;;; ow_use n) (obb_pieces bb) ;;; ow_ret n
  end.

(* ------------------------------------------------------------------ htp_hooks.c *)
Record ow_hook := ow_mk_hook { ohk_self : ow_oid; ohk_lst : ow_lst; ohk_cbs : list ow_oid }.

Definition ow_hook_create : ow_M (option ow_hook) :=
  h <- ow_malloc ;;
  match h with
  | None => ow_ret None
  | Some _ =>
    l <- ow_list_create c_ow_hook_cap ;;
    match l with
    | None => ow_free h ;;; ow_ret None
    | Some l => ow_ret (Some (ow_mk_hook h l []))
    end
  end.

Definition ow_hook_destroy (h : option ow_hook) : ow_M unit :=
  match h with
  | None => ow_ret tt
  | Some h =>
    ow_use (ohk_self h) ;;;
    ow_iter ow_free (ohk_cbs h) ;;;
    ow_list_destroy (Some (ohk_lst h)) ;;;
    ow_free (ohk_self h)
  end.

(* htp_hook_register: the hook slot may hold NULL; on a failed push a hook created here is released with a
   plain free of the hook struct (its list is not released and the slot keeps pointing to it) -- transcribed as is *)
Definition ow_hook_register (hook : option ow_hook) : ow_M (bool * option ow_hook) :=
  cb <- ow_malloc ;;
  match cb with
  | None => ow_ret (false, hook)
  | Some _ =>
    hc <- match hook with
          | Some h => ow_ret (Some (false, h))
          | None => h <- ow_hook_create ;;
                    match h with None => ow_ret None | Some h => ow_ret (Some (true, h)) end
          end ;;
    match hc with
    | None => ow_free cb ;;; ow_ret (false, None)
    | Some (created, h) =>
      ow_use (ohk_self h) ;;;
      r <- ow_list_push (ohk_lst h) ;;
      if fst r then ow_ret (true, Some (ow_mk_hook (ohk_self h) (snd r) (ohk_cbs h ++ [cb])))
      else
        (if created then ow_free (ohk_self h) else ow_ret tt) ;;;
        ow_free cb ;;;
        ow_ret (false, Some (ow_mk_hook (ohk_self h) (snd r) (ohk_cbs h)))
    end
  end.

(* the loop of htp_hook_copy: register every callback of the source into the copy *)
Fixpoint ow_hook_copy_loop (cbs : list ow_oid) (copy : ow_hook) : ow_M (option ow_hook) :=
  match cbs with
  | [] => ow_ret (Some copy)
  | c :: r =>
    ow_use c ;;;
    x <- ow_hook_register (Some copy) ;;
    if fst x then
      match snd x with Some copy' => ow_hook_copy_loop r copy' | None => ow_ret None end
    else ow_hook_destroy (snd x) ;;; ow_ret None
  end.

Definition ow_hook_copy (hook : option ow_hook) : ow_M (option ow_hook) :=
  match hook with
  | None => ow_ret None
  | Some h =>
    c <- ow_hook_create ;;
    match c with
    | None => ow_ret None
    | Some c => ow_use (ohk_self h) ;;; ow_hook_copy_loop (ohk_cbs h) c
    end
  end.

(* ------------------------------------------------------------------ headers, uri, transactions *)
Record ow_hdr := ow_mk_hdr { ohd_self : ow_oid; ohd_name : ow_oid; ohd_value : ow_oid }.   (* also htp_param_t: name, value *)
Record ow_uri := ow_mk_uri { our_self : ow_oid; our_fields : list ow_oid }.   (* scheme username password hostname port path query fragment *)
Record ow_log := ow_mk_log { olg_self : ow_oid; olg_msg : ow_oid }.

Definition ow_hdr_free (h : ow_hdr) : ow_M unit :=
  ow_use (ohd_self h) ;;; ow_free (ohd_name h) ;;; ow_free (ohd_value h) ;;; ow_free (ohd_self h).

Definition ow_uri_alloc : ow_M (option ow_uri) :=
  u <- ow_malloc ;;
  match u with None => ow_ret None | Some _ => ow_ret (Some (ow_mk_uri u [None; None; None; None; None; None; None; None])) end.
Definition ow_uri_free (u : option ow_uri) : ow_M unit :=
  match u with
  | None => ow_ret tt
  | Some u => ow_use (our_self u) ;;; ow_iter ow_free (our_fields u) ;;; ow_free (our_self u)
  end.

Record ow_tx := ow_mk_tx {
  otx_self : ow_oid; otx_conn : ow_oid; otx_connp : ow_oid;
  otx_req_strs : list ow_oid;              (* request_line method uri protocol content_type hostname *)
  otx_uri_raw : option ow_uri; otx_uri : option ow_uri;
  otx_auth_user : ow_oid; otx_auth_pass : ow_oid;
  otx_req_hdrs : option ow_tbl; otx_req_hvals : list ow_hdr;
  otx_params : option ow_tbl; otx_pvals : list ow_hdr;
  otx_cookies : option ow_tbl; otx_cvals : list ow_oid;
  otx_hook_req : option ow_hook; otx_hook_res : option ow_hook;
  otx_res_strs : list ow_oid;              (* response_line protocol status message content_type *)
  otx_res_hdrs : option ow_tbl; otx_res_hvals : list ow_hdr;
  otx_rep : nat                         (* req_header_repetitions *)
}.

(* htp_tx_destroy_incomplete; the request parsers (urlenp, mpartp) are NULL in the modelled states *)
Definition ow_tx_destroy_incomplete (tx : ow_tx) : ow_M unit :=
  ow_use (otx_self tx) ;;;
  ow_use (otx_conn tx) ;;;                       (* htp_conn_remove_tx(tx->conn, tx) *)
  ow_use (otx_connp tx) ;;;                      (* htp_connp_tx_remove(tx->connp, tx) *)
  ow_iter ow_free (otx_req_strs tx) ;;;
  ow_uri_free (otx_uri_raw tx) ;;;
  ow_uri_free (otx_uri tx) ;;;
  ow_free (otx_auth_user tx) ;;;
  ow_free (otx_auth_pass tx) ;;;
  (match otx_req_hdrs tx with
   | None => ow_ret tt
   | Some t => ow_use (oot_self t) ;;; ow_iter ow_hdr_free (otx_req_hvals tx) ;;; ow_table_destroy (Some t)
   end) ;;;
  ow_iter ow_hdr_free (otx_pvals tx) ;;;
  ow_table_destroy (otx_params tx) ;;;
  (match otx_cookies tx with
   | None => ow_ret tt
   | Some t => ow_use (oot_self t) ;;; ow_iter ow_free (otx_cvals tx) ;;; ow_table_destroy (Some t)
   end) ;;;
  ow_hook_destroy (otx_hook_req tx) ;;;
  ow_hook_destroy (otx_hook_res tx) ;;;
  ow_iter ow_free (otx_res_strs tx) ;;;
  (match otx_res_hdrs tx with
   | None => ow_ret tt
   | Some t => ow_use (oot_self t) ;;; ow_iter ow_hdr_free (otx_res_hvals tx) ;;; ow_table_destroy (Some t)
   end) ;;;
  ow_free (otx_self tx).

(* ------------------------------------------------------------------ htp_connection.c *)
Record ow_conn := ow_mk_conn {
  ocn_self : ow_oid;
  ocn_txl : option ow_lst; ocn_txs : list (option ow_tx);
  ocn_msgl : option ow_lst; ocn_msgs : list ow_log;
  ocn_client : ow_oid; ocn_server : ow_oid
}.

Definition ow_conn_create : ow_M (option ow_conn) :=
  c <- ow_malloc ;;
  match c with
  | None => ow_ret None
  | Some _ =>
    t <- ow_list_create c_ow_conn_tx_cap ;;
    match t with
    | None => ow_free c ;;; ow_ret None
    | Some t =>
      m <- ow_list_create c_ow_conn_msg_cap ;;
      match m with
      | None => ow_list_destroy (Some t) ;;; ow_free c ;;; ow_ret None
      | Some m => ow_ret (Some (ow_mk_conn c (Some t) [] (Some m) [] None None))
      end
    end
  end.

Definition ow_conn_set_addrs (c : ow_conn) (cl sv : ow_oid) : ow_conn :=
  ow_mk_conn (ocn_self c) (ocn_txl c) (ocn_txs c) (ocn_msgl c) (ocn_msgs c) cl sv.

(* htp_conn_open after 355cad8: client_addr is cleared when it is released on the error path *)
Definition ow_conn_open (c : ow_conn) (has_client has_server : bool) : ow_M (bool * ow_conn) :=
  ow_use (ocn_self c) ;;;
  cl <- (if has_client then ow_malloc else ow_ret (ocn_client c)) ;;
  if has_client && ow_isnull cl then ow_ret (false, ow_conn_set_addrs c None (ocn_server c)) else
  if has_server then
    sv <- ow_malloc ;;
    match sv with
    | None =>
      (if ow_isnull cl then ow_ret tt else ow_free cl) ;;;
      ow_ret (false, ow_conn_set_addrs c None None)
    | Some _ => ow_ret (true, ow_conn_set_addrs c cl sv)
    end
  else ow_ret (true, ow_conn_set_addrs c cl (ocn_server c)).

(* the code before 355cad8: client_addr keeps pointing to the released string *)
Definition ow_conn_open_old (c : ow_conn) (has_client has_server : bool) : ow_M (bool * ow_conn) :=
  ow_use (ocn_self c) ;;;
  cl <- (if has_client then ow_malloc else ow_ret (ocn_client c)) ;;
  if has_client && ow_isnull cl then ow_ret (false, ow_conn_set_addrs c None (ocn_server c)) else
  if has_server then
    sv <- ow_malloc ;;
    match sv with
    | None =>
      (if ow_isnull cl then ow_ret tt else ow_free cl) ;;;
      ow_ret (false, ow_conn_set_addrs c cl None)
    | Some _ => ow_ret (true, ow_conn_set_addrs c cl sv)
    end
  else ow_ret (true, ow_conn_set_addrs c cl (ocn_server c)).

Definition ow_log_free (l : ow_log) : ow_M unit := ow_use (olg_self l) ;;; ow_free (olg_msg l) ;;; ow_free (olg_self l).

Definition ow_conn_destroy (c : option ow_conn) : ow_M unit :=
  match c with
  | None => ow_ret tt
  | Some c =>
    ow_use (ocn_self c) ;;;
    (match ocn_txl c with
     | None => ow_ret tt
     | Some l =>
       ow_iter (fun t => match t with None => ow_ret tt | Some tx => ow_tx_destroy_incomplete tx end) (ocn_txs c) ;;;
       ow_list_destroy (Some l)
     end) ;;;
    (match ocn_msgl c with
     | None => ow_ret tt
     | Some l => ow_iter ow_log_free (ocn_msgs c) ;;; ow_list_destroy (Some l)
     end) ;;;
    ow_free (ocn_server c) ;;;
    ow_free (ocn_client c) ;;;
    ow_free (ocn_self c)
  end.

Definition ocn_set_txl (c : ow_conn) (l : option ow_lst) : ow_conn :=
  ow_mk_conn (ocn_self c) l (ocn_txs c) (ocn_msgl c) (ocn_msgs c) (ocn_client c) (ocn_server c).
Definition ocn_set_txs (c : ow_conn) (l : option ow_lst) (txs : list (option ow_tx)) : ow_conn :=
  ow_mk_conn (ocn_self c) l txs (ocn_msgl c) (ocn_msgs c) (ocn_client c) (ocn_server c).
Definition ocn_set_msgs (c : ow_conn) (l : option ow_lst) (ms : list ow_log) : ow_conn :=
  ow_mk_conn (ocn_self c) (ocn_txl c) (ocn_txs c) l ms (ocn_client c) (ocn_server c).

(* ------------------------------------------------------------------ htp_log (htp_util.c) *)
(* on = the message passes cfg->log_level.  strdup's result is stored unchecked. *)
Definition ow_log_msg (on : bool) (connp : ow_oid) (c : ow_conn) : ow_M ow_conn :=
  ow_use connp ;;;
  if negb on then ow_ret c else
  lg <- ow_malloc ;;
  match lg with
  | None => ow_ret c
  | Some _ =>
    msg <- ow_malloc ;;
    ow_use (ocn_self c) ;;;
    match ocn_msgl c with
    | None => ow_free msg ;;; ow_free lg ;;; ow_ret c
    | Some l =>
      r <- ow_list_push l ;;
      if fst r then ow_ret (ocn_set_msgs c (Some (snd r)) (ocn_msgs c ++ [ow_mk_log lg msg]))
      else ow_free msg ;;; ow_free lg ;;; ow_ret (ocn_set_msgs c (Some (snd r)) (ocn_msgs c))
    end
  end.

Fixpoint ow_log_n (n : nat) (on : bool) (connp : ow_oid) (c : ow_conn) : ow_M ow_conn :=
  match n with
  | O => ow_ret c
  | S m => c1 <- ow_log_msg on connp c ;; ow_log_n m on connp c1
  end.

(* ------------------------------------------------------------------ htp_tx_create (after 596a86d) *)
Definition ow_nulls (n : nat) : list ow_oid := repeat None n.

Definition ow_tx_empty (t cn cp : ow_oid) : ow_tx :=
  ow_mk_tx t cn cp (ow_nulls 6) None None None None None [] None [] None [] None None (ow_nulls 5) None [] 0.
Definition otx_set_tables (tx : ow_tx) (u : option ow_uri) (rh pa rs : option ow_tbl) : ow_tx :=
  ow_mk_tx (otx_self tx) (otx_conn tx) (otx_connp tx) (otx_req_strs tx) u (otx_uri tx) (otx_auth_user tx) (otx_auth_pass tx)
        rh (otx_req_hvals tx) pa (otx_pvals tx) (otx_cookies tx) (otx_cvals tx) (otx_hook_req tx) (otx_hook_res tx)
        (otx_res_strs tx) rs (otx_res_hvals tx) (otx_rep tx).

(* fixed = the code after 596a86d; before it the result of htp_list_add was ignored: the transaction was
   returned (to connp->in_tx) although the connection's list does not hold it *)
Definition ow_tx_create_gen (fixed : bool) (connp : ow_oid) (c : ow_conn) : ow_M (bool * ow_conn) :=
  t <- ow_malloc ;;
  match t with
  | None => ow_ret (false, c)
  | Some _ =>
    ow_use connp ;;; ow_use (ocn_self c) ;;;
    (match ocn_txl c with Some l => ow_use (ool_self l) | None => ow_ret tt end) ;;;
    let tx0 := ow_tx_empty t (ocn_self c) connp in
    u <- ow_uri_alloc ;;
    match u with
    | None => ow_tx_destroy_incomplete tx0 ;;; ow_ret (false, c)
    | Some _ =>
      let tx1 := otx_set_tables tx0 u None None None in
      rh <- ow_table_create (Nat.div2 c_ow_tx_table_cap) ;;
      match rh with
      | None => ow_tx_destroy_incomplete tx1 ;;; ow_ret (false, c)
      | Some _ =>
        let tx2 := otx_set_tables tx0 u rh None None in
        pa <- ow_table_create (Nat.div2 c_ow_tx_table_cap) ;;
        match pa with
        | None => ow_tx_destroy_incomplete tx2 ;;; ow_ret (false, c)
        | Some _ =>
          let tx3 := otx_set_tables tx0 u rh pa None in
          rs <- ow_table_create (Nat.div2 c_ow_tx_table_cap) ;;
          match rs with
          | None => ow_tx_destroy_incomplete tx3 ;;; ow_ret (false, c)
          | Some _ =>
            let tx4 := otx_set_tables tx0 u rh pa rs in
            match ocn_txl c with
            | None => ow_tx_destroy_incomplete tx4 ;;; ow_ret (false, c)
            | Some l =>
              r <- ow_list_push l ;;
              if fst r then ow_ret (true, ocn_set_txs c (Some (snd r)) (ocn_txs c ++ [Some tx4]))
              else if fixed then ow_tx_destroy_incomplete tx4 ;;; ow_ret (false, ocn_set_txl c (Some (snd r)))
              else ow_ret (true, ocn_set_txl c (Some (snd r)))
            end
          end
        end
      end
    end
  end.

Definition ow_tx_create := ow_tx_create_gen true.
Definition ow_tx_create_old := ow_tx_create_gen false.

(* ------------------------------------------------------------------ htp_connection_parser.c *)
Record ow_file := ow_mk_file { ofl_self : ow_oid; ofl_name : ow_oid; ofl_tmp : ow_oid }.
Record ow_connp := ow_mk_connp {
  ocp_self : ow_oid; ocp_conn : option ow_conn;
  ocp_in_buf : ow_oid; ocp_out_buf : ow_oid; ocp_in_hdr : ow_oid; ocp_out_hdr : ow_oid; ocp_put_file : option ow_file
}.
Definition ocp_set_conn (p : ow_connp) (c : option ow_conn) : ow_connp :=
  ow_mk_connp (ocp_self p) c (ocp_in_buf p) (ocp_out_buf p) (ocp_in_hdr p) (ocp_out_hdr p) (ocp_put_file p).
Definition ocp_set_in_buf (p : ow_connp) (b : ow_oid) : ow_connp :=
  ow_mk_connp (ocp_self p) (ocp_conn p) b (ocp_out_buf p) (ocp_in_hdr p) (ocp_out_hdr p) (ocp_put_file p).

Definition ow_connp_create : ow_M (option ow_connp) :=
  p <- ow_malloc ;;
  match p with
  | None => ow_ret None
  | Some _ =>
    c <- ow_conn_create ;;
    match c with
    | None => ow_free p ;;; ow_ret None
    | Some _ => ow_ret (Some (ow_mk_connp p c None None None None None))
    end
  end.

(* htp_connp_destroy_all = htp_conn_destroy(connp->conn) + htp_connp_destroy(connp) *)
Definition ow_connp_destroy_all (p : option ow_connp) : ow_M unit :=
  match p with
  | None => ow_ret tt
  | Some p =>
    ow_use (ocp_self p) ;;;
    ow_conn_destroy (ocp_conn p) ;;;
    ow_free (ocp_in_buf p) ;;;
    ow_free (ocp_out_buf p) ;;;
    (match ocp_put_file p with
     | None => ow_ret tt
     | Some f => ow_use (ofl_self f) ;;; ow_free (ofl_name f) ;;; ow_free (ofl_self f)
     end) ;;;
    ow_free (ocp_in_hdr p) ;;;
    ow_free (ocp_out_hdr p) ;;;
    ow_free (ocp_self p)
  end.

(* htp_connp_req_buffer: first piece malloc, later pieces realloc *)
Record ow_rbshape := ow_mk_rbshape { orb_has_data : bool; orb_len0 : bool; orb_over : bool }.

Definition ow_req_buffer (log_on : bool) (sh : ow_rbshape) (in_tx : ow_oid) (p : ow_connp) : ow_M (bool * ow_connp) :=
  ow_use (ocp_self p) ;;;
  if negb (orb_has_data sh) then ow_ret (true, p) else
  if orb_len0 sh then ow_ret (true, p) else
  (if ow_isnull (ocp_in_hdr p) then ow_ret tt else ow_use (ocp_in_hdr p)) ;;;
  ow_use in_tx ;;;
  if orb_over sh then
    match ocp_conn p with
    | None => ow_use None ;;; ow_ret (false, p)
    | Some c => c1 <- ow_log_msg log_on (ocp_self p) c ;; ow_ret (false, ocp_set_conn p (Some c1))
    end
  else
    if ow_isnull (ocp_in_buf p) then
      b <- ow_malloc ;;
      match b with
      | None => ow_ret (false, p)
      | Some _ => ow_use b ;;; ow_ret (true, ocp_set_in_buf p b)
      end
    else
      b <- ow_realloc (ocp_in_buf p) ;;
      match b with
      | None => ow_ret (false, p)
      | Some _ => ow_use b ;;; ow_ret (true, ocp_set_in_buf p b)
      end.

(* ------------------------------------------------------------------ htp_request_generic.c *)
Definition otx_set_req_hdrs (tx : ow_tx) (rh : option ow_tbl) (hv : list ow_hdr) (rep : nat) : ow_tx :=
  ow_mk_tx (otx_self tx) (otx_conn tx) (otx_connp tx) (otx_req_strs tx) (otx_uri_raw tx) (otx_uri tx) (otx_auth_user tx) (otx_auth_pass tx)
        rh hv (otx_params tx) (otx_pvals tx) (otx_cookies tx) (otx_cvals tx) (otx_hook_req tx) (otx_hook_res tx)
        (otx_res_strs tx) (otx_res_hdrs tx) (otx_res_hvals tx) rep.
Definition otx_set_auth (tx : ow_tx) (u p : ow_oid) : ow_tx :=
  ow_mk_tx (otx_self tx) (otx_conn tx) (otx_connp tx) (otx_req_strs tx) (otx_uri_raw tx) (otx_uri tx) u p
        (otx_req_hdrs tx) (otx_req_hvals tx) (otx_params tx) (otx_pvals tx) (otx_cookies tx) (otx_cvals tx) (otx_hook_req tx) (otx_hook_res tx)
        (otx_res_strs tx) (otx_res_hdrs tx) (otx_res_hvals tx) (otx_rep tx).

(* ohs_prelogs: number of htp_log calls the parser makes before it copies name and value (colon missing,
   empty name, LWS after name, name not a token -- each once per transaction);
   ohs_existing: index of the header with the same name (htp_table_get), if any *)
Record ow_hshape := ow_mk_hshape {
  ohs_prelogs : nat; ohs_existing : option nat; ohs_ex_repeated : bool; ohs_is_cl : bool; ohs_cl_ambiguous : bool
}.

(* htp_parse_request_header_generic *)
Definition ow_parse_request_header (log_on : bool) (prelogs : nat) (connp : ow_oid) (c : ow_conn) (h : ow_hdr)
  : ow_M (bool * ow_conn * ow_hdr) :=
  c1 <- ow_log_n prelogs log_on connp c ;;
  ow_use (ohd_self h) ;;;
  n <- ow_bstr_dup_mem ;;
  match n with
  | None => ow_ret (false, c1, h)
  | Some _ =>
    v <- ow_bstr_dup_mem ;;
    match v with
    | None => ow_free n ;;; ow_ret (false, c1, ow_mk_hdr (ohd_self h) n None)     (* h->name keeps the released pointer *)
    | Some _ => ow_ret (true, c1, ow_mk_hdr (ohd_self h) n v)
    end
  end.

Fixpoint ow_hv_set_value (l : list ow_hdr) (i : nat) (v : ow_oid) : list ow_hdr :=
  match l, i with
  | [], _ => []
  | h :: r, O => ow_mk_hdr (ohd_self h) (ohd_name h) v :: r
  | h :: r, S j => h :: ow_hv_set_value r j v
  end.

(* htp_process_request_header_generic; result: true = HTP_OK *)
Definition ow_process_request_header (log_on : bool) (sh : ow_hshape) (connp : ow_oid) (c : ow_conn) (tx : ow_tx)
  : ow_M (bool * ow_conn * ow_tx) :=
  hs <- ow_malloc ;;
  match hs with
  | None => ow_ret (false, c, tx)
  | Some _ =>
    r <- ow_parse_request_header log_on (ohs_prelogs sh) connp c (ow_mk_hdr hs None None) ;;
    let '(ok, c1, h) := r in
    if negb ok then ow_free hs ;;; ow_ret (false, c1, tx) else
    ow_use connp ;;; ow_use (otx_self tx) ;;;
    let free_h := ow_free (ohd_name h) ;;; ow_free (ohd_value h) ;;; ow_free (ohd_self h) in
    match (match ohs_existing sh with Some i => match nth_error (otx_req_hvals tx) i with Some he => Some (i, he) | None => None end | None => None end) with
    | Some (i, he) =>
      ow_use (ohd_self he) ;;;
      c2 <- (if negb (ohs_ex_repeated sh) then ow_log_msg log_on connp c1 else ow_ret c1) ;;
      if ohs_ex_repeated sh && negb (otx_rep tx <? c_ow_MAX_HEADERS_REPETITIONS) then
        free_h ;;; ow_ret (true, c2, tx)
      else
        let rep := if ohs_ex_repeated sh then S (otx_rep tx) else otx_rep tx in
        if ohs_is_cl sh then
          ow_use (ohd_value he) ;;; ow_use (ohd_value h) ;;;
          c3 <- (if ohs_cl_ambiguous sh then ow_log_msg log_on connp c2 else ow_ret c2) ;;
          free_h ;;; ow_ret (true, c3, otx_set_req_hdrs tx (otx_req_hdrs tx) (otx_req_hvals tx) rep)
        else
          nv <- ow_bstr_expand (ohd_value he) false false ;;
          match nv with
          | None => free_h ;;; ow_ret (false, c2, otx_set_req_hdrs tx (otx_req_hdrs tx) (otx_req_hvals tx) rep)
          | Some _ =>
            ow_use nv ;;; ow_use (ohd_value h) ;;;
            free_h ;;;
            ow_ret (true, c2, otx_set_req_hdrs tx (otx_req_hdrs tx) (ow_hv_set_value (otx_req_hvals tx) i nv) rep)
          end
    | None =>
      match otx_req_hdrs tx with
      | None => free_h ;;; ow_ret (true, c1, tx)
      | Some t =>
        a <- ow_table_add t (ohd_name h) ;;
        if fst a then ow_ret (true, c1, otx_set_req_hdrs tx (Some (snd a)) (otx_req_hvals tx ++ [h]) (otx_rep tx))
        else free_h ;;; ow_ret (true, c1, otx_set_req_hdrs tx (Some (snd a)) (otx_req_hvals tx) (otx_rep tx))
      end
    end
  end.

(* ------------------------------------------------------------------ htp_parse_authorization_basic *)
Record ow_abshape := ow_mk_abshape { oab_ws_only : bool; oab_dec_empty : bool; oab_has_colon : bool }.

(* result: 0 HTP_OK, 1 HTP_DECLINED, 2 HTP_ERROR.  fixed = the code after d8530c5 *)
Definition ow_auth_basic_gen (fixed : bool) (sh : ow_abshape) (hdr : ow_hdr) (tx : ow_tx) : ow_M (nat * ow_tx) :=
  ow_use (ohd_self hdr) ;;; ow_use (ohd_value hdr) ;;;
  if oab_ws_only sh then ow_ret (1, tx) else
  tmp <- ow_malloc ;;                                   (* htp_base64_decode_mem *)
  match tmp with
  | None => ow_ret (2, tx)
  | Some _ =>
    dec <- (if oab_dec_empty sh then ow_ret None else ow_bstr_dup_mem) ;;
    ow_free tmp ;;;
    match dec with
    | None => ow_ret (2, tx)
    | Some _ =>
      ow_use dec ;;;
      if negb (oab_has_colon sh) then ow_free dec ;;; ow_ret (1, tx) else
      ow_use (otx_self tx) ;;;
      u <- ow_bstr_dup dec ;;
      match u with
      | None => ow_free dec ;;; ow_ret (2, otx_set_auth tx None (otx_auth_pass tx))
      | Some _ =>
        p <- ow_bstr_dup dec ;;
        match p with
        | None =>
          ow_free dec ;;; ow_free u ;;;
          ow_ret (2, otx_set_auth tx (if fixed then None else u) None)
        | Some _ => ow_free dec ;;; ow_ret (0, otx_set_auth tx u p)
        end
      end
    end
  end.
Definition ow_auth_basic := ow_auth_basic_gen true.
Definition ow_auth_basic_old := ow_auth_basic_gen false.

(* ------------------------------------------------------------------ htp_multipart.c: parts and the C-D parser *)
Record ow_part := ow_mk_part {
  opt_self : ow_oid; opt_parser : ow_oid; opt_file : option ow_file;
  opt_name : ow_oid; opt_value : ow_oid; opt_ctype : ow_oid;
  opt_hdrs : option ow_tbl; opt_hvals : list ow_hdr
}.
Definition opt_set (p : ow_part) (f : option ow_file) (n : ow_oid) : ow_part :=
  ow_mk_part (opt_self p) (opt_parser p) f n (opt_value p) (opt_ctype p) (opt_hdrs p) (opt_hvals p).

Definition ow_part_create (parser : ow_oid) : ow_M (option ow_part) :=
  p <- ow_malloc ;;
  match p with
  | None => ow_ret None
  | Some _ =>
    t <- ow_table_create (Nat.div2 c_ow_part_table_cap) ;;
    match t with
    | None => ow_free p ;;; ow_ret None
    | Some _ => ow_use parser ;;; ow_ret (Some (ow_mk_part p parser None None None None t []))
    end
  end.

(* htp_mpart_part_destroy(part, 0) *)
Definition ow_part_destroy (p : option ow_part) : ow_M unit :=
  match p with
  | None => ow_ret tt
  | Some p =>
    ow_use (opt_self p) ;;;
    (match opt_file p with
     | None => ow_ret tt
     | Some f => ow_use (ofl_self f) ;;; ow_free (ofl_name f) ;;; ow_free (ofl_tmp f) ;;; ow_free (ofl_self f)
     end) ;;;
    ow_free (opt_name p) ;;; ow_free (opt_value p) ;;; ow_free (opt_ctype p) ;;;
    (match opt_hdrs p with
     | None => ow_ret tt
     | Some t => ow_use (oot_self t) ;;; ow_iter ow_hdr_free (opt_hvals p) ;;; ow_table_destroy (Some t)
     end) ;;;
    ow_free (opt_self p)
  end.

Inductive ow_cdp := OwCdName | OwCdFile | OwCdOther.
Record ow_cdshape := ow_mk_cdshape { ocd_present : bool; ocd_formdata : bool; ocd_params : list ow_cdp; ocd_bad_tail : bool }.

(* the parameter loop of htp_mpart_part_parse_c_d; result: 0 OK, 1 DECLINED, 2 ERROR; fixed = after b69f563 *)
Fixpoint ow_cd_loop (fixed : bool) (ps : list ow_cdp) (bad_tail : bool) (p : ow_part) : ow_M (nat * ow_part) :=
  match ps with
  | [] => ow_ret (if bad_tail then 1 else 0, p)
  | OwCdName :: r =>
    if negb (ow_isnull (opt_name p)) then ow_ret (1, p) else
    n <- ow_bstr_dup_mem ;;
    match n with
    | None => ow_ret (2, p)
    | Some _ => ow_use n ;;; ow_cd_loop fixed r bad_tail (opt_set p (opt_file p) n)
    end
  | OwCdFile :: r =>
    match opt_file p with
    | Some _ => ow_ret (1, p)
    | None =>
      f <- ow_malloc ;;
      match f with
      | None => ow_ret (2, p)
      | Some _ =>
        ow_use f ;;;
        fn <- ow_bstr_dup_mem ;;
        match fn with
        | None =>
          ow_free f ;;;
          ow_ret (2, opt_set p (if fixed then None else Some (ow_mk_file f None None)) (opt_name p))
        | Some _ => ow_use fn ;;; ow_cd_loop fixed r bad_tail (opt_set p (Some (ow_mk_file f fn None)) (opt_name p))
        end
      end
    end
  | OwCdOther :: _ => ow_use (opt_parser p) ;;; ow_ret (1, p)
  end.

Definition ow_part_parse_cd_gen (fixed : bool) (sh : ow_cdshape) (p : ow_part) : ow_M (nat * ow_part) :=
  ow_use (opt_self p) ;;;
  (match opt_hdrs p with Some t => ow_use (oot_self t) | None => ow_ret tt end) ;;;
  if negb (ocd_present sh) then ow_use (opt_parser p) ;;; ow_ret (1, p) else
  if negb (ocd_formdata sh) then ow_use (opt_parser p) ;;; ow_ret (1, p) else
  ow_cd_loop fixed (ocd_params sh) (ocd_bad_tail sh) p.
Definition ow_part_parse_cd := ow_part_parse_cd_gen true.
Definition ow_part_parse_cd_old := ow_part_parse_cd_gen false.

(* ------------------------------------------------------------------ running *)
Definition ow_never : nat -> bool := fun _ => false.
Definition ow_fail_at (k : nat) : nat -> bool := fun n => S n =? k.     (* k = 0: never *)
Definition ow_init (sched : nat -> bool) : ow_state := ow_mk_os sched 0 0 [] [].
(* start the observed window: forget the trace of the setup, install the schedule *)
Definition ow_arm (k : nat) : ow_M unit := fun s => OwOk tt (ow_mk_os (ow_fail_at k) (oos_next s) 0 (oos_live s) []).
