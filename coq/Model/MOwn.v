(* Ownership model (C18): which C function allocates, frees and dereferences which object, with
   the k-th allocation failing.  Only liveness is modelled: a heap cell is an id that is live or
   not; struct fields that hold pointers are [oid] fields of small records (None = NULL).  Each
   definition transcribes one C function, ONE allocation event per C allocation, in the C order,
   every error path included.  Contents of containers that matter to ownership (table keys,
   builder pieces, hook callbacks, header structs) are kept by the owner next to the ring-buffer
   *shape* (block, first, max, size); Proof/PList.v (C17) covers the ring contents themselves. *)
Require Import Htp.Model.Base.

Definition oid := option nat.

Inductive ow_ev := EvA (i : nat) | EvX | EvF (i : nat) | EvR (o n : nat).

Record ow_state := mk_os {
  os_sched : nat -> bool;     (* true = the n-th allocation (0-based) fails *)
  os_next : nat;              (* next fresh id *)
  os_cnt : nat;               (* allocations attempted so far *)
  os_live : list nat;
  os_trace : list ow_ev       (* newest first *)
}.

Inductive ow_res (A : Type) := OwOk (a : A) (s : ow_state) | OwFault (code : nat) (s : ow_state).
Arguments OwOk {A}. Arguments OwFault {A}.

Definition M (A : Type) := ow_state -> ow_res A.
Definition ow_ret {A} (a : A) : M A := fun s => OwOk a s.
Definition ow_bind {A B} (m : M A) (f : A -> M B) : M B :=
  fun s => match m s with OwOk a s' => f a s' | OwFault c s' => OwFault c s' end.
Notation "x <- m ;; f" := (ow_bind m (fun x => f)) (at level 61, m at next level, right associativity).
Notation "m ;;; f" := (ow_bind m (fun _ => f)) (at level 61, right associativity).

Definition ow_mem (i : nat) (l : list nat) : bool := existsb (Nat.eqb i) l.
Definition ow_del (i : nat) (l : list nat) : list nat := filter (fun j => negb (Nat.eqb i j)) l.

(* fault codes: 1 free of a non-live cell (double / invalid free), 2 use after free, 3 NULL dereference *)
Definition ow_malloc : M oid := fun s =>
  if os_sched s (os_cnt s)
  then OwOk None (mk_os (os_sched s) (os_next s) (S (os_cnt s)) (os_live s) (EvX :: os_trace s))
  else OwOk (Some (os_next s))
            (mk_os (os_sched s) (S (os_next s)) (S (os_cnt s)) (os_next s :: os_live s) (EvA (os_next s) :: os_trace s)).

Definition ow_free (p : oid) : M unit := fun s =>
  match p with
  | None => OwOk tt s
  | Some i => if ow_mem i (os_live s)
              then OwOk tt (mk_os (os_sched s) (os_next s) (os_cnt s) (ow_del i (os_live s)) (EvF i :: os_trace s))
              else OwFault 1 s
  end.

Definition ow_use (p : oid) : M unit := fun s =>
  match p with
  | None => OwFault 3 s
  | Some i => if ow_mem i (os_live s) then OwOk tt s else OwFault 2 s
  end.

(* realloc: NULL -> malloc; success = free old + allocate new (whether or not the block moves);
   failure leaves the old block alone *)
Definition ow_realloc (p : oid) : M oid := fun s =>
  match p with
  | None => ow_malloc s
  | Some i =>
    if ow_mem i (os_live s) then
      if os_sched s (os_cnt s)
      then OwOk None (mk_os (os_sched s) (os_next s) (S (os_cnt s)) (os_live s) (EvX :: os_trace s))
      else OwOk (Some (os_next s))
                (mk_os (os_sched s) (S (os_next s)) (S (os_cnt s)) (os_next s :: ow_del i (os_live s))
                       (EvR i (os_next s) :: os_trace s))
    else OwFault 2 s
  end.

Definition ow_isnull (p : oid) : bool := match p with None => true | Some _ => false end.

Fixpoint ow_iter {A} (f : A -> M unit) (l : list A) : M unit :=
  match l with
  | [] => ow_ret tt
  | a :: r => f a ;;; ow_iter f r
  end.

(* ------------------------------------------------------------------ bstr.c *)
Definition ow_bstr_alloc : M oid := ow_malloc.
Definition ow_bstr_dup_mem : M oid := ow_bstr_alloc.
(* bstr_dup / bstr_dup_ex: reads the source (length), allocates, copies *)
Definition ow_bstr_dup (b : oid) : M oid :=
  ow_use b ;;;
  n <- ow_bstr_alloc ;;
  match n with None => ow_ret None | Some _ => ow_use b ;;; ow_ret n end.
(* bstr_expand: refuses wrapped strings and shrinking *)
Definition ow_bstr_expand (b : oid) (wrapped shrink : bool) : M oid :=
  ow_use b ;;;
  if wrapped then ow_ret None else if shrink then ow_ret None else
  n <- ow_realloc b ;;
  match n with None => ow_ret None | Some _ => ow_use n ;;; ow_ret n end.
(* bstr_add_mem: expands when the data does not fit *)
Definition ow_bstr_add_mem (b : oid) (wrapped fits : bool) : M oid :=
  ow_use b ;;;
  if fits then ow_ret b else
  d <- ow_bstr_expand b wrapped false ;;
  match d with None => ow_ret None | Some _ => ow_use d ;;; ow_ret d end.

(* ------------------------------------------------------------------ htp_list.c (array-backed) *)
(* ol_self: the cell that holds the htp_list_array_t itself (the container for an embedded list) *)
Record ow_lst := mk_lst { ol_self : oid; ol_blk : oid; ol_first : nat; ol_max : nat; ol_size : nat }.

Definition ow_list_init (self : oid) (size : nat) : M (option ow_lst) :=
  b <- ow_malloc ;;
  match b with
  | None => ow_ret None
  | Some _ => ow_use self ;;; ow_ret (Some (mk_lst self b 0 size 0))
  end.

Definition ow_list_create (size : nat) : M (option ow_lst) :=
  if size =? 0 then ow_ret None else
  l <- ow_malloc ;;
  match l with
  | None => ow_ret None
  | Some _ =>
    r <- ow_list_init l size ;;
    match r with
    | None => ow_free l ;;; ow_ret None
    | Some x => ow_ret (Some x)
    end
  end.

Definition ow_list_destroy (l : option ow_lst) : M unit :=
  match l with
  | None => ow_ret tt
  | Some l => ow_use (ol_self l) ;;; ow_free (ol_blk l) ;;; ow_free (ol_self l)
  end.

Definition ow_list_release (l : ow_lst) : M unit := ow_use (ol_self l) ;;; ow_free (ol_blk l).

Definition ow_list_push (l : ow_lst) : M (bool * ow_lst) :=
  ow_use (ol_self l) ;;;
  if ol_max l <=? ol_size l then
    if ol_first l =? 0 then
      nb <- ow_realloc (ol_blk l) ;;
      match nb with
      | None => ow_ret (false, l)
      | Some _ => ow_use nb ;;; ow_ret (true, mk_lst (ol_self l) nb 0 (ol_max l * 2) (S (ol_size l)))
      end
    else
      nb <- ow_malloc ;;
      match nb with
      | None => ow_ret (false, l)
      | Some _ =>
        ow_use (ol_blk l) ;;; ow_use nb ;;;          (* the two memcpy *)
        ow_free (ol_blk l) ;;;
        ow_use nb ;;; ow_ret (true, mk_lst (ol_self l) nb 0 (ol_max l * 2) (S (ol_size l)))
      end
  else
    ow_use (ol_blk l) ;;; ow_ret (true, mk_lst (ol_self l) (ol_blk l) (ol_first l) (ol_max l) (S (ol_size l))).

Definition ow_list_pop (l : ow_lst) : ow_lst :=
  if ol_size l =? 0 then l else mk_lst (ol_self l) (ol_blk l) (ol_first l) (ol_max l) (ol_size l - 1).
Definition ow_list_shift (l : ow_lst) : ow_lst :=
  if ol_size l =? 0 then l
  else mk_lst (ol_self l) (ol_blk l) (if S (ol_first l) =? ol_max l then 0 else S (ol_first l)) (ol_max l) (ol_size l - 1).
Definition ow_list_clear (l : ow_lst) : ow_lst := mk_lst (ol_self l) (ol_blk l) 0 (ol_max l) 0.

(* ------------------------------------------------------------------ htp_table.c *)
Record ow_tbl := mk_tbl { ot_self : oid; ot_mode : nat; ot_lst : ow_lst; ot_keys : list oid }.

Definition ow_table_create (size : nat) : M (option ow_tbl) :=
  if size =? 0 then ow_ret None else
  t <- ow_malloc ;;
  match t with
  | None => ow_ret None
  | Some _ =>
    l <- ow_list_init t (size * 2) ;;
    match l with
    | None => ow_free t ;;; ow_ret None
    | Some l => ow_ret (Some (mk_tbl t c_ow_KEYS_UNKNOWN l []))
    end
  end.

(* _htp_table_add: key, then element; the key is popped again when the element cannot be added *)
Definition ow_table_add_raw (t : ow_tbl) (key : oid) : M (bool * ow_tbl) :=
  r1 <- ow_list_push (ot_lst t) ;;
  if negb (fst r1) then ow_ret (false, mk_tbl (ot_self t) (ot_mode t) (snd r1) (ot_keys t)) else
  r2 <- ow_list_push (snd r1) ;;
  if negb (fst r2) then ow_ret (false, mk_tbl (ot_self t) (ot_mode t) (ow_list_pop (snd r2)) (ot_keys t))
  else ow_ret (true, mk_tbl (ot_self t) (ot_mode t) (snd r2) (ot_keys t ++ [key])).

Definition ow_table_set_mode (t : ow_tbl) (m : nat) : ow_tbl := mk_tbl (ot_self t) m (ot_lst t) (ot_keys t).

(* htp_table_add: the key is copied; the copy is freed when it cannot be stored *)
Definition ow_table_add (t : ow_tbl) (key : oid) : M (bool * ow_tbl) :=
  if ow_isnull key then ow_ret (false, t) else
  ow_use (ot_self t) ;;;
  if (ot_mode t =? c_ow_KEYS_UNKNOWN) || (ot_mode t =? c_ow_KEYS_COPIED) then
    let t1 := ow_table_set_mode t c_ow_KEYS_COPIED in
    d <- ow_bstr_dup key ;;
    match d with
    | None => ow_ret (false, t1)
    | Some _ =>
      r <- ow_table_add_raw t1 d ;;
      if fst r then ow_ret (true, snd r) else ow_free d ;;; ow_ret (false, snd r)
    end
  else ow_ret (false, t).

(* htp_table_addn (mode = ADOPTED) / htp_table_addk (mode = REFERENCED): the key pointer itself is stored *)
Definition ow_table_add_nk (mode : nat) (t : ow_tbl) (key : oid) : M (bool * ow_tbl) :=
  if ow_isnull key then ow_ret (false, t) else
  ow_use (ot_self t) ;;;
  if (ot_mode t =? c_ow_KEYS_UNKNOWN) || (ot_mode t =? mode) then
    ow_table_add_raw (ow_table_set_mode t mode) key
  else ow_ret (false, t).
Definition ow_table_addn := ow_table_add_nk c_ow_KEYS_ADOPTED.
Definition ow_table_addk := ow_table_add_nk c_ow_KEYS_REFERENCED.

Definition ow_table_clear (t : ow_tbl) : M ow_tbl :=
  ow_use (ot_self t) ;;;
  (if (ot_mode t =? c_ow_KEYS_COPIED) || (ot_mode t =? c_ow_KEYS_ADOPTED)
   then ow_iter ow_free (ot_keys t) else ow_ret tt) ;;;
  ow_ret (mk_tbl (ot_self t) (ot_mode t) (ow_list_clear (ot_lst t)) []).

Definition ow_table_destroy (t : option ow_tbl) : M unit :=
  match t with
  | None => ow_ret tt
  | Some t => t1 <- ow_table_clear t ;; ow_list_release (ot_lst t1) ;;; ow_free (ot_self t1)
  end.

(* ------------------------------------------------------------------ bstr_builder.c *)
Record ow_bb := mk_bb { bb_self : oid; bb_lst : ow_lst; bb_pieces : list oid }.

Definition ow_builder_create : M (option ow_bb) :=
  b <- ow_malloc ;;
  match b with
  | None => ow_ret None
  | Some _ =>
    l <- ow_list_create c_ow_builder_cap ;;
    match l with
    | None => ow_free b ;;; ow_ret None
    | Some l => ow_ret (Some (mk_bb b l []))
    end
  end.

(* bstr_builder_append_mem (after faef489): the new piece is freed when the push fails *)
Definition ow_builder_append_mem (bb : ow_bb) : M (bool * ow_bb) :=
  b <- ow_bstr_dup_mem ;;
  match b with
  | None => ow_ret (false, bb)
  | Some _ =>
    ow_use (bb_self bb) ;;;
    r <- ow_list_push (bb_lst bb) ;;
    if fst r then ow_ret (true, mk_bb (bb_self bb) (snd r) (bb_pieces bb ++ [b]))
    else ow_free b ;;; ow_ret (false, mk_bb (bb_self bb) (snd r) (bb_pieces bb))
  end.

Definition ow_builder_clear (bb : ow_bb) : M ow_bb :=
  ow_use (bb_self bb) ;;; ow_use (ol_self (bb_lst bb)) ;;;
  if ol_size (bb_lst bb) =? 0 then ow_ret bb else
  ow_iter ow_free (bb_pieces bb) ;;;
  ow_ret (mk_bb (bb_self bb) (ow_list_clear (bb_lst bb)) []).

Definition ow_builder_destroy (bb : option ow_bb) : M unit :=
  match bb with
  | None => ow_ret tt
  | Some bb =>
    ow_use (bb_self bb) ;;;
    ow_iter ow_free (bb_pieces bb) ;;;
    ow_list_destroy (Some (bb_lst bb)) ;;;
    ow_free (bb_self bb)
  end.

Definition ow_builder_to_str (bb : ow_bb) : M oid :=
  ow_use (bb_self bb) ;;;
  ow_iter ow_use (bb_pieces bb) ;;;
  n <- ow_bstr_alloc ;;
  match n with
  | None => ow_ret None
  | Some _ => ow_iter (fun p => ow_use p ;;; ow_use n) (bb_pieces bb) ;;; ow_ret n
  end.

(* ------------------------------------------------------------------ htp_hooks.c *)
Record ow_hook := mk_hook { hk_self : oid; hk_lst : ow_lst; hk_cbs : list oid }.

Definition ow_hook_create : M (option ow_hook) :=
  h <- ow_malloc ;;
  match h with
  | None => ow_ret None
  | Some _ =>
    l <- ow_list_create c_ow_hook_cap ;;
    match l with
    | None => ow_free h ;;; ow_ret None
    | Some l => ow_ret (Some (mk_hook h l []))
    end
  end.

Definition ow_hook_destroy (h : option ow_hook) : M unit :=
  match h with
  | None => ow_ret tt
  | Some h =>
    ow_use (hk_self h) ;;;
    ow_iter ow_free (hk_cbs h) ;;;
    ow_list_destroy (Some (hk_lst h)) ;;;
    ow_free (hk_self h)
  end.

(* htp_hook_register: the hook slot may hold NULL; on a failed push a hook created here is released with a
   plain free of the hook struct (its list is not released and the slot keeps pointing to it) -- transcribed as is *)
Definition ow_hook_register (hook : option ow_hook) : M (bool * option ow_hook) :=
  cb <- ow_malloc ;;
  match cb with
  | None => ow_ret (false, hook)
  | Some _ =>
    hc <- match hook with
          | Some h => ow_ret (Some (false, h))
          | None => h <- ow_hook_create ;;
                    match h with None => ow_ret None | Some h => ow_ret (Some (true, h)) end
          end ;;
    match hc with
    | None => ow_free cb ;;; ow_ret (false, None)
    | Some (created, h) =>
      ow_use (hk_self h) ;;;
      r <- ow_list_push (hk_lst h) ;;
      if fst r then ow_ret (true, Some (mk_hook (hk_self h) (snd r) (hk_cbs h ++ [cb])))
      else
        (if created then ow_free (hk_self h) else ow_ret tt) ;;;
        ow_free cb ;;;
        ow_ret (false, Some (mk_hook (hk_self h) (snd r) (hk_cbs h)))
    end
  end.

(* the loop of htp_hook_copy: register every callback of the source into the copy *)
Fixpoint ow_hook_copy_loop (cbs : list oid) (copy : ow_hook) : M (option ow_hook) :=
  match cbs with
  | [] => ow_ret (Some copy)
  | c :: r =>
    ow_use c ;;;
    x <- ow_hook_register (Some copy) ;;
    if fst x then
      match snd x with Some copy' => ow_hook_copy_loop r copy' | None => ow_ret None end
    else ow_hook_destroy (snd x) ;;; ow_ret None
  end.

Definition ow_hook_copy (hook : option ow_hook) : M (option ow_hook) :=
  match hook with
  | None => ow_ret None
  | Some h =>
    c <- ow_hook_create ;;
    match c with
    | None => ow_ret None
    | Some c => ow_use (hk_self h) ;;; ow_hook_copy_loop (hk_cbs h) c
    end
  end.

(* ------------------------------------------------------------------ headers, uri, transactions *)
Record ow_hdr := mk_hdr { hd_self : oid; hd_name : oid; hd_value : oid }.   (* also htp_param_t: name, value *)
Record ow_uri := mk_uri { ur_self : oid; ur_fields : list oid }.   (* scheme username password hostname port path query fragment *)
Record ow_log := mk_log { lg_self : oid; lg_msg : oid }.

Definition ow_hdr_free (h : ow_hdr) : M unit :=
  ow_use (hd_self h) ;;; ow_free (hd_name h) ;;; ow_free (hd_value h) ;;; ow_free (hd_self h).

Definition ow_uri_alloc : M (option ow_uri) :=
  u <- ow_malloc ;;
  match u with None => ow_ret None | Some _ => ow_ret (Some (mk_uri u [None; None; None; None; None; None; None; None])) end.
Definition ow_uri_free (u : option ow_uri) : M unit :=
  match u with
  | None => ow_ret tt
  | Some u => ow_use (ur_self u) ;;; ow_iter ow_free (ur_fields u) ;;; ow_free (ur_self u)
  end.

Record ow_tx := mk_tx {
  tx_self : oid; tx_conn : oid; tx_connp : oid;
  tx_req_strs : list oid;              (* request_line method uri protocol content_type hostname *)
  tx_uri_raw : option ow_uri; tx_uri : option ow_uri;
  tx_auth_user : oid; tx_auth_pass : oid;
  tx_req_hdrs : option ow_tbl; tx_req_hvals : list ow_hdr;
  tx_params : option ow_tbl; tx_pvals : list ow_hdr;
  tx_cookies : option ow_tbl; tx_cvals : list oid;
  tx_hook_req : option ow_hook; tx_hook_res : option ow_hook;
  tx_res_strs : list oid;              (* response_line protocol status message content_type *)
  tx_res_hdrs : option ow_tbl; tx_res_hvals : list ow_hdr;
  tx_rep : nat                         (* req_header_repetitions *)
}.

(* htp_tx_destroy_incomplete; the request parsers (urlenp, mpartp) are NULL in the modelled states *)
Definition ow_tx_destroy_incomplete (tx : ow_tx) : M unit :=
  ow_use (tx_self tx) ;;;
  ow_use (tx_conn tx) ;;;                       (* htp_conn_remove_tx(tx->conn, tx) *)
  ow_use (tx_connp tx) ;;;                      (* htp_connp_tx_remove(tx->connp, tx) *)
  ow_iter ow_free (tx_req_strs tx) ;;;
  ow_uri_free (tx_uri_raw tx) ;;;
  ow_uri_free (tx_uri tx) ;;;
  ow_free (tx_auth_user tx) ;;;
  ow_free (tx_auth_pass tx) ;;;
  (match tx_req_hdrs tx with
   | None => ow_ret tt
   | Some t => ow_use (ot_self t) ;;; ow_iter ow_hdr_free (tx_req_hvals tx) ;;; ow_table_destroy (Some t)
   end) ;;;
  ow_iter ow_hdr_free (tx_pvals tx) ;;;
  ow_table_destroy (tx_params tx) ;;;
  (match tx_cookies tx with
   | None => ow_ret tt
   | Some t => ow_use (ot_self t) ;;; ow_iter ow_free (tx_cvals tx) ;;; ow_table_destroy (Some t)
   end) ;;;
  ow_hook_destroy (tx_hook_req tx) ;;;
  ow_hook_destroy (tx_hook_res tx) ;;;
  ow_iter ow_free (tx_res_strs tx) ;;;
  (match tx_res_hdrs tx with
   | None => ow_ret tt
   | Some t => ow_use (ot_self t) ;;; ow_iter ow_hdr_free (tx_res_hvals tx) ;;; ow_table_destroy (Some t)
   end) ;;;
  ow_free (tx_self tx).

(* ------------------------------------------------------------------ htp_connection.c *)
Record ow_conn := mk_conn {
  cn_self : oid;
  cn_txl : option ow_lst; cn_txs : list (option ow_tx);
  cn_msgl : option ow_lst; cn_msgs : list ow_log;
  cn_client : oid; cn_server : oid
}.

Definition ow_conn_create : M (option ow_conn) :=
  c <- ow_malloc ;;
  match c with
  | None => ow_ret None
  | Some _ =>
    t <- ow_list_create c_ow_conn_tx_cap ;;
    match t with
    | None => ow_free c ;;; ow_ret None
    | Some t =>
      m <- ow_list_create c_ow_conn_msg_cap ;;
      match m with
      | None => ow_list_destroy (Some t) ;;; ow_free c ;;; ow_ret None
      | Some m => ow_ret (Some (mk_conn c (Some t) [] (Some m) [] None None))
      end
    end
  end.

Definition ow_conn_set_addrs (c : ow_conn) (cl sv : oid) : ow_conn :=
  mk_conn (cn_self c) (cn_txl c) (cn_txs c) (cn_msgl c) (cn_msgs c) cl sv.

(* htp_conn_open after 355cad8: client_addr is cleared when it is released on the error path *)
Definition ow_conn_open (c : ow_conn) (has_client has_server : bool) : M (bool * ow_conn) :=
  ow_use (cn_self c) ;;;
  cl <- (if has_client then ow_malloc else ow_ret (cn_client c)) ;;
  if has_client && ow_isnull cl then ow_ret (false, ow_conn_set_addrs c None (cn_server c)) else
  if has_server then
    sv <- ow_malloc ;;
    match sv with
    | None =>
      (if ow_isnull cl then ow_ret tt else ow_free cl) ;;;
      ow_ret (false, ow_conn_set_addrs c None None)
    | Some _ => ow_ret (true, ow_conn_set_addrs c cl sv)
    end
  else ow_ret (true, ow_conn_set_addrs c cl (cn_server c)).

(* the code before 355cad8: client_addr keeps pointing to the released string *)
Definition ow_conn_open_old (c : ow_conn) (has_client has_server : bool) : M (bool * ow_conn) :=
  ow_use (cn_self c) ;;;
  cl <- (if has_client then ow_malloc else ow_ret (cn_client c)) ;;
  if has_client && ow_isnull cl then ow_ret (false, ow_conn_set_addrs c None (cn_server c)) else
  if has_server then
    sv <- ow_malloc ;;
    match sv with
    | None =>
      (if ow_isnull cl then ow_ret tt else ow_free cl) ;;;
      ow_ret (false, ow_conn_set_addrs c cl None)
    | Some _ => ow_ret (true, ow_conn_set_addrs c cl sv)
    end
  else ow_ret (true, ow_conn_set_addrs c cl (cn_server c)).

Definition ow_log_free (l : ow_log) : M unit := ow_use (lg_self l) ;;; ow_free (lg_msg l) ;;; ow_free (lg_self l).

Definition ow_conn_destroy (c : option ow_conn) : M unit :=
  match c with
  | None => ow_ret tt
  | Some c =>
    ow_use (cn_self c) ;;;
    (match cn_txl c with
     | None => ow_ret tt
     | Some l =>
       ow_iter (fun t => match t with None => ow_ret tt | Some tx => ow_tx_destroy_incomplete tx end) (cn_txs c) ;;;
       ow_list_destroy (Some l)
     end) ;;;
    (match cn_msgl c with
     | None => ow_ret tt
     | Some l => ow_iter ow_log_free (cn_msgs c) ;;; ow_list_destroy (Some l)
     end) ;;;
    ow_free (cn_server c) ;;;
    ow_free (cn_client c) ;;;
    ow_free (cn_self c)
  end.
