(* Ownership model, second part (C18): more allocation-relevant library functions in the monad of
   Model/MOwn.v, same rules: one allocation event per C allocation, in the C order, every error path.
   Out-parameters ( *hostname, *port, uri->field ) are values the function returns next to its status:
   what the caller's variable holds when the function returns. *)
Require Import Htp.Model.Base Htp.Model.MOwn Htp.Model.MOwnCases.

(* ------------------------------------------------------------------ uri fields by position *)
(* scheme 0, username 1, password 2, hostname 3, port 4, path 5, query 6, fragment 7 *)
Definition c_ou_scheme := 0.  Definition c_ou_username := 1.  Definition c_ou_password := 2.
Definition c_ou_hostname := 3.  Definition c_ou_port := 4.  Definition c_ou_path := 5.
Definition c_ou_query := 6.  Definition c_ou_fragment := 7.

Fixpoint ow_set_nth (l : list ow_oid) (i : nat) (v : ow_oid) : list ow_oid :=
  match l, i with
  | [], _ => []
  | _ :: r, O => v :: r
  | x :: r, S j => x :: ow_set_nth r j v
  end.
Definition ow_uri_get (u : ow_uri) (i : nat) : ow_oid := nth i (our_fields u) None.
Definition ow_uri_set (u : ow_uri) (i : nat) (v : ow_oid) : ow_uri := ow_mk_uri (our_self u) (ow_set_nth (our_fields u) i v).

(* ------------------------------------------------------------------ htp_parse_hostport (htp_util.c) *)
(* the authority string after trimming: empty; "[" without "]"; what follows the "]" (0 nothing, 1 a colon, 2 something
   else); a colon in the not-IPv6 branch *)
Record ow_hpshape := ow_mk_hpshape {
  ohp_empty : bool; ohp_v6 : bool; ohp_v6_closed : bool; ohp_v6_tail : nat; ohp_colon : bool;
  ohp_flagged : bool           (* the callers: invalid, or the hostname does not validate -> a flag is raised *)
}.

(* result: (HTP_OK?, *hostname, *port) with h0 / p0 what the two variables held before the call;
   want_port: port != NULL; fixed = the code after bc54fd2 *)
Definition ow_parse_hostport_gen (fixed : bool) (sh : ow_hpshape) (hostport : ow_oid) (want_port : bool) (h0 p0 : ow_oid)
  : ow_M (bool * ow_oid * ow_oid) :=
  if ow_isnull hostport then ow_ret (false, h0, p0) else
  let p1 := if want_port then None else p0 in
  ow_use hostport ;;;
  if ohp_empty sh then ow_ret (true, None, p1) else
  if ohp_v6 sh then
    if negb (ohp_v6_closed sh) then ow_ret (true, None, p1) else
    h <- ow_bstr_dup_mem ;;
    match h with
    | None => ow_ret (false, None, p1)
    | Some _ =>
      if ohp_v6_tail sh =? 0 then ow_ret (true, h, p1) else
      if ohp_v6_tail sh =? 1 then
        if want_port then
          p <- ow_bstr_dup_mem ;;
          match p with
          | None => ow_free h ;;; ow_ret (false, if fixed then None else h, None)
          | Some _ => ow_use hostport ;;; ow_ret (true, h, p)
          end
        else ow_use hostport ;;; ow_ret (true, h, p1)
      else ow_ret (true, h, p1)
    end
  else
    if negb (ohp_colon sh) then
      h <- ow_bstr_dup_mem ;;
      match h with
      | None => ow_ret (false, None, p1)
      | Some _ => ow_use h ;;; ow_ret (true, h, p1)                  (* bstr_to_lowercase *)
      end
    else
      h <- ow_bstr_dup_mem ;;
      match h with
      | None => ow_ret (false, None, p1)
      | Some _ =>
        if want_port then
          p <- ow_bstr_dup_mem ;;
          match p with
          | None => ow_free h ;;; ow_ret (false, if fixed then None else h, None)
          | Some _ => ow_use hostport ;;; ow_ret (true, h, p)
          end
        else ow_use hostport ;;; ow_ret (true, h, p1)
      end.
Definition ow_parse_hostport := ow_parse_hostport_gen true.
Definition ow_parse_hostport_old := ow_parse_hostport_gen false.

(* htp_parse_header_hostport: flags is the caller's word (tx->flags: the cell tx) *)
Definition ow_parse_header_hostport_gen (fixed : bool) (sh : ow_hpshape) (hostport : ow_oid) (want_port : bool) (h0 p0 flags : ow_oid)
  : ow_M (bool * ow_oid * ow_oid) :=
  r <- ow_parse_hostport_gen fixed sh hostport want_port h0 p0 ;;
  let '(ok, h, p) := r in
  if negb ok then ow_ret r else
  (if ow_isnull h then ow_ret tt else ow_use h) ;;;               (* htp_validate_hostname *)
  (if ohp_flagged sh then ow_use flags else ow_ret tt) ;;;
  ow_ret r.
Definition ow_parse_header_hostport := ow_parse_header_hostport_gen true.

(* htp_parse_uri_hostport: the two strings are fields of the uri *)
Definition ow_parse_uri_hostport_gen (fixed : bool) (sh : ow_hpshape) (connp in_tx hostport : ow_oid) (u : ow_uri)
  : ow_M (bool * ow_uri) :=
  ow_use (our_self u) ;;;
  r <- ow_parse_hostport_gen fixed sh hostport true (ow_uri_get u c_ou_hostname) (ow_uri_get u c_ou_port) ;;
  let '(ok, h, p) := r in
  let u1 := ow_uri_set (ow_uri_set u c_ou_hostname h) c_ou_port p in
  if negb ok then ow_ret (false, u1) else
  (if ow_isnull h then ow_ret tt else ow_use h) ;;;
  (if ohp_flagged sh then ow_use connp ;;; ow_use in_tx else ow_ret tt) ;;;
  ow_ret (true, u1).
Definition ow_parse_uri_hostport := ow_parse_uri_hostport_gen true.
Definition ow_parse_uri_hostport_old := ow_parse_uri_hostport_gen false.

(* ------------------------------------------------------------------ htp_parse_uri (htp_util.c) *)
(* the request URI after dropping trailing spaces *)
Record ow_pushape := ow_mk_pushape {
  opu_empty : bool;       (* nothing left *)
  opu_scheme : bool;      (* does not start with '/' and has a colon: the scheme is copied *)
  opu_authority : bool;   (* "//" and not a third '/' follow *)
  opu_cred : nat;         (* 0 no '@' in the authority, 1 user, 2 user:password *)
  opu_v6 : nat;           (* 0 the host does not start with '[', 1 '[' without ']', 2 "[..]" *)
  opu_port : bool;        (* a colon after the host *)
  opu_query : bool; opu_fragment : bool
}.

(* ( *uri)->f = bstr_dup_mem(...); if (( *uri)->f == NULL) return HTP_ERROR; then the rest of the function *)
Definition ow_uri_dup_field (u : ow_uri) (i : nat) (k : ow_uri -> ow_M (bool * ow_uri)) : ow_M (bool * ow_uri) :=
  ow_use (our_self u) ;;;
  b <- ow_bstr_dup_mem ;;
  match b with
  | None => ow_ret (false, ow_uri_set u i None)
  | Some _ => k (ow_uri_set u i b)
  end.

Definition ow_parse_uri_body (sh : ow_pushape) (u : ow_uri) : ow_M (bool * ow_uri) :=
  let k_frag (u : ow_uri) :=
    if opu_fragment sh then ow_uri_dup_field u c_ou_fragment (fun u => ow_ret (true, u)) else ow_ret (true, u) in
  let k_path (u : ow_uri) :=
    ow_uri_dup_field u c_ou_path (fun u => if opu_query sh then ow_uri_dup_field u c_ou_query k_frag else k_frag u) in
  let k_host (u : ow_uri) :=
    if opu_v6 sh =? 0 then
      (* not IPv6: the port string first, then the hostname *)
      if opu_port sh then ow_uri_dup_field u c_ou_port (fun u => ow_uri_dup_field u c_ou_hostname k_path)
      else ow_uri_dup_field u c_ou_hostname k_path
    else if opu_v6 sh =? 1 then ow_uri_dup_field u c_ou_hostname k_path
    else ow_uri_dup_field u c_ou_hostname (fun u => if opu_port sh then ow_uri_dup_field u c_ou_port k_path else k_path u) in
  let k_auth (u : ow_uri) :=
    if opu_scheme sh && opu_authority sh then          (* ( *uri)->scheme != NULL and the authority test *)
      if opu_cred sh =? 0 then k_host u
      else if opu_cred sh =? 1 then ow_uri_dup_field u c_ou_username k_host
      else ow_uri_dup_field u c_ou_username (fun u => ow_uri_dup_field u c_ou_password k_host)
    else k_path u in
  if opu_scheme sh then ow_uri_dup_field u c_ou_scheme k_auth else k_auth u.

(* result: (HTP_OK?, *uri) *)
Definition ow_parse_uri (sh : ow_pushape) (input : ow_oid) (u : option ow_uri) : ow_M (bool * option ow_uri) :=
  u1 <- (match u with Some _ => ow_ret u | None => ow_uri_alloc end) ;;       (* calloc when *uri == NULL *)
  match u1 with
  | None => ow_ret (false, None)
  | Some u1 =>
    if ow_isnull input then ow_ret (true, Some u1) else
    ow_use input ;;;
    if opu_empty sh then ow_ret (true, Some u1) else
    r <- ow_parse_uri_body sh u1 ;; ow_ret (fst r, Some (snd r))
  end.

(* the same allocations as a list of field positions in the order of the C code (used by the proofs) *)
Definition ow_parse_uri_plan (sh : ow_pushape) : list nat :=
  (if opu_scheme sh then [c_ou_scheme] else []) ++
  (if opu_scheme sh && opu_authority sh then
     (if opu_cred sh =? 0 then [] else if opu_cred sh =? 1 then [c_ou_username] else [c_ou_username; c_ou_password]) ++
     (if opu_v6 sh =? 0 then (if opu_port sh then [c_ou_port] else []) ++ [c_ou_hostname]
      else if opu_v6 sh =? 1 then [c_ou_hostname]
      else [c_ou_hostname] ++ (if opu_port sh then [c_ou_port] else []))
   else []) ++
  [c_ou_path] ++ (if opu_query sh then [c_ou_query] else []) ++ (if opu_fragment sh then [c_ou_fragment] else []).
Fixpoint ow_uri_fill (plan : list nat) (u : ow_uri) : ow_M (bool * ow_uri) :=
  match plan with
  | [] => ow_ret (true, u)
  | i :: r => ow_uri_dup_field u i (ow_uri_fill r)
  end.

(* ------------------------------------------------------------------ htp_normalize_parsed_uri (htp_util.c) *)
(* one component: if (incomplete->f != NULL) { normalized->f = bstr_dup(incomplete->f); if NULL return HTP_ERROR;
   decode / lowercase in place } *)
Definition ow_norm_field (tx : ow_oid) (inc nrm : ow_uri) (i : nat) (k : ow_uri -> ow_M (bool * ow_uri)) : ow_M (bool * ow_uri) :=
  ow_use (our_self inc) ;;;
  if ow_isnull (ow_uri_get inc i) then k nrm else
  d <- ow_bstr_dup (ow_uri_get inc i) ;;
  ow_use (our_self nrm) ;;;
  match d with
  | None => ow_ret (false, ow_uri_set nrm i None)
  | Some _ => ow_use tx ;;; ow_use d ;;; k (ow_uri_set nrm i d)
  end.

(* the port string is not copied: only port_number is computed *)
Definition ow_normalize_parsed_uri (tx : ow_oid) (inc nrm : ow_uri) : ow_M (bool * ow_uri) :=
  ow_norm_field tx inc nrm c_ou_scheme (fun n =>
  ow_norm_field tx inc n c_ou_username (fun n =>
  ow_norm_field tx inc n c_ou_password (fun n =>
  ow_norm_field tx inc n c_ou_hostname (fun n =>
  ow_use (our_self inc) ;;;
  (if ow_isnull (ow_uri_get inc c_ou_port) then ow_ret tt else ow_use (ow_uri_get inc c_ou_port) ;;; ow_use tx) ;;;
  ow_use (our_self n) ;;;
  ow_norm_field tx inc n c_ou_path (fun n =>
  ow_norm_field tx inc n c_ou_query (fun n =>
  ow_norm_field tx inc n c_ou_fragment (fun n => ow_ret (true, n)))))))).

(* ------------------------------------------------------------------ htp_tx_state_request_line (htp_transaction.c) *)
Definition otx_set_uris (tx : ow_tx) (raw nrm : option ow_uri) : ow_tx :=
  ow_mk_tx (otx_self tx) (otx_conn tx) (otx_connp tx) (otx_req_strs tx) raw nrm (otx_auth_user tx) (otx_auth_pass tx)
        (otx_req_hdrs tx) (otx_req_hvals tx) (otx_params tx) (otx_pvals tx) (otx_cookies tx) (otx_cvals tx) (otx_hook_req tx) (otx_hook_res tx)
        (otx_res_strs tx) (otx_res_hdrs tx) (otx_res_hvals tx) (otx_rep tx).
Definition c_otx_request_uri := 2.           (* position of request_uri in otx_req_strs *)

(* with no REQUEST_URI_NORMALIZE / REQUEST_LINE callback registered; connect: request_method_number == HTP_M_CONNECT;
   connp->in_tx is this transaction *)
Definition ow_tx_state_request_line (connect : bool) (hsh : ow_hpshape) (psh : ow_pushape) (tx : ow_tx) : ow_M (bool * ow_tx) :=
  ow_use (otx_self tx) ;;;
  let ruri := nth c_otx_request_uri (otx_req_strs tx) None in
  r1 <- (if connect then
           match otx_uri_raw tx with
           | None => ow_use None ;;; ow_ret (false, None)                     (* &(uri->hostname) of a NULL uri *)
           | Some u => r <- ow_parse_uri_hostport hsh (otx_connp tx) (otx_self tx) ruri u ;; ow_ret (fst r, Some (snd r))
           end
         else ow_parse_uri psh ruri (otx_uri_raw tx)) ;;
  let tx1 := otx_set_uris tx (snd r1) (otx_uri tx) in
  if negb (fst r1) then ow_ret (false, tx1) else
  r2 <- (match otx_uri tx with
         | Some n => ow_ret (true, Some n)
         | None =>
           n <- ow_uri_alloc ;;
           match n, snd r1 with
           | None, _ => ow_ret (false, None)
           | Some n, None => ow_use None ;;; ow_ret (false, Some n)
           | Some n, Some raw => r <- ow_normalize_parsed_uri (otx_self tx) raw n ;; ow_ret (fst r, Some (snd r))
           end
         end) ;;
  let tx2 := otx_set_uris tx (snd r1) (snd r2) in
  if negb (fst r2) then ow_ret (false, tx2) else
  match snd r2 with
  | None => ow_use None ;;; ow_ret (false, tx2)
  | Some n =>
    ow_use (our_self n) ;;;
    (if ow_isnull (ow_uri_get n c_ou_hostname) then ow_ret tt else ow_use (ow_uri_get n c_ou_hostname)) ;;;
    ow_use (otx_connp tx) ;;;                  (* the two hook lists of connp->cfg, both empty; connp->in_state *)
    ow_ret (true, tx2)
  end.

(* ------------------------------------------------------------------ htp_response_generic.c *)
Definition otx_set_res_hdrs (tx : ow_tx) (rh : option ow_tbl) (hv : list ow_hdr) : ow_tx :=
  ow_mk_tx (otx_self tx) (otx_conn tx) (otx_connp tx) (otx_req_strs tx) (otx_uri_raw tx) (otx_uri tx) (otx_auth_user tx) (otx_auth_pass tx)
        (otx_req_hdrs tx) (otx_req_hvals tx) (otx_params tx) (otx_pvals tx) (otx_cookies tx) (otx_cvals tx) (otx_hook_req tx) (otx_hook_res tx)
        (otx_res_strs tx) rh hv (otx_rep tx).

(* htp_parse_response_header_generic: unlike the request twin BOTH copies are made before either is tested;
   prelogs: the htp_log calls before them (missing colon, empty name, LWS after name, name not a token -- once per
   transaction --, NUL in the value) *)
Definition ow_parse_response_header (log_on : bool) (prelogs : nat) (connp : ow_oid) (c : ow_conn) (h : ow_hdr)
  : ow_M (bool * ow_conn * ow_hdr) :=
  c1 <- ow_log_n prelogs log_on connp c ;;
  ow_use (ohd_self h) ;;;
  n <- ow_bstr_dup_mem ;;
  v <- ow_bstr_dup_mem ;;
  if ow_isnull n || ow_isnull v then
    ow_free n ;;; ow_free v ;;; ow_ret (false, c1, ow_mk_hdr (ohd_self h) n v)       (* h keeps the released pointer(s) *)
  else ow_ret (true, c1, ow_mk_hdr (ohd_self h) n v).

(* htp_process_response_header_generic; rep = out_tx->res_header_repetitions; result: (HTP_OK?, conn, tx, rep) *)
Definition ow_process_response_header (log_on : bool) (sh : ow_hshape) (connp : ow_oid) (c : ow_conn) (tx : ow_tx) (rep : nat)
  : ow_M (bool * ow_conn * ow_tx * nat) :=
  hs <- ow_malloc ;;
  match hs with
  | None => ow_ret (false, c, tx, rep)
  | Some _ =>
    r <- ow_parse_response_header log_on (ohs_prelogs sh) connp c (ow_mk_hdr hs None None) ;;
    let '(ok, c1, h) := r in
    if negb ok then ow_free hs ;;; ow_ret (false, c1, tx, rep) else
    ow_use connp ;;; ow_use (otx_self tx) ;;;
    let free_h := ow_free (ohd_name h) ;;; ow_free (ohd_value h) ;;; ow_free (ohd_self h) in
    match (match ohs_existing sh with Some i => match nth_error (otx_res_hvals tx) i with Some he => Some (i, he) | None => None end | None => None end) with
    | Some (i, he) =>
      ow_use (ohd_self he) ;;;
      c2 <- (if negb (ohs_ex_repeated sh) then ow_log_msg log_on connp c1 else ow_ret c1) ;;
      if ohs_ex_repeated sh && negb (rep <? c_ow_MAX_HEADERS_REPETITIONS) then
        free_h ;;; ow_ret (true, c2, tx, rep)
      else
        let rep1 := if ohs_ex_repeated sh then S rep else rep in
        if ohs_is_cl sh then
          ow_use (ohd_value he) ;;; ow_use (ohd_value h) ;;;
          c3 <- (if ohs_cl_ambiguous sh then ow_log_msg log_on connp c2 else ow_ret c2) ;;
          free_h ;;; ow_ret (true, c3, tx, rep1)
        else
          nv <- ow_bstr_expand (ohd_value he) false false ;;
          match nv with
          | None => free_h ;;; ow_ret (false, c2, tx, rep1)
          | Some _ =>
            ow_use nv ;;; ow_use (ohd_value h) ;;;
            free_h ;;;
            ow_ret (true, c2, otx_set_res_hdrs tx (otx_res_hdrs tx) (ow_hv_set_value (otx_res_hvals tx) i nv), rep1)
          end
    | None =>
      match otx_res_hdrs tx with
      | None => free_h ;;; ow_ret (false, c1, tx, rep)                  (* htp_table_add refuses a NULL table *)
      | Some t =>
        a <- ow_table_add t (ohd_name h) ;;
        if fst a then ow_ret (true, c1, otx_set_res_hdrs tx (Some (snd a)) (otx_res_hvals tx ++ [h]), rep)
        else free_h ;;; ow_ret (false, c1, otx_set_res_hdrs tx (Some (snd a)) (otx_res_hvals tx), rep)
      end
    end
  end.

(* ------------------------------------------------------------------ htp_response.c: buffering *)
Definition ocp_set_out_buf (p : ow_connp) (b : ow_oid) : ow_connp :=
  ow_mk_connp (ocp_self p) (ocp_conn p) (ocp_in_buf p) b (ocp_in_hdr p) (ocp_out_hdr p) (ocp_put_file p).

(* htp_connp_res_buffer: first piece malloc, later pieces realloc; no test for an empty piece (orb_len0 is not looked at) *)
Definition ow_res_buffer (log_on : bool) (sh : ow_rbshape) (out_tx : ow_oid) (p : ow_connp) : ow_M (bool * ow_connp) :=
  ow_use (ocp_self p) ;;;
  if negb (orb_has_data sh) then ow_ret (true, p) else
  (if ow_isnull (ocp_out_hdr p) then ow_ret tt else ow_use (ocp_out_hdr p)) ;;;
  ow_use out_tx ;;;
  if orb_over sh then
    match ocp_conn p with
    | None => ow_use None ;;; ow_ret (false, p)
    | Some c => c1 <- ow_log_msg log_on (ocp_self p) c ;; ow_ret (false, ocp_set_conn p (Some c1))
    end
  else
    if ow_isnull (ocp_out_buf p) then
      b <- ow_malloc ;;
      match b with
      | None => ow_ret (false, p)
      | Some _ => ow_use b ;;; ow_ret (true, ocp_set_out_buf p b)
      end
    else
      b <- ow_realloc (ocp_out_buf p) ;;
      match b with
      | None => ow_ret (false, p)
      | Some _ => ow_use b ;;; ow_ret (true, ocp_set_out_buf p b)
      end.

(* htp_connp_res_consolidate_data: buffers the current piece only when something is buffered already *)
Definition ow_res_consolidate (log_on : bool) (sh : ow_rbshape) (out_tx : ow_oid) (p : ow_connp) : ow_M (bool * ow_connp) :=
  ow_use (ocp_self p) ;;;
  if ow_isnull (ocp_out_buf p) then ow_ret (true, p) else ow_res_buffer log_on sh out_tx p.

(* htp_connp_res_clear_buffer *)
Definition ow_res_clear_buffer (p : ow_connp) : ow_M ow_connp :=
  ow_use (ocp_self p) ;;;
  if ow_isnull (ocp_out_buf p) then ow_ret p else ow_free (ocp_out_buf p) ;;; ow_ret (ocp_set_out_buf p None).

(* ------------------------------------------------------------------ htp_decompressors.c: create / destroy *)
(* odc_aux: the cells of the decompression engine, in the order its end function releases them (zlib: the window when
   there is one, then the inflate state; LZMA: probs, dictionary; nothing for LZMA before the header was read) *)
Record ow_dec := ow_mk_dec { odc_self : ow_oid; odc_buf : ow_oid; odc_aux : list ow_oid }.
Definition c_ow_fmt_gzip := 1.  Definition c_ow_fmt_deflate := 2.  Definition c_ow_fmt_lzma := 3.

(* htp_gzip_decompressor_create; lzma_on: cfg->lzma_memlimit > 0 && cfg->response_lzma_layer_limit > 0.
   inflateInit2 makes one allocation (the inflate state); when it fails inflateEnd finds no state to release *)
Definition ow_decompressor_create (log_on lzma_on : bool) (fmt : nat) (connp : ow_oid) (c : ow_conn) : ow_M (option ow_dec * ow_conn) :=
  d <- ow_malloc ;;
  match d with
  | None => ow_ret (None, c)
  | Some _ =>
    b <- ow_malloc ;;
    match b with
    | None => ow_free d ;;; ow_ret (None, c)
    | Some _ =>
      if fmt =? c_ow_fmt_lzma then
        ow_use connp ;;;
        c1 <- (if lzma_on then ow_ret c else ow_log_msg log_on connp c) ;;
        ow_ret (Some (ow_mk_dec d b []), c1)
      else if (fmt =? c_ow_fmt_gzip) || (fmt =? c_ow_fmt_deflate) then
        z <- ow_malloc ;;
        match z with
        | None => c1 <- ow_log_msg log_on connp c ;; ow_free b ;;; ow_free d ;;; ow_ret (None, c1)
        | Some _ => ow_ret (Some (ow_mk_dec d b [z]), c)
        end
      else
        c1 <- ow_log_msg log_on connp c ;; ow_free b ;;; ow_free d ;;; ow_ret (None, c1)
    end
  end.

(* htp_gzip_decompressor_destroy *)
Definition ow_decompressor_destroy (d : ow_dec) : ow_M unit :=
  ow_use (odc_self d) ;;; ow_iter ow_free (odc_aux d) ;;; ow_free (odc_buf d) ;;; ow_free (odc_self d).

(* htp_tx_res_destroy_decompressors / htp_tx_req_destroy_decompressors: the chain, front to back *)
Definition ow_destroy_decompressors (l : list ow_dec) : ow_M unit := ow_iter ow_decompressor_destroy l.

(* the connection parser with its two decompressor chains *)
Record ow_connp2 := ow_mk_connp2 { ocq_p : ow_connp; ocq_out : list ow_dec; ocq_req : list ow_dec }.

(* htp_connp_destroy_all = htp_conn_destroy + htp_connp_destroy, with the chains *)
Definition ow_connp2_destroy_all (q : ow_connp2) : ow_M unit :=
  let p := ocq_p q in
  ow_use (ocp_self p) ;;;
  ow_conn_destroy (ocp_conn p) ;;;
  ow_free (ocp_in_buf p) ;;;
  ow_free (ocp_out_buf p) ;;;
  ow_destroy_decompressors (ocq_out q) ;;;
  ow_destroy_decompressors (ocq_req q) ;;;
  (match ocp_put_file p with
   | None => ow_ret tt
   | Some f => ow_use (ofl_self f) ;;; ow_free (ofl_name f) ;;; ow_free (ofl_self f)
   end) ;;;
  ow_free (ocp_in_hdr p) ;;;
  ow_free (ocp_out_hdr p) ;;;
  ow_free (ocp_self p).

(* ------------------------------------------------------------------ htp_tx_state_response_headers (htp_transaction.c) *)
(* one token of a Content-Encoding value on the slow path *)
Inductive ow_cetok :=
  | OwCeFmt (fmt : nat) (abnormal : bool)     (* gzip / deflate (abnormal spelling: a log message) / lzma *)
  | OwCeNone                                  (* inflate, none *)
  | OwCeUnknown                               (* a log message, no decompressor *)
  | OwCeStop.                                 (* layer limit or LZMA layer limit reached: a log message, end of the loop *)

(* oce_fast: 0 = no compression asked for (no header, "inflate", decompression disabled), 1..3 = the fast path with that
   format; oce_multi: the slow path with these tokens *)
Record ow_ceshape := ow_mk_ceshape { oce_fast : nat; oce_multi : bool; oce_toks : list ow_cetok }.

(* the loop; chain: the decompressors made so far, result (HTP_OK?, conn, chain) *)
Fixpoint ow_ce_loop (log_on lzma_on : bool) (toks : list ow_cetok) (connp : ow_oid) (c : ow_conn) (chain : list ow_dec)
  : ow_M (bool * ow_conn * list ow_dec) :=
  match toks with
  | [] => ow_ret (true, c, chain)
  | OwCeStop :: _ => c1 <- ow_log_msg log_on connp c ;; ow_ret (true, c1, chain)
  | OwCeNone :: r => ow_ce_loop log_on lzma_on r connp c chain
  | OwCeUnknown :: r => c1 <- ow_log_msg log_on connp c ;; ow_ce_loop log_on lzma_on r connp c1 chain
  | OwCeFmt fmt abnormal :: r =>
    c1 <- (if abnormal then ow_log_msg log_on connp c else ow_ret c) ;;
    x <- ow_decompressor_create log_on lzma_on fmt connp c1 ;;
    match fst x with
    | None => ow_ret (false, snd x, chain)
    | Some d => ow_use (odc_self d) ;;; ow_ce_loop log_on lzma_on r connp (snd x) (chain ++ [d])
    end
  end.

(* with no RESPONSE_HEADERS callback and no data receiver registered; tx: the transaction (its header table is read) *)
Definition ow_tx_state_response_headers (log_on lzma_on : bool) (sh : ow_ceshape) (tx : ow_oid) (q : ow_connp2) : ow_M (bool * ow_connp2) :=
  let p := ocq_p q in
  ow_use tx ;;; ow_use (ocp_self p) ;;;
  match ocp_conn p with
  | None => ow_use None ;;; ow_ret (false, q)
  | Some c =>
    if (oce_fast sh =? 0) && negb (oce_multi sh) then ow_ret (true, q) else
    (if match ocq_out q with [] => true | _ => false end then ow_ret tt else ow_destroy_decompressors (ocq_out q)) ;;;
    if negb (oce_multi sh) then
      x <- ow_decompressor_create log_on lzma_on (oce_fast sh) (ocp_self p) c ;;
      match fst x with
      | None => ow_ret (false, ow_mk_connp2 (ocp_set_conn p (Some (snd x))) [] (ocq_req q))
      | Some d => ow_use (odc_self d) ;;; ow_ret (true, ow_mk_connp2 (ocp_set_conn p (Some (snd x))) [d] (ocq_req q))
      end
    else
      r <- ow_ce_loop log_on lzma_on (oce_toks sh) (ocp_self p) c [] ;;
      let '(ok, c1, chain) := r in
      ow_ret (ok, ow_mk_connp2 (ocp_set_conn p (Some c1)) chain (ocq_req q))
  end.

(* ------------------------------------------------------------------ htp_urlencoded.c: parser create / destroy *)
(* oup_pvals: the parameter values the table indexes (the names are the table's keys) *)
Record ow_urlenp := ow_mk_urlenp { oup_self : ow_oid; oup_name : ow_oid; oup_bb : option ow_bb; oup_params : option ow_tbl; oup_pvals : list ow_oid }.

(* htp_urlenp_create; cap = HTP_URLENP_DEFAULT_PARAMS_SIZE *)
Definition ow_urlenp_create (cap : nat) (tx : ow_oid) : ow_M (option ow_urlenp) :=
  u <- ow_malloc ;;
  match u with
  | None => ow_ret None
  | Some _ =>
    t <- ow_table_create cap ;;
    match t with
    | None => ow_free u ;;; ow_ret None
    | Some _ =>
      bb <- ow_builder_create ;;
      match bb with
      | None => ow_table_destroy t ;;; ow_free u ;;; ow_ret None
      | Some _ => ow_ret (Some (ow_mk_urlenp u None bb t []))
      end
    end
  end.

Definition ow_urlenp_destroy (u : option ow_urlenp) : ow_M unit :=
  match u with
  | None => ow_ret tt
  | Some u =>
    ow_use (oup_self u) ;;;
    ow_free (oup_name u) ;;;
    ow_builder_destroy (oup_bb u) ;;;
    (match oup_params u with
     | None => ow_ret tt
     | Some t => ow_use (oot_self t) ;;; ow_iter ow_free (oup_pvals u) ;;; ow_table_destroy (Some t)
     end) ;;;
    ow_free (oup_self u)
  end.

(* ------------------------------------------------------------------ htp_multipart.c: parser create / destroy *)
(* omp_pvals: the parts of multipart.parts, each with "is a text part" (their name and value belong to the transaction's
   parameters once the parser gave up its data: htp_mpart_part_destroy(part, gave_up_data)) *)
Record ow_mpartp := ow_mk_mpartp {
  omp_self : ow_oid; omp_boundary : ow_oid;
  omp_bp : option ow_bb; omp_hp : option ow_bb; omp_dp : option ow_bb;      (* boundary_pieces, part_header_pieces, part_data_pieces *)
  omp_pending : ow_oid;
  omp_parts : option ow_lst; omp_pvals : list (ow_part * bool); omp_gave_up : bool
}.

(* htp_mpart_part_destroy(part, gave_up_data) *)
Definition ow_part_destroy_gen (gave_up : bool) (pt : ow_part * bool) : ow_M unit :=
  let p := fst pt in
  ow_use (opt_self p) ;;;
  (match opt_file p with
   | None => ow_ret tt
   | Some f => ow_use (ofl_self f) ;;; ow_free (ofl_name f) ;;; ow_free (ofl_tmp f) ;;; ow_free (ofl_self f)
   end) ;;;
  (if negb gave_up || negb (snd pt) then ow_free (opt_name p) ;;; ow_free (opt_value p) else ow_ret tt) ;;;
  ow_free (opt_ctype p) ;;;
  (match opt_hdrs p with
   | None => ow_ret tt
   | Some t => ow_use (oot_self t) ;;; ow_iter ow_hdr_free (opt_hvals p) ;;; ow_table_destroy (Some t)
   end) ;;;
  ow_free (opt_self p).

Definition ow_mpartp_destroy (m : option ow_mpartp) : ow_M unit :=
  match m with
  | None => ow_ret tt
  | Some m =>
    ow_use (omp_self m) ;;;
    ow_free (omp_boundary m) ;;;
    ow_builder_destroy (omp_bp m) ;;;
    ow_builder_destroy (omp_hp m) ;;;
    ow_free (omp_pending m) ;;;
    ow_builder_destroy (omp_dp m) ;;;
    (match omp_parts m with
     | None => ow_ret tt
     | Some l => ow_use (ool_self l) ;;; ow_iter (ow_part_destroy_gen (omp_gave_up m)) (omp_pvals m) ;;; ow_list_destroy (Some l)
     end) ;;;
    ow_free (omp_self m)
  end.

(* htp_mpartp_create; cap = the initial size of multipart.parts.  The boundary string is released on success only;
   every failure goes through htp_mpartp_destroy on the partially built parser *)
Definition ow_mpartp_create (cap : nat) (cfg boundary : ow_oid) : ow_M (option ow_mpartp) :=
  if ow_isnull cfg || ow_isnull boundary then ow_ret None else
  p <- ow_malloc ;;
  match p with
  | None => ow_ret None
  | Some _ =>
    let m0 := ow_mk_mpartp p None None None None None None [] false in
    bp <- ow_builder_create ;;
    match bp with
    | None => ow_mpartp_destroy (Some m0) ;;; ow_ret None
    | Some _ =>
      let m1 := ow_mk_mpartp p None bp None None None None [] false in
      dp <- ow_builder_create ;;
      match dp with
      | None => ow_mpartp_destroy (Some m1) ;;; ow_ret None
      | Some _ =>
        let m2 := ow_mk_mpartp p None bp None dp None None [] false in
        hp <- ow_builder_create ;;
        match hp with
        | None => ow_mpartp_destroy (Some m2) ;;; ow_ret None
        | Some _ =>
          let m3 := ow_mk_mpartp p None bp hp dp None None [] false in
          l <- ow_list_create cap ;;
          match l with
          | None => ow_mpartp_destroy (Some m3) ;;; ow_ret None
          | Some _ =>
            let m4 := ow_mk_mpartp p None bp hp dp None l [] false in
            ow_use cfg ;;; ow_use boundary ;;;
            b <- ow_malloc ;;
            match b with
            | None => ow_mpartp_destroy (Some m4) ;;; ow_ret None
            | Some _ => ow_use b ;;; ow_free boundary ;;; ow_ret (Some (ow_mk_mpartp p b bp hp dp None l [] false))
            end
          end
        end
      end
    end
  end.

(* ------------------------------------------------------------------ htp_tx_destroy: the transaction with its request parsers *)
Record ow_tx_full := ow_mk_tx_full { otf_tx : ow_tx; otf_uq : option ow_urlenp; otf_ub : option ow_urlenp; otf_mp : option ow_mpartp }.

(* htp_tx_destroy_incomplete with request_urlenp_query, request_urlenp_body, request_mpartp *)
Definition ow_tx_destroy_full (t : ow_tx_full) : ow_M unit :=
  let tx := otf_tx t in
  ow_use (otx_self tx) ;;;
  ow_use (otx_conn tx) ;;;
  ow_use (otx_connp tx) ;;;
  ow_iter ow_free (otx_req_strs tx) ;;;
  ow_uri_free (otx_uri_raw tx) ;;;
  ow_uri_free (otx_uri tx) ;;;
  ow_free (otx_auth_user tx) ;;;
  ow_free (otx_auth_pass tx) ;;;
  (match otx_req_hdrs tx with
   | None => ow_ret tt
   | Some t => ow_use (oot_self t) ;;; ow_iter ow_hdr_free (otx_req_hvals tx) ;;; ow_table_destroy (Some t)
   end) ;;;
  ow_urlenp_destroy (otf_uq t) ;;;
  ow_urlenp_destroy (otf_ub t) ;;;
  ow_mpartp_destroy (otf_mp t) ;;;
  ow_iter ow_hdr_free (otx_pvals tx) ;;;
  ow_table_destroy (otx_params tx) ;;;
  (match otx_cookies tx with
   | None => ow_ret tt
   | Some t => ow_use (oot_self t) ;;; ow_iter ow_free (otx_cvals tx) ;;; ow_table_destroy (Some t)
   end) ;;;
  ow_hook_destroy (otx_hook_req tx) ;;;
  ow_hook_destroy (otx_hook_res tx) ;;;
  ow_iter ow_free (otx_res_strs tx) ;;;
  (match otx_res_hdrs tx with
   | None => ow_ret tt
   | Some t => ow_use (oot_self t) ;;; ow_iter ow_hdr_free (otx_res_hvals tx) ;;; ow_table_destroy (Some t)
   end) ;;;
  ow_free (otx_self tx).

(* htp_tx_destroy: refuses a transaction that is not complete *)
Definition ow_tx_destroy (complete : bool) (t : ow_tx_full) : ow_M bool :=
  ow_use (otx_self (otf_tx t)) ;;;
  if complete then ow_tx_destroy_full t ;;; ow_ret true else ow_ret false.

Definition otx_set_req_strs (tx : ow_tx) (l : list ow_oid) : ow_tx :=
  ow_mk_tx (otx_self tx) (otx_conn tx) (otx_connp tx) l (otx_uri_raw tx) (otx_uri tx) (otx_auth_user tx) (otx_auth_pass tx)
        (otx_req_hdrs tx) (otx_req_hvals tx) (otx_params tx) (otx_pvals tx) (otx_cookies tx) (otx_cvals tx) (otx_hook_req tx) (otx_hook_res tx)
        (otx_res_strs tx) (otx_res_hdrs tx) (otx_res_hvals tx) (otx_rep tx).

Definition otx_set_res_strs (tx : ow_tx) (l : list ow_oid) : ow_tx :=
  ow_mk_tx (otx_self tx) (otx_conn tx) (otx_connp tx) (otx_req_strs tx) (otx_uri_raw tx) (otx_uri tx) (otx_auth_user tx) (otx_auth_pass tx)
        (otx_req_hdrs tx) (otx_req_hvals tx) (otx_params tx) (otx_pvals tx) (otx_cookies tx) (otx_cvals tx) (otx_hook_req tx) (otx_hook_res tx)
        l (otx_res_hdrs tx) (otx_res_hvals tx) (otx_rep tx).

(* ------------------------------------------------------------------ the start-line parsers *)
(* positions in otx_req_strs / otx_res_strs *)
Definition c_otx_request_line := 0.  Definition c_otx_request_method := 1.  Definition c_otx_request_protocol := 3.
Definition c_otx_response_line := 0.  Definition c_otx_response_protocol := 1.  Definition c_otx_response_status := 2.
Definition c_otx_response_message := 3.

(* tx->field = bstr_dup_mem(...): the field holds the result, NULL included *)
Definition ow_dup_into_req (tx : ow_tx) (i : nat) : ow_M (bool * ow_tx) :=
  b <- ow_bstr_dup_mem ;; ow_ret (negb (ow_isnull b), otx_set_req_strs tx (ow_set_nth (otx_req_strs tx) i b)).
Definition ow_dup_into_res (tx : ow_tx) (i : nat) : ow_M (bool * ow_tx) :=
  b <- ow_bstr_dup_mem ;; ow_ret (negb (ow_isnull b), otx_set_res_strs tx (ow_set_nth (otx_res_strs tx) i b)).

(* htp_parse_response_line_generic (htp_response_generic.c); parts: how many of protocol, status, message the line has.
   The three fields are set to NULL first (not released) *)
Definition ow_parse_response_line (parts : nat) (connp : ow_oid) (tx : ow_tx) : ow_M (bool * ow_tx) :=
  ow_use connp ;;; ow_use (otx_self tx) ;;;
  ow_use (nth c_otx_response_line (otx_res_strs tx) None) ;;;
  let tx0 := otx_set_res_strs tx (ow_set_nth (ow_set_nth (ow_set_nth (otx_res_strs tx) c_otx_response_protocol None)
                                                 c_otx_response_status None) c_otx_response_message None) in
  if parts =? 0 then ow_ret (true, tx0) else
  r1 <- ow_dup_into_res tx0 c_otx_response_protocol ;;
  if negb (fst r1) then ow_ret (false, snd r1) else
  ow_use (nth c_otx_response_protocol (otx_res_strs (snd r1)) None) ;;;          (* htp_parse_protocol *)
  if parts =? 1 then ow_ret (true, snd r1) else
  r2 <- ow_dup_into_res (snd r1) c_otx_response_status ;;
  if negb (fst r2) then ow_ret (false, snd r2) else
  ow_use (nth c_otx_response_status (otx_res_strs (snd r2)) None) ;;;            (* htp_parse_status *)
  if parts =? 2 then ow_ret (true, snd r2) else
  r3 <- ow_dup_into_res (snd r2) c_otx_response_message ;;
  ow_ret (fst r3, snd r3).

(* htp_parse_request_line_generic_ex (htp_request_generic.c) *)
Record ow_rlshape := ow_mk_rlshape {
  orl_lead_ws : bool;            (* whitespace before the method: a log message *)
  orl_bad_delim1 : bool;         (* a delimiter other than SP between method and URI: a log message *)
  orl_method_only : bool;        (* nothing after the method *)
  orl_unknown_method : bool;
  orl_bad_delim2 : bool;         (* whitespace other than SP inside the URI: a log message *)
  orl_no_protocol : bool;        (* nothing after the URI *)
  orl_invalid_protocol : bool
}.
Definition ow_log_if (b log_on : bool) (connp : ow_oid) (c : ow_conn) : ow_M ow_conn :=
  if b then ow_log_msg log_on connp c else ow_ret c.

Definition ow_parse_request_line (log_on : bool) (sh : ow_rlshape) (connp : ow_oid) (c : ow_conn) (tx : ow_tx)
  : ow_M (bool * ow_conn * ow_tx) :=
  ow_use connp ;;; ow_use (otx_self tx) ;;;
  ow_use (nth c_otx_request_line (otx_req_strs tx) None) ;;;
  c1 <- ow_log_if (orl_lead_ws sh) log_on connp c ;;
  r1 <- ow_dup_into_req tx c_otx_request_method ;;
  if negb (fst r1) then ow_ret (false, c1, snd r1) else
  ow_use (nth c_otx_request_method (otx_req_strs (snd r1)) None) ;;;            (* htp_convert_method_to_number *)
  c2 <- ow_log_if (orl_bad_delim1 sh) log_on connp c1 ;;
  if orl_method_only sh then
    c3 <- ow_log_if (orl_unknown_method sh) log_on connp c2 ;; ow_ret (true, c3, snd r1)
  else
  c3 <- ow_log_if (orl_bad_delim2 sh) log_on connp c2 ;;
  r2 <- ow_dup_into_req (snd r1) c_otx_request_uri ;;
  if negb (fst r2) then ow_ret (false, c3, snd r2) else
  if orl_no_protocol sh then
    c4 <- ow_log_if (orl_unknown_method sh) log_on connp c3 ;; ow_ret (true, c4, snd r2)
  else
  r3 <- ow_dup_into_req (snd r2) c_otx_request_protocol ;;
  if negb (fst r3) then ow_ret (false, c3, snd r3) else
  ow_use (nth c_otx_request_protocol (otx_req_strs (snd r3)) None) ;;;          (* htp_parse_protocol *)
  c4 <- ow_log_if (orl_unknown_method sh && orl_invalid_protocol sh) log_on connp c3 ;;
  ow_ret (true, c4, snd r3).

(* ------------------------------------------------------------------ cases (harness protocol, mirrored by harness/own2_driver.c) *)
(* a hostport shape is 6 numbers *)
Definition ow_hpshape_of (a : list nat) (i : nat) : ow_hpshape :=
  ow_mk_hpshape (ow_nb (ow_arg a i)) (ow_nb (ow_arg a (i + 1))) (ow_nb (ow_arg a (i + 2))) (ow_arg a (i + 3))
                (ow_nb (ow_arg a (i + 4))) (ow_nb (ow_arg a (i + 5))).

(* args: variant (0 htp_parse_hostport, 1 htp_parse_header_hostport), port wanted, hostport is NULL, then the shape *)
Definition ow_case_hostport_gen (fixed : bool) (a : list nat) (k : nat) :=
  ow_case (hp <- ow_bstr_alloc ;; fl <- ow_malloc ;; ow_ret (hp, fl)) k (fun w =>
    let hp := if ow_nb (ow_arg a 2) then None else fst w in
    r <- (if ow_arg a 0 =? 0 then ow_parse_hostport_gen fixed (ow_hpshape_of a 3) hp (ow_nb (ow_arg a 1)) None None
          else ow_parse_header_hostport_gen fixed (ow_hpshape_of a 3) hp (ow_nb (ow_arg a 1)) None None (snd w)) ;;
    let '(ok, h, p) := r in
    ow_free h ;;; ow_free p ;;;
    ow_ret [ow_b2n ok; ow_nullbit h; ow_nullbit p]).
Definition ow_case_hostport := ow_case_hostport_gen true.

(* args: the shape.  The uri is a fresh htp_uri_alloc; connp and in_tx are two cells of the harness *)
Definition ow_case_uri_hostport_gen (fixed : bool) (a : list nat) (k : nat) :=
  ow_case (hp <- ow_bstr_alloc ;; cp <- ow_malloc ;; tx <- ow_malloc ;; u <- ow_uri_alloc ;; ow_ret (hp, cp, tx, u)) k (fun w =>
    let '(hp, cp, tx, u) := w in
    match u with
    | None => ow_ret [9]
    | Some u =>
      r <- ow_parse_uri_hostport_gen fixed (ow_hpshape_of a 0) cp tx hp u ;;
      ow_uri_free (Some (snd r)) ;;;
      ow_ret [ow_b2n (fst r); ow_nullbit (ow_uri_get (snd r) c_ou_hostname); ow_nullbit (ow_uri_get (snd r) c_ou_port)]
    end).
Definition ow_case_uri_hostport := ow_case_uri_hostport_gen true.

(* a request-URI shape is 8 numbers *)
Definition ow_pushape_of (a : list nat) (i : nat) : ow_pushape :=
  ow_mk_pushape (ow_nb (ow_arg a i)) (ow_nb (ow_arg a (i + 1))) (ow_nb (ow_arg a (i + 2))) (ow_arg a (i + 3)) (ow_arg a (i + 4))
                (ow_nb (ow_arg a (i + 5))) (ow_nb (ow_arg a (i + 6))) (ow_nb (ow_arg a (i + 7))).

(* args: a (fresh) uri is passed in, the input is NULL, then the shape *)
Definition ow_case_parse_uri (a : list nat) (k : nat) :=
  ow_case (inp <- ow_bstr_alloc ;; u <- (if ow_nb (ow_arg a 0) then ow_uri_alloc else ow_ret None) ;; ow_ret (inp, u)) k (fun w =>
    r <- ow_parse_uri (ow_pushape_of a 2) (if ow_nb (ow_arg a 1) then None else fst w) (snd w) ;;
    ow_uri_free (snd r) ;;;
    ow_ret [ow_b2n (fst r); ow_optbit (snd r)]).

(* args: the shape of the URI that was parsed (fault-free) into the source uri *)
Definition ow_case_normalize (a : list nat) (k : nat) :=
  ow_case (inp <- ow_bstr_alloc ;; tx <- ow_malloc ;;
           r <- ow_parse_uri (ow_pushape_of a 0) inp None ;;
           n <- ow_uri_alloc ;; ow_ret (tx, snd r, n)) k (fun w =>
    let '(tx, raw, n) := w in
    match raw, n with
    | Some raw, Some n =>
      r <- ow_normalize_parsed_uri tx raw n ;;
      ow_uri_free (Some (snd r)) ;;; ow_uri_free (Some raw) ;;;
      ow_ret [ow_b2n (fst r)]
    | _, _ => ow_ret [9]
    end).

(* args: CONNECT, request_uri is NULL, the hostport shape (6), the URI shape (8) *)
Definition ow_case_request_line (a : list nat) (k : nat) :=
  ow_case (p <- ow_connp_with_tx ;;
           match p with
           | None => ow_ret None
           | Some p =>
             u <- (if ow_nb (ow_arg a 1) then ow_ret None else ow_bstr_alloc) ;;
             r <- ow_with_in_tx p tt (fun c tx => ow_ret (tt, c, otx_set_req_strs tx (ow_set_nth (otx_req_strs tx) c_otx_request_uri u))) ;;
             ow_ret (Some (snd r))
           end) k
    (fun p => match p with
              | None => ow_ret [9]
              | Some p =>
                r <- ow_with_in_tx p 9 (fun c tx =>
                       x <- ow_tx_state_request_line (ow_nb (ow_arg a 0)) (ow_hpshape_of a 2) (ow_pushape_of a 8) tx ;;
                       ow_ret (ow_b2n (fst x), c, snd x)) ;;
                ow_connp_destroy_all (Some (snd r)) ;;;
                ow_ret [fst r]
              end).

(* ---- response headers: descriptions as in ow_case_header (5 numbers each).
   args: log on, number of descriptions in the setup, number observed, then the descriptions *)
Fixpoint ow_res_headers_n (n : nat) (log_on : bool) (a : list nat) (i : nat) (p : ow_connp) (rep : nat) (acc : list nat)
  : ow_M (ow_connp * nat * list nat) :=
  match n with
  | O => ow_ret (p, rep, acc)
  | S m =>
    r <- ow_with_in_tx p (9, rep) (fun c tx =>
           x <- ow_process_response_header log_on (ow_hshape_of a i) (ocp_self p) c tx rep ;;
           let '(ok, c1, tx1, rep1) := x in ow_ret ((ow_b2n ok, rep1), c1, tx1)) ;;
    ow_res_headers_n m log_on a (i + 5) (snd r) (snd (fst r)) (acc ++ [fst (fst r)])
  end.

Definition ow_case_res_header (a : list nat) (k : nat) :=
  let log_on := ow_nb (ow_arg a 0) in
  ow_case (p <- ow_connp_with_tx ;;
           match p with
           | None => ow_ret None
           | Some p => r <- ow_res_headers_n (ow_arg a 1) log_on a 3 p 0 [] ;; ow_ret (Some (fst r))
           end) k
    (fun w => match w with
              | None => ow_ret [9]
              | Some (p, rep) =>
                r <- ow_res_headers_n (ow_arg a 2) log_on a (3 + 5 * ow_arg a 1) p rep [] ;;
                ow_connp_destroy_all (Some (fst (fst r))) ;;; ow_ret (snd r)
              end).

(* ---- response buffering.  args: log on, calls, the last call is over the hard limit, the calls after the first go
   through htp_connp_res_consolidate_data, htp_connp_res_clear_buffer before the parser is destroyed *)
Fixpoint ow_res_buffer_n (n : nat) (log_on over_last cons first : bool) (p : ow_connp) (acc : list nat) : ow_M (ow_connp * list nat) :=
  match n with
  | O => ow_ret (p, acc)
  | S m =>
    let out_tx := match ocp_conn p with
                  | Some c => match ow_split_last (ocn_txs c) with Some (_, Some tx) => otx_self tx | _ => None end
                  | None => None end in
    let sh := ow_mk_rbshape true false (over_last && (m =? 0)) in
    r <- (if cons && negb first then ow_res_consolidate log_on sh out_tx p else ow_res_buffer log_on sh out_tx p) ;;
    ow_res_buffer_n m log_on over_last cons false (snd r) (acc ++ [ow_b2n (fst r)])
  end.
Definition ow_case_res_buffer (a : list nat) (k : nat) :=
  ow_case ow_connp_with_tx k
    (fun p => match p with
              | None => ow_ret [9]
              | Some p =>
                r <- ow_res_buffer_n (ow_arg a 1) (ow_nb (ow_arg a 0)) (ow_nb (ow_arg a 2)) (ow_nb (ow_arg a 3)) true p [] ;;
                p1 <- (if ow_nb (ow_arg a 4) then ow_res_clear_buffer (fst r) else ow_ret (fst r)) ;;
                ow_connp_destroy_all (Some p1) ;;; ow_ret (snd r ++ [ow_nullbit (ocp_out_buf p1)])
              end).

(* ---- decompressors.  args: log on, LZMA enabled, format; the decompressor is created and destroyed *)
Definition ow_case_decomp_create (a : list nat) (k : nat) :=
  ow_case ow_connp_create k
    (fun p => match p with
              | None => ow_ret [9]
              | Some p =>
                match ocp_conn p with
                | None => ow_ret [9]
                | Some c =>
                  x <- ow_decompressor_create (ow_nb (ow_arg a 0)) (ow_nb (ow_arg a 1)) (ow_arg a 2) (ocp_self p) c ;;
                  (match fst x with None => ow_ret tt | Some d => ow_decompressor_destroy d end) ;;;
                  ow_connp_destroy_all (Some (ocp_set_conn p (Some (snd x)))) ;;;
                  ow_ret [ow_optbit (fst x); length (ocn_msgs (snd x))]
                end
              end).

(* args: format.  A decompressor that has seen data: zlib has allocated its window, LZMA its probabilities and dictionary *)
Definition ow_case_decomp_used (a : list nat) (k : nat) :=
  ow_case (p <- ow_connp_with_tx ;;
           match p with
           | None => ow_ret None
           | Some p =>
             match ocp_conn p with
             | None => ow_ret None
             | Some c =>
               x <- ow_decompressor_create false true (ow_arg a 0) (ocp_self p) c ;;
               match fst x with
               | None => ow_ret None
               | Some d =>
                 e1 <- ow_malloc ;; e2 <- (if ow_arg a 0 =? c_ow_fmt_lzma then ow_malloc else ow_ret None) ;;
                 ow_ret (Some (ow_mk_connp2 p [ow_mk_dec (odc_self d) (odc_buf d) (if ow_arg a 0 =? c_ow_fmt_lzma then [e1; e2] else e1 :: odc_aux d)] []))
               end
             end
           end) k
    (fun q => match q with
              | None => ow_ret [9]
              | Some q => ow_connp2_destroy_all q ;;; ow_ret [length (ocq_out q)]
              end).

(* ---- htp_tx_state_response_headers.  args: log on, LZMA enabled, a chain exists already (one gzip decompressor),
   the fast-path format, slow path, then the tokens: 1 gzip 2 deflate 3 lzma 11 / 12 abnormal spelling 4 none 5 unknown 6 stop *)
Definition ow_cetok_of (n : nat) : ow_cetok :=
  match n with
  | 1 => OwCeFmt 1 false | 2 => OwCeFmt 2 false | 3 => OwCeFmt 3 false
  | 11 => OwCeFmt 1 true | 12 => OwCeFmt 2 true
  | 4 => OwCeNone | 5 => OwCeUnknown | _ => OwCeStop
  end.
Definition ow_in_tx_of (p : ow_connp) : ow_oid :=
  match ocp_conn p with
  | Some c => match ow_split_last (ocn_txs c) with Some (_, Some tx) => otx_self tx | _ => None end
  | None => None end.
Definition ow_case_res_state_headers (a : list nat) (k : nat) :=
  let log_on := ow_nb (ow_arg a 0) in let lzma_on := ow_nb (ow_arg a 1) in
  ow_case (p <- ow_connp_with_tx ;;
           match p with
           | None => ow_ret None
           | Some p0 =>
             (* the Content-Encoding header of the transaction, when the case has one *)
             h <- (if ow_nb (ow_arg a 2) || ow_nb (ow_arg a 3) || ow_nb (ow_arg a 4)
                   then ow_res_headers_n 1 false [0; 0; 0; 0; 0] 0 p0 0 [] else ow_ret (p0, 0, [])) ;;
             let p := fst (fst h) in
             if ow_nb (ow_arg a 2) then
               r <- ow_tx_state_response_headers log_on lzma_on (ow_mk_ceshape 1 false []) (ow_in_tx_of p) (ow_mk_connp2 p [] []) ;;
               ow_ret (Some (snd r))
             else ow_ret (Some (ow_mk_connp2 p [] []))
           end) k
    (fun q => match q with
              | None => ow_ret [9]
              | Some q =>
                r <- ow_tx_state_response_headers log_on lzma_on (ow_mk_ceshape (ow_arg a 3) (ow_nb (ow_arg a 4)) (map ow_cetok_of (skipn 5 a)))
                       (ow_in_tx_of (ocq_p q)) q ;;
                ow_connp2_destroy_all (snd r) ;;;
                ow_ret [ow_b2n (fst r); length (ocq_out (snd r))]
              end).

(* ---- request parsers.  args: table size (HTP_URLENP_DEFAULT_PARAMS_SIZE) *)
Definition ow_case_urlenp (a : list nat) (k : nat) :=
  ow_case ow_malloc k (fun tx => u <- ow_urlenp_create (ow_arg a 0) tx ;; ow_urlenp_destroy u ;;; ow_ret [ow_optbit u]).

(* args: initial size of the parts list, the boundary is NULL.  The caller makes the boundary string and releases it
   when the parser could not be created *)
Definition ow_case_mpartp (a : list nat) (k : nat) :=
  ow_case ow_malloc k (fun cfg =>
    b <- (if ow_nb (ow_arg a 1) then ow_ret None else ow_bstr_alloc) ;;
    m <- ow_mpartp_create (ow_arg a 0) cfg b ;;
    (match m with None => ow_free b | Some _ => ow_ret tt end) ;;;
    ow_mpartp_destroy m ;;;
    ow_ret [ow_nullbit b; ow_optbit m]).

(* args: the transaction is complete, table size, parts list size.  The three request parsers are created and attached,
   htp_tx_destroy; when it refuses, the caller releases the parsers; then the connection parser is destroyed *)
Definition ow_case_tx_full (a : list nat) (k : nat) :=
  ow_case (p <- ow_connp_with_tx ;; cfg <- ow_malloc ;; ow_ret (p, cfg)) k
    (fun w => match fst w with
              | None => ow_ret [9]
              | Some p =>
                match ocp_conn p with
                | None => ow_ret [9]
                | Some c =>
                  match ow_split_last (ocn_txs c) with
                  | Some (rest, Some tx) =>
                    uq <- ow_urlenp_create (ow_arg a 1) (otx_self tx) ;;
                    ub <- ow_urlenp_create (ow_arg a 1) (otx_self tx) ;;
                    b <- ow_bstr_alloc ;;
                    mp <- ow_mpartp_create (ow_arg a 2) (snd w) b ;;
                    (match mp with None => ow_free b | Some _ => ow_ret tt end) ;;;
                    r <- ow_tx_destroy (ow_nb (ow_arg a 0)) (ow_mk_tx_full tx uq ub mp) ;;
                    (if r then ow_ret tt else ow_urlenp_destroy uq ;;; ow_urlenp_destroy ub ;;; ow_mpartp_destroy mp) ;;;
                    ow_connp_destroy_all (Some (ocp_set_conn p (Some (ocn_set_txs c (ocn_txl c) (rest ++ [if r then None else Some tx]))))) ;;;
                    ow_ret [ow_optbit uq; ow_optbit ub; ow_nullbit b; ow_optbit mp; ow_b2n r]
                  | _ => ow_ret [9]
                  end
                end
              end).

(* ---- start lines.  The line itself is a string of the transaction made by the harness before the window *)
(* args: parts of the response line (0..3) *)
Definition ow_case_res_line (a : list nat) (k : nat) :=
  ow_case (p <- ow_connp_with_tx ;;
           match p with
           | None => ow_ret None
           | Some p =>
             l <- ow_bstr_alloc ;;
             r <- ow_with_in_tx p tt (fun c tx => ow_ret (tt, c, otx_set_res_strs tx (ow_set_nth (otx_res_strs tx) c_otx_response_line l))) ;;
             ow_ret (Some (snd r))
           end) k
    (fun p => match p with
              | None => ow_ret [9]
              | Some p =>
                r <- ow_with_in_tx p [9] (fun c tx =>
                       x <- ow_parse_response_line (ow_arg a 0) (ocp_self p) tx ;;
                       ow_ret ([ow_b2n (fst x); ow_nullbit (nth c_otx_response_protocol (otx_res_strs (snd x)) None);
                                ow_nullbit (nth c_otx_response_status (otx_res_strs (snd x)) None);
                                ow_nullbit (nth c_otx_response_message (otx_res_strs (snd x)) None)], c, snd x)) ;;
                ow_connp_destroy_all (Some (snd r)) ;;;
                ow_ret (fst r)
              end).

(* args: log on, then the seven bits of the shape *)
Definition ow_case_req_line (a : list nat) (k : nat) :=
  ow_case (p <- ow_connp_with_tx ;;
           match p with
           | None => ow_ret None
           | Some p =>
             l <- ow_bstr_alloc ;;
             r <- ow_with_in_tx p tt (fun c tx => ow_ret (tt, c, otx_set_req_strs tx (ow_set_nth (otx_req_strs tx) c_otx_request_line l))) ;;
             ow_ret (Some (snd r))
           end) k
    (fun p => match p with
              | None => ow_ret [9]
              | Some p =>
                r <- ow_with_in_tx p [9] (fun c tx =>
                       x <- ow_parse_request_line (ow_nb (ow_arg a 0))
                              (ow_mk_rlshape (ow_nb (ow_arg a 1)) (ow_nb (ow_arg a 2)) (ow_nb (ow_arg a 3)) (ow_nb (ow_arg a 4))
                                             (ow_nb (ow_arg a 5)) (ow_nb (ow_arg a 6)) (ow_nb (ow_arg a 7))) (ocp_self p) c tx ;;
                       let '(ok, c1, tx1) := x in
                       ow_ret ([ow_b2n ok; ow_nullbit (nth c_otx_request_method (otx_req_strs tx1) None);
                                ow_nullbit (nth c_otx_request_uri (otx_req_strs tx1) None);
                                ow_nullbit (nth c_otx_request_protocol (otx_req_strs tx1) None)], c1, tx1)) ;;
                ow_connp_destroy_all (Some (snd r)) ;;;
                ow_ret (fst r)
              end).

Definition ow_run_case2 (fn : nat) (a : list nat) (k : nat) : ow_res (list nat) :=
  match fn with
  | 0 => ow_case_hostport a k
  | 1 => ow_case_uri_hostport a k
  | 2 => ow_case_parse_uri a k
  | 3 => ow_case_normalize a k
  | 4 => ow_case_request_line a k
  | 5 => ow_case_res_header a k
  | 6 => ow_case_res_buffer a k
  | 7 => ow_case_decomp_create a k
  | 8 => ow_case_decomp_used a k
  | 9 => ow_case_res_state_headers a k
  | 10 => ow_case_urlenp a k
  | 11 => ow_case_mpartp a k
  | 12 => ow_case_tx_full a k
  | 13 => ow_case_res_line a k
  | 14 => ow_case_req_line a k
  | _ => OwOk [] (ow_init ow_never)
  end.
