(* htp_transaction.c, request direction: htp_tx_state_request_start / _request_line / _request_headers
   and htp_tx_process_request_headers. (htp_tx_state_request_complete lives in MTxCommon because RES_IDLE
   calls it too.) Decompression, cookies, authorization parsing are off in the modelled configuration;
   connp->put_file is allocated for PUT but nothing observable depends on it (no REQUEST_FILE_DATA hook). *)
Require Import Htp.Model.MConnTypes Htp.Model.MBstr Htp.Model.MTxCommon Htp.Model.MReqLine Htp.Model.MReqUri.
Local Open Scope Z_scope.

Definition rq_str_content_type : bytes := [99;111;110;116;101;110;116;45;116;121;112;101]%N.              (* "content-type" *)
Definition rq_str_content_length_lc : bytes := [99;111;110;116;101;110;116;45;108;101;110;103;116;104]%N.  (* "content-length" *)
Definition rq_str_transfer_encoding : bytes := [116;114;97;110;115;102;101;114;45;101;110;99;111;100;105;110;103]%N. (* "transfer-encoding" *)
Definition rq_str_host : bytes := [104;111;115;116]%N.                                                     (* "host" *)

Definition tx_set_flag (bit : N) (t : tx) : tx := t <| t_flags ::= (fun f => flag_set f bit) |>.

(* the part of htp_tx_process_request_headers that only touches the transaction: T-E / C-L arbitration,
   host determination, content type. (C11's decision logic.) *)
Definition rq_te_cl (t : tx) : tx :=
  let cl := rq_hdr_get_c (t_request_headers t) rq_str_content_length_lc in
  let te := rq_hdr_get_c (t_request_headers t) rq_str_transfer_encoding in
  let t :=
    match te with
    | Some te =>
      if negb (htp_header_has_token (h_value te) rq_str_chunked) then
        tx_set_flag c_HTP_REQUEST_INVALID (tx_set_flag c_HTP_REQUEST_INVALID_T_E (t <| t_request_transfer_coding := c_HTP_CODING_INVALID |>))
      else
        let t := if t_request_protocol_number t <? c_HTP_PROTOCOL_1_1
                 then tx_set_flag c_HTP_REQUEST_SMUGGLING (tx_set_flag c_HTP_REQUEST_INVALID_T_E t) else t in
        let t := t <| t_request_transfer_coding := c_HTP_CODING_CHUNKED |> in
        match cl with Some _ => tx_set_flag c_HTP_REQUEST_SMUGGLING t | None => t end
    | None =>
      match cl with
      | Some cl =>
        let t := if flag_has (h_flags cl) c_HTP_FIELD_FOLDED then tx_set_flag c_HTP_REQUEST_SMUGGLING t else t in
        let t := if flag_has (h_flags cl) c_HTP_FIELD_REPEATED then tx_set_flag c_HTP_REQUEST_SMUGGLING t else t in
        let n := parse_content_length (h_value cl) in
        let t := t <| t_request_content_length := n |> in
        if n <? 0 then
          tx_set_flag c_HTP_REQUEST_INVALID (tx_set_flag c_HTP_REQUEST_INVALID_C_L (t <| t_request_transfer_coding := c_HTP_CODING_INVALID |>))
        else t <| t_request_transfer_coding := c_HTP_CODING_IDENTITY |>
      | None => t <| t_request_transfer_coding := c_HTP_CODING_NO_BODY |>
      end
    end in
  if t_request_transfer_coding t =? c_HTP_CODING_UNKNOWN
  then tx_set_flag c_HTP_REQUEST_INVALID (t <| t_request_transfer_coding := c_HTP_CODING_INVALID |>) else t.

(* host determination; nu = tx->parsed_uri *)
Definition rq_host (nu : puri) (t : tx) : tx :=
  let t := match u_host nu with Some h => t <| t_request_hostname := Some h |> | None => t end in
  let t := t <| t_request_port_number := u_port_number nu |> in
  match rq_hdr_get_c (t_request_headers t) rq_str_host with
  | None => if c_HTP_PROTOCOL_1_1 <=? t_request_protocol_number t then tx_set_flag c_HTP_HOST_MISSING t else t
  | Some h =>
    let '(hostname, port, invalid) := htp_parse_header_hostport (h_value h) in
    let t := if invalid then tx_set_flag c_HTP_HOSTH_INVALID t else t in
    match hostname with
    | Some hn =>
      match t_request_hostname t with
      | None => t <| t_request_hostname := Some hn |> <| t_request_port_number := port |>
      | Some rh =>
        let t := if negb (cmp_mem_nocase hn rh =? 0) then tx_set_flag c_HTP_HOST_AMBIGUOUS t else t in
        if negb (t_request_port_number t =? -1) && negb (port =? -1) && negb (t_request_port_number t =? port)
        then tx_set_flag c_HTP_HOST_AMBIGUOUS t else t
      end
    | None =>
      match t_request_hostname t with Some _ => tx_set_flag c_HTP_HOST_AMBIGUOUS t | None => t end
    end
  end.

Definition rq_content_type (t : tx) : tx :=
  match rq_hdr_get_c (t_request_headers t) rq_str_content_type with
  | Some ct => t <| t_request_content_type := Some (htp_parse_ct_header (h_value ct)) |>
  | None => t
  end.

Section WithOracle.
Variable cb : cb_oracle.
Variable g : cfg.

(* htp_tx_state_request_start *)
Definition tx_state_request_start (i : nat) (c : connp) : st * connp :=
  match run_hook cb H_REQUEST_START i c with
  | (ST_OK, c) =>
    let c := c <| c_in_state := REQ_LINE |> in
    (* tx->connp->in_tx->request_progress = HTP_REQUEST_LINE *)
    (ST_OK, match c_in_tx c with
            | Some j => tx_upd c j (fun t => t <| t_request_progress := c_HTP_REQUEST_LINE |>)
            | None => c <| c_fault := true |>
            end)
  | r => r
  end.

(* htp_tx_state_request_line *)
Definition tx_state_request_line (i : nat) (c : connp) : st * connp :=
  let t := tx_get c i in
  match rq_uri_pipeline_opt g (t_request_method_number t =? c_HTP_M_CONNECT) (t_request_uri t) t with
  | None => (ST_ERROR, c)
  | Some t' =>
    let c := tx_put c i t' in
    match run_hook cb H_REQUEST_URI_NORMALIZE i c with
    | (ST_OK, c) =>
      match run_hook cb H_REQUEST_LINE i c with
      | (ST_OK, c) => (ST_OK, c <| c_in_state := REQ_PROTOCOL |>)
      | r => r
      end
    | r => r
    end
  end.

(* htp_tx_process_request_headers *)
Definition tx_process_request_headers (i : nat) (c : connp) : st * connp :=
  let t := tx_get c i in
  let t := rq_te_cl t in
  let '(t, fault) := match t_parsed_uri t with
                     | Some nu => (rq_host nu t, false)
                     | None => (t, true)                        (* tx->parsed_uri->hostname through a NULL pointer *)
                     end in
  let t := rq_content_type t in
  let c := tx_put c i t in
  let c := if fault then c <| c_fault := true |> else c in
  match req_receiver_finalize_clear cb c with
  | (ST_OK, c) => run_hook cb H_REQUEST_HEADERS i c
  | r => r
  end.

(* htp_tx_state_request_headers *)
Definition tx_state_request_headers (i : nat) (c : connp) : st * connp :=
  let t := tx_get c i in
  if c_HTP_REQUEST_HEADERS <? t_request_progress t then
    (* request trailers *)
    match run_hook cb H_REQUEST_TRAILER i c with
    | (ST_OK, c) =>
      match req_receiver_finalize_clear cb c with
      | (ST_OK, c) => (ST_OK, c <| c_in_state := REQ_FINALIZE |>)
      | r => r
      end
    | r => r
    end
  else if c_HTP_REQUEST_LINE <=? t_request_progress t then
    let c := if negb (c_in_chunk_count c =? c_in_chunk_request_index c)%nat
             then tx_upd c i (tx_set_flag c_HTP_MULTI_PACKET_HEAD) else c in
    match tx_process_request_headers i c with
    | (ST_OK, c) => (ST_OK, c <| c_in_state := REQ_CONNECT_CHECK |>)
    | r => r
    end
  else (ST_ERROR, c).

End WithOracle.
