(* htp_response.c: the response-side parser states and htp_connp_res_data. *)
Require Import Htp.Model.MConnTypes Htp.Model.MTxCommon.
Local Open Scope Z_scope.

Section WithOracle.
Variable cb : cb_oracle.
Variable g : cfg.

(* STUB: to be replaced by the transcription of htp_connp_res_data. *)
Definition connp_res_data (data : option bytes) (len : nat) (c : connp) : connp * Z :=
  match cb 0%nat 0%nat with CB_OK => if Nat.eqb (g_max_tx g) 0 then (c, c_HTP_STREAM_ERROR) else (c, c_HTP_STREAM_ERROR) | _ => (c, c_HTP_STREAM_ERROR) end.

End WithOracle.
