(* htp_response.c: the response-side parser states and htp_connp_res_data.
   Code-shaped transcription: every htp_connp_RES_* state function is a function connp -> st * connp,
   the byte macros are small functions on the c_out cursor with CHECKED reads (an index outside the
   caller's chunk, or a read through a NULL chunk pointer, sets c_fault), every append to out_buf
   goes through rs_res_buffer, and the places where the C moves out_current_read_offset BACKWARDS
   (RES_BODY_CHUNKED_LENGTH on an invalid length, RES_FINALIZE un-read) do the same here.
   Loops that consume one byte per iteration recurse on explicit fuel (remaining bytes + 1); running out
   of fuel sets c_fault and returns HTP_ERROR (it cannot happen: see rs_*_fuel). *)
Require Import Htp.Model.MConnTypes Htp.Model.MTxCommon Htp.Model.MBstr Htp.Model.MResLine Htp.Model.MTxRes.
Local Open Scope Z_scope.

Section WithOracle.
Variable cb : cb_oracle.
Variable g : cfg.

(* ---- access to connp->out_tx ---- *)
Definition rs_tx (c : connp) : tx := match c_out_tx c with Some i => tx_get c i | None => tx_new 0 0 end.
(* a write through connp->out_tx; NULL dereferenced = fault *)
Definition rs_otx (f : tx -> tx) (c : connp) : connp :=
  match c_out_tx c with Some i => tx_upd c i f | None => c <| c_fault := true |> end.
Definition rs_fault (c : connp) : connp := c <| c_fault := true |>.
Definition rs_closed (c : connp) : bool := c_out_status c =? c_HTP_STREAM_CLOSED.
Definition rs_set_state (s : res_state) (c : connp) : connp := c <| c_out_state := s |>.

(* ---- the byte macros ---- *)
(* out_current_data[i], checked *)
Definition rs_cur_byte (c : connp) (i : nat) : option N :=
  match k_data (c_out c) with
  | Some d => if (i <? k_len (c_out c))%nat then nth_error d i else None
  | None => None
  end.
(* reads out_current_data[read_offset] into out_next_byte *)
Definition rs_load_next (c : connp) : connp :=
  match rs_cur_byte c (k_read (c_out c)) with
  | Some b => rs_set_out (fun k => k <| k_next_byte := Some b |>) c
  | None => rs_fault (rs_set_out (fun k => k <| k_next_byte := None |>) c)
  end.
Definition rs_has_byte (c : connp) : bool := (k_read (c_out c) <? k_len (c_out c))%nat.
(* OUT_PEEK_NEXT *)
Definition rs_peek_next (c : connp) : connp :=
  if rs_has_byte c then rs_load_next c else rs_set_out (fun k => k <| k_next_byte := None |>) c.
(* OUT_COPY_BYTE_OR_RETURN: None = no byte left (the caller returns HTP_DATA_BUFFER) *)
Definition rs_copy_byte (c : connp) : option connp :=
  if rs_has_byte c then Some (rs_set_out (fun k => k <| k_read ::= S |>) (rs_load_next c)) else None.
(* OUT_NEXT_BYTE_OR_RETURN: None = no byte left (the caller returns HTP_DATA) *)
Definition rs_next_byte (c : connp) : option connp :=
  if rs_has_byte c then Some (rs_set_out (fun k => k <| k_read ::= S |> <| k_consume ::= S |>) (rs_load_next c)) else None.
Definition rs_nb (c : connp) : option N := k_next_byte (c_out c).
Definition rs_nb_is (c : connp) (b : N) : bool := match rs_nb c with Some x => (x =? b)%N | None => false end.

(* the bytes [consume, read) of the caller's chunk: data + consume_offset, len = read - consume.
   read < consume would wrap the size_t length: fault *)
Definition rs_unconsumed (c : connp) : bytes :=
  let k := c_out c in
  match k_data k with Some d => rs_sub d (k_consume k) (k_read k) | None => [] end.

(* ---- htp_connp_res_buffer: THE function through which every byte enters out_buf ---- *)
Definition rs_res_buffer (c : connp) : st * connp :=
  let k := c_out c in
  match k_data k with
  | None => (ST_OK, c)
  | Some d =>
    let c := if (k_read k <? k_consume k)%nat then rs_fault c else c in
    let chunk := rs_sub d (k_consume k) (k_read k) in
    let buf_size := match k_buf k with Some b => length b | None => 0%nat end in
    let newlen := (buf_size + length chunk + match k_header k with Some h => length h | None => 0 end)%nat in
    let c := match c_out_tx c with None => rs_fault c | Some _ => c end in        (* connp->out_tx->cfg->field_limit_hard *)
    if (g_field_limit_hard g <? newlen)%nat then (ST_ERROR, c)
    else
      let nb := match k_buf k with Some b => b ++ chunk | None => chunk end in
      (ST_OK, rs_set_out (fun k => k <| k_buf := Some nb |> <| k_consume := k_read k |>) c)
  end.

(* htp_connp_res_consolidate_data: None = HTP_ERROR; Some data where data = None is a NULL pointer (len 0) *)
Definition rs_consolidate (c : connp) : option (option bytes) * connp :=
  let k := c_out c in
  match k_buf k with
  | None =>
    match k_data k with
    | Some d =>
      let c := if (k_read k <? k_consume k)%nat then rs_fault c else c in
      (Some (Some (rs_sub d (k_consume k) (k_read k))), c)
    | None =>
      (* NULL + consume_offset, len = read - consume: only NULL + 0 with len 0 is a NULL pointer with no bytes *)
      let c := if (0 <? k_consume k)%nat || negb (k_read k =? k_consume k)%nat then rs_fault c else c in
      (Some None, c)
    end
  | Some _ =>
    match rs_res_buffer c with
    | (ST_OK, c) => (Some (k_buf (c_out c)), c)
    | (_, c) => (None, c)
    end
  end.
Definition rs_dbytes (d : option bytes) : bytes := match d with Some x => x | None => [] end.

(* htp_connp_res_clear_buffer *)
Definition rs_clear_buffer (c : connp) : connp :=
  rs_set_out (fun k => k <| k_consume := k_read k |> <| k_buf := None |>) c.

(* ---- htp_res_handle_state_change ---- *)
Definition rs_handle_state_change (c : connp) : st * connp :=
  let same := match c_out_state_previous c with Some p => res_state_eqb p (c_out_state c) | None => false end in
  if same then (ST_OK, c)
  else
    let '(rc, c) :=
      if res_state_eqb (c_out_state c) RES_HEADERS then
        let p := t_response_progress (rs_tx c) in
        let c := match c_out_tx c with None => rs_fault c | Some _ => c end in
        if p =? c_HTP_RESPONSE_HEADERS then res_receiver_set cb H_RESPONSE_HEADER_DATA c
        else if p =? c_HTP_RESPONSE_TRAILER then res_receiver_set cb H_RESPONSE_TRAILER_DATA c
        else (ST_OK, c)
      else (ST_OK, c) in
    match rc with
    | ST_OK => (ST_OK, c <| c_out_state_previous := Some (c_out_state c) |>)
    | _ => (rc, c)
    end.

(* fuel of the byte loops: every iteration that does not return consumes one byte of the chunk *)
Definition rs_bytes_fuel (c : connp) : nat := S (S (k_len (c_out c) - k_read (c_out c))).

(* body data taken from the caller's chunk at the read offset: out_current_data + read_offset, n bytes.
   NULL + 0 (gap) stays NULL; NULL + k is a wild pointer *)
Definition rs_body_slice (c : connp) (n : nat) : option bytes * connp :=
  let k := c_out c in
  match k_data k with
  | Some d => (Some (firstn n (skipn (k_read k) d)), c)
  | None => (None, if (0 <? k_read k)%nat then rs_fault c else c)
  end.
Definition rs_advance (n : nat) (c : connp) : connp :=
  rs_set_out (fun k => k <| k_read := (k_read k + n)%nat |> <| k_consume := (k_consume k + n)%nat |>) c.
Definition rs_process_body (data : option bytes) (len : nat) (c : connp) : st * connp :=
  match c_out_tx c with
  | Some i => tx_res_process_body_data_ex cb i data len c
  | None => (ST_ERROR, c)                       (* if (tx == NULL) return HTP_ERROR *)
  end.

(* ---- htp_connp_RES_BODY_CHUNKED_DATA_END ---- *)
Fixpoint rs_chunked_data_end_loop (fuel : nat) (c : connp) : st * connp :=
  match fuel with
  | O => (ST_ERROR, rs_fault c)
  | S f =>
    match rs_next_byte c with
    | None => (ST_DATA, c)
    | Some c =>
      let c := rs_otx (fun t => t <| t_response_message_len ::= Z.succ |>) c in
      if rs_nb_is c LF then (ST_OK, rs_set_state RES_BODY_CHUNKED_LENGTH c)
      else rs_chunked_data_end_loop f c
    end
  end.
Definition rs_RES_BODY_CHUNKED_DATA_END (c : connp) : st * connp := rs_chunked_data_end_loop (rs_bytes_fuel c) c.

(* bytes_to_consume = min(out_current_len - read_offset, left) with the comparison done in size_t
   (a negative int64 converts to a huge value) *)
Definition rs_bytes_to_consume (c : connp) (left : Z) : nat :=
  let avail := (k_len (c_out c) - k_read (c_out c))%nat in
  if left <? 0 then avail else if left <=? Z.of_nat avail then Z.to_nat left else avail.

(* ---- htp_connp_RES_BODY_CHUNKED_DATA ---- *)
Definition rs_RES_BODY_CHUNKED_DATA (c : connp) : st * connp :=
  let n := rs_bytes_to_consume c (c_out_chunked_length c) in
  if (n =? 0)%nat then (ST_DATA, c)
  else
    let '(data, c) := rs_body_slice c n in
    match rs_process_body data n c with
    | (ST_OK, c) =>
      let c := rs_advance n c in
      let c := c <| c_out_chunked_length := c_out_chunked_length c - Z.of_nat n |> in
      if c_out_chunked_length c =? 0 then (ST_OK, rs_set_state RES_BODY_CHUNKED_DATA_END c)
      else (ST_DATA, c)
    | r => r
    end.

(* ---- htp_connp_RES_BODY_CHUNKED_LENGTH ---- *)
Fixpoint rs_chunked_length_loop (fuel : nat) (c : connp) : st * connp :=
  match fuel with
  | O => (ST_ERROR, rs_fault c)
  | S f =>
    match rs_copy_byte c with
    | None => (ST_DATA_BUFFER, c)
    | Some c =>
      let nb := match rs_nb c with Some b => b | None => 0%N end in
      if (nb =? LF)%N || (negb (rs_is_chunked_ctl_char nb) && negb (rs_data_probe_chunk_length (rs_dbytes (k_buf (c_out c)) ++ rs_unconsumed c))) then
        match rs_consolidate c with
        | (None, c) => (ST_ERROR, c)
        | (Some data, c) =>
          let d := rs_dbytes data in
          let len := length d in
          let c := rs_otx (fun t => t <| t_response_message_len ::= Z.add (Z.of_nat len) |>) c in
          let cl := fst (parse_chunked_length d) in
          let c := c <| c_out_chunked_length := cl |> in
          if cl =? -1004 then rs_chunked_length_loop f (rs_clear_buffer c)        (* empty chunk length line: continue *)
          else if cl <? 0 then
            (* un-read the line so that RES_BODY_IDENTITY_STREAM_CLOSE sees its bytes; the buffer is NOT cleared *)
            let c := rs_set_out (fun k => k <| k_read := if (k_read k <? len)%nat then 0%nat else (k_read k - len)%nat |>) c in
            let c := rs_set_state RES_BODY_IDENTITY_STREAM_CLOSE c in
            (ST_OK, rs_otx (fun t => t <| t_response_transfer_coding := c_HTP_CODING_IDENTITY |>) c)
          else
            let c := rs_clear_buffer c in
            if 0 <? cl then (ST_OK, rs_set_state RES_BODY_CHUNKED_DATA c)
            else
              let c := rs_set_state RES_HEADERS c in
              (ST_OK, rs_otx (fun t => t <| t_response_progress := c_HTP_RESPONSE_TRAILER |>) c)
        end
      else rs_chunked_length_loop f c
    end
  end.
Definition rs_RES_BODY_CHUNKED_LENGTH (c : connp) : st * connp := rs_chunked_length_loop (rs_bytes_fuel c) c.

(* ---- htp_connp_RES_BODY_IDENTITY_CL_KNOWN ---- *)
Definition rs_RES_BODY_IDENTITY_CL_KNOWN (c : connp) : st * connp :=
  let n := rs_bytes_to_consume c (c_out_body_data_left c) in
  if rs_closed c then rs_process_body None 0 (rs_set_state RES_FINALIZE c)
  else if (n =? 0)%nat then (ST_DATA, c)
  else
    let '(data, c) := rs_body_slice c n in
    match rs_process_body data n c with
    | (ST_OK, c) =>
      let c := rs_advance n c in
      let c := c <| c_out_body_data_left := c_out_body_data_left c - Z.of_nat n |> in
      if c_out_body_data_left c =? 0 then rs_process_body None 0 (rs_set_state RES_FINALIZE c)
      else (ST_DATA, c)
    | r => r
    end.

(* ---- htp_connp_RES_BODY_IDENTITY_STREAM_CLOSE ---- *)
Definition rs_RES_BODY_IDENTITY_STREAM_CLOSE (c : connp) : st * connp :=
  let n := (k_len (c_out c) - k_read (c_out c))%nat in
  let c := if (k_len (c_out c) <? k_read (c_out c))%nat then rs_fault c else c in
  let '(rc, c) :=
    if (n =? 0)%nat then (ST_OK, c)
    else
      let '(data, c) := rs_body_slice c n in
      match rs_process_body data n c with
      | (ST_OK, c) => (ST_OK, rs_advance n c)
      | r => r
      end in
  match rc with
  | ST_OK => if rs_closed c then (ST_OK, rs_set_state RES_FINALIZE c) else (ST_DATA, c)
  | _ => (rc, c)
  end.

(* ---- htp_connp_RES_BODY_DETERMINE ---- *)
Definition rs_unblock_request (st_new : Z) (c : connp) : connp :=
  if negb (c_in_status c =? c_HTP_STREAM_ERROR) then c <| c_in_status := st_new |> else c.
Definition rs_response_headers (c : connp) : st * connp :=
  match c_out_tx c with
  | Some i => tx_state_response_headers cb i c
  | None => (ST_ERROR, c)
  end.
(* response_content_type = bstr_dup_lower(ct->value) cut at the first htp_is_space byte or ';' *)
Definition rs_content_type (v : bytes) : bytes :=
  take_while (fun b => negb (htp_is_space b || (b =? 59)%N)) (to_lowercase v).

Definition rs_RES_BODY_DETERMINE (c : connp) : st * connp :=
  let t := rs_tx c in
  let sn := t_response_status_number t in
  let is_connect := t_request_method_number t =? c_HTP_M_CONNECT in
  if is_connect && (200 <=? sn) && (sn <=? 299) then
    rs_response_headers (rs_set_state RES_FINALIZE c)
  else
    let c := if is_connect then
               (rs_unblock_request c_HTP_STREAM_DATA c) <| c_out_data_other_at_tx_end := true |>      (* 407 included *)
             else c in
    let cl := rs_hdr_get_c (t_response_headers t) rs_str_content_length in
    let te := rs_hdr_get_c (t_response_headers t) rs_str_transfer_encoding in
    let no_cl := match cl with None => true | Some _ => false end in
    let no_te := match te with None => true | Some _ => false end in
    if (sn =? 101) && no_te && no_cl then
      let c := rs_set_state RES_FINALIZE c in
      let c := rs_unblock_request c_HTP_STREAM_TUNNEL c in
      rs_response_headers (c <| c_out_status := c_HTP_STREAM_TUNNEL |>)
    else
      let is100continue :=
        (sn =? 100) && no_te &&
        match cl with Some h => negb (0 <? parse_content_length (h_value h)) | None => true end in
      if is100continue then
        let c := rs_otx (fun t => t <| t_response_headers := [] |> <| t_response_progress := c_HTP_RESPONSE_LINE |>
                                    <| t_seen_100continue ::= S |>) c in
        (ST_OK, rs_set_state RES_LINE c)
      else
        (* Expect: 100-continue answered by a 4xx before the body was sent *)
        let c := if (400 <=? sn) && (sn <=? 499) && (0 <? c_in_content_length c)
                    && (c_in_body_data_left c =? c_in_content_length c) then
                   match rs_hdr_get_c (t_request_headers t) rs_str_expect with
                   | Some e => if cmp_mem_nocase (h_value e) rs_str_100_continue =? 0 then c <| c_in_state := REQ_FINALIZE |> else c
                   | None => c
                   end
                 else c in
        let c := if t_request_method_number t =? c_HTP_M_HEAD then
                   rs_set_state RES_FINALIZE (rs_otx (fun t => t <| t_response_transfer_coding := c_HTP_CODING_NO_BODY |>) c)
                 else if ((100 <=? sn) && (sn <=? 199)) || (sn =? 204) || (sn =? 304) then
                   if no_te && no_cl then
                     rs_set_state RES_FINALIZE (rs_otx (fun t => t <| t_response_transfer_coding := c_HTP_CODING_NO_BODY |>) c)
                   else c
                 else c in
        let '(rc, c) :=
          if negb (res_state_eqb (c_out_state c) RES_FINALIZE) then
            let ct := rs_hdr_get_c (t_response_headers t) rs_str_content_type in
            let c := match ct with
                     | Some h => rs_otx (fun t => t <| t_response_content_type := Some (rs_content_type (h_value h)) |>) c
                     | None => c
                     end in
            let te_chunked := match te with
                              | Some h => negb (index_of_mem_nocasenorzero (h_value h) rs_str_chunked =? -1)
                              | None => false
                              end in
            if te_chunked then
              let c := rs_otx (fun t =>
                         let t := t <| t_response_transfer_coding := c_HTP_CODING_CHUNKED |> in
                         let t := if no_cl then t else t <| t_flags := flag_set (t_flags t) c_HTP_REQUEST_SMUGGLING |> in
                         t <| t_response_progress := c_HTP_RESPONSE_BODY |>) c in
              (ST_OK, rs_set_state RES_BODY_CHUNKED_LENGTH c)
            else
              match cl with
              | Some h =>
                let v := parse_content_length (h_value h) in
                let c := rs_otx (fun t =>
                           let t := t <| t_response_transfer_coding := c_HTP_CODING_IDENTITY |> in
                           let t := if flag_has (h_flags h) c_HTP_FIELD_REPEATED
                                    then t <| t_flags := flag_set (t_flags t) c_HTP_REQUEST_SMUGGLING |> else t in
                           t <| t_response_content_length := v |>) c in
                if v <? 0 then (ST_ERROR, c)
                else
                  let c := c <| c_out_content_length := v |> <| c_out_body_data_left := v |> in
                  if negb (v =? 0) then
                    (ST_OK, rs_set_state RES_BODY_IDENTITY_CL_KNOWN
                              (rs_otx (fun t => t <| t_response_progress := c_HTP_RESPONSE_BODY |>) c))
                  else (ST_OK, rs_set_state RES_FINALIZE c)
              | None =>
                let byteranges := match ct with
                                  | Some h => negb (index_of_mem_nocase (h_value h) rs_str_multipart_byteranges =? -1)
                                  | None => false
                                  end in
                if byteranges then (ST_ERROR, c)
                else
                  let c := rs_set_state RES_BODY_IDENTITY_STREAM_CLOSE c in
                  let c := rs_otx (fun t => t <| t_response_transfer_coding := c_HTP_CODING_IDENTITY |>
                                              <| t_response_progress := c_HTP_RESPONSE_BODY |>) c in
                  (ST_OK, c <| c_out_body_data_left := -1 |>)
              end
          else (ST_OK, c) in
        match rc with
        | ST_OK => rs_response_headers c
        | _ => (rc, c)
        end.

(* ---- htp_connp_RES_HEADERS ---- *)
(* connp->cfg->process_response_header (htp_process_response_header_generic for every personality) *)
Definition rs_process_header (line : bytes) (c : connp) : connp := rs_otx (rs_process_response_header line) c.
(* "Parse previous header, if any": process out_header and free it *)
Definition rs_flush_header (c : connp) : connp :=
  match k_header (c_out c) with
  | Some h => rs_set_out (fun k => k <| k_header := None |>) (rs_process_header h c)
  | None => c
  end.
Definition rs_set_header (h : bytes) (c : connp) : connp := rs_set_out (fun k => k <| k_header := Some h |>) c.
Definition rs_flag_invalid_folding (c : connp) : connp :=
  rs_otx (fun t => t <| t_flags := flag_set (t_flags t) c_HTP_INVALID_FOLDING |>) c.
(* end of the trailer / of a header block cut by close: finalize receiver, hook RESPONSE_TRAILER, go to FINALIZE *)
Definition rs_trailer_end (c : connp) : st * connp :=
  match res_receiver_finalize_clear cb c with
  | (ST_OK, c) =>
    match run_hook cb H_RESPONSE_TRAILER (out_txi c) c with
    | (ST_OK, c) => (ST_OK, rs_set_state RES_FINALIZE c)
    | r => r
    end
  | r => r
  end.

(* what happens with one consolidated header line (after the line-end scan) *)
Definition rs_headers_line (data : bytes) (c : connp) : option (st * connp) * connp :=
  (* None in the first component: the for(;;) loop continues *)
  let next_no_lf := match rs_cur_byte c (k_read (c_out c)) with
                    | Some b => rs_has_byte c && negb (b =? LF)%N
                    | None => false
                    end in
  let c := if rs_has_byte c then match rs_cur_byte c (k_read (c_out c)) with Some _ => c | None => rs_fault c end else c in
  if rs_is_line_terminator (g_personality g) data next_no_lf then
    let c := rs_clear_buffer (rs_flush_header c) in
    if t_response_progress (rs_tx c) =? c_HTP_RESPONSE_HEADERS then (Some (ST_OK, rs_set_state RES_BODY_DETERMINE c), c)
    else (Some (rs_trailer_end c), c)
  else
    let d := fst (rs_chomp data) in
    let c :=
      if rs_is_line_folded d =? 0 then
        (* new header line *)
        let c := rs_peek_next (rs_flush_header c) in
        match rs_nb c with
        | Some b => if negb (htp_is_folding_char b) then rs_process_header d c else rs_set_header d c
        | None => rs_set_header d c
        end
      else
        match k_header (c_out c) with
        | None =>
          (* invalid folding: keep the line without its leading folding characters *)
          rs_set_header (drop_while htp_is_folding_char d) (rs_flag_invalid_folding c)
        | Some h =>
          let colon_pos := rs_fwd_while (fun b => negb (b =? 58)%N) d 0 in
          if (colon_pos <? length d)%nat && (0 <=? bstr_chr h 58) && (t_response_protocol_number (rs_tx c) =? c_HTP_PROTOCOL_1_1) then
            let c := rs_process_header h (rs_flag_invalid_folding c) in
            rs_set_header (skipn 1 d) c
          else if Z.of_nat (length h) <? c_HTP_MAX_HEADER_FOLDED then rs_set_header (h ++ d) c
          else c
        end in
    (None, rs_clear_buffer c).

Fixpoint rs_headers_loop (fuel : nat) (lfcrending : bool) (c : connp) : st * connp :=
  match fuel with
  | O => (ST_ERROR, rs_fault c)
  | S f =>
    if rs_closed c then rs_trailer_end c
    else
      match rs_copy_byte c with
      | None => (ST_DATA_BUFFER, c)
      | Some c =>
        if negb (rs_nb_is c LF) && negb (rs_nb_is c CR) then rs_headers_loop f false c
        else
          (* scan result: SC_RETURN (return HTP_DATA_BUFFER) | SC_CONTINUE | SC_LINE endwithcr lfcrending' *)
          let '(scan, c) :=
            if rs_nb_is c CR then
              let c := rs_peek_next c in
              match rs_nb c with
              | None => (0%nat, c)                                   (* return HTP_DATA_BUFFER *)
              | Some b =>
                if (b =? LF)%N then
                  let c := match rs_copy_byte c with Some c => c | None => rs_fault c end in
                  let c :=
                    if lfcrending then
                      (* LF CR CR LF CR LF: only two ends of line *)
                      let c := rs_peek_next c in
                      if rs_nb_is c CR then
                        let c := match rs_copy_byte c with Some c => c | None => rs_fault c end in
                        let c := rs_set_out (fun k => k <| k_consume ::= S |>) c in
                        let c := rs_peek_next c in
                        if rs_nb_is c LF then
                          let c := match rs_copy_byte c with Some c => c | None => rs_fault c end in
                          rs_set_out (fun k => k <| k_consume ::= S |>) c
                        else c
                      else c
                    else c in
                  (2%nat, c)                                         (* line, endwithcr = 1, lfcrending = 0 *)
                else if (b =? CR)%N then (1%nat, c)                  (* continue; lfcrending unchanged *)
                else (2%nat, c)
              end
            else
              (* LF *)
              let c := rs_peek_next c in
              if rs_nb_is c CR then
                (* LF-CR taken as the end of line (trace point 1) *)
                let c := match rs_copy_byte c with Some c => c | None => rs_fault c end in
                (4%nat, c)                                           (* line, endwithcr = 0, lfcrending = 1 *)
              else (3%nat, c) in                                     (* line, endwithcr = 0, lfcrending = 0 *)
          match scan with
          | 0%nat => (ST_DATA_BUFFER, c)
          | 1%nat => rs_headers_loop f lfcrending c
          | _ =>
            let endwithcr := (scan =? 2)%nat in
            let lfcr' := (scan =? 4)%nat in
            match rs_consolidate c with
            | (None, c) => (ST_ERROR, c)
            | (Some data, c) =>
              let d := rs_dbytes data in
              (* CRCRLF is not an empty line *)
              if endwithcr && (length d <? 2)%nat then rs_headers_loop f lfcr' c
              else
                match rs_headers_line d c with
                | (Some r, _) => r
                | (None, c) => rs_headers_loop f lfcr' c
                end
            end
          end
      end
  end.
Definition rs_RES_HEADERS (c : connp) : st * connp := rs_headers_loop (rs_bytes_fuel c) false c.

(* ---- htp_connp_RES_LINE ---- *)
(* the part of the loop body after a complete line has been recognised *)
Definition rs_line_complete (c : connp) : st * connp :=
  match rs_consolidate c with
  | (None, c) => (ST_ERROR, c)
  | (Some data, c) =>
    let d := rs_dbytes data in
    if rs_is_line_ignorable (g_personality g) d then
      let c := if rs_closed c then rs_set_state RES_FINALIZE c else c in
      let c := rs_otx (fun t => t <| t_response_ignored_lines ::= S |>) c in
      (ST_OK, rs_clear_buffer c)
    else
      let c := rs_otx (fun t => t <| t_response_line := None |> <| t_response_protocol := None |>
                                  <| t_response_status := None |> <| t_response_message := None |>) c in
      let '(dc, chomp_result) := rs_chomp d in
      let datac := match data with Some _ => Some dc | None => None end in
      if rs_treat_response_line_as_body datac then
        let k := c_out c in
        let skip := (S (k_read k) <? k_len k)%nat &&
                    (match rs_cur_byte c (k_read k) with Some b => (b =? 72)%N | None => false end || (length dc <=? 2)%nat) in
        let c := if (S (k_read k) <? k_len k)%nat then match rs_cur_byte c (k_read k) with Some _ => c | None => rs_fault c end else c in
        if skip then
          (* "if we have a next line beginning with H, skip this one" *)
          let c := rs_otx (fun t => t <| t_response_ignored_lines ::= S |>) c in
          (ST_OK, rs_clear_buffer c)
        else
          let c := rs_otx (fun t => t <| t_res_cep := c_HTP_COMPRESSION_NONE |>) c in
          let c := rs_set_out (fun k => k <| k_consume := k_read k |>) c in
          let blen := (length dc + Z.to_nat chomp_result)%nat in
          let bdata := match data with Some x => Some (firstn blen x) | None => None end in
          let '(rc, c) := rs_process_body bdata blen c in
          let c := rs_clear_buffer c in
          match rc with
          | ST_OK =>
            if (k_len (c_out c) <=? k_read (c_out c))%nat then
              let c := rs_otx (fun t => t <| t_response_transfer_coding := c_HTP_CODING_IDENTITY |>
                                          <| t_response_progress := c_HTP_RESPONSE_BODY |>) c in
              (ST_OK, rs_set_state RES_FINALIZE (c <| c_out_body_data_left := -1 |>))
            else (ST_OK, c)
          | _ => (rc, c)
          end
      else
        let c := rs_otx (fun t => rs_apply_response_line (rs_parse_response_line dc) (t <| t_response_line := Some dc |>)) c in
        match tx_state_response_line cb (out_txi c) c with
        | (ST_OK, c) =>
          let c := rs_clear_buffer c in
          let c := rs_set_state RES_HEADERS c in
          (ST_OK, rs_otx (fun t => t <| t_response_progress := c_HTP_RESPONSE_HEADERS |>) c)
        | r => r
        end
  end.

Fixpoint rs_line_loop (fuel : nat) (c : connp) : st * connp :=
  match fuel with
  | O => (ST_ERROR, rs_fault c)
  | S f =>
    let step := if negb (rs_closed c) then rs_copy_byte c else Some c in
    match step with
    | None => (ST_DATA_BUFFER, c)
    | Some c =>
      (* CR: look at the byte after it *)
      let '(act, c) :=
        if rs_nb_is c CR then
          let c := rs_peek_next c in
          match rs_nb c with
          | None => (0%nat, c)                                   (* return HTP_DATA_BUFFER *)
          | Some b => if (b =? LF)%N then (1%nat, c)             (* continue *)
                      else (2%nat, rs_set_out (fun k => k <| k_next_byte := Some LF |>) c)
          end
        else (2%nat, c) in
      match act with
      | 0%nat => (ST_DATA_BUFFER, c)
      | 1%nat => rs_line_loop f c
      | _ =>
        if rs_nb_is c LF || rs_closed c then rs_line_complete c
        else rs_line_loop f c
      end
    end
  end.
Definition rs_RES_LINE (c : connp) : st * connp := rs_line_loop (rs_bytes_fuel c) c.

(* ---- htp_connp_RES_FINALIZE ---- *)
Definition rs_response_complete (c : connp) : st * connp :=
  match c_out_tx c with
  | Some i => tx_state_response_complete_ex cb g i false c
  | None => (ST_ERROR, c)                    (* if (tx == NULL) return HTP_ERROR *)
  end.
(* for (;;) { OUT_COPY_BYTE_OR_RETURN; if (out_next_byte == LF) break; } : None = returned HTP_DATA_BUFFER *)
Fixpoint rs_finalize_scan (fuel : nat) (c : connp) : bool * connp :=
  match fuel with
  | O => (false, rs_fault c)
  | S f =>
    match rs_copy_byte c with
    | None => (false, c)
    | Some c => if rs_nb_is c LF then (true, c) else rs_finalize_scan f c
    end
  end.
Definition rs_finalize_tail (c : connp) : st * connp :=
  (* what was buffered from earlier chunks cannot be un-read *)
  let buffered_before := match k_buf (c_out c) with Some b => length b | None => 0%nat end in
  match rs_consolidate c with
  | (None, c) => (ST_ERROR, c)
  | (Some data, c) =>
    let bytes_left := length (rs_dbytes data) in
    if (bytes_left =? 0)%nat then rs_response_complete c
    else if rs_treat_response_line_as_body data then
      (* "Unexpected response body" *)
      let '(rc, c) := rs_process_body data bytes_left c in
      (rc, rs_clear_buffer c)
    else
      (* un-read the probed line so that RES_LINE sees it again *)
      let c := rs_set_out (fun k => k <| k_read := if (k_read k <? bytes_left)%nat then 0%nat else (k_read k - bytes_left)%nat |>) c in
      let c := rs_set_out (fun k => if (k_read k <? k_consume k)%nat then k <| k_consume := k_read k |> else k) c in
      let c := rs_set_out (fun k => match k_buf k with
                                    | Some b => k <| k_buf := Some (firstn buffered_before b) |>
                                    | None => k
                                    end) c in
      rs_response_complete c
  end.
Definition rs_RES_FINALIZE (c : connp) : st * connp :=
  if negb (rs_closed c) then
    let c := rs_peek_next c in
    match rs_nb c with
    | None => rs_response_complete c
    | Some b =>
      if negb (b =? LF)%N || (k_read (c_out c) <=? k_consume (c_out c))%nat then
        match rs_finalize_scan (rs_bytes_fuel c) c with
        | (false, c) => (ST_DATA_BUFFER, c)
        | (true, c) => rs_finalize_tail c
        end
      else rs_finalize_tail c
    end
  else rs_finalize_tail c.

(* ---- htp_connp_RES_IDLE ---- *)
Definition rs_RES_IDLE (c : connp) : st * connp :=
  if negb (rs_has_byte c) then (ST_DATA, c)
  else
    let idx := c_out_next_tx_index c in
    let found := match nth_error (c_txs c) idx with Some (Some _) => true | _ => false end in
    let '(ok, c) :=
      if found then
        let c := c <| c_out_tx := Some (c_txs_shifted c + idx)%nat |> <| c_out_next_tx_index := S idx |> in
        (true, c <| c_out_content_length := -1 |> <| c_out_body_data_left := -1 |>)
      else
        (* "Unable to match response to request" *)
        let c := c <| c_out_tx := None |> in
        (* finalize dangling request waiting for next request or body; return value ignored *)
        let c := if req_state_eqb (c_in_state c) REQ_FINALIZE then
                   match c_in_tx c with
                   | Some i => snd (tx_state_request_complete cb g i c)
                   | None => c
                   end
                 else c in
        match connp_tx_create g c with
        | (None, c) => (false, c)
        | (Some id, c) =>
          let c := c <| c_out_tx := Some id |> in
          let nuri := mkpuri None None None None None (Some rs_str_uri_not_seen) None None (-1) in
          let c := tx_upd c id (fun t => t <| t_parsed_uri := Some nuri |> <| t_request_uri := Some rs_str_uri_not_seen |>) in
          (true, c <| c_in_state := REQ_FINALIZE |> <| c_out_next_tx_index := S idx |>)
        end in
    if ok then tx_state_response_start cb (out_txi c) c else (ST_ERROR, c).

(* connp->out_state(connp) *)
Definition rs_state_fn (s : res_state) (c : connp) : st * connp :=
  match s with
  | RES_IDLE => rs_RES_IDLE c
  | RES_LINE => rs_RES_LINE c
  | RES_HEADERS => rs_RES_HEADERS c
  | RES_BODY_DETERMINE => rs_RES_BODY_DETERMINE c
  | RES_BODY_IDENTITY_CL_KNOWN => rs_RES_BODY_IDENTITY_CL_KNOWN c
  | RES_BODY_IDENTITY_STREAM_CLOSE => rs_RES_BODY_IDENTITY_STREAM_CLOSE c
  | RES_BODY_CHUNKED_LENGTH => rs_RES_BODY_CHUNKED_LENGTH c
  | RES_BODY_CHUNKED_DATA => rs_RES_BODY_CHUNKED_DATA c
  | RES_BODY_CHUNKED_DATA_END => rs_RES_BODY_CHUNKED_DATA_END c
  | RES_FINALIZE => rs_RES_FINALIZE c
  end.

(* ---- htp_connp_res_data ---- *)
Definition rs_set_out_status (s : Z) (c : connp) : connp := c <| c_out_status := s |>.

(* the rc != HTP_OK tail of the loop body: every exit path writes out_status exactly once *)
Definition rs_res_exit (rc : st) (c : connp) : connp * Z :=
  match rc with
  | ST_DATA | ST_DATA_BUFFER =>
    let c := snd (res_receiver_send_data cb false c) in             (* return value ignored *)
    let '(brc, c) := match rc with ST_DATA_BUFFER => rs_res_buffer c | _ => (ST_OK, c) end in
    match brc with
    | ST_OK => (rs_set_out_status c_HTP_STREAM_DATA c, c_HTP_STREAM_DATA)
    | _ => (rs_set_out_status c_HTP_STREAM_ERROR c, c_HTP_STREAM_ERROR)
    end
  | ST_STOP => (rs_set_out_status c_HTP_STREAM_STOP c, c_HTP_STREAM_STOP)
  | ST_DATA_OTHER =>
    if (k_len (c_out c) <=? k_read (c_out c))%nat
    then (rs_set_out_status c_HTP_STREAM_DATA c, c_HTP_STREAM_DATA)
    else (rs_set_out_status c_HTP_STREAM_DATA_OTHER c, c_HTP_STREAM_DATA_OTHER)
  | _ => (rs_set_out_status c_HTP_STREAM_ERROR c, c_HTP_STREAM_ERROR)
  end.

(* the for (;;) loop. is_gap: data == NULL && len > 0 *)
Fixpoint rs_res_loop (fuel : nat) (is_gap : bool) (c : connp) : connp * Z :=
  match fuel with
  | O => (rs_set_out_status c_HTP_STREAM_ERROR (rs_fault c), c_HTP_STREAM_ERROR)
  | S f =>
    let s := c_out_state c in
    let gap_ok := res_state_eqb s RES_BODY_IDENTITY_CL_KNOWN || res_state_eqb s RES_BODY_IDENTITY_STREAM_CLOSE in
    if is_gap && negb gap_ok && negb (res_state_eqb s RES_FINALIZE) then
      (c, c_HTP_STREAM_CLOSED)                                   (* "Gaps are not allowed during this state" *)
    else
      let '(rc, c) := if is_gap && negb gap_ok then rs_response_complete c else rs_state_fn s c in
      match rc with
      | ST_OK =>
        if c_out_status c =? c_HTP_STREAM_TUNNEL then (c, c_HTP_STREAM_TUNNEL)
        else
          match rs_handle_state_change c with
          | (ST_OK, c) => rs_res_loop f is_gap c
          | (rc, c) => rs_res_exit rc c
          end
      | _ => rs_res_exit rc c
      end
  end.

(* bound on the number of state-function calls of one htp_connp_res_data: a call that returns HTP_OK has
   consumed a byte, or is one of a bounded run of zero-width transitions (at most 6 in a row:
   HEADERS -> BODY_DETERMINE -> FINALIZE -> FINALIZE -> IDLE -> LINE); a byte is read at most twice
   (the RES_FINALIZE / chunk-length un-read) *)
Definition rs_res_fuel (len : nat) : nat := (8 * len + 64)%nat.

Definition connp_res_data (data : option bytes) (len : nat) (c : connp) : connp * Z :=
  if c_out_status c =? c_HTP_STREAM_STOP then (c, c_HTP_STREAM_STOP)
  else if c_out_status c =? c_HTP_STREAM_ERROR then (c, c_HTP_STREAM_ERROR)
  else if match c_out_tx c with None => negb (res_state_eqb (c_out_state c) RES_IDLE) | Some _ => false end
  then (rs_set_out_status c_HTP_STREAM_ERROR c, c_HTP_STREAM_ERROR)
  else if (len =? 0)%nat && negb (rs_closed c) then (c, c_HTP_STREAM_CLOSED)
  else
    let c := rs_set_out (fun k => k <| k_data := data |> <| k_len := len |> <| k_read := 0%nat |>
                                    <| k_consume := 0%nat |> <| k_receiver := 0%nat |>) c in
    let c := c <| c_out_data_counter ::= Z.add (Z.of_nat len) |> in
    if c_out_status c =? c_HTP_STREAM_TUNNEL then (c, c_HTP_STREAM_TUNNEL)
    else
      let is_gap := match data with None => (0 <? len)%nat | Some _ => false end in
      rs_res_loop (rs_res_fuel len) is_gap c.

End WithOracle.
