(* htp_decompressors.c + the decompression parts of htp_transaction.c (response side):
   one decompressor layer (htp_gzip_decompressor_decompress incl. passthrough, the NULL end-of-stream call, the
   buffer-full flush, LZMA header accumulation, Z_DATA_ERROR-with-output, Z_STREAM_END, restart + probe, the final
   passthrough fallback, _end, _destroy), the chain (layer i hands its output to layer i+1 while its zlib_initialized
   is non-zero, otherwise to the body callback), the body callback with entity_len / message_len / bomb test / clock
   test, one htp_tx_res_process_body_data_ex call, and the chain construction of htp_tx_state_response_headers.

   EXTERNAL code is not modelled: inflate / inflateInit2_ / inflateEnd / LzmaDec_Allocate / LzmaDec_DecodeToBuf /
   LzmaDec_Free are an abstract oracle (type O, function ask) that is asked one question per call the C makes, in the
   order the C makes them; gettimeofday and the user's body-data hook are functions of their call index. The instance
   used for correspondence (dz_ask_list) answers from the list RECORDED on the real library and notes the first
   question that does not match the recorded call (desync).

   Buffer contract: an answer is clamped to what the C offered (consumed <= avail_in, produced <= avail_out). An
   external function that violates it has written outside the buffers; no statement is made about such runs, and the
   recorded answers never need clamping (the list instance flags it as desync). *)
Require Import Htp.Model.Base Htp.Model.MBstr.
Local Open Scope Z_scope.

(* ------------------------------------------------------------------ configuration, data, answers *)

Record dz_cfg := mk_dz_cfg {
  dc_enabled : bool;        (* response_decompression_enabled *)
  dc_bomb : Z;              (* compression_bomb_limit *)
  dc_layers : Z;            (* response_decompression_layer_limit *)
  dc_lzma_layers : Z;       (* response_lzma_layer_limit *)
  dc_lzma_mem : Z;          (* lzma_memlimit *)
  dc_tlimit : Z;            (* compression_time_limit *)
  dc_fuel : nat;            (* bound on the iterations of one inflate loop (the C loop has none) *)
  dc_clock : nat -> Z * Z;  (* k-th answer of gettimeofday: (tv_sec, tv_usec) *)
  dc_hook : nat -> Z        (* return value of the k-th invocation of the user's RESPONSE_BODY_DATA hook *)
}.

(* htp_tx_data_t as far as it matters: data == NULL or the bytes *)
Record dz_data := mk_dz_data { dd_null : bool; dd_bytes : bytes }.
Definition dz_null : dz_data := mk_dz_data true [].
Definition dz_some (b : bytes) : dz_data := mk_dz_data false b.
Definition dz_len (d : dz_data) : Z := Z.of_nat (length (dd_bytes d)).

Inductive dz_query :=
| QInit (wbits : Z)
| QInflate (input : bytes) (avail_out : nat)
| QEnd
| QLzAlloc
| QLzDecode (input : bytes) (avail_out : nat)
| QLzFree.

Record dz_ans := mk_dz_ans { da_consumed : nat; da_out : bytes; da_rc : Z; da_status : Z }.

Definition dz_BUF : nat := Z.to_nat c_GZIP_BUF_SIZE.

(* ------------------------------------------------------------------ one layer, the world *)

Record dz_layer := mk_dz_layer {
  dz_pass : bool;       (* super.passthrough *)
  dz_restart : nat;     (* restart *)
  dz_zinit : Z;         (* zlib_initialized: 0 or the htp_content_encoding_t value *)
  dz_obuf : bytes;      (* buffer[0 .. GZIP_BUF_SIZE - avail_out) *)
  dz_hlen : Z;          (* header_len *)
  dz_fed : bool         (* GHOST (not in the C): an earlier decompress call on this layer entered the inflate loop with input *)
}.
Definition dz_avail_out (l : dz_layer) : nat := dz_BUF - length (dz_obuf l).

Definition dz_set_pass (l : dz_layer) (b : bool) := mk_dz_layer b (dz_restart l) (dz_zinit l) (dz_obuf l) (dz_hlen l) (dz_fed l).
Definition dz_set_restart (l : dz_layer) (n : nat) := mk_dz_layer (dz_pass l) n (dz_zinit l) (dz_obuf l) (dz_hlen l) (dz_fed l).
Definition dz_set_zinit (l : dz_layer) (z : Z) := mk_dz_layer (dz_pass l) (dz_restart l) z (dz_obuf l) (dz_hlen l) (dz_fed l).
Definition dz_set_obuf (l : dz_layer) (b : bytes) := mk_dz_layer (dz_pass l) (dz_restart l) (dz_zinit l) b (dz_hlen l) (dz_fed l).
Definition dz_set_hlen (l : dz_layer) (h : Z) := mk_dz_layer (dz_pass l) (dz_restart l) (dz_zinit l) (dz_obuf l) h (dz_fed l).
Definition dz_set_fed (l : dz_layer) (b : bool) := mk_dz_layer (dz_pass l) (dz_restart l) (dz_zinit l) (dz_obuf l) (dz_hlen l) b.

Section WithOracle.
Variable OT : Type.
Variable ask : OT -> dz_query -> dz_ans * OT.

Record dz_world := mk_dz_world {
  w_o : OT;                    (* the external world *)
  w_entity : Z;               (* tx->response_entity_len *)
  w_message : Z;              (* tx->response_message_len *)
  w_events : list dz_data;    (* what the user's hook was given, latest first *)
  w_nhook : nat;              (* hook invocations so far *)
  w_nclock : nat;             (* gettimeofday calls so far *)
  w_nbcb : Z;                 (* out_decompressor->nb_callbacks *)
  w_tbefore : Z * Z;          (* out_decompressor->time_before *)
  w_tspent : Z;               (* out_decompressor->time_spent *)
  w_tpass : bool;             (* out_decompressor->passthrough was set by a clock test during the current call *)
  w_trace : bool;             (* htp_verif_trace(3) fired *)
  w_late : bool               (* GHOST: a restart happened on a layer that had consumed input in an earlier call *)
}.
Definition w_set_o w o := mk_dz_world o (w_entity w) (w_message w) (w_events w) (w_nhook w) (w_nclock w) (w_nbcb w) (w_tbefore w) (w_tspent w) (w_tpass w) (w_trace w) (w_late w).
Definition w_set_entity w v := mk_dz_world (w_o w) v (w_message w) (w_events w) (w_nhook w) (w_nclock w) (w_nbcb w) (w_tbefore w) (w_tspent w) (w_tpass w) (w_trace w) (w_late w).
Definition w_set_message w v := mk_dz_world (w_o w) (w_entity w) v (w_events w) (w_nhook w) (w_nclock w) (w_nbcb w) (w_tbefore w) (w_tspent w) (w_tpass w) (w_trace w) (w_late w).
Definition w_push_event w d := mk_dz_world (w_o w) (w_entity w) (w_message w) (d :: w_events w) (S (w_nhook w)) (w_nclock w) (w_nbcb w) (w_tbefore w) (w_tspent w) (w_tpass w) (w_trace w) (w_late w).
Definition w_tick_clock w := mk_dz_world (w_o w) (w_entity w) (w_message w) (w_events w) (w_nhook w) (S (w_nclock w)) (w_nbcb w) (w_tbefore w) (w_tspent w) (w_tpass w) (w_trace w) (w_late w).
Definition w_set_nbcb w v := mk_dz_world (w_o w) (w_entity w) (w_message w) (w_events w) (w_nhook w) (w_nclock w) v (w_tbefore w) (w_tspent w) (w_tpass w) (w_trace w) (w_late w).
Definition w_set_tbefore w v := mk_dz_world (w_o w) (w_entity w) (w_message w) (w_events w) (w_nhook w) (w_nclock w) (w_nbcb w) v (w_tspent w) (w_tpass w) (w_trace w) (w_late w).
Definition w_set_tspent w v := mk_dz_world (w_o w) (w_entity w) (w_message w) (w_events w) (w_nhook w) (w_nclock w) (w_nbcb w) (w_tbefore w) v (w_tpass w) (w_trace w) (w_late w).
Definition w_set_tpass w v := mk_dz_world (w_o w) (w_entity w) (w_message w) (w_events w) (w_nhook w) (w_nclock w) (w_nbcb w) (w_tbefore w) (w_tspent w) v (w_trace w) (w_late w).
Definition w_set_trace w v := mk_dz_world (w_o w) (w_entity w) (w_message w) (w_events w) (w_nhook w) (w_nclock w) (w_nbcb w) (w_tbefore w) (w_tspent w) (w_tpass w) v (w_late w).
Definition w_set_late w v := mk_dz_world (w_o w) (w_entity w) (w_message w) (w_events w) (w_nhook w) (w_nclock w) (w_nbcb w) (w_tbefore w) (w_tspent w) (w_tpass w) (w_trace w) v.

(* one external call; the answer is clamped to the offered buffers *)
Definition dz_ask (w : dz_world) (q : dz_query) : dz_ans * dz_world :=
  let '(a, o) := ask (w_o w) q in
  let a' := match q with
            | QInflate inp ao | QLzDecode inp ao =>
              mk_dz_ans (Nat.min (da_consumed a) (length inp)) (firstn ao (da_out a)) (da_rc a) (da_status a)
            | _ => mk_dz_ans 0 [] (da_rc a) (da_status a)
            end in
  (a', w_set_o w o).

Variable c : dz_cfg.

(* ------------------------------------------------------------------ the clock *)

(* htp_timer_track: None = HTP_ERROR (clock went backwards), Some spent' otherwise. time_spent is an int32_t in C;
   the sum is not reduced here (2^31 us = 35 min of decompression for one message is outside the model). *)
Definition dz_timer_track (spent : Z) (after before : Z * Z) : option Z :=
  let '(asec, ausec) := after in
  let '(bsec, busec) := before in
  if asec <? bsec then None
  else if asec =? bsec then
    if ausec <? busec then None else Some (spent + (ausec - busec))
  else Some (spent + ((asec - bsec) * 1000000 + ausec - busec)).

Definition dz_gettimeofday (w : dz_world) : (Z * Z) * dz_world := (dc_clock c (w_nclock w), w_tick_clock w).

(* ------------------------------------------------------------------ htp_tx_res_process_body_data_decompressor_callback *)

Definition dz_run_hook (d : dz_data) (w : dz_world) : dz_world * Z :=
  (* htp_res_run_hook_body_data: not invoked with an empty non-NULL chunk *)
  if negb (dd_null d) && (dz_len d =? 0) then (w, c_HTP_OK)
  else (w_push_event w d, dc_hook c (w_nhook w)).

(* the clock test made every HTP_COMPRESSION_TIME_FREQ_TEST callbacks *)
Definition dz_cb_clock (w : dz_world) : dz_world :=
  if (w_nbcb w) mod c_HTP_COMPRESSION_TIME_FREQ_TEST =? 0 then
    let '(after, w) := dz_gettimeofday w in
    match dz_timer_track (w_tspent w) after (w_tbefore w) with
    | Some sp =>
      let w := w_set_tbefore (w_set_tspent w sp) after in
      if sp >? dc_tlimit c then w_set_tpass w true else w
    | None => w
    end
  else w.

Definition dz_callback (d : dz_data) (w : dz_world) : dz_world * Z :=
  let w := w_set_entity w (w_entity w + dz_len d) in
  let '(w, rc) := dz_run_hook d w in
  if negb (rc =? c_HTP_OK) then (w, c_HTP_ERROR)
  else
    let w := dz_cb_clock (w_set_nbcb w (w_nbcb w + 1)) in
    if (w_entity w >? dc_bomb c) && (w_entity w >? c_HTP_COMPRESSION_BOMB_RATIO * w_message w)
    then (w, c_HTP_ERROR) else (w, c_HTP_OK).

(* ------------------------------------------------------------------ probe, restart, end *)

Definition dz_nthb (s : bytes) (i : nat) : N := nth i s 0%N.
Fixpoint dz_scan_nul (s : bytes) (i : nat) : nat :=     (* for (len = i; len < data_len && data[len] != 0; len++) *)
  match s with
  | [] => i
  | x :: r => if (x =? 0)%N then i else dz_scan_nul r (S i)
  end.

(* htp_gzip_decompressor_probe *)
Definition dz_probe (data : bytes) : nat :=
  let n := length data in
  if (n <? 4)%nat then O
  else
    let consumed :=
      if (dz_nthb data 0 =? 31)%N && (dz_nthb data 1 =? 139)%N && negb (dz_nthb data 3 =? 0)%N then
        let f := dz_nthb data 3 in
        if N.testbit f 3 || N.testbit f 4 then S (dz_scan_nul (skipn 10 data) 10)
        else if N.testbit f 1 then 12%nat
        else 10%nat
      else O in
    if (n <? consumed)%nat then O else consumed.

(* htp_gzip_decompressor_restart: Some consumed = returned 1 *)
Definition dz_restart_dec (l : dz_layer) (data : bytes) (w : dz_world) : dz_layer * dz_world * option nat :=
  if (dz_restart l <? 3)%nat then
    if (dz_restart l =? 0)%nat then
      let consumed := dz_probe data in
      let '(a, w) := dz_ask w (QInit (if dz_zinit l =? c_dz_COMPRESSION_GZIP then 15 + 32 else -15)) in
      if negb (da_rc a =? c_dz_Z_OK) then (l, w, None)
      else (dz_set_restart l (S (dz_restart l)), w, Some consumed)
    else if dz_zinit l =? c_dz_COMPRESSION_DEFLATE then
      let '(a, w) := dz_ask w (QInit (15 + 32)) in
      if negb (da_rc a =? c_dz_Z_OK) then (l, w, None)
      else
        let l := dz_set_zinit l c_dz_COMPRESSION_GZIP in
        (dz_set_restart l (S (dz_restart l)), w, Some (dz_probe data))
    else if dz_zinit l =? c_dz_COMPRESSION_GZIP then
      let '(a, w) := dz_ask w (QInit (-15)) in
      if negb (da_rc a =? c_dz_Z_OK) then (l, w, None)
      else
        let l := dz_set_zinit l c_dz_COMPRESSION_DEFLATE in
        (dz_set_restart l (S (dz_restart l)), w, Some (dz_probe data))
    else (l, w, None)
  else (l, w, None).

(* htp_gzip_decompressor_end *)
Definition dz_end (l : dz_layer) (w : dz_world) : dz_layer * dz_world :=
  if dz_zinit l =? c_dz_COMPRESSION_LZMA then
    let '(_, w) := dz_ask w QLzFree in (dz_set_zinit l 0, w)
  else if negb (dz_zinit l =? 0) then
    let '(_, w) := dz_ask w QEnd in (dz_set_zinit l 0, w)
  else (l, w).

(* ------------------------------------------------------------------ htp_gzip_decompressor_decompress, one layer *)

Definition dz_next_t := list dz_layer -> dz_data -> dz_world -> list dz_layer * dz_world * Z.
Section Layer.
Variable next : dz_next_t.   (* htp_gzip_decompressor_decompress(drec->super.next, .) on the rest of the chain *)

(* "if (drec->super.next != NULL && drec->zlib_initialized) next->decompress(d2) else drec->super.callback(d2)" *)
Definition dz_deliver (l : dz_layer) (rest : list dz_layer) (d : dz_data) (w : dz_world) : list dz_layer * dz_world * Z :=
  match rest with
  | _ :: _ => if negb (dz_zinit l =? 0) then next rest d w
              else let '(w, rc) := dz_callback d w in (rest, w, rc)
  | [] => let '(w, rc) := dz_callback d w in (rest, w, rc)
  end.

Inductive dz_step :=
| DzRet (l : dz_layer) (rest : list dz_layer) (w : dz_world) (rc : Z)
| DzCont (l : dz_layer) (rest : list dz_layer) (w : dz_world) (input : bytes) (rc : Z)
| DzRestart (l : dz_layer) (rest : list dz_layer) (w : dz_world) (consumed : nat) (rc : Z).

(* "if (drec->stream.avail_out == 0) { flush }": None = continue with the (possibly emptied) buffer *)
Definition dz_flush_full (l : dz_layer) (rest : list dz_layer) (w : dz_world)
  : (dz_layer * list dz_layer * dz_world) + (dz_layer * list dz_layer * dz_world * Z) :=
  if (dz_avail_out l =? 0)%nat then
    let '(rest, w, crc) := dz_deliver l rest (dz_some (dz_obuf l)) w in
    if negb (crc =? c_HTP_OK) then
      let '(l, w) := dz_end l w in
      inr (dz_set_obuf l [], rest, w, crc)
    else inl (dz_set_obuf l [], rest, w)
  else inl (l, rest, w).

(* LZMA header accumulation: next_in / avail_in are recomputed from d->data, not from next_in *)
Definition dz_lz_header (d : dz_data) (l : dz_layer) (input : bytes) : dz_layer * bytes :=
  if dz_hlen l <? c_dz_LZMA_HEADER_SIZE then
    let want := Z.to_nat (c_dz_LZMA_HEADER_SIZE - dz_hlen l) in
    let take := if (length input <? want)%nat then length input else want in
    (dz_set_hlen l (dz_hlen l + Z.of_nat take), skipn take (dd_bytes d))
  else (l, input).

(* the external decoding step: Some (l, w, input', rc) or None = "return" with the given code *)
Definition dz_decode (d : dz_data) (l : dz_layer) (w : dz_world) (input : bytes) (rc : Z)
  : (dz_layer * dz_world * bytes * Z) + (dz_layer * dz_world * Z) :=
  if dz_zinit l =? c_dz_COMPRESSION_LZMA then
    let '(l, input) := dz_lz_header d l input in
    let step1 :=
      if dz_hlen l =? c_dz_LZMA_HEADER_SIZE then
        let '(a, w) := dz_ask w QLzAlloc in
        if negb (da_rc a =? c_dz_SZ_OK) then inr (l, w, da_rc a)
        else inl (dz_set_hlen l (dz_hlen l + 1), w)
      else inl (l, w) in
    match step1 with
    | inr r => inr r
    | inl (l, w) =>
      if dz_hlen l >? c_dz_LZMA_HEADER_SIZE then
        let '(a, w) := dz_ask w (QLzDecode input (dz_avail_out l)) in
        let l := dz_set_obuf l (dz_obuf l ++ da_out a) in
        let input := skipn (da_consumed a) input in
        let rc := if da_rc a =? c_dz_SZ_OK
                  then (if da_status a =? c_dz_LZMA_STATUS_FINISHED_WITH_MARK then c_dz_Z_STREAM_END else c_dz_Z_OK)
                  else c_dz_Z_DATA_ERROR in
        inl (l, w, input, rc)
      else inl (l, w, input, rc)
    end
  else if negb (dz_zinit l =? 0) then
    let '(a, w) := dz_ask w (QInflate input (dz_avail_out l)) in
    inl (dz_set_obuf l (dz_obuf l ++ da_out a), w, skipn (da_consumed a) input, da_rc a)
  else inr (l, w, c_HTP_ERROR).      (* no initialization means previous error on stream *)

(* "inflate failed": LzmaDec_Free + zlib_initialized = NONE ("so as to clean zlib ressources after restart"), or inflateEnd *)
Definition dz_fail_end (l : dz_layer) (w : dz_world) : dz_layer * dz_world :=
  if dz_zinit l =? c_dz_COMPRESSION_LZMA then
    let '(_, w) := dz_ask w QLzFree in (dz_set_zinit l c_dz_COMPRESSION_NONE, w)
  else
    let '(_, w) := dz_ask w QEnd in (l, w).

(* what follows the decoding step in the loop body *)
Definition dz_after (d : dz_data) (l : dz_layer) (rest : list dz_layer) (w : dz_world) (input : bytes) (rc : Z) : dz_step :=
  let rc := if (dz_avail_out l <? dz_BUF)%nat && (rc =? c_dz_Z_DATA_ERROR) then c_dz_Z_STREAM_END else rc in
  if rc =? c_dz_Z_STREAM_END then
    let '(rest, w, crc) := dz_deliver l rest (dz_some (dz_obuf l)) w in
    if negb (crc =? c_HTP_OK) then
      let '(l, w) := dz_end l w in
      DzRet (dz_set_obuf l []) rest w crc
    else DzRet (dz_set_obuf l []) rest w c_HTP_OK
  else if negb (rc =? c_dz_Z_OK) then
    let '(l, w) := dz_fail_end l w in
    let w := if dz_fed l then w_set_late w true else w in
    match dz_restart_dec l (dd_bytes d) w with
    | (l, w, Some consumed) => DzRestart l rest (w_set_trace w true) consumed rc
    | (l, w, None) =>
      let l := dz_set_zinit l 0 in
      (* all inflate attempts have failed: pass the raw data on to THIS layer's callback *)
      let '(w, crc) := dz_callback d w in
      if negb (crc =? c_HTP_OK) then DzRet l rest w c_HTP_ERROR
      else DzRet (dz_set_pass (dz_set_obuf l []) true) rest w c_HTP_OK
    end
  else DzCont l rest w input rc.

Definition dz_iter (d : dz_data) (l : dz_layer) (rest : list dz_layer) (w : dz_world) (input : bytes) (rc : Z) : dz_step :=
  match dz_flush_full l rest w with
  | inr (l, rest, w, crc) => DzRet l rest w crc
  | inl (l, rest, w) =>
    match dz_decode d l w input rc with
    | inr (l, w, r) => DzRet l rest w r
    | inl (l, w, input, rc) => dz_after d l rest w input rc
    end
  end.

(* "restart: if (consumed > d->len || d->len > UINT32_MAX) return HTP_ERROR; next_in = data + consumed; while (avail_in != 0) ..." *)
Definition dz_enter (d : dz_data) (consumed : nat) : option bytes :=
  if (length (dd_bytes d) <? consumed)%nat || (dz_len d >? c_dz_UINT32_MAX) then None
  else Some (skipn consumed (dd_bytes d)).

Fixpoint dz_loop (fuel : nat) (d : dz_data) (l : dz_layer) (rest : list dz_layer) (w : dz_world) (input : bytes) (rc : Z)
  : dz_layer * list dz_layer * dz_world * Z :=
  match fuel with
  | O => (l, rest, w, c_HTP_ERROR)          (* out of fuel: the C would still be looping *)
  | S f =>
    match input with
    | [] => (l, rest, w, c_HTP_OK)
    | _ :: _ =>
      match dz_iter d l rest w input rc with
      | DzRet l rest w r => (l, rest, w, r)
      | DzCont l rest w input rc => dz_loop f d l rest w input rc
      | DzRestart l rest w consumed rc =>
        match dz_enter d consumed with
        | None => (l, rest, w, c_HTP_ERROR)
        | Some input => dz_loop f d l rest w input rc
        end
      end
    end
  end.

Definition dz_layer_run (l : dz_layer) (rest : list dz_layer) (d : dz_data) (w : dz_world) : list dz_layer * dz_world * Z :=
  if dz_pass l then
    let '(w, crc) := dz_callback d w in
    (l :: rest, w, if negb (crc =? c_HTP_OK) then c_HTP_ERROR else c_HTP_OK)
  else if dd_null d then
    (* last call: output what has been decompressed so far; data = NULL when there is nothing *)
    let dout := match dz_obuf l with [] => dz_null | _ :: _ => dz_some (dz_obuf l) end in
    match rest with
    | _ :: _ =>
      if negb (dz_zinit l =? 0) then
        let '(rest, w, r) := next rest dout w in (l :: rest, w, r)
      else
        let '(w, crc) := dz_callback dout w in
        if negb (crc =? c_HTP_OK) then let '(l, w) := dz_end l w in (l :: rest, w, crc) else (l :: rest, w, c_HTP_OK)
    | [] =>
      let '(w, crc) := dz_callback dout w in
      if negb (crc =? c_HTP_OK) then let '(l, w) := dz_end l w in (l :: rest, w, crc) else (l :: rest, w, c_HTP_OK)
    end
  else
    match dz_enter d 0 with
    | None => (l :: rest, w, c_HTP_ERROR)
    | Some input =>
      let '(l, rest, w, r) := dz_loop (dc_fuel c) d l rest w input 0 in
      let l := match dd_bytes d with [] => l | _ :: _ => dz_set_fed l true end in
      (l :: rest, w, r)
    end.

End Layer.

(* the chain: depth n = number of layers *)
Fixpoint dz_decompress (n : nat) (ls : list dz_layer) (d : dz_data) (w : dz_world) : list dz_layer * dz_world * Z :=
  match n with
  | O => (ls, w, c_HTP_ERROR)
  | S n' =>
    match ls with
    | [] => (ls, w, c_HTP_ERROR)
    | l :: rest => dz_layer_run (dz_decompress n') l rest d w
    end
  end.

(* ------------------------------------------------------------------ creation, destruction *)

(* htp_gzip_decompressor_create: None = NULL *)
Definition dz_create (fmt : Z) (w : dz_world) : option dz_layer * dz_world :=
  let fresh p := mk_dz_layer p 0 fmt [] 0 false in
  if fmt =? c_dz_COMPRESSION_LZMA then
    if (dc_lzma_mem c >? 0) && (dc_lzma_layers c >? 0) then (Some (fresh false), w)
    else (Some (fresh true), w)                       (* "LZMA decompression disabled" *)
  else if fmt =? c_dz_COMPRESSION_DEFLATE then
    let '(a, w) := dz_ask w (QInit (-15)) in
    if negb (da_rc a =? c_dz_Z_OK) then let '(_, w) := dz_ask w QEnd in (None, w) else (Some (fresh false), w)
  else if fmt =? c_dz_COMPRESSION_GZIP then
    let '(a, w) := dz_ask w (QInit (15 + 32)) in
    if negb (da_rc a =? c_dz_Z_OK) then let '(_, w) := dz_ask w QEnd in (None, w) else (Some (fresh false), w)
  else (None, w).

(* htp_tx_res_destroy_decompressors: htp_gzip_decompressor_destroy on every layer *)
Fixpoint dz_destroy (ls : list dz_layer) (w : dz_world) : dz_world :=
  match ls with
  | [] => w
  | l :: r => let '(_, w) := dz_end l w in dz_destroy r w
  end.

(* ------------------------------------------------------------------ htp_tx_state_response_headers: the chain *)

Definition dz_str (s : list nat) : bytes := map N.of_nat s.
Definition s_gzip := dz_str [103;122;105;112]%nat.
Definition s_xgzip := dz_str [120;45;103;122;105;112]%nat.
Definition s_deflate := dz_str [100;101;102;108;97;116;101]%nat.
Definition s_xdeflate := dz_str [120;45;100;101;102;108;97;116;101]%nat.
Definition s_lzma := dz_str [108;122;109;97]%nat.
Definition s_inflate := dz_str [105;110;102;108;97;116;101]%nat.
Definition s_none := dz_str [110;111;110;101]%nat.

Definition dz_is_sep (b : N) : bool := (b =? 44)%N || (b =? 32)%N.       (* ", " *)
Fixpoint dz_take_tok (s : bytes) : bytes :=
  match s with [] => [] | x :: r => if dz_is_sep x then [] else x :: dz_take_tok r end.
(* get_token: None = returned 0 *)
Definition dz_get_token (inp : bytes) : option bytes :=
  match drop_while dz_is_sep inp with
  | [] => None
  | s => Some (dz_take_tok s)
  end.
(* the same with tok - input, the number of separator bytes skipped in front of the token *)
Definition dz_get_token_at (inp : bytes) : option (nat * bytes) :=
  match drop_while dz_is_sep inp with
  | [] => None
  | s => Some ((length inp - length s)%nat, dz_take_tok s)
  end.

Record dz_tx := mk_dz_tx {
  tx_chain : list dz_layer;     (* connp->out_decompressor, [] = NULL *)
  tx_cep : Z;                   (* tx->response_content_encoding_processing *)
  tx_w : dz_world;
  tx_err : bool                 (* htp_tx_state_response_headers returned HTP_ERROR *)
}.

(* the token loop of the "multiple ce value case"; fuel = length of the value (each round drops (tok - input) + tok_len + 1 >= 1 bytes) *)
Fixpoint dz_tokens (fuel : nat) (input : bytes) (layers nblzma : Z) (chain : list dz_layer) (cep : Z) (w : dz_world) : dz_tx :=
  match fuel with
  | O => mk_dz_tx chain cep w false
  | S f =>
    match input with
    | [] => mk_dz_tx chain cep w false
    | _ :: _ =>
      match dz_get_token_at input with
      | None => mk_dz_tx chain cep w false
      | Some (skipped, tok) =>
        let layers' := layers + 1 in
        if negb (dc_layers c =? 0) && (layers' >? dc_layers c) then mk_dz_tx chain cep w false
        else
          let layers := if negb (dc_layers c =? 0) then layers' else layers in   (* ++layers sits behind the && *)
          let nblzma := nblzma + 1 in
          let '(cetype, stop) :=
            if negb (index_of_mem_nocase tok s_gzip =? -1) then (c_dz_COMPRESSION_GZIP, false)
            else if negb (index_of_mem_nocase tok s_deflate =? -1) then (c_dz_COMPRESSION_DEFLATE, false)
            else if cmp_mem tok s_lzma =? 0 then (c_dz_COMPRESSION_LZMA, nblzma >? dc_lzma_layers c)
            else (c_dz_COMPRESSION_NONE, false) in
          if stop then mk_dz_tx chain cep w false
          else
            let next_round chain cep w :=
              let adv := (skipped + length tok + 1)%nat in      (* used = (tok - input) + tok_len + 1 *)
              if (length input <=? adv)%nat then mk_dz_tx chain cep w false
              else dz_tokens f (skipn adv input) layers nblzma chain cep w in
            if negb (cetype =? c_dz_COMPRESSION_NONE) then
              match chain with
              | [] =>
                match dz_create cetype w with
                | (None, w) => mk_dz_tx [] cetype w true
                | (Some l, w) => next_round [l] cetype w
                end
              | _ :: _ =>
                match dz_create cetype w with
                | (None, w) => mk_dz_tx chain cep w true
                | (Some l, w) => next_round (chain ++ [l]) cep w
                end
              end
            else next_round chain cep w
      end
    end
  end.

(* htp_tx_state_response_headers, decompression part. ce = the Content-Encoding value (None: no such header) *)
Definition dz_response_headers (ce : option bytes) (w : dz_world) : dz_tx :=
  let '(coding, multi) :=
    match ce with
    | None => (c_dz_COMPRESSION_NONE, false)
    | Some v =>
      if (cmp_mem_nocasenorzero v s_gzip =? 0) || (cmp_mem_nocasenorzero v s_xgzip =? 0) then (c_dz_COMPRESSION_GZIP, false)
      else if (cmp_mem_nocasenorzero v s_deflate =? 0) || (cmp_mem_nocasenorzero v s_xdeflate =? 0) then (c_dz_COMPRESSION_DEFLATE, false)
      else if cmp_mem_nocasenorzero v s_lzma =? 0 then (c_dz_COMPRESSION_LZMA, false)
      else if cmp_mem_nocasenorzero v s_inflate =? 0 then (c_dz_COMPRESSION_NONE, false)
      else (c_dz_COMPRESSION_NONE, true)
    end in
  let '(cep, multi) := if dc_enabled c then (coding, multi) else (c_dz_COMPRESSION_NONE, false) in
  if (cep =? c_dz_COMPRESSION_GZIP) || (cep =? c_dz_COMPRESSION_DEFLATE) || (cep =? c_dz_COMPRESSION_LZMA) || multi then
    if negb multi then
      match dz_create cep w with
      | (None, w) => mk_dz_tx [] cep w true
      | (Some l, w) => mk_dz_tx [l] cep w false
      end
    else
      match ce with
      | Some v => dz_tokens (length v) v 0 0 [] cep w
      | None => mk_dz_tx [] cep w false
      end
  else mk_dz_tx [] cep w false.      (* cep = NONE here *)

(* ------------------------------------------------------------------ htp_tx_res_process_body_data_ex *)

Definition dz_is_coded (cep : Z) : bool :=
  (cep =? c_dz_COMPRESSION_GZIP) || (cep =? c_dz_COMPRESSION_DEFLATE) || (cep =? c_dz_COMPRESSION_LZMA).

Definition dz_data_of (data : option bytes) : dz_data := match data with None => dz_null | Some b => dz_some b end.

(* extra: what other code (the chunked-framing parser) has added to response_message_len since the previous call *)
Definition dz_process_body_data (t : dz_tx) (extra : Z) (data : option bytes) : dz_tx * Z :=
  let d := dz_data_of data in
  let w := tx_w t in
  let w := w_set_message w (w_message w + extra + dz_len d) in
  if dz_is_coded (tx_cep t) then
    match tx_chain t with
    | [] => (mk_dz_tx [] (tx_cep t) w (tx_err t), c_HTP_ERROR)
    | _ :: _ =>
      let '(before, w) := dz_gettimeofday w in
      let w := w_set_nbcb (w_set_tbefore w before) 0 in
      let '(chain, w, _) := dz_decompress (length (tx_chain t)) (tx_chain t) d w in   (* the return value is ignored *)
      let '(after, w) := dz_gettimeofday w in
      let w := match dz_timer_track (w_tspent w) after (w_tbefore w) with
               | Some sp => let w := w_set_tspent w sp in if sp >? dc_tlimit c then w_set_tpass w true else w
               | None => w
               end in
      (* out_decompressor->passthrough = 1 set by a clock test takes effect from the next call on *)
      let chain := match chain with
                   | l :: r => (if w_tpass w then dz_set_pass l true else l) :: r
                   | [] => []
                   end in
      let w := w_set_tpass w false in
      match data with
      | None => (mk_dz_tx [] (tx_cep t) (dz_destroy chain w) (tx_err t), c_HTP_OK)
      | Some _ => (mk_dz_tx chain (tx_cep t) w (tx_err t), c_HTP_OK)
      end
    end
  else if tx_cep t =? c_dz_COMPRESSION_NONE then
    let w := w_set_entity w (w_entity w + dz_len d) in
    let '(w, rc) := dz_run_hook d w in
    (mk_dz_tx (tx_chain t) (tx_cep t) w (tx_err t), if negb (rc =? c_HTP_OK) then c_HTP_ERROR else c_HTP_OK)
  else (mk_dz_tx (tx_chain t) (tx_cep t) w (tx_err t), c_HTP_ERROR).

Fixpoint dz_calls (t : dz_tx) (calls : list (Z * option bytes)) : dz_tx :=
  match calls with
  | [] => t
  | (extra, d) :: r => dz_calls (fst (dz_process_body_data t extra d)) r
  end.

Definition dz_world0 (o : OT) : dz_world := mk_dz_world o 0 0 [] 0 0 0 (0, 0) 0 false false false.

(* one message: headers (chain construction), the body calls, connection teardown (destroys what is left of the chain) *)
Definition dz_run (ce : option bytes) (calls : list (Z * option bytes)) (o : OT) : dz_tx * nat :=
  let t0 := dz_response_headers ce (dz_world0 o) in
  let t := dz_calls t0 calls in
  (mk_dz_tx [] (tx_cep t) (dz_destroy (tx_chain t) (tx_w t)) (tx_err t), length (tx_chain t0)).

End WithOracle.

(* ------------------------------------------------------------------ the recorded-answer instance *)

(* one recorded external call of the real library, in call order (harness/drv/drv_decomp.h) *)
Inductive dz_rec :=
| RInit (wbits rc : Z)
| RInflate (ain aout : Z) (peek : bytes) (consumed : nat) (rc : Z) (out : bytes)
| REnd
| RAlloc (rc : Z)
| RDecode (ain aout : Z) (peek : bytes) (consumed : nat) (rc status : Z) (out : bytes)
| RFree.

Record dz_lo := mk_dz_lo {
  lo_rest : list dz_rec;        (* answers not yet consumed *)
  lo_asked : nat;               (* questions asked so far *)
  lo_desync : option nat        (* index of the first question that did not match the recorded call *)
}.
Definition dz_PEEK : nat := 4.

Definition dz_bytes_eqb (a b : bytes) : bool := cmp_mem a b =? 0.
Definition lo_flag (o : dz_lo) (ok : bool) (rest : list dz_rec) : dz_lo :=
  mk_dz_lo rest (S (lo_asked o))
           (match lo_desync o with Some i => Some i | None => if ok then None else Some (lo_asked o) end).
Definition dz_default_ans : dz_ans := mk_dz_ans 0 [] c_dz_Z_STREAM_ERROR 0.

Definition dz_ask_list (o : dz_lo) (q : dz_query) : dz_ans * dz_lo :=
  match lo_rest o with
  | [] => (dz_default_ans, lo_flag o false [])
  | r :: rest =>
    match q, r with
    | QInit wb, RInit wb' rc => (mk_dz_ans 0 [] rc 0, lo_flag o (wb =? wb') rest)
    | QInflate inp ao, RInflate ain aout peek consumed rc out =>
      (mk_dz_ans consumed out rc 0,
       lo_flag o ((ain =? Z.of_nat (length inp)) && (aout =? Z.of_nat ao) && dz_bytes_eqb peek (firstn dz_PEEK inp)
                  && (consumed <=? length inp)%nat && (length out <=? ao)%nat) rest)
    | QEnd, REnd => (mk_dz_ans 0 [] 0 0, lo_flag o true rest)
    | QLzAlloc, RAlloc rc => (mk_dz_ans 0 [] rc 0, lo_flag o true rest)
    | QLzDecode inp ao, RDecode ain aout peek consumed rc st out =>
      (mk_dz_ans consumed out rc st,
       lo_flag o ((ain =? Z.of_nat (length inp)) && (aout =? Z.of_nat ao) && dz_bytes_eqb peek (firstn dz_PEEK inp)
                  && (consumed <=? length inp)%nat && (length out <=? ao)%nat) rest)
    | QLzFree, RFree => (mk_dz_ans 0 [] 0 0, lo_flag o true rest)
    | _, _ => (dz_default_ans, lo_flag o false (r :: rest))     (* another call was recorded here: keep it *)
    end
  end.

(* what a run shows: compared field by field with the library's result line *)
Record dz_obs := mk_dz_obs {
  ob_events : list dz_data;      (* body-data hook invocations, in order *)
  ob_entity : Z;
  ob_message : Z;
  ob_layers : nat;               (* decompressors in the chain after the headers *)
  ob_cep : Z;
  ob_trace : bool;
  ob_late : bool;
  ob_left : nat;                 (* recorded answers the model did not ask for *)
  ob_desync : option nat;
  ob_nclock : nat;
  ob_err : bool
}.

Definition dz_observe (c : dz_cfg) (ce : option bytes) (calls : list (Z * option bytes)) (recs : list dz_rec) : dz_obs :=
  let '(t, layers) := dz_run dz_lo dz_ask_list c ce calls (mk_dz_lo recs 0 None) in
  let w := tx_w dz_lo t in
  mk_dz_obs (rev (w_events dz_lo w)) (w_entity dz_lo w) (w_message dz_lo w) layers (tx_cep dz_lo t) (w_trace dz_lo w) (w_late dz_lo w)
            (length (lo_rest (w_o dz_lo w))) (lo_desync (w_o dz_lo w)) (w_nclock dz_lo w) (tx_err dz_lo t).

(* all delivered bytes, in order *)
Definition dz_delivered (ob : dz_obs) : bytes := concat (map dd_bytes (ob_events ob)).

(* executable premise used by the check (finding F21): some decoder call consumed all it was offered AND filled the output
   buffer while reporting Z_OK -- output may still be pending inside the decoder, and only a later call can fetch it *)
Definition dz_tail_risk (recs : list dz_rec) : bool :=
  existsb (fun r => match r with
                    | RInflate ain aout _ cn rc out => (rc =? c_dz_Z_OK) && (Z.of_nat cn =? ain) && (Z.of_nat (length out) =? aout)
                    | RDecode ain aout _ cn rc _ out => (rc =? c_dz_SZ_OK) && (Z.of_nat cn =? ain) && (Z.of_nat (length out) =? aout)
                    | _ => false
                    end) recs.
