(* Pure helpers of the request direction: htp_util.c (htp_chomp, htp_is_line_*, htp_connp_is_line_*,
   htp_convert_method_to_number, htp_header_has_token, htp_parse_ct_header, htp_validate_hostname,
   htp_parse_header_hostport) and htp_request_generic.c (request line, one header line, header
   bookkeeping). Code-shaped: the (data,len,pos) scans are index loops with the C guards; a read
   is `nth i d 0` and every read sits behind the same `pos < len` test as in the C. *)
Require Import Htp.Model.MConnTypes Htp.Model.MBstr Htp.Model.MUri.
Local Open Scope Z_scope.

(* ---- index scans ---- *)
Definition rq_at (d : bytes) (i : nat) : N := nth i d 0%N.

(* while ((pos < len) && p(data[pos])) pos++;   s = data + pos, n = len - pos (len <= |data| at every call site) *)
Fixpoint rq_fwd (p : N -> bool) (s : bytes) (n pos : nat) : nat :=
  match n, s with
  | S n', x :: r => if p x then rq_fwd p r n' (S pos) else pos
  | _, _ => pos
  end.
Definition rq_fwd_while (p : N -> bool) (d : bytes) (pos len : nat) : nat := rq_fwd p (skipn pos d) (len - pos) pos.

(* while ((pos > start) && p(data[pos])) pos--;   n = pos - start *)
Fixpoint rq_bwd (p : N -> bool) (d : bytes) (n pos : nat) : nat :=
  match n with
  | O => pos
  | S n' => if p (rq_at d pos) then rq_bwd p d n' (pos - 1) else pos
  end.
Definition rq_bwd_while (p : N -> bool) (d : bytes) (pos start : nat) : nat := rq_bwd p d (pos - start) pos.

(* data[from .. to) *)
Definition rq_sub (d : bytes) (from to : nat) : bytes := firstn (to - from) (skipn from d).

(* ---- htp_chomp: removes every trailing LF / CR LF / CR, repeatedly ---- *)
Fixpoint rq_chomp_rev (r : bytes) : bytes :=
  match r with
  | [] => []
  | x :: r1 =>
    if (x =? LF)%N then
      match r1 with
      | [] => []                                           (* if ( *len == 0) return r; *)
      | y :: r2 => if (y =? CR)%N then rq_chomp_rev r2 else rq_chomp_rev r1
      end
    else if (x =? CR)%N then rq_chomp_rev r1
    else r
  end.
(* rev_append _ [] is List.rev (List.rev_alt) computed in linear time: header lines can be 100 KB long *)
Definition htp_chomp (s : bytes) : bytes := rev_append (rq_chomp_rev (rev_append s [])) [].

(* ---- line classification ---- *)
Definition htp_is_line_empty (d : bytes) : bool :=
  match d with
  | [a] => (a =? CR)%N || (a =? LF)%N
  | [a; b] => (a =? CR)%N && (b =? LF)%N
  | _ => false
  end.
Definition htp_is_line_whitespace (d : bytes) : bool := forallb c_isspace d.

(* htp_connp_is_line_terminator(connp, data, len, next_no_lf) *)
Definition htp_is_line_terminator (personality : Z) (d : bytes) (next_no_lf : bool) : bool :=
  if (personality =? c_HTP_SERVER_IIS_5_1) && htp_is_line_whitespace d then true
  else if htp_is_line_empty d then true
  else match d with
       | [a; b] => if htp_is_lws a && (b =? LF)%N then next_no_lf else false
       | _ => false
       end.
Definition htp_is_line_ignorable (personality : Z) (d : bytes) : bool := htp_is_line_terminator personality d false.

(* htp_connp_is_line_folded: -1 for an empty line, else htp_is_folding_char(data[0]) *)
Definition htp_is_line_folded (d : bytes) : Z :=
  match d with
  | [] => -1
  | a :: _ => if htp_is_folding_char a then 1 else 0
  end.

(* ---- htp_convert_method_to_number: a chain of exact comparisons (bstr_cmp_c) ---- *)
Fixpoint rq_bytes_eqb (a b : bytes) : bool :=
  match a, b with
  | [], [] => true
  | x :: a', y :: b' => (x =? y)%N && rq_bytes_eqb a' b'
  | _, _ => false
  end.
Fixpoint rq_method_lookup (t : list (bytes * Z)) (m : bytes) : Z :=
  match t with
  | [] => c_HTP_M_UNKNOWN
  | (name, num) :: r => if rq_bytes_eqb m name then num else rq_method_lookup r m
  end.
Definition htp_convert_method_to_number (m : bytes) : Z := rq_method_lookup t_methods m.

(* ---- htp_parse_request_line_generic_ex ---- *)
Definition rq_is_sp (b : N) : bool := (b =? SP)%N.
Definition rq_not (p : N -> bool) (b : N) : bool := negb (p b).

(* while ((pos > start) && (data[pos] != 0x20)) { if (!bad_delim && htp_is_space(data[pos])) bad_delim++; pos--; } *)
Fixpoint rq_bwd_uri (d : bytes) (n pos : nat) (bad : bool) : nat * bool :=
  match n with
  | O => (pos, bad)
  | S n' => if rq_is_sp (rq_at d pos) then (pos, bad)
            else rq_bwd_uri d n' (pos - 1) (bad || htp_is_space (rq_at d pos))
  end.
(* while ((pos < len) && (data[pos] != 0x20)) { if (!bad_delim && htp_is_space(data[pos])) bad_delim++; pos++; } *)
Fixpoint rq_fwd_uri (d : bytes) (n pos : nat) (bad : bool) : nat * bool :=
  match n with
  | O => (pos, bad)
  | S n' => if rq_is_sp (rq_at d pos) then (pos, bad)
            else rq_fwd_uri d n' (S pos) (bad || htp_is_space (rq_at d pos))
  end.

(* end of the URI: position `pos` with start <= pos <= len *)
Definition rq_uri_end (allow_space_uri : bool) (d : bytes) (start len : nat) : nat :=
  if allow_space_uri then
    let pos := (len - 1)%nat in
    let pos := rq_bwd_while htp_is_space d pos start in
    let '(pos, bad) := rq_bwd_uri d (pos - start) pos false in
    let '(pos, bad) :=
      if bad && (pos =? start)%nat then (rq_bwd_while (rq_not htp_is_space) d (len - 1) start, bad)
      else (pos, existsb (fun b => negb (b =? SP)%N && htp_is_space b) (rq_sub d start pos)) in
    if bad then pos else if (pos =? start)%nat then len else pos
  else
    let '(pos, bad) := rq_fwd_uri d (len - start) start false in
    if bad && (pos =? len)%nat then rq_fwd_while (rq_not htp_is_space) d start len else pos.

(* the fields the parser writes *)
Record rq_line := mk_rq_line {
  rl_method : bytes; rl_method_number : Z; rl_uri : option bytes; rl_protocol : option bytes;
  rl_protocol_number : option Z;      (* None = left as it was (HTP_PROTOCOL_UNKNOWN from tx_create) *)
  rl_is_0_9 : bool;
  rl_leading_ws : bool                (* leading whitespace seen (pos != 0 after the first scan) *)
}.

Definition rq_parse_request_line (nul_terminates allow_space_uri ws_unwanted : bool) (line : bytes) : rq_line :=
  let d := line in
  let len := if nul_terminates then rq_fwd_while (fun b => negb (b =? 0)%N) d 0 (length d) else length d in
  (* skip past leading whitespace *)
  let pos := rq_fwd_while htp_is_space d 0 len in
  let lead := negb (pos =? 0)%nat in
  let mstart := if lead then (if ws_unwanted then 0%nat else pos) else 0%nat in
  let pos := rq_fwd_while (rq_not htp_is_space) d pos len in
  let method := rq_sub d mstart pos in
  let mnum := htp_convert_method_to_number method in
  (* whitespace after the method: isspace(), not htp_is_space() *)
  let pos := rq_fwd_while c_isspace d pos len in
  if (pos =? len)%nat then mk_rq_line method mnum None None (Some c_HTP_PROTOCOL_0_9) true lead
  else
    let start := pos in
    let pos := rq_uri_end allow_space_uri d start len in
    let uri := rq_sub d start pos in
    let pos := rq_fwd_while htp_is_space d pos len in
    if (pos =? len)%nat then mk_rq_line method mnum (Some uri) None (Some c_HTP_PROTOCOL_0_9) true lead
    else
      let proto := rq_sub d pos len in
      mk_rq_line method mnum (Some uri) (Some proto) (Some (parse_protocol proto)) false lead.

(* applied to the transaction: connp->cfg->parse_request_line(connp) *)
Definition htp_parse_request_line (g : cfg) (t : tx) : tx :=
  let line := match t_request_line t with Some l => l | None => [] end in
  let unwanted := negb (g_leading_ws_unwanted g =? c_HTP_UNWANTED_IGNORE) in
  let r := rq_parse_request_line (g_nul_terminates_line g) (g_allow_space_uri g) unwanted line in
  let t := if rl_leading_ws r && unwanted then t <| t_response_status_expected_number := g_leading_ws_unwanted g |> else t in
  let t := t <| t_request_method := Some (rl_method r) |> <| t_request_method_number := rl_method_number r |> in
  let t := match rl_uri r with Some u => t <| t_request_uri := Some u |> | None => t end in
  let t := match rl_protocol r with Some p => t <| t_request_protocol := Some p |> | None => t end in
  let t := match rl_protocol_number r with Some n => t <| t_request_protocol_number := n |> | None => t end in
  if rl_is_0_9 r then t <| t_is_protocol_0_9 := true |> else t.

(* ---- htp_parse_request_header_generic: (header, bits to OR into tx->flags) ---- *)
(* while ((prev > name_start) && htp_is_lws(data[prev - 1])) { prev--; name_end--; flag } *)
Fixpoint rq_name_end (d : bytes) (n : nat) : nat :=
  match n with
  | O => O
  | S n' => if htp_is_lws (rq_at d n') then rq_name_end d n' else n
  end.
(* prev = value_end - 1; while ((prev > value_start) && htp_is_lws(data[prev])) { prev--; value_end--; } *)
Fixpoint rq_value_end (d : bytes) (n value_end value_start : nat) : nat :=
  match n with
  | O => value_end
  | S n' => if ((value_start <? value_end - 1)%nat && htp_is_lws (rq_at d (value_end - 1)))
            then rq_value_end d n' (value_end - 1) value_start else value_end
  end.

Definition htp_parse_request_header_generic (line : bytes) : header * N :=
  let d := htp_chomp line in
  let len := length d in
  let colon_pos := rq_fwd_while (fun b => negb (b =? 0)%N && negb (b =? 58)%N) d 0 len in
  if (colon_pos =? len)%nat || (rq_at d colon_pos =? 0)%N then
    (* missing colon: empty name, the whole line is the value *)
    (mkhdr [] d c_HTP_FIELD_UNPARSEABLE, c_HTP_FIELD_UNPARSEABLE)
  else
    let fl := if (colon_pos =? 0)%nat then c_HTP_FIELD_INVALID else 0%N in
    let name_end := rq_name_end d colon_pos in
    let fl := if (name_end <? colon_pos)%nat then N.lor fl c_HTP_FIELD_INVALID else fl in
    let value_start := if (colon_pos <? len)%nat then S colon_pos else colon_pos in
    let value_start := rq_fwd_while htp_is_lws d value_start len in
    let value_end := rq_value_end d len len value_start in
    let fl := if forallb htp_is_token (rq_sub d 0 name_end) then fl else N.lor fl c_HTP_FIELD_INVALID in
    (mkhdr (rq_sub d 0 name_end) (rq_sub d value_start value_end) fl, fl).

(* ---- header table (htp_table_t with htp_header_t elements, insertion order) ---- *)
(* htp_table_get: bstr_cmp_nocase(key_candidate, key) *)
Fixpoint rq_hdr_index (p : bytes -> bool) (hs : list header) (i : nat) : option nat :=
  match hs with
  | [] => None
  | h :: r => if p (h_name h) then Some i else rq_hdr_index p r (S i)
  end.
Definition rq_hdr_find (hs : list header) (name : bytes) : option nat :=
  rq_hdr_index (fun c => cmp_mem_nocase c name =? 0) hs 0.
(* htp_table_get_c: bstr_cmp_c_nocasenorzero(key_candidate, ckey): NULs in the stored key are skipped *)
Definition rq_hdr_get_c (hs : list header) (ckey : bytes) : option header :=
  match rq_hdr_index (fun c => cmp_mem_nocasenorzero c ckey =? 0) hs 0 with
  | Some i => nth_error hs i
  | None => None
  end.

Definition rq_str_content_length : bytes := [67;111;110;116;101;110;116;45;76;101;110;103;116;104]%N.   (* "Content-Length" *)

(* htp_process_request_header_generic on one (unfolded) header line; always HTP_OK (allocation cannot fail here) *)
Definition htp_process_request_header_generic (line : bytes) (t : tx) : tx :=
  let '(h, txfl) := htp_parse_request_header_generic line in
  let t := t <| t_flags ::= (fun f => N.lor f txfl) |> in
  match rq_hdr_find (t_request_headers t) (h_name h) with
  | Some i =>
    let ex := nth i (t_request_headers t) h in
    let repeated := flag_has (h_flags ex) c_HTP_FIELD_REPEATED in
    if repeated && negb (Z.of_nat (t_req_header_repetitions t) <? c_HTP_MAX_HEADERS_REPETITIONS) then t
    else
      let t := if repeated then t <| t_req_header_repetitions ::= S |> else t in
      let ex := mkhdr (h_name ex) (h_value ex) (flag_set (h_flags ex) c_HTP_FIELD_REPEATED) in
      let ex := if cmp_mem_nocase (h_name h) rq_str_content_length =? 0 then ex
                else mkhdr (h_name ex) (h_value ex ++ [44; 32]%N ++ h_value h) (h_flags ex) in
      t <| t_request_headers := upd (t_request_headers t) i ex |>
  | None => t <| t_request_headers := t_request_headers t ++ [h] |>
  end.

(* ---- htp_header_has_token(value, "chunked"-like lowercase token): true = HTP_OK ---- *)
Fixpoint rq_has_token (hv : bytes) (tok : bytes) (state : nat) (rest : bytes) : bool :=
  (* rest = value + v_off (the not yet matched part of the token); v_off == 0 iff rest = tok *)
  match hv with
  | [] => (state =? 2)%nat
  | c :: hv' =>
    (* what the C does with this byte: (new state, new rest), or the early `return HTP_OK` *)
    let at_start := (length rest =? length tok)%nat in
    let wait_comma := if (c =? 44)%N then (0%nat, tok) else (1%nat, tok) in      (* case 1 (also reached by fall-through) *)
    let next : option (nat * bytes) :=
      match state with
      | 0%nat =>
        if at_start && htp_is_space c then Some (0%nat, rest)
        else match rest with
             | x :: rest' =>
               if (c_tolower c =? x)%N then
                 match rest' with
                 | [] => Some (2%nat, rest')
                 | _ => Some (0%nat, rest')
                 end
               else Some wait_comma                   (* v_off = 0; state = 1; fall through to case 1 *)
             | [] => Some wait_comma
             end
      | 1%nat => Some wait_comma
      | _ =>
        if (c =? 44)%N then None
        else if negb (htp_is_space c) then Some (1%nat, tok)
        else Some (2%nat, rest)
      end in
    match next with
    | None => true
    | Some (st', rest') => rq_has_token hv' tok st' rest'
    end
  end.
Definition htp_header_has_token (hv tok : bytes) : bool := rq_has_token hv tok 0 tok.
Definition rq_str_chunked : bytes := [99;104;117;110;107;101;100]%N.   (* "chunked" *)

(* ---- htp_parse_ct_header ---- *)
Definition htp_parse_ct_header (v : bytes) : bytes :=
  to_lowercase (take_while (fun b => negb (b =? 59)%N && negb (b =? 44)%N && negb (b =? 32)%N) v).

(* ---- inet_pton(AF_INET6, str, dst) of the C library the harness links (glibc resolv/inet_pton.c);
   only the 0/1 result is used. The string is NUL-terminated: src ends at the first NUL. ---- *)
(* inet_pton4(src, end): dotted quad, 4 decimal octets, no leading zeros *)
Fixpoint rq_pton4 (s : bytes) (saw_digit : bool) (octets : nat) (cur : Z) : bool :=
  match s with
  | [] => (4 <=? octets)%nat
  | ch :: r =>
    if (48 <=? zb ch) && (zb ch <=? 57) then
      let nw := cur * 10 + (zb ch - 48) in
      if saw_digit && (cur =? 0) then false
      else if 255 <? nw then false
      else if saw_digit then rq_pton4 r true octets nw
      else if (4 <? S octets)%nat then false else rq_pton4 r true (S octets) nw
    else if (ch =? 46)%N && saw_digit then
      if (octets =? 4)%nat then false else rq_pton4 r false octets 0
    else false
  end.
Definition rq_hex_digit_value (ch : N) : Z :=
  let c := zb ch in
  if (48 <=? c) && (c <=? 57) then c - 48
  else if (97 <=? c) && (c <=? 102) then c - 97 + 10
  else if (65 <=? c) && (c <=? 70) then c - 65 + 10
  else -1.
(* the while loop: tp = bytes written so far (0..16), colon = `colonp != NULL`, curtok = start of the current token;
   result: Some (tp, colon, xdigits_seen) at loop exit, None = return 0 *)
Fixpoint rq_pton6_loop (s curtok : bytes) (tp : nat) (colon : bool) (xd : nat) (val : Z) : option (nat * bool * nat) :=
  match s with
  | [] => Some (tp, colon, xd)
  | ch :: r =>
    let digit := rq_hex_digit_value ch in
    if 0 <=? digit then
      if (xd =? 4)%nat then None
      else let val := Z.lor (val * 16) digit in
           if 65535 <? val then None else rq_pton6_loop r curtok tp colon (S xd) val
    else if (ch =? 58)%N then
      if (xd =? 0)%nat then (if colon then None else rq_pton6_loop r r tp true 0 val)
      else match r with
           | [] => None                                     (* src == src_endp *)
           | _ => if (16 <? tp + 2)%nat then None else rq_pton6_loop r r (tp + 2) colon 0 0
           end
    else if (ch =? 46)%N && (tp + 4 <=? 16)%nat && rq_pton4 curtok false 0 0 then Some ((tp + 4)%nat, colon, 0%nat)
    else None
  end.
Definition rq_inet_pton6 (str : bytes) : bool :=
  let s := take_while (fun b => negb (b =? 0)%N) str in        (* strlen *)
  match s with
  | [] => false
  | c0 :: r0 =>
    let start := if (c0 =? 58)%N
                 then match r0 with c1 :: _ => if (c1 =? 58)%N then Some r0 else None | [] => None end
                 else Some s in
    match start with
    | None => false
    | Some s1 =>
      match rq_pton6_loop s1 s1 0 false 0 0 with
      | None => false
      | Some (tp, colon, xd) =>
        if (0 <? xd)%nat && (16 <? tp + 2)%nat then false
        else
          let tp := if (0 <? xd)%nat then (tp + 2)%nat else tp in
          if colon then negb (tp =? 16)%nat else (tp =? 16)%nat
      end
    end
  end.

(* ---- htp_validate_hostname: true = 1 ---- *)
Definition rq_label_char (c : N) : bool :=
  let z := zb c in
  ((97 <=? z) && (z <=? 122)) || ((65 <=? z) && (z <=? 90)) || ((48 <=? z) && (z <=? 57)) || (z =? 45) || (z =? 95).
(* one round of the outer while: s = data[pos..]; fuel = number of rounds left *)
Fixpoint rq_validate_labels (fuel : nat) (s : bytes) : bool :=
  match fuel with
  | O => true
  | S f =>
    match s with
    | [] => true                                            (* while (pos < len) left *)
    | _ =>
      let label := take_while (fun b => negb (b =? 46)%N) s in
      let rest := drop_while (fun b => negb (b =? 46)%N) s in
      if negb (forallb rq_label_char label) then false
      else if (length label =? 0)%nat || (63 <? length label)%nat then false
      else match rest with
           | [] => true
           | _ =>
             let dots := take_while (fun b => (b =? 46)%N) rest in
             if negb (length dots =? 1)%nat then false
             else rq_validate_labels f (drop_while (fun b => (b =? 46)%N) rest)
           end
    end
  end.
Definition htp_validate_hostname (h : bytes) : bool :=
  let len := length h in
  if (len =? 0)%nat || (255 <? len)%nat then false
  else match h with
       | c0 :: r =>
         if (c0 =? 91)%N then
           if (len <? 2)%nat || (c_INET6_ADDRSTRLEN <=? Z.of_nat (len - 2)) then false
           else rq_inet_pton6 (firstn (len - 2) r)
         else rq_validate_labels (S len) h
       | [] => false
       end.

(* ---- htp_parse_header_hostport: (hostname, port_number, HTP_HOSTH_INVALID raised) ---- *)
Definition htp_parse_header_hostport (v : bytes) : option bytes * Z * bool :=
  let '(hn, _, pn, invalid) := parse_hostport v in
  let invalid := match hn with
                 | Some h => invalid || negb (htp_validate_hostname h)
                 | None => invalid
                 end in
  (hn, pn, invalid).
