(* C11 at history level, RESPONSE direction (H3): the smuggling indicator of htp_connp_RES_BODY_DETERMINE on the transaction the
   caller sees, for a grammar response (status line + header fields one line each, within the repetition cap) that answers a
   plain grammar request, delivered in ANY admissible chunking (PSegResThm.sr_response_chunking / PSegResChRun.sr_response_chunked_chunking):
     identity framing (Content-Length fields, no Transfer-Encoding):   HTP_REQUEST_SMUGGLING  iff  at least two Content-Length fields
                                                                       (equal or different values);
     chunked framing (Transfer-Encoding containing "chunked"):          HTP_REQUEST_SMUGGLING  iff  a Content-Length field is present.
   The response side has no INVALID_T_E / INVALID_C_L indicators; a response to HEAD, and 1xx/204/304 without both fields, are not
   examined by the code (no indicator: outside the premises sr_framed / sr_framed_ch). *)
Require Import Htp.Model.Base Htp.Model.MBstr Htp.Model.MUri Htp.Model.MPath Htp.Model.MUrlenc Htp.Model.MConnTypes Htp.Model.MTxCommon.
Require Import Htp.Model.MReqLine Htp.Model.MReqUri Htp.Model.MTxReq Htp.Model.MResLine Htp.Model.MTxRes.
Require Import Htp.Model.MReq Htp.Model.MRes Htp.Model.MConnp.
Require Import Htp.Spec.SWire Htp.Spec.SBody Htp.Spec.SFraming Htp.Proof.PWire Htp.Proof.PWireHdr Htp.Proof.PWireBlock Htp.Proof.PWireConn Htp.Proof.PWireExch.
Require Import Htp.Proof.PWireRun Htp.Proof.PWirePres Htp.Proof.PWireGlue Htp.Proof.PSeg Htp.Proof.PSegLine Htp.Proof.PSegHdr Htp.Proof.PSegGen Htp.Proof.PSegRun.
Require Import Htp.Proof.PSegFold Htp.Proof.PSegRes Htp.Proof.PSegResLine Htp.Proof.PSegResHdr Htp.Proof.PSegResGen Htp.Proof.PSegResRun Htp.Proof.PSegResReq Htp.Proof.PSegResThm.
Require Import Htp.Proof.PSegResCanon Htp.Proof.PSegResCh Htp.Proof.PSegResChGen Htp.Proof.PSegResChRun.
Require Import Htp.Proof.PBody Htp.Proof.PBodyReq Htp.Proof.PSegBody Htp.Proof.PSegChunked Htp.Proof.PSegChunkedGen Htp.Proof.PSegChunkedRun.
Require Import Htp.Proof.PFraming Htp.Proof.PFramingHist Htp.Proof.PFramingHistLine Htp.Proof.PFramingHistThm.

(* ================================================================ (1) the header block, one line per field *)
Lemma fhr_lrun_whole : forall fs pend t,
  sr_lrun (sg_block_flat (combine fs (map (fun f => [wf_lws1 f ++ wf_value f ++ wf_lws2 f]) fs))) (pend, t) =
  fold_left (fun t l => rs_process_response_header l t) (map wr_field_line fs) (sr_flush pend t).
Proof.
  induction fs as [|f fs IH]; intros pend t; [reflexivity|].
  cbn [map combine]. unfold sg_block_flat. cbn [flat_map]. unfold sg_field_flat at 1. cbn [fst snd app].
  fold (sg_block_flat (combine fs (map (fun f => [wf_lws1 f ++ wf_value f ++ wf_lws2 f]) fs))).
  rewrite sr_lrun_cons. unfold sr_lstep, sr_hstep. cbn [fst snd]. rewrite IH. cbn [fold_left sr_flush]. reflexivity.
Qed.

Definition fhr_SM (f : N) : bool := fr_has f c_HTP_REQUEST_SMUGGLING.
(* the status line keeps the response-header table and the smuggling bit *)
Lemma fhr_SM_set f : fhr_SM (flag_set f c_HTP_STATUS_LINE_INVALID) = fhr_SM f.
Proof. unfold fhr_SM, flag_set. rewrite fr_has_lor. change (fr_has c_HTP_STATUS_LINE_INVALID c_HTP_REQUEST_SMUGGLING) with false. apply orb_false_r. Qed.
Lemma fhr_line_fix x : t_response_headers (sr_line_fix x) = t_response_headers x /\ t_res_header_repetitions (sr_line_fix x) = t_res_header_repetitions x /\
  fhr_SM (t_flags (sr_line_fix x)) = fhr_SM (t_flags x).
Proof.
  unfold sr_line_fix.
  set (x1 := if (t_response_protocol_number x =? c_HTP_PROTOCOL_INVALID)%Z then x <| t_flags := flag_set (t_flags x) c_HTP_STATUS_LINE_INVALID |> else x).
  assert (H1 : t_response_headers x1 = t_response_headers x /\ t_res_header_repetitions x1 = t_res_header_repetitions x /\ fhr_SM (t_flags x1) = fhr_SM (t_flags x)).
  { unfold x1. destruct (t_response_protocol_number x =? c_HTP_PROTOCOL_INVALID)%Z; [|repeat split; reflexivity]. split; [reflexivity|]. split; [reflexivity|].
    cbn [t_flags set]. apply fhr_SM_set. }
  clearbody x1. destruct H1 as (R1 & R2 & F1). cbv zeta.
  destruct (_ || _ || _); [|repeat split; assumption]. split; [exact R1|]. split; [exact R2|].
  cbn [t_flags set]. rewrite fhr_SM_set. exact F1.
Qed.
Lemma fhr_th0 t line : t_response_headers (sr_th0 t line) = t_response_headers t /\ t_res_header_repetitions (sr_th0 t line) = t_res_header_repetitions t /\
  fhr_SM (t_flags (sr_th0 t line)) = fhr_SM (t_flags t).
Proof.
  unfold sr_th0, sr_tx_line.
  match goal with |- context [sr_line_fix ?y] => destruct (fhr_line_fix y) as (R1 & R2 & F) end.
  revert R1 R2 F. unfold rs_apply_response_line, sr_tx_start. generalize (rs_parse_response_line line). intros pl.
  match goal with |- context [sr_line_fix ?y] => generalize (sr_line_fix y) end. intros z R1 R2 F.
  cbn [t_response_headers t_res_header_repetitions t_flags set] in *. repeat split; assumption.
Qed.

(* the header block, one line per field, on a transaction with an empty response-header table *)
Lemma fhr_block_table fs th : wr_block_ok fs = true -> t_response_headers th = [] -> t_res_header_repetitions th = 0%nat ->
  let T := sr_lrun (sg_block_flat (combine fs (map (fun f => [wf_lws1 f ++ wf_value f ++ wf_lws2 f]) fs))) (None, th) in
  t_response_headers T = wr_table (map wr_field_nv fs) /\ t_flags T = t_flags th.
Proof.
  intros Wb Rh Rr T. unfold T. rewrite fhr_lrun_whole. cbn [sr_flush].
  pose proof (wr_res_header_block fs [] th Wb eq_refl Rh Rr) as H. cbv zeta in H.
  assert (Em : map (fun f => wr_field_line f ++ []) fs = map wr_field_line fs) by (apply map_ext; intro f; apply app_nil_r).
  rewrite Em in H. destruct H as (H1 & _ & H3). split; assumption.
Qed.
(* is there a Content-Length field / more than one *)
Lemma fhr_cl_lookup_table fs : forallb wr_field_ok fs = true ->
  let hs := map wr_field_nv fs in
  match rs_hdr_get_c (wr_table hs) rs_str_content_length with
  | Some h => (1 <= length (wr_values_of rs_str_content_length hs))%nat /\ flag_has (h_flags h) c_HTP_FIELD_REPEATED = (2 <=? length (wr_values_of rs_str_content_length hs))%nat
  | None => length (wr_values_of rs_str_content_length hs) = 0%nat
  end.
Proof.
  intros Ok hs.
  rewrite (wr_lookup_nocase_res hs _ (wr_fields_no_nul _ Ok)). unfold wr_first_spelling.
  destruct (find (fun x => wr_same x rs_str_content_length) (map fst hs)) as [n|] eqn:Ef.
  - apply find_some in Ef. destruct Ef as [Hin Hs]. cbn [option_map]. unfold wr_entry. cbn [h_flags].
    rewrite (wr_values_same hs n rs_str_content_length Hs).
    assert (L : (1 <= length (wr_values_of rs_str_content_length hs))%nat).
    { apply in_map_iff in Hin. destruct Hin as (h & Eh & Hh). unfold wr_values_of.
      assert (Hi : In h (filter (fun h0 => wr_same (fst h0) rs_str_content_length) hs)) by (apply filter_In; split; [exact Hh|rewrite Eh; exact Hs]).
      rewrite map_length. destruct (filter _ hs); [contradiction|cbn; lia]. }
    split; [exact L|].
    destruct (1 <? length (wr_values_of rs_str_content_length hs))%nat eqn:E1.
    + apply Nat.ltb_lt in E1. symmetry. apply Nat.leb_le. lia.
    + apply Nat.ltb_ge in E1. symmetry. apply Nat.leb_gt. lia.
  - cbn [option_map]. unfold wr_values_of. rewrite map_length.
    assert (G : forall l, find (fun x => wr_same x rs_str_content_length) (map fst l) = None -> filter (fun h0 : bytes * bytes => wr_same (fst h0) rs_str_content_length) l = []).
    { induction l as [|a l IH]; intros E; [reflexivity|]. cbn [map find filter] in *. destruct (wr_same (fst a) rs_str_content_length); [discriminate|]. apply IH. exact E. }
    rewrite (G hs Ef). reflexivity.
Qed.

(* the transaction at the end of the header block of the response *)
Lemma fhr_tend_table r t0 : wr_block_ok (wp_fields r) = true -> sr_rsp t0 = ([], 0%nat) ->
  t_response_headers (sr_tend t0 r (sr_cuts_whole r)) = wr_table (map wr_field_nv (wp_fields r)) /\
  fhr_SM (t_flags (sr_tend t0 r (sr_cuts_whole r))) = fhr_SM (t_flags t0).
Proof.
  intros Wb Hrsp. destruct (fhr_th0 t0 (sr_line0 r)) as (R1 & R2 & F0).
  assert (Rh : t_response_headers t0 = []) by exact (f_equal fst Hrsp). assert (Rr : t_res_header_repetitions t0 = 0%nat) by exact (f_equal snd Hrsp).
  rewrite Rh in R1. rewrite Rr in R2. unfold sr_tend, sr_lines, sr_cuts_whole.
  revert R1 R2 F0. generalize (sr_th0 t0 (sr_line0 r)). intros th R1 R2 F0.
  destruct (fhr_block_table (wp_fields r) th Wb R1 R2) as [H1 H3]. split; [exact H1|]. rewrite <- F0. apply (f_equal fhr_SM). exact H3.
Qed.

(* ================================================================ (2) the transaction a plain grammar request leaves behind *)
Lemma fhr_kept_in : forall hs f, In f (fr_kept hs) -> In f hs.
Proof.
  unfold fr_kept. induction hs as [|a hs IH] using rev_ind; intros f H; [exact H|].
  rewrite fr_keep_state_snoc in H. unfold fr_keep_step in H.
  destruct (fr_is_excess (fst (fr_keep_state hs)) a && (fr_cap <=? snd (fr_keep_state hs))%nat).
  - apply in_or_app. left. apply IH. exact H.
  - cbn [fst] in H. apply in_app_or in H. apply in_or_app. destruct H as [H|H]; [left; apply IH; exact H|right; exact H].
Qed.
Lemma fhr_values_none k hs : (forall f, In f hs -> fr_eq_nocase (fst f) k = false) -> fr_values k (fr_kept hs) = [].
Proof.
  intros H. unfold fr_values.
  assert (G : forall l, (forall f, In f l -> fr_eq_nocase (fst f) k = false) -> filter (fun f : fr_field => fr_eq_nocase (fst f) k) l = []).
  { induction l as [|a l IH]; intros Hl; [reflexivity|]. cbn [filter]. rewrite (Hl a (or_introl eq_refl)). apply IH. intros f Hf. apply Hl. right. exact Hf. }
  rewrite G; [reflexivity|]. intros f Hf. apply H. apply fhr_kept_in. exact Hf.
Qed.
Lemma fhr_plain_verdict proto fs :
  existsb (fun f => wr_same (wf_name f) wr_str_content_length || wr_same (wf_name f) wr_str_transfer_encoding) fs = false ->
  frv_smuggling (fr_verdict proto (fh_hs fs)) = false.
Proof.
  intros Wnf. unfold fr_verdict. cbv zeta.
  assert (N : forall k, (k = wr_str_content_length \/ k = wr_str_transfer_encoding) -> forall f, In f (fh_hs fs) -> fr_eq_nocase (fst f) k = false).
  { intros k Hk f Hf. unfold fh_hs in Hf. apply in_map_iff in Hf. destruct Hf as (x & <- & Hx). cbn [wr_field_nv fst].
    pose proof (wr_existsb_false _ _ Wnf x Hx) as E. cbv beta in E. apply orb_false_iff in E. destruct E as [E1 E2].
    unfold wr_same in E1, E2. rewrite fr_cmp_nocase in E1, E2. destruct Hk as [-> | ->]; assumption. }
  assert (Ete : fr_values fr_TE (fr_kept (fh_hs fs)) = []).
  { apply fhr_values_none. intros f Hf. rewrite <- (fr_eq_nocase_trans_r wr_str_transfer_encoding fr_TE (fst f) eq_refl). apply (N _ (or_intror eq_refl) f Hf). }
  assert (Ecl : fr_values fr_CL (fr_kept (fh_hs fs)) = []).
  { apply fhr_values_none. intros f Hf. rewrite <- (fr_eq_nocase_trans_r wr_str_content_length fr_CL (fst f) eq_refl). apply (N _ (or_introl eq_refl) f Hf). }
  rewrite Ete, Ecl. reflexivity.
Qed.

Lemma fhr_mask_rsp x : sr_rsp (sg_mask x) = sr_rsp x.
Proof. reflexivity. Qed.
Lemma fhr_mask_flags x : t_flags (sg_mask x) = N.ldiff (t_flags x) c_HTP_MULTI_PACKET_HEAD.
Proof. reflexivity. Qed.
Lemma fhr_tref_flags g rq : t_flags (sg_tref g rq) = t_flags (fh_tend g (wq_method rq) (wq_uri rq) (wq_protocol rq) (wq_fields rq) false).
Proof. unfold sg_tref, sg_tfin, fh_tend. generalize (sg_hdr_end (wr_block_tx (wq_fields rq) (sg_th0 g 0 (wq_method rq) (wq_uri rq) (wq_protocol rq)))). intros x. reflexivity. Qed.
Lemma fhr_SM_aux f0 v hv : fr_clean f0 -> frv_smuggling v = false -> fhr_SM (N.lor (N.lor (N.lor f0 0%N) (fr_verdict_bits v)) (fr_host_bits hv)) = false.
Proof.
  intros (A & _) HV. destruct (fr_verdict_bits_has v) as (VA & _). destruct (fr_host_bits_has hv) as (_ & _ & _ & HD & _).
  unfold fhr_SM. rewrite !fr_has_lor, A, VA, HD, HV. reflexivity.
Qed.
Lemma fhr_tref_SM g rq : g_allow_space_uri g = false -> wr_request_ok rq = true -> fhr_SM (t_flags (sg_tref g rq)) = false.
Proof.
  intros Hsp Wq. rewrite fhr_tref_flags.
  pose proof Wq as Wq'. unfold wr_request_ok in Wq'. apply andb_prop in Wq'. destruct Wq' as [Wq' _]. apply andb_prop in Wq'. destruct Wq' as [Wq' Wnf].
  apply andb_prop in Wq'. destruct Wq' as [Wl Wb]. apply negb_true_iff in Wnf.
  assert (Wr : fh_req_ok rq = true) by (unfold fh_req_ok; rewrite Wl; exact (sg_okf _ Wb)).
  destruct (fh_tend_flags g rq false Hsp Wr) as [Ff _]. cbv zeta in Ff. rewrite Ff.
  apply fhr_SM_aux; [exact (fh_th0_clean g 0 _ _ _ Hsp Wl)|exact (fhr_plain_verdict _ _ Wnf)].
Qed.
Lemma fhr_treq cb g rq : wr_all_ok cb -> g_allow_space_uri g = false -> wr_request_ok rq = true -> sg_fits g rq = true ->
  sr_rsp (sr_treq cb g rq) = ([], 0%nat) /\ fhr_SM (t_flags (sr_treq cb g rq)) = false.
Proof.
  intros Hcb Hsp Wq Hf.
  destruct (sr_after_request cb g rq Hcb Hsp Wq) as (t0 & Hr & Rep).
  assert (Et : sr_treq cb g rq = t0) by (unfold sr_treq; rewrite (ry_txs _ _ Hr); reflexivity). rewrite Et.
  assert (Hne : wr_request_wire rq <> []).
  { unfold wr_request_wire, wr_ser_request. intro E. apply app_eq_nil in E. destruct E as [_ E]. apply app_eq_nil in E. destruct E as [E _]. discriminate. }
  destruct (sg_request_chunking cb g rq [wr_request_wire rq] Hcb Hsp Wq Hf) as (t & T & M).
  { constructor; [exact Hne|constructor]. }
  { cbn [concat]. apply app_nil_r. }
  cbn [map] in T. rewrite (ry_txs _ _ Hr) in T. inversion T. subst t. clear T. split.
  - rewrite <- (fhr_mask_rsp t0), M, fhr_mask_rsp. apply rsp_tref.
  - unfold fhr_SM. rewrite <- (fh_ldiff_has (t_flags t0) c_HTP_MULTI_PACKET_HEAD c_HTP_REQUEST_SMUGGLING eq_refl).
    rewrite <- fhr_mask_flags, M, fhr_mask_flags.
    rewrite (fh_ldiff_has _ c_HTP_MULTI_PACKET_HEAD c_HTP_REQUEST_SMUGGLING eq_refl). exact (fhr_tref_SM g rq Hsp Wq).
Qed.

(* ================================================================ (3) H3: the indicator on the response side, any chunking *)
(* identity framing: SMUGGLING iff the response carries at least two Content-Length fields *)
Theorem fhr_response_cl_repeated : forall cb g rq r (body : bytes) (chunks : list bytes),
  wr_all_ok cb -> g_allow_space_uri g = false -> wr_request_ok rq = true -> sg_fits g rq = true ->
  sr_response_ok r = true -> wr_block_ok (wp_fields r) = true ->
  sr_framed cb g rq r (sr_cuts_whole r) body = true -> sr_fits g r (sr_cuts_whole r) = true ->
  Forall (fun x => x <> []) chunks -> concat chunks = wr_response_wire r ++ body ->
  sr_f1_free body (negb (sr_is_nil (sr_lines r (sr_cuts_whole r)))) chunks = true ->
  exists t, c_txs (fst (cp_run cb g connp_new (OpOpen :: OpReqData (wr_request_wire rq) :: map OpResData chunks))) = sr_final g t /\
    t_response_progress t = c_HTP_RESPONSE_COMPLETE /\ t_response_transfer_coding t = c_HTP_CODING_IDENTITY /\
    fr_has (t_flags t) c_HTP_REQUEST_SMUGGLING = (2 <=? length (wr_values_of rs_str_content_length (map wr_field_nv (wp_fields r))))%nat.
Proof.
  intros cb g rq r body chunks Hcb Hsp Wq Hfq Wr Wb Hfr Hfit Hall Hc Hf1.
  assert (Wc : sr_cuts_ok r (sr_cuts_whole r) = true) by apply sr_cuts_whole_ok.
  rewrite <- sr_wire_whole in Hc.
  pose proof (sr_response_chunking cb g rq r (sr_cuts_whole r) body chunks Hcb Hsp Wq Wr Wc Hfr Hfit Hall Hc Hf1) as E.
  destruct (fhr_treq cb g rq Hcb Hsp Wq Hfq) as [R0 S0].
  set (t0 := sr_treq cb g rq) in *. set (T := sr_tend t0 r (sr_cuts_whole r)) in *.
  destruct (fhr_tend_table r t0 Wb R0) as [HT FT]. fold T in HT, FT.
  pose proof (fhr_cl_lookup_table (wp_fields r) (sg_okf _ Wb)) as L. cbv zeta in L. rewrite <- HT in L.
  unfold sr_framed in Hfr. fold t0 in Hfr. fold T in Hfr. unfold sr_frame_ok in Hfr.
  apply andb_prop in Hfr. destruct Hfr as [_ Hcl].
  exists (sr_after_hdr (length body) T). split; [exact E|].
  assert (Fl : t_flags (sr_after_hdr (length body) T) = t_flags (sr_det_tx T)) by (unfold sr_after_hdr; destruct (length body); reflexivity).
  assert (Co : t_response_transfer_coding (sr_after_hdr (length body) T) = t_response_transfer_coding (sr_det_tx T)) by (unfold sr_after_hdr; destruct (length body); reflexivity).
  split; [unfold sr_after_hdr; destruct (length body); reflexivity|]. rewrite Fl, Co. unfold sr_det_tx. cbv zeta.
  destruct (rs_hdr_get_c (t_response_headers T) rs_str_content_length) as [h|]; [|discriminate Hcl]. destruct L as [_ L].
  set (t1 := match rs_hdr_get_c (t_response_headers T) rs_str_content_type with Some hc => T <| t_response_content_type := Some (rs_content_type (h_value hc)) |> | None => T end).
  assert (F1 : t_flags t1 = t_flags T) by (unfold t1; destruct (rs_hdr_get_c (t_response_headers T) rs_str_content_type); reflexivity).
  clearbody t1. rewrite <- L. fold (fhr_SM (t_flags T)) in FT. rewrite S0 in FT.
  destruct (negb (parse_content_length (h_value h) =? 0)%Z); destruct (flag_has (h_flags h) c_HTP_FIELD_REPEATED); cbn [t_flags t_response_transfer_coding set];
    (split; [reflexivity|]); rewrite ?F1; unfold flag_set; rewrite ?fr_has_lor; fold (fhr_SM (t_flags T)); rewrite FT; reflexivity.
Qed.

(* chunked framing (no trailer fields): SMUGGLING iff the response carries a Content-Length field as well *)
Theorem fhr_response_chunked_cl : forall cb g rq r (ks : list bd_chunk) (last : bytes) (chunks : list bytes),
  wr_all_ok cb -> g_allow_space_uri g = false -> wr_request_ok rq = true -> sg_fits g rq = true ->
  sr_response_ok r = true -> wr_block_ok (wp_fields r) = true ->
  sr_framed_ch cb g rq r (sr_cuts_whole r) = true -> sr_fits g r (sr_cuts_whole r) = true ->
  sr_cfbody_ok g r ks last [] [] = true ->
  Forall (fun x => x <> []) chunks -> concat chunks = wr_response_wire r ++ sr_cfbody_wire ks last [] [] ->
  sr_f1_free (sr_cfbody_wire ks last [] []) (negb (sr_is_nil (sr_lines r (sr_cuts_whole r)))) chunks = true ->
  exists t, c_txs (fst (cp_run cb g connp_new (OpOpen :: OpReqData (wr_request_wire rq) :: map OpResData chunks))) = sr_final g t /\
    t_response_progress t = c_HTP_RESPONSE_COMPLETE /\ t_response_transfer_coding t = c_HTP_CODING_CHUNKED /\
    fr_has (t_flags t) c_HTP_REQUEST_SMUGGLING = (1 <=? length (wr_values_of rs_str_content_length (map wr_field_nv (wp_fields r))))%nat.
Proof.
  intros cb g rq r ks last chunks Hcb Hsp Wq Hfq Wr Wb Hfr Hfit Hbody Hall Hc Hf1.
  assert (Wc : sr_cuts_ok r (sr_cuts_whole r) = true) by apply sr_cuts_whole_ok.
  rewrite <- sr_wire_whole in Hc.
  pose proof (sr_response_chunked_chunking cb g rq r (sr_cuts_whole r) ks last [] [] chunks Hcb Hsp Wq Wr Wc Hfr Hfit Hbody Hall Hc Hf1) as E.
  destruct (fhr_treq cb g rq Hcb Hsp Wq Hfq) as [R0 S0].
  set (t0 := sr_treq cb g rq) in *. set (T := sr_tend t0 r (sr_cuts_whole r)) in *.
  destruct (fhr_tend_table r t0 Wb R0) as [HT FT]. fold T in HT, FT.
  pose proof (fhr_cl_lookup_table (wp_fields r) (sg_okf _ Wb)) as L. cbv zeta in L. rewrite <- HT in L.
  exists (sr_tchunked t0 r (sr_cuts_whole r) ks last [] []). split; [exact E|].
  unfold sr_tchunked, sr_trailer_lines. cbn [combine sg_block_flat flat_map]. unfold sr_lrun. cbn [fold_left fst snd sr_flush].
  fold T. unfold sr_hdrs_tx_ch, sr_det_tx_ch. cbv zeta.
  set (t1 := match rs_hdr_get_c (t_response_headers T) rs_str_content_type with Some hc => T <| t_response_content_type := Some (rs_content_type (h_value hc)) |> | None => T end).
  assert (F1 : t_flags t1 = t_flags T) by (unfold t1; destruct (rs_hdr_get_c (t_response_headers T) rs_str_content_type); reflexivity).
  clearbody t1. rewrite S0 in FT.
  split; [reflexivity|]. split; [destruct (rs_hdr_get_c (t_response_headers T) rs_str_content_length); reflexivity|].
  destruct (rs_hdr_get_c (t_response_headers T) rs_str_content_length) as [h|].
  - destruct L as [L _]. unfold sr_tcomplete, sr_body_add, sr_cbody. cbn [t_flags set]. unfold flag_set. rewrite fr_has_lor, F1.
    fold (fhr_SM (t_flags T)). rewrite FT. cbn [orb]. symmetry. apply Nat.leb_le. exact L.
  - unfold sr_tcomplete, sr_body_add, sr_cbody. cbn [t_flags set]. rewrite F1. fold (fhr_SM (t_flags T)). rewrite FT, L. reflexivity.
Qed.

(* ================================================================ (4) evaluation (done BEFORE the proofs), kept as Examples *)
Require Coq.Strings.String.
Import Coq.Strings.String.StringSyntax.
Local Open Scope string_scope.
Definition fhr_ex_rs (p s : String.string) (fs : list wr_field) : wr_response := mk_wr_response (bd_str p) (bd_str s) (bd_str "OK") fs.
Definition fhr_ex_rqw (m : String.string) : bytes := bd_lines [String.append m " /1 HTTP/1.1"; "Host: a"; ""].
Definition fhr_ex_view (t : tx) : bool * Z * Z * Z :=
  (fr_has (t_flags t) c_HTP_REQUEST_SMUGGLING, t_response_transfer_coding t, t_response_progress t, t_response_entity_len t).
Definition fhr_ex_run (m : String.string) (chunks : list bytes) : list (option (bool * Z * Z * Z)) :=
  map (option_map fhr_ex_view) (c_txs (fst (cp_run sg_ex_ok (sg_ex_cfg 18000) connp_new (OpOpen :: OpReqData (fhr_ex_rqw m) :: map OpResData chunks)))).
Definition fhr_ex_cb5 : bytes := bd_lines ["5"; "abcde"; "0"; ""].
(* (request method, response, body):  0 C-L + chunked   1 C-L twice, equal   2 C-L twice, different   3 C-L + "xchunkedy" (the response side
   looks for the SUBSTRING chunked, htp_response.c:708)   4 answer to HEAD with C-L + chunked (not examined)   5 C-L + T-E gzip (identity,
   no indicator: the response side has no INVALID_T_E)   6 chunked on HTTP/1.0 (no indicator)   7 204 with C-L + chunked
   8 C-L twice + T-E gzip (SMUGGLING here, unlike the request side: known finding K2 of C11 has no response-side twin) *)
Definition fhr_ex_cases : list (String.string * wr_response * bytes) := [
  ("GET", fhr_ex_rs "HTTP/1.1" "200" [fh_ex_fld "Content-Length" "5"; fh_ex_fld "Transfer-Encoding" "chunked"], fhr_ex_cb5);
  ("GET", fhr_ex_rs "HTTP/1.1" "200" [fh_ex_fld "Content-Length" "5"; fh_ex_fld "Content-Length" "5"], bd_str "abcde");
  ("GET", fhr_ex_rs "HTTP/1.1" "200" [fh_ex_fld "Content-Length" "5"; fh_ex_fld "content-length" "6"], bd_str "abcde");
  ("GET", fhr_ex_rs "HTTP/1.1" "200" [fh_ex_fld "Content-Length" "5"; fh_ex_fld "Transfer-Encoding" "xchunkedy"], fhr_ex_cb5);
  ("HEAD", fhr_ex_rs "HTTP/1.1" "200" [fh_ex_fld "Content-Length" "5"; fh_ex_fld "Transfer-Encoding" "chunked"], []);
  ("GET", fhr_ex_rs "HTTP/1.1" "200" [fh_ex_fld "Content-Length" "5"; fh_ex_fld "Transfer-Encoding" "gzip"], bd_str "abcde");
  ("GET", fhr_ex_rs "HTTP/1.0" "200" [fh_ex_fld "Transfer-Encoding" "chunked"], fhr_ex_cb5);
  ("GET", fhr_ex_rs "HTTP/1.1" "204" [fh_ex_fld "Content-Length" "5"; fh_ex_fld "Transfer-Encoding" "chunked"], fhr_ex_cb5);
  ("GET", fhr_ex_rs "HTTP/1.1" "200" [fh_ex_fld "Content-Length" "5"; fh_ex_fld "Content-Length" "5"; fh_ex_fld "Transfer-Encoding" "gzip"], bd_str "abcde")].
Definition fhr_ex_expected : list (bool * Z * Z * Z) :=
  [(true, c_HTP_CODING_CHUNKED, c_HTP_RESPONSE_COMPLETE, 5%Z); (true, c_HTP_CODING_IDENTITY, c_HTP_RESPONSE_COMPLETE, 5%Z); (true, c_HTP_CODING_IDENTITY, c_HTP_RESPONSE_COMPLETE, 5%Z);
   (true, c_HTP_CODING_CHUNKED, c_HTP_RESPONSE_COMPLETE, 5%Z); (false, c_HTP_CODING_NO_BODY, c_HTP_RESPONSE_COMPLETE, 0%Z); (false, c_HTP_CODING_IDENTITY, c_HTP_RESPONSE_COMPLETE, 5%Z);
   (false, c_HTP_CODING_CHUNKED, c_HTP_RESPONSE_COMPLETE, 5%Z); (true, c_HTP_CODING_CHUNKED, c_HTP_RESPONSE_COMPLETE, 5%Z); (true, c_HTP_CODING_IDENTITY, c_HTP_RESPONSE_COMPLETE, 5%Z)].
Example fhr_ex_whole :
  map (fun c => fhr_ex_run (fst (fst c)) [wr_response_wire (snd (fst c)) ++ snd c]) fhr_ex_cases = map (fun v => [Some v]) fhr_ex_expected.
Proof. vm_compute. reflexivity. Qed.
Example fhr_ex_bytewise :
  map (fun c => fhr_ex_run (fst (fst c)) (sg_bytewise (wr_response_wire (snd (fst c)) ++ snd c))) fhr_ex_cases = map (fun v => [Some v]) fhr_ex_expected.
Proof. vm_compute. reflexivity. Qed.
(* non-vacuity: the premises of the two theorems hold for cases 2 and 0 (request GET /1 HTTP/1.1 | Host: a) *)
Definition fhr_ex_rq : wr_request := fh_ex_rq "GET" "/1" "HTTP/1.1" [fh_ex_fld "Host" "a"].
Example fhr_ex_premises :
  let r2 := snd (fst (nth 2 fhr_ex_cases ("", sr_ex1, []))) in let r0 := snd (fst (nth 0 fhr_ex_cases ("", sr_ex1, []))) in
  let g := sg_ex_cfg 18000 in
  wr_request_wire fhr_ex_rq = fhr_ex_rqw "GET" /\ wr_request_ok fhr_ex_rq = true /\ sg_fits g fhr_ex_rq = true /\
  sr_response_ok r2 = true /\ wr_block_ok (wp_fields r2) = true /\ sr_framed sg_ex_ok g fhr_ex_rq r2 (sr_cuts_whole r2) (bd_str "abcde") = true /\ sr_fits g r2 (sr_cuts_whole r2) = true /\
  sr_response_ok r0 = true /\ wr_block_ok (wp_fields r0) = true /\ sr_framed_ch sg_ex_ok g fhr_ex_rq r0 (sr_cuts_whole r0) = true /\ sr_fits g r0 (sr_cuts_whole r0) = true /\
  sr_cfbody_ok g r0 [mk_bd_chunk (bd_lines ["5"]) (bd_str "abcde") bd_CRLF] (bd_lines ["0"]) [] [] = true /\
  sr_cfbody_wire [mk_bd_chunk (bd_lines ["5"]) (bd_str "abcde") bd_CRLF] (bd_lines ["0"]) [] [] = fhr_ex_cb5.
Proof. vm_compute. repeat split; reflexivity. Qed.

(* ================= THEOREMS FOR RE-EXPORT (Properties_C11.v): C11 at history level, RESPONSE direction (H3) =================
   fhr_response_cl_repeated   response with identity framing (PSegResThm.sr_framed: Content-Length = |body|, no Transfer-Encoding, request neither
                              HEAD nor CONNECT, not 100 Continue), fields one line each within the cap, any admissible chunking of wr_response_wire r ++ body:
                              txs = sr_final g t /\ RESPONSE_COMPLETE /\ coding IDENTITY /\
                              fr_has (t_flags t) HTP_REQUEST_SMUGGLING = (2 <=? number of Content-Length fields)          (equal or different values)
   fhr_response_chunked_cl    response with chunked framing (PSegResChRun.sr_framed_ch: Transfer-Encoding contains "chunked" -- as a SUBSTRING, that is the
                              code's test --, request neither HEAD nor CONNECT), chunked body without trailer fields (sr_cfbody_ok g r ks last [] []):
                              txs = sr_final g t /\ RESPONSE_COMPLETE /\ coding CHUNKED /\
                              fr_has (t_flags t) HTP_REQUEST_SMUGGLING = (1 <=? number of Content-Length fields)
   common premises: wr_all_ok cb, g_allow_space_uri g = false, wr_request_ok rq (a plain grammar request without C-L / T-E: it leaves the bit clear,
     fhr_treq), sg_fits g rq, sr_response_ok r, wr_block_ok (wp_fields r), sr_fits g r (sr_cuts_whole r), Forall non-empty chunks,
     sr_f1_free .. (C03's finding F1 excluded exactly as in the C03 theorems).
   Folded response fields are NOT covered (C03's K2: the response parser's treatment of continuation lines depends on the line content).
   Examples fhr_ex_whole / fhr_ex_bytewise (9 cases evaluated before the proofs; no chunking changes the bit), fhr_ex_premises (non-vacuity). *)
Print Assumptions fhr_response_cl_repeated.
Print Assumptions fhr_response_chunked_cl.
