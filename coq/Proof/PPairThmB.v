(* C04, Stage B: n exchanges of the wire grammar -- all requests first, in ANY chunking of their concatenation, then all responses,
   in ANY chunking of their concatenation (chunks may span message boundaries on both sides) -- give n transactions; the i-th
   reports request i and carries response i. *)
Require Import Htp.Model.Base Htp.Model.MBstr Htp.Model.MConnTypes Htp.Model.MTxCommon Htp.Model.MResLine Htp.Model.MTxRes.
Require Import Htp.Model.MReq Htp.Model.MRes Htp.Model.MConnp.
Require Import Htp.Spec.SWire Htp.Proof.PWire Htp.Proof.PWireHdr Htp.Proof.PWireBlock Htp.Proof.PWireConn Htp.Proof.PWireExch.
Require Import Htp.Proof.PWireRun Htp.Proof.PWirePres Htp.Proof.PWireGlue Htp.Proof.PSeg Htp.Proof.PSegLine Htp.Proof.PSegHdr Htp.Proof.PSegGen Htp.Proof.PSegRun.
Require Import Htp.Proof.PSegFold Htp.Proof.PSegPipe Htp.Proof.PSegRes Htp.Proof.PSegResLine Htp.Proof.PSegResHdr Htp.Proof.PSegResGen Htp.Proof.PSegResRun Htp.Proof.PSegResReq Htp.Proof.PSegResThm Htp.Proof.PSegResCanon.
Require Import Htp.Proof.PPair Htp.Proof.PPairLine Htp.Proof.PPairHdr Htp.Proof.PPairRun Htp.Proof.PPairOne Htp.Proof.PPairFin Htp.Proof.PPairA Htp.Proof.PPairReq Htp.Proof.PPairB Htp.Proof.PPairThm.

(* ---- F1 as a boolean on the grammar: for every chunk x (followed by the wire rw') and every response of the history whose body
        starts with CR, x must not be the chunk in which the LF of that response's empty line is at the top of the loop of
        RES_HEADERS (PSegResHdr.sr_f1_local / PSegResThm.sr_f1_free, with what follows the empty line = body ++ later responses) ---- *)
Definition pp_f1b (tailw : bytes) (hh : bool) (d rw' : bytes) : bool :=
  match tailw with
  | b :: _ => if (b =? CR)%N then
                (if (length (d ++ rw') =? length tailw + 1)%nat then (length d =? 1)%nat else true) &&
                (if hh && (length (d ++ rw') =? length tailw + 3)%nat then (length d <=? 3)%nat else true)
              else true
  | [] => true
  end.
Lemma pp_f1b_ok tailw hh d rw' : pp_f1b tailw hh d rw' = true -> sr_f1_local tailw hh d rw'.
Proof.
  unfold pp_f1b, sr_f1_local. destruct tailw as [|b tw]; [intros _; exact I|]. intros H Hb. rewrite Hb in H. apply andb_prop in H. destruct H as [A B]. split.
  - intros L. apply Nat.eqb_eq in L. rewrite L in A. apply Nat.eqb_eq. exact A.
  - intros Hh L. apply Nat.eqb_eq in L. rewrite Hh, L in B. cbn [andb] in B. apply Nat.leb_le. exact B.
Qed.
Fixpoint pp_f1_ex (xl : list pp_xc) (d rw' : bytes) : bool :=
  match xl with
  | [] => true
  | x :: xl' => pp_f1b (xbody x ++ concat (map pp_xwire xl')) (negb (sr_is_nil (sr_lines (xs x) (xcuts x)))) d rw' && pp_f1_ex xl' d rw'
  end.
Fixpoint pp_f1_free (xl : list pp_xc) (chunks : list bytes) : bool :=
  match chunks with [] => true | x :: rest => pp_f1_ex xl x (concat rest) && pp_f1_free xl rest end.

Lemma pp_wires_of g : forall es xl, Forall2 (fun e x => exists k fl, e = pp_ex_of g k fl x) es xl -> pp_wires es = concat (map pp_xwire xl).
Proof. induction 1 as [|e x es xl (k & fl & Ee) F IH]; [reflexivity|]. unfold pp_wires in *. cbn [map concat]. rewrite IH, Ee. reflexivity. Qed.
Lemma pp_f1_ex_ok g d rw' : forall es xl, Forall2 (fun e x => exists k fl, e = pp_ex_of g k fl x) es xl -> pp_f1_ex xl d rw' = true -> pp_f1 es d rw'.
Proof.
  induction 1 as [|e x es xl (k & fl & Ee) F IH]; intros H esd e0 es' E.
  - destruct esd; discriminate.
  - cbn [pp_f1_ex] in H. apply andb_prop in H. destruct H as [H1 H2]. destruct esd as [|e1 esd].
    + cbn [app] in E. inversion E. subst e0 es'. apply pp_f1b_ok. rewrite (pp_wires_of g es xl F). rewrite Ee. exact H1.
    + cbn [app] in E. inversion E. apply (IH H2 esd e0 es'). assumption.
Qed.
Lemma pp_f1_free_oks g es xl : Forall2 (fun e x => exists k fl, e = pp_ex_of g k fl x) es xl -> forall chunks, pp_f1_free xl chunks = true -> sr_oks (pp_f1 es) chunks.
Proof.
  intros F. induction chunks as [|x rest IH]; intros H; [exact I|]. cbn [pp_f1_free] in H. apply andb_prop in H. destruct H as [H1 H2].
  cbn [sr_oks]. split; [apply (pp_f1_ex_ok g x (concat rest) es xl F H1)|apply IH; exact H2].
Qed.

(* the premise is vacuous when no response body (followed by the later responses) starts with CR *)
Fixpoint pp_nocr (xl : list pp_xc) : bool :=
  match xl with
  | [] => true
  | x :: xl' => match xbody x ++ concat (map pp_xwire xl') with b :: _ => negb (b =? CR)%N | [] => true end && pp_nocr xl'
  end.
Lemma pp_f1_ex_nocr d rw' : forall xl, pp_nocr xl = true -> pp_f1_ex xl d rw' = true.
Proof.
  induction xl as [|x xl IH]; intros H; [reflexivity|]. cbn [pp_nocr] in H. apply andb_prop in H. destruct H as [H1 H2].
  cbn [pp_f1_ex]. rewrite (IH H2), andb_true_r. unfold pp_f1b. destruct (xbody x ++ concat (map pp_xwire xl)) as [|b tw]; [reflexivity|].
  apply negb_true_iff in H1. rewrite H1. reflexivity.
Qed.
Lemma pp_f1_free_nocr xl : pp_nocr xl = true -> forall chunks, pp_f1_free xl chunks = true.
Proof. intros H. induction chunks as [|x rest IH]; [reflexivity|]. cbn [pp_f1_free]. rewrite (pp_f1_ex_nocr x (concat rest) xl H), IH. reflexivity. Qed.

(* ================= Stage B ================= *)
Theorem pp_pairing_chunked : forall cb g (xl : list pp_xc) (qchunks schunks : list bytes),
  wr_all_ok cb -> g_allow_space_uri g = false -> (g_max_tx g = 0 \/ length xl < g_max_tx g)%nat ->
  forallb (pp_xc_ok g) xl = true ->
  Forall (fun c => c <> []) qchunks -> concat qchunks = concat (map (fun x => wr_request_wire (xq x)) xl) ->
  Forall (fun c => c <> []) schunks -> concat schunks = concat (map pp_xwire xl) -> pp_f1_free xl schunks = true ->
  Forall2 (fun slot x => exists k fl, slot = pr_slot g (pp_tfin (pp_ex_of g k fl x)))
          (c_txs (fst (cp_run cb g connp_new (OpOpen :: map OpReqData qchunks ++ map OpResData schunks)))) xl.
Proof.
  intros cb g xl qchunks schunks Hcb Hsp Hmax Hok Hall Hc Halls Hcs Hf1.
  assert (Hokq : Forall (fun r => sg_req_ok g r = true) (map xq xl)).
  { apply Forall_forall. intros r Hin. apply in_map_iff in Hin. destruct Hin as (x & Ex & Hin). subst r.
    rewrite forallb_forall in Hok. specialize (Hok x Hin). unfold pp_xc_ok in Hok. do 4 (apply andb_prop in Hok; destruct Hok as [Hok _]). exact Hok. }
  assert (Hc' : concat qchunks = concat (map wr_request_wire (map xq xl))) by (rewrite map_map; exact Hc).
  assert (Hmax' : (g_max_tx g = 0 \/ length (map xq xl) < g_max_tx g)%nat) by (rewrite map_length; exact Hmax).
  destruct (pq_after_requests cb g (map xq xl) qchunks Hcb Hsp Hmax' Hokq Hall Hc') as (Hm & R & F). cbv zeta in Hm, R, F.
  change (OpOpen :: map OpReqData qchunks ++ map OpResData schunks) with ((OpOpen :: map OpReqData qchunks) ++ map OpResData schunks).
  rewrite sr_run_app. set (cF := fst (cp_run cb g connp_new (OpOpen :: map OpReqData qchunks))) in *.
  destruct (pp_build g xl (c_txs cF) R) as (es & Ed & F2).
  assert (Hr : pr_rest cF (pp_slots g [] ++ pp_pend es) (length (@nil pp_ex))).
  { unfold sr_fr, pq_base in F.
    assert (G : c_out_status cF = c_HTP_STREAM_OPEN /\ c_out_state cF = RES_IDLE /\ c_out cF = cursor_new /\ c_out_next_tx_index cF = 0%nat /\
                c_txs_shifted cF = 0%nat /\ c_out_data_other_at_tx_end cF = false) by (repeat split; congruence).
    destruct G as (G1 & G2 & G3 & G4 & G5 & G6).
    constructor; rewrite ?G3; try assumption; try reflexivity.
    - rewrite G1. left. reflexivity.
    - exact (im_tx _ _ _ Hm). }
  assert (Hoks : Forall (pp_ex_ok g) es).
  { clear - F2 Hok Hsp. induction F2 as [|e x es xl (k & fl & Ee) F2 IH]; [constructor|]. cbn [forallb] in Hok. apply andb_prop in Hok. destruct Hok as [H1 H2].
    constructor; [rewrite Ee; apply pp_ex_of_ok; assumption|apply IH; exact H2]. }
  assert (Hcs' : concat schunks = pp_wires es) by (rewrite (pp_wires_of g es xl F2); exact Hcs).
  pose proof (pp_pchunks cb g Hcb es Hoks schunks cF [] es (pp_wires es) eq_refl (RB_idle g [] es cF _ Hr eq_refl) Halls Hcs' (pp_f1_free_oks g es xl F2 schunks Hf1)) as Hfin.
  rewrite (py_txs _ _ _ Hfin). unfold pp_slots.
  clear - F2. induction F2 as [|e x es xl (k & fl & Ee) F2 IH]; [constructor|]. cbn [map]. constructor; [exists k, fl; rewrite Ee; reflexivity|exact IH].
Qed.

Theorem pp_pairing_chunked_reported : forall cb g (xl : list pp_xc) (qchunks schunks : list bytes),
  wr_all_ok cb -> g_allow_space_uri g = false -> g_tx_auto_destroy g = false -> (g_max_tx g = 0 \/ length xl < g_max_tx g)%nat ->
  forallb (pp_xc_ok g) xl = true -> Forall pp_plain xl ->
  Forall (fun c => c <> []) qchunks -> concat qchunks = concat (map (fun x => wr_request_wire (xq x)) xl) ->
  Forall (fun c => c <> []) schunks -> concat schunks = concat (map pp_xwire xl) -> pp_f1_free xl schunks = true ->
  Forall2 (fun slot x => exists t, slot = Some t /\ wr_reported (sg_mask t) (xq x) /\ sr_reported t (xs x) (xbody x))
          (c_txs (fst (cp_run cb g connp_new (OpOpen :: map OpReqData qchunks ++ map OpResData schunks)))) xl.
Proof.
  intros cb g xl qchunks schunks Hcb Hsp Had Hmax Hok Hpl Hall Hc Halls Hcs Hf1.
  pose proof (pp_pairing_chunked cb g xl qchunks schunks Hcb Hsp Hmax Hok Hall Hc Halls Hcs Hf1) as P.
  set (l := c_txs _) in *. clearbody l. clear Hmax Hc Hall Hcs Halls Hf1. revert Hok Hpl. induction P as [|slot x l xl (k & fl & Es) P IH]; intros Hok Hpl; [constructor|].
  cbn [forallb] in Hok. apply andb_prop in Hok. destruct Hok as [H1 H2].
  constructor; [|apply IH; [exact H2|exact (Forall_inv_tail Hpl)]].
  exists (pp_tfin (pp_ex_of g k fl x)). split; [rewrite Es; unfold pr_slot; rewrite Had; reflexivity|].
  apply pp_tfin_facts; [exact Hsp|exact H1|exact (Forall_inv Hpl)].
Qed.

(* ================= non-vacuity and the vm_compute harness (the three exchanges of PPairThm.v) ================= *)
(* numeric fingerprint of the transaction list: status number, entity / message length, response and request progress, number of response
   and request headers, method number, protocol numbers *)
Definition pp_fp (c : connp) : list (option (list Z)) :=
  map (option_map (fun t => [t_response_status_number t; t_response_entity_len t; t_response_message_len t; t_response_progress t; t_request_progress t;
                             Z.of_nat (length (t_response_headers t)); Z.of_nat (length (t_request_headers t)); t_request_method_number t;
                             t_request_protocol_number t; t_response_protocol_number t])) (c_txs c).
Fixpoint pp_zl_eqb (a b : list Z) : bool := match a, b with [], [] => true | x :: a', y :: b' => (x =? y)%Z && pp_zl_eqb a' b' | _, _ => false end.
Fixpoint pp_fp_eqb (a b : list (option (list Z))) : bool :=
  match a, b with [], [] => true | Some x :: a', Some y :: b' => pp_zl_eqb x y && pp_fp_eqb a' b' | None :: a', None :: b' => pp_fp_eqb a' b' | _, _ => false end.
Definition pp_ex_qw : bytes := pp_ex_qwire pp_ex3.
Definition pp_ex_sw : bytes := pp_ex_swire pp_ex3.
Definition pp_ex_ref : list (option (list Z)) := pp_fp (pp_run (map (fun x => wr_request_wire (xq x)) pp_ex3) (map pp_xwire pp_ex3)).
Example pp_ex3_ref : pp_ex_ref =
  [Some [200; 3; 3; c_HTP_RESPONSE_COMPLETE; c_HTP_REQUEST_COMPLETE; 2; 2; c_HTP_M_GET; c_HTP_PROTOCOL_1_1; c_HTP_PROTOCOL_1_1];
   Some [404; 0; 0; c_HTP_RESPONSE_COMPLETE; c_HTP_REQUEST_COMPLETE; 1; 0; c_HTP_M_GET; c_HTP_PROTOCOL_1_0; c_HTP_PROTOCOL_1_0];
   Some [200; 3; 3; c_HTP_RESPONSE_COMPLETE; c_HTP_REQUEST_COMPLETE; 3; 1; c_HTP_M_POST; c_HTP_PROTOCOL_1_1; c_HTP_PROTOCOL_1_1]]%Z.
Proof. vm_compute. reflexivity. Qed.
(* the statement evaluated before it was proved: EVERY single cut of the 162-byte response wire (requests in one chunk). The premise
   pp_f1_free rejects exactly the two cuts that give other transactions (finding F1 on the third response, whose body starts with CR) *)
Example pp_ex3_response_cuts :
  forallb (fun k => let ch := [firstn k pp_ex_sw; skipn k pp_ex_sw] in
                    Bool.eqb (pp_f1_free pp_ex3 ch) (pp_fp_eqb (pp_fp (pp_run [pp_ex_qw] ch)) pp_ex_ref)) (seq 1 (length pp_ex_sw - 1)) = true /\
  filter (fun k => negb (pp_f1_free pp_ex3 [firstn k pp_ex_sw; skipn k pp_ex_sw])) (seq 1 (length pp_ex_sw - 1)) = [156; 158]%nat.
Proof. split; vm_compute; reflexivity. Qed.
(* every single cut of the 99-byte request wire, responses byte by byte; both sides byte by byte; one chunk each *)
Example pp_ex3_request_cuts :
  forallb (fun k => pp_fp_eqb (pp_fp (pp_run [firstn k pp_ex_qw; skipn k pp_ex_qw] (sg_bytewise pp_ex_sw))) pp_ex_ref) (seq 1 (length pp_ex_qw - 1)) = true /\
  pp_f1_free pp_ex3 (sg_bytewise pp_ex_sw) = true /\
  pp_fp_eqb (pp_fp (pp_run (sg_bytewise pp_ex_qw) (sg_bytewise pp_ex_sw))) pp_ex_ref = true /\
  pp_fp_eqb (pp_fp (pp_run [pp_ex_qw] [pp_ex_sw])) pp_ex_ref = true /\ pp_f1_free pp_ex3 [pp_ex_sw] = true.
Proof. split; [vm_compute; reflexivity|]. split; [vm_compute; reflexivity|]. split; [vm_compute; reflexivity|]. split; vm_compute; reflexivity. Qed.
(* chunks that span the response boundaries: the end of one response with the first bytes of the next status line (the RES_FINALIZE
   look-ahead buffers them), and a chunk that holds the end of response 1, all of response 2 and the beginning of response 3 *)
Example pp_ex3_spanning :
  let l1 := length (pp_xwire (mk_pp_xc wr_ex_req sr_ex1 (sr_cuts_whole sr_ex1) sr_ex1_body)) in
  let l2 := length (pp_xwire (mk_pp_xc sg_ex_req0 pp_ex_rs2 (sr_cuts_whole pp_ex_rs2) [])) in
  forallb (fun ab => let ch := [firstn (fst ab) pp_ex_sw; firstn (snd ab - fst ab) (skipn (fst ab) pp_ex_sw); skipn (snd ab) pp_ex_sw] in
                     pp_f1_free pp_ex3 ch && pp_fp_eqb (pp_fp (pp_run [pp_ex_qw] ch)) pp_ex_ref)
          (flat_map (fun a => map (fun b => (a, b)) (seq (l1 + 1) (l2 + 12))) (seq (l1 - 6) 6)) = true /\ l1 = 60%nat /\ l2 = 45%nat.
Proof. split; [vm_compute; reflexivity|]. split; vm_compute; reflexivity. Qed.
(* F1 refuted on a pipelined history (the listed finding): cut between the CR and the LF of the empty line of the third response *)
Example pp_f1_refuted :
  pp_f1_free pp_ex3 [firstn 158 pp_ex_sw; skipn 158 pp_ex_sw] = false /\
  pp_fp_eqb (pp_fp (pp_run [pp_ex_qw] [firstn 158 pp_ex_sw; skipn 158 pp_ex_sw])) pp_ex_ref = false.
Proof. split; vm_compute; reflexivity. Qed.

(* ================= FINAL THEOREMS FOR RE-EXPORT (Properties_C04.v) =================
   xl : list pp_xc  = the exchanges (xq : wr_request; xs : wr_response; xcuts : folding of the response header fields; xbody : response body)
   c  = fst (cp_run cb g connp_new (OpOpen :: map OpReqData qchunks ++ map OpResData schunks))
   Stage B  pp_pairing_chunked           Forall2 (fun slot x => exists k fl, slot = pr_slot g (pp_tfin (pp_ex_of g k fl x))) (c_txs c) xl
                                         = slot i is the transaction request i left (PSegRun.sg_tfin, k = its number, fl = HTP_MULTI_PACKET_HEAD) run
                                           through response i (PSegResRun.sr_after_hdr / PSegResThm.sr_tend): ALL fields; None when tx_auto_destroy
            pp_pairing_chunked_reported  Forall2 (fun slot x => exists t, slot = Some t /\ wr_reported (sg_mask t) (xq x) /\ sr_reported t (xs x) (xbody x)) (c_txs c) xl
   Stage A  PPairThm.pp_pairing_aligned / pp_pairing_aligned_reported : the same with schunks = map pp_xwire xl (one chunk per response; no F1 premise)
   premises: wr_all_ok cb, g_allow_space_uri g = false, g_max_tx g = 0 \/ length xl < g_max_tx g,
             forallb (pp_xc_ok g) xl = true     pp_xc_ok g x = sg_req_ok g (xq x) && sr_response_ok (xs x) && sr_cuts_ok (xs x) (xcuts x) &&
                                                               sr_framed_g (xq x) (xs x) (xcuts x) (xbody x) && sr_fits g (xs x) (xcuts x)
             qchunks / schunks: non-empty chunks, concat qchunks = concat (map (fun x => wr_request_wire (xq x)) xl), concat schunks = concat (map pp_xwire xl)
             pp_f1_free xl schunks = true       F1 (listed finding) excluded exactly (pp_ex3_response_cuts); vacuous unless a response body starts with CR
                                                (pp_f1_free_nocr: pp_nocr xl = true -> pp_f1_free xl chunks = true for every chunking)
             _reported: g_tx_auto_destroy g = false, Forall pp_plain xl (response header fields one line each, wr_block_ok)
   also: PPairReq.pq_after_requests (the parser after n pipelined requests in any chunking), PPairB.pp_pchunks (from any between-calls state),
         PPairReq.pq_req_data_keep (htp_connp_req_data leaves the response side alone unless it enters tunnel mode) *)
Print Assumptions pp_pairing_aligned.
Print Assumptions pp_pairing_aligned_reported.
Print Assumptions pp_pairing_chunked.
Print Assumptions pp_pairing_chunked_reported.
