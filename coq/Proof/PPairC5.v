(* C04, response direction for transaction number k: the passes of one call of htp_connp_res_data through ONE response of the
   wire grammar (status line, folded header block, empty line, Content-Length body), from any read offset of the chunk, in
   continuation-passing style: `goal c fuel rw'` is what the rest of the call has to establish (rw' = the wire that follows the
   chunk); the lemmas reduce it to (Hexit) the states in which the call may end inside this response and (Kfin) what happens
   from RES_FINALIZE on -- the end of the chunk (PPairA.v) or the look-ahead at the next response (PPairB.v). *)
Require Import Htp.Model.Base Htp.Model.MBstr Htp.Model.MConnTypes Htp.Model.MTxCommon Htp.Model.MResLine Htp.Model.MTxRes.
Require Import Htp.Model.MReq Htp.Model.MRes Htp.Model.MConnp.
Require Import Htp.Spec.SWire Htp.Proof.PWire Htp.Proof.PWireHdr Htp.Proof.PWireBlock Htp.Proof.PWireConn Htp.Proof.PWireExch.
Require Import Htp.Proof.PWireRun Htp.Proof.PWirePres Htp.Proof.PWireGlue Htp.Proof.PSeg Htp.Proof.PSegLine Htp.Proof.PSegHdr Htp.Proof.PSegGen Htp.Proof.PSegRun.
Require Import Htp.Proof.PSegFold Htp.Proof.PSegRes Htp.Proof.PSegResLine Htp.Proof.PSegResHdr Htp.Proof.PSegResGen Htp.Proof.PSegResRun.
Require Import Htp.Proof.PPairC1 Htp.Proof.PPairC2 Htp.Proof.PPairC3 Htp.Proof.PPairC4.

(* ---- the parser when a response is complete: RES_IDLE, the slot finalised, the read offset where the next response begins ---- *)
Record pj_done (w : pj_world) (c : connp) (d : bytes) (rd : nat) (p : bytes) (s : option tx) : Prop := mk_pj_done {
  jn_status : sg_live (c_out_status c);
  jn_state : c_out_state c = RES_IDLE;
  jn_prev : c_out_state_previous c = Some RES_IDLE;
  jn_data : k_data (c_out c) = Some d;
  jn_len : k_len (c_out c) = length d;
  jn_read : k_read (c_out c) = rd;
  jn_rd : (rd <= length d)%nat;
  jn_cons : (k_consume (c_out c) <= rd)%nat;
  jn_seen : sg_olist (k_buf (c_out c)) ++ firstn (rd - k_consume (c_out c)) (skipn (k_consume (c_out c)) d) = p;
  jn_hdr : k_header (c_out c) = None;
  jn_rh : k_receiver_hook (c_out c) = None;
  jn_rcv : (k_receiver (c_out c) <= rd)%nat;
  jn_next : c_out_next_tx_index c = S (pj_k w);
  jn_txs : c_txs c = jw_pre w ++ s :: jw_post w;
  jn_shift : c_txs_shifted c = 0%nat;
  jn_in : pj_qin c = jw_in w;
  jn_other : c_out_data_other_at_tx_end c = false }.

(* between two calls, between two responses: the response side is idle, `nx` responses have been attached so far *)
Record pj_rest (c : connp) (txs : list (option tx)) (nx : nat) (inn : pj_in) : Prop := mk_pj_rest {
  jy_status : sg_live (c_out_status c);
  jy_state : c_out_state c = RES_IDLE;
  jy_buf : sg_olist (k_buf (c_out c)) = [];
  jy_hdr : k_header (c_out c) = None;
  jy_rh : k_receiver_hook (c_out c) = None;
  jy_next : c_out_next_tx_index c = nx;
  jy_txs : c_txs c = txs;
  jy_shift : c_txs_shifted c = 0%nat;
  jy_in : pj_qin c = inn;
  jy_other : c_out_data_other_at_tx_end c = false }.
(* ... before the response to transaction number pj_k w *)
Definition pj_ready (w : pj_world) (c : connp) (t : tx) : Prop := pj_rest c (pj_txs w t) (pj_k w) (jw_in w).
(* the request side is not waiting for the response side *)
Definition pj_free (w : pj_world) : Prop := (pj_instat (jw_in w) =? c_HTP_STREAM_DATA_OTHER)%Z = false.

(* the world of the next response *)
Definition pj_wnext (w : pj_world) (s : option tx) (post' : list (option tx)) : pj_world := mk_pj_world (jw_pre w ++ [s]) post' (jw_in w).
Lemma pj_wnext_k w s post' : pj_k (pj_wnext w s post') = S (pj_k w).
Proof. unfold pj_k, pj_wnext. cbn [jw_pre]. rewrite app_length. cbn [length]. lia. Qed.
Lemma pj_wnext_txs w s tn post' : pj_txs (pj_wnext w s post') tn = jw_pre w ++ s :: Some tn :: post'.
Proof. unfold pj_txs, pj_wnext. cbn [jw_pre jw_post]. rewrite <- app_assoc. reflexivity. Qed.

Lemma pj_done_idle w c d rd p s tn post' : pj_done w c d rd p s -> jw_post w = Some tn :: post' -> pj_free (pj_wnext w s post') ->
  pj_idle (w := pj_wnext w s post') c d rd p (Some RES_IDLE) tn.
Proof.
  intros [A1 A2 A3 A4 A5 A6 A7 A8 A9 A10 A11 A12 A13 A14 A15 A16 A17] Ep Hfree.
  constructor; try assumption.
  - rewrite pj_wnext_k. exact A13.
  - rewrite pj_wnext_txs, A14, Ep. reflexivity.
  - rewrite (pj_qin_instat c _ A16). exact Hfree.
Qed.

Lemma pj_forget_out c :
  k_buf (c_out (forget_chunks c <| c_events := [] |>)) = k_buf (c_out c) /\ k_header (c_out (forget_chunks c <| c_events := [] |>)) = k_header (c_out c) /\
  k_receiver_hook (c_out (forget_chunks c <| c_events := [] |>)) = k_receiver_hook (c_out c).
Proof. cbn [forget_chunks c_out set]. cbn. unfold forget_one. destruct (k_data (c_out c)); repeat split. Qed.
Lemma pj_rest_finish c txs nx inn : pj_rest c txs nx inn -> pj_rest (forget_chunks c <| c_events := [] |>) txs nx inn.
Proof.
  intros [A1 A2 A3 A4 A5 A6 A7 A8 A9 A10]. destruct (pj_forget_out c) as (F1 & F2 & F3).
  constructor; rewrite ?F1, ?F2, ?F3, ?pj_qin_finish; assumption.
Qed.
Lemma pj_mid_finish w c p hdr st rh t : pj_midw w c p hdr st rh t -> pj_midw w (forget_chunks c <| c_events := [] |>) p hdr st rh t.
Proof.
  intros [A1 A2 A3 A4 A5 A6 A7 A8 A9 A10 A11 A12 A13]. destruct (pj_forget_out c) as (F1 & F2 & F3).
  constructor; rewrite ?F1, ?F2, ?F3, ?pj_qin_finish; assumption.
Qed.

Section Idle.
Variable cb : cb_oracle.
Variable g : cfg.
Hypothesis Hcb : wr_all_ok cb.
Hypothesis Had : g_tx_auto_destroy g = false.

(* RES_IDLE with nothing left in the chunk returns HTP_STREAM_DATA *)
Lemma pj_idle_end w c d p s : pj_done w c d (length d) p s ->
  sr_iter cb g c = inl (rs_set_out_status c_HTP_STREAM_DATA c, c_HTP_STREAM_DATA).
Proof.
  intros [A1 A2 A3 A4 A5 A6 A7 A8 A9 A10 A11 A12 A13 A14 A15 A16 A17].
  unfold sr_iter. rewrite A2. cbn [rs_state_fn]. unfold rs_RES_IDLE, rs_has_byte. rewrite A5, A6, Nat.ltb_irrefl. cbn [negb].
  unfold rs_res_exit, res_receiver_send_data. rewrite A11. reflexivity.
Qed.
Lemma pj_done_rest w c d s : pj_done w c d (length d) [] s ->
  pj_rest (rs_set_out_status c_HTP_STREAM_DATA c) (jw_pre w ++ s :: jw_post w) (S (pj_k w)) (jw_in w).
Proof.
  intros [A1 A2 A3 A4 A5 A6 A7 A8 A9 A10 A11 A12 A13 A14 A15 A16 A17].
  apply app_eq_nil in A9. destruct A9 as [B _].
  constructor; try assumption; try (right; reflexivity).
Qed.

(* entering htp_connp_res_data between two responses *)
Lemma pj_enter_ready w c t (x : bytes) : pj_ready w c t -> pj_free w -> x <> [] ->
  exists c1, connp_res_data cb g (Some x) (length x) c = rs_res_loop cb g (rs_res_fuel (length x)) false c1 /\
             pj_idle (w := w) c1 x 0 [] (c_out_state_previous c) t.
Proof.
  intros [A1 A2 A3 A4 A5 A6 A7 A8 A9 A10] Hfree Hne. unfold connp_res_data.
  rewrite (sg_live_stop _ A1), (sg_live_error _ A1), A2.
  assert (E0 : match c_out_tx c with Some _ => false | None => negb (res_state_eqb RES_IDLE RES_IDLE) end = false) by (destruct (c_out_tx c); reflexivity).
  rewrite E0.
  assert (L0 : (length x =? 0)%nat = false) by (destruct x; [contradiction|reflexivity]). rewrite L0. cbn [andb].
  match goal with |- context [(c_out_status ?y =? c_HTP_STREAM_TUNNEL)%Z] => change (c_out_status y) with (c_out_status c) end.
  rewrite (sg_live_tunnel _ A1).
  eexists. split; [reflexivity|].
  constructor; try assumption; try reflexivity; cbn; try lia.
  - rewrite app_nil_r. exact A3.
  - rewrite (pj_qin_instat c _ A9). exact Hfree.
Qed.

(* RES_FINALIZE at the end of the chunk: the response is complete *)
Lemma pj_finalize_end w c d t : pj_cinw w c d (length d) [] None RES_FINALIZE (Some RES_FINALIZE) None t ->
  t_res_cep t = c_HTP_COMPRESSION_NONE -> (t_response_transfer_coding t =? c_HTP_CODING_NO_BODY)%Z = false ->
  (t_response_progress t =? c_HTP_RESPONSE_COMPLETE)%Z = false ->
  exists c', sr_iter cb g c = inr c' /\ pj_done w c' d (length d) [] (Some (sr_tcomplete t)).
Proof.
  intros H Hcep Hcod Hprog. pose proof H as [A1 A2 A3 A4 A5 A6 A7 A8 A9 A10 A11 A12 A13 A14 A15 A16 A17 A18 A19].
  unfold sr_iter. rewrite A2. cbn [rs_state_fn]. unfold rs_RES_FINALIZE, rs_closed. rewrite (sg_live_closed _ A1). cbn [negb].
  rewrite (sr_peek c d A4 A5), A6.
  assert (Nn : nth_error d (length d) = None) by (apply nth_error_None; lia). rewrite Nn.
  set (c0 := rs_set_out (fun k => k <| k_next_byte := None |>) c).
  assert (H0 : pj_cinw w c0 d (length d) [] None RES_FINALIZE (Some RES_FINALIZE) None t) by (apply pj_cin_next; exact H).
  change (rs_nb c0) with (@None N). cbv iota.
  destruct (pj_response_complete cb g Hcb Had c0 d _ _ _ t H0 Hcep Hcod Hprog) as (c1 & E1 & [B1 B2 B3 B4 B5 B6 B7 B8 B9 B10]). rewrite E1.
  destruct H0 as [C1 C2 C3 C4 C5 C6 C7 C8 C9 C10 C11 C12 C13 C14 C15 C16 C17 C18 C19].
  rewrite B3, (sg_live_tunnel _ C1).
  unfold rs_handle_state_change. rewrite B4, C3, B5. cbn [res_state_eqb].
  eexists. split; [reflexivity|].
  constructor; cbn [c_out_status c_out_state c_out_state_previous c_out c_out_next_tx_index c_txs c_txs_shifted c_in_tx c_out_data_other_at_tx_end set];
    rewrite ?B2, ?B3, ?B5; try assumption; try reflexivity.
  change (pj_qin c1 = jw_in w). rewrite B9. exact C19.
Qed.
End Idle.

(* ================= one response, from any read offset ================= *)
Section One.
Variable cb : cb_oracle.
Variable g : cfg.
Hypothesis Hcb : wr_all_ok cb.
Context {w : pj_world}.
Notation pj_cin := (pj_cinw w).
Notation pj_mid := (pj_midw w).
Variables ps s r : bytes.
Variable ls : list sg_fl.
Variable body : bytes.
Variable t0 : tx.
Variable tailw : bytes.                                    (* the wire after this response *)
Hypothesis Wl : sr_status_ok ps s r = true.
Hypothesis Okl : forallb sg_fl_ok ls = true.
Hypothesis Hnp0 : sg_needs_pending ls = false.
Hypothesis H09 : t_is_protocol_0_9 t0 = false.
Let line0 := wr_ser_status_line ps s r.
Let th0 := sr_th0 t0 line0.
Let Tend := sr_lrun ls (None, th0).
Let n := length body.
Let TH := sr_hdrs_tx Tend.
Let has_hdr := negb (sr_is_nil ls).
Hypothesis Hframe : sr_frame_ok Tend n = true.
Hypothesis Hnoexp : rs_hdr_get_c (t_request_headers Tend) rs_str_expect = None.
Hypothesis Hlim0 : (length line0 + 2 <= g_field_limit_hard g)%nat.
Hypothesis Hfit : sr_ffit (g_field_limit_hard g) (sr_p11 th0) None ls = true.
Let btw := body ++ tailw.                                  (* what follows the empty line *)
Let bwt := sg_fwire ls ++ [CR; LF] ++ btw.                 (* what follows the status line *)
Let hlog := sr_hlog g Tend btw has_hdr.
(* the side condition on a chunk d followed by the wire rw' (finding F1): any predicate that implies the local condition of this response *)
Variable okd : bytes -> bytes -> Prop.
Hypothesis Hokd : forall d rw', okd d rw' -> sr_f1_local btw has_hdr d rw'.
(* the transaction when RES_FINALIZE is reached *)
Let Tpre := match n with O => TH | S _ => sr_body_add 0 (sr_body_add' n TH) end.

(* the states in which a call may end inside this response *)
Inductive qp_betw (c : connp) (rw : bytes) : Prop :=
| JW_line p q : pj_mid c p None RES_LINE None (sr_tx_start t0) -> p ++ q = line0 ++ [CR; LF] -> q <> [] -> rw = q ++ bwt -> qp_betw c rw
| JW_hdrs p hdr t : pj_mid c p hdr RES_HEADERS (Some H_RESPONSE_HEADER_DATA) t -> hlog hdr t p rw -> qp_betw c rw
| JW_body k : (k < n)%nat -> pj_mid c [] None RES_BODY_IDENTITY_CL_KNOWN None (sr_body_add' k TH) ->
    c_out_body_data_left c = Z.of_nat (n - k) -> rw = skipn k body ++ tailw -> qp_betw c rw.

Variable goal : connp -> nat -> bytes -> Prop.
Hypothesis Hstep : forall c c' fuel rw', sr_iter cb g c = inr c' -> goal c' fuel rw' -> goal c (S fuel) rw'.
Hypothesis Hexit : forall c cF fuel rw', sr_iter cb g c = inl (cF, c_HTP_STREAM_DATA) -> qp_betw cF rw' -> rw' <> [] -> goal c (S fuel) rw'.
Hypothesis Kfin : forall c d rd rw' fuel, okd d rw' -> pj_cin c d rd [] None RES_FINALIZE (Some RES_FINALIZE) None Tpre ->
  skipn rd d ++ rw' = tailw -> (8 * (length d - rd) + 13 <= fuel)%nat -> goal c fuel rw'.

Lemma qp_Tpre_cases : (n = 0%nat /\ Tpre = TH) \/ ((0 < n)%nat /\ Tpre = sr_body_add 0 (sr_body_add' n TH)).
Proof. unfold Tpre. generalize TH. generalize n. intros m T. destruct m; [left|right]; split; try reflexivity. apply Nat.lt_0_succ. Qed.
(* (nothing is assumed about the progress of the request: the response may be parsed while the request is in htp_connp_REQ_FINALIZE) *)
Lemma qp_TH_facts k : t_res_cep (sr_body_add' k TH) = c_HTP_COMPRESSION_NONE /\ (t_response_transfer_coding (sr_body_add' k TH) =? c_HTP_CODING_NO_BODY)%Z = false /\
  (t_response_progress (sr_body_add' k TH) =? c_HTP_RESPONSE_COMPLETE)%Z = false.
Proof.
  assert (P : t_response_progress Tend = c_HTP_RESPONSE_HEADERS).
  { unfold Tend. destruct (sr_lrun_keep ls (None, th0)) as [A B]. cbn [snd] in B. destruct (sr_th0_keep t0 line0) as [C D]. fold th0 in D. rewrite B, D. reflexivity. }
  destruct (sr_hdrs_tx_facts Tend n Hframe P) as (A & B & C & _). fold TH in A, B, C.
  destruct (sr_body_add'_facts k TH) as (A' & B' & C' & _). rewrite A', B', C'. repeat split; assumption.
Qed.
Lemma qp_Tpre_facts : t_res_cep Tpre = c_HTP_COMPRESSION_NONE /\ (t_response_transfer_coding Tpre =? c_HTP_CODING_NO_BODY)%Z = false /\
  (t_response_progress Tpre =? c_HTP_RESPONSE_COMPLETE)%Z = false /\
  sr_tcomplete Tpre = sr_after_hdr n Tend.
Proof.
  split; [|split; [|split; [|reflexivity]]].
  all: destruct qp_Tpre_cases as [[_ E]|[_ E]]; rewrite E.
  all: try (destruct (qp_TH_facts 0) as (A & B & C); assumption).
  all: destruct (qp_TH_facts n) as (A & B & C); assumption.
Qed.

(* ---- RES_BODY_IDENTITY_CL_KNOWN ---- *)
Lemma qp_run_body c d rd k (rw' : bytes) fuel : okd d rw' ->
  pj_cin c d rd [] None RES_BODY_IDENTITY_CL_KNOWN (Some RES_BODY_IDENTITY_CL_KNOWN) None (sr_body_add' k TH) ->
  (k < n)%nat -> c_out_body_data_left c = Z.of_nat (n - k) -> skipn rd d ++ rw' = skipn k body ++ tailw ->
  (8 * (length d - rd) + 14 <= fuel)%nat -> goal c fuel rw'.
Proof.
  intros Hok H Hk Hl Hw Hf. pose proof (ji_rd _ _ _ _ _ _ _ _ _ H) as Hrd.
  destruct (qp_TH_facts k) as (Fc & Fd & Fp).
  assert (Lsk : length (skipn rd d) = (length d - rd)%nat) by apply skipn_length.
  assert (Lsb : length (skipn k body) = (n - k)%nat) by apply skipn_length.
  destruct fuel as [|f]; [lia|].
  destruct (le_lt_dec (n - k) (length d - rd)) as [Lge|Llt].
  - (* the body ends in this chunk *)
    destruct (pj_body_pass_end cb g Hcb c d rd _ (n - k) H Fc Hl ltac:(lia) Lge) as (c1 & E1 & H1).
    apply (Hstep c c1 f rw' E1).
    rewrite (sr_body_add_fuse (n - k) k TH ltac:(lia)) in H1. replace (k + (n - k))%nat with n in H1 by lia.
    assert (Et : sr_body_add 0 (sr_body_add' n TH) = Tpre) by (unfold Tpre; destruct n; [lia|reflexivity]). rewrite Et in H1.
    apply (Kfin c1 d (rd + (n - k))%nat rw' f Hok H1); [|lia].
    assert (E : skipn (n - k) (skipn rd d ++ rw') = skipn (rd + (n - k)) d ++ rw').
    { rewrite skipn_app, Lsk. replace (n - k - (length d - rd))%nat with 0%nat by lia. cbn [skipn]. rewrite sr_skipn_skipn. reflexivity. }
    rewrite <- E, Hw, skipn_app, Lsb, Nat.sub_diag, skipn_all2 by lia. reflexivity.
  - (* the chunk ends inside the body *)
    pose proof (pj_body_pass cb g Hcb c d rd _ (n - k) H Fc Hl ltac:(lia) ltac:(lia)) as P. cbv zeta in P.
    assert (Erw : rw' = skipn (k + (length d - rd)) body ++ tailw).
    { assert (E : skipn (length d - rd) (skipn rd d ++ rw') = rw') by (rewrite skipn_app, skipn_all2 by lia; rewrite Lsk, Nat.sub_diag; reflexivity).
      rewrite Hw, skipn_app, Lsb in E. replace (length d - rd - (n - k))%nat with 0%nat in E by lia. cbn [skipn] in E. rewrite sr_skipn_skipn in E. symmetry. exact E. }
    assert (Hne : rw' <> []).
    { rewrite Erw. intro E. apply (f_equal (@length N)) in E. rewrite app_length, skipn_length in E. cbn [length] in E. fold n in E. lia. }
    destruct (length d - rd)%nat as [|j'] eqn:Ej.
    + apply (Hexit c _ f rw' P); [|exact Hne]. rewrite Nat.add_0_r in Erw.
      apply (JW_body _ _ k Hk); [|exact Hl|exact Erw].
      assert (Erd : rd = length d) by lia. subst rd. apply (pj_exit_data cb g c d _ None _ _ H).
    + rewrite <- Ej in *. set (j := (length d - rd)%nat) in *.
      assert (Elt : (j <? n - k)%nat = true) by (apply Nat.ltb_lt; exact Llt). rewrite Elt in P. destruct P as (c1 & E1 & H1 & L1).
      apply (Hexit c _ f rw' E1); [|exact Hne].
      rewrite (sr_body_add_fuse j k TH ltac:(lia)) in H1.
      apply (JW_body _ _ (k + j)%nat); [lia|apply (pj_exit_data cb g c1 d _ None _ _ H1)| |exact Erw].
      change (c_out_body_data_left (rs_set_out_status c_HTP_STREAM_DATA c1)) with (c_out_body_data_left c1). rewrite L1. f_equal. lia.
Qed.

(* ---- after the empty line: RES_BODY_DETERMINE, then the body or RES_FINALIZE ---- *)
Lemma qp_tail c c1 d rd1 (rw' : bytes) fuel : okd d rw' -> c_out_state c = RES_HEADERS -> rs_state_fn cb g RES_HEADERS c = (ST_OK, c1) ->
  pj_cin c1 d rd1 [] None RES_BODY_DETERMINE (Some RES_HEADERS) (Some H_RESPONSE_HEADER_DATA) Tend -> skipn rd1 d ++ rw' = btw ->
  (8 * (length d - rd1) + 16 <= fuel)%nat -> goal c fuel rw'.
Proof.
  intros Hok Es Ef H1 Hw Hf. rewrite <- Es in Ef.
  destruct (pj_iter_ok cb g c c1 d rd1 _ _ _ _ _ _ Ef H1) as (c2 & E2 & H2); [discriminate|].
  destruct fuel as [|[|f]]; [lia|lia|].
  apply (Hstep c c2 _ rw' E2).
  destruct (pj_pass_determine cb g Hcb c2 d rd1 Tend n H2 Hframe Hnoexp) as (c3 & E3 & H3).
  apply (Hstep c2 c3 _ rw' E3).
  assert (Hc : (n = 0%nat /\ pj_cin c3 d rd1 [] None RES_FINALIZE (Some RES_FINALIZE) None TH) \/
               ((0 < n)%nat /\ pj_cin c3 d rd1 [] None RES_BODY_IDENTITY_CL_KNOWN (Some RES_BODY_IDENTITY_CL_KNOWN) None TH /\ c_out_body_data_left c3 = Z.of_nat n)).
  { clear - H3. destruct n as [|n']; [left; split; [reflexivity|exact H3]|right; split; [lia|exact H3]]. }
  clear H3. destruct Hc as [[En H3]|[Hpos [H3 L3]]].
  - assert (Eb : body = []) by (apply length_zero_iff_nil; exact En).
    assert (Et : TH = Tpre) by (unfold Tpre; rewrite En; reflexivity). rewrite Et in H3.
    apply (Kfin c3 d rd1 rw' f Hok H3); [|lia]. rewrite Hw. unfold btw. rewrite Eb. reflexivity.
  - apply (qp_run_body c3 d rd1 0 rw' f Hok H3); [lia|rewrite L3; f_equal; lia|exact Hw|lia].
Qed.

(* ---- a call that is (or gets) in RES_HEADERS ---- *)
Lemma qp_hdrs_finish c d (rw' : bytes) fuel nn : okd d rw' ->
  c_out_state c = RES_HEADERS -> rs_state_fn cb g RES_HEADERS c = rs_headers_loop cb g nn false c ->
  ((exists c' p' hdr' t', rs_headers_loop cb g nn false c = (ST_DATA_BUFFER, c') /\
      pj_cin c' d (length d) p' hdr' RES_HEADERS (Some RES_HEADERS) (Some H_RESPONSE_HEADER_DATA) t' /\
      hlog hdr' t' p' rw' /\ rw' <> []) \/
   (exists c' rd1, rs_headers_loop cb g nn false c = (ST_OK, c') /\
      pj_cin c' d rd1 [] None RES_BODY_DETERMINE (Some RES_HEADERS) (Some H_RESPONSE_HEADER_DATA) Tend /\ skipn rd1 d ++ rw' = btw /\
      (8 * (length d - rd1) + 16 <= fuel)%nat)) ->
  (1 <= fuel)%nat -> goal c fuel rw'.
Proof.
  intros Hok Es Ef [HA|HB] Hf.
  - destruct HA as (c' & p' & hdr' & t' & EA & HA1 & HA2 & HA3).
    assert (Lim : (length p' + length (sg_olist hdr') <= g_field_limit_hard g)%nat).
    { destruct HA2 as (pe & te & re & q' & ea & Hr' & _ & _ & _ & _ & Hne & Hea & _ & Fit & _). pose proof (sr_ffit_next _ _ _ _ Fit) as L.
      pose proof (sr_rel_len _ _ _ _ _ Hr'). destruct ea.
      - destruct (Hea eq_refl) as (Er & Ep & _). subst re p'. cbn [sg_fnext length] in L |- *. lia.
      - destruct (Hne eq_refl) as (Epq & _). rewrite <- Epq, app_length in L. lia. }
    destruct (pj_exit_buffer cb g Hcb c' d p' hdr' _ _ t' HA1 Lim) as (cF & EF & HF).
    destruct fuel as [|f]; [lia|].
    apply (Hexit c cF f rw'); [unfold sr_iter; rewrite Es, Ef, EA, EF; reflexivity| |exact HA3].
    apply (JW_hdrs _ _ p' hdr' t' HF HA2).
  - destruct HB as (c' & rd1 & EB & HB1 & HB2 & HB3). rewrite <- Ef in EB.
    apply (qp_tail c c' d rd1 rw' fuel Hok Es EB HB1 HB2 HB3).
Qed.

Lemma qp_hdr_fuel (d : bytes) rd rd1 fuel : (rd1 <= length d)%nat -> (rd <= rd1)%nat -> (8 * (length d - rd) + 16 <= fuel)%nat -> (8 * (length d - rd1) + 16 <= fuel)%nat.
Proof. lia. Qed.

(* the read offset does not go back in RES_HEADERS *)
Lemma qp_call_hdrs c d p hdr t (rw' : bytes) fuel : okd d rw' ->
  pj_cin c d 0 p hdr RES_HEADERS (Some RES_HEADERS) (Some H_RESPONSE_HEADER_DATA) t -> hlog hdr t p (d ++ rw') ->
  (8 * length d + 16 <= fuel)%nat -> goal c fuel rw'.
Proof.
  intros Hok H (pend & tl & rem & q & eaten & Hrel & Ok & Hnp & Hrun & Hprog & Hne & Hea & Hw & Hfit' & Hhh) Hf.
  assert (Es : c_out_state c = RES_HEADERS) by apply (ji_state _ _ _ _ _ _ _ _ _ H).
  assert (Ef : rs_state_fn cb g RES_HEADERS c = rs_headers_loop cb g (S (S (length d))) false c).
  { cbn [rs_state_fn]. unfold rs_RES_HEADERS, rs_bytes_fuel. rewrite (ji_len _ _ _ _ _ _ _ _ _ H), (ji_read _ _ _ _ _ _ _ _ _ H), Nat.sub_0_r. reflexivity. }
  apply (qp_hdrs_finish c d rw' fuel _ Hok Es Ef); [|lia].
  destruct (pj_hdrs_loop cb g d rw' Tend btw has_hdr (Hokd _ _ Hok) rem c 0 p q hdr t pend tl (S (S (length d))) false eaten H Hrel Ok Hnp Hrun Hprog Hne Hea Hw Hfit' Hhh) as [HA|HB];
    [discriminate|left; reflexivity|intros _; left; reflexivity|lia| |].
  - left. exact HA.
  - right. destruct HB as (c' & rd1 & EB & HB1 & HB2). exists c', rd1. split; [exact EB|]. split; [exact HB1|]. split; [exact HB2|]. lia.
Qed.
Lemma qp_call_start c d rd (rw' : bytes) fuel : okd d rw' ->
  pj_cin c d rd [] None RES_HEADERS (Some RES_HEADERS) (Some H_RESPONSE_HEADER_DATA) th0 -> skipn rd d ++ rw' = bwt ->
  (8 * (length d - rd) + 16 <= fuel)%nat -> goal c fuel rw'.
Proof.
  intros Hok H Hw Hf. pose proof (ji_rd _ _ _ _ _ _ _ _ _ H) as Hrd.
  assert (Es : c_out_state c = RES_HEADERS) by apply (ji_state _ _ _ _ _ _ _ _ _ H).
  assert (Ef : rs_state_fn cb g RES_HEADERS c = rs_headers_loop cb g (S (S (length d - rd))) false c).
  { cbn [rs_state_fn]. unfold rs_RES_HEADERS, rs_bytes_fuel. rewrite (ji_len _ _ _ _ _ _ _ _ _ H), (ji_read _ _ _ _ _ _ _ _ _ H). reflexivity. }
  apply (qp_hdrs_finish c d rw' fuel _ Hok Es Ef); [|lia].
  destruct (pj_hdrs_loop cb g d rw' Tend btw has_hdr (Hokd _ _ Hok) ls c rd [] (sg_fnext ls) None th0 None th0 (S (S (length d - rd))) false false H) as [HA|HB].
  - left. split; reflexivity.
  - exact Okl.
  - rewrite Hnp0. discriminate.
  - reflexivity.
  - apply (sr_th0_keep t0 line0).
  - intros _. split; [reflexivity|apply sg_fnext_ne].
  - discriminate.
  - rewrite Hw. unfold bwt. apply sg_fwire_split.
  - exact Hfit.
  - apply sr_is_nil_false.
  - discriminate.
  - right. reflexivity.
  - discriminate.
  - lia.
  - left. exact HA.
  - right. destruct HB as (c' & rd1 & EB & HB1 & HB2). exists c', rd1. split; [exact EB|]. split; [exact HB1|]. split; [exact HB2|].
    (* rd <= rd1: the wire that remains after the header block is not longer than the one before it *)
    pose proof (ji_rd _ _ _ _ _ _ _ _ _ HB1) as Hrd1.
    assert (La : length (skipn rd d ++ rw') = length bwt) by (rewrite Hw; reflexivity).
    assert (Lb : length (skipn rd1 d ++ rw') = length btw) by (rewrite HB2; reflexivity).
    unfold bwt in La. rewrite !app_length, !skipn_length in *. lia.
Qed.

(* ---- RES_LINE: the rest of the chunk lies inside the status line ---- *)
Lemma pj_line_partial c d rd p hdr prev rh t u0 r0 nn : pj_cin c d rd p hdr RES_LINE prev rh t ->
  skipn rd d = u0 ++ r0 -> sr_plain u0 = true -> r0 = [] \/ r0 = [CR] -> (length d - rd < nn)%nat ->
  exists c', rs_line_loop cb g nn c = (ST_DATA_BUFFER, c') /\ pj_cin c' d (length d) (p ++ skipn rd d) hdr RES_LINE prev rh t.
Proof.
  intros H Hu Ps Hr0 Hn. pose proof (ji_rd _ _ _ _ _ _ _ _ _ H) as Hrd.
  assert (Lu : length (skipn rd d) = (length d - rd)%nat) by apply skipn_length. rewrite Hu, app_length in Lu.
  replace nn with (length u0 + S (nn - length u0 - 1))%nat by lia.
  destruct (pj_line_scan_plain cb g d hdr prev rh t u0 c rd p (S (nn - length u0 - 1)) r0 H Hu Ps) as (c1 & E1 & H1 & R1). rewrite E1, Hu.
  destruct Hr0 as [E|E]; subst r0.
  - cbn [length] in Lu. assert (Erd : (rd + length u0)%nat = length d) by lia. rewrite Erd in H1. rewrite app_nil_r.
    exists c1. split; [apply (pj_line_loop_end cb g c1 d _ hdr _ _ t _ H1)|exact H1].
  - destruct (pj_line_loop_cr_end cb g c1 d _ _ hdr _ _ t (nn - length u0 - 1) H1 R1) as (c2 & E2 & H2).
    exists c2. split; [exact E2|]. rewrite <- app_assoc in H2. exact H2.
Qed.

(* ---- a call that is in RES_LINE ---- *)
Lemma qp_run_line c d rd p q (rw' : bytes) fuel : okd d rw' ->
  pj_cin c d rd p None RES_LINE (Some RES_LINE) None (sr_tx_start t0) ->
  p ++ q = line0 ++ [CR; LF] -> q <> [] -> skipn rd d ++ rw' = q ++ bwt ->
  (8 * (length d - rd) + 9 <= fuel)%nat -> goal c fuel rw'.
Proof.
  intros Hok H Hpq Hq Hw Hf. pose proof (ji_rd _ _ _ _ _ _ _ _ _ H) as Hrd.
  destruct (sr_status_line_shape ps s r Wl) as (Pl & _). fold line0 in Pl.
  destruct (sg_app_cases (skipn rd d) rw' q _ Hw) as [Clt Cge].
  assert (Es : c_out_state c = RES_LINE) by apply (ji_state _ _ _ _ _ _ _ _ _ H).
  assert (Lsk : length (skipn rd d) = (length d - rd)%nat) by apply skipn_length.
  destruct fuel as [|f]; [lia|].
  destruct (Nat.lt_ge_cases (length (skipn rd d)) (length q)) as [Llt|Lge].
  - (* the chunk ends inside the status line *)
    destruct (Clt Llt) as (q2 & Eq & Hq2 & Erw).
    assert (Hpq' : p ++ skipn rd d ++ q2 = line0 ++ [CR; LF]) by (rewrite <- Eq; exact Hpq).
    destruct (sr_prefix_shape line0 p (skipn rd d) q2 Pl Hpq' Hq2) as (u0 & r0 & Eu & Ps & Hr0).
    destruct (pj_line_partial c d rd p None _ None _ u0 r0 (S (S (length d - rd))) H Eu Ps Hr0 ltac:(lia)) as (c' & E & H').
    assert (Lim : (length (p ++ skipn rd d) + length (sg_olist None) <= g_field_limit_hard g)%nat).
    { assert (L : length (p ++ skipn rd d ++ q2) = (length line0 + 2)%nat) by (rewrite Hpq', app_length; reflexivity). rewrite !app_length in L. rewrite app_length.
      cbn [sg_olist length]. lia. }
    destruct (pj_exit_buffer cb g Hcb c' d _ None _ _ _ H' Lim) as (cF & EF & HF).
    apply (Hexit c cF f rw').
    + unfold sr_iter. rewrite Es. cbn [rs_state_fn]. unfold rs_RES_LINE, rs_bytes_fuel.
      rewrite (ji_len _ _ _ _ _ _ _ _ _ H), (ji_read _ _ _ _ _ _ _ _ _ H), E, EF. reflexivity.
    + apply (JW_line _ _ (p ++ skipn rd d) q2 HF); [rewrite <- app_assoc; exact Hpq'|exact Hq2|exact Erw].
    + rewrite Erw. destruct q2; [contradiction|discriminate].
  - (* the status line is complete in this chunk *)
    destruct (Cge Lge) as (d2 & Ed & Eaft).
    destruct (pj_pass_line cb g Hcb c d rd p q d2 _ ps s r Wl H Ed Hq Hpq Hlim0) as (c2 & E2 & H2 & Hr2).
    apply (Hstep c c2 f rw' E2).
    assert (Lq : (0 < length q)%nat) by (destruct q; [contradiction|cbn [length]; lia]).
    pose proof (ji_rd _ _ _ _ _ _ _ _ _ H2) as Hrd2.
    apply (qp_call_start c2 d _ rw' f Hok H2); [rewrite Hr2; symmetry; exact Eaft|lia].
Qed.

(* ---- RES_IDLE with the beginning of this response ---- *)
Lemma qp_run_idle c d rd p q prev (rw' : bytes) fuel : okd d rw' ->
  pj_idle (w := w) c d rd p prev t0 -> (rd < length d)%nat ->
  p ++ q = line0 ++ [CR; LF] -> q <> [] -> skipn rd d ++ rw' = q ++ bwt ->
  (8 * (length d - rd) + 10 <= fuel)%nat -> goal c fuel rw'.
Proof.
  intros Hok H Hlt Hpq Hq Hw Hf.
  destruct (pj_pass_idle cb g Hcb c d rd p prev t0 H Hlt H09) as (c1 & E1 & H1).
  destruct fuel as [|f]; [lia|].
  apply (Hstep c c1 f rw' E1).
  apply (qp_run_line c1 d rd p q rw' f Hok H1 Hpq Hq Hw). lia.
Qed.

(* ---- one call of htp_connp_res_data that starts inside this response ---- *)
Lemma qp_betw_finish c rw : qp_betw c rw -> qp_betw (forget_chunks c <| c_events := [] |>) rw.
Proof.
  intros [p q Hm Hpq Hq Erw|p hdr t Hm Hl|k Hk Hm Hl Erw].
  - apply (JW_line _ _ p q (pj_mid_finish _ _ _ _ _ _ _ Hm) Hpq Hq Erw).
  - apply (JW_hdrs _ _ p hdr t (pj_mid_finish _ _ _ _ _ _ _ Hm) Hl).
  - apply (JW_body _ _ k Hk (pj_mid_finish _ _ _ _ _ _ _ Hm) Hl Erw).
Qed.
Lemma qp_step c (rw x rw' : bytes) : qp_betw c rw -> x <> [] -> rw = x ++ rw' -> okd x rw' ->
  exists c1, connp_res_data cb g (Some x) (length x) c = rs_res_loop cb g (rs_res_fuel (length x)) false c1 /\
             goal c1 (rs_res_fuel (length x)) rw'.
Proof.
  intros [p q Hm Hpq Hq Erw|p hdr t Hm Hl|k Hk Hm Hl Erw] Hne Ex Hok.
  - destruct (pj_enter cb g c p None _ _ _ x Hm Hne) as (c1 & E1 & H1). exists c1. split; [exact E1|].
    apply (qp_run_line c1 x 0 p q rw' _ Hok H1 Hpq Hq); [cbn [skipn]; rewrite <- Ex; exact Erw|unfold rs_res_fuel; lia].
  - destruct (pj_enter cb g c p hdr _ _ t x Hm Hne) as (c1 & E1 & H1). exists c1. split; [exact E1|].
    apply (qp_call_hdrs c1 x p hdr t rw' _ Hok H1); [rewrite <- Ex; exact Hl|unfold rs_res_fuel; lia].
  - destruct (pj_enter_left cb g c [] None _ _ _ x Hm Hne) as (c1 & E1 & H1 & L1). exists c1. split; [exact E1|].
    apply (qp_run_body c1 x 0 k rw' _ Hok H1 Hk); [rewrite L1; exact Hl|cbn [skipn]; rewrite <- Ex; exact Erw|unfold rs_res_fuel; lia].
Qed.
End One.
