(* C04, Stage C: n exchanges of the wire grammar delivered as ANY legal interleaving of request chunks and response chunks give n
   transactions; the i-th reports request i and carries response i.  "Legal" (pk_blegal) is a computable boolean over the operation
   list: no byte of response i is offered before the last byte of request i has been offered. *)
Require Import Htp.Model.Base Htp.Model.MBstr Htp.Model.MConnTypes Htp.Model.MTxCommon Htp.Model.MReqLine Htp.Model.MReqUri Htp.Model.MTxReq Htp.Model.MResLine Htp.Model.MTxRes.
Require Import Htp.Model.MReq Htp.Model.MRes Htp.Model.MConnp.
Require Import Htp.Spec.SWire Htp.Proof.PWire Htp.Proof.PWireHdr Htp.Proof.PWireBlock Htp.Proof.PWireConn Htp.Proof.PWireExch.
Require Import Htp.Proof.PWireRun Htp.Proof.PWirePres Htp.Proof.PWireGlue Htp.Proof.PSeg Htp.Proof.PSegLine Htp.Proof.PSegHdr Htp.Proof.PSegGen Htp.Proof.PSegRun.
Require Import Htp.Proof.PSegFold Htp.Proof.PSegPipe Htp.Proof.PSegRes Htp.Proof.PSegResLine Htp.Proof.PSegResHdr Htp.Proof.PSegResGen Htp.Proof.PSegResRun Htp.Proof.PSegResReq Htp.Proof.PSegResThm Htp.Proof.PSegResCanon.
Require Import Htp.Proof.PPairA Htp.Proof.PPairB Htp.Proof.PPairReq Htp.Proof.PPairThm Htp.Proof.PPairThmB Htp.Proof.PPairCq Htp.Proof.PPairCr.
Require Import Htp.Proof.PPairC1 Htp.Proof.PPairC5 Htp.Proof.PPairC7 Htp.Proof.PPairC8 Htp.Proof.PPairC9 Htp.Proof.PPairCa Htp.Proof.PPairCs Htp.Proof.PPairCt Htp.Proof.PPairCu Htp.Proof.PPairCv.

(* ================= the history ================= *)
Definition pk_nonnil (x : bytes) : bool := match x with [] => false | _ => true end.
(* data operations only, no empty chunk *)
Definition pk_data_ok (ops : list cp_op) : bool :=
  forallb (fun o => match o with OpReqData x => pk_nonnil x | OpResData y => pk_nonnil y | _ => false end) ops.
(* the request chunks / the response chunks of the history, in order *)
Fixpoint pk_reqs (ops : list cp_op) : list bytes := match ops with [] => [] | OpReqData x :: r => x :: pk_reqs r | _ :: r => pk_reqs r end.
Fixpoint pk_ress (ops : list cp_op) : list bytes := match ops with [] => [] | OpResData y :: r => y :: pk_ress r | _ :: r => pk_ress r end.

(* a stricter notion, used for the sequential histories: m = the number of requests known to be parser-complete (PPairCa.pk_ready, the
   maximum over the request calls so far), qn / sn = the number of request / response bytes still to come.  A response chunk must
   lie within the responses to the first m requests. *)
Fixpoint pk_legal_from (xl : list pp_xc) (m qn sn : nat) (ops : list cp_op) : bool :=
  match ops with
  | [] => true
  | OpReqData x :: r => pk_legal_from xl (Nat.max m (pk_ready xl (qn - length x))) (qn - length x) sn r
  | OpResData y :: r => (length (pp_ex_swire (skipn m xl)) + length y <=? sn)%nat && pk_legal_from xl m qn (sn - length y) r
  | _ :: _ => false
  end.
Definition pk_legal (xl : list pp_xc) (ops : list cp_op) : bool := pk_legal_from xl 0 (length (pp_ex_qwire xl)) (length (pp_ex_swire xl)) ops.

(* LEGALITY: no byte of response i before the last byte of request i has been offered (PPairCa.pk_offered = the number of requests
   offered completely when qn request bytes are still to come) *)
Fixpoint pk_blegal_from (xl : list pp_xc) (qn sn : nat) (ops : list cp_op) : bool :=
  match ops with
  | [] => true
  | OpReqData x :: r => pk_blegal_from xl (qn - length x) sn r
  | OpResData y :: r => (length (pp_ex_swire (skipn (pk_offered xl qn) xl)) + length y <=? sn)%nat && pk_blegal_from xl qn (sn - length y) r
  | _ :: _ => false
  end.
Definition pk_blegal (xl : list pp_xc) (ops : list cp_op) : bool := pk_blegal_from xl (length (pp_ex_qwire xl)) (length (pp_ex_swire xl)) ops.

(* a shuffle of two lists: the order within each is kept *)
Inductive pk_shuffle {A : Type} : list A -> list A -> list A -> Prop :=
| SH_nil : pk_shuffle [] [] []
| SH_l a l1 l2 l : pk_shuffle l1 l2 l -> pk_shuffle (a :: l1) l2 (a :: l)
| SH_r a l1 l2 l : pk_shuffle l1 l2 l -> pk_shuffle l1 (a :: l2) (a :: l).
Lemma pk_shuffle_proj : forall ops qch sch, pk_shuffle (map OpReqData qch) (map OpResData sch) ops ->
  pk_reqs ops = qch /\ pk_ress ops = sch /\ (Forall (fun c => c <> []) qch -> Forall (fun c => c <> []) sch -> pk_data_ok ops = true).
Proof.
  induction ops as [|o ops IH]; intros qch sch H; inversion H as [|a l1 l2 l H' E1 E2 E3|a l1 l2 l H' E1 E2 E3].
  - destruct qch; [|discriminate]. destruct sch; [|discriminate]. split; [reflexivity|]. split; reflexivity.
  - subst. destruct qch as [|x qch]; [discriminate|]. cbn [map] in E1. inversion E1. subst.
    destruct (IH qch sch H') as (A & B & C). cbn [pk_reqs pk_ress]. rewrite A, B. split; [reflexivity|]. split; [reflexivity|].
    intros Fq Fs. cbn [pk_data_ok forallb]. fold (pk_data_ok ops). rewrite (C (Forall_inv_tail Fq) Fs), andb_true_r.
    pose proof (Forall_inv Fq) as N. destruct x; [contradiction|reflexivity].
  - subst. destruct sch as [|y sch]; [discriminate|]. cbn [map] in E2. inversion E2. subst.
    destruct (IH qch sch H') as (A & B & C). cbn [pk_reqs pk_ress]. rewrite A, B. split; [reflexivity|]. split; [reflexivity|].
    intros Fq Fs. cbn [pk_data_ok forallb]. fold (pk_data_ok ops). rewrite (C Fq (Forall_inv_tail Fs)), andb_true_r.
    pose proof (Forall_inv Fs) as N. destruct y; [contradiction|reflexivity].
Qed.

(* ================= lists ================= *)
Lemma pk_swire_app l1 l2 : pp_ex_swire (l1 ++ l2) = pp_ex_swire l1 ++ pp_ex_swire l2.
Proof. unfold pp_ex_swire. rewrite map_app, concat_app. reflexivity. Qed.
Lemma pk_qwire_app l1 l2 : pp_ex_qwire (l1 ++ l2) = pp_ex_qwire l1 ++ pp_ex_qwire l2.
Proof. unfold pp_ex_qwire. rewrite map_app, concat_app. reflexivity. Qed.
Lemma pk_skipn_split {A} (m a : nat) (l : list A) : (m <= a)%nat -> skipn m l = firstn (a - m) (skipn m l) ++ skipn a l.
Proof.
  intros L. rewrite <- (firstn_skipn (a - m) (skipn m l)) at 1. f_equal.
  revert l a L. induction m as [|m IH]; intros l a L.
  - cbn [skipn]. rewrite Nat.sub_0_r. reflexivity.
  - destruct l as [|b l]; [cbn [skipn]; rewrite !skipn_nil; reflexivity|]. destruct a as [|a]; [lia|]. cbn [skipn Nat.sub]. apply IH. lia.
Qed.
Lemma pk_stail_mono (xl : list pp_xc) m a : (m <= a)%nat -> (length (pp_ex_swire (skipn a xl)) <= length (pp_ex_swire (skipn m xl)))%nat.
Proof. intros L. rewrite (pk_skipn_split m a xl L), pk_swire_app, app_length. lia. Qed.

Section Run.
Variable cb : cb_oracle.
Variable g : cfg.
Hypothesis Hcb : wr_all_ok cb.
Hypothesis Hsp : g_allow_space_uri g = false.
Hypothesis Had : g_tx_auto_destroy g = false.
Variable xl : list pp_xc.
Hypothesis Hokx : forallb (pp_xc_ok g) xl = true.
Hypothesis Hnoexp : forallb pk_noexp xl = true.
Hypothesis Hmax : (g_max_tx g = 0 \/ length xl < g_max_tx g)%nat.

Lemma pk_run_cons_q c (x : bytes) ops :
  fst (cp_run cb g c (OpReqData x :: ops)) = fst (cp_run cb g (forget_chunks (fst (connp_req_data cb g (Some x) (length x) c)) <| c_events := [] |>) ops).
Proof.
  cbn [cp_run cp_step]. destruct (connp_req_data cb g (Some x) (length x) c) as [c1 rc]. cbn [fst]. unfold finish_call.
  destruct (cp_run cb g (forget_chunks c1 <| c_events := [] |>) ops) as [c2 xs]. reflexivity.
Qed.
Lemma pk_run_cons_s c (x : bytes) ops :
  fst (cp_run cb g c (OpResData x :: ops)) = fst (cp_run cb g (forget_chunks (fst (connp_res_data cb g (Some x) (length x) c)) <| c_events := [] |>) ops).
Proof.
  cbn [cp_run cp_step]. destruct (connp_res_data cb g (Some x) (length x) c) as [c1 rc]. cbn [fst]. unfold finish_call.
  destruct (cp_run cb g (forget_chunks c1 <| c_events := [] |>) ops) as [c2 xs]. reflexivity.
Qed.

(* ---- every operation of a legal history ---- *)
Lemma pk_run : forall ops a c qrw srw, pk_inv2 g xl a c qrw srw ->
  pk_data_ok ops = true -> concat (pk_reqs ops) = qrw -> concat (pk_ress ops) = srw ->
  pk_blegal_from xl (length qrw) (length srw) ops = true -> pp_f1_free xl (pk_ress ops) = true ->
  exists a', pk_inv2 g xl a' (fst (cp_run cb g c ops)) [] [].
Proof.
  induction ops as [|o ops IH]; intros a c qrw srw Hinv Hd Hq Hs Hl Hf1.
  - cbn [pk_reqs pk_ress concat] in Hq, Hs. subst qrw srw. exists a. exact Hinv.
  - cbn [pk_data_ok forallb] in Hd. apply andb_prop in Hd. destruct Hd as [Hd1 Hd]. fold (pk_data_ok ops) in Hd.
    destruct o as [|x|y| | | | | |]; try discriminate.
    + (* htp_connp_req_data *)
      cbn [pk_reqs pk_ress concat] in Hq, Hs, Hf1. cbn [pk_blegal_from] in Hl.
      assert (Hne : x <> []) by (destruct x; [discriminate|intro; discriminate]).
      destruct (pk_qstep2 cb g Hcb Hsp Had xl Hokx Hnoexp Hmax a c qrw x (concat (pk_reqs ops)) srw Hinv Hne (eq_sym Hq)) as (a' & La & Hinv').
      rewrite pk_run_cons_q.
      assert (El : (length qrw - length x)%nat = length (concat (pk_reqs ops))) by (rewrite <- Hq, app_length; lia).
      rewrite El in Hl.
      apply (IH a' _ _ srw Hinv' Hd eq_refl Hs Hl Hf1).
    + (* htp_connp_res_data *)
      cbn [pk_reqs pk_ress concat] in Hq, Hs. cbn [pk_ress pp_f1_free] in Hf1. cbn [pk_blegal_from] in Hl.
      apply andb_prop in Hl. destruct Hl as [Hl1 Hl]. apply andb_prop in Hf1. destruct Hf1 as [Hf1 Hf1r]. apply Nat.leb_le in Hl1.
      assert (Hne : y <> []) by (destruct y; [discriminate|intro; discriminate]).
      assert (El : (length srw - length y)%nat = length (concat (pk_ress ops))) by (rewrite <- Hs, app_length; lia).
      assert (Hlen : (length (pp_ex_swire (skipn (pk_offered xl (length qrw)) xl)) <= length (concat (pk_ress ops)))%nat).
      { rewrite <- Hs, app_length in Hl1. lia. }
      pose proof (pk_sstep2 cb g Hcb Hsp Had xl Hokx Hnoexp Hmax a c qrw srw y (concat (pk_ress ops)) Hinv Hne (eq_sym Hs) Hlen Hf1) as Hinv'.
      rewrite pk_run_cons_s. rewrite El in Hl.
      apply (IH a _ qrw _ Hinv' Hd Hq eq_refl Hl Hf1r).
Qed.

Theorem pk_pairing : forall ops, pk_data_ok ops = true -> concat (pk_reqs ops) = pp_ex_qwire xl -> concat (pk_ress ops) = pp_ex_swire xl ->
  pk_blegal xl ops = true -> pp_f1_free xl (pk_ress ops) = true ->
  Forall2 (fun slot x => exists k fl, slot = Some (pp_tfin (pp_ex_of g k fl x))) (c_txs (fst (cp_run cb g connp_new (OpOpen :: ops)))) xl.
Proof.
  intros ops Hd Hq Hs Hl Hf1.
  set (c0 := forget_chunks (connp_open connp_new) <| c_events := [] |>).
  assert (E0 : fst (cp_run cb g connp_new (OpOpen :: ops)) = fst (cp_run cb g c0 ops)).
  { cbn [cp_run cp_step]. unfold finish_call. fold c0. destruct (cp_run cb g c0 ops). reflexivity. }
  rewrite E0.
  destruct (pk_run ops 0 c0 _ _ (or_introl (pk_inv_open g xl)) Hd Hq Hs Hl Hf1) as (a' & Hinv).
  apply (pk_inv2_end g xl a' _ Hinv).
Qed.
End Run.

(* ================= legality implies byte-legality ================= *)
Lemma pk_ready_offered : forall xl n, (pk_ready xl n <= pk_offered xl n)%nat.
Proof.
  induction xl as [|x xl IH]; intros n; [cbn; lia|]. cbn [pk_ready pk_offered].
  destruct ((n =? length (pp_ex_qwire xl))%nat || match xl with x' :: _ => (n + (length (sg_line0 (xq x')) + 2) <=? length (pp_ex_qwire xl))%nat | [] => false end) eqn:E; [|lia].
  assert (L : (n <=? length (pp_ex_qwire xl))%nat = true).
  { apply Nat.leb_le. apply orb_prop in E. destruct E as [E|E]; [apply Nat.eqb_eq in E; lia|]. destruct xl; [discriminate|]. apply Nat.leb_le in E. lia. }
  rewrite L. apply le_n_S. apply IH.
Qed.
Lemma pk_offered_mono : forall xl n n', (n' <= n)%nat -> (pk_offered xl n <= pk_offered xl n')%nat.
Proof.
  induction xl as [|x xl IH]; intros n n' L; [cbn; lia|]. cbn [pk_offered].
  destruct (n <=? length (pp_ex_qwire xl))%nat eqn:E; [|lia]. apply Nat.leb_le in E.
  assert (E' : (n' <=? length (pp_ex_qwire xl))%nat = true) by (apply Nat.leb_le; lia). rewrite E'. apply le_n_S. apply IH. exact L.
Qed.
Lemma pk_legal_blegal_from xl : forall ops m qn sn, pk_legal_from xl m qn sn ops = true -> (m <= pk_offered xl qn)%nat -> pk_blegal_from xl qn sn ops = true.
Proof.
  induction ops as [|o ops IH]; intros m qn sn H Hm; [reflexivity|]. destruct o as [|x|y| | | | | |]; try discriminate.
  - cbn [pk_legal_from pk_blegal_from] in *. apply (IH _ _ _ H).
    pose proof (pk_ready_offered xl (qn - length x)). pose proof (pk_offered_mono xl qn (qn - length x)). lia.
  - cbn [pk_legal_from pk_blegal_from] in *. apply andb_prop in H. destruct H as [H1 H2]. rewrite (IH _ _ _ H2 Hm), andb_true_r.
    apply Nat.leb_le in H1. apply Nat.leb_le. pose proof (pk_stail_mono xl m (pk_offered xl qn) Hm). lia.
Qed.
Theorem pk_legal_blegal xl ops : pk_legal xl ops = true -> pk_blegal xl ops = true.
Proof. intros H. apply (pk_legal_blegal_from xl ops 0 _ _ H). lia. Qed.

(* ================= C2: any legal interleaving ================= *)
Theorem pp_pairing_interleaved_bytes : forall cb g (xl : list pp_xc) (ops : list cp_op),
  wr_all_ok cb -> g_allow_space_uri g = false -> g_tx_auto_destroy g = false -> (g_max_tx g = 0 \/ length xl < g_max_tx g)%nat ->
  forallb (pp_xc_ok g) xl = true -> forallb pk_noexp xl = true ->
  pk_data_ok ops = true -> concat (pk_reqs ops) = pp_ex_qwire xl -> concat (pk_ress ops) = pp_ex_swire xl ->
  pk_blegal xl ops = true -> pp_f1_free xl (pk_ress ops) = true ->
  Forall2 (fun slot x => exists k fl, slot = Some (pp_tfin (pp_ex_of g k fl x))) (c_txs (fst (cp_run cb g connp_new (OpOpen :: ops)))) xl.
Proof. intros cb g xl ops Hcb Hsp Had Hmax Hok Hne. apply (pk_pairing cb g Hcb Hsp Had xl Hok Hne Hmax). Qed.

Lemma pk_reported g xl l : g_allow_space_uri g = false -> forallb (pp_xc_ok g) xl = true -> Forall pp_plain xl ->
  Forall2 (fun slot x => exists k fl, slot = Some (pp_tfin (pp_ex_of g k fl x))) l xl ->
  Forall2 (fun slot x => exists t, slot = Some t /\ wr_reported (sg_mask t) (xq x) /\ sr_reported t (xs x) (xbody x)) l xl.
Proof.
  intros Hsp Hok Hpl P. revert Hok Hpl. induction P as [|slot x l xl (k & fl & Es) P IH]; intros Hok Hpl; [constructor|].
  cbn [forallb] in Hok. apply andb_prop in Hok. destruct Hok as [H1 H2].
  constructor; [|apply IH; [exact H2|exact (Forall_inv_tail Hpl)]].
  exists (pp_tfin (pp_ex_of g k fl x)). split; [exact Es|]. apply pp_tfin_facts; [exact Hsp|exact H1|exact (Forall_inv Hpl)].
Qed.

Theorem pp_pairing_interleaved_bytes_reported : forall cb g (xl : list pp_xc) (ops : list cp_op),
  wr_all_ok cb -> g_allow_space_uri g = false -> g_tx_auto_destroy g = false -> (g_max_tx g = 0 \/ length xl < g_max_tx g)%nat ->
  forallb (pp_xc_ok g) xl = true -> forallb pk_noexp xl = true -> Forall pp_plain xl ->
  pk_data_ok ops = true -> concat (pk_reqs ops) = pp_ex_qwire xl -> concat (pk_ress ops) = pp_ex_swire xl ->
  pk_blegal xl ops = true -> pp_f1_free xl (pk_ress ops) = true ->
  Forall2 (fun slot x => exists t, slot = Some t /\ wr_reported (sg_mask t) (xq x) /\ sr_reported t (xs x) (xbody x))
          (c_txs (fst (cp_run cb g connp_new (OpOpen :: ops)))) xl.
Proof.
  intros cb g xl ops Hcb Hsp Had Hmax Hok Hne Hpl Hd Hq Hs Hl Hf1. apply (pk_reported g xl _ Hsp Hok Hpl).
  apply (pp_pairing_interleaved_bytes cb g xl ops Hcb Hsp Had Hmax Hok Hne Hd Hq Hs Hl Hf1).
Qed.

(* the same for a shuffle of the two chunk lists *)
Theorem pp_pairing_shuffled_bytes : forall cb g (xl : list pp_xc) (qchunks schunks : list bytes) (ops : list cp_op),
  wr_all_ok cb -> g_allow_space_uri g = false -> g_tx_auto_destroy g = false -> (g_max_tx g = 0 \/ length xl < g_max_tx g)%nat ->
  forallb (pp_xc_ok g) xl = true -> forallb pk_noexp xl = true -> Forall pp_plain xl ->
  Forall (fun c => c <> []) qchunks -> concat qchunks = concat (map (fun x => wr_request_wire (xq x)) xl) ->
  Forall (fun c => c <> []) schunks -> concat schunks = concat (map pp_xwire xl) -> pp_f1_free xl schunks = true ->
  pk_shuffle (map OpReqData qchunks) (map OpResData schunks) ops -> pk_blegal xl ops = true ->
  Forall2 (fun slot x => exists t, slot = Some t /\ wr_reported (sg_mask t) (xq x) /\ sr_reported t (xs x) (xbody x))
          (c_txs (fst (cp_run cb g connp_new (OpOpen :: ops)))) xl.
Proof.
  intros cb g xl qch sch ops Hcb Hsp Had Hmax Hok Hne Hpl Fq Hq Fs Hs Hf1 Hsh Hl.
  destruct (pk_shuffle_proj ops qch sch Hsh) as (A & B & C).
  apply (pp_pairing_interleaved_bytes_reported cb g xl ops Hcb Hsp Had Hmax Hok Hne Hpl (C Fq Fs)); [rewrite A; exact Hq|rewrite B; exact Hs|exact Hl|rewrite B; exact Hf1].
Qed.

(* the statements with the stricter pk_legal (the form proved first; corollaries now) *)
Theorem pp_pairing_interleaved : forall cb g (xl : list pp_xc) (ops : list cp_op),
  wr_all_ok cb -> g_allow_space_uri g = false -> g_tx_auto_destroy g = false -> (g_max_tx g = 0 \/ length xl < g_max_tx g)%nat ->
  forallb (pp_xc_ok g) xl = true -> forallb pk_noexp xl = true ->
  pk_data_ok ops = true -> concat (pk_reqs ops) = pp_ex_qwire xl -> concat (pk_ress ops) = pp_ex_swire xl ->
  pk_legal xl ops = true -> pp_f1_free xl (pk_ress ops) = true ->
  Forall2 (fun slot x => exists k fl, slot = Some (pp_tfin (pp_ex_of g k fl x))) (c_txs (fst (cp_run cb g connp_new (OpOpen :: ops)))) xl.
Proof.
  intros cb g xl ops Hcb Hsp Had Hmax Hok Hne Hd Hq Hs Hl Hf1.
  apply (pp_pairing_interleaved_bytes cb g xl ops Hcb Hsp Had Hmax Hok Hne Hd Hq Hs (pk_legal_blegal xl ops Hl) Hf1).
Qed.
Theorem pp_pairing_interleaved_reported : forall cb g (xl : list pp_xc) (ops : list cp_op),
  wr_all_ok cb -> g_allow_space_uri g = false -> g_tx_auto_destroy g = false -> (g_max_tx g = 0 \/ length xl < g_max_tx g)%nat ->
  forallb (pp_xc_ok g) xl = true -> forallb pk_noexp xl = true -> Forall pp_plain xl ->
  pk_data_ok ops = true -> concat (pk_reqs ops) = pp_ex_qwire xl -> concat (pk_ress ops) = pp_ex_swire xl ->
  pk_legal xl ops = true -> pp_f1_free xl (pk_ress ops) = true ->
  Forall2 (fun slot x => exists t, slot = Some t /\ wr_reported (sg_mask t) (xq x) /\ sr_reported t (xs x) (xbody x))
          (c_txs (fst (cp_run cb g connp_new (OpOpen :: ops)))) xl.
Proof.
  intros cb g xl ops Hcb Hsp Had Hmax Hok Hne Hpl Hd Hq Hs Hl Hf1.
  apply (pp_pairing_interleaved_bytes_reported cb g xl ops Hcb Hsp Had Hmax Hok Hne Hpl Hd Hq Hs (pk_legal_blegal xl ops Hl) Hf1).
Qed.
Theorem pp_pairing_shuffled : forall cb g (xl : list pp_xc) (qchunks schunks : list bytes) (ops : list cp_op),
  wr_all_ok cb -> g_allow_space_uri g = false -> g_tx_auto_destroy g = false -> (g_max_tx g = 0 \/ length xl < g_max_tx g)%nat ->
  forallb (pp_xc_ok g) xl = true -> forallb pk_noexp xl = true -> Forall pp_plain xl ->
  Forall (fun c => c <> []) qchunks -> concat qchunks = concat (map (fun x => wr_request_wire (xq x)) xl) ->
  Forall (fun c => c <> []) schunks -> concat schunks = concat (map pp_xwire xl) -> pp_f1_free xl schunks = true ->
  pk_shuffle (map OpReqData qchunks) (map OpResData schunks) ops -> pk_legal xl ops = true ->
  Forall2 (fun slot x => exists t, slot = Some t /\ wr_reported (sg_mask t) (xq x) /\ sr_reported t (xs x) (xbody x))
          (c_txs (fst (cp_run cb g connp_new (OpOpen :: ops)))) xl.
Proof.
  intros cb g xl qch sch ops Hcb Hsp Had Hmax Hok Hne Hpl Fq Hq Fs Hs Hf1 Hsh Hl.
  apply (pp_pairing_shuffled_bytes cb g xl qch sch ops Hcb Hsp Had Hmax Hok Hne Hpl Fq Hq Fs Hs Hf1 Hsh (pk_legal_blegal xl ops Hl)).
Qed.

(* ================= C1: strictly sequential delivery ================= *)
(* request i complete (any chunking), then response i complete (any chunking), for i = 0, 1, ... *)
Definition pk_seq_ops (chs : list (list bytes * list bytes)) : list cp_op := flat_map (fun p => map OpReqData (fst p) ++ map OpResData (snd p)) chs.
Definition pk_seq_ok (x : pp_xc) (p : list bytes * list bytes) : Prop :=
  Forall (fun c => c <> []) (fst p) /\ Forall (fun c => c <> []) (snd p) /\ concat (fst p) = wr_request_wire (xq x) /\ concat (snd p) = pp_xwire x.

Lemma pk_reqs_app a b : pk_reqs (a ++ b) = pk_reqs a ++ pk_reqs b.
Proof. induction a as [|o a IH]; [reflexivity|]. destruct o; cbn [app pk_reqs]; rewrite IH; reflexivity. Qed.
Lemma pk_ress_app a b : pk_ress (a ++ b) = pk_ress a ++ pk_ress b.
Proof. induction a as [|o a IH]; [reflexivity|]. destruct o; cbn [app pk_ress]; rewrite IH; reflexivity. Qed.
Lemma pk_reqs_q q : pk_reqs (map OpReqData q) = q /\ pk_ress (map OpReqData q) = [].
Proof. induction q as [|x q [IH1 IH2]]; [split; reflexivity|]. cbn [map pk_reqs pk_ress]. rewrite IH1, IH2. split; reflexivity. Qed.
Lemma pk_reqs_s s : pk_reqs (map OpResData s) = [] /\ pk_ress (map OpResData s) = s.
Proof. induction s as [|x s [IH1 IH2]]; [split; reflexivity|]. cbn [map pk_reqs pk_ress]. rewrite IH1, IH2. split; reflexivity. Qed.
Lemma pk_seq_proj chs : pk_reqs (pk_seq_ops chs) = concat (map fst chs) /\ pk_ress (pk_seq_ops chs) = concat (map snd chs).
Proof.
  induction chs as [|p chs [IH1 IH2]]; [split; reflexivity|]. unfold pk_seq_ops in *. cbn [flat_map map concat].
  rewrite !pk_reqs_app, !pk_ress_app, IH1, IH2.
  destruct (pk_reqs_q (fst p)) as [A1 A2]. destruct (pk_reqs_s (snd p)) as [B1 B2]. rewrite A1, A2, B1, B2, app_nil_r. split; reflexivity.
Qed.
Lemma pk_data_ok_app a b : pk_data_ok (a ++ b) = pk_data_ok a && pk_data_ok b.
Proof. unfold pk_data_ok. apply forallb_app. Qed.
Lemma pk_data_ok_q q : Forall (fun c => c <> []) q -> pk_data_ok (map OpReqData q) = true.
Proof. induction 1 as [|x q N F IH]; [reflexivity|]. cbn [map pk_data_ok forallb]. fold (pk_data_ok (map OpReqData q)). rewrite IH. destruct x; [contradiction|reflexivity]. Qed.
Lemma pk_data_ok_s q : Forall (fun c => c <> []) q -> pk_data_ok (map OpResData q) = true.
Proof. induction 1 as [|x q N F IH]; [reflexivity|]. cbn [map pk_data_ok forallb]. fold (pk_data_ok (map OpResData q)). rewrite IH. destruct x; [contradiction|reflexivity]. Qed.

Lemma pk_seq_facts : forall xl chs, Forall2 pk_seq_ok xl chs ->
  pk_data_ok (pk_seq_ops chs) = true /\ concat (concat (map fst chs)) = pp_ex_qwire xl /\ concat (concat (map snd chs)) = pp_ex_swire xl.
Proof.
  induction 1 as [|x p xl chs (F1 & F2 & E1 & E2) H (IH1 & IH2 & IH3)]; [split; [reflexivity|split; reflexivity]|].
  unfold pk_seq_ops in *. cbn [flat_map map concat]. rewrite !pk_data_ok_app, IH1, (pk_data_ok_q _ F1), (pk_data_ok_s _ F2).
  split; [reflexivity|]. rewrite !concat_app, IH2, IH3, E1, E2. split; reflexivity.
Qed.

Lemma pk_wire_len r : (length (sg_line0 r) + 2 <= length (wr_request_wire r))%nat.
Proof.
  pose proof (sg_pwires_cons r []) as E. unfold sg_pwires in E at 1. cbn [map concat] in E. rewrite app_nil_r in E.
  rewrite E, !app_length. cbn [length]. lia.
Qed.
Lemma pk_qwire_cons x xl : pp_ex_qwire (x :: xl) = wr_request_wire (xq x) ++ pp_ex_qwire xl.
Proof. reflexivity. Qed.
Lemma pk_swire_cons x xl : pp_ex_swire (x :: xl) = pp_xwire x ++ pp_ex_swire xl.
Proof. reflexivity. Qed.
(* a request chunk that ends with request number |xd|: that request and the earlier ones are ready *)
Lemma pk_ready_boundary : forall xd x xr, (length xd + 1 <= pk_ready (xd ++ x :: xr) (length (pp_ex_qwire xr)))%nat.
Proof.
  induction xd as [|x0 xd IH]; intros x xr.
  - cbn [app length pk_ready]. rewrite Nat.eqb_refl. cbn [orb]. lia.
  - cbn [app length pk_ready]. specialize (IH x xr).
    assert (E : match xd ++ x :: xr with
                | x' :: _ => (length (pp_ex_qwire xr) + (length (sg_line0 (xq x')) + 2) <=? length (pp_ex_qwire (xd ++ x :: xr)))%nat
                | [] => false end = true).
    { destruct xd as [|x1 xd'].
      - cbn [app]. rewrite pk_qwire_cons, app_length. apply Nat.leb_le. pose proof (pk_wire_len (xq x)). lia.
      - cbn [app]. rewrite pk_qwire_cons, app_length, pk_qwire_app, app_length, pk_qwire_cons, app_length. apply Nat.leb_le. pose proof (pk_wire_len (xq x1)). lia. }
    rewrite E, orb_true_r. lia.
Qed.

Lemma pk_legal_q xl sn rest : forall qch m qn, exists m', (m <= m')%nat /\ (qch <> [] -> (pk_ready xl (qn - length (concat qch)) <= m')%nat) /\
  pk_legal_from xl m qn sn (map OpReqData qch ++ rest) = pk_legal_from xl m' (qn - length (concat qch)) sn rest.
Proof.
  induction qch as [|x qch IH]; intros m qn.
  - exists m. cbn [map app concat length]. rewrite Nat.sub_0_r. split; [lia|]. split; [intro N; contradiction|reflexivity].
  - cbn [map app concat pk_legal_from]. destruct (IH (Nat.max m (pk_ready xl (qn - length x))) (qn - length x)%nat) as (m' & L1 & L2 & E).
    exists m'. rewrite app_length, Nat.sub_add_distr. split; [lia|]. split; [|exact E]. intros _.
    destruct qch as [|x' qch']; [cbn [concat length]; rewrite Nat.sub_0_r; lia|]. apply L2. discriminate.
Qed.
Lemma pk_legal_s xl m qn rest : forall sch sn, (length (pp_ex_swire (skipn m xl)) + length (concat sch) <= sn)%nat ->
  pk_legal_from xl m qn sn (map OpResData sch ++ rest) = pk_legal_from xl m qn (sn - length (concat sch)) rest.
Proof.
  induction sch as [|y sch IH]; intros sn L.
  - cbn [map app concat length]. rewrite Nat.sub_0_r. reflexivity.
  - cbn [map app concat pk_legal_from]. cbn [concat] in L. rewrite app_length in L.
    assert (E : (length (pp_ex_swire (skipn m xl)) + length y <=? sn)%nat = true) by (apply Nat.leb_le; lia). rewrite E. cbn [andb].
    rewrite IH by lia. rewrite app_length, Nat.sub_add_distr. reflexivity.
Qed.

Lemma pk_legal_seq xl : forall xr chs, Forall2 pk_seq_ok xr chs -> forall xd m, xl = xd ++ xr -> (length xd <= m)%nat ->
  pk_legal_from xl m (length (pp_ex_qwire xr)) (length (pp_ex_swire xr)) (pk_seq_ops chs) = true.
Proof.
  induction 1 as [|x p xr chs (F1 & F2 & E1 & E2) H IH]; intros xd m Exl Lm; [reflexivity|].
  unfold pk_seq_ops. cbn [flat_map]. fold (pk_seq_ops chs). rewrite <- app_assoc.
  destruct (pk_legal_q xl (length (pp_ex_swire (x :: xr))) (map OpResData (snd p) ++ pk_seq_ops chs) (fst p) m (length (pp_ex_qwire (x :: xr)))) as (m' & L1 & L2 & E).
  rewrite E. clear E. rewrite E1, pk_qwire_cons, app_length, Nat.add_comm, Nat.add_sub in *.
  assert (Nq : fst p <> []).
  { intro N. rewrite N in E1. cbn [concat] in E1. pose proof (pk_wire_len (xq x)) as W. rewrite <- E1 in W. cbn [length] in W. lia. }
  specialize (L2 Nq). pose proof (pk_ready_boundary xd x xr) as Rb. rewrite <- Exl in Rb.
  assert (Esk : skipn (length xd + 1) xl = xr).
  { rewrite Exl, skipn_app. replace (length xd + 1 - length xd)%nat with 1%nat by lia. rewrite skipn_all2 by lia. reflexivity. }
  rewrite pk_legal_s.
  - rewrite E2, pk_swire_cons, app_length, Nat.add_comm, Nat.add_sub.
    apply (IH (xd ++ [x]) m'); [rewrite <- app_assoc; exact Exl|rewrite app_length; cbn [length]; lia].
  - rewrite E2, pk_swire_cons, app_length. pose proof (pk_stail_mono xl (length xd + 1) m') as Mo. rewrite Esk in Mo. lia.
Qed.

Theorem pp_pairing_sequential : forall cb g (xl : list pp_xc) (chs : list (list bytes * list bytes)),
  wr_all_ok cb -> g_allow_space_uri g = false -> g_tx_auto_destroy g = false -> (g_max_tx g = 0 \/ length xl < g_max_tx g)%nat ->
  forallb (pp_xc_ok g) xl = true -> forallb pk_noexp xl = true -> Forall pp_plain xl ->
  Forall2 pk_seq_ok xl chs -> pp_f1_free xl (concat (map snd chs)) = true ->
  Forall2 (fun slot x => exists t, slot = Some t /\ wr_reported (sg_mask t) (xq x) /\ sr_reported t (xs x) (xbody x))
          (c_txs (fst (cp_run cb g connp_new (OpOpen :: pk_seq_ops chs)))) xl.
Proof.
  intros cb g xl chs Hcb Hsp Had Hmax Hok Hne Hpl Hs Hf1.
  destruct (pk_seq_facts xl chs Hs) as (A & B & C). destruct (pk_seq_proj chs) as [P1 P2].
  apply (pp_pairing_interleaved_reported cb g xl _ Hcb Hsp Had Hmax Hok Hne Hpl A); [rewrite P1; exact B|rewrite P2; exact C| |rewrite P2; exact Hf1].
  apply (pk_legal_seq xl xl chs Hs [] 0 eq_refl (le_n 0)).
Qed.

(* ================= non-vacuity and the vm_compute harness: the three exchanges of PPairThm.v ================= *)
Definition pk_qx (xl : list pp_xc) (i : nat) : bytes := wr_request_wire (xq (nth i xl (mk_pp_xc wr_ex_req sr_ex1 [] []))).
Definition pk_sx (xl : list pp_xc) (i : nat) : bytes := pp_xwire (nth i xl (mk_pp_xc wr_ex_req sr_ex1 [] [])).
Definition pk_q := pk_qx pp_ex3.
Definition pk_s := pk_sx pp_ex3.
Definition pk_irun (ops : list cp_op) : connp := fst (cp_run sg_ex_ok (sg_ex_cfg 18000) connp_new (OpOpen :: ops)).
Fixpoint pk_bytes_eqb (a b : bytes) : bool := match a, b with [], [] => true | x :: a', y :: b' => (x =? y)%N && pk_bytes_eqb a' b' | _, _ => false end.
(* every premise of the theorems on a history, and what the model makes of it *)
Definition pk_premises (xl : list pp_xc) (ops : list cp_op) : bool :=
  pk_data_ok ops && pk_bytes_eqb (concat (pk_reqs ops)) (pp_ex_qwire xl) && pk_bytes_eqb (concat (pk_ress ops)) (pp_ex_swire xl) &&
  pk_blegal xl ops && pp_f1_free xl (pk_ress ops).
Definition pk_same (ops : list cp_op) : bool := pp_fp_eqb (pp_fp (pk_irun ops)) pp_ex_ref.
Definition pk_pipelined (ops : list cp_op) : bool := flag_has (c_conn_flags (pk_irun ops)) c_HTP_CONN_PIPELINED.

(* a genuinely interleaved history: request 2 arrives while response 1 is half delivered, request 3 (in two chunks) while response 2
   is half delivered *)
Definition pk_ops1 (xl : list pp_xc) : list cp_op :=
  [OpReqData (pk_qx xl 0); OpResData (firstn 30 (pk_sx xl 0)); OpReqData (pk_qx xl 1); OpResData (skipn 30 (pk_sx xl 0)); OpResData (firstn 20 (pk_sx xl 1));
   OpReqData (firstn 10 (pk_qx xl 2)); OpReqData (skipn 10 (pk_qx xl 2)); OpResData (skipn 20 (pk_sx xl 1)); OpResData (pk_sx xl 2)].
Definition pk_ex_ops1 : list cp_op := pk_ops1 pp_ex3.
(* chunks that span the message boundaries on both sides: request 2 together with the first 20 bytes of request 3 (its request line
   and two more bytes: request 2 is complete for the parser) while response 1 is half delivered; the rest of response 1 together
   with the first bytes of response 2 *)
Definition pk_ex_ops2 : list cp_op :=
  [OpReqData (pk_q 0); OpResData (firstn 30 (pk_s 0)); OpReqData (pk_q 1 ++ firstn 20 (pk_q 2)); OpResData (skipn 30 (pk_s 0) ++ firstn 7 (pk_s 1));
   OpResData (skipn 7 (pk_s 1)); OpReqData (skipn 20 (pk_q 2)); OpResData (pk_s 2)].
(* response 1 delivered while request 1 is in htp_connp_REQ_FINALIZE (five bytes of the next request line have been offered with it),
   response 2 likewise *)
Definition pk_ex_ops3 : list cp_op :=
  [OpReqData (pk_q 0 ++ firstn 5 (pk_q 1)); OpResData (firstn 30 (pk_s 0)); OpResData (skipn 30 (pk_s 0)); OpReqData (skipn 5 (pk_q 1) ++ firstn 9 (pk_q 2));
   OpResData (pk_s 1); OpReqData (skipn 9 (pk_q 2)); OpResData (pk_s 2)].
Example pk_ex_finalize : pk_premises pp_ex3 pk_ex_ops3 = true /\ pk_same pk_ex_ops3 = true /\ pk_legal pp_ex3 pk_ex_ops3 = false.
Proof. repeat split; vm_compute; reflexivity. Qed.
Example pk_ex_interleaved :
  pk_premises pp_ex3 pk_ex_ops1 = true /\ pk_same pk_ex_ops1 = true /\ pk_premises pp_ex3 pk_ex_ops2 = true /\ pk_same pk_ex_ops2 = true /\
  forallb pk_noexp pp_ex3 = true /\ forallb pk_noexp pp_ex3u = true /\ pk_premises pp_ex3u (pk_ops1 pp_ex3u) = true.
Proof. repeat split; vm_compute; reflexivity. Qed.
(* the theorems instantiated: no premise is vacuous *)
Example pk_ex_interleaved_thm :
  Forall2 (fun slot x => exists k fl, slot = Some (pp_tfin (pp_ex_of (sg_ex_cfg 18000) k fl x))) (c_txs (pk_irun pk_ex_ops1)) pp_ex3 /\
  Forall2 (fun slot x => exists t, slot = Some t /\ wr_reported (sg_mask t) (xq x) /\ sr_reported t (xs x) (xbody x)) (c_txs (pk_irun (pk_ops1 pp_ex3u))) pp_ex3u.
Proof.
  destruct pp_ex3_premises as (O3 & O3u & Mx & Ad & _). destruct sg_ex_premises as (_ & _ & Hcb & _). destruct pk_ex_interleaved as (_ & _ & _ & _ & N3 & N3u & _).
  split.
  - apply (pp_pairing_interleaved_bytes sg_ex_ok (sg_ex_cfg 18000) pp_ex3 pk_ex_ops1 Hcb eq_refl Ad Mx O3 N3); vm_compute; reflexivity.
  - apply (pp_pairing_interleaved_bytes_reported sg_ex_ok (sg_ex_cfg 18000) pp_ex3u (pk_ops1 pp_ex3u) Hcb eq_refl Ad Mx O3u N3u pp_ex3u_plain); vm_compute; reflexivity.
Qed.

(* legality cannot be dropped: response 1 offered before request 1 gives four transactions, none of them the expected one *)
Definition pk_ex_bad : list cp_op := [OpResData (pk_s 0); OpReqData pp_ex_qw; OpResData (pk_s 1 ++ pk_s 2)].
Example pk_ex_illegal : pk_legal pp_ex3 pk_ex_bad = false /\ pk_blegal pp_ex3 pk_ex_bad = false /\ pk_same pk_ex_bad = false /\ length (c_txs (pk_irun pk_ex_bad)) = 4%nat.
Proof. repeat split; vm_compute; reflexivity. Qed.

(* the statement evaluated before it was proved.  The request wire (99 bytes) cut at a and b (all 4753 pairs); after each piece
   every response whose request has been offered completely, byte by byte.  All 4753 histories satisfy the premises and give the
   reference transactions; 2113 of them are legal in the stricter sense of pk_legal: the others offer response i while request i
   is in htp_connp_REQ_FINALIZE with a part of the next request line buffered *)
Definition pk_sws : list bytes := map pp_xwire pp_ex3.
Definition pk_off (a : nat) : nat := pk_offered pp_ex3 (length pp_ex_qw - a).
Definition pk_inter2 (a b : nat) : list cp_op :=
  let k1 := pk_off a in let k2 := pk_off b in
  let mk := fun s => map (fun y => OpResData [y]) s in
  OpReqData (firstn a pp_ex_qw) :: mk (concat (firstn k1 pk_sws)) ++ OpReqData (firstn (b - a) (skipn a pp_ex_qw)) :: mk (concat (firstn (k2 - k1) (skipn k1 pk_sws))) ++
  OpReqData (skipn b pp_ex_qw) :: mk (concat (skipn k2 pk_sws)).
Definition pk_pairs : list (nat * nat) := flat_map (fun a => map (fun b => (a, b)) (seq (a + 1) (98 - a))) (seq 1 97).
Definition pk_two_cuts_eval : bool * nat :=
  fold_left (fun acc ab => let ops := pk_inter2 (fst ab) (snd ab) in
                           (fst acc && pk_blegal pp_ex3 ops && pp_f1_free pp_ex3 (pk_ress ops) && pk_data_ok ops &&
                            pk_bytes_eqb (concat (pk_reqs ops)) pp_ex_qw && pk_bytes_eqb (concat (pk_ress ops)) pp_ex_sw && pk_same ops,
                            if pk_legal pp_ex3 ops then S (snd acc) else snd acc)) pk_pairs (true, 0%nat).
Example pk_ex_two_cuts : length pk_pairs = 4753%nat /\ pk_two_cuts_eval = (true, 2113%nat).
Proof. split; [vm_compute; reflexivity|vm_cast_no_check (eq_refl (true, 2113%nat))]. Qed.
(* one cut: the cuts at which the stricter pk_legal refuses the (legal) history are those inside the request line that follows a complete request *)
Definition pk_inter1 (a : nat) : list cp_op :=
  let k := pk_off a in OpReqData (firstn a pp_ex_qw) :: map (fun y => OpResData [y]) (concat (firstn k pk_sws)) ++ OpReqData (skipn a pp_ex_qw) :: map (fun y => OpResData [y]) (concat (skipn k pk_sws)).
Example pk_ex_one_cut :
  filter (fun a => negb (pk_legal pp_ex3 (pk_inter1 a))) (seq 1 98) = (seq 52 16 ++ seq 71 17)%list /\
  forallb (fun a => pk_blegal pp_ex3 (pk_inter1 a) && pk_same (pk_inter1 a)) (seq 1 98) = true /\
  map (fun x => length (wr_request_wire (xq x))) pp_ex3 = [51; 19; 29]%nat /\ map (fun x => length (sg_line0 (xq x))) pp_ex3 = [15; 15; 16]%nat.
Proof. repeat split; vm_compute; reflexivity. Qed.

(* strictly sequential delivery, every message byte by byte; HTP_CONN_PIPELINED (set by htp_connp_tx_create when a transaction is
   created while an earlier one has not seen the first byte of its response) is not set then, nor in pk_ex_ops1; it is in pk_ex_ops2 *)
Definition pk_ex_seq : list (list bytes * list bytes) := map (fun x => (sg_bytewise (wr_request_wire (xq x)), sg_bytewise (pp_xwire x))) pp_ex3.
Example pk_ex_sequential :
  pk_premises pp_ex3 (pk_seq_ops pk_ex_seq) = true /\ pk_same (pk_seq_ops pk_ex_seq) = true /\
  pk_pipelined (pk_seq_ops pk_ex_seq) = false /\ pk_pipelined pk_ex_ops1 = false /\ pk_pipelined pk_ex_ops2 = true.
Proof. repeat split; vm_compute; reflexivity. Qed.

(* ================= FINAL THEOREMS FOR RE-EXPORT (Properties_C04.v), Stage C =================
   xl : list pp_xc = the exchanges (PPairThm.pp_xc);  ops : list cp_op = the history after OpOpen;  c = fst (cp_run cb g connp_new (OpOpen :: ops))
   C2  pp_pairing_interleaved_bytes           Forall2 (fun slot x => exists k fl, slot = Some (pp_tfin (pp_ex_of g k fl x))) (c_txs c) xl     (ALL fields of every slot)
       pp_pairing_interleaved_bytes_reported  Forall2 (fun slot x => exists t, slot = Some t /\ wr_reported (sg_mask t) (xq x) /\ sr_reported t (xs x) (xbody x)) (c_txs c) xl
       pp_pairing_shuffled_bytes              the same for pk_shuffle (map OpReqData qchunks) (map OpResData schunks) ops  (orders within each side kept)
       (pp_pairing_interleaved / _reported / pp_pairing_shuffled: the same three with the stricter pk_legal in place of pk_blegal -- corollaries, kept for Properties_C04.v)
   C1  pp_pairing_sequential            ops = pk_seq_ops chs: request i in any chunking, then response i in any chunking, i = 0, 1, ...  (no legality premise:
                                        pk_legal_seq and pk_legal_blegal prove it)
   premises: those of Stage B (PPairThmB.pp_pairing_chunked_reported): wr_all_ok cb, g_allow_space_uri g = false, g_tx_auto_destroy g = false,
               g_max_tx g = 0 \/ length xl < g_max_tx g, forallb (pp_xc_ok g) xl = true, [_reported: Forall pp_plain xl],
               pp_f1_free xl (pk_ress ops) = true  (F1, on the response chunks of the history)
             pk_data_ok ops = true               only OpReqData / OpResData, no empty chunk
             concat (pk_reqs ops) = pp_ex_qwire xl, concat (pk_ress ops) = pp_ex_swire xl      (the request / response chunks of ops, in order)
             pk_blegal xl ops = true             computable: no byte of response i is offered before the last byte of request i has been offered
                                                 (a response chunk lies within the responses to the first PPairCa.pk_offered xl qn requests, qn = the
                                                 number of request bytes still to come)
             forallb pk_noexp xl = true          NEW: no request carries an Expect field (htp_connp_RES_BODY_DETERMINE looks for one when the status
                                                 is 4xx and then touches the request side); an artefact of the proof, not a finding
   The histories in which response i is parsed while request i is still in htp_connp_REQ_FINALIZE (all of its bytes offered, a part of the
             next request line buffered) are covered (PPairCv.pk_gap; pk_ex_finalize, pk_ex_two_cuts): the response side then works on a
             transaction whose request is not marked complete, in_tx = out_tx, and htp_tx_finalize reports the transaction complete from
             htp_tx_state_request_complete; marking the request complete commutes with response processing (PPairCt.v).
   pk_legal (stricter: response i only after request i is parser-complete) implies pk_blegal (pk_legal_blegal); it serves the sequential histories.
   HTP_CONN_PIPELINED plays no part (the slots are stated up to k, fl): it is set by htp_connp_tx_create iff a transaction is created while
             an earlier one has not seen the first byte of its response (pk_ex_sequential: evaluated).
   also: PPairCv.pk_qstep2 / pk_sstep2 (one call of either side on the joint invariant pk_inv2), PPairC7.pc_qstep, PPairCv.gc_qstep, PPairC8.qp_pstep,
         PPairCq.pq_req_data_S (htp_connp_req_data commutes with overwriting the response side), PPairC7.fk_req_data_keep *)
Print Assumptions pp_pairing_interleaved_bytes.
Print Assumptions pp_pairing_interleaved_bytes_reported.
Print Assumptions pp_pairing_shuffled_bytes.
Print Assumptions pp_pairing_interleaved_reported.
Print Assumptions pp_pairing_sequential.
Print Assumptions pk_legal_blegal.
