(* First invariants of the request-direction model (MReq.v), each for EVERY configuration, callback oracle,
   parser state and input. *)
Require Import Htp.Model.MConnTypes Htp.Model.MTxCommon Htp.Model.MBstr Htp.Model.MReqLine Htp.Model.MReqUri Htp.Model.MTxReq Htp.Model.MReq.
Local Open Scope Z_scope.

(* ---- req_buffer_bounded ----
   htp_connp_req_buffer either has nothing to copy (NULL chunk, or nothing between the consume and the read offset:
   it then leaves both buffers as they were) or, when it returns HTP_OK, the buffered bytes plus the pending header
   fit the hard limit. *)
Lemma rq_fault_in c : c_in (rq_fault c) = c_in c.
Proof. reflexivity. Qed.

Lemma rq_slice_in c from to : c_in (fst (rq_slice c from to)) = c_in c.
Proof.
  unfold rq_slice. destruct (k_data (c_in c)); [destruct (to <=? length b)%nat|destruct (to <=? from)%nat]; reflexivity.
Qed.
Lemma rq_slice_len c from to : (length (snd (rq_slice c from to)) <= to - from)%nat.
Proof.
  unfold rq_slice. destruct (k_data (c_in c)) as [d|].
  - destruct (to <=? length d)%nat; cbn; rewrite firstn_length; lia.
  - destruct (to <=? from)%nat; cbn; lia.
Qed.

Theorem req_buffer_bounded g c c' :
  req_buffer g c = (ST_OK, c') ->
  k_data (c_in c) <> None -> (k_consume (c_in c) < k_read (c_in c))%nat ->
  (rq_buf_size c' + rq_header_len c' <= g_field_limit_hard g)%nat.
Proof.
  unfold req_buffer. intros H Hd Hlt.
  destruct (k_data (c_in c)) as [d|] eqn:Ed; [|congruence].
  destruct (k_read (c_in c) - k_consume (c_in c) =? 0)%nat eqn:E0; [apply Nat.eqb_eq in E0; lia|].
  set (c1 := if (k_read (c_in c) <? k_consume (c_in c))%nat then rq_fault c else c) in H.
  assert (H1 : c_in c1 = c_in c) by (subst c1; destruct (k_read (c_in c) <? k_consume (c_in c))%nat; reflexivity).
  set (c2 := match c_in_tx c1 with Some _ => c1 | None => rq_fault c1 end) in H.
  assert (H2 : c_in c2 = c_in c) by (subst c2; destruct (c_in_tx c1); rewrite ?rq_fault_in; exact H1).
  destruct (g_field_limit_hard g <? _)%nat eqn:El in H; [discriminate|].
  apply Nat.ltb_ge in El.
  destruct (rq_slice c2 (k_consume (c_in c2)) (k_read (c_in c2))) as [c3 piece] eqn:Es.
  pose proof (rq_slice_in c2 (k_consume (c_in c2)) (k_read (c_in c2))) as H3.
  pose proof (rq_slice_len c2 (k_consume (c_in c2)) (k_read (c_in c2))) as Hp.
  rewrite Es in H3, Hp. cbn in H3, Hp.
  inversion H; subst c'; clear H.
  unfold rq_buf_size, rq_header_len, rq_set_in in *. cbn. rewrite H3, H2 in *. rewrite H1 in El. cbn.
  destruct (k_buf (c_in c)) as [b|]; destruct (k_header (c_in c)) as [h|]; cbn in *;
    rewrite ?app_length; lia.
Qed.

(* ... and in the two do-nothing cases the buffers are untouched *)
Theorem req_buffer_nothing_to_copy g c c' :
  req_buffer g c = (ST_OK, c') ->
  k_data (c_in c) = None \/ (k_read (c_in c) <= k_consume (c_in c))%nat ->
  c_in c' = c_in c.
Proof.
  unfold req_buffer. intros H [Hn|Hle].
  - rewrite Hn in H. inversion H. reflexivity.
  - destruct (k_data (c_in c)); [|inversion H; reflexivity].
    replace (k_read (c_in c) - k_consume (c_in c))%nat with 0%nat in H by lia. change (0 =? 0)%nat with true in H. cbv iota in H.
    inversion H. destruct (k_read (c_in c) <? k_consume (c_in c))%nat; reflexivity.
Qed.

(* C10 reading: the buffer alone never exceeds the hard limit across req_buffer *)
Corollary req_buffer_keeps_buf_bounded g c c' :
  req_buffer g c = (ST_OK, c') ->
  (rq_buf_size c <= g_field_limit_hard g)%nat -> (rq_buf_size c' <= g_field_limit_hard g)%nat.
Proof.
  intros H Hb.
  destruct (k_data (c_in c)) as [d|] eqn:Ed.
  - destruct (Nat.lt_ge_cases (k_consume (c_in c)) (k_read (c_in c))) as [Hlt|Hge].
    + assert (Hd : k_data (c_in c) <> None) by congruence.
      pose proof (req_buffer_bounded g c c' H Hd Hlt). lia.
    + unfold rq_buf_size in *. rewrite (req_buffer_nothing_to_copy g c c' H (or_intror Hge)). exact Hb.
  - unfold rq_buf_size in *. rewrite (req_buffer_nothing_to_copy g c c' H (or_introl Ed)). exact Hb.
Qed.

(* ---- req_data_rc_documented ----
   htp_connp_req_data returns one of the six documented HTP_STREAM_* codes. *)
Definition rq_documented (rc : Z) : Prop :=
  rc = c_HTP_STREAM_CLOSED \/ rc = c_HTP_STREAM_ERROR \/ rc = c_HTP_STREAM_TUNNEL \/
  rc = c_HTP_STREAM_DATA_OTHER \/ rc = c_HTP_STREAM_STOP \/ rc = c_HTP_STREAM_DATA.

Lemma rq_exit_documented cb g rc c : rq_documented (snd (rq_exit cb g rc c)).
Proof.
  unfold rq_exit, rq_documented.
  destruct rc; cbn;
    repeat match goal with
           | |- context [let '(_, _) := ?x in _] => destruct x
           | |- context [match ?x with _ => _ end] => destruct x
           end; cbn; tauto.
Qed.

Lemma rq_iter_documented cb g gap c r : rq_iter cb g gap c = inl r -> rq_documented (snd r).
Proof.
  unfold rq_iter. intros H.
  match type of H with (match ?d with _ => _ end) = _ => destruct d as [[rc c1]|] end.
  - destruct rc;
      try (match type of H with inl ?x = inl _ => replace r with x by congruence end; apply rq_exit_documented).
    destruct (c_in_status c1 =? c_HTP_STREAM_TUNNEL).
    + inversion H; subst r. unfold rq_documented. cbn. tauto.
    + destruct (req_handle_state_change cb c1) as [rc2 c2]. destruct rc2; try discriminate;
        match type of H with inl ?x = inl _ => replace r with x by congruence end; apply rq_exit_documented.
  - inversion H; subst r. unfold rq_documented. cbn. tauto.
Qed.

Lemma rq_loop_documented cb g fuel gap c : rq_documented (snd (rq_loop cb g fuel gap c)).
Proof.
  revert c. induction fuel as [|f IH]; intros c; cbn [rq_loop].
  - unfold rq_documented. cbn. tauto.
  - destruct (rq_iter cb g gap c) as [r|c1] eqn:E.
    + eapply rq_iter_documented; eauto.
    + apply IH.
Qed.

Theorem req_data_rc_documented cb g data len c : rq_documented (snd (connp_req_data cb g data len c)).
Proof.
  unfold connp_req_data.
  repeat match goal with
         | |- context [if ?b then _ else _] =>
           lazymatch b with
           | context [rq_loop] => fail
           | _ => destruct b
           end
         end;
    try (unfold rq_documented; cbn; tauto); apply rq_loop_documented.
Qed.

(* ---- req_data_sticky ----
   a direction that is in ERROR or STOP answers every further data call with that same code, emits no event and
   leaves the whole parser state as it was. *)
Theorem req_data_sticky cb g data len c :
  c_in_status c = c_HTP_STREAM_ERROR \/ c_in_status c = c_HTP_STREAM_STOP ->
  connp_req_data cb g data len c = (c, c_in_status c).
Proof.
  intros [H|H]; unfold connp_req_data; rewrite H; reflexivity.
Qed.

Corollary req_data_sticky_no_event cb g data len c :
  c_in_status c = c_HTP_STREAM_ERROR \/ c_in_status c = c_HTP_STREAM_STOP ->
  c_events (fst (connp_req_data cb g data len c)) = c_events c /\
  c_in_status (fst (connp_req_data cb g data len c)) = c_in_status c.
Proof. intros H. rewrite (req_data_sticky cb g data len c H). split; reflexivity. Qed.

(* ---- frame facts: what the callback / transaction layer cannot touch ---- *)
(* the part of the parser the byte-level states own: cursor minus the receiver bookkeeping, stream status, body counters *)
Definition rq_core (c : connp) :=
  (k_data (c_in c), k_len (c_in c), k_read (c_in c), k_consume (c_in c), k_next_byte (c_in c), k_buf (c_in c), k_header (c_in c),
   c_in_status c, c_in_body_data_left c, c_in_chunked_length c).
Definition rq_core_st (c : connp) := (rq_core c, c_in_state c).

Lemma tx_put_core c i t : rq_core_st (tx_put c i t) = rq_core_st c.
Proof. unfold tx_put. destruct (i <? c_txs_shifted c)%nat; [reflexivity|]. destruct (_ <? _)%nat; reflexivity. Qed.
Lemma tx_upd_core c i f : rq_core_st (tx_upd c i f) = rq_core_st c.
Proof. unfold tx_upd. destruct (tx_slot c i); [apply tx_put_core|reflexivity]. Qed.
Lemma tx_destroy_incomplete_core c i : rq_core_st (tx_destroy_incomplete c i) = rq_core_st c.
Proof.
  unfold tx_destroy_incomplete.
  destruct (i <? c_txs_shifted c)%nat; cbn;
  repeat match goal with |- context [match ?x with _ => _ end] => destruct x; cbn end; reflexivity.
Qed.
Lemma tx_destroy_core c i : rq_core_st (tx_destroy c i) = rq_core_st c.
Proof. unfold tx_destroy. destruct (tx_slot c i); [|reflexivity]. destruct (tx_is_complete t); [apply tx_destroy_incomplete_core|reflexivity]. Qed.

Lemma run_hook_ex_core cb h i d l s c : rq_core_st (snd (run_hook_ex cb h i d l s c)) = rq_core_st c.
Proof.
  unfold run_hook_ex. destruct (cb h (hook_count c h)); cbn [snd]; rewrite ?tx_upd_core, ?tx_destroy_core; reflexivity.
Qed.

Lemma run_hook_core cb h i c : rq_core_st (snd (run_hook cb h i c)) = rq_core_st c.
Proof. apply run_hook_ex_core. Qed.
Lemma run_data_hook_core cb h i d l c : rq_core_st (snd (run_data_hook cb h i d l c)) = rq_core_st c.
Proof. apply run_hook_ex_core. Qed.
Lemma run_tx_hooks_core k h i d l c : rq_core_st (run_tx_hooks k h i d l c) = rq_core_st c.
Proof. revert c. induction k as [|k IH]; intros c; cbn [run_tx_hooks]; [reflexivity|]. rewrite IH. reflexivity. Qed.
Lemma req_run_hook_body_data_core cb d l c : rq_core_st (snd (req_run_hook_body_data cb d l c)) = rq_core_st c.
Proof.
  unfold req_run_hook_body_data.
  destruct d as [[|x d]|]; try reflexivity; destruct (c_in_tx c); try reflexivity;
    rewrite run_data_hook_core, run_tx_hooks_core; reflexivity.
Qed.
Lemma tx_req_process_body_data_ex_core cb i d n c : rq_core_st (snd (tx_req_process_body_data_ex cb i d n c)) = rq_core_st c.
Proof.
  unfold tx_req_process_body_data_ex.
  match goal with |- context [req_run_hook_body_data cb ?a ?b ?c0] =>
    pose proof (req_run_hook_body_data_core cb a b c0) as H; destruct (req_run_hook_body_data cb a b c0) as [rc c1] end.
  cbn [snd] in H. rewrite tx_upd_core in H. destruct rc; cbn [snd]; exact H.
Qed.
Lemma req_receiver_send_data_core cb l c : rq_core_st (snd (req_receiver_send_data cb l c)) = rq_core_st c.
Proof.
  unfold req_receiver_send_data. destruct (k_receiver_hook (c_in c)); [|reflexivity].
  match goal with |- context [run_data_hook cb ?h ?i ?d ?l0 ?c0] =>
    pose proof (run_data_hook_core cb h i d l0 c0) as H; destruct (run_data_hook cb h i d l0 c0) as [rc c1] end.
  cbn [snd] in H.
  assert (H0 : rq_core_st c1 = rq_core_st c).
  { rewrite H. destruct (_ <? _)%nat; reflexivity. }
  destruct rc; cbn [snd]; exact H0.
Qed.
Lemma req_receiver_finalize_clear_core cb c : rq_core_st (snd (req_receiver_finalize_clear cb c)) = rq_core_st c.
Proof.
  unfold req_receiver_finalize_clear. destruct (k_receiver_hook (c_in c)); [|reflexivity].
  pose proof (req_receiver_send_data_core cb true c) as H. destruct (req_receiver_send_data cb true c) as [rc c1].
  cbn [snd] in *. rewrite <- H. reflexivity.
Qed.
Lemma tx_finalize_core cb g i c : rq_core_st (snd (tx_finalize cb g i c)) = rq_core_st c.
Proof.
  unfold tx_finalize. destruct (tx_slot c i) as [t|]; [|reflexivity].
  destruct (negb (tx_is_complete t)); [reflexivity|].
  pose proof (run_hook_ex_core cb H_TRANSACTION_COMPLETE i None false (Some t) c) as H.
  destruct (run_hook_ex cb H_TRANSACTION_COMPLETE i None false (Some t) c) as [rc c1]. cbn [snd] in H.
  destruct rc; cbn [snd]; try exact H.
  destruct (tx_slot c1 i); cbn [snd]; [|rewrite <- H; reflexivity].
  destruct (g_tx_auto_destroy g); rewrite ?tx_destroy_core; exact H.
Qed.
Lemma tx_state_request_complete_partial_core cb i c :
  rq_core_st (snd (tx_state_request_complete_partial cb i c)) = rq_core_st c.
Proof.
  unfold tx_state_request_complete_partial.
  destruct (tx_req_has_body (tx_get c i)).
  - pose proof (tx_req_process_body_data_ex_core cb i None 0 c) as H.
    destruct (tx_req_process_body_data_ex cb i None 0 c) as [rc c1]. cbn [snd] in H.
    destruct rc; cbn [snd]; try exact H.
    match goal with |- context [run_hook cb ?h ?j ?c0] =>
      pose proof (run_hook_core cb h j c0) as H1; destruct (run_hook cb h j c0) as [rc2 c2] end.
    cbn [snd] in H1. rewrite tx_upd_core in H1.
    destruct rc2; cbn [snd]; rewrite ?req_receiver_finalize_clear_core; congruence.
  - match goal with |- context [run_hook cb ?h ?j ?c0] =>
      pose proof (run_hook_core cb h j c0) as H1; destruct (run_hook cb h j c0) as [rc2 c2] end.
    cbn [snd] in H1. rewrite tx_upd_core in H1.
    destruct rc2; cbn [snd]; rewrite ?req_receiver_finalize_clear_core; congruence.
Qed.

(* results of the callback / transaction layer are OK, ERROR or STOP: never a "need more data" code *)
Definition rq_hookrc (rc : st) : Prop := rc = ST_OK \/ rc = ST_ERROR \/ rc = ST_STOP.
Lemma run_hook_ex_rc cb h i d l s c : rq_hookrc (fst (run_hook_ex cb h i d l s c)).
Proof. unfold run_hook_ex, rq_hookrc. destruct (cb h (hook_count c h)); cbn; tauto. Qed.
Lemma req_receiver_send_data_rc cb l c : rq_hookrc (fst (req_receiver_send_data cb l c)).
Proof.
  unfold req_receiver_send_data. destruct (k_receiver_hook (c_in c)); [|unfold rq_hookrc; cbn; tauto].
  match goal with |- context [run_data_hook cb ?h ?i ?d ?l0 ?c0] =>
    pose proof (run_hook_ex_rc cb h i d l0 None c0) as H; unfold run_data_hook; destruct (run_hook_ex cb h i d l0 None c0) as [rc c1] end.
  cbn [fst] in H. destruct rc; cbn [fst]; exact H.
Qed.
Lemma req_receiver_finalize_clear_rc cb c : rq_hookrc (fst (req_receiver_finalize_clear cb c)).
Proof.
  unfold req_receiver_finalize_clear. destruct (k_receiver_hook (c_in c)); [|unfold rq_hookrc; cbn; tauto].
  pose proof (req_receiver_send_data_rc cb true c) as H. destruct (req_receiver_send_data cb true c). exact H.
Qed.
Lemma tx_req_process_body_data_ex_rc cb i d n c : rq_hookrc (fst (tx_req_process_body_data_ex cb i d n c)).
Proof.
  unfold tx_req_process_body_data_ex.
  match goal with |- context [req_run_hook_body_data cb ?a ?b ?c0] => destruct (req_run_hook_body_data cb a b c0) as [rc c1] end.
  unfold rq_hookrc. destruct rc; cbn; tauto.
Qed.
Lemma tx_state_request_complete_partial_rc cb i c : rq_hookrc (fst (tx_state_request_complete_partial cb i c)).
Proof.
  unfold tx_state_request_complete_partial.
  assert (G : forall c0, rq_hookrc (fst (match run_hook cb H_REQUEST_COMPLETE i c0 with
                                         | (ST_OK, c2) => req_receiver_finalize_clear cb c2 | r => r end))).
  { intros c0. pose proof (run_hook_ex_rc cb H_REQUEST_COMPLETE i None false None c0) as H.
    unfold run_hook. destruct (run_hook_ex cb H_REQUEST_COMPLETE i None false None c0) as [rc2 c2]. cbn [fst] in H.
    destruct rc2; try exact H. apply req_receiver_finalize_clear_rc. }
  destruct (tx_req_has_body (tx_get c i)).
  - pose proof (tx_req_process_body_data_ex_rc cb i None 0 c) as H.
    destruct (tx_req_process_body_data_ex cb i None 0 c) as [rc c1]. cbn [fst] in H.
    destruct rc; try exact H; try (destruct H as [H|[H|H]]; discriminate). apply G.
  - apply G.
Qed.

Lemma rq_core_of_st a b : rq_core_st a = rq_core_st b -> rq_core a = rq_core b /\ c_in_state a = c_in_state b.
Proof. intros H. split; [exact (f_equal fst H)|exact (f_equal snd H)]. Qed.

(* htp_tx_state_request_complete: core untouched; the state is left alone or becomes IDLE / IGNORE_DATA_AFTER_HTTP_0_9 *)
Lemma tx_state_request_complete_spec cb g i c :
  let r := tx_state_request_complete cb g i c in
  rq_core (snd r) = rq_core c /\ rq_hookrc (fst r) /\
  (c_in_state (snd r) = c_in_state c \/ c_in_state (snd r) = REQ_IDLE \/ c_in_state (snd r) = REQ_IGNORE_DATA_AFTER_HTTP_0_9).
Proof.
  cbv zeta. unfold tx_state_request_complete.
  destruct (tx_slot c i) as [t0|]; [|cbn; unfold rq_hookrc; repeat split; tauto].
  assert (G : forall c1, rq_core_st c1 = rq_core_st c ->
    let r := (let c2 := match tx_slot c1 i with
               | None => c1 <| c_fault := true |>
               | Some t => c1 <| c_in_state := if t_is_protocol_0_9 t then REQ_IGNORE_DATA_AFTER_HTTP_0_9 else REQ_IDLE |>
               end in let '(_, c3) := tx_finalize cb g i c2 in (ST_OK, c3 <| c_in_tx := None |>)) in
    rq_core (snd r) = rq_core c /\ rq_hookrc (fst r) /\
    (c_in_state (snd r) = c_in_state c \/ c_in_state (snd r) = REQ_IDLE \/ c_in_state (snd r) = REQ_IGNORE_DATA_AFTER_HTTP_0_9)).
  { intros c1 H1. cbv zeta. apply rq_core_of_st in H1. destruct H1 as [H1c H1s].
    set (c2 := match tx_slot c1 i with None => _ | Some t => _ end).
    pose proof (tx_finalize_core cb g i c2) as H2. destruct (tx_finalize cb g i c2) as [rc3 c3]. cbn [snd fst] in *.
    apply rq_core_of_st in H2. destruct H2 as [H2c H2s].
    assert (Hc : rq_core c2 = rq_core c) by (subst c2; destruct (tx_slot c1 i); rewrite <- H1c; reflexivity).
    repeat split.
    - change (rq_core (c3 <| c_in_tx := None |>)) with (rq_core c3). congruence.
    - unfold rq_hookrc; tauto.
    - change (c_in_state (c3 <| c_in_tx := None |>)) with (c_in_state c3). rewrite H2s. subst c2.
      destruct (tx_slot c1 i) as [t|]; cbn.
      + destruct (t_is_protocol_0_9 t); tauto.
      + left. exact H1s. }
  destruct (negb (t_request_progress t0 =? c_HTP_REQUEST_COMPLETE)).
  - pose proof (tx_state_request_complete_partial_core cb i c) as H.
    pose proof (tx_state_request_complete_partial_rc cb i c) as Hr.
    destruct (tx_state_request_complete_partial cb i c) as [rc c1]. cbn [fst snd] in H, Hr.
    destruct rc; try (apply (G c1 H)); cbn [fst snd]; apply rq_core_of_st in H; destruct H as [Hc Hs]; repeat split; tauto.
  - apply (G c). reflexivity.
Qed.

Lemma rq_tx_upd_core f c : rq_core_st (rq_tx_upd f c) = rq_core_st c.
Proof. unfold rq_tx_upd. destruct (c_in_tx c); [apply tx_upd_core|reflexivity]. Qed.

Ltac rq_fin := repeat split; first [congruence | assumption | left; congruence | tauto].

(* htp_tx_state_request_start *)
Lemma tx_state_request_start_spec cb i c :
  let r := tx_state_request_start cb i c in
  rq_core (snd r) = rq_core c /\ rq_hookrc (fst r) /\
  (c_in_state (snd r) = c_in_state c \/ c_in_state (snd r) = REQ_LINE).
Proof.
  cbv zeta. unfold tx_state_request_start.
  pose proof (run_hook_core cb H_REQUEST_START i c) as H. pose proof (run_hook_ex_rc cb H_REQUEST_START i None false None c) as Hr.
  unfold run_hook in *. destruct (run_hook_ex cb H_REQUEST_START i None false None c) as [rc c1]. cbn [fst snd] in *.
  apply rq_core_of_st in H. destruct H as [Hc Hs].
  destruct rc; cbn [fst snd]; try rq_fin.
  repeat split; [|unfold rq_hookrc; tauto|right].
  - destruct (c_in_tx (c1 <| c_in_state := REQ_LINE |>)); [|rewrite <- Hc; reflexivity].
    pose proof (tx_upd_core (c1 <| c_in_state := REQ_LINE |>) n (fun t => t <| t_request_progress := c_HTP_REQUEST_LINE |>)) as H.
    apply rq_core_of_st in H. destruct H as [H _]. rewrite H, <- Hc. reflexivity.
  - destruct (c_in_tx (c1 <| c_in_state := REQ_LINE |>)); [|reflexivity].
    pose proof (tx_upd_core (c1 <| c_in_state := REQ_LINE |>) n (fun t => t <| t_request_progress := c_HTP_REQUEST_LINE |>)) as H.
    apply rq_core_of_st in H. destruct H as [_ H]. rewrite H. reflexivity.
Qed.

(* htp_tx_state_request_line *)
Lemma tx_state_request_line_spec cb g i c :
  let r := tx_state_request_line cb g i c in
  rq_core (snd r) = rq_core c /\ rq_hookrc (fst r) /\
  (c_in_state (snd r) = c_in_state c \/ c_in_state (snd r) = REQ_PROTOCOL).
Proof.
  cbv zeta. unfold tx_state_request_line.
  match goal with |- context [rq_uri_pipeline_opt ?a ?b ?u ?t] => destruct (rq_uri_pipeline_opt a b u t) as [t'|] end;
    [|cbn; unfold rq_hookrc; repeat split; tauto].
  pose proof (tx_put_core c i t') as H0. apply rq_core_of_st in H0. destruct H0 as [H0c H0s].
  pose proof (run_hook_core cb H_REQUEST_URI_NORMALIZE i (tx_put c i t')) as H.
  pose proof (run_hook_ex_rc cb H_REQUEST_URI_NORMALIZE i None false None (tx_put c i t')) as Hr.
  unfold run_hook in *. destruct (run_hook_ex cb H_REQUEST_URI_NORMALIZE i None false None (tx_put c i t')) as [rc c1]. cbn [fst snd] in *.
  apply rq_core_of_st in H. destruct H as [Hc Hs].
  destruct rc; cbn [fst snd]; try rq_fin.
  pose proof (run_hook_core cb H_REQUEST_LINE i c1) as H. pose proof (run_hook_ex_rc cb H_REQUEST_LINE i None false None c1) as Hr2.
  unfold run_hook in *. destruct (run_hook_ex cb H_REQUEST_LINE i None false None c1) as [rc2 c2]. cbn [fst snd] in *.
  apply rq_core_of_st in H. destruct H as [Hc2 Hs2].
  destruct rc2; cbn [fst snd]; try rq_fin.
  repeat split; [|unfold rq_hookrc; tauto|right; reflexivity].
  change (rq_core (c2 <| c_in_state := REQ_PROTOCOL |>)) with (rq_core c2). congruence.
Qed.

(* htp_tx_process_request_headers / htp_tx_state_request_headers *)
Lemma tx_process_request_headers_spec cb i c :
  let r := tx_process_request_headers cb i c in
  rq_core_st (snd r) = rq_core_st c /\ rq_hookrc (fst r).
Proof.
  cbv zeta. unfold tx_process_request_headers.
  set (t1 := rq_te_cl (tx_get c i)).
  destruct (match t_parsed_uri t1 with Some nu => (rq_host nu t1, false) | None => (t1, true) end) as [t2 fault].
  set (c1 := if fault then _ else _).
  assert (H1 : rq_core_st c1 = rq_core_st c).
  { subst c1. destruct fault; cbn; rewrite <- (tx_put_core c i (rq_content_type t2)); reflexivity. }
  pose proof (req_receiver_finalize_clear_core cb c1) as H. pose proof (req_receiver_finalize_clear_rc cb c1) as Hr.
  destruct (req_receiver_finalize_clear cb c1) as [rc c2]. cbn [fst snd] in *.
  destruct rc; cbn [fst snd]; try (split; [congruence|exact Hr]).
  split; [rewrite run_hook_core; congruence|apply run_hook_ex_rc].
Qed.

Lemma tx_state_request_headers_spec cb i c :
  let r := tx_state_request_headers cb i c in
  rq_core (snd r) = rq_core c /\ rq_hookrc (fst r) /\
  (c_in_state (snd r) = c_in_state c \/ c_in_state (snd r) = REQ_FINALIZE \/ c_in_state (snd r) = REQ_CONNECT_CHECK).
Proof.
  cbv zeta. unfold tx_state_request_headers.
  destruct (c_HTP_REQUEST_HEADERS <? t_request_progress (tx_get c i)).
  - pose proof (run_hook_core cb H_REQUEST_TRAILER i c) as H. pose proof (run_hook_ex_rc cb H_REQUEST_TRAILER i None false None c) as Hr.
    unfold run_hook in *. destruct (run_hook_ex cb H_REQUEST_TRAILER i None false None c) as [rc c1]. cbn [fst snd] in *.
    apply rq_core_of_st in H. destruct H as [Hc Hs].
    destruct rc; cbn [fst snd]; try rq_fin.
    pose proof (req_receiver_finalize_clear_core cb c1) as H. pose proof (req_receiver_finalize_clear_rc cb c1) as Hr2.
    destruct (req_receiver_finalize_clear cb c1) as [rc2 c2]. cbn [fst snd] in *.
    apply rq_core_of_st in H. destruct H as [Hc2 Hs2].
    destruct rc2; cbn [fst snd]; try rq_fin.
    repeat split; [|unfold rq_hookrc; tauto|tauto].
    change (rq_core (c2 <| c_in_state := REQ_FINALIZE |>)) with (rq_core c2). congruence.
  - destruct (c_HTP_REQUEST_LINE <=? t_request_progress (tx_get c i)); [|cbn; unfold rq_hookrc; repeat split; tauto].
    set (c1 := if negb (c_in_chunk_count c =? c_in_chunk_request_index c)%nat then _ else c).
    assert (H1 : rq_core_st c1 = rq_core_st c) by (subst c1; destruct (negb _); [apply tx_upd_core|reflexivity]).
    pose proof (tx_process_request_headers_spec cb i c1) as H. cbv zeta in H.
    destruct (tx_process_request_headers cb i c1) as [rc c2]. cbn [fst snd] in *. destruct H as [H Hr].
    rewrite H1 in H. apply rq_core_of_st in H. destruct H as [Hc Hs].
    destruct rc; cbn [fst snd]; rq_fin.
Qed.

(* ---- per-pass facts about the byte-level states ---- *)
Definition rq_len (c : connp) : nat := k_len (c_in c).
Definition rq_rd (c : connp) : nat := k_read (c_in c).
Definition rq_cs (c : connp) : nat := k_consume (c_in c).
(* REQ_BODY_IDENTITY / REQ_BODY_CHUNKED_DATA are entered with a non-zero amount left and left when it reaches zero *)
Definition rq_inv (c : connp) : Prop :=
  match c_in_state c with
  | REQ_BODY_IDENTITY => c_in_body_data_left c <> 0
  | REQ_BODY_CHUNKED_DATA => c_in_chunked_length c <> 0
  | _ => True
  end.
Definition rq_plain (s : req_state) : Prop := s <> REQ_BODY_IDENTITY /\ s <> REQ_BODY_CHUNKED_DATA.
Lemma rq_inv_plain c : rq_plain (c_in_state c) -> rq_inv c.
Proof. unfold rq_inv, rq_plain. destruct (c_in_state c); tauto. Qed.

(* the caller's chunk is what the cursor says it is: offsets ordered, and a non-NULL chunk has in_current_len bytes *)
Definition rq_wf (c : connp) : Prop :=
  (rq_rd c <= rq_len c)%nat /\ (rq_cs c <= rq_rd c)%nat /\
  match k_data (c_in c) with Some d => (rq_len c <= length d)%nat | None => True end.
Definition rq_pre (c : connp) : Prop := rq_wf c /\ rq_inv c.

(* positions and counters only *)
Definition rq_pos (c : connp) := (k_len (c_in c), k_read (c_in c), c_in_body_data_left c, c_in_chunked_length c, k_data (c_in c)).
Lemma rq_pos_of_core a b : rq_core a = rq_core b -> rq_pos a = rq_pos b /\ rq_cs a = rq_cs b.
Proof. unfold rq_core, rq_pos, rq_cs. intros H. injection H as H1 H2 H3 H4 H5 H6 H7 H8 H9 H10. split; congruence. Qed.
Lemma rq_pos_of_core_st a b : rq_core_st a = rq_core_st b -> rq_pos a = rq_pos b /\ rq_cs a = rq_cs b /\ c_in_state a = c_in_state b.
Proof. intros H. apply rq_core_of_st in H. destruct H as [H Hs]. apply rq_pos_of_core in H. tauto. Qed.

(* what one pass (a state function returning rc) guarantees *)
Definition rq_step_ok (c c' : connp) (rc : st) : Prop :=
  rq_len c' = rq_len c /\ k_data (c_in c') = k_data (c_in c) /\ (rq_rd c <= rq_rd c')%nat /\ rq_pre c' /\
  ((rc = ST_DATA \/ rc = ST_DATA_BUFFER) -> rq_rd c' = rq_len c').

(* same position, consume offset still behind the read offset, state unchanged or plain: everything is kept *)
Lemma rq_step_same c c' rc :
  rq_pre c ->
  rq_pos c' = rq_pos c -> (rq_cs c' <= rq_rd c')%nat -> (c_in_state c' = c_in_state c \/ rq_plain (c_in_state c')) ->
  rq_hookrc rc \/ rq_rd c = rq_len c ->
  rq_step_ok c c' rc.
Proof.
  unfold rq_step_ok, rq_pre, rq_wf, rq_len, rq_rd, rq_cs, rq_pos. intros [(Hb & Hc & Hd) Hi] Hp Hcs Hs Hr. injection Hp as Hl Hrd Hbl Hch Hda.
  rewrite Hl, Hrd, Hda. repeat split; try lia; try assumption.
  - destruct Hs as [Hs|Hs]; [|apply rq_inv_plain; exact Hs]. unfold rq_inv in *. rewrite Hs, Hbl, Hch. exact Hi.
  - intros Hx. destruct Hr as [Hr|Hr]; [|exact Hr]. unfold rq_hookrc in Hr. destruct Hx as [->| ->]; destruct Hr as [Hr|[Hr|Hr]]; discriminate.
Qed.

(* macros *)
Lemma rq_read_byte_pos c : rq_core_st (fst (rq_read_byte c)) = rq_core_st c.
Proof. unfold rq_read_byte. destruct (k_data (c_in c)); [destruct (nth_error b _)|]; reflexivity. Qed.
Lemma rq_peek_next_pos c : rq_pos (rq_peek_next c) = rq_pos c /\ rq_cs (rq_peek_next c) = rq_cs c /\ c_in_state (rq_peek_next c) = c_in_state c /\
                            (k_next_byte (c_in (rq_peek_next c)) = None <-> (rq_len c <= rq_rd c)%nat).
Proof.
  unfold rq_peek_next, rq_at_end, rq_len, rq_rd. destruct (k_len (c_in c) <=? k_read (c_in c))%nat eqn:E.
  - apply Nat.leb_le in E. cbn. repeat split; auto.
  - apply Nat.leb_gt in E. pose proof (rq_read_byte_pos c) as H. destruct (rq_read_byte c) as [c1 b]. cbn [fst] in H.
    apply rq_pos_of_core_st in H. destruct H as (Hp & Hc & Hs). cbn. repeat split; try assumption; [discriminate|lia].
Qed.
Lemma rq_copy_byte_some c c' : rq_copy_byte c = Some c' ->
  rq_len c' = rq_len c /\ rq_rd c' = S (rq_rd c) /\ rq_cs c' = rq_cs c /\ (rq_rd c < rq_len c)%nat /\ c_in_state c' = c_in_state c /\
  c_in_body_data_left c' = c_in_body_data_left c /\ c_in_chunked_length c' = c_in_chunked_length c /\ k_data (c_in c') = k_data (c_in c).
Proof.
  unfold rq_copy_byte, rq_at_end, rq_len, rq_rd, rq_cs. destruct (k_len (c_in c) <=? k_read (c_in c))%nat eqn:E; [discriminate|].
  apply Nat.leb_gt in E. pose proof (rq_read_byte_pos c) as H. destruct (rq_read_byte c) as [c1 b]. cbn [fst] in H.
  apply rq_pos_of_core_st in H. destruct H as (Hp & Hc & Hs). injection Hp as H1 H2 H3 H4 H5. unfold rq_cs in Hc.
  intros Hx. injection Hx as <-. cbn. repeat split; congruence || lia.
Qed.
Lemma rq_copy_byte_none c : rq_copy_byte c = None -> (rq_len c <= rq_rd c)%nat.
Proof.
  unfold rq_copy_byte, rq_at_end, rq_len, rq_rd. destruct (k_len (c_in c) <=? k_read (c_in c))%nat eqn:E.
  - intros _. apply Nat.leb_le in E. exact E.
  - destruct (rq_read_byte c). discriminate.
Qed.
Lemma rq_next_byte_some c c' : rq_next_byte c = Some c' ->
  rq_len c' = rq_len c /\ rq_rd c' = S (rq_rd c) /\ rq_cs c' = S (rq_cs c) /\ (rq_rd c < rq_len c)%nat /\ c_in_state c' = c_in_state c /\
  c_in_body_data_left c' = c_in_body_data_left c /\ c_in_chunked_length c' = c_in_chunked_length c /\ k_data (c_in c') = k_data (c_in c).
Proof.
  unfold rq_next_byte, rq_at_end, rq_len, rq_rd, rq_cs. destruct (k_len (c_in c) <=? k_read (c_in c))%nat eqn:E; [discriminate|].
  apply Nat.leb_gt in E. pose proof (rq_read_byte_pos c) as H. destruct (rq_read_byte c) as [c1 b]. cbn [fst] in H.
  apply rq_pos_of_core_st in H. destruct H as (Hp & Hc & Hs). injection Hp as H1 H2 H3 H4 H5. unfold rq_cs in Hc.
  intros Hx. injection Hx as <-. cbn. repeat split; congruence || lia.
Qed.
Lemma rq_next_byte_none c : rq_next_byte c = None -> (rq_len c <= rq_rd c)%nat.
Proof.
  unfold rq_next_byte, rq_at_end, rq_len, rq_rd. destruct (k_len (c_in c) <=? k_read (c_in c))%nat eqn:E.
  - intros _. apply Nat.leb_le in E. exact E.
  - destruct (rq_read_byte c). discriminate.
Qed.

Lemma rq_slice_pos c from to : rq_core_st (fst (rq_slice c from to)) = rq_core_st c.
Proof.
  unfold rq_slice. destruct (k_data (c_in c)); [destruct (to <=? length b)%nat|destruct (to <=? from)%nat]; reflexivity.
Qed.
(* the buffer functions move the consume offset up to the read offset at most *)
Definition rq_moved (c c' : connp) : Prop :=
  rq_pos c' = rq_pos c /\ c_in_state c' = c_in_state c /\ (rq_cs c' = rq_cs c \/ rq_cs c' = rq_rd c').
Lemma rq_moved_refl c : rq_moved c c.
Proof. unfold rq_moved. tauto. Qed.
Lemma rq_moved_trans a b c : rq_moved a b -> rq_moved b c -> rq_moved a c.
Proof.
  unfold rq_moved. intros (P1 & S1 & C1) (P2 & S2 & C2). repeat split; try congruence.
  destruct C2 as [C2|C2]; [|tauto]. destruct C1 as [C1|C1]; [left; congruence|right].
  unfold rq_pos, rq_rd in *. injection P2 as _ H _ _ _. congruence.
Qed.
Lemma rq_moved_core a b : rq_core_st b = rq_core_st a -> rq_moved a b.
Proof. intros H. apply rq_pos_of_core_st in H. unfold rq_moved. tauto. Qed.

Lemma req_buffer_moved g c : rq_moved c (snd (req_buffer g c)).
Proof.
  unfold req_buffer. destruct (k_data (c_in c)); [|apply rq_moved_refl].
  set (c1 := if (k_read (c_in c) <? k_consume (c_in c))%nat then rq_fault c else c).
  assert (H1 : rq_moved c c1) by (subst c1; destruct (_ <? _)%nat; apply rq_moved_core; reflexivity).
  destruct (_ =? 0)%nat; [exact H1|].
  set (c2 := match c_in_tx c1 with Some _ => c1 | None => rq_fault c1 end).
  assert (H2 : rq_moved c c2) by (subst c2; destruct (c_in_tx c1); [exact H1|eapply rq_moved_trans; [exact H1|apply rq_moved_core; reflexivity]]).
  destruct (g_field_limit_hard g <? _)%nat; [exact H2|].
  pose proof (rq_slice_pos c2 (k_consume (c_in c2)) (k_read (c_in c2))) as H3.
  destruct (rq_slice c2 (k_consume (c_in c2)) (k_read (c_in c2))) as [c3 piece]. cbn [fst snd] in *.
  eapply rq_moved_trans; [exact H2|]. apply rq_pos_of_core_st in H3. destruct H3 as (P3 & C3 & S3).
  unfold rq_moved, rq_pos, rq_cs, rq_rd, rq_set_in in *. cbn. repeat split; try congruence. right. reflexivity.
Qed.
Lemma req_consolidate_data_moved g c : rq_moved c (snd (fst (req_consolidate_data g c))).
Proof.
  unfold req_consolidate_data. destruct (k_buf (c_in c)).
  - pose proof (req_buffer_moved g c) as H. destruct (req_buffer g c) as [rc c1]. destruct rc; exact H.
  - pose proof (rq_slice_pos c (k_consume (c_in c)) (k_read (c_in c))) as H.
    destruct (rq_slice c (k_consume (c_in c)) (k_read (c_in c))). apply rq_moved_core. exact H.
Qed.
Lemma req_clear_buffer_moved c : rq_moved c (req_clear_buffer c).
Proof. unfold rq_moved. repeat split. right. reflexivity. Qed.
Lemma rq_tx_upd_moved f c : rq_moved c (rq_tx_upd f c).
Proof. apply rq_moved_core. apply rq_tx_upd_core. Qed.

(* a moved parser still satisfies the precondition and yields the same pass facts *)
Lemma rq_pre_moved c c1 : rq_moved c c1 -> rq_pre c -> rq_pre c1.
Proof.
  unfold rq_moved, rq_pre, rq_wf, rq_pos, rq_len, rq_rd, rq_cs, rq_inv. intros (P & S & C) [(Hb & Hc & Hd) Hi].
  injection P as H1 H2 H3 H4 H5. rewrite S, H1, H2, H3, H4, H5. repeat split; try assumption. unfold rq_cs, rq_rd in C. lia.
Qed.
Lemma rq_step_via c c1 c' rc : rq_moved c c1 -> rq_step_ok c1 c' rc -> rq_step_ok c c' rc.
Proof.
  unfold rq_moved, rq_step_ok, rq_pos, rq_len, rq_rd. intros (P & S & C) F. injection P as H1 H2 H3 H4 H5.
  rewrite H1, H2, H5 in F. exact F.
Qed.
Lemma rq_step_moved c c' rc : rq_pre c -> rq_moved c c' -> rq_hookrc rc \/ rq_rd c = rq_len c -> rq_step_ok c c' rc.
Proof.
  intros Hp Hm Hr. pose proof (rq_pre_moved c c' Hm Hp) as Hp'. destruct Hm as (P & S & C).
  apply rq_step_same; try assumption; [|left; exact S]. destruct Hp' as [(_ & H & _) _]. exact H.
Qed.

Lemma rq_step_adv c c2 c' rc :
  rq_len c2 = rq_len c -> k_data (c_in c2) = k_data (c_in c) -> (rq_rd c <= rq_rd c2)%nat ->
  rq_step_ok c2 c' rc -> rq_step_ok c c' rc.
Proof. unfold rq_step_ok. intros H1 H2 H3 (A1 & A2 & A3 & A4 & A5). split; [congruence|split; [congruence|split; [lia|split; [exact A4|exact A5]]]]. Qed.

Lemma rq_pre_copy c c2 : rq_pre c -> rq_copy_byte c = Some c2 -> rq_pre c2 /\ (rq_cs c2 < rq_rd c2)%nat.
Proof.
  intros [(Hb & Hc & Hd) Hi] H. apply rq_copy_byte_some in H. destruct H as (H1 & H2 & H3 & H4 & H5 & H6 & H7 & H8).
  unfold rq_pre, rq_wf, rq_inv in *. rewrite H1, H2, H3, H5, H6, H7, H8. repeat split; try lia; assumption.
Qed.
Lemma rq_pre_next c c2 : rq_pre c -> rq_next_byte c = Some c2 -> rq_pre c2.
Proof.
  intros [(Hb & Hc & Hd) Hi] H. apply rq_next_byte_some in H. destruct H as (H1 & H2 & H3 & H4 & H5 & H6 & H7 & H8).
  unfold rq_pre, rq_wf, rq_inv in *. rewrite H1, H2, H3, H5, H6, H7, H8. repeat split; try lia; assumption.
Qed.

(* a chunk that has just been read from yields a non-empty consolidated region *)
Lemma rq_slice_nonempty c from to d :
  k_data (c_in c) = Some d -> (from < to)%nat -> (to <= length d)%nat -> snd (rq_slice c from to) <> [].
Proof.
  intros Hd Hlt Hle. unfold rq_slice. rewrite Hd. replace (to <=? length d)%nat with true by (symmetry; apply Nat.leb_le; exact Hle).
  cbn. intros E. apply (f_equal (@length N)) in E. rewrite firstn_length, skipn_length in E. cbn in E. lia.
Qed.
Lemma req_consolidate_nonempty g c :
  rq_wf c -> (rq_cs c < rq_rd c)%nat -> k_data (c_in c) <> None ->
  fst (fst (req_consolidate_data g c)) = ST_OK -> snd (req_consolidate_data g c) <> [].
Proof.
  intros (Hb & Hc & Hd) Hlt Hn. unfold rq_len, rq_rd, rq_cs in *. destruct (k_data (c_in c)) as [d|] eqn:Ed; [|congruence].
  unfold req_consolidate_data. destruct (k_buf (c_in c)) as [b|] eqn:Eb.
  - unfold req_buffer. rewrite Ed.
    replace (k_read (c_in c) - k_consume (c_in c) =? 0)%nat with false by (symmetry; apply Nat.eqb_neq; lia).
    set (c1 := if (k_read (c_in c) <? k_consume (c_in c))%nat then rq_fault c else c).
    assert (H1 : c_in c1 = c_in c) by (subst c1; destruct (k_read (c_in c) <? k_consume (c_in c))%nat; reflexivity).
    set (c2 := match c_in_tx c1 with Some _ => c1 | None => rq_fault c1 end).
    assert (H2 : c_in c2 = c_in c) by (subst c2; destruct (c_in_tx c1); exact H1).
    destruct (g_field_limit_hard g <? _)%nat; [cbn; discriminate|].
    pose proof (rq_slice_nonempty c2 (k_consume (c_in c2)) (k_read (c_in c2)) d) as Hs.
    pose proof (rq_slice_pos c2 (k_consume (c_in c2)) (k_read (c_in c2))) as Hp.
    destruct (rq_slice c2 (k_consume (c_in c2)) (k_read (c_in c2))) as [c3 piece]. cbn [fst snd] in *.
    intros _. unfold rq_set_in. cbn.
    assert (Hk : k_buf (c_in c3) = Some b).
    { apply rq_core_of_st in Hp. destruct Hp as [Hp _]. unfold rq_core in Hp. injection Hp as _ _ _ _ _ Hp _ _ _ _. rewrite Hp, H2. exact Eb. }
    rewrite Hk. rewrite H2 in Hs. specialize (Hs Ed ltac:(lia) ltac:(lia)). destruct b; cbn; [exact Hs|discriminate].
  - pose proof (rq_slice_nonempty c (k_consume (c_in c)) (k_read (c_in c)) d Ed ltac:(lia) ltac:(lia)) as Hs.
    destruct (rq_slice c (k_consume (c_in c)) (k_read (c_in c))). cbn in *. intros _. exact Hs.
Qed.

Section Steps.
Variable cb : cb_oracle.
Variable g : cfg.

Lemma rq_hookrc_error : rq_hookrc ST_ERROR. Proof. unfold rq_hookrc. tauto. Qed.
Lemma rq_hookrc_ok : rq_hookrc ST_OK. Proof. unfold rq_hookrc. tauto. Qed.
Lemma rq_hookrc_not_data rc : rq_hookrc rc -> ~ (rc = ST_DATA \/ rc = ST_DATA_BUFFER).
Proof. unfold rq_hookrc. intros [->|[->| ->]] [H|H]; discriminate. Qed.

(* the tx-state functions applied to in_tx: cursor untouched, result OK/ERROR/STOP, state kept or plain *)
Lemma rq_tx_fn_step (f : nat -> connp -> st * connp) (S : req_state -> Prop) c rc c' :
  (forall i c0, rq_core (snd (f i c0)) = rq_core c0 /\ rq_hookrc (fst (f i c0)) /\
                (c_in_state (snd (f i c0)) = c_in_state c0 \/ S (c_in_state (snd (f i c0))))) ->
  (forall s, S s -> rq_plain s) ->
  rq_pre c -> rq_with_tx f c = (rc, c') -> rq_step_ok c c' rc /\ rq_hookrc rc.
Proof.
  intros F HS Hp H. unfold rq_with_tx in H. destruct (c_in_tx c) as [i|].
  - specialize (F i c). rewrite H in F. cbn [fst snd] in F. destruct F as (Sc & Sr & Ss). split; [|exact Sr].
    apply rq_pos_of_core in Sc. destruct Sc as [Sp Scs].
    apply rq_step_same; auto.
    + destruct Hp as [(_ & Hc & _) _]. unfold rq_pos, rq_rd in *. injection Sp as _ Hr _ _ _. unfold rq_cs in *. lia.
    + destruct Ss as [Ss|Ss]; [left; exact Ss|right; apply HS; exact Ss].
  - injection H as <- <-. split; [|apply rq_hookrc_error]. apply rq_step_moved; auto using rq_moved_refl, rq_hookrc_error.
Qed.
Lemma rq_request_complete_step c rc c' : rq_pre c -> rq_request_complete cb g c = (rc, c') -> rq_step_ok c c' rc /\ rq_hookrc rc.
Proof.
  apply (rq_tx_fn_step (tx_state_request_complete cb g) (fun s => s = REQ_IDLE \/ s = REQ_IGNORE_DATA_AFTER_HTTP_0_9)).
  - intros i c0. exact (tx_state_request_complete_spec cb g i c0).
  - intros s [->| ->]; split; discriminate.
Qed.
Lemma rq_request_line_step c rc c' : rq_pre c -> rq_with_tx (tx_state_request_line cb g) c = (rc, c') -> rq_step_ok c c' rc /\ rq_hookrc rc.
Proof.
  apply (rq_tx_fn_step (tx_state_request_line cb g) (fun s => s = REQ_PROTOCOL)).
  - intros i c0. exact (tx_state_request_line_spec cb g i c0).
  - intros s ->; split; discriminate.
Qed.
Lemma rq_request_headers_step c rc c' : rq_pre c -> rq_with_tx (tx_state_request_headers cb) c = (rc, c') -> rq_step_ok c c' rc /\ rq_hookrc rc.
Proof.
  apply (rq_tx_fn_step (tx_state_request_headers cb) (fun s => s = REQ_FINALIZE \/ s = REQ_CONNECT_CHECK)).
  - intros i c0. exact (tx_state_request_headers_spec cb i c0).
  - intros s [->| ->]; split; discriminate.
Qed.
Lemma rq_body_data_step d n c rc c' :
  rq_pre c -> rq_with_tx (fun i => tx_req_process_body_data_ex cb i d n) c = (rc, c') -> rq_step_ok c c' rc /\ rq_hookrc rc /\ rq_moved c c'.
Proof.
  intros Hp H.
  assert (A : rq_step_ok c c' rc /\ rq_hookrc rc).
  { revert Hp H. apply (rq_tx_fn_step (fun i => tx_req_process_body_data_ex cb i d n) (fun _ => False)).
    - intros i c0. pose proof (tx_req_process_body_data_ex_core cb i d n c0) as Hc. apply rq_core_of_st in Hc.
      destruct Hc as [Hc Hs]. repeat split; [exact Hc|apply tx_req_process_body_data_ex_rc|left; exact Hs].
    - intros s []. }
  destruct A as [A1 A2]. split; [exact A1|split; [exact A2|]].
  unfold rq_with_tx in H. destruct (c_in_tx c) as [i|].
  - pose proof (tx_req_process_body_data_ex_core cb i d n c) as Hc. rewrite H in Hc. cbn [snd] in Hc.
    apply rq_moved_core. exact Hc.
  - injection H as <- <-. apply rq_moved_refl.
Qed.

(* a step from a moved parser, finishing with a moved parser and a fixed result *)
Lemma rq_step_moved_rc c c' rc : rq_pre c -> rq_moved c c' -> ~ (rc = ST_DATA \/ rc = ST_DATA_BUFFER) -> rq_step_ok c c' rc.
Proof.
  intros Hp Hm Hr. pose proof (rq_pre_moved c c' Hm Hp) as Hp'. destruct Hm as (P & S & C).
  unfold rq_step_ok. unfold rq_pos, rq_len, rq_rd in *. injection P as H1 H2 H3 H4 H5.
  repeat split; try congruence; try lia; try apply Hp'; try (intros Hd; contradiction).
Qed.

Lemma rq_step_gen c c' rc :
  rq_pre c -> rq_pos c' = rq_pos c -> (rq_cs c' = rq_cs c \/ rq_cs c' = rq_rd c') ->
  (c_in_state c' = c_in_state c \/ rq_plain (c_in_state c')) ->
  (~ (rc = ST_DATA \/ rc = ST_DATA_BUFFER) \/ rq_rd c = rq_len c) -> rq_step_ok c c' rc.
Proof.
  intros [(Hb & Hc & Hd) Hi] P C S R. unfold rq_step_ok, rq_pre, rq_wf, rq_pos, rq_len, rq_rd, rq_cs in *.
  injection P as H1 H2 H3 H4 H5. rewrite H1, H2, H5. repeat split; try lia; try assumption.
  - destruct S as [S|S]; [|apply rq_inv_plain; exact S]. unfold rq_inv in *. rewrite S, H3, H4. exact Hi.
  - intros Hx. destruct R as [R|R]; [contradiction|exact R].
Qed.

Lemma rq_step_plain c c' rc :
  rq_pre c -> rq_len c' = rq_len c -> rq_rd c' = rq_rd c -> k_data (c_in c') = k_data (c_in c) ->
  (rq_cs c' = rq_cs c \/ rq_cs c' = rq_rd c') -> rq_plain (c_in_state c') ->
  (~ (rc = ST_DATA \/ rc = ST_DATA_BUFFER) \/ rq_rd c = rq_len c) -> rq_step_ok c c' rc.
Proof.
  intros [(Hb & Hc & Hd) Hi] H1 H2 H5 C S R. unfold rq_step_ok, rq_pre, rq_wf, rq_len, rq_rd, rq_cs in *.
  rewrite H1, H2, H5. repeat split; try lia; try assumption.
  - apply rq_inv_plain; exact S.
  - intros Hx. destruct R as [R|R]; [contradiction|exact R].
Qed.

(* htp_connp_REQ_LINE_complete: a pass, or the "nothing to parse" exit (HTP_DATA) on an empty consolidated region *)
Lemma REQ_LINE_complete_step c rc c' :
  rq_pre c -> REQ_LINE_complete cb g c = (rc, c') ->
  rq_step_ok c c' rc \/
  (rc = ST_DATA /\ rq_moved c c' /\ fst (fst (req_consolidate_data g c)) = ST_OK /\ snd (req_consolidate_data g c) = []).
Proof.
  intros Hp H. unfold REQ_LINE_complete in H.
  pose proof (req_consolidate_data_moved g c) as M. destruct (req_consolidate_data g c) as [[rc1 c1] data]. cbn [fst snd] in *.
  destruct rc1; try (injection H as <- <-; left; apply rq_step_moved_rc; auto; intros [E|E]; discriminate).
  destruct data as [|x data].
  - injection H as <- <-. right. split; [reflexivity|].
    split; [eapply rq_moved_trans; [exact M|apply req_clear_buffer_moved]|]. split; reflexivity.
  - left. destruct (htp_is_line_ignorable (g_personality g) (x :: data)).
    + injection H as <- <-. apply rq_step_moved_rc; auto; [|intros [E|E]; discriminate].
      eapply rq_moved_trans; [exact M|]. eapply rq_moved_trans; [apply rq_tx_upd_moved|apply req_clear_buffer_moved].
    + pose proof (rq_tx_upd_moved (fun t => htp_parse_request_line g (t <| t_request_line := Some (htp_chomp (x :: data)) |>)) c1) as Q.
      remember (rq_tx_upd (fun t => htp_parse_request_line g (t <| t_request_line := Some (htp_chomp (x :: data)) |>)) c1) as c2 eqn:Ec2.
      clear Ec2. pose proof (rq_moved_trans _ _ _ M Q) as M2.
      destruct (rq_with_tx (tx_state_request_line cb g) c2) as [rc3 c3] eqn:E3.
      apply (rq_step_via c c2 c' rc M2).
      destruct (rq_request_line_step c2 rc3 c3 (rq_pre_moved _ _ M2 Hp) E3) as [S3 R3].
      assert (S4 : rq_step_ok c2 c3 ST_ERROR).
      { destruct S3 as (A1 & A2 & A3 & A4 & A5). repeat split; try assumption; try apply A4. intros [E|E]; discriminate. }
      destruct rc3; injection H as <- <-; try exact S4.
      destruct S3 as (A1 & A2 & A3 & A4 & A5).
      pose proof (rq_pre_moved _ _ (req_clear_buffer_moved c3) A4) as A6.
      unfold rq_step_ok. repeat split; try assumption; try apply A6; try (intros [E|E]; discriminate).
Qed.

(* the non-NULL chunk of a data call; on close (NULL, 0) there is nothing to read *)
Definition rq_readable (c : connp) : Prop := k_data (c_in c) = None -> rq_len c = 0%nat.

(* htp_connp_REQ_LINE *)
Lemma REQ_LINE_loop_step n : forall c rc c',
  rq_pre c -> rq_readable c -> (rq_len c - rq_rd c <= n)%nat -> REQ_LINE_loop cb g n c = (rc, c') -> rq_step_ok c c' rc.
Proof.
  induction n as [|n IH]; intros c rc c' Hp Hread Hn H; cbn [REQ_LINE_loop] in H.
  all: pose proof (rq_peek_next_pos c) as (P1 & P2 & P3 & P4);
       assert (M1 : rq_moved c (rq_peek_next c)) by (unfold rq_moved; tauto);
       pose proof (rq_pre_moved _ _ M1 Hp) as Hp1.
  all: destruct ((c_in_status (rq_peek_next c) =? c_HTP_STREAM_CLOSED) &&
                 match k_next_byte (c_in (rq_peek_next c)) with None => true | Some _ => false end) eqn:Ecl.
  1,3: apply andb_prop in Ecl; destruct Ecl as [_ Ecl];
       destruct (k_next_byte (c_in (rq_peek_next c))) eqn:En; [discriminate|];
       assert (Hend : (rq_len c <= rq_rd c)%nat) by (apply P4; reflexivity);
       apply (rq_step_via c _ c' rc M1);
       destruct (REQ_LINE_complete_step _ _ _ Hp1 H) as [S|(-> & M2 & _)]; [exact S|];
       apply rq_step_moved; auto; right;
       destruct Hp1 as [(Hb & _) _]; unfold rq_pos, rq_len, rq_rd in *; injection P1 as H1 H2 _ _ _; lia.
  all: destruct (rq_copy_byte (rq_peek_next c)) as [c2|] eqn:Ec.
  2,4: injection H as <- <-; apply rq_copy_byte_none in Ec; apply (rq_step_via c _ _ _ M1);
       apply rq_step_moved; auto using rq_moved_refl; right; destruct Hp1 as [(Hb & _) _]; lia.
  all: destruct (rq_pre_copy _ _ Hp1 Ec) as [Hp2 Hlt];
       pose proof (rq_copy_byte_some _ _ Ec) as (C1 & C2 & C3 & C4 & C5 & C6 & C7 & C8);
       apply (rq_step_via c _ c' rc M1); apply (rq_step_adv _ c2 c' rc C1 C8 ltac:(lia)).
  all: destruct (rq_next_is c2 LF).
  1,3: destruct (REQ_LINE_complete_step _ _ _ Hp2 H) as [S|(-> & M2 & E1 & E2)]; [exact S|exfalso];
       revert E2; apply req_consolidate_nonempty; [apply Hp2|exact Hlt| |exact E1];
       intros Hnone; rewrite C8 in Hnone; unfold rq_readable in Hread;
       unfold rq_pos, rq_len, rq_rd in *; injection P1 as H1 H2 _ _ H5; rewrite H5 in Hnone; specialize (Hread Hnone); lia.
  - exfalso. unfold rq_pos, rq_len, rq_rd in *. injection P1 as H1 H2 _ _ _. lia.
  - apply (IH c2 rc c' Hp2); [| |exact H].
    + unfold rq_readable in *. rewrite C8, C1. unfold rq_pos, rq_len in *. injection P1 as H1 _ _ _ H5. rewrite H5, H1. exact Hread.
    + unfold rq_pos, rq_len, rq_rd in *. injection P1 as H1 H2 _ _ _. lia.
Qed.
Lemma REQ_LINE_fn_step c rc c' : rq_pre c -> rq_readable c -> REQ_LINE_fn cb g c = (rc, c') -> rq_step_ok c c' rc.
Proof. intros Hp Hr H. unfold REQ_LINE_fn in H. eapply REQ_LINE_loop_step; eauto. Qed.

Ltac rq_nodata := let E := fresh in intros [E|E]; discriminate.

(* htp_connp_REQ_IDLE *)
Lemma connp_tx_create_moved c : rq_inv c -> c_in_state c = REQ_IDLE ->
  k_len (c_in (snd (connp_tx_create g c))) = k_len (c_in c) /\ c_in (snd (connp_tx_create g c)) = c_in c /\
  c_in_state (snd (connp_tx_create g c)) = REQ_IDLE.
Proof.
  intros _ Hs. unfold connp_tx_create.
  set (c1 := if (c_out_next_tx_index c <? length (c_txs c))%nat then _ else c).
  assert (H1 : c_in c1 = c_in c /\ c_in_state c1 = c_in_state c) by (subst c1; destruct (_ <? _)%nat; split; reflexivity).
  destruct H1 as [H1 H1s].
  destruct ((0 <? g_max_tx g) && (g_max_tx g <? length (c_txs c)))%nat; cbn; rewrite ?H1; repeat split; congruence.
Qed.
Lemma REQ_IDLE_fn_step c rc c' : rq_pre c -> c_in_state c = REQ_IDLE -> REQ_IDLE_fn cb g c = (rc, c') -> rq_step_ok c c' rc.
Proof.
  intros Hp Hs H. unfold REQ_IDLE_fn in H. destruct (rq_at_end c) eqn:E.
  - injection H as <- <-. apply rq_step_moved; auto using rq_moved_refl. right.
    unfold rq_at_end in E. apply Nat.leb_le in E. destruct Hp as [(Hb & _) _]. unfold rq_len, rq_rd in *. lia.
  - destruct Hp as [Hw Hi]. pose proof (connp_tx_create_moved c Hi Hs) as (T1 & T2 & T3).
    destruct (connp_tx_create g c) as [[i|] c1]; cbn [snd] in *.
    + pose proof (tx_state_request_start_spec cb i c1) as S. cbv zeta in S. rewrite H in S. cbn [fst snd] in S.
      destruct S as (Sc & Sr & Ss). apply rq_pos_of_core in Sc. destruct Sc as [Sp Scs].
      assert (Hst : rq_plain (c_in_state c')) by (destruct Ss as [Ss|Ss]; rewrite Ss, ?T3; split; discriminate).
      unfold rq_step_ok, rq_pre, rq_wf, rq_pos, rq_len, rq_rd, rq_cs in *. injection Sp as S1 S2 _ _ S5.
      rewrite S1, S2, S5, Scs, T2. repeat split; try tauto; try lia; try (apply rq_inv_plain; exact Hst).
      intros Hd. exfalso. exact (rq_hookrc_not_data _ Sr Hd).
    + injection H as <- <-. destruct Hw as (Hb & Hc & Hd). unfold rq_step_ok, rq_pre, rq_wf, rq_len, rq_rd, rq_cs in *. cbn. rewrite T2.
      repeat split; try assumption; try lia; try rq_nodata. apply rq_inv_plain. cbn. rewrite T3. split; discriminate.
Qed.

(* htp_connp_REQ_PROTOCOL *)
Lemma REQ_PROTOCOL_fn_step c rc c' : rq_pre c -> REQ_PROTOCOL_fn c = (rc, c') -> rq_step_ok c c' rc.
Proof.
  intros Hp H. unfold REQ_PROTOCOL_fn in H.
  assert (G : forall c1, rq_moved c c1 -> rq_step_ok c (rq_to_headers c1) ST_OK).
  { intros c1 (M1 & M2 & M3). unfold rq_to_headers.
    destruct (rq_tx_upd_moved (fun t => t <| t_request_progress := c_HTP_REQUEST_HEADERS |>) (c1 <| c_in_state := REQ_HEADERS |>)) as (Q1 & Q2 & Q3).
    apply rq_step_gen; [exact Hp|rewrite Q1; exact M1| |right; rewrite Q2; cbn; split; discriminate|left; rq_nodata].
    change (rq_cs (c1 <| c_in_state := REQ_HEADERS |>)) with (rq_cs c1) in Q3.
    destruct Q3 as [Q3|Q3]; [|right; exact Q3]. destruct M3 as [M3|M3]; [left; congruence|right].
    rewrite Q3, M3. unfold rq_pos, rq_rd in *. injection Q1 as _ Q1 _ _ _. cbn in Q1. congruence. }
  destruct (negb (t_is_protocol_0_9 (rq_tx c))).
  - injection H as <- <-. apply G. apply rq_moved_refl.
  - destruct (_ <? _)%nat.
    + injection H as <- <-. apply G. apply rq_tx_upd_moved.
    + pose proof (rq_slice_pos c (k_read (c_in c)) (k_len (c_in c))) as Q.
      destruct (rq_slice c (k_read (c_in c)) (k_len (c_in c))) as [c1 rest]. cbn [fst] in Q. apply rq_moved_core in Q.
      destruct (forallb htp_is_space rest); injection H as <- <-.
      * destruct Q as (Q1 & Q2 & Q3).
        apply rq_step_gen; [exact Hp|exact Q1|exact Q3|right; cbn; split; discriminate|left; rq_nodata].
      * apply G. eapply rq_moved_trans; [exact Q|apply rq_tx_upd_moved].
Qed.

(* htp_connp_REQ_CONNECT_CHECK / _WAIT_RESPONSE / htp_connp_REQ_BODY_DETERMINE: no byte is read, the next state is set *)
Lemma rq_set_state_step c s rc :
  rq_pre c -> rq_plain s -> ~ (rc = ST_DATA \/ rc = ST_DATA_BUFFER) -> rq_step_ok c (c <| c_in_state := s |>) rc.
Proof. intros Hp Hs Hr. apply rq_step_gen; [exact Hp|reflexivity|left; reflexivity|right; exact Hs|left; exact Hr]. Qed.
Ltac rq_plain_tac := split; discriminate.

Lemma REQ_CONNECT_CHECK_fn_step c rc c' : rq_pre c -> REQ_CONNECT_CHECK_fn c = (rc, c') -> rq_step_ok c c' rc.
Proof.
  intros Hp H. unfold REQ_CONNECT_CHECK_fn in H.
  destruct (_ =? _); injection H as <- <-.
  - apply rq_step_gen; [exact Hp|reflexivity|left; reflexivity|right; cbn; rq_plain_tac|left; rq_nodata].
  - apply rq_set_state_step; [exact Hp|rq_plain_tac|rq_nodata].
Qed.
Lemma REQ_CONNECT_WAIT_RESPONSE_fn_step c rc c' : rq_pre c -> REQ_CONNECT_WAIT_RESPONSE_fn c = (rc, c') -> rq_step_ok c c' rc.
Proof.
  intros Hp H. unfold REQ_CONNECT_WAIT_RESPONSE_fn in H.
  destruct (_ <=? _).
  - injection H as <- <-. apply rq_step_gen; [exact Hp|reflexivity|left; reflexivity|left; reflexivity|left; rq_nodata].
  - destruct (_ && _); injection H as <- <-; apply rq_set_state_step; [exact Hp|rq_plain_tac|rq_nodata|exact Hp|rq_plain_tac|rq_nodata].
Qed.
Lemma REQ_BODY_DETERMINE_fn_step c rc c' : rq_pre c -> REQ_BODY_DETERMINE_fn c = (rc, c') -> rq_step_ok c c' rc.
Proof.
  intros Hp H. unfold REQ_BODY_DETERMINE_fn in H.
  destruct (_ =? c_HTP_CODING_CHUNKED).
  - injection H as <- <-.
    destruct (rq_tx_upd_moved (fun t => t <| t_request_progress := c_HTP_REQUEST_BODY |>) (c <| c_in_state := REQ_BODY_CHUNKED_LENGTH |>)) as (Q1 & Q2 & Q3).
    apply rq_step_gen; [exact Hp|rewrite Q1; reflexivity|exact Q3|right; rewrite Q2; cbn; rq_plain_tac|left; rq_nodata].
  - destruct (_ =? c_HTP_CODING_IDENTITY).
    + cbv zeta in H. destruct (negb (_ =? 0)) eqn:E0; injection H as <- <-.
      * match goal with |- rq_step_ok _ (rq_tx_upd ?f ?c1) _ => destruct (rq_tx_upd_moved f c1) as (Q1 & Q2 & Q3) end.
        cbn in E0. apply negb_true_iff in E0. apply Z.eqb_neq in E0.
        destruct Hp as [(Hb & Hc & Hd) Hi]. unfold rq_step_ok, rq_pre, rq_wf, rq_pos, rq_len, rq_rd, rq_cs, rq_inv in *.
        injection Q1 as A1 A2 A3 _ A5. cbn in *. rewrite A1, A2, A5, Q2. repeat split; try lia; try assumption; try rq_nodata.
      * apply rq_step_plain; [exact Hp|reflexivity|reflexivity|reflexivity|left; reflexivity|cbn; rq_plain_tac|left; rq_nodata].
    + destruct (_ =? c_HTP_CODING_NO_BODY); injection H as <- <-.
      * apply rq_set_state_step; [exact Hp|rq_plain_tac|rq_nodata].
      * apply rq_step_gen; [exact Hp|reflexivity|left; reflexivity|left; reflexivity|left; rq_nodata].
Qed.

(* htp_connp_REQ_IGNORE_DATA_AFTER_HTTP_0_9 *)
Lemma REQ_IGNORE_fn_step c rc c' : rq_pre c -> c_in_state c = REQ_IGNORE_DATA_AFTER_HTTP_0_9 ->
  REQ_IGNORE_DATA_AFTER_HTTP_0_9_fn c = (rc, c') -> rq_step_ok c c' rc.
Proof.
  intros [(Hb & Hc & Hd) Hi] Hs H. unfold REQ_IGNORE_DATA_AFTER_HTTP_0_9_fn in H. injection H as <- <-.
  unfold rq_step_ok, rq_pre, rq_wf, rq_len, rq_rd, rq_cs, rq_set_in in *.
  destruct (0 <? k_len (c_in c) - k_read (c_in c))%nat; cbn; repeat split; try lia; try assumption;
    try (apply rq_inv_plain; cbn; rewrite Hs; split; discriminate).
Qed.

(* the shared body of REQ_BODY_IDENTITY / REQ_BODY_CHUNKED_DATA *)
Lemma rq_bytes_to_consume_spec c w : rq_pre c ->
  (rq_bytes_to_consume c w <= rq_len c - rq_rd c)%nat /\
  (rq_bytes_to_consume c w = 0%nat -> w <> 0 -> rq_rd c = rq_len c) /\
  (w - Z.of_nat (rq_bytes_to_consume c w) <> 0 -> rq_bytes_to_consume c w = (rq_len c - rq_rd c)%nat).
Proof.
  intros [(Hb & Hc & Hd) Hi]. unfold rq_bytes_to_consume, rq_len, rq_rd in *.
  destruct ((w <? 0) || (Z.of_nat (k_len (c_in c) - k_read (c_in c)) <? w)) eqn:E.
  - repeat split; try lia.
  - apply orb_false_iff in E. destruct E as [E1 E2]. apply Z.ltb_ge in E1, E2. repeat split; try lia.
Qed.
Lemma rq_consume_body_step n c rc c' : rq_pre c -> (n <= rq_len c - rq_rd c)%nat -> rq_consume_body cb n c = (rc, c') ->
  rq_hookrc rc /\ rq_len c' = rq_len c /\ k_data (c_in c') = k_data (c_in c) /\ c_in_state c' = c_in_state c /\
  c_in_body_data_left c' = c_in_body_data_left c /\ c_in_chunked_length c' = c_in_chunked_length c /\
  (rc = ST_OK -> rq_rd c' = (rq_rd c + n)%nat /\ rq_cs c' = (rq_cs c + n)%nat) /\
  (rc <> ST_OK -> rq_rd c' = rq_rd c /\ rq_cs c' = rq_cs c).
Proof.
  intros Hp Hn H. unfold rq_consume_body in H.
  set (c1 := fst (match k_data (c_in c) with
                  | Some _ => let '(c0, d) := rq_slice c (k_read (c_in c)) (k_read (c_in c) + n) in (c0, Some d)
                  | None => (if (k_read (c_in c) =? 0)%nat then c else rq_fault c, None) end)).
  assert (M1 : rq_core_st c1 = rq_core_st c).
  { subst c1. destruct (k_data (c_in c)).
    - pose proof (rq_slice_pos c (k_read (c_in c)) (k_read (c_in c) + n)) as Q. destruct (rq_slice c (k_read (c_in c)) (k_read (c_in c) + n)). exact Q.
    - cbn. destruct (_ =? 0)%nat; reflexivity. }
  destruct (match k_data (c_in c) with
            | Some _ => let '(c0, d) := rq_slice c (k_read (c_in c)) (k_read (c_in c) + n) in (c0, Some d)
            | None => (if (k_read (c_in c) =? 0)%nat then c else rq_fault c, None) end) as [c1' data] eqn:E1.
  cbn [fst] in c1. subst c1.
  destruct (rq_with_tx (fun i => tx_req_process_body_data_ex cb i data n) c1') as [rc2 c2] eqn:E2.
  apply rq_moved_core in M1. pose proof (rq_pre_moved _ _ M1 Hp) as Hp1.
  destruct (rq_body_data_step data n c1' rc2 c2 Hp1 E2) as (_ & R2 & M2).
  pose proof (rq_moved_trans _ _ _ M1 M2) as M.
  assert (Mc : rq_cs c2 = rq_cs c).
  { unfold rq_with_tx in E2. destruct (c_in_tx c1') as [i|].
    - pose proof (tx_req_process_body_data_ex_core cb i data n c1') as Q. rewrite E2 in Q. cbn [snd] in Q.
      apply rq_pos_of_core_st in Q. destruct Q as (_ & Q & _). destruct M1 as (_ & _ & [M1|M1]); [congruence|].
      (* the slice does not move the consume offset *)
      rewrite Q. clear - E1. destruct (k_data (c_in c)).
      + pose proof (rq_slice_pos c (k_read (c_in c)) (k_read (c_in c) + n)) as Q. destruct (rq_slice c (k_read (c_in c)) (k_read (c_in c) + n)).
        injection E1 as <- _. apply rq_pos_of_core_st in Q. tauto.
      + injection E1 as <- _. destruct (_ =? 0)%nat; reflexivity.
    - injection E2 as _ <-. clear - E1. destruct (k_data (c_in c)).
      + pose proof (rq_slice_pos c (k_read (c_in c)) (k_read (c_in c) + n)) as Q. destruct (rq_slice c (k_read (c_in c)) (k_read (c_in c) + n)).
        injection E1 as <- _. apply rq_pos_of_core_st in Q. tauto.
      + injection E1 as <- _. destruct (_ =? 0)%nat; reflexivity. }
  destruct M as (P & S & _). unfold rq_pos, rq_len, rq_rd, rq_cs in *. injection P as A1 A2 A3 A4 A5.
  destruct rc2; injection H as <- <-; try (repeat split; try assumption; try congruence; intros; congruence).
  match goal with |- context [rq_tx_upd ?f ?c0] => destruct (rq_tx_upd_moved f c0) as (Q1 & Q2 & Q3);
    pose proof (rq_tx_upd_core f c0) as Qc end.
  apply rq_pos_of_core_st in Qc. destruct Qc as (_ & Qc & _).
  unfold rq_pos, rq_cs, rq_set_in in *. injection Q1 as B1 B2 B3 B4 B5. cbn in *.
  repeat split; try assumption; try congruence; try lia; intros; congruence.
Qed.

(* htp_connp_REQ_BODY_IDENTITY *)
Lemma REQ_BODY_IDENTITY_fn_step c rc c' : rq_pre c -> c_in_state c = REQ_BODY_IDENTITY ->
  REQ_BODY_IDENTITY_fn cb c = (rc, c') -> rq_step_ok c c' rc.
Proof.
  intros Hp Hs H. unfold REQ_BODY_IDENTITY_fn in H.
  pose proof (rq_bytes_to_consume_spec c (c_in_body_data_left c) Hp) as (N1 & N2 & N3).
  set (n := rq_bytes_to_consume c (c_in_body_data_left c)) in *.
  assert (Hl : c_in_body_data_left c <> 0) by (destruct Hp as [_ Hi]; unfold rq_inv in Hi; rewrite Hs in Hi; exact Hi).
  destruct (n =? 0)%nat eqn:E0.
  - apply Nat.eqb_eq in E0. injection H as <- <-.
    apply rq_step_gen; [exact Hp|reflexivity|left; reflexivity|left; reflexivity|right; apply N2; assumption].
  - apply Nat.eqb_neq in E0. destruct (rq_consume_body cb n c) as [rc2 c2] eqn:E2.
    destruct (rq_consume_body_step n c rc2 c2 Hp N1 E2) as (R & B1 & B2 & B3 & B4 & B5 & B6 & B7).
    pose proof Hp as [(Hb & Hc & Hd) Hi].
    destruct rc2; try (injection H as <- <-; destruct (B7 ltac:(discriminate)) as [B8 B9];
      unfold rq_step_ok, rq_pre, rq_wf, rq_inv, rq_len, rq_rd, rq_cs in *; rewrite B1, B2, B3, B4, B5, B8, B9;
      repeat split; try lia; try assumption; try rq_nodata;
      destruct R as [R|[R|R]]; discriminate).
    destruct (B6 eq_refl) as [B8 B9].
    destruct (_ =? 0) eqn:Ez in H; injection H as <- <-; cbn in Ez.
    + unfold rq_step_ok, rq_pre, rq_wf, rq_len, rq_rd, rq_cs in *. cbn. rewrite B1, B2, B8, B9.
      repeat split; try lia; try assumption; try rq_nodata; try (apply rq_inv_plain; cbn; split; discriminate); try exact I.
    + apply Z.eqb_neq in Ez. rewrite B4 in Ez. specialize (N3 Ez).
      unfold rq_step_ok, rq_pre, rq_wf, rq_inv, rq_len, rq_rd, rq_cs in *. cbn. rewrite B1, B2, B3, B8, B9, Hs.
      repeat split; try lia; try assumption; try (rewrite B4; exact Ez).
Qed.

(* htp_connp_REQ_BODY_CHUNKED_DATA *)
Lemma REQ_BODY_CHUNKED_DATA_fn_step c rc c' : rq_pre c -> c_in_state c = REQ_BODY_CHUNKED_DATA ->
  REQ_BODY_CHUNKED_DATA_fn cb c = (rc, c') -> rq_step_ok c c' rc.
Proof.
  intros Hp Hs H. unfold REQ_BODY_CHUNKED_DATA_fn in H.
  pose proof (rq_bytes_to_consume_spec c (c_in_chunked_length c) Hp) as (N1 & N2 & N3).
  set (n := rq_bytes_to_consume c (c_in_chunked_length c)) in *.
  assert (Hl : c_in_chunked_length c <> 0) by (destruct Hp as [_ Hi]; unfold rq_inv in Hi; rewrite Hs in Hi; exact Hi).
  destruct (n =? 0)%nat eqn:E0.
  - apply Nat.eqb_eq in E0. injection H as <- <-.
    apply rq_step_gen; [exact Hp|reflexivity|left; reflexivity|left; reflexivity|right; apply N2; assumption].
  - apply Nat.eqb_neq in E0. destruct (rq_consume_body cb n c) as [rc2 c2] eqn:E2.
    destruct (rq_consume_body_step n c rc2 c2 Hp N1 E2) as (R & B1 & B2 & B3 & B4 & B5 & B6 & B7).
    pose proof Hp as [(Hb & Hc & Hd) Hi].
    destruct rc2; try (injection H as <- <-; destruct (B7 ltac:(discriminate)) as [B8 B9];
      unfold rq_step_ok, rq_pre, rq_wf, rq_inv, rq_len, rq_rd, rq_cs in *; rewrite B1, B2, B3, B4, B5, B8, B9;
      repeat split; try lia; try assumption; try rq_nodata;
      destruct R as [R|[R|R]]; discriminate).
    destruct (B6 eq_refl) as [B8 B9].
    destruct (_ =? 0) eqn:Ez in H; injection H as <- <-; cbn in Ez.
    + unfold rq_step_ok, rq_pre, rq_wf, rq_len, rq_rd, rq_cs in *. cbn. rewrite B1, B2, B8, B9.
      repeat split; try lia; try assumption; try rq_nodata; try (apply rq_inv_plain; cbn; split; discriminate); try exact I.
    + apply Z.eqb_neq in Ez. rewrite B5 in Ez. specialize (N3 Ez).
      unfold rq_step_ok, rq_pre, rq_wf, rq_inv, rq_len, rq_rd, rq_cs in *. cbn. rewrite B1, B2, B3, B8, B9, Hs.
      repeat split; try lia; try assumption; try (rewrite B5; exact Ez).
Qed.

(* htp_connp_REQ_BODY_CHUNKED_DATA_END *)
Lemma REQ_BODY_CHUNKED_DATA_END_loop_step n : forall c rc c',
  rq_pre c -> c_in_state c = REQ_BODY_CHUNKED_DATA_END -> (rq_len c - rq_rd c <= n)%nat ->
  REQ_BODY_CHUNKED_DATA_END_loop n c = (rc, c') -> rq_step_ok c c' rc.
Proof.
  induction n as [|n IH]; intros c rc c' Hp Hs Hn H; cbn [REQ_BODY_CHUNKED_DATA_END_loop] in H.
  all: destruct (rq_next_byte c) as [c1|] eqn:E1.
  2,4: injection H as <- <-; apply rq_next_byte_none in E1;
       apply rq_step_gen; [exact Hp|reflexivity|left; reflexivity|left; reflexivity|right; destruct Hp as [(Hb & _) _]; lia].
  all: pose proof (rq_pre_next _ _ Hp E1) as Hp1;
       pose proof (rq_next_byte_some _ _ E1) as (C1 & C2 & C3 & C4 & C5 & C6 & C7 & C8);
       match type of H with context [rq_tx_upd ?f ?cx] => destruct (rq_tx_upd_moved f cx) as (Q1 & Q2 & Q3);
         pose proof (rq_pre_moved _ _ (rq_tx_upd_moved f cx) Hp1) as Hp2; remember (rq_tx_upd f cx) as c2 eqn:Ec2; clear Ec2 end;
       assert (D1 : rq_len c2 = rq_len c) by (unfold rq_pos, rq_len in *; injection Q1 as A1 _ _ _ _; congruence);
       assert (D2 : k_data (c_in c2) = k_data (c_in c)) by (unfold rq_pos in *; injection Q1 as _ _ _ _ A5; congruence);
       assert (D3 : rq_rd c2 = S (rq_rd c)) by (unfold rq_pos, rq_rd in *; injection Q1 as _ A2 _ _ _; congruence);
       apply (rq_step_adv c c2 c' rc D1 D2 ltac:(lia)).
  all: destruct (rq_next_is c2 LF).
  1,3: injection H as <- <-; apply rq_set_state_step; [exact Hp2|rq_plain_tac|rq_nodata].
  - exfalso. lia.
  - apply (IH c2 rc c' Hp2); [congruence|lia|exact H].
Qed.
Lemma REQ_BODY_CHUNKED_DATA_END_fn_step c rc c' : rq_pre c -> c_in_state c = REQ_BODY_CHUNKED_DATA_END ->
  REQ_BODY_CHUNKED_DATA_END_fn c = (rc, c') -> rq_step_ok c c' rc.
Proof. intros Hp Hs H. unfold REQ_BODY_CHUNKED_DATA_END_fn in H. eapply REQ_BODY_CHUNKED_DATA_END_loop_step; eauto. Qed.

(* facts carried by rq_moved, unpacked *)
Lemma rq_moved_facts c c1 : rq_moved c c1 -> rq_pre c ->
  rq_len c1 = rq_len c /\ rq_rd c1 = rq_rd c /\ k_data (c_in c1) = k_data (c_in c) /\ c_in_state c1 = c_in_state c /\
  c_in_body_data_left c1 = c_in_body_data_left c /\ c_in_chunked_length c1 = c_in_chunked_length c /\ (rq_cs c1 <= rq_rd c1)%nat.
Proof.
  intros M Hp. pose proof (rq_pre_moved _ _ M Hp) as [(_ & Hc & _) _]. destruct M as (P & S & _).
  unfold rq_pos, rq_len, rq_rd in *. injection P as A1 A2 A3 A4 A5. repeat split; assumption.
Qed.

(* htp_connp_REQ_BODY_CHUNKED_LENGTH *)
Lemma REQ_BODY_CHUNKED_LENGTH_loop_step n : forall c rc c',
  rq_pre c -> c_in_state c = REQ_BODY_CHUNKED_LENGTH -> (rq_len c - rq_rd c <= n)%nat ->
  REQ_BODY_CHUNKED_LENGTH_loop g n c = (rc, c') -> rq_step_ok c c' rc.
Proof.
  induction n as [|n IH]; intros c rc c' Hp Hs Hn H; cbn [REQ_BODY_CHUNKED_LENGTH_loop] in H.
  all: destruct (rq_copy_byte c) as [c1|] eqn:E1.
  2,4: injection H as <- <-; apply rq_copy_byte_none in E1;
       apply rq_step_gen; [exact Hp|reflexivity|left; reflexivity|left; reflexivity|right; destruct Hp as [(Hb & _) _]; lia].
  all: destruct (rq_pre_copy _ _ Hp E1) as [Hp1 _];
       pose proof (rq_copy_byte_some _ _ E1) as (C1 & C2 & C3 & C4 & C5 & C6 & C7 & C8);
       apply (rq_step_adv c c1 c' rc C1 C8 ltac:(lia)).
  all: destruct (rq_next_is c1 LF).
  2: exfalso; lia.
  3: apply (IH c1 rc c' Hp1); [congruence|lia|exact H].
  all: pose proof (req_consolidate_data_moved g c1) as M; destruct (req_consolidate_data g c1) as [[rc1 c2] data]; cbn [fst snd] in M;
       destruct rc1; try (injection H as <- <-; apply rq_step_moved_rc; [exact Hp1|exact M|rq_nodata]).
  all: match type of H with context [rq_tx_upd ?f ?cx] => pose proof (rq_tx_upd_moved f cx) as M2; remember (rq_tx_upd f cx) as c3 eqn:Ec3; clear Ec3 end;
       pose proof (rq_moved_trans _ _ _ M M2) as M3; destruct (parse_chunked_length (htp_chomp data)) as [v ext];
       pose proof (rq_moved_facts _ _ M3 Hp1) as (F1 & F2 & F3 & F4 & F5 & F6 & F7); pose proof Hp1 as [(Hb & Hc & Hd) Hi].
  all: destruct (0 <? v) eqn:Ev; [apply Z.ltb_lt in Ev|destruct (v =? 0) eqn:Ev0]; injection H as <- <-.
  1,4: unfold rq_step_ok, rq_pre, rq_wf, rq_inv, rq_len, rq_rd, rq_cs in *; cbn; rewrite F1, F2, F3;
       repeat split; try lia; try assumption; try rq_nodata.
  1,3: match goal with |- rq_step_ok _ (rq_tx_upd ?f ?cx) _ => destruct (rq_tx_upd_moved f cx) as (Q1 & Q2 & Q3) end;
       unfold rq_step_ok, rq_pre, rq_wf, rq_pos, rq_len, rq_rd, rq_cs in *; injection Q1 as A1 A2 _ _ A5; cbn in *;
       rewrite A1, A2, A5, F1, F2, F3; repeat split; try lia; try assumption; try rq_nodata;
       try (apply rq_inv_plain; rewrite Q2; cbn; split; discriminate); destruct Q3 as [Q3|Q3]; rewrite Q3; cbn; lia.
  all: unfold rq_step_ok, rq_pre, rq_wf, rq_inv, rq_len, rq_rd, rq_cs in *; cbn; rewrite F1, F2, F3, F4, C5, Hs;
       repeat split; try lia; try assumption; try rq_nodata.
Qed.
Lemma REQ_BODY_CHUNKED_LENGTH_fn_step c rc c' : rq_pre c -> c_in_state c = REQ_BODY_CHUNKED_LENGTH ->
  REQ_BODY_CHUNKED_LENGTH_fn g c = (rc, c') -> rq_step_ok c c' rc.
Proof. intros Hp Hs H. unfold REQ_BODY_CHUNKED_LENGTH_fn in H. eapply REQ_BODY_CHUNKED_LENGTH_loop_step; eauto. Qed.

(* changing in_header / in_next_byte only *)
Lemma rq_set_header_moved c h : rq_moved c (rq_set_in (fun k => k <| k_header := h |>) c).
Proof. unfold rq_moved. repeat split. left. reflexivity. Qed.
Lemma rq_process_header_moved l c : rq_moved c (rq_process_header l c).
Proof. apply rq_tx_upd_moved. Qed.
Lemma rq_flush_header_moved c : rq_moved c (rq_flush_header c).
Proof.
  unfold rq_flush_header. destruct (k_header (c_in c)); [|apply rq_moved_refl].
  eapply rq_moved_trans; [apply rq_process_header_moved|apply rq_set_header_moved].
Qed.
Lemma rq_peek_next_moved c : rq_moved c (rq_peek_next c).
Proof. pose proof (rq_peek_next_pos c) as (P1 & P2 & P3 & _). unfold rq_moved. tauto. Qed.

(* one complete header line *)
Lemma rq_header_line_step c ret c2 : rq_pre c -> rq_header_line cb g c = (ret, c2) ->
  match ret with Some (rc, c') => rq_step_ok c c' rc | None => rq_moved c c2 end.
Proof.
  intros Hp H. unfold rq_header_line in H.
  pose proof (req_consolidate_data_moved g c) as M. destruct (req_consolidate_data g c) as [[rc1 c1] data]. cbn [fst snd] in M.
  destruct rc1; try (injection H as <- <-; apply rq_step_moved_rc; [exact Hp|exact M|rq_nodata]).
  destruct (htp_is_line_terminator (g_personality g) data false).
  - injection H as <- <-.
    destruct (rq_with_tx (tx_state_request_headers cb) (req_clear_buffer (rq_flush_header c1))) as [rc c'] eqn:E.
    assert (M2 : rq_moved c (req_clear_buffer (rq_flush_header c1))).
    { eapply rq_moved_trans; [exact M|]. eapply rq_moved_trans; [apply rq_flush_header_moved|apply req_clear_buffer_moved]. }
    apply (rq_step_via _ _ _ _ M2). exact (proj1 (rq_request_headers_step _ _ _ (rq_pre_moved _ _ M2 Hp) E)).
  - injection H as <- <-. eapply rq_moved_trans; [exact M|]. eapply rq_moved_trans; [|apply req_clear_buffer_moved].
    destruct (htp_is_line_folded (htp_chomp data) =? 0).
    + eapply rq_moved_trans; [apply rq_flush_header_moved|]. eapply rq_moved_trans; [apply rq_peek_next_moved|].
      destruct (k_next_byte (c_in (rq_peek_next (rq_flush_header c1)))) as [b|];
        [destruct (negb (htp_is_folding_char b))|]; first [apply rq_process_header_moved|apply rq_set_header_moved].
    + destruct (k_header (c_in c1)) as [h|].
      * destruct (_ <? _); [apply rq_set_header_moved|apply rq_moved_refl].
      * eapply rq_moved_trans; [apply rq_tx_upd_moved|apply rq_set_header_moved].
Qed.

(* htp_connp_REQ_HEADERS *)
Lemma REQ_HEADERS_loop_step n : forall c rc c',
  rq_pre c -> (rq_len c - rq_rd c <= n)%nat -> REQ_HEADERS_loop cb g n c = (rc, c') -> rq_step_ok c c' rc.
Proof.
  induction n as [|n IH]; intros c rc c' Hp Hn H; cbn [REQ_HEADERS_loop] in H.
  all: destruct (c_in_status c =? c_HTP_STREAM_CLOSED).
  1,3: match type of H with rq_with_tx _ ?cx = _ => assert (M : rq_moved c cx) end;
       [eapply rq_moved_trans; [eapply rq_moved_trans; [apply rq_flush_header_moved|apply req_clear_buffer_moved]|apply rq_tx_upd_moved]|];
       apply (rq_step_via _ _ _ _ M); exact (proj1 (rq_request_headers_step _ _ _ (rq_pre_moved _ _ M Hp) H)).
  all: destruct (rq_copy_byte c) as [c1|] eqn:E1.
  2,4: injection H as <- <-; apply rq_copy_byte_none in E1;
       apply rq_step_gen; [exact Hp|reflexivity|left; reflexivity|left; reflexivity|right; destruct Hp as [(Hb & _) _]; lia].
  all: destruct (rq_pre_copy _ _ Hp E1) as [Hp1 _];
       pose proof (rq_copy_byte_some _ _ E1) as (C1 & C2 & C3 & C4 & C5 & C6 & C7 & C8);
       apply (rq_step_adv c c1 c' rc C1 C8 ltac:(lia)).
  all: destruct (if rq_next_is c1 LF then rq_header_line cb g c1 else (None, c1)) as [ret c2] eqn:E2.
  all: assert (S2 : match ret with Some (rc0, c0) => rq_step_ok c1 c0 rc0 | None => rq_moved c1 c2 end)
         by (destruct (rq_next_is c1 LF); [exact (rq_header_line_step _ _ _ Hp1 E2)|injection E2 as <- <-; apply rq_moved_refl]).
  all: destruct ret as [[rc0 c0]|]; [injection H as <- <-; exact S2|].
  - exfalso. lia.
  - apply (rq_step_via _ _ _ _ S2). apply (IH c2 rc c' (rq_pre_moved _ _ S2 Hp1)); [|exact H].
    pose proof (rq_moved_facts _ _ S2 Hp1) as (F1 & F2 & _). lia.
Qed.
Lemma REQ_HEADERS_fn_step c rc c' : rq_pre c -> REQ_HEADERS_fn cb g c = (rc, c') -> rq_step_ok c c' rc.
Proof. intros Hp H. unfold REQ_HEADERS_fn in H. eapply REQ_HEADERS_loop_step; eauto. Qed.

(* reading ahead without changing state *)
Definition rq_adv (c c' : connp) : Prop :=
  rq_len c' = rq_len c /\ k_data (c_in c') = k_data (c_in c) /\ (rq_rd c <= rq_rd c')%nat /\ c_in_state c' = c_in_state c /\ rq_pre c'.
Lemma rq_adv_step c c1 c' rc : rq_adv c c1 -> rq_step_ok c1 c' rc -> rq_step_ok c c' rc.
Proof. intros (A1 & A2 & A3 & _ & _). apply rq_step_adv; assumption. Qed.
Lemma rq_adv_of_moved c c1 : rq_pre c -> rq_moved c c1 -> rq_adv c c1.
Proof.
  intros Hp M. pose proof (rq_moved_facts _ _ M Hp) as (F1 & F2 & F3 & F4 & _). unfold rq_adv.
  repeat split; try assumption; try lia; apply (rq_pre_moved _ _ M Hp).
Qed.
Lemma rq_adv_trans a b c : rq_adv a b -> rq_adv b c -> rq_adv a c.
Proof. unfold rq_adv. intros (A1 & A2 & A3 & A4 & A5) (B1 & B2 & B3 & B4 & B5). repeat split; try congruence; try lia; apply B5. Qed.
Lemma rq_adv_end c c1 rc : rq_adv c c1 -> (rq_rd c1 = rq_len c1 \/ ~ (rc = ST_DATA \/ rc = ST_DATA_BUFFER)) -> rq_step_ok c c1 rc.
Proof.
  intros (A1 & A2 & A3 & A4 & A5) R. unfold rq_step_ok. repeat split; try assumption; try apply A5.
  intros Hx. destruct R as [R|R]; [exact R|contradiction].
Qed.
Lemma rq_adv_copy c c1 : rq_pre c -> rq_copy_byte c = Some c1 -> rq_adv c c1.
Proof.
  intros Hp E. destruct (rq_pre_copy _ _ Hp E) as [Hp1 _].
  pose proof (rq_copy_byte_some _ _ E) as (C1 & C2 & C3 & C4 & C5 & C6 & C7 & C8). unfold rq_adv. repeat split; try assumption; try lia; apply Hp1.
Qed.

Lemma rq_peek_copy_until_adv stop n : forall c b c',
  rq_pre c -> (rq_len c - rq_rd c <= n)%nat -> rq_peek_copy_until stop n c = (b, c') ->
  rq_adv c c' /\ (b = false -> rq_rd c' = rq_len c').
Proof.
  induction n as [|n IH]; intros c b c' Hp Hn H; cbn [rq_peek_copy_until] in H.
  all: pose proof (rq_adv_of_moved _ _ Hp (rq_peek_next_moved c)) as A1; pose proof A1 as (_ & _ & _ & _ & Hp1).
  all: destruct (match k_next_byte (c_in (rq_peek_next c)) with Some b0 => stop b0 | None => false end);
       [injection H as <- <-; split; [exact A1|discriminate]|].
  all: destruct (rq_copy_byte (rq_peek_next c)) as [c2|] eqn:E.
  2,4: injection H as <- <-; split; [exact A1|intros _; apply rq_copy_byte_none in E; destruct Hp1 as [(Hb & _) _]; lia].
  all: pose proof (rq_adv_copy _ _ Hp1 E) as A2; pose proof (rq_copy_byte_some _ _ E) as (C1 & C2 & C3 & C4 & _).
  - exfalso. destruct A1 as (B1 & _ & B3 & _). pose proof (rq_peek_next_pos c) as (P1 & _). unfold rq_pos, rq_len, rq_rd in *. injection P1 as Q1 Q2 _ _ _. lia.
  - destruct A2 as (D1 & D2 & D3 & D4 & Hp2).
    destruct (IH c2 b c' Hp2) as [A3 E3]; [|exact H|].
    + pose proof (rq_peek_next_pos c) as (P1 & _). unfold rq_pos, rq_len, rq_rd in *. injection P1 as Q1 Q2 _ _ _. lia.
    + split; [|exact E3]. eapply rq_adv_trans; [exact A1|]. eapply rq_adv_trans; [|exact A3]. unfold rq_adv. repeat split; try assumption; apply Hp2.
Qed.

(* htp_connp_REQ_CONNECT_PROBE_DATA *)
Lemma REQ_CONNECT_PROBE_DATA_fn_step c rc c' : rq_pre c -> c_in_state c = REQ_CONNECT_PROBE_DATA ->
  REQ_CONNECT_PROBE_DATA_fn cb g c = (rc, c') -> rq_step_ok c c' rc.
Proof.
  intros Hp Hs H. unfold REQ_CONNECT_PROBE_DATA_fn in H.
  destruct (rq_peek_copy_until (fun b => (b =? LF)%N || (b =? 0)%N) (k_len (c_in c) - k_read (c_in c)) c) as [b c1] eqn:E.
  destruct (rq_peek_copy_until_adv _ _ c b c1 Hp (Nat.le_refl _) E) as [A1 E1]. pose proof A1 as (_ & _ & _ & S1 & Hp1).
  destruct b.
  - pose proof (req_consolidate_data_moved g c1) as M. destruct (req_consolidate_data g c1) as [[rc1 c2] data]. cbn [fst snd] in M.
    apply (rq_adv_step _ _ _ _ A1).
    destruct rc1; try (injection H as <- <-; apply rq_step_moved_rc; [exact Hp1|exact M|rq_nodata]).
    destruct (rq_probe_method data) as [mstart pos].
    destruct (negb _).
    + apply (rq_step_via _ _ _ _ M). exact (proj1 (rq_request_complete_step _ _ _ (rq_pre_moved _ _ M Hp1) H)).
    + injection H as <- <-. apply (rq_step_via _ _ _ _ M).
      apply rq_step_gen; [exact (rq_pre_moved _ _ M Hp1)|reflexivity|left; reflexivity|left; reflexivity|left; rq_nodata].
  - injection H as <- <-. apply rq_adv_end; [exact A1|left; apply E1; reflexivity].
Qed.

(* htp_connp_REQ_FINALIZE *)
Lemma rq_finalize_scan_adv c : rq_pre c ->
  match rq_finalize_scan c with
  | RF_complete c1 => rq_adv c c1
  | RF_buffer c1 => rq_adv c c1 /\ rq_rd c1 = rq_len c1
  | RF_probe c1 => rq_adv c c1
  end.
Proof.
  intros Hp. unfold rq_finalize_scan. destruct (c_in_status c =? c_HTP_STREAM_CLOSED).
  - apply rq_adv_of_moved; [exact Hp|apply rq_moved_refl].
  - pose proof (rq_adv_of_moved _ _ Hp (rq_peek_next_moved c)) as A1. pose proof A1 as (_ & _ & _ & _ & Hp1).
    destruct (k_next_byte (c_in (rq_peek_next c))) as [b|]; [|exact A1].
    destruct (negb (b =? LF)%N || (k_read (c_in (rq_peek_next c)) <=? k_consume (c_in (rq_peek_next c)))%nat); [|exact A1].
    destruct (rq_peek_copy_until (fun b0 => (b0 =? LF)%N) (k_len (c_in (rq_peek_next c)) - k_read (c_in (rq_peek_next c))) (rq_peek_next c)) as [b1 c1] eqn:E.
    destruct (rq_peek_copy_until_adv _ _ _ b1 c1 Hp1 (Nat.le_refl _) E) as [A2 E2].
    destruct b1; [exact (rq_adv_trans _ _ _ A1 A2)|split; [exact (rq_adv_trans _ _ _ A1 A2)|apply E2; reflexivity]].
Qed.

Lemma REQ_FINALIZE_fn_step c rc c' : rq_pre c -> c_in_state c = REQ_FINALIZE -> REQ_FINALIZE_fn cb g c = (rc, c') -> rq_step_ok c c' rc.
Proof.
  intros Hp Hs H. unfold REQ_FINALIZE_fn in H. pose proof (rq_finalize_scan_adv c Hp) as A.
  destruct (rq_finalize_scan c) as [c1|c1|c1].
  - pose proof A as (_ & _ & _ & _ & Hp1). apply (rq_adv_step _ _ _ _ A). exact (proj1 (rq_request_complete_step _ _ _ Hp1 H)).
  - destruct A as [A E]. injection H as <- <-. apply rq_adv_end; [exact A|left; exact E].
  - pose proof A as (_ & _ & _ & S1 & Hp1). apply (rq_adv_step _ _ _ _ A).
    pose proof (req_consolidate_data_moved g c1) as M. destruct (req_consolidate_data g c1) as [[rc1 c2] data]. cbn [fst snd] in M.
    destruct rc1; try (injection H as <- <-; apply rq_step_moved_rc; [exact Hp1|exact M|rq_nodata]).
    apply (rq_step_via _ _ _ _ M). pose proof (rq_pre_moved _ _ M Hp1) as Hp2.
    assert (S2 : c_in_state c2 = REQ_FINALIZE) by (destruct M as (_ & M & _); congruence).
    destruct data as [|x data]; [exact (proj1 (rq_request_complete_step _ _ _ Hp2 H))|].
    destruct (rq_probe_method (x :: data)) as [mstart pos].
    (* a parser that differs from c2 in in_body_data_left only, in a plain state *)
    assert (G : forall v, rq_adv c2 (c2 <| c_in_body_data_left := v |>)).
    { intros v. destruct Hp2 as [(Hb & Hc & Hd) _]. unfold rq_adv, rq_pre, rq_wf, rq_len, rq_rd, rq_cs in *. cbn.
      repeat split; try lia; try assumption. apply rq_inv_plain. cbn. rewrite S2. split; discriminate. }
    destruct ((mstart <? pos)%nat && negb _).
    + apply (rq_adv_step _ _ _ _ (G (-1))). pose proof (G (-1)) as (_ & _ & _ & _ & Hp3).
      exact (proj1 (rq_request_complete_step _ _ _ Hp3 H)).
    + set (c3 := if (mstart <? pos)%nat && (0 <? c_in_body_data_left c2) then c2 <| c_in_body_data_left := 1 |> else c2) in H.
      assert (A3 : rq_adv c2 c3).
      { subst c3. destruct (_ && _); [apply G|apply rq_adv_of_moved; [exact Hp2|apply rq_moved_refl]]. }
      pose proof A3 as (_ & _ & _ & S3 & Hp3). apply (rq_adv_step _ _ _ _ A3). clearbody c3.
      (* the data handed to the body hook comes from c4, a parser advanced from c3 *)
      assert (F : forall c4 d, rq_adv c3 c4 ->
                let '(rc0, c5) := rq_with_tx (fun i => tx_req_process_body_data_ex cb i (Some d) 0) c4 in
                rq_step_ok c3 (req_clear_buffer c5) rc0).
      { intros c4 d A4. pose proof A4 as (_ & _ & _ & S4 & Hp4).
        destruct (rq_with_tx (fun i => tx_req_process_body_data_ex cb i (Some d) 0) c4) as [rc0 c5] eqn:E5.
        destruct (rq_body_data_step _ _ _ _ _ Hp4 E5) as (_ & R5 & M5).
        apply (rq_adv_step _ _ _ _ A4). apply rq_step_moved_rc; [exact Hp4| |exact (rq_hookrc_not_data _ R5)].
        eapply rq_moved_trans; [exact M5|apply req_clear_buffer_moved]. }
      destruct (rq_next_is c3 LF).
      * destruct (rq_copy_byte c3) as [c4|] eqn:E4.
        -- pose proof (rq_adv_copy _ _ Hp3 E4) as A4. pose proof A4 as (_ & _ & _ & _ & Hp4).
           pose proof (req_consolidate_data_moved g c4) as M4. destruct (req_consolidate_data g c4) as [[rc4 c5] d2]. cbn [fst snd] in M4.
           pose proof (rq_adv_trans _ _ _ A4 (rq_adv_of_moved _ _ Hp4 M4)) as A5.
           assert (F5 : forall d, let '(rc0, c6) := rq_with_tx (fun i => tx_req_process_body_data_ex cb i (Some d) 0) c5 in
                                  rq_step_ok c3 (req_clear_buffer c6) rc0) by (intros d; exact (F c5 d A5)).
           destruct rc4;
             match type of H with (let '(_, _) := ?t in _) = _ =>
               match t with rq_with_tx (fun i => tx_req_process_body_data_ex cb i (Some ?d) 0) _ => specialize (F5 d) end;
               destruct t as [rc0 c6] end;
             injection H as <- <-; exact F5.
        -- injection H as <- <-. apply rq_copy_byte_none in E4.
           apply rq_step_gen; [exact Hp3|reflexivity|left; reflexivity|left; reflexivity|right; destruct Hp3 as [(Hb & _) _]; lia].
      * pose proof (F c3 (x :: data) (rq_adv_of_moved _ _ Hp3 (rq_moved_refl c3))) as F5.
        match type of H with (let '(_, _) := ?t in _) = _ => destruct t as [rc0 c6] end.
        injection H as <- <-. exact F5.
Qed.

(* connp->in_state(connp), for the state the parser is in *)
Lemma rq_state_fn_step c rc c' :
  rq_pre c -> (c_in_state c = REQ_LINE -> rq_readable c) -> rq_state_fn cb g (c_in_state c) c = (rc, c') -> rq_step_ok c c' rc.
Proof.
  intros Hp Hr H. destruct (c_in_state c) eqn:Es; cbn [rq_state_fn] in H.
  - apply REQ_IDLE_fn_step; assumption.
  - apply REQ_LINE_fn_step; auto.
  - apply REQ_PROTOCOL_fn_step; assumption.
  - apply REQ_HEADERS_fn_step; assumption.
  - apply REQ_CONNECT_CHECK_fn_step; assumption.
  - apply REQ_CONNECT_WAIT_RESPONSE_fn_step; assumption.
  - apply REQ_CONNECT_PROBE_DATA_fn_step; assumption.
  - apply REQ_BODY_DETERMINE_fn_step; assumption.
  - apply REQ_BODY_IDENTITY_fn_step; assumption.
  - apply REQ_BODY_CHUNKED_LENGTH_fn_step; assumption.
  - apply REQ_BODY_CHUNKED_DATA_fn_step; assumption.
  - apply REQ_BODY_CHUNKED_DATA_END_fn_step; assumption.
  - apply REQ_FINALIZE_fn_step; assumption.
  - apply REQ_IGNORE_fn_step; assumption.
Qed.

(* htp_req_handle_state_change: the cursor positions and the state stay; OK / ERROR / STOP *)
Lemma req_handle_state_change_moved c : rq_moved c (snd (req_handle_state_change cb c)) /\ rq_hookrc (fst (req_handle_state_change cb c)).
Proof.
  unfold req_handle_state_change.
  destruct (match c_in_state_previous c with Some s => req_state_eqb s (c_in_state c) | None => false end);
    [split; [apply rq_moved_refl|apply rq_hookrc_ok]|].
  assert (R : forall h c0, rq_moved c0 (snd (req_receiver_set cb h c0)) /\ rq_hookrc (fst (req_receiver_set cb h c0))).
  { intros h c0. unfold req_receiver_set. pose proof (req_receiver_finalize_clear_core cb c0) as Q. pose proof (req_receiver_finalize_clear_rc cb c0) as Qr.
    destruct (req_receiver_finalize_clear cb c0) as [rc1 c1]. cbn [fst snd] in *. split; [|exact Qr].
    eapply rq_moved_trans; [apply rq_moved_core; exact Q|]. unfold rq_moved. repeat split. left. reflexivity. }
  match goal with |- context [let '(rc, c0) := ?t in _] => assert (T : rq_moved c (snd t) /\ rq_hookrc (fst t)); [|destruct t as [rc1 c1]] end.
  { destruct (req_state_eqb (c_in_state c) REQ_HEADERS); [|split; [apply rq_moved_refl|apply rq_hookrc_ok]].
    set (c0 := match c_in_tx c with Some _ => c | None => rq_fault c end).
    assert (M0 : rq_moved c c0) by (subst c0; destruct (c_in_tx c); apply rq_moved_core; reflexivity).
    destruct (_ =? c_HTP_REQUEST_HEADERS); [|destruct (_ =? c_HTP_REQUEST_TRAILER)].
    - destruct (R H_REQUEST_HEADER_DATA c0) as [R1 R2]. split; [exact (rq_moved_trans _ _ _ M0 R1)|exact R2].
    - destruct (R H_REQUEST_TRAILER_DATA c0) as [R1 R2]. split; [exact (rq_moved_trans _ _ _ M0 R1)|exact R2].
    - split; [exact M0|apply rq_hookrc_ok]. }
  cbn [fst snd] in T. destruct T as [T1 T2]. destruct rc1; cbn [fst snd]; split; try assumption; try apply rq_hookrc_ok.
Qed.

(* the exit: a DATA result means the whole chunk was read; a DATA_OTHER result means it was not *)
Lemma rq_exit_data rc c c' code :
  rq_pre c -> ((rc = ST_DATA \/ rc = ST_DATA_BUFFER) -> rq_rd c = rq_len c) ->
  rq_exit cb g rc c = (c', code) ->
  rq_inv c' /\ rq_len c' = rq_len c /\ (code = c_HTP_STREAM_DATA -> rq_rd c' = rq_len c') /\ (code = c_HTP_STREAM_DATA_OTHER -> (rq_rd c' < rq_len c')%nat).
Proof.
  intros Hp Hd H. unfold rq_exit in H.
  assert (G : forall c1 v, rq_moved c c1 -> rq_inv (c1 <| c_in_status := v |>) /\ rq_rd (c1 <| c_in_status := v |>) = rq_rd c /\ rq_len (c1 <| c_in_status := v |>) = rq_len c).
  { intros c1 v M. pose proof (rq_pre_moved _ _ M Hp) as [_ Hi]. pose proof (rq_moved_facts _ _ M Hp) as (F1 & F2 & _). repeat split; assumption. }
  assert (B : forall c0, rq_moved c c0 -> rq_moved c (snd (let '(_, c1) := req_receiver_send_data cb false c0 in (ST_OK, c1)))).
  { intros c0 M. pose proof (req_receiver_send_data_core cb false c0) as Q. destruct (req_receiver_send_data cb false c0) as [r1 c1].
    cbn [snd] in *. eapply rq_moved_trans; [exact M|apply rq_moved_core; exact Q]. }
  destruct rc.
  all: try (injection H as <- <-;
            match goal with |- rq_inv (?c1 <| c_in_status := ?v |>) /\ _ => destruct (G c1 v (rq_moved_refl c)) as (G1 & G2 & G3) end;
            split; [exact G1|split; [exact G3|]]; split; intros E; vm_compute in E; discriminate).
  - (* ST_DATA *)
    pose proof (req_receiver_send_data_core cb false c) as Q. destruct (req_receiver_send_data cb false c) as [r1 c1]. cbn [snd] in Q.
    injection H as <- <-. destruct (G c1 c_HTP_STREAM_DATA (rq_moved_core _ _ Q)) as (G1 & G2 & G3).
    split; [exact G1|split; [exact G3|]]; split; [intros _; rewrite G2, G3; apply Hd; tauto|intros E; vm_compute in E; discriminate].
  - (* ST_DATA_OTHER *)
    destruct (rq_at_end c) eqn:E; injection H as <- <-;
      match goal with |- rq_inv (?c1 <| c_in_status := ?v |>) /\ _ => destruct (G c1 v (rq_moved_refl c)) as (G1 & G2 & G3) end; (split; [exact G1|split; [exact G3|]]; split).
    + intros _. rewrite G2, G3. unfold rq_at_end in E. apply Nat.leb_le in E. destruct Hp as [(Hb & _) _]. unfold rq_len, rq_rd in *. lia.
    + intros E2; vm_compute in E2; discriminate.
    + intros E2; vm_compute in E2; discriminate.
    + intros _. rewrite G2, G3. unfold rq_at_end in E. apply Nat.leb_gt in E. exact E.
  - (* ST_DATA_BUFFER *)
    pose proof (req_receiver_send_data_core cb false c) as Q. destruct (req_receiver_send_data cb false c) as [r1 c1]. cbn [snd] in Q.
    pose proof (req_buffer_moved g c1) as M2. destruct (req_buffer g c1) as [brc c2]. cbn [snd] in M2.
    pose proof (rq_moved_trans _ _ _ (rq_moved_core _ _ Q) M2) as M.
    destruct brc; injection H as <- <-;
      match goal with |- rq_inv (?cx <| c_in_status := ?v |>) /\ _ => destruct (G cx v M) as (G1 & G2 & G3) end; (split; [exact G1|split; [exact G3|]]; split);
      try (intros E; vm_compute in E; discriminate).
    intros _. rewrite G2, G3. apply Hd. tauto.
Qed.

(* what the loop maintains between passes *)
Definition rq_loop_inv (gap : bool) (c : connp) : Prop := rq_pre c /\ (gap = false -> rq_readable c).

Lemma rq_iter_spec gap c :
  rq_loop_inv gap c ->
  match rq_iter cb g gap c with
  | inr c1 => rq_loop_inv gap c1 /\ rq_len c1 = rq_len c
  | inl (c', code) => rq_inv c' /\ rq_len c' = rq_len c /\ (code = c_HTP_STREAM_DATA -> rq_rd c' = rq_len c') /\
                      (code = c_HTP_STREAM_DATA_OTHER -> (rq_rd c' < rq_len c')%nat)
  end.
Proof.
  intros [Hp Hr]. unfold rq_iter.
  set (dispatch := if gap then _ else _).
  assert (D : match dispatch with Some (rc, c1) => rq_step_ok c c1 rc | None => True end).
  { subst dispatch. destruct gap.
    - destruct (req_state_eqb (c_in_state c) REQ_BODY_IDENTITY || req_state_eqb (c_in_state c) REQ_IGNORE_DATA_AFTER_HTTP_0_9) eqn:E.
      + destruct (rq_state_fn cb g (c_in_state c) c) as [rc c1] eqn:E1. apply rq_state_fn_step; [exact Hp| |exact E1].
        intros Hl. rewrite Hl in E. discriminate.
      + destruct (req_state_eqb (c_in_state c) REQ_FINALIZE); [|exact I].
        destruct (rq_request_complete cb g c) as [rc c1] eqn:E1. exact (proj1 (rq_request_complete_step _ _ _ Hp E1)).
    - destruct (rq_state_fn cb g (c_in_state c) c) as [rc c1] eqn:E1. apply rq_state_fn_step; [exact Hp|intros _; apply Hr; reflexivity|exact E1]. }
  destruct dispatch as [[rc c1]|].
  - destruct D as (D1 & D2 & D3 & D4 & D5).
    assert (Ex : forall rc0 c2, rq_moved c1 c2 -> ((rc0 = ST_DATA \/ rc0 = ST_DATA_BUFFER) -> rq_rd c1 = rq_len c1) ->
                 let '(c', code) := rq_exit cb g rc0 c2 in
                 rq_inv c' /\ rq_len c' = rq_len c /\ (code = c_HTP_STREAM_DATA -> rq_rd c' = rq_len c') /\ (code = c_HTP_STREAM_DATA_OTHER -> (rq_rd c' < rq_len c')%nat)).
    { intros rc0 c2 M Hd. destruct (rq_exit cb g rc0 c2) as [c' code] eqn:E. pose proof (rq_moved_facts _ _ M D4) as (F1 & F2 & _).
      destruct (rq_exit_data rc0 c2 c' code (rq_pre_moved _ _ M D4)) as (X1 & X2 & X3 & X4); [|exact E|].
      - intros Hx. rewrite F1, F2. exact (Hd Hx).
      - split; [exact X1|split; [congruence|split; assumption]]. }
    destruct rc; try exact (Ex _ c1 (rq_moved_refl c1) D5).
    destruct (c_in_status c1 =? c_HTP_STREAM_TUNNEL).
    + destruct D4 as [_ D4]. split; [exact D4|split; [exact D1|split; intros E; vm_compute in E; discriminate]].
    + pose proof (req_handle_state_change_moved c1) as [M R]. destruct (req_handle_state_change cb c1) as [rc2 c2]. cbn [fst snd] in M, R.
      destruct rc2; try (apply (Ex _ c2 M); intros Hx; exfalso; exact (rq_hookrc_not_data _ R Hx)).
      pose proof (rq_moved_facts _ _ M D4) as (F1 & F2 & F3 & _).
      split; [|congruence]. split; [exact (rq_pre_moved _ _ M D4)|]. intros Hg. specialize (Hr Hg). unfold rq_readable in *. rewrite F3, F1, D2, D1. exact Hr.
  - destruct Hp as [_ Hi]. split; [exact Hi|split; [reflexivity|split; intros E; vm_compute in E; discriminate]].
Qed.

Lemma rq_loop_spec fuel gap : forall c c' code,
  rq_loop_inv gap c -> rq_loop cb g fuel gap c = (c', code) ->
  rq_inv c' /\ rq_len c' = rq_len c /\ (code = c_HTP_STREAM_DATA -> rq_rd c' = rq_len c') /\ (code = c_HTP_STREAM_DATA_OTHER -> (rq_rd c' < rq_len c')%nat).
Proof.
  induction fuel as [|f IH]; intros c c' code Hinv H; cbn [rq_loop] in H.
  - injection H as <- <-. destruct Hinv as [[_ Hi] _]. split; [exact Hi|split; [reflexivity|split; intros E; vm_compute in E; discriminate]].
  - pose proof (rq_iter_spec gap c Hinv) as S. destruct (rq_iter cb g gap c) as [[c1 code1]|c1].
    + injection H as <- <-. exact S.
    + destruct S as [S Sl]. destruct (IH c1 c' code S H) as (I1 & I2 & I3). split; [exact I1|split; [congruence|exact I3]].
Qed.
End Steps.

(* ---- req_data_data_means_all / req_data_other_means_less ----
   For a parser whose body counters are consistent with its state (rq_inv: true of htp_connp_create's parser and kept
   by every data call) and a chunk pointer that has len readable bytes:
     HTP_STREAM_DATA        => in_current_read_offset = in_current_len   (everything was consumed)
     HTP_STREAM_DATA_OTHER  => in_current_read_offset < in_current_len   (strictly less was consumed)  *)
Theorem req_data_consumption cb g data len c c' code :
  rq_inv c -> (forall d, data = Some d -> (len <= length d)%nat) ->
  connp_req_data cb g data len c = (c', code) ->
  rq_inv c' /\
  (code = c_HTP_STREAM_DATA -> k_read (c_in c') = len /\ k_len (c_in c') = len) /\
  (code = c_HTP_STREAM_DATA_OTHER -> (k_read (c_in c') < len)%nat /\ k_len (c_in c') = len).
Proof.
  intros Hi Hd H. unfold connp_req_data in H.
  destruct (c_in_status c =? c_HTP_STREAM_STOP);
    [injection H as <- <-; split; [exact Hi|split; intros E; vm_compute in E; discriminate]|].
  destruct (c_in_status c =? c_HTP_STREAM_ERROR);
    [injection H as <- <-; split; [exact Hi|split; intros E; vm_compute in E; discriminate]|].
  destruct (match c_in_tx c with None => negb (req_state_eqb (c_in_state c) REQ_IDLE) && negb (c_in_status c =? c_HTP_STREAM_TUNNEL) | Some _ => false end);
    [injection H as <- <-; split; [exact Hi|split; intros E; vm_compute in E; discriminate]|].
  destruct ((len =? 0)%nat && negb (c_in_status c =? c_HTP_STREAM_CLOSED));
    [injection H as <- <-; split; [exact Hi|split; intros E; vm_compute in E; discriminate]|].
  set (c1 := (rq_set_in _ c) <| c_in_chunk_count ::= S |> <| c_in_data_counter ::= Z.add (Z.of_nat len) |>) in H.
  destruct (c_in_status c1 =? c_HTP_STREAM_TUNNEL);
    [injection H as <- <-; split; [exact Hi|split; intros E; vm_compute in E; discriminate]|].
  set (c2 := if c_out_status c1 =? c_HTP_STREAM_DATA_OTHER then _ else c1) in H.
  assert (E2 : c_in c2 = c_in c1 /\ c_in_state c2 = c_in_state c /\ c_in_body_data_left c2 = c_in_body_data_left c /\
               c_in_chunked_length c2 = c_in_chunked_length c).
  { subst c2. destruct (c_out_status c1 =? c_HTP_STREAM_DATA_OTHER); repeat split; reflexivity. }
  destruct E2 as (E2 & E3 & E4 & E5).
  assert (L : k_len (c_in c2) = len /\ k_read (c_in c2) = 0%nat /\ k_consume (c_in c2) = 0%nat /\ k_data (c_in c2) = data)
    by (rewrite E2; repeat split; reflexivity).
  destruct L as (L1 & L2 & L3 & L4).
  assert (Hinv : rq_loop_inv (match data with None => (0 <? len)%nat | Some _ => false end) c2).
  { unfold rq_loop_inv, rq_pre, rq_wf, rq_readable, rq_inv, rq_len, rq_rd, rq_cs. rewrite L1, L2, L3, L4, E3, E4, E5.
    repeat split; try lia; try exact Hi.
    - destruct data as [d|]; [apply Hd; reflexivity|exact I].
    - intros Hg Hn. destruct data; [discriminate Hn|]. apply Nat.ltb_ge in Hg. lia. }
  pose proof (rq_loop_spec cb g _ _ c2 c' code Hinv H) as (S1 & S2 & S3 & S4).
  unfold rq_len, rq_rd in *. rewrite L1 in S2. split; [exact S1|split; intros E].
  - split; [rewrite (S3 E); exact S2|exact S2].
  - split; [rewrite <- S2; exact (S4 E)|exact S2].
Qed.

(* the two halves under the names of the C09 clauses *)
Corollary req_data_data_means_all cb g data len c c' :
  rq_inv c -> (forall d, data = Some d -> (len <= length d)%nat) ->
  connp_req_data cb g data len c = (c', c_HTP_STREAM_DATA) -> k_read (c_in c') = len.
Proof. intros Hi Hd H. destruct (req_data_consumption cb g data len c c' _ Hi Hd H) as (_ & A & _). exact (proj1 (A eq_refl)). Qed.
Corollary req_data_other_means_less cb g data len c c' :
  rq_inv c -> (forall d, data = Some d -> (len <= length d)%nat) ->
  connp_req_data cb g data len c = (c', c_HTP_STREAM_DATA_OTHER) -> (k_read (c_in c') < len)%nat.
Proof. intros Hi Hd H. destruct (req_data_consumption cb g data len c c' _ Hi Hd H) as (_ & _ & A). exact (proj1 (A eq_refl)). Qed.

(* rq_inv is not vacuous: the fresh parser satisfies it, and every request data call keeps it *)
Lemma rq_inv_new : rq_inv connp_new.
Proof. exact I. Qed.
Corollary req_data_keeps_inv cb g data len c :
  rq_inv c -> (forall d, data = Some d -> (len <= length d)%nat) -> rq_inv (fst (connp_req_data cb g data len c)).
Proof.
  intros Hi Hd. destruct (connp_req_data cb g data len c) as [c' code] eqn:H.
  exact (proj1 (req_data_consumption cb g data len c c' code Hi Hd H)).
Qed.

(* ---- termination half (statement; the measure is the one described at MReq.rq_fuel) ---- *)
Definition rq_rank (c : connp) : nat :=
  let closed := c_in_status c =? c_HTP_STREAM_CLOSED in
  let has_buf := match k_buf (c_in c) with Some _ => true | None => false end in
  let has_tx := match c_in_tx c with Some _ => true | None => false end in
  match c_in_state c with
  | REQ_LINE => if closed then (if has_buf then 15 else 14) else 0
  | REQ_PROTOCOL => 13 | REQ_HEADERS => 12 | REQ_CONNECT_CHECK => 11 | REQ_CONNECT_WAIT_RESPONSE => 10
  | REQ_CONNECT_PROBE_DATA => if has_tx then 9 else 8
  | REQ_BODY_DETERMINE => 7
  | REQ_BODY_IDENTITY | REQ_BODY_CHUNKED_LENGTH | REQ_BODY_CHUNKED_DATA | REQ_BODY_CHUNKED_DATA_END => 6
  | REQ_FINALIZE => if has_tx then (if has_buf then 5 else 4) else 3
  | REQ_IGNORE_DATA_AFTER_HTTP_0_9 => 2
  | REQ_IDLE => 1
  end%nat.
Definition rq_phi (c : connp) : nat := (16 * (rq_len c - rq_rd c) + rq_rank c)%nat.

(* a closed stream is only ever fed the empty chunk (htp_connp_req_close / htp_connp_close) *)
Definition rq_closed_empty (c : connp) : Prop := c_in_status c = c_HTP_STREAM_CLOSED -> rq_len c = 0%nat.

(* every pass that goes round again decreases rq_phi ... *)
Definition req_pass_decreases_full : Prop :=
  forall cb g gap c c1, rq_loop_inv gap c -> rq_closed_empty c -> rq_iter cb g gap c = inr c1 ->
    (rq_phi c1 < rq_phi c)%nat /\ rq_closed_empty c1.
(* ... hence the for(;;) of htp_connp_req_data never exhausts rq_fuel: more fuel does not change the outcome *)
Definition req_loop_fuel_sufficient_full : Prop :=
  forall cb g gap c k, rq_loop_inv gap c -> rq_closed_empty c ->
    rq_loop cb g (rq_fuel (rq_len c) + k) gap c = rq_loop cb g (rq_fuel (rq_len c)) gap c.

(* the second follows from the first (proved), so what is left open is the per-pass inequality *)
Lemma rq_loop_enough_fuel cb g gap :
  req_pass_decreases_full ->
  forall f c k, rq_loop_inv gap c -> rq_closed_empty c -> (rq_phi c < f)%nat -> rq_loop cb g (f + k) gap c = rq_loop cb g f gap c.
Proof.
  intros D f. induction f as [|f IH]; intros c k Hinv Hc Hf; [lia|].
  cbn [Nat.add rq_loop]. destruct (rq_iter cb g gap c) as [r|c1] eqn:E; [reflexivity|].
  pose proof (rq_iter_spec cb g gap c Hinv) as S. rewrite E in S. destruct S as [S _].
  destruct (D cb g gap c c1 Hinv Hc E) as [D1 D2].
  apply IH; [exact S|exact D2|lia].
Qed.
Theorem req_loop_fuel_sufficient_partial : req_pass_decreases_full -> req_loop_fuel_sufficient_full.
Proof.
  intros D cb g gap c k Hinv Hc. apply (rq_loop_enough_fuel cb g gap D); [exact Hinv|exact Hc|].
  unfold rq_phi, rq_fuel. assert (rq_rank c <= 15)%nat.
  { unfold rq_rank. destruct (c_in_state c); repeat match goal with |- context [if ?b then _ else _] => destruct b end; lia. }
  lia.
Qed.
