(* First invariants of the request-direction model (MReq.v), each for EVERY configuration, callback oracle,
   parser state and input. *)
Require Import Htp.Model.MConnTypes Htp.Model.MTxCommon Htp.Model.MBstr Htp.Model.MReqLine Htp.Model.MTxReq Htp.Model.MReq.
Local Open Scope Z_scope.

(* ---- req_buffer_bounded ----
   htp_connp_req_buffer either has nothing to copy (NULL chunk, or nothing between the consume and the read offset:
   it then leaves both buffers as they were) or, when it returns HTP_OK, the buffered bytes plus the pending header
   fit the hard limit. *)
Lemma rq_fault_in c : c_in (rq_fault c) = c_in c.
Proof. reflexivity. Qed.

Lemma rq_slice_in c from to : c_in (fst (rq_slice c from to)) = c_in c.
Proof.
  unfold rq_slice. destruct (k_data (c_in c)); [destruct (to <=? length b)%nat|destruct (to <=? from)%nat]; reflexivity.
Qed.
Lemma rq_slice_len c from to : (length (snd (rq_slice c from to)) <= to - from)%nat.
Proof.
  unfold rq_slice. destruct (k_data (c_in c)) as [d|].
  - destruct (to <=? length d)%nat; cbn; rewrite firstn_length; lia.
  - destruct (to <=? from)%nat; cbn; lia.
Qed.

Theorem req_buffer_bounded g c c' :
  req_buffer g c = (ST_OK, c') ->
  k_data (c_in c) <> None -> (k_consume (c_in c) < k_read (c_in c))%nat ->
  (rq_buf_size c' + rq_header_len c' <= g_field_limit_hard g)%nat.
Proof.
  unfold req_buffer. intros H Hd Hlt.
  destruct (k_data (c_in c)) as [d|] eqn:Ed; [|congruence].
  destruct (k_read (c_in c) - k_consume (c_in c) =? 0)%nat eqn:E0; [apply Nat.eqb_eq in E0; lia|].
  set (c1 := if (k_read (c_in c) <? k_consume (c_in c))%nat then rq_fault c else c) in H.
  assert (H1 : c_in c1 = c_in c) by (subst c1; destruct (k_read (c_in c) <? k_consume (c_in c))%nat; reflexivity).
  set (c2 := match c_in_tx c1 with Some _ => c1 | None => rq_fault c1 end) in H.
  assert (H2 : c_in c2 = c_in c) by (subst c2; destruct (c_in_tx c1); rewrite ?rq_fault_in; exact H1).
  destruct (g_field_limit_hard g <? _)%nat eqn:El in H; [discriminate|].
  apply Nat.ltb_ge in El.
  destruct (rq_slice c2 (k_consume (c_in c2)) (k_read (c_in c2))) as [c3 piece] eqn:Es.
  pose proof (rq_slice_in c2 (k_consume (c_in c2)) (k_read (c_in c2))) as H3.
  pose proof (rq_slice_len c2 (k_consume (c_in c2)) (k_read (c_in c2))) as Hp.
  rewrite Es in H3, Hp. cbn in H3, Hp.
  inversion H; subst c'; clear H.
  unfold rq_buf_size, rq_header_len, rq_set_in in *. cbn. rewrite H3, H2 in *. rewrite H1 in El. cbn.
  destruct (k_buf (c_in c)) as [b|]; destruct (k_header (c_in c)) as [h|]; cbn in *;
    rewrite ?app_length; lia.
Qed.

(* ... and in the two do-nothing cases the buffers are untouched *)
Theorem req_buffer_nothing_to_copy g c c' :
  req_buffer g c = (ST_OK, c') ->
  k_data (c_in c) = None \/ (k_read (c_in c) <= k_consume (c_in c))%nat ->
  c_in c' = c_in c.
Proof.
  unfold req_buffer. intros H [Hn|Hle].
  - rewrite Hn in H. inversion H. reflexivity.
  - destruct (k_data (c_in c)); [|inversion H; reflexivity].
    replace (k_read (c_in c) - k_consume (c_in c))%nat with 0%nat in H by lia. change (0 =? 0)%nat with true in H. cbv iota in H.
    inversion H. destruct (k_read (c_in c) <? k_consume (c_in c))%nat; reflexivity.
Qed.

(* C10 reading: the buffer alone never exceeds the hard limit across req_buffer *)
Corollary req_buffer_keeps_buf_bounded g c c' :
  req_buffer g c = (ST_OK, c') ->
  (rq_buf_size c <= g_field_limit_hard g)%nat -> (rq_buf_size c' <= g_field_limit_hard g)%nat.
Proof.
  intros H Hb.
  destruct (k_data (c_in c)) as [d|] eqn:Ed.
  - destruct (Nat.lt_ge_cases (k_consume (c_in c)) (k_read (c_in c))) as [Hlt|Hge].
    + assert (Hd : k_data (c_in c) <> None) by congruence.
      pose proof (req_buffer_bounded g c c' H Hd Hlt). lia.
    + unfold rq_buf_size in *. rewrite (req_buffer_nothing_to_copy g c c' H (or_intror Hge)). exact Hb.
  - unfold rq_buf_size in *. rewrite (req_buffer_nothing_to_copy g c c' H (or_introl Ed)). exact Hb.
Qed.

(* ---- req_data_rc_documented ----
   htp_connp_req_data returns one of the six documented HTP_STREAM_* codes. *)
Definition rq_documented (rc : Z) : Prop :=
  rc = c_HTP_STREAM_CLOSED \/ rc = c_HTP_STREAM_ERROR \/ rc = c_HTP_STREAM_TUNNEL \/
  rc = c_HTP_STREAM_DATA_OTHER \/ rc = c_HTP_STREAM_STOP \/ rc = c_HTP_STREAM_DATA.

Lemma rq_exit_documented cb g rc c : rq_documented (snd (rq_exit cb g rc c)).
Proof.
  unfold rq_exit, rq_documented.
  destruct rc; cbn;
    repeat match goal with
           | |- context [let '(_, _) := ?x in _] => destruct x
           | |- context [match ?x with _ => _ end] => destruct x
           end; cbn; tauto.
Qed.

Lemma rq_iter_documented cb g gap c r : rq_iter cb g gap c = inl r -> rq_documented (snd r).
Proof.
  unfold rq_iter. intros H.
  match type of H with (match ?d with _ => _ end) = _ => destruct d as [[rc c1]|] end.
  - destruct rc;
      try (match type of H with inl ?x = inl _ => replace r with x by congruence end; apply rq_exit_documented).
    destruct (c_in_status c1 =? c_HTP_STREAM_TUNNEL).
    + inversion H; subst r. unfold rq_documented. cbn. tauto.
    + destruct (req_handle_state_change cb c1) as [rc2 c2]. destruct rc2; try discriminate;
        match type of H with inl ?x = inl _ => replace r with x by congruence end; apply rq_exit_documented.
  - inversion H; subst r. unfold rq_documented. cbn. tauto.
Qed.

Lemma rq_loop_documented cb g fuel gap c : rq_documented (snd (rq_loop cb g fuel gap c)).
Proof.
  revert c. induction fuel as [|f IH]; intros c; cbn [rq_loop].
  - unfold rq_documented. cbn. tauto.
  - destruct (rq_iter cb g gap c) as [r|c1] eqn:E.
    + eapply rq_iter_documented; eauto.
    + apply IH.
Qed.

Theorem req_data_rc_documented cb g data len c : rq_documented (snd (connp_req_data cb g data len c)).
Proof.
  unfold connp_req_data.
  repeat match goal with
         | |- context [if ?b then _ else _] =>
           lazymatch b with
           | context [rq_loop] => fail
           | _ => destruct b
           end
         end;
    try (unfold rq_documented; cbn; tauto); apply rq_loop_documented.
Qed.

(* ---- req_data_sticky ----
   a direction that is in ERROR or STOP answers every further data call with that same code, emits no event and
   leaves the whole parser state as it was. *)
Theorem req_data_sticky cb g data len c :
  c_in_status c = c_HTP_STREAM_ERROR \/ c_in_status c = c_HTP_STREAM_STOP ->
  connp_req_data cb g data len c = (c, c_in_status c).
Proof.
  intros [H|H]; unfold connp_req_data; rewrite H; reflexivity.
Qed.

Corollary req_data_sticky_no_event cb g data len c :
  c_in_status c = c_HTP_STREAM_ERROR \/ c_in_status c = c_HTP_STREAM_STOP ->
  c_events (fst (connp_req_data cb g data len c)) = c_events c /\
  c_in_status (fst (connp_req_data cb g data len c)) = c_in_status c.
Proof. intros H. rewrite (req_data_sticky cb g data len c H). split; reflexivity. Qed.
