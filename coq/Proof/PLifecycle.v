(* C05: what the lifecycle monitor (Spec/SConnp.v, the oracle run on the implementation) guarantees about any trace it
   accepts, and the completion mechanisms of the model. *)
Require Import Htp.Model.MConnTypes Htp.Model.MTxCommon Htp.Model.MConnp Htp.Spec.SConnp.
Local Open Scope nat_scope.

(* ---- soundness of the monitor: an accepted trace has the properties the text demands ---- *)
Lemma lc_step_fin_false s h s' : lc_step s h = Some s' -> lc_fin s = false.
Proof. unfold lc_step. destruct (lc_fin s); [discriminate|reflexivity]. Qed.

Ltac lc_cases H := unfold lc_step in H;
  repeat match type of H with
         | (if ?b then _ else _) = _ => destruct b eqn:?; try discriminate
         | (match ?x with _ => _ end) = _ => destruct x eqn:?; try discriminate
         end.

Ltac b2p := repeat match goal with
  | E : (_ <? _) = true |- _ => apply Nat.ltb_lt in E | E : (_ <=? _) = true |- _ => apply Nat.leb_le in E
  | E : (_ && _)%bool = true |- _ => apply andb_prop in E; destruct E | E : (_ =? _) = true |- _ => apply Nat.eqb_eq in E
  | E : (_ || _)%bool = true |- _ => apply orb_prop in E; destruct E end.
(* analyse one hook case of lc_step: H : <branch of lc_step for this hook> = Some s' *)
Ltac lc_case H :=
  cbv beta iota zeta in H; try discriminate;
  repeat (match type of H with (if ?b then _ else _) = _ => destruct b eqn:? end; try discriminate);
  (match type of H with Some ?x = Some ?y => assert (Hs' : y = x) by congruence; subst y end);
  cbn [lc_rq lc_rs lc_fin]; b2p; try lia.
Ltac lc_all H h := do 21 (destruct h as [|h]; [try congruence; lc_case H|]); try discriminate.

(* the request-side progress never moves backwards *)
Lemma lc_step_rq_mono s h s' : lc_step s h = Some s' -> lc_rq s <= lc_rq s'.
Proof. intros H. unfold lc_step in H. destruct (lc_fin s); [discriminate|]. lc_all H h. Qed.

(* the response-side progress never moves backwards except for RESPONSE_LINE after an interim (100) response *)
Lemma lc_step_rs_mono s h s' : lc_step s h = Some s' -> h <> 11 -> lc_rs s <= lc_rs s'.
Proof. intros H Hn. unfold lc_step in H. destruct (lc_fin s); [discriminate|]. lc_all H h. Qed.

Lemma lc_step_le6 s h s' : lc_step s h = Some s' -> lc_rq s <= 6 -> lc_rs s <= 6 -> lc_rq s' <= 6 /\ lc_rs s' <= 6.
Proof. intros H H1 H2. unfold lc_step in H. destruct (lc_fin s); [discriminate|]. lc_all H h. Qed.

(* nothing is accepted after TRANSACTION_COMPLETE, which itself needs both sides complete *)
Lemma lc_after_fin s tr : lc_fin s = true -> lc_accepts s tr = true -> tr = [].
Proof. intros Hf H. destruct tr as [|h r]; [reflexivity|]. cbn in H. unfold lc_step in H. rewrite Hf in H. discriminate. Qed.
Lemma lc_tx_complete_needs_both s s' : lc_step s 18 = Some s' -> lc_rq s = 6 /\ lc_rs s = 6 /\ lc_fin s' = true.
Proof.
  intros H. unfold lc_step in H. destruct (lc_fin s); [discriminate|]. cbn in H.
  destruct ((lc_rq s =? 6) && (lc_rs s =? 6))%bool eqn:E; [|discriminate].
  apply andb_prop in E. destruct E as [E1 E2]. apply Nat.eqb_eq in E1. apply Nat.eqb_eq in E2. inversion H. cbn. auto.
Qed.

(* request-complete, response-complete and transaction-complete occur at most once in an accepted trace *)

Lemma lc_complete_once_gen (h : nat) (lvl : lc -> nat) :
  (h = 9 /\ lvl = lc_rq) \/ (h = 17 /\ lvl = lc_rs) ->
  forall tr s, lc_accepts s tr = true -> lc_rq s <= 6 -> lc_rs s <= 6 -> lvl s = 6 -> ~ In h tr.
Proof.
  intros Hh. induction tr as [|x r IH]; intros s Ha B1 B2 H6 Hin; [destruct Hin|].
  cbn in Ha. destruct (lc_step s x) as [s'|] eqn:E; [|discriminate].
  destruct (lc_step_le6 s x s' E B1 B2) as [B1' B2'].
  destruct Hin as [Hx|Hin].
  - subst x. destruct Hh as [[Hh Hl]|[Hh Hl]]; subst h lvl; unfold lc_step in E; destruct (lc_fin s); try discriminate;
      cbv beta iota zeta in E; rewrite H6 in E; cbn in E; discriminate.
  - apply (IH s' Ha B1' B2'); [|exact Hin].
    destruct Hh as [[Hh Hl]|[Hh Hl]]; subst lvl.
    + pose proof (lc_step_rq_mono s x s' E). lia.
    + subst h.
      assert (Hx : x <> 11).
      { intros ->. unfold lc_step in E. destruct (lc_fin s); [discriminate|]. cbv beta iota zeta in E. rewrite H6 in E. cbn in E. discriminate. }
      pose proof (lc_step_rs_mono s x s' E Hx). lia.
Qed.

Lemma lc_accepts_bounds tr1 : forall s, lc_rq s <= 6 -> lc_rs s <= 6 -> forall x tr2,
  lc_accepts s (tr1 ++ x :: tr2) = true ->
  exists s0 s', lc_rq s0 <= 6 /\ lc_rs s0 <= 6 /\ lc_step s0 x = Some s' /\ lc_accepts s' tr2 = true.
Proof.
  induction tr1 as [|y r IH]; intros s B1 B2 x tr2 H.
  - cbn in H. destruct (lc_step s x) as [s'|] eqn:E; [|discriminate]. exists s, s'. auto.
  - cbn in H. destruct (lc_step s y) as [s'|] eqn:E; [|discriminate].
    destruct (lc_step_le6 s y s' E B1 B2) as [B1' B2']. exact (IH s' B1' B2' x tr2 H).
Qed.

Theorem lc_request_complete_once tr1 tr2 : lc_accepts lc0 (tr1 ++ 9 :: tr2) = true -> ~ In 9 tr2.
Proof.
  intros H. destruct (lc_accepts_bounds tr1 lc0 (Nat.le_0_l _) (Nat.le_0_l _) 9 tr2 H) as (s0 & s' & B1 & B2 & E & Ha).
  destruct (lc_step_le6 s0 9 s' E B1 B2) as [B1' B2'].
  apply (lc_complete_once_gen 9 lc_rq (or_introl (conj eq_refl eq_refl)) tr2 s' Ha B1' B2').
  unfold lc_step in E. destruct (lc_fin s0); [discriminate|]. cbv beta iota zeta in E. destruct (lc_rq s0 <? 6); [|discriminate]. inversion E. reflexivity.
Qed.
Theorem lc_response_complete_once tr1 tr2 : lc_accepts lc0 (tr1 ++ 17 :: tr2) = true -> ~ In 17 tr2.
Proof.
  intros H. destruct (lc_accepts_bounds tr1 lc0 (Nat.le_0_l _) (Nat.le_0_l _) 17 tr2 H) as (s0 & s' & B1 & B2 & E & Ha).
  destruct (lc_step_le6 s0 17 s' E B1 B2) as [B1' B2'].
  apply (lc_complete_once_gen 17 lc_rs (or_intror (conj eq_refl eq_refl)) tr2 s' Ha B1' B2').
  unfold lc_step in E. destruct (lc_fin s0); [discriminate|]. cbv beta iota zeta in E. destruct (lc_rs s0 <? 6); [|discriminate]. inversion E. reflexivity.
Qed.
Theorem lc_nothing_after_tx_complete tr1 tr2 s : lc_accepts s (tr1 ++ 18 :: tr2) = true -> tr2 = [].
Proof.
  revert s. induction tr1 as [|x r IH]; intros s H.
  - cbn in H. destruct (lc_step s 18) as [s'|] eqn:E; [|discriminate].
    destruct (lc_tx_complete_needs_both s s' E) as (_ & _ & Hf). apply (lc_after_fin s' tr2 Hf H).
  - cbn in H. destruct (lc_step s x) as [s'|]; [|discriminate]. apply (IH s' H).
Qed.

(* ---- completion mechanisms of the model ---- *)
Local Open Scope Z_scope.
Section Mech.
Variable cb : cb_oracle.
Variable g : cfg.

(* TRANSACTION_COMPLETE is delivered by htp_tx_finalize only, and only when both sides are complete *)
Lemma tx_finalize_incomplete_silent i c t :
  tx_slot c i = Some t -> tx_is_complete t = false -> tx_finalize cb g i c = (ST_OK, c).
Proof. intros Hs Hc. unfold tx_finalize. rewrite Hs, Hc. reflexivity. Qed.

Lemma tx_finalize_event i c t :
  tx_slot c i = Some t -> tx_is_complete t = true ->
  exists c1, c_events c1 = mkev H_TRANSACTION_COMPLETE i None false (Some t) :: c_events c /\
             (forall j, tx_slot c1 j = tx_slot c j) /\
             (snd (tx_finalize cb g i c) = c1 \/ c_events (snd (tx_finalize cb g i c)) = c_events c1).
Proof.
  intros Hs Hc. unfold tx_finalize. rewrite Hs, Hc. cbn [negb].
  unfold run_hook_ex.
  set (c1 := emit (bump_hook c H_TRANSACTION_COMPLETE) (mkev H_TRANSACTION_COMPLETE i None false (Some t))).
  exists c1. split; [reflexivity|]. split; [intros j; reflexivity|].
  destruct (cb H_TRANSACTION_COMPLETE (hook_count c H_TRANSACTION_COMPLETE)); cbn [fst snd]; auto;
    right; repeat match goal with
                  | |- context [match ?x with _ => _ end] => destruct x
                  | |- context [if ?b then _ else _] => destruct b
                  end; cbn;
    try reflexivity;
    unfold tx_upd, tx_put, tx_destroy, tx_destroy_incomplete;
    repeat match goal with
           | |- context [match ?x with _ => _ end] => destruct x
           | |- context [if ?b then _ else _] => destruct b
           end; reflexivity.
Qed.

(* a request that is already complete is not completed again: no REQUEST_COMPLETE callback, and while the response is
   still open no TRANSACTION_COMPLETE either *)
Lemma request_complete_idempotent i c t :
  tx_slot c i = Some t -> t_request_progress t = c_HTP_REQUEST_COMPLETE -> tx_is_complete t = false ->
  c_events (snd (tx_state_request_complete cb g i c)) = c_events c.
Proof.
  intros Hs Hp Hc. unfold tx_state_request_complete. rewrite Hs, Hp, Z.eqb_refl. cbn [negb].
  rewrite Hs. 
  set (c1 := c <| c_in_state := if t_is_protocol_0_9 t then REQ_IGNORE_DATA_AFTER_HTTP_0_9 else REQ_IDLE |>).
  assert (Hs1 : tx_slot c1 i = Some t) by exact Hs.
  rewrite (tx_finalize_incomplete_silent i c1 t Hs1 Hc). reflexivity.
Qed.

End Mech.
