(* C02 / C03 / C04, response direction: the INTERIM response "100 Continue" -- htp_connp_RES_BODY_DETERMINE re-arms the transaction for the
   final status line (response_progress back to LINE, the header table cleared, seen_100continue counted) and goes back to RES_LINE
   WITHOUT htp_tx_state_response_headers: the raw-data receiver of the interim header block stays installed until the next state
   change into RES_HEADERS. *)
Require Import Htp.Model.Base Htp.Model.MBstr Htp.Model.MConnTypes Htp.Model.MTxCommon Htp.Model.MResLine Htp.Model.MTxRes.
Require Import Htp.Model.MReq Htp.Model.MRes Htp.Model.MConnp.
Require Import Htp.Spec.SWire Htp.Proof.PWire Htp.Proof.PWireHdr Htp.Proof.PWireBlock Htp.Proof.PWireConn Htp.Proof.PWireExch.
Require Import Htp.Proof.PWireRun Htp.Proof.PWirePres Htp.Proof.PWireGlue Htp.Proof.PSeg Htp.Proof.PSegLine Htp.Proof.PSegHdr Htp.Proof.PSegGen Htp.Proof.PSegRun.
Require Import Htp.Proof.PSegFold Htp.Proof.PSegPipe Htp.Proof.PSegRes Htp.Proof.PSegResLine Htp.Proof.PSegResHdr Htp.Proof.PSegResGen Htp.Proof.PSegResRun Htp.Proof.PSegResReq Htp.Proof.PSegResThm Htp.Proof.PSegResCanon.
Require Import Htp.Proof.PPair Htp.Proof.PPairLine Htp.Proof.PPairHdr Htp.Proof.PPairRun Htp.Proof.PPairOne Htp.Proof.PPairFin Htp.Proof.PPairA Htp.Proof.PPairReq Htp.Proof.PPairB Htp.Proof.PPairThm Htp.Proof.PPairThmB.
Require Import Htp.Proof.PSegResNb Htp.Proof.PSegResNbThm.

(* ---- the decision "interim 100" and what it does to the transaction ---- *)
Definition i100_ok (t : tx) : bool :=
  negb (t_request_method_number t =? c_HTP_M_CONNECT)%Z && (t_response_status_number t =? 100)%Z &&
  match rs_hdr_get_c (t_response_headers t) rs_str_transfer_encoding with Some _ => false | None => true end &&
  match rs_hdr_get_c (t_response_headers t) rs_str_content_length with Some h => negb (0 <? parse_content_length (h_value h))%Z | None => true end.
(* ALL that survives of the interim response: the counter; (status line fields are overwritten by the next status line: rs_line_complete) *)
Definition i100_rearm (t : tx) : tx := t <| t_response_headers := [] |> <| t_response_progress := c_HTP_RESPONSE_LINE |> <| t_seen_100continue ::= S |>.

Lemma i100_determine_eq cb c t : rs_tx c = t -> i100_ok t = true ->
  rs_RES_BODY_DETERMINE cb c = (ST_OK, rs_set_state RES_LINE (rs_otx i100_rearm c)).
Proof.
  intros Et Hf. unfold rs_RES_BODY_DETERMINE. rewrite Et. cbv zeta.
  revert Hf. unfold i100_ok.
  destruct (t_request_method_number t =? c_HTP_M_CONNECT)%Z; cbn [andb negb]; try discriminate.
  destruct (t_response_status_number t =? 100)%Z eqn:E100; cbn [andb negb]; try discriminate.
  assert (E101 : (t_response_status_number t =? 101)%Z = false) by (apply Z.eqb_eq in E100; rewrite E100; reflexivity). rewrite E101. cbn [andb].
  destruct (rs_hdr_get_c (t_response_headers t) rs_str_transfer_encoding) as [hte|]; cbn [andb negb]; try discriminate.
  destruct (rs_hdr_get_c (t_response_headers t) rs_str_content_length) as [hcl|]; cbn [andb negb].
  - intros H. rewrite H. reflexivity.
  - intros _. reflexivity.
Qed.

Section I100Tail.
Variable cb : cb_oracle.
Variable g : cfg.
Hypothesis Hcb : wr_all_ok cb.
Context {w : pr_world}.
Notation pr_cin := (pr_cinw w).
(* the pass through RES_BODY_DETERMINE: back to RES_LINE, the receiver of the header block still installed *)
Lemma i100_pass_determine c d rd t : pr_cin c d rd [] None RES_BODY_DETERMINE (Some RES_BODY_DETERMINE) (Some H_RESPONSE_HEADER_DATA) t ->
  i100_ok t = true ->
  exists c', sr_iter cb g c = inr c' /\ pr_cin c' d rd [] None RES_LINE (Some RES_LINE) (Some H_RESPONSE_HEADER_DATA) (i100_rearm t).
Proof.
  intros H Hf.
  assert (Ef : rs_state_fn cb g (c_out_state c) c = rs_RES_BODY_DETERMINE cb c) by (rewrite (pi_state _ _ _ _ _ _ _ _ _ H); reflexivity).
  rewrite (i100_determine_eq cb c t (pr_rs_tx c d rd _ _ _ _ _ t H) Hf) in Ef.
  rewrite (pr_otx c d rd _ _ _ _ _ t _ H) in Ef.
  assert (H4 : pr_cin (rs_set_state RES_LINE (c <| c_txs := pr_txs w (i100_rearm t) |>)) d rd [] None RES_LINE (Some RES_BODY_DETERMINE) (Some H_RESPONSE_HEADER_DATA) (i100_rearm t)).
  { eapply pr_cin_state. eapply pr_cin_txs. exact H. }
  destruct (pr_iter_ok cb g c _ d rd _ _ _ _ _ _ Ef H4) as (c6 & E6 & H6); [discriminate|].
  exists c6. split; [exact E6|exact H6].
Qed.
End I100Tail.

(* ================= Examples (vm_compute), evaluated before the proofs ================= *)
Definition i100_q : bytes := [71;69;84;32;47;49;32;72;84;84;80;47;49;46;49;13;10;72;111;115;116;58;32;97;13;10;13;10]%N.
Definition i100_a : bytes := [72;84;84;80;47;49;46;49;32;49;48;48;32;67;111;110;116;105;110;117;101;13;10;13;10]%N.
Definition i100_b : bytes := [72;84;84;80;47;49;46;49;32;49;48;48;32;67;111;110;116;105;110;117;101;13;10;88;45;73;58;32;49;13;10;13;10]%N.
Definition i100_c : bytes := [72;84;84;80;47;49;46;48;32;49;48;48;32;71;111;32;79;110;13;10;88;45;73;58;32;49;13;10;88;45;73;58;32;50;13;10;88;45;73;58;32;51;13;10;13;10]%N.
Definition i100_f : bytes := [72;84;84;80;47;49;46;49;32;50;48;48;32;79;75;13;10;67;111;110;116;101;110;116;45;76;101;110;103;116;104;58;32;51;13;10;13;10;97;98;99]%N.
Definition i100_run (sch : list bytes) : list (option tx) := c_txs (pp_run [i100_q] sch).
(* equality of two transaction lists but for t_seen_100continue, field by field on everything the response side writes *)
Definition i100_key (t : tx) :=
  (t_response_line t, t_response_protocol t, t_response_protocol_number t, t_response_status t, t_response_status_number t, t_response_message t,
   map (fun h => (h_name h, h_value h, h_flags h)) (t_response_headers t), t_res_header_repetitions t, t_flags t,
   (t_response_entity_len t, t_response_message_len t, t_response_progress t, t_response_transfer_coding t, t_response_content_length t,
    t_response_content_type t, t_res_cep t, t_response_ignored_lines t, t_request_progress t, t_request_method_number t, t_request_uri t)).
Definition i100_keys (l : list (option tx)) := map (option_map i100_key) l.
Definition i100_seen (l : list (option tx)) := map (option_map t_seen_100continue) l.
Definition i100_w2 : bytes := i100_a ++ i100_b ++ i100_f.
Definition i100_w3 : bytes := i100_c ++ i100_a ++ i100_b ++ i100_f.
(* two interim responses (one with a header field), then 200 with a 3-byte body: one transaction, everything reported is what the final
   response ALONE gives; only seen_100continue = 2 survives *)
Example i100_ex_final_alone :
  i100_keys (i100_run [i100_w2]) = i100_keys (i100_run [i100_f]) /\ i100_seen (i100_run [i100_w2]) = [Some 2%nat] /\ i100_seen (i100_run [i100_f]) = [Some 0%nat] /\
  length (i100_run [i100_w2]) = 1%nat.
Proof. split; [vm_compute; reflexivity|]. split; [vm_compute; reflexivity|]. split; vm_compute; reflexivity. Qed.
(* every single cut and the bytewise delivery of the concatenation (chunks span the interim / final boundaries) *)
Example i100_ex_invariant :
  map (fun ch => i100_run ch) (sg_bytewise i100_w2 :: sg_cuts1 i100_w2) = repeat (i100_run [i100_w2]) (length i100_w2) /\
  map (fun ch => i100_run ch) (sg_bytewise i100_w3 :: sg_cuts1 i100_w3) = repeat (i100_run [i100_w3]) (length i100_w3).
Proof. split; vm_compute; reflexivity. Qed.
(* three interim responses, the first one HTTP/1.0 with another reason phrase and a header field given THREE times: the final report differs
   from the one of the final response alone in seen_100continue = 3 and in t_res_header_repetitions (the re-arm clears the header table
   but not the repetition counter, which the third X-I field of the interim block incremented) -- and in nothing else *)
Example i100_ex_three :
  i100_seen (i100_run [i100_w3]) = [Some 3%nat] /\
  map (option_map (fun t => i100_key (t <| t_res_header_repetitions := 0%nat |>))) (i100_run [i100_w3]) = i100_keys (i100_run [i100_f]) /\
  map (option_map t_res_header_repetitions) (i100_run [i100_w3]) = [Some 1%nat] /\ map (option_map t_res_header_repetitions) (i100_run [i100_f]) = [Some 0%nat].
Proof. split; [vm_compute; reflexivity|]. split; [vm_compute; reflexivity|]. split; vm_compute; reflexivity. Qed.

(* ================= LEMMAS OF THIS FILE =================
   i100_determine_eq     rs_tx c = t -> i100_ok t = true -> rs_RES_BODY_DETERMINE cb c = (ST_OK, rs_set_state RES_LINE (rs_otx i100_rearm c))
                         i100_ok t = not CONNECT, status 100, no Transfer-Encoding, Content-Length absent or <= 0;
                         i100_rearm t = t <| response_headers := [] |> <| response_progress := LINE |> <| seen_100continue ::= S |>:
                         NOTHING else is written; response_line / protocol / status / message (+ numbers) are overwritten by the next status line
                         (MRes.rs_line_complete clears the four fields first); t_res_header_repetitions and the t_flags raised by the interim header
                         block are NOT reset (i100_ex_three: repetitions = 1 leaks into the final report)
   i100_pass_determine   the pass of the loop at transaction number k of any world: RES_BODY_DETERMINE -> RES_LINE with the RESPONSE_HEADER_DATA
                         receiver still installed; continues with PSegResNb.nb_run_line (rh0 := Some H_RESPONSE_HEADER_DATA, tl0 := i100_rearm Tend),
                         whose state change into RES_HEADERS (PSegResNb.nb_iter_to_headers) gives the old receiver its last call
   Examples              i100_ex_final_alone (two interim, one with a field, then 200 + 3 bytes: every response-side field = final response alone,
                         seen_100continue = 2), i100_ex_invariant (bytewise + every single cut of i100_w2 / i100_w3: identical transaction lists,
                         full equality), i100_ex_three
   THEOREMS              PSegRes100Thm.v: i100_chunking / i100_reported (k interim responses + final response with Content-Length body, any chunking) *)
Print Assumptions i100_determine_eq.
Print Assumptions i100_pass_determine.
