(* C02 / C03 / C04, response direction: k interim "100 Continue" responses followed by the final response (Content-Length body) in ANY
   chunking of their concatenation -- one transaction, which is the one the final response alone gives when it starts from the
   transaction the interim responses left re-armed (headers cleared, progress LINE, seen_100continue counted). Stage by stage with the
   driver of PSegResNb.v (Section NbOne). *)
Require Import Htp.Model.Base Htp.Model.MBstr Htp.Model.MConnTypes Htp.Model.MTxCommon Htp.Model.MResLine Htp.Model.MTxRes.
Require Import Htp.Model.MReq Htp.Model.MRes Htp.Model.MConnp.
Require Import Htp.Spec.SWire Htp.Proof.PWire Htp.Proof.PWireHdr Htp.Proof.PWireBlock Htp.Proof.PWireConn Htp.Proof.PWireExch.
Require Import Htp.Proof.PWireRun Htp.Proof.PWirePres Htp.Proof.PWireGlue Htp.Proof.PSeg Htp.Proof.PSegLine Htp.Proof.PSegHdr Htp.Proof.PSegGen Htp.Proof.PSegRun.
Require Import Htp.Proof.PSegFold Htp.Proof.PSegPipe Htp.Proof.PSegRes Htp.Proof.PSegResLine Htp.Proof.PSegResHdr Htp.Proof.PSegResGen Htp.Proof.PSegResRun Htp.Proof.PSegResReq Htp.Proof.PSegResThm Htp.Proof.PSegResCanon.
Require Import Htp.Proof.PPair Htp.Proof.PPairLine Htp.Proof.PPairHdr Htp.Proof.PPairRun Htp.Proof.PPairOne Htp.Proof.PPairFin Htp.Proof.PPairA Htp.Proof.PPairReq Htp.Proof.PPairB Htp.Proof.PPairThm Htp.Proof.PPairThmB.
Require Import Htp.Proof.PSegResNb Htp.Proof.PSegResNbThm Htp.Proof.PSegRes100.

(* ---- an interim response of the grammar: status line, header fields (folded by is_cuts), empty line ---- *)
Record i_stage := mk_i_stage { is_res : wr_response; is_cuts : list (list bytes) }.
Definition is_ps (st : i_stage) : bytes := wp_protocol (is_res st).
Definition is_st (st : i_stage) : bytes := wp_status (is_res st).
Definition is_rp (st : i_stage) : bytes := wp_reason (is_res st).
Definition is_line (st : i_stage) : bytes := wr_ser_status_line (is_ps st) (is_st st) (is_rp st).
Definition is_ls (st : i_stage) : list sg_fl := sr_lines (is_res st) (is_cuts st).
Definition is_wire (st : i_stage) : bytes := sr_wire (is_res st) (is_cuts st) [].
Definition is_wires (sts : list i_stage) : bytes := concat (map is_wire sts).
(* the transaction (before htp_tx_state_response_start's progress := LINE) for the response that follows the interim response st *)
Definition is_next (t : tx) (st : i_stage) : tx := (sr_tend t (is_res st) (is_cuts st)) <| t_response_headers := [] |> <| t_seen_100continue ::= S |>.
Definition is_t0 (t0 : tx) (sts : list i_stage) : tx := fold_left is_next sts t0.
Definition is_ok (g : cfg) (t : tx) (st : i_stage) : Prop :=
  sr_response_ok (is_res st) = true /\ sr_cuts_ok (is_res st) (is_cuts st) = true /\ sr_fits g (is_res st) (is_cuts st) = true /\
  i100_ok (sr_tend t (is_res st) (is_cuts st)) = true.
Fixpoint is_all_ok (g : cfg) (t : tx) (sts : list i_stage) : Prop :=
  match sts with [] => True | st :: r => is_ok g t st /\ is_all_ok g (is_next t st) r end.

Lemma is_rearm t st : sr_tx_start (is_next t st) = i100_rearm (sr_tend t (is_res st) (is_cuts st)).
Proof. reflexivity. Qed.
Lemma is_t0_snoc t0 done st : is_t0 t0 (done ++ [st]) = is_next (is_t0 t0 done) st.
Proof. unfold is_t0. rewrite fold_left_app. reflexivity. Qed.
Lemma is_all_ok_app g : forall done t st r, is_all_ok g t (done ++ st :: r) -> is_ok g (is_t0 t done) st.
Proof. induction done as [|a done IH]; intros t st r H; [exact (proj1 H)|]. cbn [app is_all_ok] in H. apply (IH (is_next t a) st r (proj2 H)). Qed.
Lemma is_parts g t st : is_ok g t st ->
  sr_status_ok (is_ps st) (is_st st) (is_rp st) = true /\ forallb sg_fl_ok (is_ls st) = true /\ sg_needs_pending (is_ls st) = false /\
  (length (is_line st) + 2 <= g_field_limit_hard g)%nat /\
  sr_ffit (g_field_limit_hard g) (sr_p11 (sr_th0 t (is_line st))) None (is_ls st) = true /\
  i100_ok (sr_tend t (is_res st) (is_cuts st)) = true.
Proof.
  intros (Wr & Wc & Hfit & Hi). destruct st as [rs cuts]. unfold is_ps, is_st, is_rp, is_line, is_ls. cbn [is_res is_cuts] in *.
  unfold sr_response_ok in Wr. apply andb_prop in Wr. destruct Wr as [Wl Wf].
  unfold sr_cuts_ok in Wc. apply andb_prop in Wc. destruct Wc as [_ Wc].
  destruct (sg_block_flat_ok (combine (wp_fields rs) cuts) (sr_forallb_combine_fst wr_field_ok _ cuts Wf) Wc) as [Okl Hnp].
  unfold sr_fits in Hfit. apply andb_prop in Hfit. destruct Hfit as [Hl0 Hfit]. apply Nat.leb_le in Hl0.
  rewrite <- (sr_p11_th0 t (sr_line0 rs)) in Hfit.
  repeat split; assumption.
Qed.
Definition i_rh (done : list i_stage) : option nat := match done with [] => None | _ => Some H_RESPONSE_HEADER_DATA end.
Lemma i_rh_snoc done st : i_rh (done ++ [st]) = Some H_RESPONSE_HEADER_DATA.
Proof. destruct done; reflexivity. Qed.

Section I100Run.
Variable cb : cb_oracle.
Variable g : cfg.
Hypothesis Hcb : wr_all_ok cb.
Variable t0 : tx.                                           (* the transaction the request left *)
Variable sts : list i_stage.                                (* the interim responses *)
Variables (rF : wr_response) (cutsF : list (list bytes)) (bodyF : bytes).   (* the final response *)
Hypothesis H09 : t_is_protocol_0_9 t0 = false.
Hypothesis Hsts : is_all_ok g t0 sts.
Let eF := mk_pp_ex (is_t0 t0 sts) rF cutsF bodyF.
Hypothesis HokF : pp_ex_ok g eF.
Let w0 := mk_pr_world [] [].
Definition i_after (rest : list i_stage) : bytes := is_wires rest ++ pp_wire eF.
Definition i_head_line (rest : list i_stage) : bytes := match rest with st :: _ => is_line st | [] => px_line0 eF end.
Definition i_head_bwt (rest : list i_stage) : bytes :=
  match rest with st :: r => sg_fwire (is_ls st) ++ [CR; LF] ++ i_after r | [] => px_bwt eF [] end.
Definition i_f1 (d rw' : bytes) : Prop := sr_f1_local (px_body eF ++ []) (px_hh eF) d rw'.

Lemma i_after_head rest : i_after rest = i_head_line rest ++ [CR; LF] ++ i_head_bwt rest.
Proof.
  destruct rest as [|st r].
  - unfold i_after, is_wires, i_head_line, i_head_bwt. cbn [map concat]. change ([] ++ pp_wire eF) with (pp_wire eF).
    pose proof (pp_wires_cons eF []) as E. unfold pp_wires at 1 in E. cbn [map concat] in E. rewrite app_nil_r in E. exact E.
  - unfold i_after, is_wires. cbn [map concat i_head_line i_head_bwt]. fold (is_wires r). unfold is_wire at 1, sr_wire. unfold is_line, is_ps, is_st, is_rp, sr_line0, is_ls.
    rewrite <- !app_assoc. reflexivity.
Qed.
Lemma i_after_shape done rest : sts = done ++ rest -> exists l, i_after rest = 72%N :: 84%N :: 84%N :: 80%N :: l.
Proof.
  intros Es. rewrite i_after_head. destruct rest as [|st r]; cbn [i_head_line].
  - destruct (px_line0_shape g eF HokF) as (_ & l & E). rewrite E. eexists. reflexivity.
  - rewrite Es in Hsts. destruct (is_parts g _ st (is_all_ok_app g done t0 st r Hsts)) as (Wl & _).
    destruct (sr_status_line_shape _ _ _ Wl) as (_ & l & E). unfold is_line. rewrite E. eexists. reflexivity.
Qed.

(* the states between two calls *)
Inductive i_between (c : connp) (rw : bytes) : Prop :=
| IB_start : pr_rest c [Some t0] 0 -> rw = i_after sts -> i_between c rw
| IB_in done st rest : sts = done ++ st :: rest ->
    nb_betw g (w := w0) (is_ps st) (is_st st) (is_rp st) (is_ls st) (sr_tx_start (is_t0 t0 done)) (i_rh done) (i_after rest) c rw -> i_between c rw
| IB_finh : nb_betw g (w := w0) (px_ps eF) (px_st eF) (px_rp eF) (px_ls eF) (sr_tx_start (is_t0 t0 sts)) (i_rh sts) (px_body eF ++ []) c rw -> i_between c rw
| IB_body : pp_betw g (w := w0) (px_ps eF) (px_st eF) (px_rp eF) (px_ls eF) (px_body eF) (px_t0 eF) [] c rw -> i_between c rw
| IB_end : pr_rest c [pr_slot g (pp_tfin eF)] 1 -> rw = [] -> i_between c rw.

Definition i_goal (c : connp) (fuel : nat) (rw' : bytes) : Prop :=
  exists cF rc, rs_res_loop cb g fuel false c = (cF, rc) /\ i_between cF rw'.
Lemma i_goal_step c c' fuel (rw' : bytes) : sr_iter cb g c = inr c' -> i_goal c' fuel rw' -> i_goal c (S fuel) rw'.
Proof. intros E (cF & rc & El & X). exists cF, rc. split; [rewrite (sr_loop_inr cb g _ _ _ E); exact El|exact X]. Qed.
Lemma i_goal_exit c cF fuel (rw' : bytes) : sr_iter cb g c = inl (cF, c_HTP_STREAM_DATA) -> i_between cF rw' -> i_goal c (S fuel) rw'.
Proof. intros E B. exists cF, c_HTP_STREAM_DATA. split; [apply (sr_loop_inl cb g _ _ _ E)|exact B]. Qed.

(* ---- the final response: RES_FINALIZE at the end of the wire ---- *)
Lemma i_fin_end c d rd (rw' : bytes) fuel :
  pr_cinw w0 c d rd [] None RES_FINALIZE (Some RES_FINALIZE) None (px_tpre eF) -> skipn rd d ++ rw' = [] ->
  (8 * (length d - rd) + 13 <= fuel)%nat -> i_goal c fuel rw'.
Proof.
  intros Ha Hw Hf. apply app_eq_nil in Hw. destruct Hw as [Hs Erw].
  assert (Erd : rd = length d) by (pose proof (sg_skipn_nil _ _ Hs); pose proof (pi_rd _ _ _ _ _ _ _ _ _ Ha); lia). subst rd.
  destruct (px_tpre_facts g eF HokF) as (Fc & Fd & Fp & Fr & Et).
  destruct (pr_finalize_end cb g Hcb w0 c d _ Ha Fc Fd Fp Fr) as (a1 & Ea1 & Dn). rewrite Et in Dn.
  destruct fuel as [|[|f]]; [lia|lia|].
  apply (i_goal_step c a1 _ rw' Ea1).
  apply (i_goal_exit a1 _ f rw' (pr_idle_end cb g w0 a1 d [] _ Dn)).
  apply IB_end; [|exact Erw]. exact (pr_done_rest w0 a1 d _ Dn).
Qed.
Lemma i_exit_body c cF fuel (rw' : bytes) : sr_iter cb g c = inl (cF, c_HTP_STREAM_DATA) ->
  pp_betw g (w := w0) (px_ps eF) (px_st eF) (px_rp eF) (px_ls eF) (px_body eF) (px_t0 eF) [] cF rw' -> rw' <> [] -> i_goal c (S fuel) rw'.
Proof. intros E B _. apply (i_goal_exit c cF fuel rw' E). apply IB_body. exact B. Qed.
Lemma i_kfin c d rd (rw' : bytes) fuel : i_f1 d rw' -> pr_cinw w0 c d rd [] None RES_FINALIZE (Some RES_FINALIZE) None (px_tpre eF) ->
  skipn rd d ++ rw' = [] -> (8 * (length d - rd) + 13 <= fuel)%nat -> i_goal c fuel rw'.
Proof. intros _. apply i_fin_end. Qed.

(* ---- the final response: after the empty line ---- *)
Lemma i_tail_final c d rd (rw' : bytes) fuel : i_f1 d rw' ->
  pr_cinw w0 c d rd [] None RES_BODY_DETERMINE (Some RES_BODY_DETERMINE) (Some H_RESPONSE_HEADER_DATA) (px_tend eF) ->
  skipn rd d ++ rw' = px_body eF ++ [] -> (8 * (length d - rd) + 15 <= fuel)%nat -> i_goal c fuel rw'.
Proof.
  intros Hf1 H Hw Hf.
  destruct (pp_ex_parts g eF HokF) as (Wl & Okl & Hnp & H09F & Hreq & Hfr & Hl0 & Hfit).
  destruct (pr_pass_determine cb g Hcb c d rd (px_tend eF) (length (px_body eF)) H Hfr) as (c3 & E3 & H3).
  destruct fuel as [|f]; [lia|]. apply (i_goal_step c c3 f rw' E3).
  assert (Hn : exists n, n = length (px_body eF)) by (eexists; reflexivity). destruct Hn as (n & En). rewrite <- En in H3.
  destruct n as [|n'].
  - assert (Eb : px_body eF = []) by (apply length_zero_iff_nil; symmetry; exact En).
    assert (Et : sr_hdrs_tx (px_tend eF) = px_tpre eF) by (unfold px_tpre; rewrite <- En; reflexivity). rewrite Et in H3.
    apply (i_fin_end c3 d rd rw' f H3); [rewrite Hw, Eb; reflexivity|lia].
  - destruct H3 as [H3 L3].
    apply (pp_run_body cb g Hcb (w := w0) (px_ps eF) (px_st eF) (px_rp eF) (px_ls eF) (px_body eF) (px_t0 eF) [] Hreq Hfr Hl0
             i_f1 i_goal i_goal_step i_exit_body i_kfin c3 d rd 0 rw' f Hf1 H3); [rewrite <- En; lia|rewrite L3, En; f_equal; lia|exact Hw|lia].
Qed.
Lemma i_exit_finh c cF fuel (rw' : bytes) : sr_iter cb g c = inl (cF, c_HTP_STREAM_DATA) ->
  nb_betw g (w := w0) (px_ps eF) (px_st eF) (px_rp eF) (px_ls eF) (sr_tx_start (is_t0 t0 sts)) (i_rh sts) (px_body eF ++ []) cF rw' -> rw' <> [] -> i_goal c (S fuel) rw'.
Proof. intros E B _. apply (i_goal_exit c cF fuel rw' E). apply IB_finh. exact B. Qed.

(* ---- what a call in RES_LINE has to establish when `done` are the interim responses complete so far and `rest` those to come ---- *)
Definition i_P (rest done : list i_stage) : Prop :=
  sts = done ++ rest -> forall c d rd p q (rw' : bytes) fuel, i_f1 d rw' ->
    pr_cinw w0 c d rd p None RES_LINE (Some RES_LINE) (i_rh done) (sr_tx_start (is_t0 t0 done)) ->
    p ++ q = i_head_line rest ++ [CR; LF] -> q <> [] -> skipn rd d ++ rw' = q ++ i_head_bwt rest ->
    (8 * (length d - rd) + 9 <= fuel)%nat -> i_goal c fuel rw'.

(* an interim stage: its facts, its side condition, its exits *)
Lemma i_okd_stage done rest (d rw' : bytes) hh : sts = done ++ rest -> i_f1 d rw' -> sr_f1_local (i_after rest) hh d rw'.
Proof. intros Es _. destruct (i_after_shape done rest Es) as (l & E). rewrite E. cbn [sr_f1_local]. intros X. discriminate X. Qed.
Lemma i_exit_stage done st rest : sts = done ++ st :: rest -> forall c cF fuel (rw' : bytes), sr_iter cb g c = inl (cF, c_HTP_STREAM_DATA) ->
  nb_betw g (w := w0) (is_ps st) (is_st st) (is_rp st) (is_ls st) (sr_tx_start (is_t0 t0 done)) (i_rh done) (i_after rest) cF rw' -> rw' <> [] -> i_goal c (S fuel) rw'.
Proof. intros Es c cF fuel rw' E B _. apply (i_goal_exit c cF fuel rw' E). apply (IB_in _ _ done st rest Es B). Qed.
Lemma i_tail_stage done st rest : sts = done ++ st :: rest -> i_P rest (done ++ [st]) ->
  forall c d rd (rw' : bytes) fuel, i_f1 d rw' ->
  pr_cinw w0 c d rd [] None RES_BODY_DETERMINE (Some RES_BODY_DETERMINE) (Some H_RESPONSE_HEADER_DATA) (sr_tend (is_t0 t0 done) (is_res st) (is_cuts st)) ->
  skipn rd d ++ rw' = i_after rest -> (8 * (length d - rd) + 15 <= fuel)%nat -> i_goal c fuel rw'.
Proof.
  intros Es HP c d rd rw' fuel Hf1 H Hw Hf.
  pose proof Hsts as Hs. rewrite Es in Hs.
  destruct (is_parts g _ st (is_all_ok_app g done t0 st rest Hs)) as (_ & _ & _ & _ & _ & Hi).
  destruct (i100_pass_determine cb g c d rd _ H Hi) as (c3 & E3 & H3).
  destruct fuel as [|f]; [lia|]. apply (i_goal_step c c3 f rw' E3).
  assert (Es' : sts = (done ++ [st]) ++ rest) by (rewrite <- app_assoc; exact Es).
  apply (HP Es' c3 d rd [] (i_head_line rest ++ [CR; LF]) rw' f Hf1).
  - rewrite i_rh_snoc, is_t0_snoc, is_rearm. exact H3.
  - reflexivity.
  - intro E. apply app_eq_nil in E. destruct E as [_ E]. discriminate.
  - rewrite Hw, i_after_head, <- app_assoc. reflexivity.
  - lia.
Qed.

Lemma i_P_all : forall rest done, i_P rest done.
Proof.
  induction rest as [|st r IH]; intros done Es c d rd p q rw' fuel Hf1 H Hpq Hq Hw Hf.
  - (* the final response *)
    rewrite app_nil_r in Es. subst done.
    destruct (pp_ex_parts g eF HokF) as (Wl & Okl & Hnp & H09F & Hreq & Hfr & Hl0 & Hfit).
    apply (nb_run_line cb g Hcb (w := w0) (px_ps eF) (px_st eF) (px_rp eF) (px_ls eF) (sr_tx_start (is_t0 t0 sts)) (i_rh sts) (px_body eF ++ []) Wl Okl Hnp Hl0 Hfit
             i_f1 (fun _ _ X => X) i_goal i_goal_step i_exit_finh i_tail_final c d rd p q rw' fuel Hf1 H Hpq Hq Hw Hf).
  - pose proof Hsts as Hs. rewrite Es in Hs.
    destruct (is_parts g _ st (is_all_ok_app g done t0 st r Hs)) as (Wl & Okl & Hnp & Hl0 & Hfit & Hi).
    apply (nb_run_line cb g Hcb (w := w0) (is_ps st) (is_st st) (is_rp st) (is_ls st) (sr_tx_start (is_t0 t0 done)) (i_rh done) (i_after r) Wl Okl Hnp Hl0 Hfit
             i_f1 (fun d0 rw0 X => i_okd_stage (done ++ [st]) r d0 rw0 _ ltac:(rewrite <- app_assoc; exact Es) X) i_goal i_goal_step (i_exit_stage done st r Es)
             (i_tail_stage done st r Es (IH (done ++ [st]))) c d rd p q rw' fuel Hf1 H Hpq Hq Hw Hf).
Qed.

(* ---- one call of htp_connp_res_data ---- *)
Lemma i_step c (rw x rw' : bytes) : i_between c rw -> x <> [] -> rw = x ++ rw' -> i_f1 x rw' ->
  exists c' rc, connp_res_data cb g (Some x) (length x) c = (c', rc) /\ i_between c' rw'.
Proof.
  intros B Hne Ex Hf1.
  assert (Lx : (0 < length x)%nat) by (destruct x; [contradiction|cbn; lia]).
  destruct B as [Hr Erw|done st rest Es B|B|B|Hr Erw].
  - destruct (pr_enter_ready cb g w0 c t0 x Hr Hne) as (c1 & E1 & H1). unfold bytes in *. rewrite E1.
    destruct (pr_pass_idle cb g Hcb c1 x 0 [] _ t0 H1 Lx H09) as (c2 & E2 & H2).
    assert (Ef : exists f, rs_res_fuel (length x) = S f /\ (8 * length x + 9 <= f)%nat) by (exists (8 * length x + 63)%nat; unfold rs_res_fuel; lia).
    destruct Ef as (f & Ef & Lf). rewrite Ef. apply (i_goal_step c1 c2 f rw' E2).
    apply (i_P_all sts [] eq_refl c2 x 0 [] (i_head_line sts ++ [CR; LF]) rw' f Hf1 H2 eq_refl).
    + intro E. apply app_eq_nil in E. destruct E as [_ E]. discriminate.
    + cbn [skipn]. rewrite <- Ex, Erw, i_after_head, <- app_assoc. reflexivity.
    + lia.
  - pose proof Hsts as Hs. rewrite Es in Hs.
    destruct (is_parts g _ st (is_all_ok_app g done t0 st rest Hs)) as (Wl & Okl & Hnp & Hl0 & Hfit & Hi).
    destruct (nb_step cb g Hcb (w := w0) (is_ps st) (is_st st) (is_rp st) (is_ls st) (sr_tx_start (is_t0 t0 done)) (i_rh done) (i_after rest) Wl Okl Hnp Hl0 Hfit
                i_f1 (fun d0 rw0 X => i_okd_stage (done ++ [st]) rest d0 rw0 _ ltac:(rewrite <- app_assoc; exact Es) X) i_goal i_goal_step (i_exit_stage done st rest Es)
                (i_tail_stage done st rest Es (i_P_all rest (done ++ [st]))) c rw x rw' B Hne Ex Hf1) as (c1 & E1 & G).
    unfold bytes in *. rewrite E1. exact G.
  - destruct (pp_ex_parts g eF HokF) as (Wl & Okl & Hnp & H09F & Hreq & Hfr & Hl0 & Hfit).
    destruct (nb_step cb g Hcb (w := w0) (px_ps eF) (px_st eF) (px_rp eF) (px_ls eF) (sr_tx_start (is_t0 t0 sts)) (i_rh sts) (px_body eF ++ []) Wl Okl Hnp Hl0 Hfit
                i_f1 (fun _ _ X => X) i_goal i_goal_step i_exit_finh i_tail_final c rw x rw' B Hne Ex Hf1) as (c1 & E1 & G).
    unfold bytes in *. rewrite E1. exact G.
  - destruct (pp_ex_parts g eF HokF) as (Wl & Okl & Hnp & H09F & Hreq & Hfr & Hl0 & Hfit).
    destruct (pp_step cb g Hcb (w := w0) (px_ps eF) (px_st eF) (px_rp eF) (px_ls eF) (px_body eF) (px_t0 eF) [] Wl Okl Hnp Hreq Hfr Hl0 Hfit
                i_f1 (fun _ _ X => X) i_goal i_goal_step i_exit_body i_kfin c rw x rw' B Hne Ex Hf1) as (c1 & E1 & G).
    unfold bytes in *. rewrite E1. exact G.
  - exfalso. rewrite Erw in Ex. destruct x; [contradiction|discriminate].
Qed.

Lemma i_between_finish c rw : i_between c rw -> i_between (forget_chunks c <| c_events := [] |>) rw.
Proof.
  intros [Hr Erw|done st rest Es B|B|B|Hr Erw].
  - apply IB_start; [apply pr_rest_finish; exact Hr|exact Erw].
  - apply (IB_in _ _ done st rest Es). apply nb_betw_finish. exact B.
  - apply IB_finh. apply nb_betw_finish. exact B.
  - apply IB_body. apply pp_betw_finish. exact B.
  - apply IB_end; [apply pr_rest_finish; exact Hr|exact Erw].
Qed.
Lemma i_between_end c : i_between c [] -> pr_rest c [pr_slot g (pp_tfin eF)] 1.
Proof.
  intros [Hr Erw|done st rest Es B|B|B|Hr Erw].
  - exfalso. rewrite i_after_head in Erw. symmetry in Erw. apply app_eq_nil in Erw. destruct Erw as [_ Erw]. discriminate.
  - exfalso. apply (nb_betw_ne _ _ _ _ _ _ _ _ _ _ B). reflexivity.
  - exfalso. apply (nb_betw_ne _ _ _ _ _ _ _ _ _ _ B). reflexivity.
  - exfalso. destruct B as [p q _ _ Hq Erw|p hdr t _ Hl|k Hk _ _ Erw].
    + destruct q; [contradiction|discriminate].
    + destruct Hl as (pend & tl & rem & q & ea & _ & _ & _ & _ & _ & Hne & Hea & E & _). destruct ea.
      * destruct (Hea eq_refl) as (_ & _ & Eq & _). subst q. discriminate.
      * destruct (Hne eq_refl) as (_ & Hq). destruct q; [contradiction|discriminate].
    + symmetry in Erw. apply app_eq_nil in Erw. destruct Erw as [E _]. apply (f_equal (@length N)) in E. rewrite skipn_length in E. cbn [length] in E. lia.
  - exact Hr.
Qed.
Lemma i_chunks : forall (chunks : list bytes) c rw, i_between c rw ->
  Forall (fun x => x <> []) chunks -> concat chunks = rw -> sr_oks i_f1 chunks ->
  pr_rest (fst (cp_run cb g c (map OpResData chunks))) [pr_slot g (pp_tfin eF)] 1.
Proof.
  induction chunks as [|x rest IH]; intros c rw B Hall Hc Hoks.
  - cbn [concat] in Hc. subst rw. cbn [map cp_run fst]. apply (i_between_end c B).
  - cbn [concat] in Hc. cbn [map]. rewrite sr_cp_run_cons. destruct Hoks as [Hok1' Hoks].
    destruct (i_step c rw x (concat rest) B (Forall_inv Hall) (eq_sym Hc) Hok1') as (c' & rc & E & B').
    unfold bytes in *. rewrite E. cbn [fst].
    apply (IH _ (concat rest) (i_between_finish _ _ B') (Forall_inv_tail Hall) eq_refl Hoks).
Qed.
End I100Run.

(* ================= on the grammar ================= *)
Lemma i_tuple8 {A B C D E F G H} (a a' : A) (b b' : B) (c c' : C) (d d' : D) (e e' : E) (f f' : F) (g g' : G) (h h' : H) :
  (a, b, c, d, e, f, g, h) = (a', b', c', d', e', f', g', h') -> a = a' /\ b = b' /\ c = c' /\ d = d' /\ e = e' /\ f = f' /\ g = g' /\ h = h'.
Proof. intros X. inversion X. repeat split. Qed.
(* what the decisions of RES_BODY_DETERMINE read of the transaction the request left: the method number, the (empty) response header table *)
Definition i_sim0 (a b : tx) : Prop := t_request_method_number a = t_request_method_number b /\ sr_rsp a = sr_rsp b.
Lemma i_sim_tend a b r cuts : i_sim0 a b -> sr_sim (sr_tend a r cuts) (sr_tend b r cuts).
Proof. intros [Hm Hr]. unfold sr_tend. apply sim_lrun; [reflexivity|]. cbn [snd]. apply sim_th0; assumption. Qed.
Lemma i_sim_next a b st : i_sim0 a b -> i_sim0 (is_next a st) (is_next b st).
Proof.
  intros H. destruct (i_sim_tend a b (is_res st) (is_cuts st) H) as (Hm & Hr & _ & _). unfold sr_rsp in Hr. injection Hr as Hh Hrep.
  unfold i_sim0, is_next, sr_rsp. cbn. rewrite Hrep. split; [exact Hm|reflexivity].
Qed.
Lemma i_sim_t0 : forall sts a b, i_sim0 a b -> i_sim0 (is_t0 a sts) (is_t0 b sts).
Proof. induction sts as [|st r IH]; intros a b H; [exact H|]. cbn [is_t0 fold_left]. apply (IH _ _ (i_sim_next a b st H)). Qed.
Lemma i100_sim_ok a b : sr_sim a b -> i100_ok a = i100_ok b.
Proof. intros (Hm & Hr & Hs & Hp). unfold sr_rsp in Hr. injection Hr as Hh Hrep. unfold i100_ok. rewrite Hm, Hh, Hs. reflexivity. Qed.
Lemma i_sim_all_ok g : forall sts a b, i_sim0 a b -> is_all_ok g a sts -> is_all_ok g b sts.
Proof.
  induction sts as [|st r IH]; intros a b H Ha; [exact I|]. destruct Ha as [(A1 & A2 & A3 & A4) Hr]. split.
  - split; [exact A1|]. split; [exact A2|]. split; [exact A3|]. rewrite <- (i100_sim_ok _ _ (i_sim_tend a b _ _ H)). exact A4.
  - apply (IH _ _ (i_sim_next a b st H) Hr).
Qed.
(* the interim responses leave the request side of the transaction alone, and the length counters *)
Lemma is_next_rq t st : pp_rq (is_next t st) = pp_rq t /\ t_response_message_len (is_next t st) = t_response_message_len t /\ t_response_entity_len (is_next t st) = t_response_entity_len t.
Proof.
  unfold is_next, sr_tend.
  destruct (prq_lrun (sr_lines (is_res st) (is_cuts st)) (None, sr_th0 t (sr_line0 (is_res st)))) as [A B]. cbn [snd] in A, B.
  destruct (prq_th0 t (sr_line0 (is_res st))) as [C D].
  set (T := sr_lrun _ _) in *. clearbody T.
  assert (E1 : pp_rq (T <| t_response_headers := [] |> <| t_seen_100continue ::= S |>) = pp_rq T) by reflexivity.
  rewrite E1, A, C. unfold pp_rl in B. unfold pp_rsp in D.
  assert (E2 : t_response_message_len (T <| t_response_headers := [] |> <| t_seen_100continue ::= S |>) = t_response_message_len T) by reflexivity.
  assert (E3 : t_response_entity_len (T <| t_response_headers := [] |> <| t_seen_100continue ::= S |>) = t_response_entity_len T) by reflexivity.
  rewrite E2, E3. destruct (pp_tuple7 _ _ _ _ _ _ _ _ _ _ _ _ _ _ B) as (_ & _ & _ & _ & _ & B6 & B7).
  destruct (pp_tuple4 _ _ _ _ _ _ _ _ D) as (_ & _ & D3 & D4). rewrite B6, B7, D3, D4. repeat split.
Qed.
Lemma is_t0_rq : forall sts t, pp_rq (is_t0 t sts) = pp_rq t /\ t_response_message_len (is_t0 t sts) = t_response_message_len t /\ t_response_entity_len (is_t0 t sts) = t_response_entity_len t.
Proof.
  induction sts as [|st r IH]; intros t; [repeat split|]. cbn [is_t0 fold_left]. destruct (IH (is_next t st)) as (A & B & C). destruct (is_next_rq t st) as (A' & B' & C').
  fold (is_t0 (is_next t st) r). rewrite A, B, C, A', B', C'. repeat split.
Qed.

(* the premise on the grammar: every interim response is one for the model (i100_ok on the canonical transaction of the request), the final
   response is framed by Content-Length |bodyF| *)
Definition i100_premise (g : cfg) (rq : wr_request) (sts : list i_stage) (rF : wr_response) (cutsF : list (list bytes)) (bodyF : bytes) : Prop :=
  is_all_ok g (sr_canon rq) sts /\ sr_response_ok rF = true /\ sr_cuts_ok rF cutsF = true /\
  sr_frame_ok (sr_tend (is_t0 (sr_canon rq) sts) rF cutsF) (length bodyF) = true /\ sr_fits g rF cutsF = true.
(* the transaction reported at the end, for the transaction t0 the request left *)
Definition i100_tfin (t0 : tx) (sts : list i_stage) (rF : wr_response) (cutsF : list (list bytes)) (bodyF : bytes) : tx :=
  sr_after_hdr (length bodyF) (sr_tend (is_t0 t0 sts) rF cutsF).

Theorem i100_chunking : forall cb g rq (sts : list i_stage) rF cutsF bodyF (qchunks schunks : list bytes),
  wr_all_ok cb -> g_allow_space_uri g = false -> (g_max_tx g = 0 \/ 1 < g_max_tx g)%nat -> sg_req_ok g rq = true ->
  i100_premise g rq sts rF cutsF bodyF ->
  Forall (fun c => c <> []) qchunks -> concat qchunks = wr_request_wire rq ->
  Forall (fun c => c <> []) schunks -> concat schunks = is_wires sts ++ sr_wire rF cutsF bodyF ->
  pp_f1_free [mk_pp_xc rq rF cutsF bodyF] schunks = true ->
  exists k fl, c_txs (fst (cp_run cb g connp_new (OpOpen :: map OpReqData qchunks ++ map OpResData schunks))) =
               [pr_slot g (i100_tfin (sg_tfin_r g k rq fl) sts rF cutsF bodyF)].
Proof.
  intros cb g rq sts rF cutsF bodyF qchunks schunks Hcb Hsp Hmax Hq (Pa & Wr & Wc & Pf & Hfit) Hall Hc Halls Hcs Hf1.
  assert (Hokq : Forall (fun r => sg_req_ok g r = true) [rq]) by (constructor; [exact Hq|constructor]).
  assert (Hmax' : (g_max_tx g = 0 \/ length [rq] < g_max_tx g)%nat) by (cbn [length]; lia).
  assert (Hc' : concat qchunks = concat (map wr_request_wire [rq])) by (cbn [map concat]; rewrite app_nil_r; exact Hc).
  destruct (pq_after_requests cb g _ qchunks Hcb Hsp Hmax' Hokq Hall Hc') as (Hm & R & F). cbv zeta in Hm, R, F.
  change (OpOpen :: map OpReqData qchunks ++ map OpResData schunks) with ((OpOpen :: map OpReqData qchunks) ++ map OpResData schunks).
  rewrite sr_run_app. set (cF := fst (cp_run cb g connp_new (OpOpen :: map OpReqData qchunks))) in *.
  unfold sr_fr, pq_base in F.
  assert (G : c_out_status cF = c_HTP_STREAM_OPEN /\ c_out_state cF = RES_IDLE /\ c_out cF = cursor_new /\ c_out_next_tx_index cF = 0%nat /\
              c_txs_shifted cF = 0%nat /\ c_out_data_other_at_tx_end cF = false) by (repeat split; congruence).
  destruct G as (G1 & G2 & G3 & G4 & G5 & G6).
  unfold pq_rep in R. inversion R as [|slot1 r1 done' rs' (k & fl & Es1) R' Ed Ers]. subst. inversion R'. subst.
  set (t0 := sg_tfin_r g k rq fl) in *.
  assert (Hr : pr_rest cF [Some t0] 0).
  { constructor; rewrite ?G3; try assumption; try reflexivity.
    - rewrite G1. left. reflexivity.
    - symmetry. assumption.
    - exact (im_tx _ _ _ Hm). }
  destruct (sg_req_ok_parts g rq Hq) as (Wq & _).
  pose proof (sg_tfin_reported g k rq fl Hsp Wq) as Rep. fold (sg_tfin_r g k rq fl) in Rep. fold t0 in Rep.
  unfold wr_reported in Rep. destruct Rep as (_ & Hmn & _ & _ & _ & H09 & _ & Hreq).
  assert (S0 : i_sim0 (sr_canon rq) t0).
  { split; [symmetry; exact Hmn|]. pose proof (prs_tfin g k rq fl) as P. fold t0 in P. unfold pp_rsp in P. unfold sr_rsp.
    destruct (pp_tuple4 _ _ _ _ _ _ _ _ P) as (P1 & P2 & _ & _). rewrite P1, P2. reflexivity. }
  assert (Hsts : is_all_ok g t0 sts) by (apply (i_sim_all_ok g sts _ _ S0 Pa)).
  assert (HokF : pp_ex_ok g (mk_pp_ex (is_t0 t0 sts) rF cutsF bodyF)).
  { destruct (is_t0_rq sts t0) as (Q & _ & _). unfold pp_rq in Q. destruct (i_tuple8 _ _ _ _ _ _ _ _ _ _ _ _ _ _ _ _ Q) as (_ & _ & _ & _ & _ & Q6 & _ & Q8).
    unfold pp_ex_ok. cbn [px_t0 px_res px_cuts px_body]. split; [rewrite Q6; exact H09|]. split; [rewrite Q8; exact Hreq|]. split; [exact Wr|]. split; [exact Wc|]. split; [|exact Hfit].
    rewrite <- Pf. apply sim_frame_ok. apply i_sim_tend. apply i_sim_t0. split; [symmetry; apply S0|symmetry; apply S0]. }
  exists k, fl.
  pose proof (i_chunks cb g Hcb t0 sts rF cutsF bodyF H09 Hsts HokF schunks cF _ (IB_start g t0 sts rF cutsF bodyF _ _ Hr eq_refl) Halls Hcs) as Hfin.
  rewrite (py_txs _ _ _ (Hfin (nb_oks_f1 (mk_pp_xc rq rF cutsF bodyF) _ schunks Hf1 eq_refl))). reflexivity.
Qed.

(* what is reported is the FINAL response: status line fields, header table, lengths (the seeded defects C04-late-100-continue-becomes-final,
   C04-second-100-continue-becomes-final, C02-status-fields-kept-from-interim violate this). Premise i100_clean: the interim header blocks did not
   advance the repetition counter (it is not reset by the re-arm: PSegRes100.i100_ex_three) *)
Definition i100_clean (rq : wr_request) (sts : list i_stage) : Prop := sr_rsp (is_t0 (sr_canon rq) sts) = ([], 0%nat).
Theorem i100_reported : forall cb g rq (sts : list i_stage) rF bodyF (qchunks schunks : list bytes),
  wr_all_ok cb -> g_allow_space_uri g = false -> g_tx_auto_destroy g = false -> (g_max_tx g = 0 \/ 1 < g_max_tx g)%nat -> sg_req_ok g rq = true ->
  i100_premise g rq sts rF (sr_cuts_whole rF) bodyF -> i100_clean rq sts -> wr_block_ok (wp_fields rF) = true ->
  Forall (fun c => c <> []) qchunks -> concat qchunks = wr_request_wire rq ->
  Forall (fun c => c <> []) schunks -> concat schunks = is_wires sts ++ wr_response_wire rF ++ bodyF ->
  pp_f1_free [mk_pp_xc rq rF (sr_cuts_whole rF) bodyF] schunks = true ->
  exists t, c_txs (fst (cp_run cb g connp_new (OpOpen :: map OpReqData qchunks ++ map OpResData schunks))) = [Some t] /\ sr_reported t rF bodyF.
Proof.
  intros cb g rq sts rF bodyF qchunks schunks Hcb Hsp Had Hmax Hq Hp Hcl Wb Hall Hc Halls Hcs Hf1.
  rewrite <- sr_wire_whole in Hcs.
  destruct (i100_chunking cb g rq sts rF _ bodyF qchunks schunks Hcb Hsp Hmax Hq Hp Hall Hc Halls Hcs Hf1) as (k & fl & E).
  exists (i100_tfin (sg_tfin_r g k rq fl) sts rF (sr_cuts_whole rF) bodyF). split; [rewrite E; unfold pr_slot; rewrite Had; reflexivity|].
  unfold i100_tfin. destruct Hp as (_ & Wr & _). apply pp_tfin_reported; [|exact Wr|exact Wb].
  set (t0 := sg_tfin_r g k rq fl).
  destruct (sg_req_ok_parts g rq Hq) as (Wq & _).
  pose proof (sg_tfin_reported g k rq fl Hsp Wq) as Rep. fold (sg_tfin_r g k rq fl) in Rep. fold t0 in Rep.
  unfold wr_reported in Rep. destruct Rep as (_ & Hmn & _).
  pose proof (prs_tfin g k rq fl) as P. fold t0 in P. unfold pp_rsp in P. destruct (pp_tuple4 _ _ _ _ _ _ _ _ P) as (P1 & P2 & P3 & P4).
  assert (S0 : i_sim0 (sr_canon rq) t0) by (split; [symmetry; exact Hmn|unfold sr_rsp; rewrite P1, P2; reflexivity]).
  destruct (i_sim_t0 sts _ _ S0) as (_ & Sr). rewrite Hcl in Sr. unfold sr_rsp in Sr. injection Sr as Sh Srep.
  destruct (is_t0_rq sts t0) as (_ & L1 & L2).
  unfold pp_rsp. rewrite <- Sh, <- Srep, L1, L2, P3, P4. reflexivity.
Qed.

(* ================= Examples (vm_compute) ================= *)
Definition i100_ra : wr_response := mk_wr_response wr_http11 [49;48;48]%N [67;111;110;116;105;110;117;101]%N [].
Definition i100_rb : wr_response := mk_wr_response wr_http11 [49;48;48]%N [67;111;110;116;105;110;117;101]%N [mk_wr_field [88;45;73]%N [SP] [49]%N []].
Definition i100_rc : wr_response := mk_wr_response wr_http10 [49;48;48]%N [71;111;32;79;110]%N [mk_wr_field [88;45;73]%N [SP] [49]%N []; mk_wr_field [88;45;73]%N [SP] [50]%N []; mk_wr_field [88;45;73]%N [SP] [51]%N []].
Definition i100_rf : wr_response := mk_wr_response wr_http11 [50;48;48]%N [79;75]%N [mk_wr_field [67;111;110;116;101;110;116;45;76;101;110;103;116;104]%N [SP] [51]%N []].
Definition i100_st (r : wr_response) : i_stage := mk_i_stage r (sr_cuts_whole r).
Definition i100_sts2 : list i_stage := [i100_st i100_ra; i100_st i100_rb].
Definition i100_sts3 : list i_stage := [i100_st i100_rc; i100_st i100_ra; i100_st i100_rb].
Definition i100_body : bytes := [97; 98; 99]%N.
Definition i100_gcfg := sg_ex_cfg 18000.
(* the wires are those of PSegRes100.v *)
Example i100_ex_wires : is_wires i100_sts2 ++ wr_response_wire i100_rf ++ i100_body = i100_w2 /\ is_wires i100_sts3 ++ wr_response_wire i100_rf ++ i100_body = i100_w3 /\
  wr_request_wire nb_q_get1 = i100_q.
Proof. split; [vm_compute; reflexivity|]. split; vm_compute; reflexivity. Qed.
Example i100_ex_premises :
  i100_premise i100_gcfg nb_q_get1 i100_sts2 i100_rf (sr_cuts_whole i100_rf) i100_body /\ i100_clean nb_q_get1 i100_sts2 /\
  i100_premise i100_gcfg nb_q_get1 i100_sts3 i100_rf (sr_cuts_whole i100_rf) i100_body /\ ~ i100_clean nb_q_get1 i100_sts3 /\
  sg_req_ok i100_gcfg nb_q_get1 = true /\ wr_block_ok (wp_fields i100_rf) = true.
Proof.
  split; [unfold i100_premise; cbn [is_all_ok i100_sts2]; unfold is_ok; repeat split; vm_compute; reflexivity|].
  split; [vm_compute; reflexivity|].
  split; [unfold i100_premise; cbn [is_all_ok i100_sts3]; unfold is_ok; repeat split; vm_compute; reflexivity|].
  split; [vm_compute; intros X; discriminate X|]. split; vm_compute; reflexivity.
Qed.
(* the reference transaction of the theorem is the one the model computes (k = 0, no HTP_MULTI_PACKET_HEAD) *)
Example i100_ex_reference :
  i100_run [i100_w2] = [pr_slot i100_gcfg (i100_tfin (sg_tfin_r i100_gcfg 0 nb_q_get1 false) i100_sts2 i100_rf (sr_cuts_whole i100_rf) i100_body)] /\
  i100_run [i100_w3] = [pr_slot i100_gcfg (i100_tfin (sg_tfin_r i100_gcfg 0 nb_q_get1 false) i100_sts3 i100_rf (sr_cuts_whole i100_rf) i100_body)].
Proof. split; vm_compute; reflexivity. Qed.
(* an interim response that carries a body-announcing field is NOT an interim response for the library ("100" with Content-Length: 5:
   PSegResNbThm.nb_refuted_204_cl applies, the 5 bytes are taken from the final response) *)
Definition i100_rx : wr_response := mk_wr_response wr_http11 [49;48;48]%N [67;111;110;116;105;110;117;101]%N [mk_wr_field [67;111;110;116;101;110;116;45;76;101;110;103;116;104]%N [SP] [53]%N []].
Example i100_ex_with_cl : ~ is_all_ok i100_gcfg (sr_canon nb_q_get1) [i100_st i100_rx].
Proof. cbn [is_all_ok]. unfold is_ok. intros ((_ & _ & _ & X) & _). vm_compute in X. discriminate X. Qed.

(* ================= FINAL THEOREMS FOR RE-EXPORT (Properties_C03.v / Properties_C04.v / Properties_C02.v) =================
   sts : list i_stage = the interim responses (is_res : wr_response, is_cuts : folding);  rF cutsF bodyF = the final response
   i100_chunking   c_txs = [pr_slot g (i100_tfin (sg_tfin_r g k rq fl) sts rF cutsF bodyF)]  for EVERY chunking of the request wire and EVERY chunking of
                   is_wires sts ++ sr_wire rF cutsF bodyF (chunks may span the interim / final boundaries):  ONE transaction, full equality, where
                   i100_tfin t0 sts .. = sr_after_hdr |bodyF| (sr_tend (is_t0 t0 sts) rF cutsF) = the transaction the final response ALONE gives
                   (PSegResThm.sr_response_chunking / PPairThmB) when it starts from is_t0 t0 sts = fold of
                   is_next t st = (sr_tend t ..) <| response_headers := [] |> <| seen_100continue ::= S |>   over the interim responses.
                   What survives of an interim response (everything else is overwritten by the final status line / header block, see
                   PSegRes100.i100_rearm): seen_100continue (+1 each), t_res_header_repetitions, t_flags raised by its header block.
   i100_reported   (fields of rF one line each, wr_block_ok, tx_auto_destroy off, i100_clean): c_txs = [Some t] with PPairThm.sr_reported t rF bodyF
                   (protocol, status, reason, header table, entity / message length = those of the FINAL response, COMPLETE)
   premises: wr_all_ok cb, g_allow_space_uri g = false, g_max_tx g = 0 \/ 1 < g_max_tx g, sg_req_ok g rq,
             i100_premise g rq sts rF cutsF bodyF = is_all_ok g (sr_canon rq) sts (each interim: sr_response_ok, sr_cuts_ok, sr_fits, and the model's decision
                 i100_ok = status 100, no Transfer-Encoding, Content-Length absent or <= 0, not CONNECT) /\ sr_response_ok rF /\ sr_cuts_ok rF cutsF /\
                 sr_frame_ok (.. final ..) |bodyF| (Content-Length framing, PSegResRun) /\ sr_fits g rF cutsF
             pp_f1_free [mk_pp_xc rq rF cutsF bodyF] schunks = true  (finding F1, vacuous unless bodyF starts with CR)
   also: i_chunks (from any between-calls state, for any t0), PSegRes100.i100_pass_determine, PSegResNb.nb_iter_to_headers *)
Print Assumptions i100_chunking.
Print Assumptions i100_reported.
