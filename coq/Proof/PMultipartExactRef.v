(* C14 (d), part 2: the byte-at-a-time reference machine (Spec/SMultipart.v) on the encoder image. *)
Require Import Htp.Model.Base Htp.Model.MBstr Htp.Model.MMultipart Htp.Spec.SMultipart.
Require Import Htp.Proof.PMultipartHd Htp.Proof.PMultipart Htp.Proof.PMultipartRef Htp.Proof.PMultipartExactHd.

Ltac mpx_a := cbn [ma_b ma_pl ma_m ma_ok].

Definition mpx_plainb (c : N) : bool := negb (c =? CR)%N && negb (c =? LF)%N.

Lemma mpx_skipn_nth {A} (l : list A) k d : k < length l -> skipn k l = nth k l d :: skipn (S k) l.
Proof.
  revert k. induction l as [|x l IH]; intros k H; [cbn in H; lia|].
  destruct k as [|k]; [reflexivity|]. cbn [skipn nth]. apply IH. cbn in H. lia.
Qed.

(* ------------------------------------------------------------------ sub-list test *)
Lemma mpx_begins_self n : forall v, begins_with_mem (n ++ v) n = true.
Proof. induction n as [|y n IH]; intros v; [destruct v; reflexivity|]. cbn [app begins_with_mem]. rewrite N.eqb_refl. apply IH. Qed.

Lemma mpx_infix_complete n u v : n <> [] -> mp_infix n (u ++ n ++ v) = true.
Proof.
  intros Hn. induction u as [|y u IH].
  - cbn [app]. destruct n as [|y n]; [congruence|]. cbn [app mp_infix]. change (y :: n ++ v) with ((y :: n) ++ v).
    rewrite mpx_begins_self. reflexivity.
  - cbn [app mp_infix]. rewrite IH. apply orb_true_r.
Qed.

Section Machine.
Variable b : bytes.
Hypothesis Hb : mp_bnd_okb b = true.
Notation B := ([CR; LF; mp_DASH; mp_DASH] ++ b).

Lemma mpx_B_len : 4 <= length B.
Proof. cbn [app length]. lia. Qed.

Lemma mpx_nth_plain k : 2 <= k -> k < length B -> nth k B 0%N <> CR /\ nth k B 0%N <> LF.
Proof.
  intros H2 Hk. apply (matched_plain b (S k) _ Hb). rewrite matched_S by assumption. apply in_or_app. right. left. reflexivity.
Qed.

(* ------------------------------------------------------------------ a delimiter is matched *)
Lemma mpx_delim_from pl held ok m : forall k, length B - k = m -> 2 <= k -> k < length B ->
  fold_left mp_astep (skipn k B) (mk_mp_ast B pl (AmBnd held k) ok) =
  mk_mp_ast B (mp_amatch pl) AmIsLast2 (ok && negb (mp_openlineb pl)).
Proof.
  induction m as [|m IH]; intros k Hm H2 Hk; [lia|].
  rewrite (mpx_skipn_nth B k 0%N Hk). cbn [fold_left]. unfold mp_astep at 2. mpx_a.
  rewrite nth_boundary by exact Hk. rewrite N.eqb_refl.
  destruct (S k =? length B) eqn:E.
  - apply Nat.eqb_eq in E. rewrite E, skipn_all. reflexivity.
  - apply Nat.eqb_neq in E. apply IH; lia.
Qed.

Lemma mpx_delim pl held ok :
  fold_left mp_astep ([mp_DASH; mp_DASH] ++ b) (mk_mp_ast B pl (AmBnd held 2) ok) =
  mk_mp_ast B (mp_amatch pl) AmIsLast2 (ok && negb (mp_openlineb pl)).
Proof.
  change ([mp_DASH; mp_DASH] ++ b) with (skipn 2 B).
  apply (mpx_delim_from pl held ok (length B - 2) 2 eq_refl); [lia|]. pose proof mpx_B_len. lia.
Qed.

(* ------------------------------------------------------------------ simple runs *)
Lemma mpx_after_delim pl ok :
  fold_left mp_astep [CR; LF] (mk_mp_ast B pl AmIsLast2 ok) = mk_mp_ast B (mp_pl_flag pl c_mp_CRLF_LINE) (AmData false) ok.
Proof. reflexivity. Qed.

Lemma mpx_last pl ok :
  fold_left mp_astep [mp_DASH; mp_DASH; CR; LF] (mk_mp_ast B pl AmIsLast2 ok) =
  mk_mp_ast B (mp_pl_flag (mp_pl_flag pl c_mp_SEEN_LAST_BOUNDARY) c_mp_CRLF_LINE) (AmData false) ok.
Proof. reflexivity. Qed.

Lemma mpx_eol pl ok :
  fold_left mp_astep [CR; LF] (mk_mp_ast B pl (AmData false) ok) = mk_mp_ast B (mp_pl_flag pl c_mp_CRLF_LINE) (AmBnd [CR; LF] 2) ok.
Proof. reflexivity. Qed.

Lemma mpx_plain_c c : mpx_plainb c = true -> (c =? CR)%N = false /\ (c =? LF)%N = false.
Proof. unfold mpx_plainb. intros H. apply andb_true_iff in H. destruct H as [H1 H2]. apply negb_true_iff in H1, H2. tauto. Qed.

Lemma mpx_hd_nodup pl d : mp_dupb pl = false -> mp_dupb (mp_hd pl d false) = false.
Proof. intros H. destruct (mp_dupb (mp_hd pl d false)) eqn:E; [|reflexivity]. apply mp_dupb_hd_rev in E. congruence. Qed.

(* a run of bytes without CR / LF in STATE_DATA *)
Lemma mpx_plain_run L : forall pl X, mp_dupb pl = false -> forallb mpx_plainb L = true ->
  fold_left mp_astep L (mk_mp_ast B (mp_hd pl X false) (AmData false) true) = mk_mp_ast B (mp_hd pl (X ++ L) false) (AmData false) true.
Proof.
  induction L as [|c L IH]; intros pl X Hd HL; [rewrite app_nil_r; reflexivity|].
  cbn [forallb] in HL. apply andb_true_iff in HL. destruct HL as [Hc HL]. destruct (mpx_plain_c c Hc) as [E1 E2].
  cbn [fold_left]. unfold mp_astep at 2, mp_astep_data, mp_ahd. mpx_a. rewrite E1, E2.
  rewrite (mpx_hd_nodup pl X Hd). cbn [mp_isnil negb orb andb].
  rewrite mp_hd_split_nl by exact Hd. rewrite (IH pl (X ++ [c]) Hd HL). rewrite <- app_assoc. reflexivity.
Qed.

Lemma mpx_plain_line L pl : mp_dupb pl = false -> forallb mpx_plainb L = true ->
  fold_left mp_astep L (mk_mp_ast B pl (AmData false) true) = mk_mp_ast B (mp_hd pl L false) (AmData false) true.
Proof. intros Hd HL. exact (mpx_plain_run L pl [] Hd HL). Qed.

(* the byte after a line end is not a dash: the line end is released as a line end *)
Lemma mpx_bnd2_mismatch pl c : mp_dupb pl = false -> (c =? mp_DASH)%N = false ->
  mp_astep (mk_mp_ast B pl (AmBnd [CR; LF] 2) true) c = mp_astep_data B (mp_hd pl [CR; LF] true) true false c.
Proof.
  intros Hd Hc. unfold mp_astep. mpx_a. change (nth 2 (B ++ [0%N]) 0%N) with mp_DASH. rewrite Hc.
  unfold mp_arelease, mp_ahd. rewrite Hd. reflexivity.
Qed.

Lemma mpx_line_after_bnd pl c L : mp_dupb pl = false -> mp_dupb (mp_hd pl [CR; LF] true) = false ->
  (c =? mp_DASH)%N = false -> forallb mpx_plainb (c :: L) = true ->
  fold_left mp_astep (c :: L) (mk_mp_ast B pl (AmBnd [CR; LF] 2) true) =
  mk_mp_ast B (mp_hd (mp_hd pl [CR; LF] true) (c :: L) false) (AmData false) true.
Proof.
  intros Hd Hd2 Hc HL. cbn [fold_left]. rewrite mpx_bnd2_mismatch by assumption.
  cbn [forallb] in HL. apply andb_true_iff in HL. destruct HL as [Hp HL]. destruct (mpx_plain_c c Hp) as [E1 E2].
  unfold mp_astep_data, mp_ahd. rewrite E1, E2, Hd2. cbn [mp_isnil negb orb andb].
  exact (mpx_plain_run L (mp_hd pl [CR; LF] true) [c] Hd2 HL).
Qed.

Lemma mpx_empty_line pl : mp_dupb pl = false ->
  fold_left mp_astep [CR; LF] (mk_mp_ast B pl (AmBnd [CR; LF] 2) true) =
  mk_mp_ast B (mp_pl_flag (mp_hd pl [CR; LF] true) c_mp_CRLF_LINE) (AmBnd [CR; LF] 2) true.
Proof.
  intros Hd. cbn [fold_left]. rewrite mpx_bnd2_mismatch by (exact Hd || reflexivity). reflexivity.
Qed.

(* ------------------------------------------------------------------ the data of a part: no delimiter inside *)
Section Data.
Variables (ps : list mp_part) (fr : mpx_frame).
Notation DL := (LF :: mp_DASH :: mp_DASH :: b).       (* what must not occur in LF :: data *)

(* x = the data bytes consumed so far *)
Definition mpx_inv (x : bytes) (a : mp_ast) : Prop :=
  ma_b a = B /\ ma_ok a = true /\
  match ma_m a with
  | AmData crp => exists acc, mpx_ds ps fr acc (ma_pl a) /\ x = acc ++ (if crp then [CR] else [])
  | AmBnd held k =>
    2 <= k /\ k < length B /\ mp_dupb (ma_pl a) = false /\
    exists acc, mpx_ds ps fr acc (mp_hd (ma_pl a) held true) /\ x = acc ++ mp_matched B k /\
                exists u, LF :: x = u ++ LF :: mp_matched B k
  | _ => False
  end.

Lemma mpx_data_step (pl : mp_pl) (acc : bytes) (crp : bool) (c : N) : mpx_ds ps fr acc pl ->
  mpx_inv (acc ++ (if crp then [CR] else []) ++ [c]) (mp_astep_data B pl true crp c).
Proof.
  intros H. pose proof (mpx_ds_nodup _ _ _ _ H) as Hd.
  unfold mp_astep_data, mp_ahd. rewrite Hd. cbn [mp_isnil negb orb andb]. rewrite ?orb_true_r.
  destruct (c =? CR)%N eqn:E1.
  - apply N.eqb_eq in E1. subst c. destruct crp; (split; [reflexivity|split; [reflexivity|]]); mpx_a.
    + exists (acc ++ [CR]). split; [apply mpx_ds_hd; exact H|rewrite <- app_assoc; reflexivity].
    + exists acc. split; [exact H|reflexivity].
  - destruct (c =? LF)%N eqn:E2.
    + apply N.eqb_eq in E2. subst c. split; [reflexivity|split; [reflexivity|]]. mpx_a.
      split; [lia|]. split; [pose proof mpx_B_len; lia|].
      assert (Hf : mpx_ds ps fr acc (mp_pl_flag pl (if crp then c_mp_CRLF_LINE else c_mp_LF_LINE))).
      { apply mpx_ds_flag; [destruct crp; [exact mp_neutral_crlf|exact mp_neutral_lf]|exact H]. }
      split; [exact (mpx_ds_nodup _ _ _ _ Hf)|].
      exists (acc ++ (if crp then [CR; LF] else [LF])). split; [apply mpx_ds_hd; exact Hf|].
      change (mp_matched B 2) with (@nil N). rewrite app_nil_r.
      split; [destruct crp; reflexivity|].
      exists (LF :: acc ++ (if crp then [CR] else [])). destruct crp; cbn [app]; rewrite <- ?app_assoc; reflexivity.
    + split; [reflexivity|split; [reflexivity|]]. mpx_a.
      exists (acc ++ (if crp then [CR; c] else [c])). split; [apply mpx_ds_hd; exact H|].
      rewrite app_nil_r. destruct crp; reflexivity.
Qed.

(* releasing a failed boundary candidate *)
Lemma mpx_release pl held k acc : mp_dupb pl = false -> mpx_ds ps fr acc (mp_hd pl held true) ->
  snd (mp_arelease B pl true held k) = true /\ mpx_ds ps fr (acc ++ mp_matched B k) (fst (mp_arelease B pl true held k)).
Proof.
  intros Hd H. unfold mp_arelease, mp_ahd. rewrite Hd, (mpx_ds_nodup _ _ _ _ H). cbn [fst snd].
  split; [rewrite !orb_true_r; reflexivity|]. apply mpx_ds_hd. exact H.
Qed.

Lemma mpx_inv_step x a c :
  mpx_inv x a -> (forall u, LF :: x ++ [c] <> u ++ DL) -> mpx_inv (x ++ [c]) (mp_astep a c).
Proof.
  intros (Hb0 & Hok & Hm) Hno. destruct a as [b0 pl m ok]. cbn [ma_b ma_ok ma_m ma_pl] in *. subst b0 ok.
  destruct m as [crp|held k| | | |]; try contradiction.
  - destruct Hm as (acc & Hds & ->). unfold mp_astep. mpx_a. rewrite <- app_assoc. apply mpx_data_step. exact Hds.
  - destruct Hm as (H2 & Hk & Hd & acc & Hds & -> & u & Hu).
    unfold mp_astep. mpx_a. rewrite nth_boundary by exact Hk.
    destruct (c =? nth k B 0%N)%N eqn:Ec.
    + apply N.eqb_eq in Ec. subst c.
      assert (HS : mp_matched B (S k) = mp_matched B k ++ [nth k B 0%N]) by (apply matched_S; assumption).
      destruct (S k =? length B) eqn:E.
      * exfalso. apply Nat.eqb_eq in E. apply (Hno u).
        change (LF :: (acc ++ mp_matched B k) ++ [nth k B 0%N]) with ((LF :: acc ++ mp_matched B k) ++ [nth k B 0%N]).
        rewrite Hu, <- app_assoc. change ((LF :: mp_matched B k) ++ [nth k B 0%N]) with (LF :: (mp_matched B k ++ [nth k B 0%N])).
        rewrite <- HS. f_equal. f_equal.
        unfold mp_matched. rewrite E. cbn [app length skipn]. replace (S (S (S (S (length b)))) - 2) with (length (mp_DASH :: mp_DASH :: b)) by (cbn [length]; lia).
        apply firstn_all.
      * apply Nat.eqb_neq in E. split; [reflexivity|split; [reflexivity|]]. mpx_a.
        split; [lia|]. split; [lia|]. split; [exact Hd|]. exists acc. split; [exact Hds|]. rewrite HS, app_assoc. split; [reflexivity|].
        exists u. change (LF :: (acc ++ mp_matched B k) ++ [nth k B 0%N]) with ((LF :: acc ++ mp_matched B k) ++ [nth k B 0%N]).
        rewrite Hu, <- app_assoc. reflexivity.
    + destruct (mpx_release pl held k acc Hd Hds) as [Hr1 Hr2].
      destruct (mp_arelease B pl true held k) as [pl1 ok1]. cbn [fst snd] in *. subst ok1.
      pose proof (mpx_data_step pl1 (acc ++ mp_matched B k) false c Hr2) as HH. cbn [app] in HH. exact HH.
Qed.

Lemma mpx_inv_run r : forall x a, mpx_inv x a -> (forall u v, LF :: x ++ r <> u ++ DL ++ v) ->
  mpx_inv (x ++ r) (fold_left mp_astep r a).
Proof.
  induction r as [|c r IH]; intros x a Hi Hno; [rewrite app_nil_r; exact Hi|].
  cbn [fold_left]. replace (x ++ c :: r) with ((x ++ [c]) ++ r) by (rewrite <- app_assoc; reflexivity).
  apply IH.
  - apply mpx_inv_step; [exact Hi|]. intros u E. apply (Hno u r).
    replace (LF :: x ++ c :: r) with ((LF :: x ++ [c]) ++ r) by (cbn [app]; rewrite <- app_assoc; reflexivity).
    rewrite E, <- app_assoc. reflexivity.
  - intros u v. rewrite <- app_assoc. apply Hno.
Qed.

(* the CR of the line end before the delimiter *)
Lemma mpx_inv_cr x a : mpx_inv x a ->
  exists pl, mp_astep a CR = mk_mp_ast B pl (AmData true) true /\ mpx_ds ps fr x pl.
Proof.
  intros (Hb0 & Hok & Hm). destruct a as [b0 pl m ok]. cbn [ma_b ma_ok ma_m ma_pl] in *. subst b0 ok.
  destruct m as [crp|held k| | | |]; try contradiction.
  - destruct Hm as (acc & Hds & ->). unfold mp_astep, mp_astep_data, mp_ahd. mpx_a. change (CR =? CR)%N with true. cbv iota.
    rewrite (mpx_ds_nodup _ _ _ _ Hds). cbn [mp_isnil negb orb andb].
    destruct crp; eexists; (split; [reflexivity|]).
    + apply mpx_ds_hd. exact Hds.
    + rewrite app_nil_r. exact Hds.
  - destruct Hm as (H2 & Hk & Hd & acc & Hds & -> & _).
    unfold mp_astep. mpx_a. rewrite nth_boundary by exact Hk.
    destruct (CR =? nth k B 0%N)%N eqn:Ec.
    + apply N.eqb_eq in Ec. destruct (mpx_nth_plain k H2 Hk) as [H _]. congruence.
    + destruct (mpx_release pl held k acc Hd Hds) as [Hr1 Hr2].
      destruct (mp_arelease B pl true held k) as [pl1 ok1]. cbn [fst snd] in *. subst ok1.
      exists pl1. split; [reflexivity|exact Hr2].
Qed.

(* the whole data of one part followed by CR LF and the delimiter *)
Lemma mpx_data_run plH d :
  mp_dupb plH = false -> mpx_ds ps fr [] (mp_hd plH [CR; LF] true) ->
  mp_data_okb b d = true ->
  exists pl' q,
    fold_left mp_astep (d ++ [CR; LF] ++ [mp_DASH; mp_DASH] ++ b) (mk_mp_ast B plH (AmBnd [CR; LF] 2) true) =
    mk_mp_ast B pl' AmIsLast2 true /\ mpx_between (ps ++ [q]) pl' /\ mp_report q = (fr, d).
Proof.
  intros Hd Hds Hok.
  assert (Hno : forall u v, LF :: d <> u ++ DL ++ v).
  { intros u v E. unfold mp_data_okb in Hok. apply negb_true_iff in Hok.
    change ([LF; mp_DASH; mp_DASH] ++ b) with DL in Hok. rewrite E, mpx_infix_complete in Hok; [discriminate|discriminate]. }
  assert (Hi0 : mpx_inv [] (mk_mp_ast B plH (AmBnd [CR; LF] 2) true)).
  { split; [reflexivity|split; [reflexivity|]]. mpx_a. split; [lia|]. split; [pose proof mpx_B_len; lia|]. split; [exact Hd|].
    exists []. split; [exact Hds|]. split; [reflexivity|]. exists []. reflexivity. }
  pose proof (mpx_inv_run d [] _ Hi0 Hno) as Hi. change ([] ++ d) with d in Hi.
  destruct (mpx_inv_cr _ _ Hi) as (pl1 & E1 & Hds1).
  rewrite fold_left_app. change ([CR; LF] ++ [mp_DASH; mp_DASH] ++ b) with (CR :: LF :: [mp_DASH; mp_DASH] ++ b).
  cbn [fold_left]. rewrite E1.
  change (mp_astep (mk_mp_ast B pl1 (AmData true) true) LF) with (mk_mp_ast B (mp_pl_flag pl1 c_mp_CRLF_LINE) (AmBnd [CR; LF] 2) true).
  rewrite mpx_delim.
  assert (Hf : mpx_ds ps fr d (mp_pl_flag pl1 c_mp_CRLF_LINE)) by (apply mpx_ds_flag; [exact mp_neutral_crlf|exact Hds1]).
  rewrite (mpx_ds_closed _ _ _ _ Hf). destruct (mpx_ds_amatch _ _ _ _ Hf) as (q & Hbt & Hrep).
  eexists; exists q. split; [reflexivity|]. split; assumption.
Qed.
End Data.

(* ------------------------------------------------------------------ one encoded part *)
Definition mpx_body (e : mp_epart) : bytes :=
  match e with
  | MpeText n v => mp_s_cdhead ++ mp_quote n ++ [mp_QUOTE] ++ mp_CRLF ++ mp_CRLF ++ v ++ mp_CRLF
  | MpeFile n f ct d =>
    mp_s_cdhead ++ mp_quote n ++ mp_s_fnhead ++ mp_quote f ++ [mp_QUOTE] ++ mp_CRLF ++
    (match ct with Some t => mp_s_cthead ++ t ++ mp_CRLF | None => [] end) ++ mp_CRLF ++ d ++ mp_CRLF
  end.
(* what follows one delimiter up to and including the next one *)
Definition mpx_seg (e : mp_epart) : bytes := [CR; LF] ++ mpx_body e ++ [mp_DASH; mp_DASH] ++ b.

Lemma mpx_quote_forall (P : N -> bool) n : P mp_BSL = true -> forallb P n = true -> forallb P (mp_quote n) = true.
Proof.
  intros HB. induction n as [|c r IH]; cbn [forallb mp_quote]; [reflexivity|]. intros H. apply andb_true_iff in H. destruct H as [Hc Hr].
  destruct ((c =? mp_QUOTE)%N || (c =? mp_BSL)%N); cbn [forallb]; rewrite ?HB, Hc, (IH Hr); reflexivity.
Qed.

Lemma mpx_forall_weaken (p q : N -> bool) (l : bytes) : (forall c, p c = true -> q c = true) -> forallb p l = true -> forallb q l = true.
Proof. intros I. induction l as [|c r IH]; cbn [forallb]; [reflexivity|]. intros H. apply andb_true_iff in H. destruct H as [H1 H2]. rewrite (I c H1), (IH H2). reflexivity. Qed.

Lemma mpx_nonul_forall l : forallb (fun c => negb (c =? 0)%N) l = true -> mpx_nonul l.
Proof. unfold mpx_nonul. induction l as [|c r IH]; cbn [forallb existsb]; [reflexivity|]. intros H. apply andb_true_iff in H. destruct H as [H1 H2]. apply negb_true_iff in H1. rewrite H1, (IH H2). reflexivity. Qed.

Lemma mpx_name_plain n : mp_name_okb n = true -> forallb mpx_plainb (mp_quote n) = true.
Proof.
  intros H. apply mpx_quote_forall; [reflexivity|]. revert H. apply mpx_forall_weaken. intros c Hc.
  apply andb_true_iff in Hc. destruct Hc as [Hc _]. exact Hc.
Qed.
Lemma mpx_name_nonul n : mp_name_okb n = true -> mpx_nonul (mp_quote n).
Proof.
  intros H. apply mpx_nonul_forall. apply mpx_quote_forall; [reflexivity|]. revert H. apply mpx_forall_weaken. intros c Hc.
  apply andb_true_iff in Hc. destruct Hc as [_ Hc]. exact Hc.
Qed.

Definition mpx_ctfacts (c : N) : bool :=
  implb (mp_in 33 126 c) (mpx_plainb c && negb (c =? 0)%N && negb (htp_is_lws c) && negb (c =? SP)%N).
Lemma mpx_ct_char c : mp_in 33 126 c = true ->
  mpx_plainb c = true /\ (c =? 0)%N = false /\ htp_is_lws c = false /\ (c =? SP)%N = false.
Proof.
  intros H. assert (Hlt : (c < 256)%N).
  { unfold mp_in in H. apply andb_true_iff in H. destruct H as [_ H]. apply N.leb_le in H. lia. }
  assert (S : forallb mpx_ctfacts all_bytes = true) by (vm_compute; reflexivity).
  pose proof (byte_sweep mpx_ctfacts S c Hlt) as F. unfold mpx_ctfacts in F. rewrite H in F. cbn [implb] in F.
  repeat (apply andb_true_iff in F; destruct F as [F ?]).
  repeat match goal with X : negb _ = true |- _ => apply negb_true_iff in X end.
  unfold mpx_plainb. rewrite F, H3. cbn [negb andb]. tauto.
Qed.

Lemma mpx_ctype_facts t : mp_ctype_okb t = true ->
  mp_isnil t = false /\ forallb mpx_plainb t = true /\ mpx_nonul t /\ htp_is_lws (hd 0%N t) = false /\
  forallb (fun c => negb (c =? mp_SEMI)%N && negb (c =? mp_COMMA)%N && negb (c =? SP)%N) t = true.
Proof.
  unfold mp_ctype_okb. intros H. apply andb_true_iff in H. destruct H as [Hn H]. apply negb_true_iff in Hn.
  split; [exact Hn|]. split; [|split; [|split]].
  - revert H. apply mpx_forall_weaken. intros c Hc. apply andb_true_iff in Hc. destruct Hc as [Hc _]. apply andb_true_iff in Hc. destruct Hc as [Hc _].
    apply (mpx_ct_char c Hc).
  - apply mpx_nonul_forall. revert H. apply mpx_forall_weaken. intros c Hc. apply andb_true_iff in Hc. destruct Hc as [Hc _]. apply andb_true_iff in Hc. destruct Hc as [Hc _].
    destruct (mpx_ct_char c Hc) as (_ & -> & _). reflexivity.
  - destruct t as [|c r]; [discriminate Hn|]. cbn [forallb hd] in *. apply andb_true_iff in H. destruct H as [Hc _].
    apply andb_true_iff in Hc. destruct Hc as [Hc _]. apply andb_true_iff in Hc. destruct Hc as [Hc _]. apply (mpx_ct_char c Hc).
  - revert H. apply mpx_forall_weaken. intros c Hc. apply andb_true_iff in Hc. destruct Hc as [Hc H3]. apply andb_true_iff in Hc. destruct Hc as [Hc H2].
    destruct (mpx_ct_char c Hc) as (_ & _ & _ & ->). rewrite H2, H3. reflexivity.
Qed.

Lemma mpx_forallb_app (p : N -> bool) l1 l2 : forallb p l1 = true -> forallb p l2 = true -> forallb p (l1 ++ l2) = true.
Proof. intros H1 H2. rewrite forallb_app, H1, H2. reflexivity. Qed.

Ltac mpx_dup := apply mpx_nodup_ns; cbn [mpl_flags]; assumption.
Ltac mpx_flag := unfold mp_pl_flag, mp_pl_set_flags; mpx_pl.

Lemma mpx_part_text ps pl n v : mpx_between ps pl -> mp_name_okb n = true -> mp_data_okb b v = true ->
  exists pl' q, fold_left mp_astep (mpx_seg (MpeText n v)) (mk_mp_ast B pl AmIsLast2 true) = mk_mp_ast B pl' AmIsLast2 true /\
    mpx_between (ps ++ [q]) pl' /\ mp_report q = mp_expect (MpeText n v).
Proof.
  intros (fl & bc & -> & Hns) Hn Hv.
  set (line1 := mp_s_cdhead ++ mp_quote n ++ [mp_QUOTE]).
  assert (Hseg : mpx_seg (MpeText n v) = [CR; LF] ++ line1 ++ [CR; LF] ++ [CR; LF] ++ (v ++ [CR; LF] ++ [mp_DASH; mp_DASH] ++ b)).
  { unfold mpx_seg, mpx_body, line1, mp_CRLF. rewrite <- !app_assoc. reflexivity. }
  assert (Hp1 : forallb mpx_plainb line1 = true).
  { unfold line1. apply mpx_forallb_app; [reflexivity|]. apply mpx_forallb_app; [apply mpx_name_plain; exact Hn|reflexivity]. }
  assert (Hl1 : line1 <> []) by (unfold line1; discriminate).
  pose proof (mpx_name_nonul n Hn) as Hnn.
  set (fl1 := mp_or fl c_mp_CRLF_LINE). assert (Hns1 : mpx_ns fl1) by (apply mpx_ns_or; [exact mp_neutral_crlf|exact Hns]).
  set (fl2 := mp_or fl1 c_mp_CRLF_LINE). assert (Hns2 : mpx_ns fl2) by (apply mpx_ns_or; [exact mp_neutral_crlf|exact Hns1]).
  set (fl3 := mp_or fl2 c_mp_CRLF_LINE). assert (Hns3 : mpx_ns fl3) by (apply mpx_ns_or; [exact mp_neutral_crlf|exact Hns2]).
  rewrite Hseg.
  rewrite fold_left_app, mpx_after_delim. mpx_flag. fold fl1.
  rewrite fold_left_app, mpx_plain_line; [|mpx_dup|exact Hp1]. rewrite (mpx_hd_new fl1 bc ps Hns1 line1 Hl1).
  rewrite fold_left_app, mpx_eol. mpx_flag. fold fl2.
  rewrite fold_left_app, mpx_empty_line by mpx_dup. rewrite (mpx_hd_eol_first fl2 bc ps Hns2 _ line1 Hl1). mpx_flag. fold fl3.
  destruct (mpx_data_run ps (MpText, Some n, None, None) (mk_mp_pl fl3 (S bc) ps (Some (mp_new_part MpUnknown)) MpLine None (Some line1) None) v)
    as (pl' & q & E & Hbt & Hrep).
  - mpx_dup.
  - unfold line1. rewrite (mpx_empty_text fl3 bc ps Hns3 n Hnn).
    exists fl3, bc, (mpx_text_part n), None. split; [reflexivity|]. split; [exact Hns3|]. split; [reflexivity|]. right. repeat split.
  - exact Hv.
  - exists pl', q. split; [exact E|]. split; [exact Hbt|exact Hrep].
Qed.

Lemma mpx_part_file ps pl n f d : mpx_between ps pl -> mp_name_okb n = true -> mp_name_okb f = true -> mp_data_okb b d = true ->
  exists pl' q, fold_left mp_astep (mpx_seg (MpeFile n f None d)) (mk_mp_ast B pl AmIsLast2 true) = mk_mp_ast B pl' AmIsLast2 true /\
    mpx_between (ps ++ [q]) pl' /\ mp_report q = mp_expect (MpeFile n f None d).
Proof.
  intros (fl & bc & -> & Hns) Hn Hf Hv.
  set (line1 := mp_s_cdhead ++ mp_quote n ++ mp_s_fnhead ++ mp_quote f ++ [mp_QUOTE]).
  assert (Hseg : mpx_seg (MpeFile n f None d) = [CR; LF] ++ line1 ++ [CR; LF] ++ [CR; LF] ++ (d ++ [CR; LF] ++ [mp_DASH; mp_DASH] ++ b)).
  { unfold mpx_seg, mpx_body, line1, mp_CRLF. rewrite <- !app_assoc. reflexivity. }
  assert (Hp1 : forallb mpx_plainb line1 = true).
  { unfold line1. apply mpx_forallb_app; [reflexivity|]. apply mpx_forallb_app; [apply mpx_name_plain; exact Hn|].
    apply mpx_forallb_app; [reflexivity|]. apply mpx_forallb_app; [apply mpx_name_plain; exact Hf|reflexivity]. }
  assert (Hl1 : line1 <> []) by (unfold line1; discriminate).
  pose proof (mpx_name_nonul n Hn) as Hnn. pose proof (mpx_name_nonul f Hf) as Hnf.
  set (fl1 := mp_or fl c_mp_CRLF_LINE). assert (Hns1 : mpx_ns fl1) by (apply mpx_ns_or; [exact mp_neutral_crlf|exact Hns]).
  set (fl2 := mp_or fl1 c_mp_CRLF_LINE). assert (Hns2 : mpx_ns fl2) by (apply mpx_ns_or; [exact mp_neutral_crlf|exact Hns1]).
  set (fl3 := mp_or fl2 c_mp_CRLF_LINE). assert (Hns3 : mpx_ns fl3) by (apply mpx_ns_or; [exact mp_neutral_crlf|exact Hns2]).
  rewrite Hseg.
  rewrite fold_left_app, mpx_after_delim. mpx_flag. fold fl1.
  rewrite fold_left_app, mpx_plain_line; [|mpx_dup|exact Hp1]. rewrite (mpx_hd_new fl1 bc ps Hns1 line1 Hl1).
  rewrite fold_left_app, mpx_eol. mpx_flag. fold fl2.
  rewrite fold_left_app, mpx_empty_line by mpx_dup. rewrite (mpx_hd_eol_first fl2 bc ps Hns2 _ line1 Hl1). mpx_flag. fold fl3.
  destruct (mpx_data_run ps (MpFile, Some n, Some f, None) (mk_mp_pl fl3 (S bc) ps (Some (mp_new_part MpUnknown)) MpLine None (Some line1) None) d)
    as (pl' & q & E & Hbt & Hrep).
  - mpx_dup.
  - unfold line1. rewrite (mpx_empty_file fl3 bc ps Hns3 n f Hnn Hnf).
    exists fl3, bc, (mpx_file_part n f None), None. split; [reflexivity|]. split; [exact Hns3|]. split; [reflexivity|]. left. repeat split.
  - exact Hv.
  - exists pl', q. split; [exact E|]. split; [exact Hbt|exact Hrep].
Qed.

Lemma mpx_part_file_ct ps pl n f t d : mpx_between ps pl -> mp_name_okb n = true -> mp_name_okb f = true ->
  mp_ctype_okb t = true -> mp_data_okb b d = true ->
  exists pl' q, fold_left mp_astep (mpx_seg (MpeFile n f (Some t) d)) (mk_mp_ast B pl AmIsLast2 true) = mk_mp_ast B pl' AmIsLast2 true /\
    mpx_between (ps ++ [q]) pl' /\ mp_report q = mp_expect (MpeFile n f (Some t) d).
Proof.
  intros (fl & bc & -> & Hns) Hn Hf Ht Hv.
  set (line1 := mp_s_cdhead ++ mp_quote n ++ mp_s_fnhead ++ mp_quote f ++ [mp_QUOTE]).
  set (line2 := mp_s_cthead ++ t).
  assert (Hseg : mpx_seg (MpeFile n f (Some t) d) =
                 [CR; LF] ++ line1 ++ [CR; LF] ++ line2 ++ [CR; LF] ++ [CR; LF] ++ (d ++ [CR; LF] ++ [mp_DASH; mp_DASH] ++ b)).
  { unfold mpx_seg, mpx_body, line1, line2, mp_CRLF. rewrite <- !app_assoc. reflexivity. }
  assert (Hp1 : forallb mpx_plainb line1 = true).
  { unfold line1. apply mpx_forallb_app; [reflexivity|]. apply mpx_forallb_app; [apply mpx_name_plain; exact Hn|].
    apply mpx_forallb_app; [reflexivity|]. apply mpx_forallb_app; [apply mpx_name_plain; exact Hf|reflexivity]. }
  destruct (mpx_ctype_facts t Ht) as (Htn & Htp & Htz & Htl & Htc).
  assert (Hp2 : forallb mpx_plainb line2 = true) by (unfold line2; apply mpx_forallb_app; [reflexivity|exact Htp]).
  assert (Hl1 : line1 <> []) by (unfold line1; discriminate).
  assert (Hl2 : line2 <> []) by (unfold line2; discriminate).
  pose proof (mpx_name_nonul n Hn) as Hnn. pose proof (mpx_name_nonul f Hf) as Hnf.
  set (fl1 := mp_or fl c_mp_CRLF_LINE). assert (Hns1 : mpx_ns fl1) by (apply mpx_ns_or; [exact mp_neutral_crlf|exact Hns]).
  set (fl2 := mp_or fl1 c_mp_CRLF_LINE). assert (Hns2 : mpx_ns fl2) by (apply mpx_ns_or; [exact mp_neutral_crlf|exact Hns1]).
  set (fl3 := mp_or fl2 c_mp_CRLF_LINE). assert (Hns3 : mpx_ns fl3) by (apply mpx_ns_or; [exact mp_neutral_crlf|exact Hns2]).
  set (fl4 := mp_or fl3 c_mp_CRLF_LINE). assert (Hns4 : mpx_ns fl4) by (apply mpx_ns_or; [exact mp_neutral_crlf|exact Hns3]).
  rewrite Hseg.
  rewrite fold_left_app, mpx_after_delim. mpx_flag. fold fl1.
  rewrite fold_left_app, mpx_plain_line; [|mpx_dup|exact Hp1]. rewrite (mpx_hd_new fl1 bc ps Hns1 line1 Hl1).
  rewrite fold_left_app, mpx_eol. mpx_flag. fold fl2.
  (* the Content-Type line *)
  rewrite fold_left_app.
  assert (Hrun2 : forall pl0, mp_dupb pl0 = false -> mp_dupb (mp_hd pl0 [CR; LF] true) = false ->
            fold_left mp_astep line2 (mk_mp_ast B pl0 (AmBnd [CR; LF] 2) true) =
            mk_mp_ast B (mp_hd (mp_hd pl0 [CR; LF] true) line2 false) (AmData false) true).
  { intros pl0 H1 H2. apply (mpx_line_after_bnd pl0 67%N (tl mp_s_cthead ++ t) H1 H2); [reflexivity|exact Hp2]. }
  rewrite Hrun2; [|mpx_dup|rewrite (mpx_hd_eol_first fl2 bc ps Hns2 _ line1 Hl1); mpx_dup].
  rewrite (mpx_hd_eol_first fl2 bc ps Hns2 _ line1 Hl1). rewrite (mpx_hd_piece fl2 bc ps Hns2 _ _ line2 Hl2).
  rewrite fold_left_app, mpx_eol. mpx_flag. fold fl3.
  rewrite fold_left_app, mpx_empty_line by mpx_dup.
  unfold line1 at 1, line2 at 1. rewrite (mpx_second_line fl3 bc ps Hns3 n f t Hnn Hnf). mpx_flag. fold fl4.
  destruct (mpx_data_run ps (MpFile, Some n, Some f, Some (to_lowercase t))
              (mk_mp_pl fl4 (S bc) ps (Some (mp_set_headers (mp_new_part MpUnknown) [(mpx_cdname, mpx_v_file n f)])) MpLine None (Some (mp_s_cthead ++ t)) None) d)
    as (pl' & q & E & Hbt & Hrep).
  - mpx_dup.
  - rewrite (mpx_empty_file_ct fl4 bc ps Hns4 n f t Htz Htn Htl Htc).
    exists fl4, bc, (mpx_file_part n f (Some t)), None. split; [reflexivity|]. split; [exact Hns4|]. split; [reflexivity|]. left. repeat split.
  - exact Hv.
  - exists pl', q. split; [exact E|]. split; [exact Hbt|exact Hrep].
Qed.

Lemma mpx_part_run ps pl e : mpx_between ps pl -> mp_epart_okb b e = true ->
  exists pl' q, fold_left mp_astep (mpx_seg e) (mk_mp_ast B pl AmIsLast2 true) = mk_mp_ast B pl' AmIsLast2 true /\
    mpx_between (ps ++ [q]) pl' /\ mp_report q = mp_expect e.
Proof.
  intros Hbt He. destruct e as [n v|n f [t|] d]; cbn [mp_epart_okb] in He.
  - apply andb_true_iff in He. destruct He as [H1 H2]. apply mpx_part_text; assumption.
  - repeat (apply andb_true_iff in He; destruct He as [He ?]). apply mpx_part_file_ct; assumption.
  - repeat (apply andb_true_iff in He; destruct He as [He ?]). apply mpx_part_file; assumption.
Qed.

(* ------------------------------------------------------------------ the whole body *)
Lemma mpx_encode_assoc parts T :
  concat (map (mp_encode_part b) parts) ++ [mp_DASH; mp_DASH] ++ b ++ T =
  [mp_DASH; mp_DASH] ++ b ++ concat (map mpx_seg parts) ++ T.
Proof.
  induction parts as [|e r IH]; [reflexivity|]. cbn [map concat].
  change (mp_encode_part b e) with ([mp_DASH; mp_DASH] ++ b ++ mp_CRLF ++ mpx_body e).
  unfold mpx_seg at 1. unfold mp_CRLF. rewrite <- !app_assoc. rewrite IH. reflexivity.
Qed.

Lemma mpx_parts_run parts : forall ps pl, mpx_between ps pl -> forallb (mp_epart_okb b) parts = true ->
  exists pl' qs, fold_left mp_astep (concat (map mpx_seg parts)) (mk_mp_ast B pl AmIsLast2 true) = mk_mp_ast B pl' AmIsLast2 true /\
    mpx_between (ps ++ qs) pl' /\ map mp_report qs = map mp_expect parts.
Proof.
  induction parts as [|e r IH]; intros ps pl Hbt Hok.
  - exists pl, []. rewrite app_nil_r. split; [reflexivity|split; [exact Hbt|reflexivity]].
  - cbn [forallb] in Hok. apply andb_true_iff in Hok. destruct Hok as [He Hr].
    destruct (mpx_part_run ps pl e Hbt He) as (pl1 & q & E1 & Hbt1 & Hq).
    destruct (IH (ps ++ [q]) pl1 Hbt1 Hr) as (pl2 & qs & E2 & Hbt2 & Hqs).
    exists pl2, (q :: qs). cbn [map concat]. rewrite fold_left_app, E1, E2.
    split; [reflexivity|]. split; [rewrite <- app_assoc in Hbt2; exact Hbt2|]. rewrite Hq, Hqs. reflexivity.
Qed.

Lemma mpx_ref_run parts : forallb (mp_epart_okb b) parts = true ->
  exists plF, fold_left mp_astep (mp_encode b parts) (mp_ainit b 0) = mk_mp_ast B plF (AmData false) true /\
    mpl_cur plF = None /\ map mp_report (mpl_done plF) = map mp_expect parts.
Proof.
  intros Hok. unfold mp_encode. rewrite mpx_encode_assoc.
  change (mp_ainit b 0) with (mk_mp_ast B (mk_mp_pl 0 0 [] None MpLine None None None) (AmBnd [] 2) true).
  rewrite app_assoc, fold_left_app, mpx_delim.
  assert (Hbt0 : mpx_between [] (mp_amatch (mk_mp_pl 0 0 [] None MpLine None None None))).
  { exists 0%N, 0. split; reflexivity. }
  change (true && negb (mp_openlineb (mk_mp_pl 0 0 [] None MpLine None None None))) with true.
  destruct (mpx_parts_run parts [] _ Hbt0 Hok) as (pl' & qs & E & (fl & bc & -> & Hns) & Hqs).
  rewrite fold_left_app, E.
  change ([mp_DASH; mp_DASH] ++ mp_CRLF) with [mp_DASH; mp_DASH; CR; LF]. rewrite mpx_last.
  eexists. split; [reflexivity|]. split; [reflexivity|]. exact Hqs.
Qed.
End Machine.

(* ------------------------------------------------------------------ exactness of the reference semantics *)
Theorem mp_aref_exact : forall b parts, mp_wfb b parts = true ->
  snd (mp_aref b 0 (mp_encode b parts)) = true /\
  map mp_report (mp_aparts (fst (mp_aref b 0 (mp_encode b parts)))) = map mp_expect parts.
Proof.
  intros b parts H. unfold mp_wfb in H. apply andb_true_iff in H. destruct H as [Hb Hok].
  destruct (mpx_ref_run b Hb parts Hok) as (plF & E & Hc & Hd).
  unfold mp_aref. rewrite E. unfold mp_afinal. mpx_a. rewrite Hc. cbn [fst snd]. split; [reflexivity|].
  unfold mp_aparts. rewrite Hc, app_nil_r. exact Hd.
Qed.
