(* C04, Stage C, request side: htp_connp_req_data neither reads nor writes the response side of the parser -- out_state, the out
   cursor and buffers, out_next_tx_index, the out body counters -- except that htp_connp_tx_create READS out_next_tx_index to decide
   HTP_CONN_PIPELINED and nothing ever reads the connection flags.  Stated as a commutation: every request-side function commutes
   with overwriting those fields (pq_S d fl), the flags being overwritten too (after the call they are SOME value fl').
   Consequences: (1) the request-side proofs of PSeg*.v, whose invariants fix out_next_tx_index = 0, apply to any parser state after
   erasing that field; (2) a call of htp_connp_req_data leaves every response-side field as it was (pq_req_dead). *)
Require Import Htp.Model.Base Htp.Model.MBstr Htp.Model.MConnTypes Htp.Model.MTxCommon Htp.Model.MReqLine Htp.Model.MReqUri Htp.Model.MTxReq.
Require Import Htp.Model.MReq Htp.Model.MRes Htp.Model.MConnp.

(* the fields of the parser the request side is blind to *)
Record pq_dead := mk_pq_dead {
  qd_state : res_state; qd_prev : option res_state; qd_out : cursor; qd_next : nat; qd_other : bool;
  qd_cl : Z; qd_bl : Z; qd_chl : Z; qd_dc : Z }.
Definition pq_D (c : connp) : pq_dead :=
  mk_pq_dead (c_out_state c) (c_out_state_previous c) (c_out c) (c_out_next_tx_index c) (c_out_data_other_at_tx_end c)
             (c_out_content_length c) (c_out_body_data_left c) (c_out_chunked_length c) (c_out_data_counter c).
Definition pq_S (d : pq_dead) (fl : N) (c : connp) : connp :=
  c <| c_out_state := qd_state d |> <| c_out_state_previous := qd_prev d |> <| c_out := qd_out d |> <| c_out_next_tx_index := qd_next d |>
    <| c_out_data_other_at_tx_end := qd_other d |> <| c_out_content_length := qd_cl d |> <| c_out_body_data_left := qd_bl d |>
    <| c_out_chunked_length := qd_chl d |> <| c_out_data_counter := qd_dc d |> <| c_conn_flags := fl |>.
Lemma pq_S_id c : pq_S (pq_D c) (c_conn_flags c) c = c. Proof. destruct c. reflexivity. Qed.
Lemma pq_S_S d fl d' fl' c : pq_S d fl (pq_S d' fl' c) = pq_S d fl c. Proof. reflexivity. Qed.
Lemma pq_D_S d fl c : pq_D (pq_S d fl c) = d. Proof. destruct d. reflexivity. Qed.

(* result shapes *)
Definition pq_S2 {A} (d : pq_dead) (fl : N) (r : A * connp) : A * connp := (fst r, pq_S d fl (snd r)).
Definition pq_S1 {A} (d : pq_dead) (fl : N) (r : connp * A) : connp * A := (pq_S d fl (fst r), snd r).
Definition pq_S3 (d : pq_dead) (fl : N) (r : st * connp * bytes) : st * connp * bytes := (fst (fst r), pq_S d fl (snd (fst r)), snd r).

Section Par.
Variables (d : pq_dead) (fl : N).
Notation SS := (pq_S d fl).

(* projections the request side uses *)
Lemma Sp_in c : c_in (SS c) = c_in c. Proof. reflexivity. Qed.
Lemma Sp_in_status c : c_in_status (SS c) = c_in_status c. Proof. reflexivity. Qed.
Lemma Sp_out_status c : c_out_status (SS c) = c_out_status c. Proof. reflexivity. Qed.
Lemma Sp_in_state c : c_in_state (SS c) = c_in_state c. Proof. reflexivity. Qed.
Lemma Sp_in_prev c : c_in_state_previous (SS c) = c_in_state_previous c. Proof. reflexivity. Qed.
Lemma Sp_in_tx c : c_in_tx (SS c) = c_in_tx c. Proof. reflexivity. Qed.
Lemma Sp_out_tx c : c_out_tx (SS c) = c_out_tx c. Proof. reflexivity. Qed.
Lemma Sp_txs c : c_txs (SS c) = c_txs c. Proof. reflexivity. Qed.
Lemma Sp_shift c : c_txs_shifted (SS c) = c_txs_shifted c. Proof. reflexivity. Qed.
Lemma Sp_icl c : c_in_content_length (SS c) = c_in_content_length c. Proof. reflexivity. Qed.
Lemma Sp_ibl c : c_in_body_data_left (SS c) = c_in_body_data_left c. Proof. reflexivity. Qed.
Lemma Sp_ichl c : c_in_chunked_length (SS c) = c_in_chunked_length c. Proof. reflexivity. Qed.
Lemma Sp_icc c : c_in_chunk_count (SS c) = c_in_chunk_count c. Proof. reflexivity. Qed.
Lemma Sp_icri c : c_in_chunk_request_index (SS c) = c_in_chunk_request_index c. Proof. reflexivity. Qed.
Lemma Sp_hooks c : c_hook_calls (SS c) = c_hook_calls c. Proof. reflexivity. Qed.
Lemma Sp_events c : c_events (SS c) = c_events c. Proof. reflexivity. Qed.
Lemma Sp_slot c i : tx_slot (SS c) i = tx_slot c i. Proof. reflexivity. Qed.
Lemma Sp_get c i : tx_get (SS c) i = tx_get c i. Proof. reflexivity. Qed.
Lemma Sp_in_txi c : in_txi (SS c) = in_txi c. Proof. reflexivity. Qed.
Lemma Sp_rq_tx c : rq_tx (SS c) = rq_tx c. Proof. reflexivity. Qed.
Lemma Sp_at_end c : rq_at_end (SS c) = rq_at_end c. Proof. reflexivity. Qed.
Lemma Sp_next_is c b : rq_next_is (SS c) b = rq_next_is c b. Proof. reflexivity. Qed.
Lemma Sp_hook_count c h : hook_count (SS c) h = hook_count c h. Proof. reflexivity. Qed.

(* ---- record updates of other fields commute ---- *)
Lemma Sc_set_in f c : rq_set_in f (SS c) = SS (rq_set_in f c). Proof. reflexivity. Qed.
Lemma Sc_fault c : rq_fault (SS c) = SS (rq_fault c). Proof. reflexivity. Qed.
Lemma Sc_clear c : req_clear_buffer (SS c) = SS (req_clear_buffer c). Proof. reflexivity. Qed.
Lemma Sc_emit c e : emit (SS c) e = SS (emit c e). Proof. reflexivity. Qed.
Lemma Sc_bump c h : bump_hook (SS c) h = SS (bump_hook c h). Proof. reflexivity. Qed.
Lemma Sc_tx_put c i t : tx_put (SS c) i t = SS (tx_put c i t).
Proof. unfold tx_put. rewrite Sp_shift, Sp_txs. destruct (_ <? _)%nat; [reflexivity|]. destruct (_ <? _)%nat; reflexivity. Qed.
Lemma Sc_tx_upd c i f : tx_upd (SS c) i f = SS (tx_upd c i f).
Proof. unfold tx_upd. rewrite Sp_slot. destruct (tx_slot c i); [apply Sc_tx_put|reflexivity]. Qed.
Lemma Sc_rq_tx_upd f c : rq_tx_upd f (SS c) = SS (rq_tx_upd f c).
Proof. unfold rq_tx_upd. rewrite Sp_in_tx. destruct (c_in_tx c); [apply Sc_tx_upd|reflexivity]. Qed.
Lemma Sc_destroy_incomplete c i : tx_destroy_incomplete (SS c) i = SS (tx_destroy_incomplete c i).
Proof.
  unfold tx_destroy_incomplete. rewrite Sp_shift.
  set (c1 := if (i <? c_txs_shifted c)%nat then c else c <| c_txs := upd (c_txs c) (i - c_txs_shifted c) None |>).
  assert (E1 : (if (i <? c_txs_shifted c)%nat then SS c else SS c <| c_txs := upd (c_txs (SS c)) (i - c_txs_shifted c) None |>) = SS c1)
    by (unfold c1; destruct (_ <? _)%nat; reflexivity).
  rewrite E1. clearbody c1. rewrite Sp_in_tx.
  set (c2 := match c_in_tx c1 with Some j => if (j =? i)%nat then c1 <| c_in_tx := None |> else c1 | None => c1 end).
  assert (E2 : match c_in_tx c1 with Some j => if (j =? i)%nat then SS c1 <| c_in_tx := None |> else SS c1 | None => SS c1 end = SS c2)
    by (unfold c2; destruct (c_in_tx c1) as [j|]; [destruct (j =? i)%nat|]; reflexivity).
  rewrite E2. clearbody c2. rewrite Sp_out_tx. destruct (c_out_tx c2) as [j|]; [destruct (j =? i)%nat|]; reflexivity.
Qed.
Lemma Sc_destroy c i : tx_destroy (SS c) i = SS (tx_destroy c i).
Proof. unfold tx_destroy. rewrite Sp_slot. destruct (tx_slot c i) as [t|]; [|reflexivity]. destruct (tx_is_complete t); [apply Sc_destroy_incomplete|reflexivity]. Qed.

(* ---- the byte macros ---- *)
Lemma Sc_read_byte c : rq_read_byte (SS c) = pq_S1 d fl (rq_read_byte c).
Proof. unfold rq_read_byte. rewrite Sp_in. destruct (k_data (c_in c)) as [dd|]; [|reflexivity]. destruct (nth_error dd _); reflexivity. Qed.
Lemma Sc_slice c a b : rq_slice (SS c) a b = pq_S1 d fl (rq_slice c a b).
Proof. unfold rq_slice. rewrite Sp_in. destruct (k_data (c_in c)) as [dd|]; destruct (_ <=? _)%nat; reflexivity. Qed.
Lemma Sc_peek_next c : rq_peek_next (SS c) = SS (rq_peek_next c).
Proof. unfold rq_peek_next. rewrite Sp_at_end. destruct (rq_at_end c); [reflexivity|]. rewrite Sc_read_byte. destruct (rq_read_byte c) as [c1 b]. reflexivity. Qed.
Lemma Sc_copy_byte c : rq_copy_byte (SS c) = option_map SS (rq_copy_byte c).
Proof. unfold rq_copy_byte. rewrite Sp_at_end. destruct (rq_at_end c); [reflexivity|]. rewrite Sc_read_byte. destruct (rq_read_byte c) as [c1 b]. reflexivity. Qed.
Lemma Sc_next_byte c : rq_next_byte (SS c) = option_map SS (rq_next_byte c).
Proof. unfold rq_next_byte. rewrite Sp_at_end. destruct (rq_at_end c); [reflexivity|]. rewrite Sc_read_byte. destruct (rq_read_byte c) as [c1 b]. reflexivity. Qed.
Lemma Sd_if (b : bool) x y : (if b then SS x else SS y) = SS (if b then x else y). Proof. destruct b; reflexivity. Qed.
Lemma Sd_opt {A} (o : option A) x y : match o with Some _ => SS x | None => SS y end = SS (match o with Some _ => x | None => y end). Proof. destruct o; reflexivity. Qed.
End Par.

#[export] Hint Rewrite Sp_in Sp_in_status Sp_out_status Sp_in_state Sp_in_prev Sp_in_tx Sp_out_tx Sp_txs Sp_shift Sp_icl Sp_ibl Sp_ichl Sp_icc Sp_icri
  Sp_hooks Sp_events Sp_slot Sp_get Sp_in_txi Sp_rq_tx Sp_at_end Sp_next_is Sp_hook_count
  Sc_set_in Sc_fault Sc_clear Sc_emit Sc_bump Sc_tx_put Sc_tx_upd Sc_rq_tx_upd Sc_destroy_incomplete Sc_destroy
  Sc_read_byte Sc_slice Sc_peek_next Sc_copy_byte Sc_next_byte : pqS.

Ltac par_split :=
  first [ match goal with |- context [fst ?r] => destruct r end
        | match goal with |- context [snd ?r] => destruct r end
        | match goal with |- context [match ?x with _ => _ end] => destruct x end
        | match goal with |- context [if ?x then _ else _] => destruct x end ].
Ltac par := repeat (progress (autorewrite with pqS; unfold pq_S1, pq_S2, pq_S3; cbn [fst snd option_map]) || par_split); try reflexivity.

Section Par2.
Variable cb : cb_oracle.
Variable g : cfg.
Variables (d : pq_dead) (fl : N).
Notation SS := (pq_S d fl).
Notation S2 := (pq_S2 d fl).

(* ---- hooks ---- *)
Lemma Sc_run_hook_ex h i data last snap c : run_hook_ex cb h i data last snap (SS c) = S2 (run_hook_ex cb h i data last snap c).
Proof. unfold run_hook_ex. cbv zeta. rewrite Sp_hook_count, Sc_bump, Sc_emit. destruct (cb h (hook_count c h)); try reflexivity; unfold pq_S2; cbn [fst snd]; [rewrite Sc_tx_upd|rewrite Sc_tx_upd|rewrite Sc_destroy]; reflexivity. Qed.
Lemma Sc_run_hook h i c : run_hook cb h i (SS c) = S2 (run_hook cb h i c).
Proof. apply Sc_run_hook_ex. Qed.
Lemma Sc_run_data_hook h i data last c : run_data_hook cb h i data last (SS c) = S2 (run_data_hook cb h i data last c).
Proof. apply Sc_run_hook_ex. Qed.
Lemma Sc_run_tx_hooks0 h i data last c : run_tx_hooks 0 h i data last (SS c) = SS (run_tx_hooks 0 h i data last c).
Proof. reflexivity. Qed.
Lemma Sc_run_tx_hooksS k h i data last c : run_tx_hooks (Datatypes.S k) h i data last (SS c) = run_tx_hooks k h i data last (SS (emit (bump_hook c h) (mkev h i data last None))).
Proof. reflexivity. Qed.
Lemma Sc_run_tx_hooks k h i data last : forall c, run_tx_hooks k h i data last (SS c) = SS (run_tx_hooks k h i data last c).
Proof. induction k as [|k IH]; intros c; [apply Sc_run_tx_hooks0|]. rewrite Sc_run_tx_hooksS. rewrite IH. reflexivity. Qed.
Hint Rewrite Sc_run_hook_ex Sc_run_hook Sc_run_data_hook Sc_run_tx_hooks : pqS.

Lemma Sc_req_body_hook data last c : req_run_hook_body_data cb data last (SS c) = S2 (req_run_hook_body_data cb data last c).
Proof. unfold req_run_hook_body_data. destruct data as [[|b0 dd]|]; try reflexivity; rewrite Sp_in_tx; destruct (c_in_tx c); try reflexivity; rewrite Sp_get, Sc_run_tx_hooks, Sc_run_data_hook; reflexivity. Qed.
Hint Rewrite Sc_req_body_hook : pqS.
Lemma Sc_req_body_data i data n c : tx_req_process_body_data_ex cb i data n (SS c) = S2 (tx_req_process_body_data_ex cb i data n c).
Proof. unfold tx_req_process_body_data_ex. cbv zeta. rewrite Sc_tx_upd, Sc_req_body_hook. destruct (req_run_hook_body_data cb data _ _) as [rc c1]. unfold pq_S2. cbn [fst snd]. destruct rc; reflexivity. Qed.
Hint Rewrite Sc_req_body_data : pqS.

(* ---- the raw-data receiver ---- *)
Lemma Sc_receiver_send last c : req_receiver_send_data cb last (SS c) = S2 (req_receiver_send_data cb last c).
Proof.
  unfold req_receiver_send_data. rewrite Sp_in. destruct (k_receiver_hook (c_in c)) as [h|]; [|reflexivity]. cbv zeta.
  set (c1 := if (_ <? _)%nat then c <| c_fault := true |> else c).
  assert (E1 : (if (match cur_slice (c_in c) (k_receiver (c_in c)) (k_read (c_in c)) with Some dd => length dd | None => 0%nat end <? k_read (c_in c) - k_receiver (c_in c))%nat
                then SS c <| c_fault := true |> else SS c) = SS c1) by (unfold c1; destruct (_ <? _)%nat; reflexivity).
  rewrite E1. clearbody c1. rewrite Sp_in_txi, Sc_run_data_hook. destruct (run_data_hook cb h (in_txi c1) _ last c1) as [rc c2]. unfold pq_S2. cbn [fst snd]. destruct rc; reflexivity.
Qed.
Hint Rewrite Sc_receiver_send : pqS.
Lemma Sc_receiver_clear c : req_receiver_finalize_clear cb (SS c) = S2 (req_receiver_finalize_clear cb c).
Proof. unfold req_receiver_finalize_clear. rewrite Sp_in. destruct (k_receiver_hook (c_in c)); [|reflexivity]. rewrite Sc_receiver_send. destruct (req_receiver_send_data cb true c). reflexivity. Qed.
Hint Rewrite Sc_receiver_clear : pqS.
Lemma Sc_receiver_set h c : req_receiver_set cb h (SS c) = S2 (req_receiver_set cb h c).
Proof. unfold req_receiver_set. rewrite Sc_receiver_clear. destruct (req_receiver_finalize_clear cb c). reflexivity. Qed.
Hint Rewrite Sc_receiver_set : pqS.

(* ---- buffering ---- *)
Lemma Sc_req_buffer c : req_buffer g (SS c) = S2 (req_buffer g c).
Proof.
  unfold req_buffer. rewrite Sp_in. destruct (k_data (c_in c)); [|reflexivity]. cbv zeta.
  rewrite Sc_fault, Sd_if. set (c0 := if (k_read (c_in c) <? k_consume (c_in c))%nat then rq_fault c else c). clearbody c0.
  destruct (_ =? 0)%nat; [reflexivity|].
  unfold rq_buf_size, rq_header_len. rewrite !Sp_in, Sp_in_tx, Sc_fault, Sd_opt.
  set (c1 := match c_in_tx c0 with Some _ => c0 | None => rq_fault c0 end). clearbody c1.
  destruct (_ <? _)%nat; [reflexivity|]. rewrite !Sp_in, Sc_slice. destruct (rq_slice c1 _ _) as [c2 piece]. reflexivity.
Qed.
Hint Rewrite Sc_req_buffer : pqS.
Lemma Sc_consolidate c : req_consolidate_data g (SS c) = pq_S3 d fl (req_consolidate_data g c).
Proof.
  unfold req_consolidate_data. rewrite Sp_in. destruct (k_buf (c_in c)).
  - rewrite Sc_req_buffer. destruct (req_buffer g c) as [rc c1]. unfold pq_S2. cbn [fst snd]. destruct rc; reflexivity.
  - rewrite Sc_slice. destruct (rq_slice c _ _). reflexivity.
Qed.
Hint Rewrite Sc_consolidate : pqS.
Lemma Sc_state_change c : req_handle_state_change cb (SS c) = S2 (req_handle_state_change cb c).
Proof.
  unfold req_handle_state_change. rewrite Sp_in_prev, !Sp_in_state. destruct (match c_in_state_previous c with Some s => _ | None => false end); [reflexivity|].
  destruct (req_state_eqb (c_in_state c) REQ_HEADERS); [|reflexivity]. rewrite Sp_in_tx.
  set (c0 := match c_in_tx c with Some _ => c | None => rq_fault c end).
  assert (E0 : match c_in_tx c with Some _ => SS c | None => rq_fault (SS c) end = SS c0) by (unfold c0; destruct (c_in_tx c); reflexivity).
  rewrite E0. clearbody c0. cbv zeta. rewrite Sp_rq_tx.
  destruct (_ =? c_HTP_REQUEST_HEADERS)%Z; [rewrite Sc_receiver_set; destruct (req_receiver_set cb _ c0) as [rc c1]; unfold pq_S2; cbn [fst snd]; destruct rc; reflexivity|].
  destruct (_ =? c_HTP_REQUEST_TRAILER)%Z; [rewrite Sc_receiver_set; destruct (req_receiver_set cb _ c0) as [rc c1]; unfold pq_S2; cbn [fst snd]; destruct rc; reflexivity|reflexivity].
Qed.
Lemma Sc_process_header line c : rq_process_header line (SS c) = SS (rq_process_header line c). Proof. apply Sc_rq_tx_upd. Qed.
Lemma Sc_flush_header c : rq_flush_header (SS c) = SS (rq_flush_header c).
Proof. unfold rq_flush_header. rewrite Sp_in. destruct (k_header (c_in c)); [rewrite Sc_process_header; reflexivity|reflexivity]. Qed.
Hint Rewrite Sc_process_header Sc_flush_header : pqS.
Lemma Sc_with_tx (f : nat -> connp -> st * connp) c : (forall i x, f i (SS x) = S2 (f i x)) -> rq_with_tx f (SS c) = S2 (rq_with_tx f c).
Proof. intros Hf. unfold rq_with_tx. rewrite Sp_in_tx. destruct (c_in_tx c); [apply Hf|reflexivity]. Qed.

(* ---- transaction state functions ---- *)
Tactic Notation "s2" constr(r) "as" ident(a) ident(b) := destruct r as [a b]; unfold pq_S2; cbn [fst snd].
Lemma Sc_finalize i c : tx_finalize cb g i (SS c) = S2 (tx_finalize cb g i c).
Proof.
  unfold tx_finalize. rewrite Sp_slot. destruct (tx_slot c i) as [t|]; [|reflexivity]. destruct (negb _); [reflexivity|].
  rewrite Sc_run_hook_ex. s2 (run_hook_ex cb H_TRANSACTION_COMPLETE i None false (Some t) c) as rc c1. destruct rc; try reflexivity.
  rewrite Sp_slot. destruct (tx_slot c1 i); [|reflexivity]. destruct (g_tx_auto_destroy g); [rewrite Sc_destroy|]; reflexivity.
Qed.
Lemma Sc_complete_partial i c : tx_state_request_complete_partial cb i (SS c) = S2 (tx_state_request_complete_partial cb i c).
Proof.
  unfold tx_state_request_complete_partial. rewrite Sp_get.
  assert (E : (if tx_req_has_body (tx_get c i) then tx_req_process_body_data_ex cb i None 0 (SS c) else (ST_OK, SS c)) =
              S2 (if tx_req_has_body (tx_get c i) then tx_req_process_body_data_ex cb i None 0 c else (ST_OK, c)))
    by (destruct (tx_req_has_body _); [apply Sc_req_body_data|reflexivity]).
  rewrite E. s2 (if tx_req_has_body (tx_get c i) then tx_req_process_body_data_ex cb i None 0 c else (ST_OK, c)) as rc c1.
  destruct rc; try reflexivity. rewrite Sc_tx_upd, Sc_run_hook. s2 (run_hook cb H_REQUEST_COMPLETE i (tx_upd c1 i (fun t => t <| t_request_progress := c_HTP_REQUEST_COMPLETE |>))) as rc0 c3.
  destruct rc0; try reflexivity. apply Sc_receiver_clear.
Qed.
Lemma Sc_request_complete i c : tx_state_request_complete cb g i (SS c) = S2 (tx_state_request_complete cb g i c).
Proof.
  unfold tx_state_request_complete. rewrite Sp_slot. destruct (tx_slot c i) as [t0|]; [|reflexivity].
  assert (E : (if negb (t_request_progress t0 =? c_HTP_REQUEST_COMPLETE)%Z then tx_state_request_complete_partial cb i (SS c) else (ST_OK, SS c)) =
              S2 (if negb (t_request_progress t0 =? c_HTP_REQUEST_COMPLETE)%Z then tx_state_request_complete_partial cb i c else (ST_OK, c)))
    by (destruct (negb _); [apply Sc_complete_partial|reflexivity]).
  rewrite E. s2 (if negb (t_request_progress t0 =? c_HTP_REQUEST_COMPLETE)%Z then tx_state_request_complete_partial cb i c else (ST_OK, c)) as rc c1.
  destruct rc; try reflexivity. rewrite Sp_slot.
  set (c2 := match tx_slot c1 i with None => c1 <| c_fault := true |> | Some t => c1 <| c_in_state := if t_is_protocol_0_9 t then REQ_IGNORE_DATA_AFTER_HTTP_0_9 else REQ_IDLE |> end).
  assert (E2 : match tx_slot c1 i with None => SS c1 <| c_fault := true |> | Some t => SS c1 <| c_in_state := if t_is_protocol_0_9 t then REQ_IGNORE_DATA_AFTER_HTTP_0_9 else REQ_IDLE |> end = SS c2)
    by (unfold c2; destruct (tx_slot c1 i); reflexivity).
  rewrite E2. clearbody c2. rewrite Sc_finalize. s2 (tx_finalize cb g i c2) as rcf cf. reflexivity.
Qed.
Lemma Sc_rq_request_complete c : rq_request_complete cb g (SS c) = S2 (rq_request_complete cb g c).
Proof. apply Sc_with_tx. intros i x. apply Sc_request_complete. Qed.
Lemma Sc_request_start i c : tx_state_request_start cb i (SS c) = S2 (tx_state_request_start cb i c).
Proof.
  unfold tx_state_request_start. rewrite Sc_run_hook. s2 (run_hook cb H_REQUEST_START i c) as rc c1. destruct rc; try reflexivity.
  cbn [fst snd]. set (c2 := c1 <| c_in_state := REQ_LINE |>). change (SS c1 <| c_in_state := REQ_LINE |>) with (SS c2). rewrite Sp_in_tx.
  destruct (c_in_tx c2) as [j|]; [rewrite Sc_tx_upd|]; reflexivity.
Qed.
Lemma Sc_request_line i c : tx_state_request_line cb g i (SS c) = S2 (tx_state_request_line cb g i c).
Proof.
  unfold tx_state_request_line. cbv zeta. rewrite Sp_get. destruct (rq_uri_pipeline_opt g _ _ _) as [t'|]; [|reflexivity].
  rewrite Sc_tx_put, Sc_run_hook. s2 (run_hook cb H_REQUEST_URI_NORMALIZE i (tx_put c i t')) as rc c1. destruct rc; try reflexivity.
  rewrite Sc_run_hook. s2 (run_hook cb H_REQUEST_LINE i c1) as rc2 c2. destruct rc2; reflexivity.
Qed.
Lemma Sc_process_request_headers i c : tx_process_request_headers cb i (SS c) = S2 (tx_process_request_headers cb i c).
Proof.
  unfold tx_process_request_headers. cbv zeta. rewrite Sp_get. destruct (match t_parsed_uri _ with Some nu => _ | None => _ end) as [t fault].
  rewrite Sc_tx_put.
  set (c0 := if fault then tx_put c i (rq_content_type t) <| c_fault := true |> else tx_put c i (rq_content_type t)).
  assert (E0 : (if fault then SS (tx_put c i (rq_content_type t)) <| c_fault := true |> else SS (tx_put c i (rq_content_type t))) = SS c0) by (unfold c0; destruct fault; reflexivity).
  rewrite E0. clearbody c0. rewrite Sc_receiver_clear. s2 (req_receiver_finalize_clear cb c0) as rc c1. destruct rc; try reflexivity. apply Sc_run_hook.
Qed.
Lemma Sc_request_headers i c : tx_state_request_headers cb i (SS c) = S2 (tx_state_request_headers cb i c).
Proof.
  unfold tx_state_request_headers. cbv zeta. rewrite Sp_get. destruct (_ <? _)%Z.
  - rewrite Sc_run_hook. s2 (run_hook cb H_REQUEST_TRAILER i c) as rc c1. destruct rc; try reflexivity.
    rewrite Sc_receiver_clear. s2 (req_receiver_finalize_clear cb c1) as rc2 c2. destruct rc2; reflexivity.
  - destruct (_ <=? _)%Z; [|reflexivity]. rewrite Sp_icc, Sp_icri, Sc_tx_upd, Sd_if.
    set (c0 := if negb (c_in_chunk_count c =? c_in_chunk_request_index c)%nat then tx_upd c i (tx_set_flag c_HTP_MULTI_PACKET_HEAD) else c). clearbody c0.
    rewrite Sc_process_request_headers. s2 (tx_process_request_headers cb i c0) as rc c1. destruct rc; reflexivity.
Qed.

(* ---- the states (all but REQ_IDLE, which creates a transaction) ---- *)
Lemma Sc_LINE_complete c : REQ_LINE_complete cb g (SS c) = S2 (REQ_LINE_complete cb g c).
Proof.
  unfold REQ_LINE_complete. rewrite Sc_consolidate. destruct (req_consolidate_data g c) as [[rc c1] data]. unfold pq_S3. cbn [fst snd].
  destruct rc; try reflexivity. destruct data as [|b0 data]; [reflexivity|]. destruct (htp_is_line_ignorable _ _); [rewrite Sc_rq_tx_upd; reflexivity|]. cbv zeta.
  rewrite Sc_rq_tx_upd, (Sc_with_tx _ _ Sc_request_line). s2 (rq_with_tx (tx_state_request_line cb g) (rq_tx_upd (fun t => htp_parse_request_line g (t <| t_request_line := Some (htp_chomp (b0 :: data)) |>)) c1)) as rc2 c2.
  destruct rc2; reflexivity.
Qed.
Lemma Sc_LINE_loop : forall n c, REQ_LINE_loop cb g n (SS c) = S2 (REQ_LINE_loop cb g n c).
Proof.
  induction n as [|n IH]; intros c; cbn [REQ_LINE_loop]; cbv zeta; rewrite Sc_peek_next, Sp_in_status, Sp_in.
  all: destruct (_ && _); [apply Sc_LINE_complete|]; rewrite Sc_copy_byte; destruct (rq_copy_byte (rq_peek_next c)) as [c1|]; [|reflexivity]; cbn [option_map]; rewrite Sp_next_is.
  all: destruct (rq_next_is c1 LF); [apply Sc_LINE_complete|].
  - reflexivity.
  - apply IH.
Qed.
Lemma Sc_to_headers c : rq_to_headers (SS c) = SS (rq_to_headers c).
Proof. unfold rq_to_headers. change (SS c <| c_in_state := REQ_HEADERS |>) with (SS (c <| c_in_state := REQ_HEADERS |>)). apply Sc_rq_tx_upd. Qed.
Lemma Sc_PROTOCOL c : REQ_PROTOCOL_fn (SS c) = S2 (REQ_PROTOCOL_fn c).
Proof.
  unfold REQ_PROTOCOL_fn. rewrite Sp_rq_tx. destruct (negb _); [rewrite Sc_to_headers; reflexivity|]. cbv zeta. rewrite !Sp_in.
  destruct (_ <? _)%nat; [rewrite Sc_rq_tx_upd, Sc_to_headers; reflexivity|].
  rewrite Sc_slice. destruct (rq_slice c _ _) as [c1 rest]. unfold pq_S1. cbn [fst snd]. destruct (forallb _ _); [reflexivity|]. rewrite Sc_rq_tx_upd, Sc_to_headers. reflexivity.
Qed.

(* ---- REQ_HEADERS ---- *)
Lemma Sc_header_line c : rq_header_line cb g (SS c) = (option_map S2 (fst (rq_header_line cb g c)), SS (snd (rq_header_line cb g c))).
Proof.
  unfold rq_header_line. rewrite Sc_consolidate. destruct (req_consolidate_data g c) as [[rc c1] data]. unfold pq_S3. cbn [fst snd].
  destruct rc; try reflexivity. destruct (htp_is_line_terminator _ _ _).
  - cbv zeta. rewrite Sc_flush_header, Sc_clear, (Sc_with_tx _ _ Sc_request_headers). reflexivity.
  - cbv zeta. cbn [fst snd option_map]. f_equal. destruct (_ =? 0)%Z.
    + rewrite Sc_flush_header, Sc_peek_next, Sp_in. destruct (k_next_byte (c_in (rq_peek_next (rq_flush_header c1)))) as [b|]; [destruct (negb _)|]; rewrite ?Sc_process_header, ?Sc_set_in, Sc_clear; reflexivity.
    + rewrite Sp_in. destruct (k_header (c_in c1)); [destruct (_ <? _)%Z|]; rewrite ?Sc_rq_tx_upd, ?Sc_set_in, Sc_clear; reflexivity.
Qed.
Lemma Sc_HEADERS_loop : forall n c, REQ_HEADERS_loop cb g n (SS c) = S2 (REQ_HEADERS_loop cb g n c).
Proof.
  induction n as [|n IH]; intros c; cbn [REQ_HEADERS_loop]; rewrite Sp_in_status.
  all: destruct (_ =? c_HTP_STREAM_CLOSED)%Z; [cbv zeta; rewrite Sc_flush_header, Sc_clear, Sc_rq_tx_upd; apply (Sc_with_tx _ _ Sc_request_headers)|].
  all: rewrite Sc_copy_byte; destruct (rq_copy_byte c) as [c1|]; [|reflexivity]; cbn [option_map]; rewrite Sp_next_is.
  all: destruct (rq_next_is c1 LF).
  - rewrite Sc_header_line. destruct (rq_header_line cb g c1) as [[r|] c2]; cbn [fst snd option_map]; reflexivity.
  - reflexivity.
  - rewrite Sc_header_line. destruct (rq_header_line cb g c1) as [[r|] c2]; cbn [fst snd option_map]; [reflexivity|apply IH].
  - apply IH.
Qed.

(* ---- the small states ---- *)
Lemma Sc_CONNECT_CHECK c : REQ_CONNECT_CHECK_fn (SS c) = S2 (REQ_CONNECT_CHECK_fn c).
Proof. unfold REQ_CONNECT_CHECK_fn. rewrite Sp_rq_tx. destruct (_ =? _)%Z; reflexivity. Qed.
Lemma Sc_WAIT_RESPONSE c : REQ_CONNECT_WAIT_RESPONSE_fn (SS c) = S2 (REQ_CONNECT_WAIT_RESPONSE_fn c).
Proof. unfold REQ_CONNECT_WAIT_RESPONSE_fn. cbv zeta. rewrite Sp_rq_tx. destruct (_ <=? _)%Z; [reflexivity|]. destruct (_ && _); reflexivity. Qed.
Lemma Sc_BODY_DETERMINE c : REQ_BODY_DETERMINE_fn (SS c) = S2 (REQ_BODY_DETERMINE_fn c).
Proof.
  unfold REQ_BODY_DETERMINE_fn. cbv zeta. rewrite Sp_rq_tx.
  destruct (_ =? c_HTP_CODING_CHUNKED)%Z.
  - change (SS c <| c_in_state := REQ_BODY_CHUNKED_LENGTH |>) with (SS (c <| c_in_state := REQ_BODY_CHUNKED_LENGTH |>)). rewrite Sc_rq_tx_upd. reflexivity.
  - destruct (_ =? c_HTP_CODING_IDENTITY)%Z.
    + cbn [c_in_content_length set]. cbn. destruct (negb _); [|reflexivity].
      match goal with |- (_, rq_tx_upd ?f ?x) = _ => match goal with |- _ = S2 (_, rq_tx_upd _ ?y) => change x with (SS y) end end.
      rewrite Sc_rq_tx_upd. reflexivity.
    + destruct (_ =? c_HTP_CODING_NO_BODY)%Z; reflexivity.
Qed.
Lemma Sc_peek_copy_until stop : forall n c, rq_peek_copy_until stop n (SS c) = S2 (rq_peek_copy_until stop n c).
Proof.
  induction n as [|n IH]; intros c; cbn [rq_peek_copy_until]; cbv zeta; rewrite Sc_peek_next, Sp_in.
  all: destruct (match k_next_byte (c_in (rq_peek_next c)) with Some b => stop b | None => false end); [reflexivity|].
  all: rewrite Sc_copy_byte; destruct (rq_copy_byte (rq_peek_next c)) as [c1|]; [|reflexivity]; cbn [option_map].
  - reflexivity.
  - apply IH.
Qed.
Lemma Sc_PROBE c : REQ_CONNECT_PROBE_DATA_fn cb g (SS c) = S2 (REQ_CONNECT_PROBE_DATA_fn cb g c).
Proof.
  unfold REQ_CONNECT_PROBE_DATA_fn. rewrite !Sp_in, Sc_peek_copy_until. s2 (rq_peek_copy_until (fun b => (b =? LF)%N || (b =? 0)%N) (k_len (c_in c) - k_read (c_in c)) c) as b c1.
  destruct b; [|reflexivity]. rewrite Sc_consolidate. destruct (req_consolidate_data g c1) as [[rc c2] data]. unfold pq_S3. cbn [fst snd].
  destruct rc; try reflexivity. destruct (rq_probe_method data) as [mstart pos]. destruct (negb _); [apply Sc_rq_request_complete|reflexivity].
Qed.

(* ---- bodies ---- *)
Lemma Sc_consume_body n c : rq_consume_body cb n (SS c) = S2 (rq_consume_body cb n c).
Proof.
  unfold rq_consume_body. cbv zeta. rewrite !Sp_in.
  set (r := match k_data (c_in c) with
            | Some _ => let '(c0, dd) := rq_slice c (k_read (c_in c)) (k_read (c_in c) + n) in (c0, Some dd)
            | None => (if (k_read (c_in c) =? 0)%nat then c else rq_fault c, None)
            end).
  assert (E : (match k_data (c_in c) with
               | Some _ => let '(c0, dd) := rq_slice (SS c) (k_read (c_in c)) (k_read (c_in c) + n) in (c0, Some dd)
               | None => (if (k_read (c_in c) =? 0)%nat then SS c else rq_fault (SS c), None)
               end) = pq_S1 d fl r).
  { unfold r. destruct (k_data (c_in c)); [rewrite Sc_slice; destruct (rq_slice c _ _); reflexivity|]. destruct (_ =? 0)%nat; reflexivity. }
  rewrite E. clearbody r. destruct r as [c1 data]. unfold pq_S1. cbn [fst snd].
  rewrite (Sc_with_tx (fun i => tx_req_process_body_data_ex cb i data n) c1 (fun i x => Sc_req_body_data i data n x)).
  s2 (rq_with_tx (fun i => tx_req_process_body_data_ex cb i data n) c1) as rc c2. destruct rc; try reflexivity. rewrite Sc_set_in, Sc_rq_tx_upd. reflexivity.
Qed.
Lemma Sc_BODY_IDENTITY c : REQ_BODY_IDENTITY_fn cb (SS c) = S2 (REQ_BODY_IDENTITY_fn cb c).
Proof.
  unfold REQ_BODY_IDENTITY_fn. cbv zeta. unfold rq_bytes_to_consume. rewrite !Sp_in, Sp_ibl. destruct (_ =? 0)%nat; [reflexivity|].
  rewrite Sc_consume_body. s2 (rq_consume_body cb (if (c_in_body_data_left c <? 0)%Z || (Z.of_nat (k_len (c_in c) - k_read (c_in c)) <? c_in_body_data_left c)%Z
                                then (k_len (c_in c) - k_read (c_in c))%nat else Z.to_nat (c_in_body_data_left c)) c) as rc c1.
  destruct rc; try reflexivity. cbn [c_in_body_data_left set]. cbn. destruct (_ =? 0)%Z; reflexivity.
Qed.
Lemma Sc_CHUNKED_DATA c : REQ_BODY_CHUNKED_DATA_fn cb (SS c) = S2 (REQ_BODY_CHUNKED_DATA_fn cb c).
Proof.
  unfold REQ_BODY_CHUNKED_DATA_fn. cbv zeta. unfold rq_bytes_to_consume. rewrite !Sp_in, Sp_ichl. destruct (_ =? 0)%nat; [reflexivity|].
  rewrite Sc_consume_body. s2 (rq_consume_body cb (if (c_in_chunked_length c <? 0)%Z || (Z.of_nat (k_len (c_in c) - k_read (c_in c)) <? c_in_chunked_length c)%Z
                                then (k_len (c_in c) - k_read (c_in c))%nat else Z.to_nat (c_in_chunked_length c)) c) as rc c1.
  destruct rc; try reflexivity. cbn [c_in_chunked_length set]. cbn. destruct (_ =? 0)%Z; reflexivity.
Qed.
Lemma Sc_CHUNKED_DATA_END_loop : forall n c, REQ_BODY_CHUNKED_DATA_END_loop n (SS c) = S2 (REQ_BODY_CHUNKED_DATA_END_loop n c).
Proof.
  induction n as [|n IH]; intros c; cbn [REQ_BODY_CHUNKED_DATA_END_loop]; rewrite Sc_next_byte; destruct (rq_next_byte c) as [c1|]; [|reflexivity| |reflexivity]; cbn [option_map]; cbv zeta.
  all: rewrite Sc_rq_tx_upd, Sp_next_is; destruct (rq_next_is _ LF); [reflexivity|].
  - reflexivity.
  - apply IH.
Qed.
Lemma Sc_CHUNKED_LENGTH_loop : forall n c, REQ_BODY_CHUNKED_LENGTH_loop g n (SS c) = S2 (REQ_BODY_CHUNKED_LENGTH_loop g n c).
Proof.
  induction n as [|n IH]; intros c; cbn [REQ_BODY_CHUNKED_LENGTH_loop]; rewrite Sc_copy_byte; destruct (rq_copy_byte c) as [c1|]; [|reflexivity| |reflexivity]; cbn [option_map]; rewrite Sp_next_is.
  all: destruct (rq_next_is c1 LF); [|reflexivity || apply IH].
  all: rewrite Sc_consolidate; destruct (req_consolidate_data g c1) as [[rc c2] data]; unfold pq_S3; cbn [fst snd]; destruct rc; try reflexivity; cbv zeta.
  all: rewrite Sc_rq_tx_upd; destruct (parse_chunked_length (htp_chomp data)) as [v u]; destruct (0 <? v)%Z; [reflexivity|]; destruct (v =? 0)%Z; [|reflexivity].
  all: match goal with |- (_, rq_tx_upd ?f ?x) = _ => match goal with |- _ = S2 (_, rq_tx_upd _ ?y) => change x with (SS y) end end; rewrite Sc_rq_tx_upd; reflexivity.
Qed.

(* ---- REQ_FINALIZE ---- *)
Definition pq_Sfs (r : rq_fin_scan) : rq_fin_scan :=
  match r with RF_complete c => RF_complete (SS c) | RF_buffer c => RF_buffer (SS c) | RF_probe c => RF_probe (SS c) end.
Lemma Sc_finalize_scan c : rq_finalize_scan (SS c) = pq_Sfs (rq_finalize_scan c).
Proof.
  unfold rq_finalize_scan. rewrite Sp_in_status. destruct (_ =? c_HTP_STREAM_CLOSED)%Z; [reflexivity|]. cbv zeta.
  rewrite Sc_peek_next, !Sp_in. destruct (k_next_byte (c_in (rq_peek_next c))) as [b|]; [|reflexivity].
  destruct (_ || _); [|reflexivity]. rewrite Sc_peek_copy_until.
  destruct (rq_peek_copy_until (fun b0 => (b0 =? LF)%N) (k_len (c_in (rq_peek_next c)) - k_read (c_in (rq_peek_next c))) (rq_peek_next c)) as [[|] c1]; reflexivity.
Qed.
Lemma Sc_FINALIZE c : REQ_FINALIZE_fn cb g (SS c) = S2 (REQ_FINALIZE_fn cb g c).
Proof.
  unfold REQ_FINALIZE_fn. rewrite Sc_finalize_scan. destruct (rq_finalize_scan c) as [c1|c1|c1]; cbn [pq_Sfs].
  - apply Sc_rq_request_complete.
  - reflexivity.
  - rewrite Sc_consolidate. destruct (req_consolidate_data g c1) as [[rc c2] data]. unfold pq_S3. cbn [fst snd].
    destruct rc; try reflexivity. destruct data as [|b0 data0]; [apply Sc_rq_request_complete|].
    destruct (rq_probe_method (b0 :: data0)) as [mstart pos]. cbv zeta.
    destruct (_ && negb _).
    + change (SS c2 <| c_in_body_data_left := (-1)%Z |>) with (SS (c2 <| c_in_body_data_left := (-1)%Z |>)). apply Sc_rq_request_complete.
    + rewrite Sp_ibl. change (SS c2 <| c_in_body_data_left := 1%Z |>) with (SS (c2 <| c_in_body_data_left := 1%Z |>)). rewrite Sd_if.
      set (c3 := if (mstart <? pos)%nat && (0 <? c_in_body_data_left c2)%Z then c2 <| c_in_body_data_left := 1%Z |> else c2). clearbody c3.
      assert (X : forall c5 dd, (let '(rc, c0) := rq_with_tx (fun i => tx_req_process_body_data_ex cb i (Some dd) 0) (SS c5) in (rc, req_clear_buffer c0)) =
                                S2 (let '(rc, c0) := rq_with_tx (fun i => tx_req_process_body_data_ex cb i (Some dd) 0) c5 in (rc, req_clear_buffer c0))).
      { intros c5 dd. rewrite (Sc_with_tx (fun i => tx_req_process_body_data_ex cb i (Some dd) 0) c5 (fun i x => Sc_req_body_data i (Some dd) 0 x)).
        destruct (rq_with_tx _ c5) as [r6 c6]. reflexivity. }
      rewrite Sp_next_is. destruct (rq_next_is c3 LF).
      * rewrite Sc_copy_byte. destruct (rq_copy_byte c3) as [c4|]; cbn [option_map]; [|reflexivity].
        rewrite Sc_consolidate. destruct (req_consolidate_data g c4) as [[r5 c5] d5]. unfold pq_S3. cbn [fst snd].
        destruct r5; apply X.
      * apply X.
Qed.
(* the tail of a pass *)
Lemma Sc_exit rc c : rq_exit cb g rc (SS c) = pq_S1 d fl (rq_exit cb g rc c).
Proof.
  unfold rq_exit. destruct rc; try reflexivity.
  - rewrite Sc_receiver_send. destruct (req_receiver_send_data cb false c) as [r1 c1]. reflexivity.
  - rewrite Sp_at_end. destruct (rq_at_end c); reflexivity.
  - rewrite Sc_receiver_send. destruct (req_receiver_send_data cb false c) as [r1 c1]. unfold pq_S2. cbn [fst snd].
    rewrite Sc_req_buffer. destruct (req_buffer g c1) as [r2 c2]. unfold pq_S2. cbn [fst snd]. destruct r2; reflexivity.
Qed.
End Par2.

(* ================= the functions that may change the connection flags: REQ_IDLE (htp_connp_tx_create) and REQ_IGNORE_DATA_AFTER_HTTP_0_9 ================= *)
Section Par3.
Variable cb : cb_oracle.
Variable g : cfg.

Lemma pq_tx_create_eq c : connp_tx_create g c =
  let n := length (c_txs c) in
  let fl1 := if (c_out_next_tx_index c <? n)%nat then flag_set (c_conn_flags c) c_HTP_CONN_PIPELINED else c_conn_flags c in
  if ((0 <? g_max_tx g) && (g_max_tx g <? n))%nat then (None, c <| c_conn_flags := fl1 |>)
  else (Some (c_txs_shifted c + n)%nat,
        c <| c_conn_flags := fl1 |> <| c_txs := c_txs c ++ [Some (tx_new (c_txs_shifted c + n) n)] |> <| c_in_tx := Some (c_txs_shifted c + n)%nat |>
          <| c_in_content_length := (-1)%Z |> <| c_in_body_data_left := (-1)%Z |> <| c_in_chunk_request_index := c_in_chunk_count c |>).
Proof. unfold connp_tx_create. cbv zeta. destruct (c_out_next_tx_index c <? length (c_txs c))%nat; destruct ((0 <? g_max_tx g) && (g_max_tx g <? length (c_txs c)))%nat; destruct c; reflexivity. Qed.
Lemma Sx_tx_create d fl c : exists fl', connp_tx_create g (pq_S d fl c) = pq_S2 d fl' (connp_tx_create g c).
Proof.
  rewrite !pq_tx_create_eq. cbv zeta. rewrite Sp_txs, Sp_shift, Sp_icc.
  change (c_out_next_tx_index (pq_S d fl c)) with (qd_next d). change (c_conn_flags (pq_S d fl c)) with fl.
  exists (if (qd_next d <? length (c_txs c))%nat then flag_set fl c_HTP_CONN_PIPELINED else fl).
  destruct ((0 <? g_max_tx g) && (g_max_tx g <? length (c_txs c)))%nat; reflexivity.
Qed.
Lemma Sx_IDLE d fl c : exists fl', REQ_IDLE_fn cb g (pq_S d fl c) = pq_S2 d fl' (REQ_IDLE_fn cb g c).
Proof.
  unfold REQ_IDLE_fn. rewrite Sp_at_end. destruct (rq_at_end c); [exists fl; reflexivity|].
  destruct (Sx_tx_create d fl c) as (fl' & E). rewrite E. destruct (connp_tx_create g c) as [[i|] c1]; unfold pq_S2; cbn [fst snd].
  - exists fl'. apply Sc_request_start.
  - exists fl'. reflexivity.
Qed.
Lemma Sx_IGNORE d fl c : exists fl', REQ_IGNORE_DATA_AFTER_HTTP_0_9_fn (pq_S d fl c) = pq_S2 d fl' (REQ_IGNORE_DATA_AFTER_HTTP_0_9_fn c).
Proof.
  unfold REQ_IGNORE_DATA_AFTER_HTTP_0_9_fn. cbv zeta. rewrite !Sp_in.
  exists (if (0 <? k_len (c_in c) - k_read (c_in c))%nat then flag_set fl c_HTP_CONN_HTTP_0_9_EXTRA else fl).
  destruct (0 <? _)%nat; reflexivity.
Qed.
Lemma Sx_state_fn d fl c : exists fl', rq_state_fn cb g (c_in_state c) (pq_S d fl c) = pq_S2 d fl' (rq_state_fn cb g (c_in_state c) c).
Proof.
  destruct (c_in_state c); cbn [rq_state_fn].
  - apply Sx_IDLE.
  - exists fl. unfold REQ_LINE_fn. rewrite !Sp_in. apply Sc_LINE_loop.
  - exists fl. apply Sc_PROTOCOL.
  - exists fl. unfold REQ_HEADERS_fn. rewrite !Sp_in. apply Sc_HEADERS_loop.
  - exists fl. apply Sc_CONNECT_CHECK.
  - exists fl. apply Sc_WAIT_RESPONSE.
  - exists fl. apply Sc_PROBE.
  - exists fl. apply Sc_BODY_DETERMINE.
  - exists fl. apply Sc_BODY_IDENTITY.
  - exists fl. unfold REQ_BODY_CHUNKED_LENGTH_fn. rewrite !Sp_in. apply Sc_CHUNKED_LENGTH_loop.
  - exists fl. apply Sc_CHUNKED_DATA.
  - exists fl. unfold REQ_BODY_CHUNKED_DATA_END_fn. rewrite !Sp_in. apply Sc_CHUNKED_DATA_END_loop.
  - exists fl. apply Sc_FINALIZE.
  - apply Sx_IGNORE.
Qed.
(* one pass of the loop *)
Definition pq_Sit (d : pq_dead) (fl : N) (r : (connp * Z) + connp) : (connp * Z) + connp :=
  match r with inl x => inl (pq_S d fl (fst x), snd x) | inr c => inr (pq_S d fl c) end.
Lemma Sx_iter d fl c : exists fl', rq_iter cb g false (pq_S d fl c) = pq_Sit d fl' (rq_iter cb g false c).
Proof.
  unfold rq_iter. cbv zeta. rewrite Sp_in_state. destruct (Sx_state_fn d fl c) as (fl' & E). rewrite E. exists fl'.
  destruct (rq_state_fn cb g (c_in_state c) c) as [rc c1]. unfold pq_S2. cbn [fst snd].
  destruct rc; try (rewrite Sc_exit; destruct (rq_exit cb g _ c1); reflexivity).
  rewrite Sp_in_status. destruct (_ =? c_HTP_STREAM_TUNNEL)%Z; [reflexivity|].
  rewrite Sc_state_change. destruct (req_handle_state_change cb c1) as [r2 c2]. unfold pq_S2. cbn [fst snd].
  destruct r2; try (rewrite Sc_exit; destruct (rq_exit cb g _ c2); reflexivity). reflexivity.
Qed.
Lemma Sx_loop : forall fuel d fl c, exists fl', rq_loop cb g fuel false (pq_S d fl c) = pq_S1 d fl' (rq_loop cb g fuel false c).
Proof.
  induction fuel as [|f IH]; intros d fl c; cbn [rq_loop].
  - exists fl. reflexivity.
  - destruct (Sx_iter d fl c) as (fl1 & E). rewrite E. destruct (rq_iter cb g false c) as [[c1 z]|c1]; cbn [pq_Sit fst snd].
    + exists fl1. reflexivity.
    + apply IH.
Qed.
(* what htp_connp_req_data does to the parser before the loop *)
Definition pq_entry (data : option bytes) (len : nat) (c : connp) : connp :=
  (rq_set_in (fun k => k <| k_data := data |> <| k_len := len |> <| k_read := O |> <| k_consume := O |> <| k_receiver := O |>) c)
    <| c_in_chunk_count ::= Datatypes.S |> <| c_in_data_counter ::= Z.add (Z.of_nat len) |>.
Lemma pq_entry_S data len d fl c : pq_entry data len (pq_S d fl c) = pq_S d fl (pq_entry data len c).
Proof. reflexivity. Qed.
Lemma pq_req_data_eq data len c : connp_req_data cb g data len c =
  if (c_in_status c =? c_HTP_STREAM_STOP)%Z then (c, c_HTP_STREAM_STOP)
  else if (c_in_status c =? c_HTP_STREAM_ERROR)%Z then (c, c_HTP_STREAM_ERROR)
  else if match c_in_tx c with None => negb (req_state_eqb (c_in_state c) REQ_IDLE) && negb (c_in_status c =? c_HTP_STREAM_TUNNEL)%Z | Some _ => false end
  then (c <| c_in_status := c_HTP_STREAM_ERROR |>, c_HTP_STREAM_ERROR)
  else if (len =? 0)%nat && negb (c_in_status c =? c_HTP_STREAM_CLOSED)%Z then (c, c_HTP_STREAM_CLOSED)
  else if (c_in_status c =? c_HTP_STREAM_TUNNEL)%Z then (pq_entry data len c, c_HTP_STREAM_TUNNEL)
  else rq_loop cb g (rq_fuel len) (match data with None => (0 <? len)%nat | Some _ => false end)
         (if (c_out_status c =? c_HTP_STREAM_DATA_OTHER)%Z then pq_entry data len c <| c_out_status := c_HTP_STREAM_DATA |> else pq_entry data len c).
Proof. reflexivity. Qed.
(* THE commutation: htp_connp_req_data on a parser whose response side has been overwritten *)
Theorem pq_req_data_S (x : bytes) d fl c : exists fl', connp_req_data cb g (Some x) (length x) (pq_S d fl c) = pq_S1 d fl' (connp_req_data cb g (Some x) (length x) c).
Proof.
  rewrite !pq_req_data_eq. rewrite !Sp_in_status, Sp_in_tx, Sp_in_state, Sp_out_status, pq_entry_S.
  destruct (_ =? c_HTP_STREAM_STOP)%Z; [exists fl; reflexivity|].
  destruct (_ =? c_HTP_STREAM_ERROR)%Z; [exists fl; reflexivity|].
  destruct (match c_in_tx c with Some _ => false | None => _ end); [exists fl; reflexivity|].
  destruct (_ && _); [exists fl; reflexivity|].
  destruct (_ =? c_HTP_STREAM_TUNNEL)%Z; [exists fl; reflexivity|].
  set (ce := pq_entry (Some x) (length x) c).
  change (pq_S d fl ce <| c_out_status := c_HTP_STREAM_DATA |>) with (pq_S d fl (ce <| c_out_status := c_HTP_STREAM_DATA |>)). rewrite Sd_if.
  apply Sx_loop.
Qed.

(* a call of htp_connp_req_data leaves the response-side fields as they were *)
Corollary pq_req_dead (x : bytes) c : pq_D (fst (connp_req_data cb g (Some x) (length x) c)) = pq_D c.
Proof.
  destruct (pq_req_data_S x (pq_D c) (c_conn_flags c) c) as (fl' & E). rewrite pq_S_id in E.
  assert (E' : fst (connp_req_data cb g (Some x) (length x) c) = pq_S (pq_D c) fl' (fst (connp_req_data cb g (Some x) (length x) c))) by (rewrite E at 1; reflexivity).
  rewrite E'. apply pq_D_S.
Qed.
End Par3.
