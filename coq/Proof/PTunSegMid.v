(* C16: the request side between two calls -- between two requests (tg_imid), entering htp_connp_req_data there, and what
   finish_call does to the states between two calls.  PSegPipe.v (sg_imid, sg_enter_idle, sg_imid_of_idl, sg_*_finish) over the
   generalised world of PTunSeg.v. *)
Require Import Htp.Model.Base Htp.Model.MBstr Htp.Model.MConnTypes Htp.Model.MTxCommon Htp.Model.MReqLine Htp.Model.MReqUri Htp.Model.MTxReq.
Require Import Htp.Model.MReq Htp.Model.MRes Htp.Model.MConnp.
Require Import Htp.Spec.SWire Htp.Proof.PWire Htp.Proof.PWireHdr Htp.Proof.PWireBlock Htp.Proof.PWireConn Htp.Proof.PWireExch.
Require Import Htp.Proof.PWireRun Htp.Proof.PWirePres Htp.Proof.PWireGlue Htp.Proof.PSeg Htp.Proof.PSegLine Htp.Proof.PSegHdr Htp.Proof.PSegGen Htp.Proof.PSegRun.
Require Import Htp.Proof.PSegFold Htp.Proof.PSegPipe Htp.Proof.PTunBase Htp.Proof.PTunSeg Htp.Proof.PTunSegLine Htp.Proof.PTunSegHdr.

(* the request side between two calls, between two requests *)
Record tg_imid (c : connp) (done : list (option tx)) (fl : tg_aux) : Prop := mk_tg_imid {
  gq_status : tg_live (c_in_status c);
  gq_state : c_in_state c = REQ_IDLE;
  gq_buf : sg_olist (k_buf (c_in c)) = [];
  gq_hdr : k_header (c_in c) = None;
  gq_rh : k_receiver_hook (c_in c) = None;
  gq_tx : c_in_tx c = None;
  gq_txs : c_txs c = done;
  gq_shift : c_txs_shifted c = 0%nat;
  gq_flags : c_conn_flags c = ax_flags fl;
  gq_onext : c_out_next_tx_index c = ax_onext fl /\ tn_rs c = ax_rs fl /\ c_in_content_length c = ax_cl fl }.

Lemma tg_imid_of_idl c d p done fl prev : tg_idl c d (length d) p done fl prev -> p = [] ->
  tg_imid (c <| c_in_status := c_HTP_STREAM_DATA |>) done fl.
Proof.
  intros [A1 A2 A3 A4 A5 A6 A7 A8 A9 A10 A11 A12 A13 A14 A15 A16 A17] Ep. rewrite Ep in A9. apply app_eq_nil in A9. destruct A9 as [B _].
  constructor; try assumption; try (right; reflexivity).
Qed.

Section Mid.
Variable cb : cb_oracle.
Variable g : cfg.

(* ---- entering htp_connp_req_data between two requests ---- *)
Lemma tg_enter_idle c done fl (x : bytes) : tg_imid c done fl -> x <> [] ->
  exists c1, connp_req_data cb g (Some x) (length x) c = rq_loop cb g (rq_fuel (length x)) false c1 /\
             tg_idl c1 x 0 [] done fl (c_in_state_previous c) /\ c_events c1 = c_events c /\
             (c_out_status c <> c_HTP_STREAM_DATA_OTHER -> c_out_status c1 = c_out_status c).
Proof.
  intros [A1 A2 A3 A4 A5 A6 A7 A8 A9 A10] Hne. unfold connp_req_data.
  rewrite (tg_live_stop _ A1), (tg_live_error _ A1), A6, A2. cbn [req_state_eqb negb].
  assert (L0 : (length x =? 0)%nat = false) by (destruct x; [contradiction|reflexivity]). rewrite L0. cbn [andb].
  match goal with |- context [(c_in_status ?y =? c_HTP_STREAM_TUNNEL)%Z] => change (c_in_status y) with (c_in_status c) end.
  rewrite (tg_live_tunnel _ A1).
  eexists. split; [reflexivity|].
  match goal with |- context [if ?b then _ else _] => destruct b eqn:Eb end.
  - split; [|split; [reflexivity|intros Hn; exfalso; apply Hn; apply Z.eqb_eq; exact Eb]].
    constructor; try assumption; try reflexivity; cbn; try lia. rewrite app_nil_r; exact A3.
  - split; [|split; [reflexivity|intros _; reflexivity]].
    constructor; try assumption; try reflexivity; cbn; try lia. rewrite app_nil_r; exact A3.
Qed.

(* the same inside a request; the event log and (unless it is DATA_OTHER) out_status are those before the call *)
Lemma tg_enter_ev {w} c p hdr st rh t (x : bytes) : tg_midw w c p hdr st rh t -> x <> [] ->
  exists c1, connp_req_data cb g (Some x) (length x) c = rq_loop cb g (rq_fuel (length x)) false c1 /\
             tg_cinw w c1 x 0 p hdr st (Some st) rh t /\ c_events c1 = c_events c /\
             (c_out_status c <> c_HTP_STREAM_DATA_OTHER -> c_out_status c1 = c_out_status c).
Proof.
  intros [A1 A2 A3 A4 A5 A6 A7 A8 A9 A10 A11] Hne. unfold connp_req_data.
  rewrite (tg_live_stop _ A1), (tg_live_error _ A1), A7.
  assert (L0 : (length x =? 0)%nat = false) by (destruct x; [contradiction|reflexivity]). rewrite L0. cbn [andb].
  match goal with |- context [(c_in_status ?y =? c_HTP_STREAM_TUNNEL)%Z] => change (c_in_status y) with (c_in_status c) end.
  rewrite (tg_live_tunnel _ A1).
  eexists. split; [reflexivity|].
  match goal with |- context [if ?b then _ else _] => destruct b eqn:Eb end.
  - split; [|split; [reflexivity|intros Hn; exfalso; apply Hn; apply Z.eqb_eq; exact Eb]].
    constructor; try assumption; try reflexivity; cbn; try lia. rewrite app_nil_r; exact A4.
  - split; [|split; [reflexivity|intros _; reflexivity]].
    constructor; try assumption; try reflexivity; cbn; try lia. rewrite app_nil_r; exact A4.
Qed.
End Mid.

(* ---- finish_call between two calls ---- *)
Lemma tg_forget_fields c :
  k_buf (c_in (tn_fin c)) = k_buf (c_in c) /\ k_header (c_in (tn_fin c)) = k_header (c_in c) /\
  k_receiver_hook (c_in (tn_fin c)) = k_receiver_hook (c_in c).
Proof. unfold tn_fin. cbn [forget_chunks c_in set]. cbn. unfold forget_one. destruct (k_data (c_in c)); repeat split. Qed.
Lemma tn_rs_fin c : tn_rs (tn_fin c) = (tn_rs c) <| c_out := forget_one (c_out c) |>.
Proof. reflexivity. Qed.

Lemma tn_rs_fin_stable c r : tn_rs c = r -> tn_stable (c_out r) -> tn_rs (tn_fin c) = r.
Proof. intros <- S. rewrite tn_rs_fin. unfold tn_stable in S. cbn [c_out tn_rs] in S. rewrite S. reflexivity. Qed.

Lemma tg_midw_finish w c p hdr st rh t : tg_midw w c p hdr st rh t -> tn_stable (c_out (ax_rs (gw_aux w))) -> tg_midw w (tn_fin c) p hdr st rh t.
Proof.
  intros [A1 A2 A3 A4 A5 A6 A7 A8 A9 A10 A11] S. destruct (tg_forget_fields c) as (F1 & F2 & F3). destruct A11 as (A11 & A12 & A13).
  constructor; rewrite ?F1, ?F2, ?F3; try assumption. split; [exact A11|split; [apply tn_rs_fin_stable; assumption|exact A13]].
Qed.
Lemma tg_imid_finish c done fl : tg_imid c done fl -> tn_stable (c_out (ax_rs fl)) -> tg_imid (tn_fin c) done fl.
Proof.
  intros [A1 A2 A3 A4 A5 A6 A7 A8 A9 A10] S. destruct (tg_forget_fields c) as (F1 & F2 & F3). destruct A10 as (A10 & A11 & A12).
  constructor; rewrite ?F1, ?F2, ?F3; try assumption. split; [exact A10|split; [apply tn_rs_fin_stable; assumption|exact A12]].
Qed.
