(* C03, request direction, chunked request bodies -- Stages 2 and 3: the state "inside the coded body" between two passes of
   the loop / two calls (sg_crem: in a size line, in the data, in the line that ends the data, in the last-chunk line; then
   the trailer block as a header block in trailer mode), one call of htp_connp_req_data from any such state (sg_cbody_run:
   induction over the fuel, every pass that goes round again reads at least one byte), and the theorems: a grammar request
   whose header block (fields possibly folded) announces Transfer-Encoding: chunked, followed by a chunk-coded body in the
   format of SBody (bd_chunk: size line / data / line end; last-chunk line; trailer fields, possibly folded; empty line),
   delivered in ANY segmentation, is reported as the same transaction (all fields) up to HTP_MULTI_PACKET_HEAD. *)
Require Import Htp.Model.Base Htp.Model.MBstr Htp.Model.MConnTypes Htp.Model.MTxCommon Htp.Model.MReqLine Htp.Model.MReqUri Htp.Model.MTxReq.
Require Import Htp.Model.MReq Htp.Model.MRes Htp.Model.MConnp.
Require Import Htp.Spec.SWire Htp.Spec.SBody Htp.Proof.PWire Htp.Proof.PWireHdr Htp.Proof.PWireBlock Htp.Proof.PWireConn Htp.Proof.PWireExch.
Require Import Htp.Proof.PWireRun Htp.Proof.PWirePres Htp.Proof.PWireGlue Htp.Proof.PSeg Htp.Proof.PSegLine Htp.Proof.PSegHdr Htp.Proof.PSegGen Htp.Proof.PSegRun.
Require Import Htp.Proof.PSegFold Htp.Proof.PSegPipe Htp.Proof.PBody Htp.Proof.PBodyReq Htp.Proof.PSegBody Htp.Proof.PSegChunked Htp.Proof.PSegChunkedGen.

(* ---- lines ---- *)
Lemma sg_no_lf_rev r : sg_no_lf (rev r) = sg_no_lf r.
Proof. unfold sg_no_lf. induction r as [|a r IH]; [reflexivity|]. cbn [rev]. rewrite forallb_app, IH. cbn. rewrite andb_true_r. apply andb_comm. Qed.
Lemma sg_is_line_split l : bd_is_line l = true -> exists b, l = b ++ [LF] /\ sg_no_lf b = true.
Proof.
  unfold bd_is_line. destruct (rev l) as [|x r] eqn:E; [discriminate|]. intros H. apply andb_prop in H. destruct H as (H1 & H2).
  apply N.eqb_eq in H1. subst x. exists (rev r). split; [|rewrite sg_no_lf_rev; exact H2].
  rewrite <- (rev_involutive l), E. reflexivity.
Qed.
(* where the rest of the TCP chunk (avail) ends relative to the line p ++ q of which p has been seen *)
Lemma sg_line_cut (avail rw' p q body restw : bytes) :
  p ++ q = body ++ [LF] -> sg_no_lf body = true -> q <> [] -> avail ++ rw' = q ++ restw ->
  (exists q2, q = avail ++ q2 /\ q2 <> [] /\ rw' = q2 ++ restw /\ sg_no_lf avail = true) \/
  (exists q1 u2, avail = q1 ++ LF :: u2 /\ u2 ++ rw' = restw /\ sg_no_lf q1 = true /\ q = q1 ++ [LF]).
Proof.
  intros Hpq Nb Hq Hw. destruct (sg_app_cases avail rw' q _ Hw) as [Clt Cge].
  destruct (Nat.lt_ge_cases (length avail) (length q)) as [Llt|Lge].
  - left. destruct (Clt Llt) as (q2 & Eq & Hq2 & Erw). exists q2. split; [exact Eq|]. split; [exact Hq2|]. split; [exact Erw|].
    rewrite Eq, app_assoc in Hpq. destruct (sg_app_last _ _ _ _ Hpq Hq2) as (q3 & _ & E3). rewrite <- E3, <- app_assoc, !sg_no_lf_app in Nb.
    apply andb_prop in Nb. destruct Nb as [_ Nb]. apply andb_prop in Nb. apply Nb.
  - right. destruct (Cge Lge) as (u2 & Eu & Eaft). destruct (sg_app_last _ _ _ _ Hpq Hq) as (q1 & Eq1 & Ep1).
    exists q1, u2. split; [rewrite Eu, Eq1, <- app_assoc; reflexivity|]. split; [symmetry; exact Eaft|].
    split; [rewrite <- Ep1, sg_no_lf_app in Nb; apply andb_prop in Nb; apply Nb|exact Eq1].
Qed.

(* ---- the coded body ---- *)
Definition sg_cE (ks : list bd_chunk) : nat := length (bd_chunks_data ks).
Definition sg_cM (ks : list bd_chunk) : nat := length (bd_chunks_wire ks).
Lemma sg_cE_cons k ks : sg_cE (k :: ks) = (length (bc_data k) + sg_cE ks)%nat.
Proof. unfold sg_cE, bd_chunks_data. cbn [map concat]. apply app_length. Qed.
Lemma sg_cM_cons k ks : sg_cM (k :: ks) = (length (bc_line k) + length (bc_data k) + length (bc_end k) + sg_cM ks)%nat.
Proof. unfold sg_cM, bd_chunks_wire, bd_chunk_wire. cbn [map concat]. rewrite !app_length. lia. Qed.

(* what remains of the coded body, seen from a point between two passes of the loop *)
Inductive sg_crem :=
  | CR_line (p q data e : bytes) (ks : list bd_chunk)      (* in a size line: p seen, q to come; then its data, the line end, further chunks *)
  | CR_data (dd e : bytes) (ks : list bd_chunk)            (* dd = the data bytes of the current chunk still to come *)
  | CR_end (q : bytes) (ks : list bd_chunk)                (* q = the rest of the line that ends the data *)
  | CR_last (p q : bytes).                                 (* in the last-chunk line *)
Definition sg_cst (r : sg_crem) : req_state :=
  match r with CR_line _ _ _ _ _ | CR_last _ _ => REQ_BODY_CHUNKED_LENGTH | CR_data _ _ _ => REQ_BODY_CHUNKED_DATA | CR_end _ _ => REQ_BODY_CHUNKED_DATA_END end.
Definition sg_cseen (r : sg_crem) : bytes := match r with CR_line p _ _ _ _ | CR_last p _ => p | _ => [] end.
Definition sg_cleft (c : connp) (r : sg_crem) : Prop :=
  match r with CR_data dd _ _ => c_in_chunked_length c = Z.of_nat (length dd) | _ => True end.
(* the contribution still to come to request_entity_len / request_message_len (a size line counts when it is complete) *)
Definition sg_crem_e (r : sg_crem) : nat :=
  match r with CR_line _ _ data _ ks => length data + sg_cE ks | CR_data dd _ ks => length dd + sg_cE ks | CR_end _ ks => sg_cE ks | CR_last _ _ => 0 end.
Definition sg_crem_m (lastlen : nat) (r : sg_crem) : nat :=
  match r with
  | CR_line p q data e ks => length (p ++ q) + length data + length e + sg_cM ks + lastlen
  | CR_data dd e ks => length dd + length e + sg_cM ks + lastlen
  | CR_end q ks => length q + sg_cM ks + lastlen
  | CR_last p q => length (p ++ q)
  end.

Lemma sg_block_tx_coding : forall fs t, t_request_transfer_coding (wr_block_tx fs t) = t_request_transfer_coding t.
Proof.
  assert (P : forall line t, t_request_transfer_coding (htp_process_request_header_generic line t) = t_request_transfer_coding t).
  { intros line t. unfold htp_process_request_header_generic. destruct (htp_parse_request_header_generic line) as [h txfl].
    cbn [t_request_headers set]. destruct (rq_hdr_find (t_request_headers t) (h_name h)) as [i|]; [|reflexivity].
    destruct (flag_has _ _ && _); [reflexivity|].
    destruct (flag_has (h_flags (nth i (t_request_headers t) h)) c_HTP_FIELD_REPEATED); reflexivity. }
  induction fs as [|f fs IH]; intros t; [reflexivity|].
  unfold wr_block_tx. cbn [map fold_left]. fold (wr_block_tx fs (htp_process_request_header_generic (wr_field_line f) t)). rewrite IH. apply P.
Qed.
(* the flag HTP_MULTI_PACKET_HEAD commutes with the processing of (trailer) header lines *)
Lemma sg_process_flag b line t : htp_process_request_header_generic line (tx_set_flag b t) = tx_set_flag b (htp_process_request_header_generic line t).
Proof.
  unfold htp_process_request_header_generic. destruct (htp_parse_request_header_generic line) as [h txfl].
  change (t_request_headers (tx_set_flag b t <| t_flags ::= (fun f => N.lor f txfl) |>)) with (t_request_headers t).
  change (t_request_headers (t <| t_flags ::= (fun f => N.lor f txfl) |>)) with (t_request_headers t).
  destruct (rq_hdr_find (t_request_headers t) (h_name h)) as [i|]; [|sg_flag_fin].
  change (t_req_header_repetitions (tx_set_flag b t <| t_flags ::= (fun f => N.lor f txfl) |>)) with (t_req_header_repetitions t).
  change (t_req_header_repetitions (t <| t_flags ::= (fun f => N.lor f txfl) |>)) with (t_req_header_repetitions t).
  destruct (flag_has (h_flags (nth i (t_request_headers t) h)) c_HTP_FIELD_REPEATED);
    destruct (negb (Z.of_nat (t_req_header_repetitions t) <? c_HTP_MAX_HEADERS_REPETITIONS)%Z); cbn [andb]; sg_flag_fin.
Qed.
Lemma sg_block_tx_flag b : forall fs t, wr_block_tx fs (tx_set_flag b t) = tx_set_flag b (wr_block_tx fs t).
Proof.
  induction fs as [|f fs IH]; intros t; [reflexivity|].
  unfold wr_block_tx. cbn [map fold_left]. fold (wr_block_tx fs (htp_process_request_header_generic (wr_field_line f) (tx_set_flag b t))).
  fold (wr_block_tx fs (htp_process_request_header_generic (wr_field_line f) t)). rewrite sg_process_flag. apply IH.
Qed.

(* ---- REQ_HEADERS over the rest of the chunk, for any raw-data receiver (PSegFold.sg_fhdrs_loop is stated for the header receiver) ---- *)
Section HdrAny.
Variable cb : cb_oracle.
Variable g : cfg.
Hypothesis Hcb : wr_all_ok cb.
Context {w : sg_world}.
Notation sg_cin := (sg_cinw w).
Lemma sg_fhdrs_loop_any d rw' Tend tailw rh : forall rem c rd p q hdr t pend tl n,
  sg_cin c d rd p hdr REQ_HEADERS (Some REQ_HEADERS) rh t ->
  sg_rel hdr t pend tl rem -> forallb sg_fl_ok rem = true -> (sg_needs_pending rem = true -> pend <> None) ->
  sg_lrun rem (pend, tl) = Tend ->
  p ++ q = sg_fnext rem -> q <> [] -> skipn rd d ++ rw' = q ++ sg_fafter tailw rem ->
  sg_ffit (g_field_limit_hard g) (length (sg_olist pend)) rem = true ->
  (length d - rd <= n)%nat ->
  (exists c' p' hdr' t', REQ_HEADERS_loop cb g n c = (ST_DATA_BUFFER, c') /\
     sg_cin c' d (length d) p' hdr' REQ_HEADERS (Some REQ_HEADERS) rh t' /\
     sg_fhlog g Tend tailw hdr' t' p' rw' /\ rw' <> []) \/
  (exists c' rd1, REQ_HEADERS_loop cb g n c = rq_with_tx (tx_state_request_headers cb) c' /\
     sg_cin c' d rd1 [] None REQ_HEADERS (Some REQ_HEADERS) rh Tend /\ skipn rd1 d ++ rw' = tailw).
Proof.
  induction rem as [|[b l] r IH]; intros c rd p q hdr t pend tl n H Hrel Ok Hnp Hrun Hpq Hq Hw Hfit Hn.
  all: pose proof (ci_rd _ _ _ _ _ _ _ _ _ H) as Hrd.
  all: assert (Lu : length (skipn rd d) = (length d - rd)%nat) by apply skipn_length.
  all: destruct (sg_fnext_body _ Ok) as (body & Eb & Nb).
  all: destruct (sg_app_cases (skipn rd d) rw' q _ Hw) as [Clt Cge].
  all: pose proof (sg_rel_len _ _ _ _ _ Hrel) as Lh.
  all: destruct (Nat.lt_ge_cases (length (skipn rd d)) (length q)) as [Llt|Lge].
  (* the chunk ends inside the empty line *)
  - destruct (Clt Llt) as (q2 & Eq & Hq2 & Erw).
    assert (Nu : sg_no_lf (skipn rd d) = true).
    { rewrite Eq, Eb, app_assoc in Hpq. destruct (sg_app_last _ _ _ _ Hpq Hq2) as (q3 & _ & E3). rewrite <- E3, <- app_assoc, !sg_no_lf_app in Nb.
      apply andb_prop in Nb. destruct Nb as [_ Nb]. apply andb_prop in Nb. apply Nb. }
    destruct (sg_hdr_scan_nolf cb g d hdr _ _ t (skipn rd d) c rd p n H eq_refl Nu ltac:(lia)) as (c' & E & H').
    left. exists c', (p ++ skipn rd d), hdr, t. split; [exact E|]. split; [exact H'|]. split.
    + exists pend, tl, [], q2. split; [exact Hrel|]. split; [exact Ok|]. split; [exact Hnp|]. split; [exact Hrun|].
      split; [rewrite <- app_assoc, <- Eq; exact Hpq|]. split; [exact Hq2|]. split; [exact Erw|exact Hfit].
    + rewrite Erw. destruct q2; [contradiction|discriminate].
  (* the empty line is complete in this chunk *)
  - destruct (Cge Lge) as (u2 & Eu & Eaft). cbn [sg_fafter] in Eaft.
    rewrite Eb in Hpq. destruct (sg_app_last _ _ _ _ Hpq Hq) as (q1 & Eq1 & Ep1).
    assert (Nq1 : sg_no_lf q1 = true) by (rewrite <- Ep1, sg_no_lf_app in Nb; apply andb_prop in Nb; apply Nb).
    assert (Eskip : skipn rd d = q1 ++ LF :: u2) by (rewrite Eu, Eq1, <- app_assoc; reflexivity).
    assert (Ln : n = (length q1 + S (n - length q1 - 1))%nat) by (rewrite Eu, Eq1, !app_length in Lu; cbn [length] in Lu; lia).
    rewrite Ln.
    destruct (sg_hdr_scan_lf cb g d hdr _ _ t u2 q1 c rd p (n - length q1 - 1)%nat H Eskip Nq1) as (c1 & E1 & H1 & Hr1). rewrite E1.
    assert (Es : p ++ q1 ++ [LF] = [CR; LF]) by (rewrite app_assoc, Ep1; symmetry; exact Eb). rewrite Es in H1.
    pose proof (sg_ffit_next _ _ _ Hfit) as Hl. cbn [sg_fnext length] in Hl.
    destruct (sg_header_line_term cb g c1 d _ hdr _ _ t H1 ltac:(lia)) as (c2 & E2 & H2). rewrite E2.
    right. exists c2, (rd + length q1 + 1)%nat. split; [reflexivity|]. split; [|rewrite Hr1; symmetry; exact Eaft].
    rewrite (sg_rel_flush _ _ _ _ _ Hrel) in H2. unfold sg_lrun in Hrun. cbn [fold_left] in Hrun. unfold sg_lend in Hrun. cbn [fst snd] in Hrun. rewrite Hrun in H2. exact H2.
  (* the chunk ends inside the current line *)
  - destruct (Clt Llt) as (q2 & Eq & Hq2 & Erw).
    assert (Nu : sg_no_lf (skipn rd d) = true).
    { rewrite Eq, Eb, app_assoc in Hpq. destruct (sg_app_last _ _ _ _ Hpq Hq2) as (q3 & _ & E3). rewrite <- E3, <- app_assoc, !sg_no_lf_app in Nb.
      apply andb_prop in Nb. destruct Nb as [_ Nb]. apply andb_prop in Nb. apply Nb. }
    destruct (sg_hdr_scan_nolf cb g d hdr _ _ t (skipn rd d) c rd p n H eq_refl Nu ltac:(lia)) as (c' & E & H').
    left. exists c', (p ++ skipn rd d), hdr, t. split; [exact E|]. split; [exact H'|]. split.
    + exists pend, tl, ((b, l) :: r), q2. split; [exact Hrel|]. split; [exact Ok|]. split; [exact Hnp|]. split; [exact Hrun|].
      split; [rewrite <- app_assoc, <- Eq; exact Hpq|]. split; [exact Hq2|]. split; [exact Erw|exact Hfit].
    + rewrite Erw. destruct q2; [contradiction|discriminate].
  (* the current line is complete in this chunk *)
  - destruct (Cge Lge) as (u2 & Eu & Eaft).
    cbn [forallb] in Ok. apply andb_prop in Ok. destruct Ok as [Okl Ok'].
    rewrite Eb in Hpq. destruct (sg_app_last _ _ _ _ Hpq Hq) as (q1 & Eq1 & Ep1).
    assert (Nq1 : sg_no_lf q1 = true) by (rewrite <- Ep1, sg_no_lf_app in Nb; apply andb_prop in Nb; apply Nb).
    assert (Eskip : skipn rd d = q1 ++ LF :: u2) by (rewrite Eu, Eq1, <- app_assoc; reflexivity).
    assert (Ln : n = (length q1 + S (n - length q1 - 1))%nat) by (rewrite Eu, Eq1, !app_length in Lu; cbn [length] in Lu; lia).
    rewrite Ln.
    destruct (sg_hdr_scan_lf cb g d hdr _ _ t u2 q1 c rd p (n - length q1 - 1) H Eskip Nq1) as (c1 & E1 & H1 & Hr1). rewrite E1.
    assert (Es : p ++ q1 ++ [LF] = l ++ [CR; LF]) by (rewrite app_assoc, Ep1; symmetry; exact Eb). rewrite Es in H1.
    cbn [sg_fafter] in Eaft. rewrite sg_fwire_split in Eaft.
    assert (Hw2 : skipn (rd + length q1 + 1) d ++ rw' = sg_fnext r ++ sg_fafter tailw r) by (rewrite Hr1; symmetry; exact Eaft).
    assert (Ln2 : (length d - (rd + length q1 + 1) <= n - length q1 - 1)%nat) by (rewrite Eu, Eq1, !app_length in Lu; cbn [length] in Lu; lia).
    rewrite sg_lrun_cons in Hrun.
    destruct b.
    + (* a first line *)
      unfold sg_fl_ok in Okl. cbn [fst snd] in Okl.
      cbn [sg_ffit] in Hfit. apply andb_prop in Hfit. destruct Hfit as [Hf1 Hf2]. apply Nat.leb_le in Hf1.
      destruct (sg_header_line_start cb g c1 d _ hdr _ _ t l Okl H1 ltac:(lia)) as (c2 & E2 & H2). rewrite E2.
      assert (Hnp' : sg_needs_pending r = true -> Some l <> None) by (intros _; discriminate).
      unfold sg_lstep in Hrun. cbn [fst snd] in Hrun.
      assert (Hcase : exists hdr' t', sg_cin c2 d (rd + length q1 + 1) [] hdr' REQ_HEADERS (Some REQ_HEADERS) rh t' /\
                                     sg_rel hdr' t' (Some l) (sg_flush pend tl) r).
      { rewrite (sg_rel_flush _ _ _ _ _ Hrel) in H2. destruct u2 as [|b0 u2'].
        - pose proof (sg_skipn_nil _ _ Hr1) as L. assert (N : nth_error d (rd + length q1 + 1) = None) by (apply nth_error_None; exact L). rewrite N in H2.
          eexists _, _. split; [exact H2|]. left. split; reflexivity.
        - destruct (sg_skipn_cons _ _ _ _ Hr1) as (N & _ & _). rewrite N in H2.
          destruct (sg_fnext_head r Ok') as (b1 & r1 & E0 & F0). rewrite E0 in Eaft. cbn [app] in Eaft. inversion Eaft. subst b1.
          destruct (htp_is_folding_char b0).
          + eexists _, _. split; [exact H2|]. left. split; reflexivity.
          + eexists _, _. split; [exact H2|]. right. split; [reflexivity|]. split; [reflexivity|symmetry; exact F0]. }
      destruct Hcase as (hdr' & t' & H2' & Hrel').
      destruct (IH c2 _ [] (sg_fnext r) hdr' t' (Some l) (sg_flush pend tl) (n - length q1 - 1)%nat H2' Hrel' Ok' Hnp' Hrun eq_refl (sg_fnext_ne r) Hw2 Hf2 Ln2) as [HA|HB].
      * left. exact HA.
      * right. exact HB.
    + (* a continuation line *)
      unfold sg_fl_ok in Okl. cbn [fst snd] in Okl.
      destruct pend as [h|]; [|exfalso; apply (Hnp eq_refl); reflexivity].
      destruct Hrel as [[Eh Et]|[_ [_ Hx]]]; [|discriminate]. subst hdr t.
      cbn [sg_ffit sg_olist] in Hfit. apply andb_prop in Hfit. destruct Hfit as [Hf1 Hf2]. apply andb_prop in Hf1. destruct Hf1 as [Hf1 Hf3].
      apply Nat.leb_le in Hf1. apply Z.ltb_lt in Hf3.
      destruct (sg_header_line_cont cb g c1 d _ h _ _ tl l Okl H1 ltac:(lia) Hf3) as (c2 & E2 & H2). rewrite E2.
      unfold sg_lstep in Hrun. cbn [fst snd sg_olist] in Hrun.
      assert (Hnp' : sg_needs_pending r = true -> Some (h ++ l) <> None) by (intros _; discriminate).
      assert (Hrel' : sg_rel (Some (h ++ l)) tl (Some (h ++ l)) tl r) by (left; split; reflexivity).
      assert (Hf2' : sg_ffit (g_field_limit_hard g) (length (sg_olist (Some (h ++ l)))) r = true) by (cbn [sg_olist]; rewrite app_length; exact Hf2).
      destruct (IH c2 _ [] (sg_fnext r) _ tl _ tl (n - length q1 - 1)%nat H2 Hrel' Ok' Hnp' Hrun eq_refl (sg_fnext_ne r) Hw2 Hf2' Ln2) as [HA|HB].
      * left. exact HA.
      * right. exact HB.
Qed.

(* entering htp_connp_req_data keeps in_chunked_length *)
Lemma sg_enter_clen c p hdr st rh t (x : bytes) : sg_midw w c p hdr st rh t -> x <> [] ->
  exists c1, connp_req_data cb g (Some x) (length x) c = rq_loop cb g (rq_fuel (length x)) false c1 /\
             sg_cin c1 x 0 p hdr st (Some st) rh t /\ c_in_chunked_length c1 = c_in_chunked_length c.
Proof.
  intros [A1 A2 A3 A4 A5 A6 A7 A8 A9 A10 A11] Hne. unfold connp_req_data.
  rewrite (sg_live_stop _ A1), (sg_live_error _ A1), A7.
  assert (L0 : (length x =? 0)%nat = false) by (destruct x; [contradiction|reflexivity]). rewrite L0. cbn [andb].
  match goal with |- context [(c_in_status ?y =? c_HTP_STREAM_TUNNEL)%Z] => change (c_in_status y) with (c_in_status c) end.
  rewrite (sg_live_tunnel _ A1).
  eexists. split; [reflexivity|].
  match goal with |- sg_cin (if ?b then _ else _) _ _ _ _ _ _ _ _ /\ _ => destruct b end.
  all: split; [|reflexivity].
  all: constructor; try assumption; try reflexivity; cbn; try lia.
  all: rewrite app_nil_r; exact A4.
Qed.
End HdrAny.

Section ChunkedRun.
Variable cb : cb_oracle.
Variable g : cfg.
Hypothesis Hcb : wr_all_ok cb.
Hypothesis Hspace : g_allow_space_uri g = false.
Variables m u pr : bytes.
Variable fs : list wr_field.
Variable ks0 : list bd_chunk.
Variable last : bytes.
Variable tr : list wr_field.
Hypothesis Wl : wr_wf_request_line m u pr = true.
Hypothesis Wb : wr_block_ok fs = true.
Hypothesis Wc : wr_eqb m wr_str_connect = false.
Let tb := wr_block_tx fs (sg_th0 g 0 m u pr).
Let hard := g_field_limit_hard g.
(* the header block announces a chunked body (the decision of htp_tx_process_request_headers, C11) *)
Hypothesis Hcod : t_request_transfer_coding (sg_hdr_end tb) = c_HTP_CODING_CHUNKED.
Hypothesis Hks : forallb (bd_chunk_ok bd_rq_line_value) ks0 = true.
Hypothesis Hlast : bd_last_ok bd_rq_line_value last = true.
Hypothesis Hfitb : bd_lines_fit hard ks0 last = true.
Variable tcuts : list (list bytes).                               (* how the trailer fields are folded *)
Let tflat := sg_block_flat (combine tr tcuts).
Hypothesis Wtr : forallb wr_field_ok tr = true.
Hypothesis Htlen : length tcuts = length tr.
Hypothesis Htfo : forallb sg_fold_ok (combine tr tcuts) = true.
Hypothesis Hfitt : sg_ffit hard 0 tflat = true.
Variable bwt : bytes.
Variable hlog : option bytes -> tx -> bytes -> bytes -> Prop.
Notation sg_cin := (sg_cinw sg_w0).
Notation sg_mid := (sg_midw sg_w0).

Let tailw := sg_fwire tflat ++ [CR; LF].
Let Etot := sg_cE ks0.
Let Mtot := (sg_cM ks0 + length last)%nat.
Definition sg_cwire_body : bytes := bd_chunks_wire ks0 ++ last ++ tailw.

Definition sg_t0c (fl : bool) : tx := sg_hdr_end (if fl then tx_set_flag c_HTP_MULTI_PACKET_HEAD tb else tb).
(* the transaction when the last-chunk line has been read, and at the end of the request *)
Definition sg_ttr (fl : bool) : tx := sg_cbody (Z.of_nat Etot) (Z.of_nat Mtot) c_HTP_REQUEST_TRAILER (sg_t0c fl).
Definition sg_tcfin (fl : bool) : tx := sg_tcomplete (wr_block_tx tr (sg_ttr fl)).
Definition sg_cfin (txs : list (option tx)) : Prop := exists fl, txs = [Some (sg_tcfin fl)].

Definition sg_ks_ok (ks : list bd_chunk) : Prop :=
  forallb (bd_chunk_ok bd_rq_line_value) ks = true /\ forallb (fun k => (length (bc_line k) <=? hard)%nat) ks = true.
Definition sg_crem_ok (r : sg_crem) : Prop :=
  match r with
  | CR_line p q data e ks => q <> [] /\ bd_chunk_ok bd_rq_line_value (mk_bd_chunk (p ++ q) data e) = true /\ (length (p ++ q) <= hard)%nat /\ sg_ks_ok ks
  | CR_data dd e ks => dd <> [] /\ bd_is_line e = true /\ sg_ks_ok ks
  | CR_end q ks => q <> [] /\ (exists a, bd_is_line (a ++ q) = true) /\ sg_ks_ok ks
  | CR_last p q => q <> [] /\ p ++ q = last
  end.
Definition sg_crest (ks : list bd_chunk) : bytes := bd_chunks_wire ks ++ last ++ tailw.
Definition sg_crem_wire (r : sg_crem) : bytes :=
  match r with
  | CR_line p q data e ks => q ++ data ++ e ++ sg_crest ks
  | CR_data dd e ks => dd ++ e ++ sg_crest ks
  | CR_end q ks => q ++ sg_crest ks
  | CR_last p q => q ++ tailw
  end.
Definition sg_cnext (ks : list bd_chunk) : sg_crem :=
  match ks with k :: ks' => CR_line [] (bc_line k) (bc_data k) (bc_end k) ks' | [] => CR_last [] last end.

Lemma sg_last_facts : exists b, last = b ++ [LF] /\ sg_no_lf b = true /\ bd_rq_line_value last = 0%Z /\ (length last <= hard)%nat.
Proof.
  unfold bd_last_ok in Hlast. apply andb_prop in Hlast. destruct Hlast as [L1 L2]. apply Z.eqb_eq in L2.
  destruct (sg_is_line_split _ L1) as (b & E & N). exists b. split; [exact E|]. split; [exact N|]. split; [exact L2|].
  unfold bd_lines_fit in Hfitb. apply andb_prop in Hfitb. destruct Hfitb as [_ F]. apply Nat.leb_le in F. exact F.
Qed.
Lemma sg_ks0_ok : sg_ks_ok ks0.
Proof. split; [exact Hks|]. unfold bd_lines_fit in Hfitb. apply andb_prop in Hfitb. apply Hfitb. Qed.
Lemma sg_cnext_ok ks : sg_ks_ok ks -> sg_crem_ok (sg_cnext ks).
Proof.
  intros [K1 K2]. destruct ks as [|k ks']; cbn [sg_cnext sg_crem_ok].
  - destruct sg_last_facts as (b & E & _). split; [rewrite E; intro X; apply app_eq_nil in X; destruct X as [_ X]; discriminate|reflexivity].
  - cbn [forallb] in K1, K2. apply andb_prop in K1. destruct K1 as [K1 K1']. apply andb_prop in K2. destruct K2 as [K2 K2']. apply Nat.leb_le in K2.
    cbn [app]. assert (Ek : mk_bd_chunk (bc_line k) (bc_data k) (bc_end k) = k) by (destruct k; reflexivity). rewrite Ek.
    split; [|split; [exact K1|split; [exact K2|split; assumption]]].
    unfold bd_chunk_ok in K1. apply andb_prop in K1. destruct K1 as [K1 _]. apply andb_prop in K1. destruct K1 as [K1 _]. apply andb_prop in K1. destruct K1 as [K1 _].
    destruct (sg_is_line_split _ K1) as (b & E & _). rewrite E. intro X. apply app_eq_nil in X. destruct X as [_ X]. discriminate.
Qed.
Lemma sg_cnext_wire ks : sg_crem_wire (sg_cnext ks) = sg_crest ks.
Proof.
  destruct ks as [|k ks']; cbn [sg_cnext sg_crem_wire]; [reflexivity|].
  unfold sg_crest, bd_chunks_wire, bd_chunk_wire. cbn [map concat]. rewrite <- !app_assoc. reflexivity.
Qed.
Lemma sg_cnext_e ks : sg_crem_e (sg_cnext ks) = sg_cE ks.
Proof. destruct ks as [|k ks']; cbn [sg_cnext sg_crem_e]; [reflexivity|]. rewrite sg_cE_cons. reflexivity. Qed.
Lemma sg_cnext_m ks : sg_crem_m (length last) (sg_cnext ks) = (sg_cM ks + length last)%nat.
Proof. destruct ks as [|k ks']; cbn [sg_cnext sg_crem_m app]; [reflexivity|]. rewrite sg_cM_cons. lia. Qed.
Lemma sg_cnext_left c ks : sg_cleft c (sg_cnext ks). Proof. destruct ks; exact I. Qed.
Lemma sg_cnext_st ks : sg_cst (sg_cnext ks) = REQ_BODY_CHUNKED_LENGTH /\ sg_cseen (sg_cnext ks) = [].
Proof. destruct ks; split; reflexivity. Qed.

Lemma sg_progress_hook (X : tx) v : t_hook_request_body (X <| t_request_progress := v |>) = t_hook_request_body X.
Proof. reflexivity. Qed.
Lemma sg_th0_hook : t_hook_request_body (sg_th0 g 0 m u pr) = 0%nat.
Proof. unfold sg_th0. rewrite sg_progress_hook. rewrite (sg_tx_line_hook g (sg_t1 0) m u pr Hspace Wl). reflexivity. Qed.
Lemma sg_t0c_facts fl :
  t_request_transfer_coding (sg_t0c fl) = c_HTP_CODING_CHUNKED /\
  (t_request_method_number (sg_t0c fl) =? c_HTP_M_CONNECT)%Z = false /\ t_request_progress (sg_t0c fl) = c_HTP_REQUEST_HEADERS /\
  t_response_progress (sg_t0c fl) = c_HTP_RESPONSE_NOT_STARTED /\ t_is_protocol_0_9 (sg_t0c fl) = false /\ t_hook_request_body (sg_t0c fl) = 0%nat.
Proof.
  destruct (sg_th0_facts g Hspace 0 m u pr Wl) as (F & H1 & H2 & H3 & H4 & H5).
  pose proof (wr_keep_h_block fs (sg_th0 g 0 m u pr)) as K. fold tb in K. unfold wr_keep_h in K. destruct K as (K1 & K2 & K3 & K4 & K5 & K6 & K7 & K8 & K9 & K10).
  unfold wr_line_fields in F. destruct F as (F1 & F2 & F3 & F4 & F5 & F6).
  pose proof sg_th0_hook as Hk0.
  assert (Base : t_request_transfer_coding (sg_hdr_end tb) = c_HTP_CODING_CHUNKED /\
                 (t_request_method_number (sg_hdr_end tb) =? c_HTP_M_CONNECT)%Z = false /\ t_request_progress (sg_hdr_end tb) = c_HTP_REQUEST_HEADERS /\
                 t_response_progress (sg_hdr_end tb) = c_HTP_RESPONSE_NOT_STARTED /\ t_is_protocol_0_9 (sg_hdr_end tb) = false /\ t_hook_request_body (sg_hdr_end tb) = 0%nat).
  { destruct (sg_hdr_end_facts tb) as [KE _]. unfold wr_keep in KE. destruct KE as (E1 & E2 & E3 & E4 & E5 & E6 & E7 & E8 & E9 & E10 & E11).
    split; [exact Hcod|]. split; [rewrite E2, K2, F2; apply wr_not_connect; exact Wc|]. split; [rewrite E9, K7; exact H3|].
    split; [rewrite E10, K8; exact H4|]. split; [rewrite E6, K6; exact F6|]. rewrite E11, K9. exact Hk0. }
  unfold sg_t0c. destruct fl; [|exact Base]. rewrite sg_hdr_end_flag. revert Base. generalize (sg_hdr_end tb). intros X Base. exact Base.
Qed.

(* between two calls inside the coded body: position r, en / mn already added to the lengths; or inside the trailer block *)
Definition sg_cext (c : connp) (rw : bytes) : Prop :=
  (exists fl r en mn, sg_crem_ok r /\
     sg_mid c (sg_cseen r) None (sg_cst r) None (sg_cbody (Z.of_nat en) (Z.of_nat mn) c_HTP_REQUEST_BODY (sg_t0c fl)) /\ sg_cleft c r /\
     (en + sg_crem_e r = Etot)%nat /\ (mn + sg_crem_m (length last) r = Mtot)%nat /\ rw = sg_crem_wire r) \/
  (exists fl p hdr t, sg_mid c p hdr REQ_HEADERS (Some H_REQUEST_TRAILER_DATA) t /\ sg_fhlog g (wr_block_tx tr (sg_ttr fl)) [] hdr t p rw).
Let post := sg_post m u pr bwt hlog sg_cfin sg_cext.

Lemma sg_crem_wire_ne r : sg_crem_ok r -> sg_crem_wire r <> [].
Proof.
  destruct r; cbn [sg_crem_ok sg_crem_wire]; intros H X; apply app_eq_nil in X; destruct X as [X _]; destruct H as [H _]; contradiction.
Qed.

(* ---- a call that is (or arrives) in the trailer block ---- *)
Lemma sg_tflat_facts : forallb sg_fl_ok tflat = true /\ sg_needs_pending tflat = false /\ (forall t, sg_lrun tflat (None, t) = wr_block_tx tr t).
Proof.
  assert (Efs : map fst (combine tr tcuts) = tr) by (apply sg_map_fst_combine; exact Htlen).
  assert (Okf : forallb (fun fp => wr_field_ok (fst fp)) (combine tr tcuts) = true).
  { pose proof Wtr as O. rewrite <- Efs in O. rewrite forallb_forall in O. apply forallb_forall. intros fp Hin. apply O. apply in_map. exact Hin. }
  destruct (sg_block_flat_ok _ Okf Htfo) as (Fok & Fnp). split; [exact Fok|]. split; [exact Fnp|].
  intros t. unfold sg_lrun, tflat. rewrite (sg_block_lrun _ _ Htfo), Efs. reflexivity.
Qed.
Lemma sg_trailer_start fl : sg_fhlog g (wr_block_tx tr (sg_ttr fl)) [] None (sg_ttr fl) [] tailw.
Proof.
  destruct sg_tflat_facts as (Fok & Fnp & Frun).
  exists None, (sg_ttr fl), tflat, (sg_fnext tflat). split; [left; split; reflexivity|]. split; [exact Fok|]. split; [rewrite Fnp; discriminate|].
  split; [apply Frun|]. split; [reflexivity|]. split; [apply sg_fnext_ne|].
  split; [apply (sg_fwire_split [])|exact Hfitt].
Qed.

Lemma sg_call_trailer c d rd fl p hdr t rw' F :
  sg_cin c d rd p hdr REQ_HEADERS (Some REQ_HEADERS) (Some H_REQUEST_TRAILER_DATA) t ->
  sg_fhlog g (wr_block_tx tr (sg_ttr fl)) [] hdr t p (skipn rd d ++ rw') -> (3 <= F)%nat ->
  exists cF rc, rq_loop cb g F false c = (cF, rc) /\ post cF rw'.
Proof.
  intros H (pend & tl & rem & q & Hrel & Ok & Hnp & Hrun & Hpq & Hq & Hw & Hfit) HF.
  assert (Es : c_in_state c = REQ_HEADERS) by apply (ci_state _ _ _ _ _ _ _ _ _ H).
  assert (Ef : rq_state_fn cb g REQ_HEADERS c = REQ_HEADERS_loop cb g (length d - rd) c).
  { cbn [rq_state_fn]. unfold REQ_HEADERS_fn. rewrite (ci_len _ _ _ _ _ _ _ _ _ H), (ci_read _ _ _ _ _ _ _ _ _ H). reflexivity. }
  destruct F as [|F1]; [lia|]. destruct F1 as [|F2]; [lia|]. destruct F2 as [|F3]; [lia|].
  set (tt := wr_block_tx tr (sg_ttr fl)) in *.
  destruct (sg_fhdrs_loop_any cb g d rw' tt [] _ rem c rd p q hdr t pend tl (length d - rd) H Hrel Ok Hnp Hrun Hpq Hq Hw Hfit (le_n _)) as [HA|HB].
  - destruct HA as (c' & p' & hdr' & t' & EA & HA1 & HA2 & HA3).
    assert (Lim : (length p' + length (sg_olist hdr') <= g_field_limit_hard g)%nat).
    { destruct HA2 as (pe & te & re & q' & Hr' & _ & _ & _ & Epq & _ & _ & Fit). pose proof (sg_ffit_next _ _ _ Fit) as L. rewrite <- Epq, app_length in L.
      pose proof (sg_rel_len _ _ _ _ _ Hr'). lia. }
    destruct (sg_exit_buffer cb g Hcb c' d p' hdr' _ _ t' HA1 Lim) as (cF & EF & HF').
    exists cF, c_HTP_STREAM_DATA. split.
    + apply sg_rq_loop_inl. unfold rq_iter. rewrite Es, Ef, EA, EF. reflexivity.
    + left. split; [exact HA3|]. right. right. right. exists fl, p', hdr', t'. split; [exact HF'|exact HA2].
  - destruct HB as (c' & rd1 & EB & HB1 & HB2). rewrite <- Ef in EB.
    apply app_eq_nil in HB2. destruct HB2 as [HB2 Erw].
    assert (Erd : rd1 = length d) by (pose proof (sg_skipn_nil _ _ HB2); pose proof (ci_rd _ _ _ _ _ _ _ _ _ HB1); lia). rewrite Erd in HB1.
    pose proof (wr_keep_h_block tr (sg_ttr fl)) as K. fold tt in K. unfold wr_keep_h in K. destruct K as (_ & _ & _ & _ & _ & K6 & K7 & K8 & K9 & _).
    destruct (sg_t0c_facts fl) as (Tc & _ & _ & Rp & Z9 & Hk0).
    assert (Pg : t_request_progress tt = c_HTP_REQUEST_TRAILER) by (rewrite K7; reflexivity).
    unfold rq_with_tx in EB. rewrite (ci_tx _ _ _ _ _ _ _ _ _ HB1) in EB.
    destruct (sg_state_request_trailer cb Hcb c' d _ _ tt HB1 Pg) as (c2 & E2 & H2). rewrite E2 in EB. rewrite <- Es in EB.
    destruct (sg_iter_ok cb g c c2 d _ _ _ _ _ _ _ EB H2) as (c3 & E3 & H3); [discriminate|].
    rewrite (sg_rq_loop_inr cb g _ _ _ E3).
    destruct (sg_pass_finalize_hasbody cb g Hcb c3 d _ tt H3) as (c6 & E6 & H6).
    { unfold tx_req_has_body. unfold tt. rewrite sg_block_tx_coding. change (t_request_transfer_coding (sg_ttr fl)) with (t_request_transfer_coding (sg_t0c fl)). rewrite Tc. reflexivity. }
    { rewrite Pg. reflexivity. }
    { rewrite K8. change (t_response_progress (sg_ttr fl)) with (t_response_progress (sg_t0c fl)). rewrite Rp. reflexivity. }
    { rewrite K6. exact Z9. }
    { rewrite K9. exact Hk0. }
    rewrite (sg_rq_loop_inr cb g _ _ _ E6).
    rewrite (sg_rq_loop_inl cb g _ _ _ (sg_pass_idle_end cb g c6 d _ _ _ _ H6)).
    eexists _, _. split; [reflexivity|]. right. split; [exact Erw|]. exists fl.
    change (c_txs (c6 <| c_in_status := c_HTP_STREAM_DATA |>)) with (c_txs c6). rewrite (il_txs _ _ _ _ _ _ _ H6). reflexivity.
Qed.

(* the HTP_DATA exit of the loop when no raw-data receiver is installed *)
Lemma sg_exit_data c d rd hdr st t : sg_cin c d rd [] hdr st (Some st) None t ->
  rq_exit cb g ST_DATA c = (c <| c_in_status := c_HTP_STREAM_DATA |>, c_HTP_STREAM_DATA) /\ sg_mid (c <| c_in_status := c_HTP_STREAM_DATA |>) [] hdr st None t.
Proof.
  intros H. split; [|apply (sg_mid_of_cin c d rd); exact H].
  unfold rq_exit, req_receiver_send_data. rewrite (ci_rh _ _ _ _ _ _ _ _ _ H). reflexivity.
Qed.

(* ---- the rest of a call from a point inside the coded body ---- *)
Lemma sg_cbody_run : forall F c d rd fl r en mn (rw' : bytes),
  sg_crem_ok r ->
  sg_cin c d rd (sg_cseen r) None (sg_cst r) (Some (sg_cst r)) None (sg_cbody (Z.of_nat en) (Z.of_nat mn) c_HTP_REQUEST_BODY (sg_t0c fl)) ->
  sg_cleft c r -> (en + sg_crem_e r = Etot)%nat -> (mn + sg_crem_m (length last) r = Mtot)%nat ->
  skipn rd d ++ rw' = sg_crem_wire r -> (length d - rd + 4 <= F)%nat ->
  exists cF rc, rq_loop cb g F false c = (cF, rc) /\ post cF rw'.
Proof.
  induction F as [|F IH]; intros c d rd fl r en mn rw' Hok H Hleft He Hm Hw HF; [lia|].
  pose proof (ci_rd _ _ _ _ _ _ _ _ _ H) as Hrd.
  assert (Es : c_in_state c = sg_cst r) by apply (ci_state _ _ _ _ _ _ _ _ _ H).
  destruct (sg_t0c_facts fl) as (Tc & _ & _ & Rp & Z9 & Hk0).
  destruct r as [p q data e ks|dd e ks|q ks|p q]; cbn [sg_cseen sg_cst sg_crem_ok sg_crem_wire sg_crem_e sg_crem_m sg_cleft] in *.
  - (* in a size line *)
    destruct Hok as (Hq & Hck & Hlim & Hks').
    unfold bd_chunk_ok in Hck. cbn [bc_line bc_data bc_end] in Hck. apply andb_prop in Hck. destruct Hck as [Hck Hv]. apply andb_prop in Hck. destruct Hck as [Hck Hdne].
    apply andb_prop in Hck. destruct Hck as [Hl1 Hl2]. apply Z.eqb_eq in Hv. apply negb_true_iff in Hdne. apply Nat.eqb_neq in Hdne.
    destruct (sg_is_line_split _ Hl1) as (body & Eb & Nb).
    destruct (sg_line_cut (skipn rd d) rw' p q body _ Eb Nb Hq Hw) as [(q2 & Eq & Hq2 & Erw & Nu)|(q1 & u2 & Eav & Eaft & Nq1 & Eq1)].
    + destruct (sg_clen_scan_nolf g d None _ _ None _ (skipn rd d) c rd p (length d - rd) H eq_refl Nu) as (c' & E & H'); [rewrite skipn_length; lia|].
      assert (Lim : (length (p ++ skipn rd d) + length (sg_olist None) <= g_field_limit_hard g)%nat).
      { rewrite Eq, !app_length in Hlim. rewrite app_length. cbn [sg_olist length]. unfold hard in Hlim. lia. }
      destruct (sg_exit_buffer cb g Hcb c' d _ None _ _ _ H' Lim) as (cF & EF & HF').
      exists cF, c_HTP_STREAM_DATA. split.
      * apply sg_rq_loop_inl. unfold rq_iter. rewrite Es. cbn [rq_state_fn]. unfold REQ_BODY_CHUNKED_LENGTH_fn.
        rewrite (ci_len _ _ _ _ _ _ _ _ _ H), (ci_read _ _ _ _ _ _ _ _ _ H), E, EF. reflexivity.
      * left. split; [rewrite Erw; destruct q2; [contradiction|discriminate]|]. right. right. left.
        exists fl, (CR_line (p ++ skipn rd d) q2 data e ks), en, mn. cbn [sg_cseen sg_cst sg_crem_ok sg_crem_wire sg_crem_e sg_crem_m sg_cleft].
        rewrite <- app_assoc, <- Eq. split; [split; [exact Hq2|]; split; [|split; [exact Hlim|exact Hks']]|].
        { unfold bd_chunk_ok. cbn [bc_line bc_data bc_end]. rewrite Hl1, Hl2, Hv, Z.eqb_refl. apply Nat.eqb_neq in Hdne. rewrite Hdne. reflexivity. }
        split; [exact HF'|]. split; [exact I|]. split; [exact He|]. split; [exact Hm|exact Erw].
    + assert (Hv' : (0 < bd_rq_line_value (p ++ q))%Z) by (rewrite Hv; lia).
      assert (Eline : p ++ q1 ++ [LF] = p ++ q) by (rewrite Eq1; reflexivity).
      destruct (sg_pass_cline cb g c d rd p q1 u2 _ (p ++ q) H Eav Nq1 Eline Hlim Hv') as (c1 & E1 & H1 & L1 & Hr1).
      rewrite (sg_rq_loop_inr cb g _ _ _ E1).
      rewrite sg_cbody_msg, <- Nat2Z.inj_add in H1.
      apply (IH c1 d (rd + length q1 + 1)%nat fl (CR_data data e ks) en (mn + length (p ++ q))%nat rw'); cbn [sg_cseen sg_cst sg_crem_ok sg_crem_wire sg_crem_e sg_crem_m sg_cleft].
      * split; [intro X; apply Hdne; rewrite X; reflexivity|split; [exact Hl2|exact Hks']].
      * exact H1.
      * rewrite L1. exact Hv.
      * exact He.
      * lia.
      * rewrite Hr1. exact Eaft.
      * rewrite Eav, app_length in *. assert (L : length (skipn rd d) = (length d - rd)%nat) by apply skipn_length. rewrite Eav, app_length in L. cbn [length] in L. lia.
  - (* in the data of a chunk *)
    destruct Hok as (Hdd & Hl2 & Hks').
    assert (Hh : t_hook_request_body (sg_cbody (Z.of_nat en) (Z.of_nat mn) c_HTP_REQUEST_BODY (sg_t0c fl)) = 0%nat) by exact Hk0.
    assert (Lpos : (0 < length dd)%nat) by (destruct dd; [contradiction|cbn; lia]).
    assert (Lav : length (skipn rd d) = (length d - rd)%nat) by apply skipn_length.
    destruct (sg_app_cases (skipn rd d) rw' dd _ Hw) as [Clt Cge].
    destruct (Nat.lt_ge_cases (length (skipn rd d)) (length dd)) as [Llt|Lge].
    + (* the chunk ends inside the data *)
      destruct (Clt Llt) as (dd2 & Edd & Hdd2 & Erw).
      pose proof (sg_cdata_pass cb g Hcb c d rd _ (length dd) (skipn rd d) [] H Hh Hleft Lpos (eq_sym (app_nil_r _))) as P.
      rewrite Nat.min_r in P by lia. specialize (P Lav).
      destruct (skipn rd d) as [|b0 av] eqn:Eav.
      * exists (c <| c_in_status := c_HTP_STREAM_DATA |>), c_HTP_STREAM_DATA. split; [apply sg_rq_loop_inl; exact P|].
        cbn [app] in Edd, Hw. left. split; [rewrite Erw; destruct dd2; [contradiction|discriminate]|]. right. right. left.
        exists fl, (CR_data dd e ks), en, mn. cbn [sg_cseen sg_cst sg_crem_ok sg_crem_wire sg_crem_e sg_crem_m sg_cleft].
        split; [split; [exact Hdd|split; [exact Hl2|exact Hks']]|]. split; [apply (sg_mid_of_cin c d rd); exact H|]. split; [exact Hleft|].
        split; [exact He|]. split; [exact Hm|]. rewrite Erw, Edd. reflexivity.
      * rewrite <- Eav in *. apply Nat.ltb_lt in Llt. rewrite Llt in P. apply Nat.ltb_lt in Llt. destruct P as (c' & E & H' & L').
        exists (c' <| c_in_status := c_HTP_STREAM_DATA |>), c_HTP_STREAM_DATA. split; [apply sg_rq_loop_inl; exact E|].
        rewrite sg_cbody_deliver, <- !Nat2Z.inj_add in H'.
        left. split; [rewrite Erw; destruct dd2; [contradiction|discriminate]|]. right. right. left.
        exists fl, (CR_data dd2 e ks), (en + length (skipn rd d))%nat, (mn + length (skipn rd d))%nat. cbn [sg_cseen sg_cst sg_crem_ok sg_crem_wire sg_crem_e sg_crem_m sg_cleft].
        split; [split; [exact Hdd2|split; [exact Hl2|exact Hks']]|]. split; [apply (sg_mid_of_cin c' d (rd + length (skipn rd d))); exact H'|].
        assert (Ld : length dd = (length (skipn rd d) + length dd2)%nat) by (rewrite Edd at 1; apply app_length).
        split; [cbn [c_in_chunked_length set]; rewrite L'; f_equal; lia|]. split; [lia|]. split; [lia|exact Erw].
    + (* the data of the chunk ends in this TCP chunk *)
      destruct (Cge Lge) as (u2 & Eav & Eaft).
      pose proof (sg_cdata_pass cb g Hcb c d rd _ (length dd) dd u2 H Hh Hleft Lpos Eav) as P.
      rewrite Nat.min_l in P by lia. specialize (P eq_refl).
      destruct dd as [|b0 dd0] eqn:Edd; [contradiction|]. rewrite <- Edd in *.
      rewrite Nat.ltb_irrefl in P. destruct P as (c1 & E1 & H1).
      rewrite (sg_rq_loop_inr cb g _ _ _ E1).
      rewrite sg_cbody_deliver, <- !Nat2Z.inj_add in H1.
      apply (IH c1 d (rd + length dd)%nat fl (CR_end e ks) (en + length dd)%nat (mn + length dd)%nat rw'); cbn [sg_cseen sg_cst sg_crem_ok sg_crem_wire sg_crem_e sg_crem_m sg_cleft].
      * destruct (sg_is_line_split _ Hl2) as (b & Ee & _). split; [rewrite Ee; intro X; apply app_eq_nil in X; destruct X as [_ X]; discriminate|]. split; [exists []; exact Hl2|exact Hks'].
      * exact H1.
      * exact I.
      * lia.
      * lia.
      * assert (Es2 : skipn (rd + length dd) d = u2).
        { rewrite <- bd_skipn_skipn, Eav, skipn_app, Nat.sub_diag, skipn_all. reflexivity. }
        rewrite Es2. symmetry. exact Eaft.
      * rewrite Eav, app_length in Lav. lia.
  - (* in the line that ends the data *)
    destruct Hok as (Hq & (a & Hla) & Hks').
    destruct (sg_is_line_split _ Hla) as (body & Eb & Nb).
    destruct (sg_line_cut (skipn rd d) rw' a q body _ Eb Nb Hq Hw) as [(q2 & Eq & Hq2 & Erw & Nu)|(q1 & u2 & Eav & Eaft & Nq1 & Eq1)].
    + destruct (sg_cend_scan_nolf d _ _ (skipn rd d) c rd (length d - rd) _ H eq_refl Nu) as (c' & E & H'); [rewrite skipn_length; lia|].
      rewrite sg_cbody_msg, <- Nat2Z.inj_add in H'.
      destruct (sg_exit_data c' d _ _ _ _ H') as (EX & HX).
      exists (c' <| c_in_status := c_HTP_STREAM_DATA |>), c_HTP_STREAM_DATA. split.
      * apply sg_rq_loop_inl. unfold rq_iter. rewrite Es. cbn [rq_state_fn]. unfold REQ_BODY_CHUNKED_DATA_END_fn.
        rewrite (ci_len _ _ _ _ _ _ _ _ _ H), (ci_read _ _ _ _ _ _ _ _ _ H), E, EX. reflexivity.
      * left. split; [rewrite Erw; destruct q2; [contradiction|discriminate]|]. right. right. left.
        exists fl, (CR_end q2 ks), en, (mn + length (skipn rd d))%nat. cbn [sg_cseen sg_cst sg_crem_ok sg_crem_wire sg_crem_e sg_crem_m sg_cleft].
        split; [split; [exact Hq2|split; [exists (a ++ skipn rd d); rewrite <- app_assoc, <- Eq; exact Hla|exact Hks']]|].
        split; [exact HX|]. split; [exact I|]. split; [exact He|]. split; [|exact Erw].
        rewrite Eq, app_length in Hm. lia.
    + destruct (sg_pass_cend cb g c d rd q1 u2 _ H Eav Nq1) as (c1 & E1 & H1 & Hr1).
      rewrite (sg_rq_loop_inr cb g _ _ _ E1).
      rewrite sg_cbody_msg, <- Nat2Z.inj_add in H1.
      destruct (sg_cnext_st ks) as [S1 S2].
      apply (IH c1 d (rd + length q1 + 1)%nat fl (sg_cnext ks) en (mn + (length q1 + 1))%nat rw').
      * apply sg_cnext_ok. exact Hks'.
      * rewrite S1, S2. exact H1.
      * destruct ks; exact I.
      * rewrite sg_cnext_e. exact He.
      * rewrite sg_cnext_m. rewrite Eq1, app_length in Hm. cbn [length] in Hm. lia.
      * rewrite sg_cnext_wire, Hr1. exact Eaft.
      * assert (L : length (skipn rd d) = (length d - rd)%nat) by apply skipn_length. rewrite Eav, app_length in L. cbn [length] in L. lia.
  - (* in the last-chunk line *)
    destruct Hok as (Hq & Epq). destruct sg_last_facts as (body & Eb & Nb & Hv & Hlim). rewrite <- Epq in Eb, Hv, Hlim.
    destruct (sg_line_cut (skipn rd d) rw' p q body _ Eb Nb Hq Hw) as [(q2 & Eq & Hq2 & Erw & Nu)|(q1 & u2 & Eav & Eaft & Nq1 & Eq1)].
    + destruct (sg_clen_scan_nolf g d None _ _ None _ (skipn rd d) c rd p (length d - rd) H eq_refl Nu) as (c' & E & H'); [rewrite skipn_length; lia|].
      assert (Lim : (length (p ++ skipn rd d) + length (sg_olist None) <= g_field_limit_hard g)%nat).
      { rewrite Eq, !app_length in Hlim. rewrite app_length. cbn [sg_olist length]. unfold hard in Hlim. lia. }
      destruct (sg_exit_buffer cb g Hcb c' d _ None _ _ _ H' Lim) as (cF & EF & HF').
      exists cF, c_HTP_STREAM_DATA. split.
      * apply sg_rq_loop_inl. unfold rq_iter. rewrite Es. cbn [rq_state_fn]. unfold REQ_BODY_CHUNKED_LENGTH_fn.
        rewrite (ci_len _ _ _ _ _ _ _ _ _ H), (ci_read _ _ _ _ _ _ _ _ _ H), E, EF. reflexivity.
      * left. split; [rewrite Erw; destruct q2; [contradiction|discriminate]|]. right. right. left.
        exists fl, (CR_last (p ++ skipn rd d) q2), en, mn. cbn [sg_cseen sg_cst sg_crem_ok sg_crem_wire sg_crem_e sg_crem_m sg_cleft].
        rewrite <- app_assoc, <- Eq. split; [split; [exact Hq2|exact Epq]|].
        split; [exact HF'|]. split; [exact I|]. split; [exact He|]. split; [exact Hm|exact Erw].
    + assert (Eline : p ++ q1 ++ [LF] = p ++ q) by (rewrite Eq1; reflexivity).
      destruct (sg_pass_clast cb g c d rd p q1 u2 _ (p ++ q) H Eav Nq1 Eline Hlim Hv) as (c1 & E1 & H1 & Hr1).
      rewrite (sg_rq_loop_inr cb g _ _ _ E1).
      rewrite sg_cbody_msg, <- Nat2Z.inj_add, sg_cbody_progress in H1.
      assert (Een : en = Etot) by lia. assert (Emn : (mn + length (p ++ q))%nat = Mtot) by lia. rewrite Een, Emn in H1. fold (sg_ttr fl) in H1.
      apply (sg_call_trailer c1 d (rd + length q1 + 1)%nat fl [] None _ rw' F H1); [|lia].
      rewrite Hr1, Eaft. apply sg_trailer_start.
Qed.

(* ---- a later call that starts inside the coded body or the trailer block ---- *)
Lemma sg_cext_step c (rw x rw' : bytes) : sg_cext c rw -> x <> [] -> rw = x ++ rw' ->
  exists c' rc, connp_req_data cb g (Some x) (length x) c = (c', rc) /\ post c' rw'.
Proof.
  intros [(fl & r & en & mn & Hok & Hm & Hleft & He & Hmm & Erw)|(fl & p & hdr & t & Hm & Hl)] Hne Ex.
  - destruct (sg_enter_clen cb g c _ None _ _ _ x Hm Hne) as (c1 & E1 & H1 & L1). unfold bytes in *. rewrite E1.
    apply (sg_cbody_run _ c1 x 0 fl r en mn rw' Hok H1); [destruct r; cbn [sg_cleft] in *; try exact I; rewrite L1; exact Hleft|exact He|exact Hmm| |].
    + cbn [skipn]. rewrite <- Ex. exact Erw.
    + unfold rq_fuel. lia.
  - destruct (sg_enter cb g c p hdr _ _ t x Hm Hne) as (c1 & E1 & H1). unfold bytes in *. rewrite E1.
    apply (sg_call_trailer c1 x 0 fl p hdr t rw' _ H1); [cbn [skipn]; rewrite <- Ex; exact Hl|unfold rq_fuel; lia].
Qed.
Lemma sg_cext_finish c rw : sg_cext c rw -> sg_cext (forget_chunks c <| c_events := [] |>) rw.
Proof.
  intros [(fl & r & en & mn & Hok & Hm & Hleft & R)|(fl & p & hdr & t & Hm & Hl)].
  - left. exists fl, r, en, mn. split; [exact Hok|]. split; [apply sg_mid_finish; exact Hm|]. split; [destruct r; exact Hleft|exact R].
  - right. exists fl, p, hdr, t. split; [apply sg_mid_finish; exact Hm|exact Hl].
Qed.

(* ---- after the empty line of the header block: htp_tx_state_request_headers, REQ_CONNECT_CHECK, REQ_BODY_DETERMINE, then the coded body ---- *)
Lemma sg_ctail c c1 d rd1 (rw' : bytes) F : c_in_state c = REQ_HEADERS ->
  rq_state_fn cb g REQ_HEADERS c = rq_with_tx (tx_state_request_headers cb) c1 ->
  sg_cin c1 d rd1 [] None REQ_HEADERS (Some REQ_HEADERS) (Some H_REQUEST_HEADER_DATA) tb -> skipn rd1 d ++ rw' = sg_cwire_body ->
  (sg_need d rd1 <= F)%nat ->
  exists cF rc, rq_loop cb g F false c = (cF, rc) /\ post cF rw'.
Proof.
  intros Es Ef H1 Hw HF.
  destruct (sg_th0_facts g Hspace 0 m u pr Wl) as (_ & _ & _ & H3 & _ & (nu0 & H5)).
  pose proof (wr_keep_h_block fs (sg_th0 g 0 m u pr)) as K. fold tb in K. unfold wr_keep_h in K. destruct K as (_ & _ & _ & _ & _ & _ & K7 & _ & _ & K10).
  assert (Pg : t_request_progress tb = c_HTP_REQUEST_HEADERS) by (rewrite K7; exact H3).
  assert (Pu : t_parsed_uri tb = Some nu0) by (rewrite K10; exact H5).
  unfold rq_with_tx in Ef. rewrite (ci_tx _ _ _ _ _ _ _ _ _ H1) in Ef.
  destruct (sg_state_request_headers cb Hcb c1 d _ _ tb nu0 H1 Pg Pu) as (c2 & fl & E2 & H2). rewrite E2 in Ef.
  fold (sg_t0c fl) in H2. destruct (sg_t0c_facts fl) as (Tc & M & Pg0 & Rp & Z9 & Hk0).
  rewrite <- Es in Ef.
  destruct (sg_iter_ok cb g c c2 d _ _ _ _ _ _ _ Ef H2) as (c3 & E3 & H3'); [discriminate|].
  unfold sg_need in HF. destruct F as [|F1]; [lia|]. destruct F1 as [|F2]; [lia|]. destruct F2 as [|F3]; [lia|].
  rewrite (sg_rq_loop_inr cb g _ _ _ E3).
  destruct (sg_pass_connect_check cb g c3 d _ _ _ _ _ H3' M) as (c4 & E4 & H4). rewrite (sg_rq_loop_inr cb g _ _ _ E4).
  destruct (sg_pass_body_determine_chunked cb g c4 d _ _ H4 Tc) as (c5 & E5 & H5'). rewrite (sg_rq_loop_inr cb g _ _ _ E5).
  rewrite sg_cbody_start in H5'. destruct (sg_cnext_st ks0) as [S1 S2].
  apply (sg_cbody_run F3 c5 d rd1 fl (sg_cnext ks0) 0 0 rw').
  - apply sg_cnext_ok. exact sg_ks0_ok.
  - rewrite S1, S2. exact H5'.
  - apply sg_cnext_left.
  - rewrite sg_cnext_e. reflexivity.
  - rewrite sg_cnext_m. reflexivity.
  - rewrite sg_cnext_wire. exact Hw.
  - lia.
Qed.
End ChunkedRun.

(* ================= the theorems on the wire grammar, with a chunk-coded body ================= *)
(* the request r is well formed, is not CONNECT, and its header block announces a chunked body -- as
   htp_tx_process_request_headers decides (the decision table of C11) *)
Definition sg_chunked_ok (g : cfg) (r : wr_request) : bool :=
  let tb := wr_block_tx (wq_fields r) (sg_th0 g 0 (wq_method r) (wq_uri r) (wq_protocol r)) in
  wr_wf_request_line (wq_method r) (wq_uri r) (wq_protocol r) && wr_block_ok (wq_fields r) && negb (wr_eqb (wq_method r) wr_str_connect) &&
  (t_request_transfer_coding (sg_hdr_end tb) =? c_HTP_CODING_CHUNKED)%Z.
(* the coded body: chunks in the general format of SBody (size line with its LF / data / line end with its LF; the size line
   parses to the data length >= 1: hex digits in either case, leading zeros, extensions, bare LF line ends are all covered),
   the last-chunk line, trailer fields, every size line within field_limit_hard.
   Trailer fields folded as tcuts says (PSegFold.sg_fold_ok), the lines within the limits of PSegFold.sg_ffit ... *)
Definition sg_cfbody_ok (g : cfg) (ks : list bd_chunk) (last : bytes) (tr : list wr_field) (tcuts : list (list bytes)) : bool :=
  forallb (bd_chunk_ok bd_rq_line_value) ks && bd_last_ok bd_rq_line_value last && bd_lines_fit (g_field_limit_hard g) ks last &&
  forallb wr_field_ok tr && (length tcuts =? length tr)%nat && forallb sg_fold_ok (combine tr tcuts) &&
  sg_ffit (g_field_limit_hard g) 0 (sg_block_flat (combine tr tcuts)).
Definition sg_cfbody_wire (ks : list bd_chunk) (last : bytes) (tr : list wr_field) (tcuts : list (list bytes)) : bytes :=
  bd_chunks_wire ks ++ last ++ sg_fwire (sg_block_flat (combine tr tcuts)) ++ [CR; LF].
(* ... or one line each, within the pairwise limit of PSegHdr.sg_fit *)
Definition sg_cbody_ok (g : cfg) (ks : list bd_chunk) (last : bytes) (tr : list wr_field) : bool :=
  forallb (bd_chunk_ok bd_rq_line_value) ks && bd_last_ok bd_rq_line_value last && bd_lines_fit (g_field_limit_hard g) ks last &&
  forallb wr_field_ok tr && sg_fit (g_field_limit_hard g) 0 tr.
Definition sg_cbody_wire (ks : list bd_chunk) (last : bytes) (tr : list wr_field) : bytes :=
  bd_chunks_wire ks ++ last ++ wr_block_wire tr ++ [CR; LF].
Definition sg_tr_whole (tr : list wr_field) : list (list bytes) := map (fun f => [wf_lws1 f ++ wf_value f ++ wf_lws2 f]) tr.
Lemma sg_fwire_whole tr : sg_fwire (sg_block_flat (combine tr (sg_tr_whole tr))) = wr_block_wire tr.
Proof.
  unfold sg_tr_whole, wr_block_wire. induction tr as [|f tr IH]; [reflexivity|].
  cbn [map combine]. unfold sg_block_flat, sg_fwire in *. cbn [flat_map sg_field_flat fst snd map app concat]. rewrite IH. reflexivity.
Qed.
Lemma sg_cfbody_whole g ks last tr : sg_cfbody_ok g ks last tr (sg_tr_whole tr) = sg_cbody_ok g ks last tr /\ sg_cfbody_wire ks last tr (sg_tr_whole tr) = sg_cbody_wire ks last tr.
Proof.
  unfold sg_cfbody_ok, sg_cbody_ok, sg_cfbody_wire, sg_cbody_wire. rewrite sg_fwire_whole. split; [|reflexivity].
  unfold sg_tr_whole. rewrite map_length, Nat.eqb_refl, sg_whole_ok, sg_ffit_whole, !andb_true_r. reflexivity.
Qed.
(* the transaction such a request has to produce: request_entity_len grows by the data length, request_message_len by the
   length of the chunks and of the last-chunk line (the trailer block is not counted by the code), the trailer fields are
   added to request_headers, progress COMPLETE *)
Definition sg_tchunked (g : cfg) (r : wr_request) (ks : list bd_chunk) (last : bytes) (tr : list wr_field) : tx :=
  sg_tcomplete (wr_block_tx tr
    (sg_cbody (Z.of_nat (length (bd_chunks_data ks))) (Z.of_nat (length (bd_chunks_wire ks) + length last)) c_HTP_REQUEST_TRAILER
       (sg_hdr_end (wr_block_tx (wq_fields r) (sg_th0 g 0 (wq_method r) (wq_uri r) (wq_protocol r)))))).

Lemma sg_cbody_flag b e mm pg t : sg_cbody e mm pg (tx_set_flag b t) = tx_set_flag b (sg_cbody e mm pg t).
Proof. reflexivity. Qed.
Lemma sg_tcomplete_flag b t : sg_tcomplete (tx_set_flag b t) = tx_set_flag b (sg_tcomplete t).
Proof. reflexivity. Qed.
Lemma sg_mask_tcfin g m u pr fs ks last tr fl :
  sg_mask (sg_tcfin g m u pr fs ks last tr fl) = sg_mask (sg_tcfin g m u pr fs ks last tr false).
Proof.
  destruct fl; [|reflexivity]. unfold sg_tcfin, sg_ttr, sg_t0c.
  rewrite sg_hdr_end_flag, sg_cbody_flag, sg_block_tx_flag, sg_tcomplete_flag. apply sg_mask_set_flag.
Qed.

(* header fields AND trailer fields folded in any way, any segmentation *)
Theorem sg_request_chunked_fold_trailer_chunking : forall cb g r (cuts : list (list bytes)) (ks : list bd_chunk) (last : bytes) (tr : list wr_field)
    (tcuts : list (list bytes)) (chunks : list bytes),
  wr_all_ok cb -> g_allow_space_uri g = false -> sg_chunked_ok g r = true -> sg_cuts_ok r cuts = true -> sg_fold_fits g r cuts = true ->
  sg_cfbody_ok g ks last tr tcuts = true ->
  Forall (fun x => x <> []) chunks -> concat chunks = sg_fold_wire r cuts ++ sg_cfbody_wire ks last tr tcuts ->
  exists t, c_txs (fst (cp_run cb g connp_new (OpOpen :: map OpReqData chunks))) = [Some t] /\ sg_mask t = sg_mask (sg_tchunked g r ks last tr).
Proof.
  intros cb g [m u p fs] cuts ks last tr tcuts chunks Hcb Hsp Wr Hcuts Hf Hbody Hall Hc.
  unfold sg_chunked_ok in Wr. cbn [wq_method wq_uri wq_protocol wq_fields] in Wr. cbv zeta in Wr.
  apply andb_prop in Wr. destruct Wr as [Wr Hco]. apply andb_prop in Wr. destruct Wr as [Wr Wc].
  apply andb_prop in Wr. destruct Wr as [Wl Wb]. apply negb_true_iff in Wc. apply Z.eqb_eq in Hco.
  unfold sg_cfbody_ok in Hbody. apply andb_prop in Hbody. destruct Hbody as [Hbody Hfitt]. apply andb_prop in Hbody. destruct Hbody as [Hbody Htfo].
  apply andb_prop in Hbody. destruct Hbody as [Hbody Htlen]. apply Nat.eqb_eq in Htlen. apply andb_prop in Hbody. destruct Hbody as [Hbody Wtr].
  apply andb_prop in Hbody. destruct Hbody as [Hbody Hfitb]. apply andb_prop in Hbody. destruct Hbody as [Hks Hlast].
  unfold sg_cuts_ok in Hcuts. cbn [wq_fields] in Hcuts. apply andb_prop in Hcuts. destruct Hcuts as [Hlen Hfo]. apply Nat.eqb_eq in Hlen.
  unfold sg_fold_fits in Hf. cbn [wq_method wq_uri wq_protocol wq_fields] in Hf. apply andb_prop in Hf. destruct Hf as [Hl0 Hfit]. apply Nat.leb_le in Hl0.
  unfold sg_fold_wire in Hc. cbn [wq_method wq_uri wq_protocol wq_fields] in Hc.
  set (fps := combine fs cuts) in *. set (flat := sg_block_flat fps) in *.
  assert (Efs : map fst fps = fs) by (apply sg_map_fst_combine; exact Hlen).
  assert (Okf : forallb (fun fp => wr_field_ok (fst fp)) fps = true).
  { pose proof (sg_okf fs Wb) as O. rewrite <- Efs in O. rewrite forallb_forall in O. apply forallb_forall. intros fp Hin. apply O. apply in_map. exact Hin. }
  destruct (sg_block_flat_ok fps Okf Hfo) as (Fok & Fnp). fold flat in Fok, Fnp.
  set (body := sg_cfbody_wire ks last tr tcuts) in *.
  set (bwt := sg_fwire flat ++ [CR; LF] ++ body).
  assert (Hc' : concat chunks = wr_ser_request_line m u p ++ [CR; LF] ++ bwt) by (rewrite Hc; unfold bwt; rewrite <- !app_assoc; reflexivity).
  set (Tend := wr_block_tx fs (sg_th0 g 0 m u p)) in *.
  assert (Hstart : sg_fhlog g Tend body None (sg_th0 g 0 m u p) [] bwt).
  { exists None, (sg_th0 g 0 m u p), flat, (sg_fnext flat). split; [left; split; reflexivity|]. split; [exact Fok|]. split; [rewrite Fnp; discriminate|].
    split; [unfold sg_lrun, flat; rewrite (sg_block_lrun fps _ Hfo), Efs; reflexivity|]. split; [reflexivity|]. split; [apply sg_fnext_ne|].
    split; [apply (sg_fwire_split body)|exact Hfit]. }
  destruct (sg_all_chunksF cb g Hcb Hsp m u p Wl Hl0 bwt (sg_fhlog g Tend body) (sg_cfin g m u p fs ks last tr) (sg_cext g m u p fs ks last tr tcuts) Hstart
              (sg_cext_finish g m u p fs ks last tr tcuts)
              (sg_cext_step cb g Hcb Hsp m u p fs ks last tr Wl Wc Hco Hlast Hfitb tcuts Wtr Htlen Htfo Hfitt bwt (sg_fhlog g Tend body))
              (sg_fcall_hdrsF cb g Hcb m u p bwt body Tend _ _ (sg_ctail cb g Hcb Hsp m u p fs ks last tr Wl Wc Hco Hks Hlast Hfitb tcuts Wtr Htlen Htfo Hfitt bwt (sg_fhlog g Tend body)))
              chunks Hall Hc') as (fl & T).
  exists (sg_tcfin g m u p fs ks last tr fl). split; [exact T|].
  rewrite sg_mask_tcfin. reflexivity.
Qed.
Theorem sg_request_chunked_fold_trailer_chunking_obs : forall cb g r (ks : list bd_chunk) (last : bytes) (tr : list wr_field)
    (cuts1 tcuts1 : list (list bytes)) (chunks1 : list bytes) (cuts2 tcuts2 : list (list bytes)) (chunks2 : list bytes),
  wr_all_ok cb -> g_allow_space_uri g = false -> sg_chunked_ok g r = true ->
  sg_cuts_ok r cuts1 = true -> sg_fold_fits g r cuts1 = true -> sg_cfbody_ok g ks last tr tcuts1 = true ->
  Forall (fun x => x <> []) chunks1 -> concat chunks1 = sg_fold_wire r cuts1 ++ sg_cfbody_wire ks last tr tcuts1 ->
  sg_cuts_ok r cuts2 = true -> sg_fold_fits g r cuts2 = true -> sg_cfbody_ok g ks last tr tcuts2 = true ->
  Forall (fun x => x <> []) chunks2 -> concat chunks2 = sg_fold_wire r cuts2 ++ sg_cfbody_wire ks last tr tcuts2 ->
  sg_obs cb g (OpOpen :: map OpReqData chunks1) = sg_obs cb g (OpOpen :: map OpReqData chunks2).
Proof.
  intros cb g r ks last tr cuts1 tcuts1 chunks1 cuts2 tcuts2 chunks2 Hcb Hsp Wr C1 F1 B1 A1 E1 C2 F2 B2 A2 E2.
  destruct (sg_request_chunked_fold_trailer_chunking cb g r cuts1 ks last tr tcuts1 chunks1 Hcb Hsp Wr C1 F1 B1 A1 E1) as (t1 & T1 & M1).
  destruct (sg_request_chunked_fold_trailer_chunking cb g r cuts2 ks last tr tcuts2 chunks2 Hcb Hsp Wr C2 F2 B2 A2 E2) as (t2 & T2 & M2).
  unfold sg_obs. rewrite T1, T2. cbn [map option_map]. rewrite M1, M2. reflexivity.
Qed.

(* trailer fields one line each *)
Theorem sg_request_chunked_chunking : forall cb g r (cuts : list (list bytes)) (ks : list bd_chunk) (last : bytes) (tr : list wr_field) (chunks : list bytes),
  wr_all_ok cb -> g_allow_space_uri g = false -> sg_chunked_ok g r = true -> sg_cuts_ok r cuts = true -> sg_fold_fits g r cuts = true ->
  sg_cbody_ok g ks last tr = true ->
  Forall (fun x => x <> []) chunks -> concat chunks = sg_fold_wire r cuts ++ sg_cbody_wire ks last tr ->
  exists t, c_txs (fst (cp_run cb g connp_new (OpOpen :: map OpReqData chunks))) = [Some t] /\ sg_mask t = sg_mask (sg_tchunked g r ks last tr).
Proof.
  intros cb g r cuts ks last tr chunks Hcb Hsp Wr Hcuts Hf Hbody Hall Hc.
  destruct (sg_cfbody_whole g ks last tr) as [E1 E2]. rewrite <- E1 in Hbody. rewrite <- E2 in Hc.
  apply (sg_request_chunked_fold_trailer_chunking cb g r cuts ks last tr _ chunks Hcb Hsp Wr Hcuts Hf Hbody Hall Hc).
Qed.

(* the same as an equation between two runs (the statement of Properties_C03: c03_obs): every chunking against the single chunk *)
Theorem sg_request_chunked_chunking_obs : forall cb g r (cuts : list (list bytes)) (ks : list bd_chunk) (last : bytes) (tr : list wr_field) (chunks : list bytes),
  wr_all_ok cb -> g_allow_space_uri g = false -> sg_chunked_ok g r = true -> sg_cuts_ok r cuts = true -> sg_fold_fits g r cuts = true ->
  sg_cbody_ok g ks last tr = true ->
  Forall (fun x => x <> []) chunks -> concat chunks = sg_fold_wire r cuts ++ sg_cbody_wire ks last tr ->
  sg_obs cb g (OpOpen :: map OpReqData chunks) = sg_obs cb g [OpOpen; OpReqData (sg_fold_wire r cuts ++ sg_cbody_wire ks last tr)].
Proof.
  intros cb g r cuts ks last tr chunks Hcb Hsp Wr C1 F1 B1 A1 E1.
  destruct (sg_request_chunked_chunking cb g r cuts ks last tr chunks Hcb Hsp Wr C1 F1 B1 A1 E1) as (t1 & T1 & M1).
  destruct (sg_request_chunked_chunking cb g r cuts ks last tr [sg_fold_wire r cuts ++ sg_cbody_wire ks last tr] Hcb Hsp Wr C1 F1 B1) as (t2 & T2 & M2).
  { constructor; [|constructor]. unfold sg_fold_wire. intro X. apply app_eq_nil in X. destruct X as [X _]. apply app_eq_nil in X. destruct X as [_ X]. discriminate. }
  { cbn [concat]. apply app_nil_r. }
  unfold sg_obs. cbn [map] in T2. rewrite T1, T2. cbn [map option_map]. rewrite M1, M2. reflexivity.
Qed.
(* two foldings of the header fields and two segmentations of the same request with the same coded body *)
Theorem sg_request_chunked_fold_chunking_obs : forall cb g r (ks : list bd_chunk) (last : bytes) (tr : list wr_field)
    (cuts1 : list (list bytes)) (chunks1 : list bytes) (cuts2 : list (list bytes)) (chunks2 : list bytes),
  wr_all_ok cb -> g_allow_space_uri g = false -> sg_chunked_ok g r = true -> sg_cbody_ok g ks last tr = true ->
  sg_cuts_ok r cuts1 = true -> sg_fold_fits g r cuts1 = true -> Forall (fun x => x <> []) chunks1 -> concat chunks1 = sg_fold_wire r cuts1 ++ sg_cbody_wire ks last tr ->
  sg_cuts_ok r cuts2 = true -> sg_fold_fits g r cuts2 = true -> Forall (fun x => x <> []) chunks2 -> concat chunks2 = sg_fold_wire r cuts2 ++ sg_cbody_wire ks last tr ->
  sg_obs cb g (OpOpen :: map OpReqData chunks1) = sg_obs cb g (OpOpen :: map OpReqData chunks2).
Proof.
  intros cb g r ks last tr cuts1 chunks1 cuts2 chunks2 Hcb Hsp Wr B C1 F1 A1 E1 C2 F2 A2 E2.
  destruct (sg_request_chunked_chunking cb g r cuts1 ks last tr chunks1 Hcb Hsp Wr C1 F1 B A1 E1) as (t1 & T1 & M1).
  destruct (sg_request_chunked_chunking cb g r cuts2 ks last tr chunks2 Hcb Hsp Wr C2 F2 B A2 E2) as (t2 & T2 & M2).
  unfold sg_obs. rewrite T1, T2. cbn [map option_map]. rewrite M1, M2. reflexivity.
Qed.
