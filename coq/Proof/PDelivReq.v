(* C06, history level, request direction: the driver of PSegGen / PSegChunkedGen (one request on a fresh connection, any
   chunking, explicit fuel) RESTATED with the REQUEST_BODY_DATA events of the run next to the invariants of PSeg.v:
   L = the REQUEST_BODY_DATA and REQUEST_COMPLETE events of the calls that have returned (oldest first); inside a call  dv_rb c = []  is carried through
   the header phase by the frame lemmas of PDeliv.v (the pass lemmas of PSeg*.v are used as they are: the loop body is a
   function, so "the pass goes round again with c'" and "a pass in this state appends no body event" are about the same c').
   What follows the empty line of the header block (dv_Htail) and the calls that start inside a body (dv_Hext_step) are
   parameters, as in PSegGen. *)
Require Import Htp.Model.Base Htp.Model.MBstr Htp.Model.MConnTypes Htp.Model.MTxCommon Htp.Model.MReqLine Htp.Model.MReqUri Htp.Model.MTxReq.
Require Import Htp.Model.MReq Htp.Model.MRes Htp.Model.MConnp.
Require Import Htp.Spec.SWire Htp.Spec.SBody Htp.Proof.PWire Htp.Proof.PWireHdr Htp.Proof.PWireBlock Htp.Proof.PWireConn Htp.Proof.PWireExch.
Require Import Htp.Proof.PWireRun Htp.Proof.PWirePres Htp.Proof.PWireGlue Htp.Proof.PSeg Htp.Proof.PSegLine Htp.Proof.PSegHdr Htp.Proof.PSegGen Htp.Proof.PSegRun.
Require Import Htp.Proof.PSegFold Htp.Proof.PSegChunkedGen Htp.Proof.PBody Htp.Proof.PDeliv.

(* ---- the frame lemmas on the invariants of PSeg.v ---- *)
Section FrameInv.
Variable cb : cb_oracle.
Variable g : cfg.
Hypothesis Hcb : wr_all_ok cb.
Context {w : sg_world}.
Notation sg_cin := (sg_cinw w).

Lemma dv_cin_rok c d rd p hdr st prev rh t : sg_cin c d rd p hdr st prev rh t -> (forall h, rh = Some h -> dv_rq_hook h = false) -> dv_rok c.
Proof. intros H Hn. unfold dv_rok. rewrite (ci_rh _ _ _ _ _ _ _ _ _ H). exact Hn. Qed.
Lemma dv_cin_inr c d rd p hdr st prev rh t c' : sg_cin c d rd p hdr st prev rh t -> dv_quiet st = true -> (forall h, rh = Some h -> dv_rq_hook h = false) ->
  rq_iter cb g false c = inr c' -> dv_rb c' = dv_rb c.
Proof.
  intros H Hq Hn E. apply (dv_fr_iter_inr cb g Hcb c c'); [rewrite (ci_state _ _ _ _ _ _ _ _ _ H); exact Hq|exact E|eapply dv_cin_rok; eassumption].
Qed.
Lemma dv_cin_inl c d rd p hdr st prev rh t c' rc : sg_cin c d rd p hdr st prev rh t -> dv_quiet st = true -> (forall h, rh = Some h -> dv_rq_hook h = false) ->
  rq_iter cb g false c = inl (c', rc) -> dv_rb c' = dv_rb c.
Proof.
  intros H Hq Hn E. apply (dv_fr_iter_inl cb g Hcb c c' rc); [rewrite (ci_state _ _ _ _ _ _ _ _ _ H); exact Hq|exact E|eapply dv_cin_rok; eassumption].
Qed.
End FrameInv.

Lemma dv_idl_inr cb g (Hcb : wr_all_ok cb) c d rd p done fl prev c' : sg_idl c d rd p done fl prev -> rq_iter cb g false c = inr c' -> dv_rb c' = dv_rb c.
Proof.
  intros H E. apply (dv_fr_iter_inr cb g Hcb c c'); [rewrite (il_state _ _ _ _ _ _ _ H); reflexivity|exact E|].
  unfold dv_rok. rewrite (il_rh _ _ _ _ _ _ _ H). intros h E'. discriminate E'.
Qed.

(* entering htp_connp_req_data: the prologue does not touch the event list *)
Lemma dv_enter cb g (w : sg_world) c p hdr st rh t (x : bytes) : sg_midw w c p hdr st rh t -> x <> [] ->
  exists c1, connp_req_data cb g (Some x) (length x) c = rq_loop cb g (rq_fuel (length x)) false c1 /\
             sg_cinw w c1 x 0 p hdr st (Some st) rh t /\ c_events c1 = c_events c /\
             c_in_body_data_left c1 = c_in_body_data_left c /\ c_in_chunked_length c1 = c_in_chunked_length c.
Proof.
  intros [A1 A2 A3 A4 A5 A6 A7 A8 A9 A10 A11] Hne. unfold connp_req_data.
  rewrite (sg_live_stop _ A1), (sg_live_error _ A1), A7.
  assert (L0 : (length x =? 0)%nat = false) by (destruct x; [contradiction|reflexivity]). rewrite L0. cbn [andb].
  match goal with |- context [(c_in_status ?y =? c_HTP_STREAM_TUNNEL)%Z] => change (c_in_status y) with (c_in_status c) end.
  rewrite (sg_live_tunnel _ A1).
  eexists. split; [reflexivity|].
  match goal with |- sg_cinw w (if ?b then _ else _) _ _ _ _ _ _ _ _ /\ _ => destruct b end.
  all: split; [|repeat split].
  all: constructor; try assumption; try reflexivity; cbn; try lia.
  all: rewrite app_nil_r; exact A4.
Qed.

Section GenE.
Variable cb : cb_oracle.
Variable g : cfg.
Hypothesis Hcb : wr_all_ok cb.
Hypothesis Hspace : g_allow_space_uri g = false.
Variables m u pr : bytes.
Hypothesis Wl : wr_wf_request_line m u pr = true.
Hypothesis Hlim0 : (length (wr_ser_request_line m u pr) + 2 <= g_field_limit_hard g)%nat.
Variable bwt : bytes.
Variable hlog : option bytes -> tx -> bytes -> bytes -> Prop.
Variable fin : list event -> list (option tx) -> Prop.      (* body-hook events of the whole run, transaction list at the end *)
Variable ext : list event -> connp -> bytes -> Prop.        (* body-hook events so far, state between two calls inside a body *)

Let line0 := wr_ser_request_line m u pr.
Let th0 := sg_th0 g 0 m u pr.
Notation sg_cin := (sg_cinw sg_w0).
Notation sg_mid := (sg_midw sg_w0).

Definition dv_between (L : list event) (c : connp) (rw : bytes) : Prop :=
  (L = [] /\ exists p q, sg_mid c p None REQ_LINE None (sg_t1 0) /\ p ++ q = line0 ++ [CR; LF] /\ q <> [] /\ rw = q ++ bwt) \/
  (L = [] /\ exists p hdr t, sg_mid c p hdr REQ_HEADERS (Some H_REQUEST_HEADER_DATA) t /\ hlog hdr t p rw) \/
  ext L c rw.
Definition dv_post (L : list event) (cF : connp) (rw' : bytes) : Prop :=
  (rw' <> [] /\ dv_between L cF rw') \/ (rw' = [] /\ fin L (c_txs cF)).

Hypothesis Hstart : hlog None th0 [] bwt.
Hypothesis Hext_finish : forall L c rw, ext L c rw -> ext L (forget_chunks c <| c_events := [] |>) rw.
Hypothesis Hext_step : forall L c (rw x rw' : bytes), ext L c rw -> c_events c = [] -> x <> [] -> rw = x ++ rw' ->
  exists c' rc, connp_req_data cb g (Some x) (length x) c = (c', rc) /\ dv_post (L ++ rev (dv_rb c')) c' rw'.
Hypothesis Hcall : forall c d rd p hdr t rw' F,
  sg_cin c d rd p hdr REQ_HEADERS (Some REQ_HEADERS) (Some H_REQUEST_HEADER_DATA) t -> hlog hdr t p (skipn rd d ++ rw') ->
  dv_rb c = [] -> (sg_need d rd <= F)%nat ->
  exists cF rc, rq_loop cb g F false c = (cF, rc) /\ dv_post (rev (dv_rb cF)) cF rw'.

Lemma dv_neq3 : forall h, Some H_REQUEST_HEADER_DATA = Some h -> dv_rq_hook h = false. Proof. intros h E. inversion E. reflexivity. Qed.
Lemma dv_neqN : forall h, @None nat = Some h -> dv_rq_hook h = false. Proof. intros h E. discriminate E. Qed.

(* ---- a call that starts (or continues) in REQ_LINE ---- *)
Lemma dv_call_line c d p q rw' F :
  sg_cin c d 0 p None REQ_LINE (Some REQ_LINE) None (sg_t1 0) ->
  p ++ q = line0 ++ [CR; LF] -> q <> [] -> d ++ rw' = q ++ bwt -> dv_rb c = [] -> (sg_need d 0 + 2 <= F)%nat ->
  exists cF rc, rq_loop cb g F false c = (cF, rc) /\ dv_post (rev (dv_rb cF)) cF rw'.
Proof.
  intros H Hpq Hq Hw Hev HF.
  destruct (wr_reqline_bytes m u pr Wl) as (Hnolf & _). fold line0 in Hnolf.
  assert (Eb : line0 ++ [CR; LF] = (line0 ++ [CR]) ++ [LF]) by (rewrite <- app_assoc; reflexivity).
  destruct (sg_app_cases d rw' q _ Hw) as [Clt Cge].
  assert (Es : c_in_state c = REQ_LINE) by apply (ci_state _ _ _ _ _ _ _ _ _ H).
  destruct F as [|F1]; [unfold sg_need in HF; lia|]. destruct F1 as [|F2]; [unfold sg_need in HF; lia|].
  destruct (Nat.lt_ge_cases (length d) (length q)) as [Llt|Lge].
  - (* the chunk ends inside the request line *)
    destruct (Clt Llt) as (q2 & Eq & Hq2 & Erw).
    assert (Nu : sg_no_lf d = true).
    { rewrite Eq, Eb, app_assoc in Hpq. destruct (sg_app_last _ _ _ _ Hpq Hq2) as (q3 & _ & E3). unfold sg_no_lf. rewrite <- E3, <- app_assoc, !forallb_app in Hnolf.
      apply andb_prop in Hnolf. destruct Hnolf as [_ Nb]. apply andb_prop in Nb. apply Nb. }
    destruct (sg_line_scan_nolf cb g d None _ _ (sg_t1 0) d c 0 p (length d) H eq_refl Nu (le_n _)) as (c' & E & H').
    assert (Lim : (length (p ++ d) + length (sg_olist None) <= g_field_limit_hard g)%nat).
    { assert (L : length (p ++ q) = (length line0 + 2)%nat) by (rewrite Hpq, app_length; reflexivity). rewrite app_length in L. rewrite app_length.
      cbn [sg_olist length]. unfold line0 in L. lia. }
    destruct (sg_exit_buffer cb g Hcb c' d _ None _ _ (sg_t1 0) H' Lim) as (cF & EF & HF').
    assert (Ei : rq_iter cb g false c = inl (cF, c_HTP_STREAM_DATA)).
    { unfold rq_iter. rewrite Es. cbn [rq_state_fn]. unfold REQ_LINE_fn.
      rewrite (ci_len _ _ _ _ _ _ _ _ _ H), (ci_read _ _ _ _ _ _ _ _ _ H), Nat.sub_0_r, E, EF. reflexivity. }
    pose proof (dv_cin_inl cb g Hcb c d _ _ _ _ _ _ _ cF _ H eq_refl dv_neqN Ei) as Ev. rewrite Hev in Ev.
    exists cF, c_HTP_STREAM_DATA. split; [apply sg_rq_loop_inl; exact Ei|]. rewrite Ev. cbn [rev].
    left. split; [rewrite Erw; destruct q2; [contradiction|discriminate]|]. left. split; [reflexivity|]. exists (p ++ d), q2.
    split; [exact HF'|]. split; [rewrite <- app_assoc, <- Eq; exact Hpq|]. split; [exact Hq2|exact Erw].
  - (* the request line is complete in this chunk *)
    destruct (Cge Lge) as (d2 & Ed & Eaft).
    rewrite Eb in Hpq. destruct (sg_app_last _ _ _ _ Hpq Hq) as (q1 & Eq1 & Ep1).
    assert (Nq1 : sg_no_lf q1 = true) by (unfold sg_no_lf in *; rewrite <- Ep1, forallb_app in Hnolf; apply andb_prop in Hnolf; apply Hnolf).
    assert (Ed' : d = q1 ++ LF :: d2) by (rewrite Ed, Eq1, <- app_assoc; reflexivity).
    assert (Ep : p ++ q1 ++ [LF] = wr_ser_request_line m u pr ++ [CR; LF]) by (rewrite app_assoc, Ep1; symmetry; exact Eb).
    destruct (sg_pass_line cb g Hcb Hspace c d p q1 d2 (sg_t1 0) m u pr Wl eq_refl H Ed' Nq1 Ep Hlim0) as (c2 & E2 & H2 & Hr2).
    pose proof (dv_cin_inr cb g Hcb c d _ _ _ _ _ _ _ c2 H eq_refl dv_neqN E2) as Ev2. rewrite Hev in Ev2.
    rewrite (sg_rq_loop_inr cb g _ _ _ E2).
    assert (Z9 : t_is_protocol_0_9 (sg_tx_line g (sg_t1 0) (wr_ser_request_line m u pr)) = false).
    { destruct (sg_tx_line_facts g Hspace (sg_t1 0) m u pr Wl eq_refl) as (_ & F' & _). cbv zeta in F'. unfold wr_line_fields in F'. decompose [and] F'. assumption. }
    destruct (sg_pass_protocol cb g c2 d _ _ H2 Z9) as (c3 & E3 & H3).
    pose proof (dv_cin_inr cb g Hcb c2 d _ _ _ _ _ _ _ c3 H2 eq_refl dv_neqN E3) as Ev3. rewrite Ev2 in Ev3.
    rewrite (sg_rq_loop_inr cb g _ _ _ E3).
    apply (Hcall c3 d _ [] None th0 rw' F2 H3); [rewrite Hr2, <- Eaft; exact Hstart|exact Ev3|]. unfold sg_need in *. lia.
Qed.

(* ---- one call of htp_connp_req_data ---- *)
Lemma dv_step L c (rw x rw' : bytes) : dv_between L c rw -> c_events c = [] -> x <> [] -> rw = x ++ rw' ->
  exists c' rc, connp_req_data cb g (Some x) (length x) c = (c', rc) /\ dv_post (L ++ rev (dv_rb c')) c' rw'.
Proof.
  intros [(EL & p & q & Hm & Hpq & Hq & Erw)|[(EL & p & hdr & t & Hm & Hl)|He]] Hev Hne Ex.
  - destruct (dv_enter cb g _ c p None _ _ (sg_t1 0) x Hm Hne) as (c1 & E1 & H1 & V1 & _). unfold bytes in *. rewrite E1.
    pose proof (sg_fuel_need x Hne) as Fx. rewrite EL. cbn [app].
    apply (dv_call_line c1 x p q rw' _ H1 Hpq Hq); [rewrite <- Ex; exact Erw|unfold dv_rb; rewrite V1, Hev; reflexivity|lia].
  - destruct (dv_enter cb g _ c p hdr _ _ t x Hm Hne) as (c1 & E1 & H1 & V1 & _). unfold bytes in *. rewrite E1.
    pose proof (sg_fuel_need x Hne) as Fx. rewrite EL. cbn [app].
    apply (Hcall c1 x 0 p hdr t rw' _ H1); [cbn [skipn]; rewrite <- Ex; exact Hl|unfold dv_rb; rewrite V1, Hev; reflexivity|lia].
  - apply (Hext_step L c rw x rw' He Hev Hne Ex).
Qed.

(* the first call: the parser as htp_connp_open leaves it *)
Lemma dv_first c0 (x rw' : bytes) :
  c_in_status c0 = c_HTP_STREAM_OPEN -> c_out_status c0 = c_HTP_STREAM_OPEN -> c_in_state c0 = REQ_IDLE -> c_in_state_previous c0 = None ->
  c_in_tx c0 = None -> c_txs c0 = [] -> c_txs_shifted c0 = 0%nat ->
  k_buf (c_in c0) = None -> k_header (c_in c0) = None -> k_receiver_hook (c_in c0) = None ->
  c_conn_flags c0 = 0%N -> c_out_next_tx_index c0 = 0%nat -> c_events c0 = [] ->
  x <> [] -> x ++ rw' = line0 ++ [CR; LF] ++ bwt ->
  exists c' rc, connp_req_data cb g (Some x) (length x) c0 = (c', rc) /\ dv_post (rev (dv_rb c')) c' rw'.
Proof.
  intros Hst Host Hs Hp Ht Htxs Hshift Hb Hh Hrh Hfl Hon Hev Hne Ex.
  assert (Hlen0 : (length x =? 0)%nat = false) by (destruct x; [contradiction|reflexivity]).
  unfold connp_req_data. rewrite Hst.
  change ((c_HTP_STREAM_OPEN =? c_HTP_STREAM_STOP)%Z) with false. change ((c_HTP_STREAM_OPEN =? c_HTP_STREAM_ERROR)%Z) with false. cbv iota.
  rewrite Ht, Hs. cbn [req_state_eqb negb]. rewrite Hlen0. cbn [andb].
  match goal with |- context [rq_loop cb g _ _ ?y] => set (c1 := y) end.
  assert (St1 : (c_in_status (rq_set_in (fun k => k <| k_data := Some x |> <| k_len := length x |> <| k_read := 0%nat |> <| k_consume := 0%nat |> <| k_receiver := 0%nat |>) c0
                   <| c_in_chunk_count ::= S |> <| c_in_data_counter ::= Z.add (Z.of_nat (length x)) |>) =? c_HTP_STREAM_TUNNEL)%Z = false).
  { change (c_in_status _) with (c_in_status c0). rewrite Hst. reflexivity. }
  rewrite St1 in *. clear St1.
  assert (Idle1 : sg_idl c1 x 0 [] [] 0%N None /\ c_events c1 = []).
  { unfold c1. match goal with |- context [(c_out_status ?y =? _)%Z] => change (c_out_status y) with (c_out_status c0) end. rewrite Host. change ((c_HTP_STREAM_OPEN =? c_HTP_STREAM_DATA_OTHER)%Z) with false. cbv iota.
    split; [|exact Hev].
    constructor; try assumption; try reflexivity; try (cbn; lia).
    - left. exact Hst.
    - cbn. rewrite Hb. reflexivity. }
  clearbody c1. destruct Idle1 as [Idle1 V1].
  assert (Lx : (0 < length x)%nat) by (destruct x; [contradiction|cbn; lia]).
  destruct (sg_pass_idle cb g Hcb c1 x 0 [] [] 0%N None Idle1 Lx ltac:(right; cbn; lia)) as (c2 & E2 & H2).
  pose proof (dv_idl_inr cb g Hcb c1 _ _ _ _ _ _ c2 Idle1 E2) as Ev2. unfold dv_rb at 2 in Ev2. rewrite V1 in Ev2. cbn [dv_selp filter] in Ev2.
  pose proof (sg_fuel_need x Hne) as Fx.
  destruct (rq_fuel (length x)) as [|F1] eqn:EF; [unfold sg_need in Fx; lia|].
  rewrite (sg_rq_loop_inr cb g _ _ _ E2).
  apply (dv_call_line c2 x [] (line0 ++ [CR; LF]) rw' _ H2 eq_refl).
  - intro E. apply app_eq_nil in E. destruct E as [_ E]. discriminate.
  - rewrite Ex, <- !app_assoc. reflexivity.
  - exact Ev2.
  - lia.
Qed.

Lemma dv_between_finish L c rw : dv_between L c rw -> dv_between L (forget_chunks c <| c_events := [] |>) rw.
Proof.
  intros [(EL & p & q & Hm & R)|[(EL & p & hdr & t & Hm & R)|He]].
  - left. split; [exact EL|]. exists p, q. split; [apply sg_mid_finish; exact Hm|exact R].
  - right. left. split; [exact EL|]. exists p, hdr, t. split; [apply sg_mid_finish; exact Hm|exact R].
  - right. right. apply Hext_finish. exact He.
Qed.

Definition dv_rlog (c : connp) (ops : list cp_op) : list event :=
  dv_selp dv_rq_hook (concat (map r_events (snd (cp_run cb g c ops)))).
Lemma dv_rlog_cons c (x : bytes) ops :
  dv_rlog c (OpReqData x :: ops) =
    rev (dv_rb (fst (connp_req_data cb g (Some x) (length x) c))) ++
    dv_rlog (forget_chunks (fst (connp_req_data cb g (Some x) (length x) c)) <| c_events := [] |>) ops.
Proof. unfold dv_rlog. rewrite dv_log_req_cons, dv_selp_app, dv_selp_rev. reflexivity. Qed.

(* ---- every later chunk ---- *)
Lemma dv_chunks : forall (chunks : list bytes) L c rw, dv_between L c rw -> c_events c = [] -> rw <> [] ->
  Forall (fun x => x <> []) chunks -> concat chunks = rw ->
  fin (L ++ dv_rlog c (map OpReqData chunks)) (c_txs (fst (cp_run cb g c (map OpReqData chunks)))).
Proof.
  induction chunks as [|x rest IH]; intros L c rw Hb Hev Hne Hall Hc.
  - cbn [concat] in Hc. congruence.
  - cbn [concat] in Hc. cbn [map]. rewrite sg_cp_run_cons, dv_rlog_cons.
    destruct (dv_step L c rw x (concat rest) Hb Hev (Forall_inv Hall) (eq_sym Hc)) as (c' & rc & E & [[Hn Hb']|[Hn T]]); unfold bytes in *; rewrite E; cbn [fst].
    + rewrite app_assoc. apply (IH _ _ (concat rest) (dv_between_finish _ _ _ Hb') eq_refl Hn (Forall_inv_tail Hall) eq_refl).
    + rewrite (sg_concat_nil rest (Forall_inv_tail Hall) Hn). cbn [map cp_run fst]. unfold dv_rlog. cbn [cp_run snd map concat dv_selp filter]. rewrite app_nil_r. exact T.
Qed.

(* ---- every chunking of the request, from htp_connp_open on ---- *)
Lemma dv_all_chunks (chunks : list bytes) : Forall (fun x => x <> []) chunks -> concat chunks = line0 ++ [CR; LF] ++ bwt ->
  fin (dv_selp dv_rq_hook (dv_log cb g (OpOpen :: map OpReqData chunks)))
      (c_txs (fst (cp_run cb g connp_new (OpOpen :: map OpReqData chunks)))).
Proof.
  intros Hall Hc.
  set (c0 := forget_chunks (connp_open connp_new) <| c_events := [] |>).
  assert (E0 : fst (cp_run cb g connp_new (OpOpen :: map OpReqData chunks)) = fst (cp_run cb g c0 (map OpReqData chunks))).
  { cbn [cp_run cp_step]. unfold finish_call. fold c0. destruct (cp_run cb g c0 (map OpReqData chunks)). reflexivity. }
  assert (E1 : dv_selp dv_rq_hook (dv_log cb g (OpOpen :: map OpReqData chunks)) = dv_rlog c0 (map OpReqData chunks)).
  { unfold dv_log, dv_rlog. cbn [cp_run cp_step]. unfold finish_call. fold c0. destruct (cp_run cb g c0 (map OpReqData chunks)). reflexivity. }
  rewrite E0, E1. destruct chunks as [|x rest].
  - cbn [concat] in Hc. symmetry in Hc. apply app_eq_nil in Hc. destruct Hc as [_ Hc]. discriminate.
  - cbn [concat] in Hc. cbn [map]. rewrite sg_cp_run_cons, dv_rlog_cons.
    destruct (dv_first c0 x (concat rest) eq_refl eq_refl eq_refl eq_refl eq_refl eq_refl eq_refl eq_refl eq_refl eq_refl eq_refl eq_refl eq_refl (Forall_inv Hall) Hc)
      as (c' & rc & E & [[Hn Hb']|[Hn T]]); unfold bytes in *; rewrite E; cbn [fst].
    + apply (dv_chunks rest _ _ (concat rest) (dv_between_finish _ _ _ Hb') eq_refl Hn (Forall_inv_tail Hall) eq_refl).
    + rewrite (sg_concat_nil rest (Forall_inv_tail Hall) Hn). cbn [map cp_run fst]. unfold dv_rlog. cbn [cp_run snd map concat dv_selp filter]. rewrite app_nil_r. exact T.
Qed.
End GenE.

(* ---- the header phase of PSegFold (folded header fields); what follows the empty line is a parameter ---- *)
Section Fold0E.
Variable cb : cb_oracle.
Variable g : cfg.
Hypothesis Hcb : wr_all_ok cb.
Notation sg_cin := (sg_cinw sg_w0).
Variables m u pr : bytes.
Variables bwt tailw : bytes.
Variable Tend : tx.
Variable fin : list event -> list (option tx) -> Prop.
Variable ext : list event -> connp -> bytes -> Prop.
Hypothesis Htail : forall c c1 d rd1 rw' F, c_in_state c = REQ_HEADERS ->
  rq_state_fn cb g REQ_HEADERS c = rq_with_tx (tx_state_request_headers cb) c1 ->
  sg_cin c1 d rd1 [] None REQ_HEADERS (Some REQ_HEADERS) (Some H_REQUEST_HEADER_DATA) Tend -> skipn rd1 d ++ rw' = tailw ->
  dv_rb c = [] -> dv_rok c -> (sg_need d rd1 <= F)%nat ->
  exists cF rc, rq_loop cb g F false c = (cF, rc) /\ dv_post m u pr bwt (sg_fhlog g Tend tailw) fin ext (rev (dv_rb cF)) cF rw'.

Lemma dv_fcall_hdrs c d rd p hdr t rw' F :
  sg_cin c d rd p hdr REQ_HEADERS (Some REQ_HEADERS) (Some H_REQUEST_HEADER_DATA) t ->
  sg_fhlog g Tend tailw hdr t p (skipn rd d ++ rw') -> dv_rb c = [] -> (sg_need d rd <= F)%nat ->
  exists cF rc, rq_loop cb g F false c = (cF, rc) /\ dv_post m u pr bwt (sg_fhlog g Tend tailw) fin ext (rev (dv_rb cF)) cF rw'.
Proof.
  intros H (pend & tl & rem & q & Hrel & Ok & Hnp & Hrun & Hpq & Hq & Hw & Hfit) Hev HF.
  assert (Es : c_in_state c = REQ_HEADERS) by apply (ci_state _ _ _ _ _ _ _ _ _ H).
  assert (Ef : rq_state_fn cb g REQ_HEADERS c = REQ_HEADERS_loop cb g (length d - rd) c).
  { cbn [rq_state_fn]. unfold REQ_HEADERS_fn. rewrite (ci_len _ _ _ _ _ _ _ _ _ H), (ci_read _ _ _ _ _ _ _ _ _ H). reflexivity. }
  destruct (sg_fhdrs_loop cb g d rw' Tend tailw rem c rd p q hdr t pend tl (length d - rd) H Hrel Ok Hnp Hrun Hpq Hq Hw Hfit (le_n _)) as [HA|HB].
  - destruct HA as (c' & p' & hdr' & t' & EA & HA1 & HA2 & HA3).
    assert (Lim : (length p' + length (sg_olist hdr') <= g_field_limit_hard g)%nat).
    { destruct HA2 as (pe & te & re & q' & Hr' & _ & _ & _ & Epq & _ & _ & Fit). pose proof (sg_ffit_next _ _ _ Fit) as L. rewrite <- Epq, app_length in L.
      pose proof (sg_rel_len _ _ _ _ _ Hr'). lia. }
    destruct (sg_exit_buffer cb g Hcb c' d p' hdr' _ _ t' HA1 Lim) as (cF & EF & HF').
    assert (Ei : rq_iter cb g false c = inl (cF, c_HTP_STREAM_DATA)) by (unfold rq_iter; rewrite Es, Ef, EA, EF; reflexivity).
    pose proof (dv_cin_inl cb g Hcb c d _ _ _ _ _ _ _ cF _ H eq_refl dv_neq3 Ei) as Ev. rewrite Hev in Ev.
    exists cF, c_HTP_STREAM_DATA. split.
    + destruct F as [|F1]; [unfold sg_need in HF; lia|]. apply sg_rq_loop_inl. exact Ei.
    + rewrite Ev. cbn [rev]. left. split; [exact HA3|]. right. left. split; [reflexivity|]. exists p', hdr', t'. split; [exact HF'|exact HA2].
  - destruct HB as (c' & rd1 & EB & HB1 & HB2). rewrite <- Ef in EB.
    apply (Htail c c' d rd1 rw' F Es EB HB1 HB2 Hev (dv_cin_rok c d _ _ _ _ _ _ _ H dv_neq3)).
    pose proof (ci_rd _ _ _ _ _ _ _ _ _ H). pose proof (ci_rd _ _ _ _ _ _ _ _ _ HB1).
    assert (Lr : (length d - rd1 <= length d - rd)%nat).
    { assert (L1 : length (skipn rd1 d ++ rw') = length tailw) by (rewrite HB2; reflexivity).
      assert (L2 : length (skipn rd d ++ rw') = length (q ++ sg_fafter tailw rem)) by (rewrite Hw; reflexivity).
      rewrite app_length, skipn_length in L1. rewrite !app_length, skipn_length in L2.
      assert (L3 : (length tailw <= length (sg_fafter tailw rem))%nat).
      { destruct rem as [|x r]; cbn [sg_fafter]; [lia|]. rewrite !app_length. lia. }
      lia. }
    unfold sg_need in *. lia.
Qed.
End Fold0E.
