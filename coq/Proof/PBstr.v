(* Byte-string primitives and numeric parsers return the mathematical result. *)
Require Import Htp.Model.Base Htp.Model.MBstr.
Local Open Scope Z_scope.

(* ---- compare: lexicographic order on bytes ---- *)
Inductive lex_lt : bytes -> bytes -> Prop :=
  | lex_nil y b : lex_lt [] (y :: b)
  | lex_head x y a b : (x < y)%N -> lex_lt (x :: a) (y :: b)
  | lex_tail x a b : lex_lt a b -> lex_lt (x :: a) (x :: b).

Lemma cmp_mem_eq a : forall b, cmp_mem a b = 0 <-> a = b.
Proof.
  induction a as [|x a IH]; intros [|y b]; cbn; split; intros H; try reflexivity; try discriminate.
  - destruct (x =? y)%N eqn:E.
    + apply N.eqb_eq in E. subst. f_equal. apply IH. exact H.
    + destruct (x <? y)%N; discriminate.
  - inversion H; subst. rewrite N.eqb_refl. apply IH. reflexivity.
Qed.

Lemma cmp_mem_lt a : forall b, cmp_mem a b = -1 <-> lex_lt a b.
Proof.
  induction a as [|x a IH]; intros [|y b]; cbn; split; intros H; try discriminate; try (inversion H; fail).
  - constructor.
  - reflexivity.
  - destruct (x =? y)%N eqn:E.
    + apply N.eqb_eq in E. subst. apply lex_tail. apply IH. exact H.
    + destruct (x <? y)%N eqn:E2; [|discriminate]. apply N.ltb_lt in E2. apply lex_head. exact E2.
  - inversion H; subst.
    + assert (E : (x =? y)%N = false) by (apply N.eqb_neq; lia). rewrite E.
      assert (E2 : (x <? y)%N = true) by (apply N.ltb_lt; lia). rewrite E2. reflexivity.
    + rewrite N.eqb_refl. apply IH. assumption.
Qed.

Lemma cmp_mem_range a : forall b, cmp_mem a b = 0 \/ cmp_mem a b = -1 \/ cmp_mem a b = 1.
Proof.
  induction a as [|x a IH]; intros [|y b]; cbn; auto.
  destruct (x =? y)%N; [apply IH|]. destruct (x <? y)%N; auto.
Qed.

Lemma cmp_mem_antisym a : forall b, cmp_mem b a = - cmp_mem a b.
Proof.
  induction a as [|x a IH]; intros [|y b]; cbn; try reflexivity.
  rewrite (N.eqb_sym y x). destruct (x =? y)%N eqn:E; [apply IH|].
  apply N.eqb_neq in E. destruct (x <? y)%N eqn:E1; destruct (y <? x)%N eqn:E2; try reflexivity;
    [apply N.ltb_lt in E1; apply N.ltb_lt in E2; lia | apply N.ltb_ge in E1; apply N.ltb_ge in E2; lia].
Qed.

(* case-insensitive compare = compare after lower-casing *)
Lemma cmp_mem_nocase_spec a : forall b, cmp_mem_nocase a b = cmp_mem (map c_tolower a) (map c_tolower b).
Proof. induction a as [|x a IH]; intros [|y b]; cbn; try reflexivity. rewrite IH. reflexivity. Qed.

(* ...norzero: NUL bytes of the first argument are skipped *)
Definition nonzero (s : bytes) := filter (fun b => negb (b =? 0)%N) s.
Lemma skip_zeros_nil a : skip_zeros a = [] <-> nonzero a = [].
Proof.
  induction a as [|x a IH]; cbn; [tauto|]. destruct (x =? 0)%N; cbn; [exact IH|]. split; discriminate.
Qed.
Lemma cmp_mem_nocasenorzero_spec a : forall b, cmp_mem_nocasenorzero a b = cmp_mem_nocase (nonzero a) b.
Proof.
  induction a as [|x a IH]; intros b; [destruct b; reflexivity|].
  destruct b as [|y b].
  - cbn [cmp_mem_nocasenorzero].
    destruct (skip_zeros (x :: a)) eqn:E; destruct (nonzero (x :: a)) eqn:E2; try reflexivity.
    + apply skip_zeros_nil in E. congruence.
    + apply skip_zeros_nil in E2. congruence.
  - cbn [cmp_mem_nocasenorzero nonzero filter]. destruct (x =? 0)%N; cbn [negb]; [apply IH|].
    cbn [cmp_mem_nocase]. fold (nonzero a). rewrite IH. reflexivity.
Qed.

(* ---- search ---- *)
Definition is_prefix (n h : bytes) : Prop := exists t, h = n ++ t.
Lemma match_at_prefix h : forall n, match_at h n = true <-> is_prefix n h.
Proof.
  induction h as [|x h IH]; intros [|y n]; cbn; split; intros H; try reflexivity; try discriminate.
  - exists []. reflexivity.
  - destruct H as [t Ht]. discriminate.
  - exists (x :: h). reflexivity.
  - destruct (x =? y)%N eqn:E; [|discriminate]. apply N.eqb_eq in E. subst.
    apply IH in H. destruct H as [t Ht]. exists t. cbn. f_equal. exact Ht.
  - destruct H as [t Ht]. cbn in Ht. inversion Ht; subst. rewrite N.eqb_refl. apply IH. exists t. reflexivity.
Qed.

Lemma index_from_spec h : forall n i0,
  (index_from h n i0 = -1 /\ forall j, (j < length h)%nat -> ~ is_prefix n (skipn j h)) \/
  (exists i, (i < length h)%nat /\ index_from h n i0 = i0 + Z.of_nat i /\ is_prefix n (skipn i h) /\
             forall j, (j < i)%nat -> ~ is_prefix n (skipn j h)).
Proof.
  induction h as [|x h IH]; intros n i0.
  - left. split; [reflexivity|]. intros j Hj. cbn in Hj. lia.
  - cbn [index_from]. destruct (match_at (x :: h) n) eqn:E.
    + right. exists 0%nat. cbn [length skipn]. repeat split; try lia. apply match_at_prefix. exact E.
    + assert (Hn : ~ is_prefix n (x :: h)) by (intros Hp; apply match_at_prefix in Hp; congruence).
      destruct (IH n (i0 + 1)) as [[H1 H2]|[i [Hi [H1 [H2 H3]]]]].
      * left. split; [exact H1|]. intros [|j] Hj; [exact Hn|]. cbn [skipn]. apply H2. cbn in Hj. lia.
      * right. exists (S i). cbn [length skipn]. repeat split; try lia; [exact H2|].
        intros [|j] Hj; [exact Hn|]. cbn [skipn]. apply H3. lia.
Qed.

Theorem index_of_mem_spec h n :
  (index_of_mem h n = -1 /\ forall j, (j < length h)%nat -> ~ is_prefix n (skipn j h)) \/
  (exists i, (i < length h)%nat /\ index_of_mem h n = Z.of_nat i /\ is_prefix n (skipn i h) /\
             forall j, (j < i)%nat -> ~ is_prefix n (skipn j h)).
Proof. unfold index_of_mem. destruct (index_from_spec h n 0) as [H|[i H]]; [left; exact H|right; exists i; exact H]. Qed.

Lemma begins_with_mem_spec h : forall n, begins_with_mem h n = true <-> is_prefix n h.
Proof. exact (match_at_prefix h). Qed.

Lemma begins_with_mem_nocase_spec h : forall n,
  begins_with_mem_nocase h n = begins_with_mem (map c_tolower h) (map c_tolower n).
Proof. induction h as [|x h IH]; intros [|y n]; cbn; try reflexivity. rewrite IH. reflexivity. Qed.

(* bstr_chr: least index holding c *)
Lemma chr_from_spec s c : forall i0,
  (chr_from s c i0 = -1 /\ ~ In c s) \/
  (exists i, chr_from s c i0 = i0 + Z.of_nat i /\ nth_error s i = Some c /\ ~ In c (firstn i s)).
Proof.
  induction s as [|x s IH]; intros i0; cbn [chr_from].
  - left. split; [reflexivity|intros []].
  - destruct (x =? c)%N eqn:E.
    + apply N.eqb_eq in E. subst. right. exists 0%nat. cbn. repeat split; try lia; try (intros []); try reflexivity.
    + apply N.eqb_neq in E. destruct (IH (i0 + 1)) as [[H1 H2]|[i [H1 [H2 H3]]]].
      * left. split; [exact H1|]. intros [H|H]; auto.
      * right. exists (S i). cbn [nth_error firstn]. repeat split; [lia|exact H2|]. intros [H|H]; auto.
Qed.
Theorem bstr_chr_spec s c :
  (bstr_chr s c = -1 /\ ~ In c s) \/
  (exists i, bstr_chr s c = Z.of_nat i /\ nth_error s i = Some c /\ ~ In c (firstn i s)).
Proof. unfold bstr_chr. destruct (chr_from_spec s c 0) as [H|[i H]]; [left; exact H|right; exists i; exact H]. Qed.

(* trim: what is removed is white space, what remains has none at either end *)
Lemma drop_while_split p s : exists l, s = l ++ drop_while p s /\ forallb p l = true.
Proof.
  induction s as [|x s [l [H1 H2]]]; cbn; [exists []; split; reflexivity|].
  destruct (p x) eqn:E; [|exists []; split; reflexivity].
  exists (x :: l). cbn. rewrite E, H2. split; [f_equal; exact H1|reflexivity].
Qed.
Lemma drop_while_head p s : match drop_while p s with [] => True | x :: _ => p x = false end.
Proof. induction s as [|x s IH]; cbn; [exact I|]. destruct (p x) eqn:E; [exact IH|exact E]. Qed.

Theorem mem_trim_spec s :
  exists l r, s = l ++ mem_trim s ++ r /\ forallb c_isspace l = true /\ forallb c_isspace r = true /\
    match mem_trim s with [] => True | x :: _ => c_isspace x = false end /\
    match rev (mem_trim s) with [] => True | x :: _ => c_isspace x = false end.
Proof.
  unfold mem_trim, strip_right.
  destruct (drop_while_split c_isspace s) as [l [H1 H2]].
  set (m := drop_while c_isspace s) in *.
  destruct (drop_while_split c_isspace (rev m)) as [r [H3 H4]].
  set (t := drop_while c_isspace (rev m)) in *.
  exists l, (rev r). repeat split.
  - rewrite H1 at 1. f_equal. rewrite <- rev_app_distr. rewrite <- H3. rewrite rev_involutive. reflexivity.
  - exact H2.
  - rewrite forallb_forall in *. intros x Hx. apply H4. apply in_rev. exact Hx.
  - pose proof (drop_while_head c_isspace s) as Hh. fold m in Hh.
    destruct (rev t) as [|x t'] eqn:Et; [exact I|].
    assert (Hm : m = rev t ++ rev r) by (rewrite <- rev_app_distr, <- H3, rev_involutive; reflexivity).
    rewrite Et in Hm. rewrite Hm in Hh. exact Hh.
  - rewrite rev_involutive. exact (drop_while_head c_isspace (rev m)).
Qed.

Lemma to_lowercase_spec s : to_lowercase s = map c_tolower s /\ length (to_lowercase s) = length s.
Proof. unfold to_lowercase. rewrite map_length. split; reflexivity. Qed.

(* bstr_add_mem_noex never writes past the allocation and appends a prefix of the source *)
Theorem add_mem_noex_spec size d src : (length d <= size)%nat ->
  add_mem_noex size d src = d ++ firstn (size - length d) src /\ (length (add_mem_noex size d src) <= size)%nat.
Proof.
  intros H. unfold add_mem_noex. destruct (size <? length d + length src)%nat eqn:E.
  - apply Nat.ltb_lt in E. split; [reflexivity|]. rewrite app_length, firstn_length. lia.
  - apply Nat.ltb_ge in E. rewrite firstn_all2 by lia. split; [reflexivity|]. rewrite app_length. lia.
Qed.

(* ---- numbers ---- *)
Definition digit_ok (base : Z) (c : N) : bool := negb ((digit_of c =? -1) || (base <=? digit_of c)).
Fixpoint digits (base : Z) (s : bytes) : list Z :=
  match s with
  | [] => []
  | c :: r => if digit_ok base c then digit_of c :: digits base r else []
  end.
Definition value_from (base : Z) (acc : Z) (ds : list Z) : Z := fold_left (fun a d => a * base + d) ds acc.
Definition value (base : Z) (ds : list Z) : Z := value_from base 0 ds.

Lemma digit_of_range c : digit_of c = -1 \/ 0 <= digit_of c <= 35.
Proof.
  unfold digit_of, zb. set (z := Z.of_N c).
  destruct ((48 <=? z) && (z <=? 57)) eqn:E1; [right; lia|].
  destruct ((97 <=? z) && (z <=? 122)) eqn:E2; [right; lia|].
  destruct ((65 <=? z) && (z <=? 90)) eqn:E3; [right; lia|]. left. reflexivity.
Qed.

Lemma value_from_mono base acc acc' ds : 0 < base -> Forall (fun d => 0 <= d) ds -> acc <= acc' ->
  value_from base acc ds <= value_from base acc' ds.
Proof.
  intros Hb. revert acc acc'. induction ds as [|d ds IH]; intros acc acc' Hd Ha; cbn; [exact Ha|].
  inversion Hd; subst. apply IH; [assumption|]. nia.
Qed.
Lemma value_from_ge base acc ds : 0 < base -> 0 <= acc -> Forall (fun d => 0 <= d) ds -> acc <= value_from base acc ds.
Proof.
  intros Hb. revert acc. induction ds as [|d ds IH]; intros acc Ha Hd; cbn; [lia|].
  inversion Hd; subst. etransitivity; [|apply IH; [nia|assumption]]. nia.
Qed.
Lemma digits_nonneg base s : Forall (fun d => 0 <= d) (digits base s).
Proof.
  induction s as [|c s IH]; cbn; [constructor|]. unfold digit_ok. destruct (digit_of_range c) as [H|H].
  - rewrite H. cbn. constructor.
  - destruct ((digit_of c =? -1) || (base <=? digit_of c)); cbn; constructor; [lia|exact IH].
Qed.

(* the loop invariant: with an accumulated value rval <= INT64_MAX, the result is the value of
   all digits when it fits, -2 when it does not; no intermediate rval*base+d exceeds INT64_MAX *)
Lemma pint_loop_spec base : 2 <= base <= 36 -> forall s i rval, 0 <= rval <= INT64_MAX ->
  fst (pint_loop s base i rval true) =
    (if value_from base rval (digits base s) <=? INT64_MAX then value_from base rval (digits base s) else -2).
Proof.
  intros Hb. induction s as [|c s IH]; intros i rval Hr.
  - cbn. destruct (rval <=? INT64_MAX) eqn:E; [reflexivity|lia].
  - cbn [pint_loop digits]. unfold digit_ok.
    destruct ((digit_of c =? -1) || (base <=? digit_of c)) eqn:E; cbn [negb].
    + cbn. destruct (rval <=? INT64_MAX) eqn:E2; [reflexivity|lia].
    + assert (Hd : 0 <= digit_of c < base) by (destruct (digit_of_range c); lia).
      set (d := digit_of c) in *.
      destruct ((INT64_MAX - d) / base <? rval) eqn:E2.
      * (* overflow detected: the true value does not fit *)
        cbn [fst]. apply Z.ltb_lt in E2.
        assert (Hov : INT64_MAX < rval * base + d).
        { assert (H1 : (INT64_MAX - d) / base + 1 <= rval) by lia.
          assert (H2 : INT64_MAX - d < base * ((INT64_MAX - d) / base + 1)).
          { pose proof (Z.mul_succ_div_gt (INT64_MAX - d) base). lia. }
          nia. }
        cbn [value_from fold_left]. fold (value_from base (rval * base + d) (digits base s)).
        assert (Hge : rval * base + d <= value_from base (rval * base + d) (digits base s)).
        { apply value_from_ge; [lia|nia|apply digits_nonneg]. }
        destruct (value_from base (rval * base + d) (digits base s) <=? INT64_MAX) eqn:E3; [lia|reflexivity].
      * apply Z.ltb_ge in E2.
        assert (Hfit : rval * base + d <= INT64_MAX).
        { assert (H1 : base * ((INT64_MAX - d) / base) <= INT64_MAX - d) by (apply Z.mul_div_le; lia). nia. }
        rewrite IH by nia. reflexivity.
Qed.

Theorem to_pint_spec s base : 2 <= base <= 36 -> s <> [] ->
  fst (mem_to_pint s base) =
    match digits base s with
    | [] => -1
    | ds => if value base ds <=? INT64_MAX then value base ds else -2
    end.
Proof.
  intros Hb Hs. unfold mem_to_pint. destruct s as [|c s]; [congruence|].
  cbn [pint_loop digits]. unfold digit_ok.
  destruct ((digit_of c =? -1) || (base <=? digit_of c)) eqn:E; cbn [negb]; [reflexivity|].
  assert (Hd : 0 <= digit_of c < base) by (destruct (digit_of_range c); lia).
  rewrite pint_loop_spec; [|exact Hb|unfold INT64_MAX; cbv [c_INT64_MAX]; lia].
  unfold value. cbn [value_from fold_left]. rewrite Z.mul_0_l, Z.add_0_l. reflexivity.
Qed.

(* the value that is reported is never a wrapped one: it is in 0..INT64_MAX or an error code *)
Corollary to_pint_no_wrap s base : 2 <= base <= 36 -> s <> [] ->
  let r := fst (mem_to_pint s base) in r = -1 \/ r = -2 \/ (0 <= r <= INT64_MAX /\ r = value base (digits base s)).
Proof.
  intros Hb Hs r. unfold r. rewrite to_pint_spec by assumption.
  destruct (digits base s) as [|d ds] eqn:E; [left; reflexivity|]. cbv zeta.
  destruct (value base (d :: ds) <=? INT64_MAX) eqn:E2; [|right; left; reflexivity].
  right; right. split; [|reflexivity]. split; [|lia].
  unfold value. etransitivity; [|apply value_from_ge]; try lia. rewrite <- E. apply digits_nonneg.
Qed.

(* status / chunk length / content length are thin wrappers: their range tests *)
Theorem parse_status_range s :
  parse_status s = c_HTP_STATUS_INVALID \/ c_HTP_VALID_STATUS_MIN <= parse_status s <= c_HTP_VALID_STATUS_MAX.
Proof.
  unfold parse_status. set (r := parse_positive_integer_whitespace s 10).
  destruct ((c_HTP_VALID_STATUS_MIN <=? r) && (r <=? c_HTP_VALID_STATUS_MAX)) eqn:E; [right; lia|left; reflexivity].
Qed.

Theorem parse_chunked_length_range s : fst (parse_chunked_length s) <= INT32_MAX.
Proof.
  unfold parse_chunked_length. destruct (drop_while is_chunk_ctl s) as [|c r]; cbn [fst].
  - unfold INT32_MAX. cbv [c_INT32_MAX]. lia.
  - set (v := parse_positive_integer_whitespace _ 16). destruct (v <? 0) eqn:E; [unfold INT32_MAX; cbv [c_INT32_MAX]; lia|].
    destruct (INT32_MAX <? v) eqn:E2; [unfold INT32_MAX; cbv [c_INT32_MAX]; lia|lia].
Qed.

(* the constants the property text quotes *)
Lemma int64_max_value : INT64_MAX = 2 ^ 63 - 1. Proof. reflexivity. Qed.
Lemma int32_max_value : INT32_MAX = 2 ^ 31 - 1. Proof. reflexivity. Qed.
Lemma status_bounds : c_HTP_VALID_STATUS_MIN = 100 /\ c_HTP_VALID_STATUS_MAX = 999. Proof. split; reflexivity. Qed.
