(* C12 / C13 at history level, part 2: the reference transaction of the request-side segmentation theorems (PSegRun.sg_tfin)
   carries the split of C13 and the path pipeline of C12 of its wire target. *)
Require Import Htp.Model.Base Htp.Model.MBstr Htp.Model.MConnTypes Htp.Model.MTxCommon Htp.Model.MReqLine Htp.Model.MReqUri Htp.Model.MTxReq.
Require Import Htp.Model.MReq Htp.Model.MRes Htp.Model.MConnp Htp.Model.MUri Htp.Model.MPath.
Require Import Htp.Spec.SWire Htp.Proof.PWire Htp.Proof.PWireHdr Htp.Proof.PWireBlock Htp.Proof.PWireConn Htp.Proof.PWireExch.
Require Import Htp.Proof.PWireRun Htp.Proof.PWirePres Htp.Proof.PWireGlue Htp.Proof.PSeg Htp.Proof.PSegLine Htp.Proof.PSegHdr Htp.Proof.PSegGen Htp.Proof.PSegRun.
Require Import Htp.Proof.PUriHist.
Local Open Scope N_scope.

(* ---- what later stages may do: parsed_uri_raw / parsed_uri untouched, flags only grow, and not by a path indicator ---- *)
Definition uh_kp (a b : tx) : Prop :=
  t_parsed_uri_raw a = t_parsed_uri_raw b /\ t_parsed_uri a = t_parsed_uri b /\
  exists H, t_flags a = N.lor (t_flags b) H /\ N.land H uh_PM = 0.
Lemma uh_kp_refl a : uh_kp a a.
Proof. split; [reflexivity|]. split; [reflexivity|]. exists 0. rewrite N.lor_0_r. split; reflexivity. Qed.
Lemma uh_kp_trans a b c : uh_kp a b -> uh_kp b c -> uh_kp a c.
Proof.
  intros (A1 & A2 & H1 & A3 & A4) (B1 & B2 & H2 & B3 & B4). split; [congruence|]. split; [congruence|].
  exists (N.lor H2 H1). split; [rewrite A3, B3, N.lor_assoc; reflexivity|apply uh_land_lor2; assumption].
Qed.
Ltac uh_kp_now := unfold uh_kp, tx_set_flag, flag_set; cbn;
  split; [reflexivity|split; [reflexivity|
    rewrite <- ?N.lor_assoc;
    first [ exists 0%N; split; [rewrite N.lor_0_r; reflexivity|reflexivity]
          | eexists; split; [reflexivity|vm_compute; reflexivity] ] ]].

Lemma uh_kp_set_flag b t : N.land b uh_PM = 0 -> uh_kp (tx_set_flag b t) t.
Proof. intros H. split; [reflexivity|]. split; [reflexivity|]. exists b. split; [reflexivity|exact H]. Qed.
Lemma uh_kp_progress t v : uh_kp (t <| t_request_progress := v |>) t. Proof. uh_kp_now. Qed.

Lemma uh_kp_process line t : uh_kp (htp_process_request_header_generic line t) t.
Proof.
  unfold htp_process_request_header_generic.
  assert (Hfl : N.land (snd (htp_parse_request_header_generic line)) uh_PM = 0).
  { unfold htp_parse_request_header_generic. cbv zeta. destruct (_ || _); [reflexivity|]. cbn [snd].
    destruct (_ =? 0)%nat; destruct (_ <? _)%nat; destruct (forallb htp_is_token _); reflexivity. }
  destruct (htp_parse_request_header_generic line) as [h txfl]. cbn [snd] in Hfl.
  cbv zeta. match goal with |- context [rq_hdr_find (t_request_headers ?x)] => set (t1 := x) end.
  assert (K0 : uh_kp t1 t).
  { split; [reflexivity|]. split; [reflexivity|]. exists txfl. split; [reflexivity|exact Hfl]. }
  clearbody t1.
  apply (uh_kp_trans _ t1); [|exact K0].
  destruct (rq_hdr_find (t_request_headers t1) (h_name h)) as [i|]; [|uh_kp_now].
  destruct (flag_has _ _ && _); [apply uh_kp_refl|].
  destruct (flag_has (h_flags (nth i (t_request_headers t1) h)) c_HTP_FIELD_REPEATED); uh_kp_now.
Qed.
Lemma uh_kp_block : forall fs t, uh_kp (wr_block_tx fs t) t.
Proof.
  induction fs as [|f fs IH]; intros t; [apply uh_kp_refl|].
  unfold wr_block_tx. cbn [map fold_left]. fold (wr_block_tx fs (htp_process_request_header_generic (wr_field_line f) t)).
  eapply uh_kp_trans; [apply IH|apply uh_kp_process].
Qed.

Lemma uh_kp_te_cl t : uh_kp (rq_te_cl t) t.
Proof.
  unfold rq_te_cl.
  destruct (rq_hdr_get_c (t_request_headers t) rq_str_transfer_encoding) as [te|]; destruct (rq_hdr_get_c (t_request_headers t) rq_str_content_length_lc) as [cl|].
  - destruct (negb (htp_header_has_token (h_value te) rq_str_chunked)); [uh_kp_now|]. destruct (t_request_protocol_number t <? c_HTP_PROTOCOL_1_1)%Z; uh_kp_now.
  - destruct (negb (htp_header_has_token (h_value te) rq_str_chunked)); [uh_kp_now|]. destruct (t_request_protocol_number t <? c_HTP_PROTOCOL_1_1)%Z; uh_kp_now.
  - destruct (flag_has (h_flags cl) c_HTP_FIELD_FOLDED); destruct (flag_has (h_flags cl) c_HTP_FIELD_REPEATED);
      destruct (parse_content_length (h_value cl) <? 0)%Z eqn:E; unfold tx_set_flag; cbn [t_request_content_length set]; rewrite ?E; uh_kp_now.
  - uh_kp_now.
Qed.
Lemma uh_kp_host nu t : uh_kp (rq_host nu t) t.
Proof. unfold rq_host. wr_split_ifs; uh_kp_now. Qed.
Lemma uh_kp_content_type t : uh_kp (rq_content_type t) t.
Proof. unfold rq_content_type. destruct (rq_hdr_get_c _ _); uh_kp_now. Qed.
Lemma uh_kp_hdr_end t : uh_kp (sg_hdr_end t) t.
Proof.
  unfold sg_hdr_end. cbv zeta. eapply uh_kp_trans; [apply uh_kp_content_type|].
  destruct (t_parsed_uri (rq_te_cl t)) as [nu|]; [eapply uh_kp_trans; [apply uh_kp_host|]|]; apply uh_kp_te_cl.
Qed.

(* ---- what is known about the URI fields of a transaction whose target was u ---- *)
Definition uh_tx_ok (g : cfg) (u : bytes) (t : tx) : Prop :=
  t_parsed_uri_raw t = uh_raw u /\
  exists nu, t_parsed_uri t = Some nu /\ uh_norm_ok g (uh_raw u) nu /\ uh_flags_ok g (uh_raw u) (t_flags t).

Lemma uh_flags_ok_lor g raw f H : uh_flags_ok g raw f -> N.land H uh_PM = 0 -> uh_flags_ok g raw (N.lor f H).
Proof.
  intros (A & B & E & MA & MB & NA & NB & PA) MH. exists A, (N.lor B H). split; [rewrite E, N.lor_assoc; reflexivity|]. split; [exact MA|].
  split; [apply uh_land_lor2; [exact MB|apply (uh_land_0_sub H uh_PM _ MH); reflexivity]|]. split; [exact NA|]. split; [|exact PA].
  intros Hfr. apply uh_land_lor2; [exact (NB Hfr)|apply (uh_land_0_sub H uh_PM _ MH); reflexivity].
Qed.
Lemma uh_tx_ok_kp g u a b : uh_kp a b -> uh_tx_ok g u b -> uh_tx_ok g u a.
Proof.
  intros (K1 & K2 & H & K3 & K4) (R & nu & Pu & Ok & Fk). split; [rewrite K1; exact R|]. exists nu. split; [rewrite K2; exact Pu|]. split; [exact Ok|].
  rewrite K3. apply uh_flags_ok_lor; assumption.
Qed.

(* the transaction when the header block starts *)
Lemma uh_th0 g k m u pr : g_allow_space_uri g = false -> wr_wf_request_line m u pr = true -> wr_eqb m wr_str_connect = false ->
  uh_tx_ok g u (sg_th0 g k m u pr).
Proof.
  intros Hsp W Wc. unfold sg_th0. apply (uh_tx_ok_kp g u _ _ (uh_kp_progress _ _)). unfold sg_tx_line.
  assert (E0 : t_request_line (sg_t1 k <| t_request_line := Some (wr_ser_request_line m u pr) |>) = Some (wr_ser_request_line m u pr)) by reflexivity.
  rewrite (wr_reqline_tx g _ m u pr Hsp W E0). clear E0.
  match goal with |- context [rq_uri_pipeline_opt g _ (t_request_uri ?x) _] => set (t2 := x) end.
  assert (E1 : t_request_method_number t2 = htp_convert_method_to_number m) by reflexivity.
  assert (E2 : t_request_uri t2 = Some u) by reflexivity.
  destruct (uh_pipeline g u t2 eq_refl eq_refl eq_refl) as (nu & f & z & E & Ok & Fk).
  clearbody t2. rewrite E1, E2, (wr_not_connect m Wc), E.
  split; [apply uh_mk_raw|]. exists nu. split; [apply uh_mk_nu|]. split; [exact Ok|rewrite uh_mk_flags; exact Fk].
Qed.

(* ... and when the request is complete, whatever the header fields were *)
Lemma uh_tfin g k m u pr fs fl : g_allow_space_uri g = false -> wr_wf_request_line m u pr = true -> wr_eqb m wr_str_connect = false ->
  uh_tx_ok g u (sg_tfin g k m u pr fs fl).
Proof.
  intros Hsp W Wc. unfold sg_tfin. apply (uh_tx_ok_kp g u _ _ (uh_kp_progress _ _)).
  apply (uh_tx_ok_kp g u _ _ (uh_kp_hdr_end _)).
  assert (K : uh_kp (if fl then tx_set_flag c_HTP_MULTI_PACKET_HEAD (wr_block_tx fs (sg_th0 g k m u pr)) else wr_block_tx fs (sg_th0 g k m u pr)) (sg_th0 g k m u pr)).
  { destruct fl; [eapply uh_kp_trans; [apply uh_kp_set_flag; reflexivity|]|]; apply uh_kp_block. }
  apply (uh_tx_ok_kp g u _ _ K). apply uh_th0; assumption.
Qed.
