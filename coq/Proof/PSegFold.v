(* C03, request direction, Stage 3: header fields written on several lines (obs-fold).  A field n ":" lws1 v lws2 of the
   grammar may be cut before any SP / HT into a first line and continuation lines (SWire.wr_folded_lines); the block is
   then delivered in any TCP segmentation.  The reported transaction is that of the unfolded request (up to
   HTP_MULTI_PACKET_HEAD): folding invariance and segmentation invariance at once.
   The header block is handled as a flat list of wire lines (first line of a field / continuation line); the logical
   meaning of the block is a fold over these lines (sg_lstep) that keeps the field under assembly pending; the parser
   differs from it only in that it commits a complete field early when it has seen that the next byte does not fold. *)
Require Import Htp.Model.Base Htp.Model.MBstr Htp.Model.MConnTypes Htp.Model.MTxCommon Htp.Model.MReqLine Htp.Model.MReqUri Htp.Model.MTxReq.
Require Import Htp.Model.MReq Htp.Model.MRes Htp.Model.MConnp.
Require Import Htp.Spec.SWire Htp.Proof.PWire Htp.Proof.PWireHdr Htp.Proof.PWireBlock Htp.Proof.PWireConn Htp.Proof.PWireExch.
Require Import Htp.Proof.PWireRun Htp.Proof.PWirePres Htp.Proof.PWireGlue Htp.Proof.PSeg Htp.Proof.PSegLine Htp.Proof.PSegHdr Htp.Proof.PSegGen Htp.Proof.PSegRun.

(* ---- wire lines of a header block ---- *)
Definition sg_fl := (bool * bytes)%type.                  (* (is the first line of a field, the line without its CR LF) *)
Definition sg_start_ok (l : bytes) : bool :=
  match l with n0 :: _ :: _ => htp_is_token n0 | _ => false end && forallb wr_value_byte l.
Definition sg_cont_line_ok (c : bytes) : bool := wr_cont_ok c && wr_has_text c && forallb wr_value_byte c.
Definition sg_fl_ok (l : sg_fl) : bool := if fst l then sg_start_ok (snd l) else sg_cont_line_ok (snd l).
Definition sg_fwire (ls : list sg_fl) : bytes := concat (map (fun l => snd l ++ [CR; LF]) ls).
Definition sg_fnext (ls : list sg_fl) : bytes := match ls with l :: _ => snd l ++ [CR; LF] | [] => [CR; LF] end.
(* tailw = the wire after the empty line (a body) *)
Definition sg_fafter (tailw : bytes) (ls : list sg_fl) : bytes := match ls with _ :: r => sg_fwire r ++ [CR; LF] ++ tailw | [] => tailw end.
Lemma sg_fwire_split tailw ls : sg_fwire ls ++ [CR; LF] ++ tailw = sg_fnext ls ++ sg_fafter tailw ls.
Proof. destruct ls as [|l ls]; [reflexivity|]. unfold sg_fwire. cbn [map concat sg_fnext sg_fafter]. rewrite <- !app_assoc. reflexivity. Qed.
Lemma sg_fnext_ne ls : sg_fnext ls <> [].
Proof. destruct ls as [|l ls]; cbn [sg_fnext]; intro E; [discriminate|]. apply app_eq_nil in E. destruct E as [_ E]. discriminate. Qed.

(* a continuation line needs a field under assembly *)
Definition sg_needs_pending (ls : list sg_fl) : bool := match ls with (false, _) :: _ => true | _ => false end.

(* ---- the meaning of a block: the field under assembly is pending; a first line commits the pending field ---- *)
Definition sg_lstep (st : option bytes * tx) (l : sg_fl) : option bytes * tx :=
  if fst l then (Some (snd l), sg_flush (fst st) (snd st)) else (Some (sg_olist (fst st) ++ snd l), snd st).
Definition sg_lend (st : option bytes * tx) : tx := sg_flush (fst st) (snd st).
Definition sg_lrun (ls : list sg_fl) (st : option bytes * tx) : tx := sg_lend (fold_left sg_lstep ls st).

(* the limits: every line fits field_limit_hard together with what is pending; in_header is shorter than
   HTP_MAX_HEADER_FOLDED when a continuation line is appended *)
Fixpoint sg_ffit (lim prev : nat) (ls : list sg_fl) : bool :=
  match ls with
  | [] => (prev + 2 <=? lim)%nat
  | (true, l) :: r => (prev + (length l + 2) <=? lim)%nat && sg_ffit lim (length l) r
  | (false, c) :: r => (prev + (length c + 2) <=? lim)%nat && (Z.of_nat prev <? c_HTP_MAX_HEADER_FOLDED)%Z && sg_ffit lim (prev + length c) r
  end.
Lemma sg_ffit_next lim prev ls : sg_ffit lim prev ls = true -> (length (sg_fnext ls) + prev <= lim)%nat.
Proof.
  destruct ls as [|[[|] l] r]; cbn [sg_ffit sg_fnext snd]; intros H.
  - apply Nat.leb_le in H. cbn [length]. lia.
  - apply andb_prop in H. destruct H as [H _]. apply Nat.leb_le in H. rewrite app_length. cbn [length]. lia.
  - apply andb_prop in H. destruct H as [H _]. apply andb_prop in H. destruct H as [H _]. apply Nat.leb_le in H. rewrite app_length. cbn [length]. lia.
Qed.
Lemma sg_ffit_mono_start lim ls : forall prev prev', (prev' <= prev)%nat -> sg_needs_pending ls = false ->
  sg_ffit lim prev ls = true -> sg_ffit lim prev' ls = true.
Proof.
  destruct ls as [|[[|] l] r]; intros prev prev' L Hn H; cbn [sg_ffit] in *.
  - apply Nat.leb_le in H. apply Nat.leb_le. lia.
  - apply andb_prop in H. destruct H as [H1 H2]. apply Nat.leb_le in H1. rewrite H2, andb_true_r. apply Nat.leb_le. lia.
  - discriminate.
Qed.

(* ---- facts about the lines ---- *)
Lemma sg_value_bytes_nolf l : forallb wr_value_byte l = true -> sg_no_lf (l ++ [CR]) = true.
Proof.
  intros V. unfold sg_no_lf. rewrite forallb_app. cbn [forallb]. rewrite andb_true_r.
  eapply wr_forallb_impl; [|exact V]. intros x Hx. unfold wr_value_byte in Hx. apply andb_prop in Hx. apply Hx.
Qed.
Lemma sg_fnext_body ls : forallb sg_fl_ok ls = true -> exists body, sg_fnext ls = body ++ [LF] /\ sg_no_lf body = true.
Proof.
  destruct ls as [|[b l] r]; intros Ok.
  - exists [CR]. split; reflexivity.
  - cbn [forallb] in Ok. apply andb_prop in Ok. destruct Ok as [Okl _]. exists (l ++ [CR]). split; [cbn [sg_fnext snd]; rewrite <- app_assoc; reflexivity|].
    apply sg_value_bytes_nolf. unfold sg_fl_ok in Okl. cbn [fst snd] in Okl. destruct b.
    + unfold sg_start_ok in Okl. apply andb_prop in Okl. apply Okl.
    + unfold sg_cont_line_ok in Okl. apply andb_prop in Okl. apply Okl.
Qed.
Lemma sg_lws_folding x : htp_is_lws x = true -> htp_is_folding_char x = true.
Proof. intros H. destruct (wr_space_facts x) as (_ & F & _). destruct (F H) as (_ & _ & _ & _ & _ & Fx). exact Fx. Qed.
(* the first byte of the next wire line tells whether it is a continuation *)
Lemma sg_fnext_head ls : forallb sg_fl_ok ls = true ->
  exists b r, sg_fnext ls = b :: r /\ htp_is_folding_char b = sg_needs_pending ls.
Proof.
  destruct ls as [|[[|] l] r0]; intros Ok.
  - exists CR, [LF]. split; reflexivity.
  - cbn [forallb] in Ok. apply andb_prop in Ok. destruct Ok as [Okl _]. unfold sg_fl_ok, sg_start_ok in Okl. cbn [fst snd] in Okl.
    apply andb_prop in Okl. destruct Okl as [Okl _]. destruct l as [|n0 [|y l']]; try discriminate.
    cbn [sg_fnext snd app]. eexists _, _. split; [reflexivity|]. apply wr_token_not_folding. exact Okl.
  - cbn [forallb] in Ok. apply andb_prop in Ok. destruct Ok as [Okl _]. unfold sg_fl_ok, sg_cont_line_ok in Okl. cbn [fst snd] in Okl.
    apply andb_prop in Okl. destruct Okl as [Okl _]. apply andb_prop in Okl. destruct Okl as [Okl _]. destruct l as [|x l']; [discriminate|].
    cbn [sg_fnext snd app]. eexists _, _. split; [reflexivity|]. apply sg_lws_folding. exact Okl.
Qed.

Section Fold.
Variable cb : cb_oracle.
Variable g : cfg.
Hypothesis Hcb : wr_all_ok cb.
Context {w : sg_world}.
Notation sg_cin := (sg_cinw w).

(* ---- a complete first line of a field ---- *)
Lemma sg_header_line_start c d rd hdr prev rh t l : sg_start_ok l = true ->
  sg_cin c d rd (l ++ [CR; LF]) hdr REQ_HEADERS prev rh t ->
  (length l + 2 + length (sg_olist hdr) <= g_field_limit_hard g)%nat ->
  exists c', rq_header_line cb g c = (None, c') /\
    match nth_error d rd with
    | Some b => if htp_is_folding_char b then sg_cin c' d rd [] (Some l) REQ_HEADERS prev rh (sg_flush hdr t)
                else sg_cin c' d rd [] None REQ_HEADERS prev rh (htp_process_request_header_generic l (sg_flush hdr t))
    | None => sg_cin c' d rd [] (Some l) REQ_HEADERS prev rh (sg_flush hdr t)
    end.
Proof.
  intros Wl H Hlim. unfold sg_start_ok in Wl. apply andb_prop in Wl. destruct Wl as [Wt Wv].
  destruct l as [|n0 [|y l']] eqn:El; try discriminate. rewrite <- El in *.
  assert (Esh : l = n0 :: y :: l') by exact El. clear El.
  unfold rq_header_line.
  destruct (sg_consolidate g c d rd _ hdr _ _ _ t H) as (c1 & E1 & H1); [rewrite app_length; cbn [length]; lia|]. rewrite E1.
  destruct (wr_token_facts n0 Wt) as (_ & Sp0 & _).
  rewrite Esh. cbn [app]. rewrite (wr_line_not_terminator _ n0 y l' Sp0).
  change (n0 :: y :: l' ++ [CR; LF]) with ((n0 :: y :: l') ++ [CR; LF]). rewrite <- Esh.
  assert (Pl : wr_last_plain l) by (apply wr_plain_last; [rewrite Esh; discriminate|exact Wv]).
  rewrite (wr_chomp_line l [CR; LF] eq_refl Pl).
  assert (Fo : htp_is_line_folded l = 0%Z). { rewrite Esh. cbn [htp_is_line_folded]. rewrite (wr_token_not_folding n0 Wt). reflexivity. }
  rewrite Fo. cbn [Z.eqb].
  assert (HF : exists cF, rq_flush_header c1 = cF /\ sg_cin cF d rd (l ++ [CR; LF]) None REQ_HEADERS prev rh (sg_flush hdr t)).
  { unfold rq_flush_header. rewrite (ci_hdr _ _ _ _ _ _ _ _ _ H1). destruct hdr as [h|].
    - eexists. split; [reflexivity|]. unfold rq_process_header. rewrite (sg_tx_upd c1 d rd _ _ _ _ _ t _ H1).
      eapply sg_cin_header. eapply sg_cin_txs. exact H1.
    - exists c1. split; [reflexivity|exact H1]. }
  destruct HF as (cF & EF & HF). rewrite EF.
  rewrite (sg_peek cF d (ci_data _ _ _ _ _ _ _ _ _ HF) (ci_len _ _ _ _ _ _ _ _ _ HF)), (ci_read _ _ _ _ _ _ _ _ _ HF).
  set (cP := rq_set_in (fun k => k <| k_next_byte := nth_error d rd |>) cF).
  assert (HP : sg_cin cP d rd (l ++ [CR; LF]) None REQ_HEADERS prev rh (sg_flush hdr t)) by (apply sg_cin_next; exact HF).
  change (k_next_byte (c_in cP)) with (nth_error d rd).
  destruct (nth_error d rd) as [b|].
  - destruct (htp_is_folding_char b); cbn [negb].
    + eexists. split; [reflexivity|]. eapply sg_cin_clear. eapply sg_cin_header. exact HP.
    + unfold rq_process_header. rewrite (sg_tx_upd cP d rd _ _ _ _ _ _ _ HP).
      eexists. split; [reflexivity|]. eapply sg_cin_clear. eapply sg_cin_txs. exact HP.
  - eexists. split; [reflexivity|]. eapply sg_cin_clear. eapply sg_cin_header. exact HP.
Qed.

(* ---- a complete continuation line: appended to the pending header ---- *)
Lemma sg_header_line_cont c d rd h prev rh t l : sg_cont_line_ok l = true ->
  sg_cin c d rd (l ++ [CR; LF]) (Some h) REQ_HEADERS prev rh t ->
  (length l + 2 + length h <= g_field_limit_hard g)%nat -> (Z.of_nat (length h) < c_HTP_MAX_HEADER_FOLDED)%Z ->
  exists c', rq_header_line cb g c = (None, c') /\ sg_cin c' d rd [] (Some (h ++ l)) REQ_HEADERS prev rh t.
Proof.
  intros Wl H Hlim Hmax. unfold sg_cont_line_ok in Wl. apply andb_prop in Wl. destruct Wl as [Wl Wv]. apply andb_prop in Wl. destruct Wl as [Wc Wt].
  unfold rq_header_line.
  destruct (sg_consolidate g c d rd _ (Some h) _ _ _ t H) as (c1 & E1 & H1); [rewrite app_length; cbn [length sg_olist]; lia|]. rewrite E1.
  rewrite (wr_cont_not_terminator _ l [CR; LF] Wc Wt eq_refl).
  assert (Hp : wr_last_plain l) by (apply wr_plain_last; [destruct l; discriminate|exact Wv]).
  rewrite (wr_chomp_line l [CR; LF] eq_refl Hp), (wr_cont_folded l Wc). cbn [Z.eqb]. rewrite (ci_hdr _ _ _ _ _ _ _ _ _ H1).
  assert (Hlt : (Z.of_nat (length h) <? c_HTP_MAX_HEADER_FOLDED)%Z = true) by (apply Z.ltb_lt; exact Hmax). rewrite Hlt.
  eexists. split; [reflexivity|]. eapply sg_cin_clear. eapply sg_cin_header. exact H1.
Qed.

(* ---- the parser against the meaning: it may have committed the pending field early, when no continuation follows ---- *)
Definition sg_rel (hdr : option bytes) (t : tx) (pend : option bytes) (tl : tx) (rem : list sg_fl) : Prop :=
  (hdr = pend /\ t = tl) \/ (hdr = None /\ t = sg_flush pend tl /\ sg_needs_pending rem = false).
Lemma sg_rel_flush hdr t pend tl rem : sg_rel hdr t pend tl rem -> sg_flush hdr t = sg_flush pend tl.
Proof. intros [[E1 E2]|[E1 [E2 _]]]; subst; reflexivity. Qed.
Lemma sg_rel_len hdr t pend tl rem : sg_rel hdr t pend tl rem -> (length (sg_olist hdr) <= length (sg_olist pend))%nat.
Proof. intros [[E1 E2]|[E1 [E2 _]]]; subst; cbn [sg_olist length]; lia. Qed.
Lemma sg_lrun_cons x r st : sg_lrun (x :: r) st = sg_lrun r (sg_lstep st x). Proof. reflexivity. Qed.

Definition sg_fhlog (Tend : tx) (tailw : bytes) (hdr : option bytes) (t : tx) (p rw : bytes) : Prop :=
  exists pend tl rem q, sg_rel hdr t pend tl rem /\ forallb sg_fl_ok rem = true /\ (sg_needs_pending rem = true -> pend <> None) /\
    sg_lrun rem (pend, tl) = Tend /\ p ++ q = sg_fnext rem /\ q <> [] /\ rw = q ++ sg_fafter tailw rem /\
    sg_ffit (g_field_limit_hard g) (length (sg_olist pend)) rem = true.

(* ---- REQ_HEADERS over the rest of the chunk ---- *)
Lemma sg_fhdrs_loop d rw' Tend tailw : forall rem c rd p q hdr t pend tl n,
  sg_cin c d rd p hdr REQ_HEADERS (Some REQ_HEADERS) (Some H_REQUEST_HEADER_DATA) t ->
  sg_rel hdr t pend tl rem -> forallb sg_fl_ok rem = true -> (sg_needs_pending rem = true -> pend <> None) ->
  sg_lrun rem (pend, tl) = Tend ->
  p ++ q = sg_fnext rem -> q <> [] -> skipn rd d ++ rw' = q ++ sg_fafter tailw rem ->
  sg_ffit (g_field_limit_hard g) (length (sg_olist pend)) rem = true ->
  (length d - rd <= n)%nat ->
  (exists c' p' hdr' t', REQ_HEADERS_loop cb g n c = (ST_DATA_BUFFER, c') /\
     sg_cin c' d (length d) p' hdr' REQ_HEADERS (Some REQ_HEADERS) (Some H_REQUEST_HEADER_DATA) t' /\
     sg_fhlog Tend tailw hdr' t' p' rw' /\ rw' <> []) \/
  (exists c' rd1, REQ_HEADERS_loop cb g n c = rq_with_tx (tx_state_request_headers cb) c' /\
     sg_cin c' d rd1 [] None REQ_HEADERS (Some REQ_HEADERS) (Some H_REQUEST_HEADER_DATA) Tend /\ skipn rd1 d ++ rw' = tailw).
Proof.
  induction rem as [|[b l] r IH]; intros c rd p q hdr t pend tl n H Hrel Ok Hnp Hrun Hpq Hq Hw Hfit Hn.
  all: pose proof (ci_rd _ _ _ _ _ _ _ _ _ H) as Hrd.
  all: assert (Lu : length (skipn rd d) = (length d - rd)%nat) by apply skipn_length.
  all: destruct (sg_fnext_body _ Ok) as (body & Eb & Nb).
  all: destruct (sg_app_cases (skipn rd d) rw' q _ Hw) as [Clt Cge].
  all: pose proof (sg_rel_len _ _ _ _ _ Hrel) as Lh.
  all: destruct (Nat.lt_ge_cases (length (skipn rd d)) (length q)) as [Llt|Lge].
  (* the chunk ends inside the empty line *)
  - destruct (Clt Llt) as (q2 & Eq & Hq2 & Erw).
    assert (Nu : sg_no_lf (skipn rd d) = true).
    { rewrite Eq, Eb, app_assoc in Hpq. destruct (sg_app_last _ _ _ _ Hpq Hq2) as (q3 & _ & E3). rewrite <- E3, <- app_assoc, !sg_no_lf_app in Nb.
      apply andb_prop in Nb. destruct Nb as [_ Nb]. apply andb_prop in Nb. apply Nb. }
    destruct (sg_hdr_scan_nolf cb g d hdr _ _ t (skipn rd d) c rd p n H eq_refl Nu ltac:(lia)) as (c' & E & H').
    left. exists c', (p ++ skipn rd d), hdr, t. split; [exact E|]. split; [exact H'|]. split.
    + exists pend, tl, [], q2. split; [exact Hrel|]. split; [exact Ok|]. split; [exact Hnp|]. split; [exact Hrun|].
      split; [rewrite <- app_assoc, <- Eq; exact Hpq|]. split; [exact Hq2|]. split; [exact Erw|exact Hfit].
    + rewrite Erw. destruct q2; [contradiction|discriminate].
  (* the empty line is complete in this chunk *)
  - destruct (Cge Lge) as (u2 & Eu & Eaft). cbn [sg_fafter] in Eaft.
    rewrite Eb in Hpq. destruct (sg_app_last _ _ _ _ Hpq Hq) as (q1 & Eq1 & Ep1).
    assert (Nq1 : sg_no_lf q1 = true) by (rewrite <- Ep1, sg_no_lf_app in Nb; apply andb_prop in Nb; apply Nb).
    assert (Eskip : skipn rd d = q1 ++ LF :: u2) by (rewrite Eu, Eq1, <- app_assoc; reflexivity).
    assert (Ln : n = (length q1 + S (n - length q1 - 1))%nat) by (rewrite Eu, Eq1, !app_length in Lu; cbn [length] in Lu; lia).
    rewrite Ln.
    destruct (sg_hdr_scan_lf cb g d hdr _ _ t u2 q1 c rd p (n - length q1 - 1)%nat H Eskip Nq1) as (c1 & E1 & H1 & Hr1). rewrite E1.
    assert (Es : p ++ q1 ++ [LF] = [CR; LF]) by (rewrite app_assoc, Ep1; symmetry; exact Eb). rewrite Es in H1.
    pose proof (sg_ffit_next _ _ _ Hfit) as Hl. cbn [sg_fnext length] in Hl.
    destruct (sg_header_line_term cb g c1 d _ hdr _ _ t H1 ltac:(lia)) as (c2 & E2 & H2). rewrite E2.
    right. exists c2, (rd + length q1 + 1)%nat. split; [reflexivity|]. split; [|rewrite Hr1; symmetry; exact Eaft].
    rewrite (sg_rel_flush _ _ _ _ _ Hrel) in H2. unfold sg_lrun in Hrun. cbn [fold_left] in Hrun. unfold sg_lend in Hrun. cbn [fst snd] in Hrun. rewrite Hrun in H2. exact H2.
  (* the chunk ends inside the current line *)
  - destruct (Clt Llt) as (q2 & Eq & Hq2 & Erw).
    assert (Nu : sg_no_lf (skipn rd d) = true).
    { rewrite Eq, Eb, app_assoc in Hpq. destruct (sg_app_last _ _ _ _ Hpq Hq2) as (q3 & _ & E3). rewrite <- E3, <- app_assoc, !sg_no_lf_app in Nb.
      apply andb_prop in Nb. destruct Nb as [_ Nb]. apply andb_prop in Nb. apply Nb. }
    destruct (sg_hdr_scan_nolf cb g d hdr _ _ t (skipn rd d) c rd p n H eq_refl Nu ltac:(lia)) as (c' & E & H').
    left. exists c', (p ++ skipn rd d), hdr, t. split; [exact E|]. split; [exact H'|]. split.
    + exists pend, tl, ((b, l) :: r), q2. split; [exact Hrel|]. split; [exact Ok|]. split; [exact Hnp|]. split; [exact Hrun|].
      split; [rewrite <- app_assoc, <- Eq; exact Hpq|]. split; [exact Hq2|]. split; [exact Erw|exact Hfit].
    + rewrite Erw. destruct q2; [contradiction|discriminate].
  (* the current line is complete in this chunk *)
  - destruct (Cge Lge) as (u2 & Eu & Eaft).
    cbn [forallb] in Ok. apply andb_prop in Ok. destruct Ok as [Okl Ok'].
    rewrite Eb in Hpq. destruct (sg_app_last _ _ _ _ Hpq Hq) as (q1 & Eq1 & Ep1).
    assert (Nq1 : sg_no_lf q1 = true) by (rewrite <- Ep1, sg_no_lf_app in Nb; apply andb_prop in Nb; apply Nb).
    assert (Eskip : skipn rd d = q1 ++ LF :: u2) by (rewrite Eu, Eq1, <- app_assoc; reflexivity).
    assert (Ln : n = (length q1 + S (n - length q1 - 1))%nat) by (rewrite Eu, Eq1, !app_length in Lu; cbn [length] in Lu; lia).
    rewrite Ln.
    destruct (sg_hdr_scan_lf cb g d hdr _ _ t u2 q1 c rd p (n - length q1 - 1) H Eskip Nq1) as (c1 & E1 & H1 & Hr1). rewrite E1.
    assert (Es : p ++ q1 ++ [LF] = l ++ [CR; LF]) by (rewrite app_assoc, Ep1; symmetry; exact Eb). rewrite Es in H1.
    cbn [sg_fafter] in Eaft. rewrite sg_fwire_split in Eaft.
    assert (Hw2 : skipn (rd + length q1 + 1) d ++ rw' = sg_fnext r ++ sg_fafter tailw r) by (rewrite Hr1; symmetry; exact Eaft).
    assert (Ln2 : (length d - (rd + length q1 + 1) <= n - length q1 - 1)%nat) by (rewrite Eu, Eq1, !app_length in Lu; cbn [length] in Lu; lia).
    rewrite sg_lrun_cons in Hrun.
    destruct b.
    + (* a first line *)
      unfold sg_fl_ok in Okl. cbn [fst snd] in Okl.
      cbn [sg_ffit] in Hfit. apply andb_prop in Hfit. destruct Hfit as [Hf1 Hf2]. apply Nat.leb_le in Hf1.
      destruct (sg_header_line_start c1 d _ hdr _ _ t l Okl H1 ltac:(lia)) as (c2 & E2 & H2). rewrite E2.
      assert (Hnp' : sg_needs_pending r = true -> Some l <> None) by (intros _; discriminate).
      unfold sg_lstep in Hrun. cbn [fst snd] in Hrun.
      assert (Hcase : exists hdr' t', sg_cin c2 d (rd + length q1 + 1) [] hdr' REQ_HEADERS (Some REQ_HEADERS) (Some H_REQUEST_HEADER_DATA) t' /\
                                     sg_rel hdr' t' (Some l) (sg_flush pend tl) r).
      { rewrite (sg_rel_flush _ _ _ _ _ Hrel) in H2. destruct u2 as [|b0 u2'].
        - pose proof (sg_skipn_nil _ _ Hr1) as L. assert (N : nth_error d (rd + length q1 + 1) = None) by (apply nth_error_None; exact L). rewrite N in H2.
          eexists _, _. split; [exact H2|]. left. split; reflexivity.
        - destruct (sg_skipn_cons _ _ _ _ Hr1) as (N & _ & _). rewrite N in H2.
          destruct (sg_fnext_head r Ok') as (b1 & r1 & E0 & F0). rewrite E0 in Eaft. cbn [app] in Eaft. inversion Eaft. subst b1.
          destruct (htp_is_folding_char b0).
          + eexists _, _. split; [exact H2|]. left. split; reflexivity.
          + eexists _, _. split; [exact H2|]. right. split; [reflexivity|]. split; [reflexivity|symmetry; exact F0]. }
      destruct Hcase as (hdr' & t' & H2' & Hrel').
      destruct (IH c2 _ [] (sg_fnext r) hdr' t' (Some l) (sg_flush pend tl) (n - length q1 - 1)%nat H2' Hrel' Ok' Hnp' Hrun eq_refl (sg_fnext_ne r) Hw2 Hf2 Ln2) as [HA|HB].
      * left. exact HA.
      * right. exact HB.
    + (* a continuation line *)
      unfold sg_fl_ok in Okl. cbn [fst snd] in Okl.
      destruct pend as [h|]; [|exfalso; apply (Hnp eq_refl); reflexivity].
      destruct Hrel as [[Eh Et]|[_ [_ Hx]]]; [|discriminate]. subst hdr t.
      cbn [sg_ffit sg_olist] in Hfit. apply andb_prop in Hfit. destruct Hfit as [Hf1 Hf2]. apply andb_prop in Hf1. destruct Hf1 as [Hf1 Hf3].
      apply Nat.leb_le in Hf1. apply Z.ltb_lt in Hf3.
      destruct (sg_header_line_cont c1 d _ h _ _ tl l Okl H1 ltac:(lia) Hf3) as (c2 & E2 & H2). rewrite E2.
      unfold sg_lstep in Hrun. cbn [fst snd sg_olist] in Hrun.
      assert (Hnp' : sg_needs_pending r = true -> Some (h ++ l) <> None) by (intros _; discriminate).
      assert (Hrel' : sg_rel (Some (h ++ l)) tl (Some (h ++ l)) tl r) by (left; split; reflexivity).
      assert (Hf2' : sg_ffit (g_field_limit_hard g) (length (sg_olist (Some (h ++ l)))) r = true) by (cbn [sg_olist]; rewrite app_length; exact Hf2).
      destruct (IH c2 _ [] (sg_fnext r) _ tl _ tl (n - length q1 - 1)%nat H2 Hrel' Ok' Hnp' Hrun eq_refl (sg_fnext_ne r) Hw2 Hf2' Ln2) as [HA|HB].
      * left. exact HA.
      * right. exact HB.
Qed.

End Fold.

Section Fold0.
Variable cb : cb_oracle.
Variable g : cfg.
Hypothesis Hcb : wr_all_ok cb.
Notation sg_cin := (sg_cinw sg_w0).
(* ---- a call that starts (or continues) in REQ_HEADERS; what follows the empty line is a parameter (Htail) ---- *)
Variables m u pr : bytes.
Variables bwt tailw : bytes.
Variable Tend : tx.
Variable fin : list (option tx) -> Prop.
Variable ext : connp -> bytes -> Prop.
Hypothesis Htail : forall c c1 d rd1 rw' f, c_in_state c = REQ_HEADERS ->
  rq_state_fn cb g REQ_HEADERS c = rq_with_tx (tx_state_request_headers cb) c1 ->
  sg_cin c1 d rd1 [] None REQ_HEADERS (Some REQ_HEADERS) (Some H_REQUEST_HEADER_DATA) Tend -> skipn rd1 d ++ rw' = tailw ->
  exists cF rc, rq_loop cb g (6 + f) false c = (cF, rc) /\ sg_post m u pr bwt (sg_fhlog g Tend tailw) fin ext cF rw'.

Lemma sg_fcall_hdrs c d rd p hdr t rw' f :
  sg_cin c d rd p hdr REQ_HEADERS (Some REQ_HEADERS) (Some H_REQUEST_HEADER_DATA) t ->
  sg_fhlog g Tend tailw hdr t p (skipn rd d ++ rw') ->
  exists cF rc, rq_loop cb g (6 + f) false c = (cF, rc) /\ sg_post m u pr bwt (sg_fhlog g Tend tailw) fin ext cF rw'.
Proof.
  intros H (pend & tl & rem & q & Hrel & Ok & Hnp & Hrun & Hpq & Hq & Hw & Hfit).
  assert (Es : c_in_state c = REQ_HEADERS) by apply (ci_state _ _ _ _ _ _ _ _ _ H).
  assert (Ef : rq_state_fn cb g REQ_HEADERS c = REQ_HEADERS_loop cb g (length d - rd) c).
  { cbn [rq_state_fn]. unfold REQ_HEADERS_fn. rewrite (ci_len _ _ _ _ _ _ _ _ _ H), (ci_read _ _ _ _ _ _ _ _ _ H). reflexivity. }
  destruct (sg_fhdrs_loop cb g d rw' Tend tailw rem c rd p q hdr t pend tl (length d - rd) H Hrel Ok Hnp Hrun Hpq Hq Hw Hfit (le_n _)) as [HA|HB].
  - destruct HA as (c' & p' & hdr' & t' & EA & HA1 & HA2 & HA3).
    assert (Lim : (length p' + length (sg_olist hdr') <= g_field_limit_hard g)%nat).
    { destruct HA2 as (pe & te & re & q' & Hr' & _ & _ & _ & Epq & _ & _ & Fit). pose proof (sg_ffit_next _ _ _ Fit) as L. rewrite <- Epq, app_length in L.
      pose proof (sg_rel_len _ _ _ _ _ Hr'). lia. }
    destruct (sg_exit_buffer cb g Hcb c' d p' hdr' _ _ t' HA1 Lim) as (cF & EF & HF).
    exists cF, c_HTP_STREAM_DATA. split.
    + change (6 + f)%nat with (S (5 + f)). apply sg_rq_loop_inl. unfold rq_iter. rewrite Es, Ef, EA, EF. reflexivity.
    + left. split; [exact HA3|]. right. left. exists p', hdr', t'. split; [exact HF|exact HA2].
  - destruct HB as (c' & rd1 & EB & HB1 & HB2). rewrite <- Ef in EB.
    apply (Htail c c' d rd1 rw' f Es EB HB1 HB2).
Qed.
End Fold0.

(* Stage 3: nothing follows the empty line *)
Lemma sg_ftail0 cb g : wr_all_ok cb -> g_allow_space_uri g = false -> forall m u pr fs,
  wr_wf_request_line m u pr = true -> wr_block_ok fs = true ->
  existsb (fun f => wr_same (wf_name f) wr_str_content_length || wr_same (wf_name f) wr_str_transfer_encoding) fs = false ->
  wr_eqb m wr_str_connect = false -> forall bwt,
  forall c c1 d rd1 rw' f, c_in_state c = REQ_HEADERS ->
  rq_state_fn cb g REQ_HEADERS c = rq_with_tx (tx_state_request_headers cb) c1 ->
  sg_cinw sg_w0 c1 d rd1 [] None REQ_HEADERS (Some REQ_HEADERS) (Some H_REQUEST_HEADER_DATA) (wr_block_tx fs (sg_th0 g 0 m u pr)) -> skipn rd1 d ++ rw' = [] ->
  exists cF rc, rq_loop cb g (6 + f) false c = (cF, rc) /\
    sg_post m u pr bwt (sg_fhlog g (wr_block_tx fs (sg_th0 g 0 m u pr)) []) (sg_fin g m u pr fs) (fun _ _ => False) cF rw'.
Proof.
  intros Hcb Hsp m u pr fs Wl Wb Wnf Wc bwt c c1 d rd1 rw' f Es Ef H1 Hw.
  apply app_eq_nil in Hw. destruct Hw as [Hs Hrw].
  assert (Erd : rd1 = length d) by (pose proof (sg_skipn_nil _ _ Hs); pose proof (ci_rd _ _ _ _ _ _ _ _ _ H1); lia).
  rewrite Erd in H1.
  destruct (sg_tail cb g Hcb Hsp m u pr fs Wl Wb Wnf Wc c c1 d (1 + f) Es Ef H1) as (cF & rc & fl & E & T).
  exists cF, rc. split; [exact E|]. right. split; [exact Hrw|]. exists fl. exact T.
Qed.

(* ================= the folded grammar ================= *)
(* a field together with the pieces p0 :: rest its body lws1 ++ v ++ lws2 is written in (SWire: wr_fold_ok, wr_folded_lines);
   every continuation piece carries some text (a white-space-only line would end the block under IIS 5.1) *)
Definition sg_fold_ok (fp : wr_field * list bytes) : bool :=
  wr_fold_ok (snd fp) && wr_eqb (concat (snd fp)) (wf_lws1 (fst fp) ++ wf_value (fst fp) ++ wf_lws2 (fst fp)) &&
  forallb wr_has_text (tl (snd fp)).
Definition sg_field_flat (fp : wr_field * list bytes) : list sg_fl :=
  match snd fp with [] => [] | p0 :: rest => (true, wf_name (fst fp) ++ [58%N] ++ p0) :: map (fun c => (false, c)) rest end.
Definition sg_block_flat (fps : list (wr_field * list bytes)) : list sg_fl := flat_map sg_field_flat fps.
(* the lines are SWire.wr_folded_lines *)
Lemma sg_field_flat_lines fp : map snd (sg_field_flat fp) = wr_folded_lines (wf_name (fst fp)) (snd fp).
Proof. unfold sg_field_flat, wr_folded_lines. destruct (snd fp) as [|p0 rest]; [reflexivity|]. cbn [map snd]. rewrite map_map. cbn [snd]. rewrite map_id. reflexivity. Qed.

Lemma sg_forallb_concat {A} (p : A -> bool) (ls : list (list A)) : forallb p (concat ls) = forallb (forallb p) ls.
Proof. induction ls as [|l ls IH]; [reflexivity|]. cbn [concat forallb]. rewrite forallb_app, IH. reflexivity. Qed.

Lemma sg_conts_ok : forall rest, forallb wr_cont_ok rest = true -> forallb wr_has_text rest = true -> forallb (forallb wr_value_byte) rest = true ->
  forallb sg_fl_ok (map (fun c => (false, c)) rest) = true.
Proof.
  induction rest as [|c rest IH]; intros Of Ht Vr; [reflexivity|]. cbn [map forallb] in *.
  apply andb_prop in Of. destruct Of as [Oc1 Of]. apply andb_prop in Ht. destruct Ht as [Ht1 Ht]. apply andb_prop in Vr. destruct Vr as [Vc Vr].
  rewrite (IH Of Ht Vr), andb_true_r. unfold sg_fl_ok, sg_cont_line_ok. cbn [fst snd]. rewrite Oc1, Ht1, Vc. reflexivity.
Qed.
Lemma sg_field_flat_ok f ps : wr_field_ok f = true -> sg_fold_ok (f, ps) = true ->
  forallb sg_fl_ok (sg_field_flat (f, ps)) = true /\ sg_needs_pending (sg_field_flat (f, ps)) = false /\ sg_field_flat (f, ps) <> [].
Proof.
  intros Wf Ok. unfold sg_fold_ok in Ok. cbn [fst snd] in Ok. apply andb_prop in Ok. destruct Ok as [Ok Ht]. apply andb_prop in Ok. destruct Ok as [Of Oc].
  apply wr_eqb_eq in Oc.
  unfold wr_field_ok in Wf. apply andb_prop in Wf. destruct Wf as [Wf L2]. apply andb_prop in Wf. destruct Wf as [W L1].
  unfold wr_wf_header in W. apply andb_prop in W. destruct W as [Wn Wv]. destruct (wr_token_split _ Wn) as (n0 & nr & En & Tn).
  unfold wr_value_ok in Wv. apply andb_prop in Wv. destruct Wv as [Wv _]. apply andb_prop in Wv. destruct Wv as [Wv _].
  assert (Vb : forallb (forallb wr_value_byte) ps = true).
  { rewrite <- sg_forallb_concat, Oc, !forallb_app, (wr_lws_value_bytes _ L1), (wr_lws_value_bytes _ L2), Wv. reflexivity. }
  unfold sg_field_flat. cbn [fst snd]. destruct ps as [|p0 rest]; [discriminate|].
  cbn [forallb] in Vb. apply andb_prop in Vb. destruct Vb as [V0 Vr]. cbn [wr_fold_ok] in Of. cbn [tl] in Ht.
  split; [|split; [reflexivity|discriminate]].
  cbn [forallb]. apply andb_true_intro. split.
  - unfold sg_fl_ok, sg_start_ok. cbn [fst snd]. rewrite En. rewrite En in Tn. cbn [forallb] in Tn. apply andb_prop in Tn. destruct Tn as [T0 Tr].
    cbn [app]. assert (E : nr ++ 58%N :: p0 = (nr ++ [58%N]) ++ p0) by (rewrite <- app_assoc; reflexivity).
    destruct (nr ++ 58%N :: p0) as [|y l'] eqn:Ey; [destruct nr; discriminate|]. rewrite T0. cbn [andb].
    rewrite <- Ey. change (n0 :: nr ++ 58%N :: p0) with ((n0 :: nr) ++ [58%N] ++ p0). rewrite !forallb_app.
    assert (Tn' : forallb htp_is_token (n0 :: nr) = true) by (cbn [forallb]; rewrite T0, Tr; reflexivity).
    rewrite (wr_token_value_bytes _ Tn'), V0. reflexivity.
  - apply sg_conts_ok; assumption.
Qed.

Lemma sg_conts_lrun : forall rest h t, fold_left sg_lstep (map (fun c => (false, c)) rest) (Some h, t) = (Some (h ++ concat rest), t).
Proof.
  induction rest as [|c rest IH]; intros h t; [cbn; rewrite app_nil_r; reflexivity|].
  cbn [map fold_left concat]. unfold sg_lstep at 2. cbn [fst snd sg_olist]. rewrite IH, <- app_assoc. reflexivity.
Qed.
Lemma sg_field_lrun f ps st : sg_fold_ok (f, ps) = true ->
  fold_left sg_lstep (sg_field_flat (f, ps)) st = (Some (wr_field_line f), sg_flush (fst st) (snd st)).
Proof.
  intros Ok. unfold sg_fold_ok in Ok. cbn [fst snd] in Ok. apply andb_prop in Ok. destruct Ok as [Ok _]. apply andb_prop in Ok. destruct Ok as [Of Oc].
  apply wr_eqb_eq in Oc. unfold sg_field_flat. cbn [fst snd]. destruct ps as [|p0 rest]; [discriminate|].
  cbn [fold_left]. unfold sg_lstep at 2. cbn [fst snd]. rewrite sg_conts_lrun. cbn [concat] in Oc.
  unfold wr_field_line, wr_ser_header. rewrite <- Oc, <- !app_assoc. reflexivity.
Qed.
Lemma sg_block_lrun : forall fps st, forallb sg_fold_ok fps = true ->
  sg_lend (fold_left sg_lstep (sg_block_flat fps) st) = wr_block_tx (map fst fps) (sg_flush (fst st) (snd st)).
Proof.
  induction fps as [|[f ps] fps IH]; intros st Ok; [reflexivity|].
  cbn [forallb] in Ok. apply andb_prop in Ok. destruct Ok as [Okf Ok].
  unfold sg_block_flat. cbn [flat_map]. rewrite fold_left_app, (sg_field_lrun f ps st Okf). fold (sg_block_flat fps). rewrite (IH _ Ok). reflexivity.
Qed.
Lemma sg_block_flat_ok : forall fps, forallb (fun fp => wr_field_ok (fst fp)) fps = true -> forallb sg_fold_ok fps = true ->
  forallb sg_fl_ok (sg_block_flat fps) = true /\ sg_needs_pending (sg_block_flat fps) = false.
Proof.
  induction fps as [|[f ps] fps IH]; intros Wf Ok; [split; reflexivity|].
  cbn [forallb fst] in Wf, Ok. apply andb_prop in Wf. destruct Wf as [Wf1 Wf]. apply andb_prop in Ok. destruct Ok as [Ok1 Ok].
  destruct (sg_field_flat_ok f ps Wf1 Ok1) as (A & B & C). destruct (IH Wf Ok) as (A' & _).
  unfold sg_block_flat. cbn [flat_map]. fold (sg_block_flat fps). split; [rewrite forallb_app, A, A'; reflexivity|].
  destruct (sg_field_flat (f, ps)) as [|x xs]; [contradiction|exact B].
Qed.

(* the request r with its fields written as `cuts` says: request line, the folded lines, the empty line *)
Definition sg_fold_wire (r : wr_request) (cuts : list (list bytes)) : bytes :=
  wr_ser_request_line (wq_method r) (wq_uri r) (wq_protocol r) ++ [CR; LF] ++ sg_fwire (sg_block_flat (combine (wq_fields r) cuts)) ++ [CR; LF].
Definition sg_fold_fits (g : cfg) (r : wr_request) (cuts : list (list bytes)) : bool :=
  (length (wr_ser_request_line (wq_method r) (wq_uri r) (wq_protocol r)) + 2 <=? g_field_limit_hard g)%nat &&
  sg_ffit (g_field_limit_hard g) 0 (sg_block_flat (combine (wq_fields r) cuts)).
Definition sg_cuts_ok (r : wr_request) (cuts : list (list bytes)) : bool :=
  (length cuts =? length (wq_fields r))%nat && forallb sg_fold_ok (combine (wq_fields r) cuts).

Lemma sg_map_fst_combine {A B} : forall (l : list A) (l' : list B), length l' = length l -> map fst (combine l l') = l.
Proof. induction l as [|a l IH]; intros [|b l'] H; try reflexivity; try discriminate. cbn [combine map fst]. rewrite IH; [reflexivity|]. cbn in H. lia. Qed.

(* the transaction of the (unfolded) request says what was sent *)
Lemma sg_tref_reported g r : g_allow_space_uri g = false -> wr_request_ok r = true -> wr_reported (sg_tref g r) r.
Proof.
  intros Hsp Wr. destruct r as [m u p fs]. unfold wr_request_ok in Wr. cbn [wq_method wq_uri wq_protocol wq_fields] in Wr.
  apply andb_prop in Wr. destruct Wr as [Wr Wc]. apply andb_prop in Wr. destruct Wr as [Wr Wnf]. apply andb_prop in Wr. destruct Wr as [Wl Wb].
  apply negb_true_iff in Wnf. apply negb_true_iff in Wc.
  unfold sg_tref, sg_tfin, sg_tpre. cbn [wq_method wq_uri wq_protocol wq_fields].
  set (th0 := sg_th0 g 0 m u p). set (tb := wr_block_tx fs th0).
  destruct (sg_th0_facts g Hsp 0 m u p Wl) as (F & H1 & H2 & H3 & H4 & H5). fold th0 in F, H1, H2, H3, H4, H5.
  pose proof (wr_keep_h_block fs th0) as K. fold tb in K. unfold wr_keep_h in K. destruct K as (K1 & K2 & K3 & K4 & K5 & K6 & K7 & K8 & K9 & K10).
  assert (HtF : t_request_headers tb = wr_table (map wr_field_nv fs)) by (apply wr_block_tx_table; [exact Wb|exact H1|exact H2]).
  destruct (sg_hdr_end_facts tb) as [KE _]. unfold wr_keep in KE. destruct KE as (E1 & E2 & E3 & E4 & E5 & E6 & E7 & _).
  unfold wr_line_fields in F. destruct F as (F1 & F2 & F3 & F4 & F5 & F6).
  unfold wr_reported. cbn [wq_method wq_uri wq_protocol wq_fields].
  set (te := sg_hdr_end tb) in *.
  change (t_request_method (te <| t_request_progress := c_HTP_REQUEST_COMPLETE |>)) with (t_request_method te).
  change (t_request_method_number (te <| t_request_progress := c_HTP_REQUEST_COMPLETE |>)) with (t_request_method_number te).
  change (t_request_uri (te <| t_request_progress := c_HTP_REQUEST_COMPLETE |>)) with (t_request_uri te).
  change (t_request_protocol (te <| t_request_progress := c_HTP_REQUEST_COMPLETE |>)) with (t_request_protocol te).
  change (t_request_protocol_number (te <| t_request_progress := c_HTP_REQUEST_COMPLETE |>)) with (t_request_protocol_number te).
  change (t_is_protocol_0_9 (te <| t_request_progress := c_HTP_REQUEST_COMPLETE |>)) with (t_is_protocol_0_9 te).
  change (t_request_headers (te <| t_request_progress := c_HTP_REQUEST_COMPLETE |>)) with (t_request_headers te).
  repeat split; try congruence.
Qed.

(* C03 + folding, request direction: whatever the folding of the header fields and whatever the TCP segmentation, the reported
   transaction is that of the request (up to HTP_MULTI_PACKET_HEAD) *)
Theorem sg_request_fold_chunking : forall cb g r (cuts : list (list bytes)) (chunks : list bytes),
  wr_all_ok cb -> g_allow_space_uri g = false -> wr_request_ok r = true -> sg_cuts_ok r cuts = true -> sg_fold_fits g r cuts = true ->
  Forall (fun x => x <> []) chunks -> concat chunks = sg_fold_wire r cuts ->
  exists t, c_txs (fst (cp_run cb g connp_new (OpOpen :: map OpReqData chunks))) = [Some t] /\ sg_mask t = sg_mask (sg_tref g r).
Proof.
  intros cb g [m u p fs] cuts chunks Hcb Hsp Wr Hcuts Hf Hall Hc.
  unfold wr_request_ok in Wr. cbn [wq_method wq_uri wq_protocol wq_fields] in Wr.
  apply andb_prop in Wr. destruct Wr as [Wr Wc]. apply andb_prop in Wr. destruct Wr as [Wr Wnf]. apply andb_prop in Wr. destruct Wr as [Wl Wb].
  apply negb_true_iff in Wnf. apply negb_true_iff in Wc.
  unfold sg_cuts_ok in Hcuts. cbn [wq_fields] in Hcuts. apply andb_prop in Hcuts. destruct Hcuts as [Hlen Hfo]. apply Nat.eqb_eq in Hlen.
  unfold sg_fold_fits in Hf. cbn [wq_method wq_uri wq_protocol wq_fields] in Hf. apply andb_prop in Hf. destruct Hf as [Hl0 Hfit]. apply Nat.leb_le in Hl0.
  unfold sg_fold_wire in Hc. cbn [wq_method wq_uri wq_protocol wq_fields] in Hc.
  set (fps := combine fs cuts) in *. set (flat := sg_block_flat fps) in *.
  assert (Efs : map fst fps = fs) by (apply sg_map_fst_combine; exact Hlen).
  assert (Okf : forallb (fun fp => wr_field_ok (fst fp)) fps = true).
  { pose proof (sg_okf fs Wb) as O. rewrite <- Efs in O. rewrite forallb_forall in O. apply forallb_forall. intros fp Hin. apply O. apply in_map. exact Hin. }
  destruct (sg_block_flat_ok fps Okf Hfo) as (Fok & Fnp). fold flat in Fok, Fnp.
  assert (Hstart : sg_fhlog g (wr_block_tx fs (sg_th0 g 0 m u p)) [] None (sg_th0 g 0 m u p) [] (sg_fwire flat ++ [CR; LF])).
  { exists None, (sg_th0 g 0 m u p), flat, (sg_fnext flat). split; [left; split; reflexivity|]. split; [exact Fok|]. split; [rewrite Fnp; discriminate|].
    split; [unfold sg_lrun, flat; rewrite (sg_block_lrun fps _ Hfo), Efs; reflexivity|]. split; [reflexivity|]. split; [apply sg_fnext_ne|].
    split; [apply (sg_fwire_split [])|exact Hfit]. }
  destruct (sg_all_chunks cb g Hcb Hsp m u p Wl Hl0 (sg_fwire flat ++ [CR; LF]) _ (sg_fin g m u p fs) (fun _ _ => False) Hstart
              (fun c rw (F : False) => match F with end) (fun c rw x rw' (F : False) => match F with end)
              (sg_fcall_hdrs cb g Hcb m u p (sg_fwire flat ++ [CR; LF]) [] _ _ _ (sg_ftail0 cb g Hcb Hsp m u p fs Wl Wb Wnf Wc (sg_fwire flat ++ [CR; LF])))
              chunks Hall Hc) as (fl & T).
  exists (sg_tfin g 0 m u p fs fl). split; [exact T|]. unfold sg_tref. cbn [wq_method wq_uri wq_protocol wq_fields]. apply sg_mask_tfin.
Qed.

Theorem sg_request_fold_chunking_reported : forall cb g r (cuts : list (list bytes)) (chunks : list bytes),
  wr_all_ok cb -> g_allow_space_uri g = false -> wr_request_ok r = true -> sg_cuts_ok r cuts = true -> sg_fold_fits g r cuts = true ->
  Forall (fun x => x <> []) chunks -> concat chunks = sg_fold_wire r cuts ->
  exists t, c_txs (fst (cp_run cb g connp_new (OpOpen :: map OpReqData chunks))) = [Some t] /\ wr_reported (sg_mask t) r.
Proof.
  intros cb g r cuts chunks Hcb Hsp Wr Hcuts Hf Hall Hc.
  destruct (sg_request_fold_chunking cb g r cuts chunks Hcb Hsp Wr Hcuts Hf Hall Hc) as (t & T & M).
  exists t. split; [exact T|]. rewrite M. apply sg_reported_mask. apply sg_tref_reported; assumption.
Qed.

(* two foldings and two segmentations of the same request: the same observation *)
Theorem sg_request_fold_chunking_obs : forall cb g r (cuts1 : list (list bytes)) (chunks1 : list bytes) (cuts2 : list (list bytes)) (chunks2 : list bytes),
  wr_all_ok cb -> g_allow_space_uri g = false -> wr_request_ok r = true ->
  sg_cuts_ok r cuts1 = true -> sg_fold_fits g r cuts1 = true -> Forall (fun x => x <> []) chunks1 -> concat chunks1 = sg_fold_wire r cuts1 ->
  sg_cuts_ok r cuts2 = true -> sg_fold_fits g r cuts2 = true -> Forall (fun x => x <> []) chunks2 -> concat chunks2 = sg_fold_wire r cuts2 ->
  sg_obs cb g (OpOpen :: map OpReqData chunks1) = sg_obs cb g (OpOpen :: map OpReqData chunks2).
Proof.
  intros cb g r cuts1 chunks1 cuts2 chunks2 Hcb Hsp Wr C1 F1 A1 E1 C2 F2 A2 E2.
  destruct (sg_request_fold_chunking cb g r cuts1 chunks1 Hcb Hsp Wr C1 F1 A1 E1) as (t1 & T1 & M1).
  destruct (sg_request_fold_chunking cb g r cuts2 chunks2 Hcb Hsp Wr C2 F2 A2 E2) as (t2 & T2 & M2).
  unfold sg_obs. rewrite T1, T2. cbn [map option_map]. rewrite M1, M2. reflexivity.
Qed.

(* the unfolded request is the folding with one piece per field *)
Definition sg_cuts_whole (r : wr_request) : list (list bytes) := map (fun f => [wf_lws1 f ++ wf_value f ++ wf_lws2 f]) (wq_fields r).
Lemma sg_fold_wire_whole r : sg_fold_wire r (sg_cuts_whole r) = wr_request_wire r.
Proof.
  destruct r as [m u p fs]. unfold sg_fold_wire, sg_cuts_whole, wr_request_wire, wr_ser_request. cbn [wq_method wq_uri wq_protocol wq_fields].
  do 2 f_equal. f_equal. unfold wr_crlf. induction fs as [|f fs IH]; [reflexivity|].
  cbn [map combine]. unfold sg_block_flat, sg_fwire in *. cbn [flat_map sg_field_flat fst snd map app concat]. rewrite IH. reflexivity.
Qed.

(* ================= non-vacuity and the vm_compute harness ================= *)
(* GET /1 HTTP/1.1 | Host: a | X-Foo: a| b | x-foo:|\tc   (the request PWireGlue.wr_ex_req with two folded fields) *)
Definition sg_ex_cuts : list (list bytes) := [[[SP; 97]]; [[SP; 97]; [SP; 98; SP]]; [[]; [HT; 99]]]%N.
Example sg_ex_fold_premises :
  sg_cuts_ok wr_ex_req sg_ex_cuts = true /\ sg_fold_fits (sg_ex_cfg 18000) wr_ex_req sg_ex_cuts = true /\
  map snd (sg_block_flat (combine (wq_fields wr_ex_req) sg_ex_cuts)) =
    [[72;111;115;116;58;32;97]; [88;45;70;111;111;58;32;97]; [32;98;32]; [120;45;102;111;111;58]; [9;99]]%N.
Proof. split; [vm_compute; reflexivity|]. split; vm_compute; reflexivity. Qed.
(* every single cut of the folded wire, and its byte-by-byte delivery, report what the unfolded request reports in one chunk *)
Example sg_ex_fold_single_cuts :
  length (sg_fold_wire wr_ex_req sg_ex_cuts) = 55%nat /\
  map (sg_run (sg_ex_cfg 18000)) (sg_cuts1 (sg_fold_wire wr_ex_req sg_ex_cuts)) = repeat (sg_run (sg_ex_cfg 18000) [wr_request_wire wr_ex_req]) 54 /\
  sg_run (sg_ex_cfg 18000) (sg_bytewise (sg_fold_wire wr_ex_req sg_ex_cuts)) = sg_run (sg_ex_cfg 18000) [wr_request_wire wr_ex_req] /\
  sg_run (sg_ex_cfg 18000) [sg_fold_wire wr_ex_req sg_ex_cuts] = sg_run (sg_ex_cfg 18000) [wr_request_wire wr_ex_req].
Proof. split; [vm_compute; reflexivity|]. split; [vm_compute; reflexivity|]. split; vm_compute; reflexivity. Qed.
Example sg_ex_fold_whole : sg_cuts_ok wr_ex_req (sg_cuts_whole wr_ex_req) = true /\
  sg_fold_fits (sg_ex_cfg 18000) wr_ex_req (sg_cuts_whole wr_ex_req) = sg_fits (sg_ex_cfg 18000) wr_ex_req.
Proof. split; vm_compute; reflexivity. Qed.

(* ================= THEOREMS FOR RE-EXPORT (Properties_C03.v), Stage 3 =================
   sg_request_fold_chunking           exists t, txs = [Some t] /\ sg_mask t = sg_mask (sg_tref g r)
   sg_request_fold_chunking_reported  exists t, txs = [Some t] /\ wr_reported (sg_mask t) r
   sg_request_fold_chunking_obs       two foldings / segmentations of the same request: sg_obs equal
   premises: wr_all_ok cb, g_allow_space_uri g = false, wr_request_ok r = true, sg_cuts_ok r cuts = true,
             sg_fold_fits g r cuts = true, Forall (fun x => x <> []) chunks, concat chunks = sg_fold_wire r cuts
   (sg_fold_wire r (sg_cuts_whole r) = wr_request_wire r: the unfolded request is the special case) *)
Print Assumptions sg_request_fold_chunking.
Print Assumptions sg_request_fold_chunking_reported.
Print Assumptions sg_request_fold_chunking_obs.
