(* C16 at history level, part 1 -- TUNNEL ESTABLISHED.  A CONNECT request of the wire grammar in any chunking (possibly with
   client bytes glued to it), a 2xx answer of the response grammar in any chunking (request data offered before the LF of its status
   line is turned away), the client's first tunnel bytes in any chunking -- they do not look like HTTP to REQ_CONNECT_PROBE_DATA --
   and then any data calls in both directions.
   WHEN THE TUNNEL IS ESTABLISHED: by the request data call that delivers the first LF or NUL of the client's payload.  That call
   sets in_status AND out_status to TUNNEL, so the response side enters tunnel mode at the same moment; it has no tunnel state of
   its own before.  The premise on the order of the operations (no response data between the last byte of the 2xx head and that
   call) excludes exactly the listed finding server-first-tunnel-data-parsed-as-response. *)
Require Import Htp.Model.Base Htp.Model.MBstr Htp.Model.MConnTypes Htp.Model.MTxCommon Htp.Model.MResLine Htp.Model.MTxRes.
Require Import Htp.Model.MReq Htp.Model.MRes Htp.Model.MConnp.
Require Import Htp.Spec.SWire Htp.Spec.SConnp Htp.Proof.PWire Htp.Proof.PWireHdr Htp.Proof.PWireBlock Htp.Proof.PWireConn Htp.Proof.PWireExch.
Require Import Htp.Proof.PWireRun Htp.Proof.PWirePres Htp.Proof.PWireGlue Htp.Proof.PSeg Htp.Proof.PSegLine Htp.Proof.PSegHdr Htp.Proof.PSegGen Htp.Proof.PSegRun.
Require Import Htp.Proof.PSegFold Htp.Proof.PSegPipe Htp.Proof.PSegRes Htp.Proof.PSegResLine Htp.Proof.PSegResHdr Htp.Proof.PSegResGen Htp.Proof.PSegResRun Htp.Proof.PSegResThm Htp.Proof.PPairThm.
Require Import Htp.Proof.PReq Htp.Proof.PConnp.
Require Import Htp.Proof.PTunBase Htp.Proof.PTunSeg Htp.Proof.PTunSegLine Htp.Proof.PTunSegMid Htp.Proof.PTunRes Htp.Proof.PTunResTail Htp.Proof.PTunResFin.
Require Import Htp.Proof.PTunReq Htp.Proof.PTunProbe Htp.Proof.PTunConnR.
Local Open Scope Z_scope.

(* the answer: a response of the wire grammar (fields possibly folded as `cuts` says) within the limits, with a 2xx status *)
Definition tn_rsp_ok (g : cfg) (rsp : wr_response) (cuts : list (list bytes)) : bool :=
  sr_response_ok rsp && sr_cuts_ok rsp cuts && sr_fits g rsp cuts.
Definition tn_2xx (rsp : wr_response) : bool := (200 <=? wr_status_value (wp_status rsp)) && (wr_status_value (wp_status rsp) <=? 299).

(* ---- the parser after htp_connp_open ---- *)
Definition tn_c0 : connp := tn_fin (connp_open connp_new).
Definition tn_a0 : tg_aux := mk_tg_aux 0%N 0%nat (tn_rs tn_c0) 0.
Lemma tn_c0_facts : tg_imid tn_c0 [] tn_a0 /\ c_out_status tn_c0 = c_HTP_STREAM_OPEN /\ tn_stable (c_in tn_c0) /\ tn_stable (c_out tn_c0) /\
  c_out_tx (tn_rs tn_c0) = None /\ c_out_state (tn_rs tn_c0) = RES_IDLE /\ k_buf (c_out (tn_rs tn_c0)) = None /\ k_header (c_out (tn_rs tn_c0)) = None /\
  k_receiver_hook (c_out (tn_rs tn_c0)) = None /\ c_out_data_other_at_tx_end (tn_rs tn_c0) = false.
Proof.
  split; [constructor; try reflexivity; [left; left; reflexivity|repeat split]|]. split; [reflexivity|].
  destruct (tn_fin_stable (connp_open connp_new)) as [A B]. split; [exact A|]. split; [exact B|]. repeat split.
Qed.
Lemma tn_open_step cb g : cp_step cb g connp_new OpOpen = (tn_c0, snd (finish_call (connp_open connp_new) (-1) 0 false)).
Proof. reflexivity. Qed.

(* ---- from the request phase to the response phase ---- *)
Lemma tn_wait_to_res g rq fl c1 : tn_waitw (mk_tg_world [] (tg_next_flags [] tn_a0)) c1 (tn_tw g rq fl) -> c_out_status c1 = c_HTP_STREAM_OPEN -> tn_stable (c_in c1) ->
  tc_wfr (tn_rq c1) /\ tr_rest (tc_w (tn_rq c1)) c1 (tn_tw g rq fl) /\ c_in_content_length c1 = -1.
Proof.
  intros [A1 A2 A3 A4 A5 A6 A7 A8 A9 A10 A11] So Sc. destruct A11 as (A11 & A12 & A13). cbn [gw_done gw_aux ax_onext ax_rs ax_flags ax_cl tg_next_flags tn_a0 length app] in *.
  destruct tn_c0_facts as (_ & _ & _ & _ & F1 & F2 & F3 & F4 & F5 & F6).
  destruct (tn_rs_proj _ _ A12) as (R1 & R2 & R3 & R4 & R5).
  split; [|split; [|exact A13]].
  - destruct (tn_rq_p c1) as (P1 & P2 & P3 & P4 & P5). constructor; rewrite ?P1, ?P2, ?P3, ?P4, ?P5; assumption.
  - constructor.
    + left. exact So.
    + rewrite R1. exact F2.
    + rewrite R3, F3. reflexivity.
    + rewrite R3. exact F4.
    + rewrite R3. exact F5.
    + exact A11.
    + exact A8.
    + exact A9.
    + reflexivity.
    + rewrite R5. exact F6.
Qed.

(* ---- from the response phase to the probe ---- *)
Definition tn_w2 (c2 : connp) : tg_world := mk_tg_world [] (mk_tg_aux (c_conn_flags c2) 1%nat (tn_rs c2) (c_in_content_length c2)).
Lemma tn_res_to_wait c2 t : tc_wfr (tn_rq c2) -> tr_after (tc_w (tn_rq c2)) c2 (Some t) -> tn_waitw (tn_w2 c2) c2 t.
Proof.
  intros [A1 A2 A3 A4 A5 A6 A7 A8] [B1 B2 B3 B4 B5 B6 B7 B8 B9 B10 B11].
  destruct (tn_rq_p c2) as (P1 & P2 & P3 & P4 & P5). rewrite P1 in A6, A7, A8. rewrite P2 in A1. rewrite P3 in A2. rewrite P4 in A5. rewrite P5 in A3.
  constructor; cbn [tn_w2 gw_done gw_aux ax_flags ax_onext ax_rs length app]; try assumption; try reflexivity.
  split; [exact B7|split; reflexivity].
Qed.

(* ---- observations ---- *)
Lemma tn_quiet_obs : forall (ops : list cp_op) (rs : list cp_result), Forall tn_rquiet rs ->
  Forall tn_quiet (map (fun '(o, r) => obs_call o r) (combine ops rs)).
Proof.
  induction ops as [|o ops IH]; intros rs F; [constructor|]. destruct rs as [|r rs]; [constructor|].
  inversion F as [|? ? Hr F']; subst. cbn [combine map]. constructor; [exact Hr|apply IH; exact F'].
Qed.
Lemma tn_combine_app3 {A B} (a1 : list A) (x : A) a2 (b1 : list B) (y : B) b2 : length a1 = length b1 ->
  combine (a1 ++ x :: a2) (b1 ++ y :: b2) = combine a1 b1 ++ (x, y) :: combine a2 b2.
Proof. intros L. rewrite tn_combine_app by exact L. reflexivity. Qed.

(* ================= the history ================= *)
Record tn_h1 := mk_tn_h1 {
  h_qpre : list bytes; h_qlast : bytes; h_glue : bytes;        (* the CONNECT request: chunks; what follows it in the last chunk *)
  h_items : list (list bytes * bytes);                         (* the answer: chunks, each preceded by refused request data calls *)
  h_ppre : list bytes; h_u1 : bytes; h_b : N; h_u2 : bytes;    (* the client's payload up to its first LF / NUL (h_b), and the rest of that chunk *)
  h_tail : list cp_op }.                                       (* whatever follows *)
Definition tn_h1_head (h : tn_h1) : list cp_op :=
  OpOpen :: map OpReqData (h_qpre h ++ [h_qlast h]) ++ tc_ops (h_items h) ++ map OpReqData (h_ppre h).
Definition tn_h1_dec (h : tn_h1) : cp_op := OpReqData (h_u1 h ++ h_b h :: h_u2 h).
Definition tn_h1_ops (h : tn_h1) : list cp_op := tn_h1_head h ++ tn_h1_dec h :: h_tail h.
Definition tn_h1_payload (h : tn_h1) : bytes := concat (h_ppre h) ++ h_u1 h.
Definition tn_h1_ok (g : cfg) (rq : wr_request) (rsp : wr_response) (cuts : list (list bytes)) (h : tn_h1) : Prop :=
  Forall (fun x : bytes => x <> []) (h_qpre h) /\ h_qlast h <> [] /\
  concat (h_qpre h) ++ h_qlast h = wr_request_wire rq ++ h_glue h /\ (length (concat (h_qpre h)) < length (wr_request_wire rq))%nat /\
  tc_items_ne (h_items h) /\ concat (map snd (h_items h)) = sr_wire rsp cuts [] /\ tc_refs_ok (sr_lines rsp cuts) [] (h_items h) /\
  Forall (fun x : bytes => x <> []) (h_ppre h) /\
  tn_nostop (tn_h1_payload h) = true /\ tn_stopb (h_b h) = true /\ tn_probe_http (tn_h1_payload h) = false /\
  (length (tn_h1_payload h) <= g_field_limit_hard g)%nat /\
  Forall tn_data_op (h_tail h).
(* return code and consumed count of every call *)
Definition tn_h1_expect (h : tn_h1) : list (Z * nat) :=
  ((-1, 0%nat) :: (map (fun x : bytes => (c_HTP_STREAM_DATA, length x)) (h_qpre h) ++ [(tn_last_rc (h_glue h), length (h_qlast h) - length (h_glue h))%nat]) ++
   tc_expect (h_items h) ++ map (fun x : bytes => (c_HTP_STREAM_DATA, length x)) (h_ppre h)) ++
  (c_HTP_STREAM_TUNNEL, length (h_u1 h)) :: map (fun _ => (c_HTP_STREAM_TUNNEL, 0%nat)) (h_tail h).

Lemma tn_map_absorbed n : forall rs, Forall (tn_absorbed n) rs -> map tn_o rs = map (fun _ => (c_HTP_STREAM_TUNNEL, 0%nat)) rs.
Proof. induction rs as [|r rs IH]; intros F; [reflexivity|]. inversion F as [|? ? (H1 & H2 & _) F']; subst. cbn [map]. unfold tn_o at 1. rewrite H1, H2, (IH F'). reflexivity. Qed.
Lemma tn_map_const {A B C} (x : C) (l1 : list A) (l2 : list B) : length l1 = length l2 -> map (fun _ => x) l1 = map (fun _ => x) l2.
Proof. revert l2. induction l1 as [|a l1 IH]; intros [|b l2] L; try discriminate; [reflexivity|]. cbn [map]. rewrite (IH l2); [reflexivity|]. cbn in L. congruence. Qed.

Theorem tn_tunnel_established : forall cb g rq rsp cuts h,
  wr_all_ok cb -> g_allow_space_uri g = false ->
  tn_connect_ok g rq = true -> tn_rsp_ok g rsp cuts = true -> tn_2xx rsp = true -> tn_h1_ok g rq rsp cuts h ->
  let run := cp_run cb g connp_new (tn_h1_ops h) in
  (* (a), (b): what every call returns and consumes *)
  map tn_o (snd run) = tn_h1_expect h /\
  (* (c): exactly one transaction; it reports the CONNECT request and the 2xx status *)
  (exists t, c_txs (fst run) = [Some t] /\ tn_reported t rq /\ t_response_status_number t = wr_status_value (wp_status rsp) /\
             t_response_progress t = c_HTP_RESPONSE_COMPLETE) /\
  (* (b), (d): after the call that establishes the tunnel every call is absorbed: TUNNEL, nothing consumed, no event, one transaction *)
  (exists rs1 r rs2, snd run = rs1 ++ r :: rs2 /\ length rs1 = length (tn_h1_head h) /\ Forall tn_rquiet rs1 /\
     r_in_status r = c_HTP_STREAM_TUNNEL /\ r_out_status r = c_HTP_STREAM_TUNNEL /\ Forall (tn_absorbed 1) rs2) /\
  (* (e): the extracted tunnel oracle accepts the observations *)
  chk_C16 (obs_run cb g connp_new (tn_h1_ops h)) = true /\
  tn_tun (fst run).
Proof.
  intros cb g rq rsp cuts h Hcb Hsp Hq Hrs H2 (Qa & Ql & Qc & Qn & Ia & Ic & Ir & Pa & Pn & Pb & Pp & Pl & Ta) run.
  (* the answer *)
  unfold tn_rsp_ok in Hrs. apply andb_prop in Hrs. destruct Hrs as [Hrs Hfit]. apply andb_prop in Hrs. destruct Hrs as [Wr Wc].
  unfold sr_response_ok in Wr. apply andb_prop in Wr. destruct Wr as [Wl Wf].
  unfold sr_cuts_ok in Wc. apply andb_prop in Wc. destruct Wc as [_ Wc].
  destruct (sg_block_flat_ok (combine (wp_fields rsp) cuts) (sr_forallb_combine_fst wr_field_ok _ cuts Wf) Wc) as [Okl Hnp].
  unfold sr_fits in Hfit. apply andb_prop in Hfit. destruct Hfit as [Hl0 Hfit]. apply Nat.leb_le in Hl0.
  unfold tn_2xx in H2. apply andb_prop in H2. destruct H2 as [H2a H2b].
  set (ps := wp_protocol rsp) in *. set (ss := wp_status rsp) in *. set (rr := wp_reason rsp) in *. set (ls := sr_lines rsp cuts) in *.
  (* htp_connp_open *)
  destruct tn_c0_facts as (I0 & O0 & Si0 & So0 & X0 & _).
  (* the CONNECT request *)
  assert (Ew : wr_request_wire rq ++ h_glue h = (sg_line0 rq ++ [CR; LF]) ++ sg_fwire (sg_flat rq) ++ [CR; LF] ++ h_glue h).
  { rewrite sg_wire_flat. unfold sg_line0. rewrite <- !app_assoc. reflexivity. }
  assert (B0 : tq_betw g rq (h_glue h) tn_a0 tn_c0 (wr_request_wire rq ++ h_glue h)) by (apply TQ_idle; [exact I0|exact Ew]).
  destruct (tq_chunks cb g Hcb Hsp rq Hq (h_glue h) tn_a0 So0 X0 (h_qpre h) tn_c0 _ (h_qlast h) B0 O0 Qa Ql Qc ltac:(rewrite app_length; lia))
    as (c1 & fl & E1 & W1 & S1 & O1 & Ev1 & R1 & Q1).
  set (opsA := map OpReqData (h_qpre h ++ [h_qlast h])) in *.
  destruct (tn_run_stable cb g opsA tn_c0 Si0 So0) as [Si1 So1]. rewrite E1 in Si1, So1.
  destruct (tq_tw_facts g Hsp rq Hq fl) as (M0 & Rp0 & Z0 & Pg0 & Rep0).
  set (t0 := tn_tw g rq fl) in *.
  destruct (tn_wait_to_res g rq fl c1 W1 O1 Si1) as (Wf1 & Rest1 & _). fold t0 in Rest1.
  (* the answer *)
  assert (Hrp : t_response_progress t0 <= c_HTP_RESPONSE_LINE) by (rewrite Rp0; vm_compute; discriminate).
  assert (Hrq : (t_request_progress t0 =? c_HTP_REQUEST_COMPLETE) = false) by (rewrite Pg0; reflexivity).
  rewrite <- (sr_p11_th0 t0 (sr_line0 rsp)) in Hfit.
  assert (Ewr : sr_wire rsp cuts [] = tc_wire ps ss rr ls []) by (unfold sr_wire, tc_wire, sr_line0; rewrite <- !app_assoc; reflexivity).
  assert (B1 : tc_betw g t0 ps ss rr ls [] c1 (tc_wire ps ss rr ls [])) by (apply CB_idle; [exact Wf1|exact Rest1|reflexivity]).
  assert (Hne1 : tc_wire ps ss rr ls [] <> []) by (unfold tc_wire; intro E; apply app_eq_nil in E; destruct E as [E _]; apply app_eq_nil in E; destruct E as [_ E]; discriminate).
  destruct (tc_phase cb g Hcb t0 Z0 M0 Hrp Hrq ps ss rr ls Wl Okl Hnp H2a H2b Hl0 Hfit [] eq_refl (h_items h) c1 _ B1 Hne1 ltac:(rewrite Ic; exact Ewr) Ia Ir)
    as (Wf2 & A2 & Ev2 & R2 & Q2).
  set (opsB := tc_ops (h_items h)) in *. set (c2 := fst (cp_run cb g c1 opsB)) in *.
  destruct (tn_run_stable cb g opsB c1 Si1 So1) as [Si2 So2]. fold c2 in Si2, So2.
  destruct (tc_tdone_facts t0 M0 Hrq ps ss rr ls Wl) as (Prq & Pst & Ppr). set (td := tc_tdone t0 ps ss rr ls) in *.
  (* the client's payload *)
  pose proof (tn_res_to_wait c2 td Wf2 A2) as W2.
  assert (Hp2 : c_HTP_RESPONSE_LINE < t_response_progress td) by (rewrite Ppr; vm_compute; reflexivity).
  destruct (tp_chunks cb g Hcb (tn_w2 c2) td Hp2 ltac:(rewrite Pst; exact H2a) ltac:(rewrite Pst; exact H2b) (tn_h1_payload h) (h_b h) Pn Pb Pp Pl
              So2 (tf_state _ _ _ A2) (h_ppre h) c2 [] (h_u1 h) (h_u2 h) (PB_wait _ _ _ _ W2 eq_refl) Pa eq_refl)
    as (rsC & rD & ErC & T3 & X3 & R3 & Q3 & RD1 & RD2 & RD3 & RD4).
  cbv zeta in ErC, T3, X3. set (opsC := map OpReqData (h_ppre h ++ [h_u1 h ++ h_b h :: h_u2 h])) in *. set (c3 := fst (cp_run cb g c2 opsC)) in *.
  (* whatever follows *)
  destruct (tn_tunnel_tail cb g (h_tail h) c3 T3 Ta) as (T4 & X4 & R4). rewrite X3 in R4, X4. cbn [tn_w2 gw_done app length] in R4, X4.
  (* the run as a whole *)
  assert (Eops : tn_h1_ops h = OpOpen :: opsA ++ opsB ++ opsC ++ h_tail h).
  { unfold tn_h1_ops, tn_h1_head, tn_h1_dec, opsA, opsB, opsC. rewrite !map_app. cbn [map]. cbn [app]. rewrite <- !app_assoc. cbn [app]. reflexivity. }
  assert (Erun : run = (fst (cp_run cb g c3 (h_tail h)),
                        snd (finish_call (connp_open connp_new) (-1) 0 false) :: snd (cp_run cb g tn_c0 opsA) ++ snd (cp_run cb g c1 opsB) ++ (rsC ++ [rD]) ++ snd (cp_run cb g c3 (h_tail h)))).
  { unfold run. rewrite Eops, tn_run_cons, tn_open_step. cbn [fst snd].
    rewrite (tn_run_app cb g opsA). cbn [fst snd]. rewrite E1. rewrite (tn_run_app cb g opsB). cbn [fst snd]. fold c2.
    rewrite (tn_run_app cb g opsC). cbn [fst snd]. fold c3. rewrite ErC. reflexivity. }
  rewrite Erun. cbn [fst snd].
  set (r0 := snd (finish_call (connp_open connp_new) (-1) 0 false)) in *.
  set (rsA := snd (cp_run cb g tn_c0 opsA)) in *. set (rsB := snd (cp_run cb g c1 opsB)) in *. set (rsD := snd (cp_run cb g c3 (h_tail h))) in *.
  assert (LA : length rsA = length opsA) by apply tn_run_length. assert (LB : length rsB = length opsB) by apply tn_run_length.
  assert (LD : length rsD = length (h_tail h)) by apply tn_run_length.
  assert (LC : length rsC = length (h_ppre h)) by (rewrite <- (map_length tn_o), R3, map_length; reflexivity).
  assert (Q0 : tn_rquiet r0) by (unfold tn_rquiet; intro X; vm_compute in X; discriminate).
  assert (Esplit : r0 :: rsA ++ rsB ++ (rsC ++ [rD]) ++ rsD = (r0 :: rsA ++ rsB ++ rsC) ++ rD :: rsD) by (cbn [app]; rewrite <- !app_assoc; reflexivity).
  assert (Qhead : Forall tn_rquiet (r0 :: rsA ++ rsB ++ rsC)) by (constructor; [exact Q0|]; apply Forall_app; split; [exact Q1|]; apply Forall_app; split; [exact Q2|exact Q3]).
  assert (Lhead : length (r0 :: rsA ++ rsB ++ rsC) = length (tn_h1_head h)).
  { unfold tn_h1_head. cbn [length]. rewrite !app_length, LA, LB, LC. unfold opsA, opsB. rewrite !map_length. reflexivity. }
  split; [|split; [|split; [|split]]].
  - (* (a), (b) *)
    rewrite Esplit. unfold tn_h1_expect. rewrite map_app. apply f_equal2.
    + cbn [map]. f_equal. rewrite !map_app. apply f_equal2; [exact R1|]. apply f_equal2; [exact R2|exact R3].
    + cbn [map]. f_equal; [exact RD1|]. rewrite (tn_map_absorbed 1 rsD R4). apply tn_map_const. exact LD.
  - (* (c) *)
    exists td. split; [exact X4|]. split; [|split; [exact Pst|exact Ppr]].
    destruct (tc_rq_proj _ _ Prq) as (P1 & P2 & P3 & P4 & P5 & P6 & P7 & P8). unfold tn_reported in *. destruct Rep0 as (Y1 & Y2 & Y3 & Y4 & Y5 & Y6 & Y7).
    repeat split; congruence.
  - (* (b), (d) *)
    exists (r0 :: rsA ++ rsB ++ rsC), rD, rsD. split; [exact Esplit|]. split; [exact Lhead|]. split; [exact Qhead|]. split; [exact RD2|]. split; [exact RD3|exact R4].
  - (* (e) *)
    unfold obs_run. fold run. rewrite Erun. cbn [snd]. rewrite Esplit. unfold tn_h1_ops.
    rewrite (tn_combine_app3 (tn_h1_head h) (tn_h1_dec h) (h_tail h) _ rD rsD (eq_sym Lhead)). rewrite map_app. cbn [map].
    apply tn_chk_history.
    + apply tn_quiet_obs. exact Qhead.
    + exact RD2.
    + exact RD3.
    + cbn [obs_call oc_ntx]. rewrite RD4. cbn [tn_w2 gw_done length]. apply tn_absorbed_obs; [exact Ta|exact R4|exact LD].
  - exact T4.
Qed.

(* ================= non-vacuity and the vm_compute harness ================= *)
Definition tn_ex_cb : cb_oracle := fun _ _ => CB_OK.
Definition tn_ex_cfg : cfg := cp_make_cfg 1 (Z.to_nat 18000) 512 false false 0.
(* CONNECT a:443 HTTP/1.1 | Host: a *)
Definition tn_ex_rq : wr_request := mk_wr_request wr_str_connect [97;58;52;52;51]%N wr_http11 [mk_wr_field [72;111;115;116]%N [SP] [97]%N []].
(* HTTP/1.1 200 OK | X: 1 *)
Definition tn_ex_rsp : wr_response := mk_wr_response wr_http11 [50;48;48]%N [79;75]%N [mk_wr_field [88]%N [SP] [49]%N []].
Definition tn_ex_cuts : list (list bytes) := sr_cuts_whole tn_ex_rsp.
Definition tn_ex_qw : bytes := wr_request_wire tn_ex_rq.
Definition tn_ex_sw : bytes := sr_wire tn_ex_rsp tn_ex_cuts [].
(* the request in two chunks, the second one with three client bytes glued to it; the answer in three chunks with client bytes offered
   (and refused) before the first and the second one; a TLS-like payload in two chunks, NUL-terminated; then both directions *)
Definition tn_ex_h : tn_h1 :=
  mk_tn_h1 [firstn 10 tn_ex_qw] (skipn 10 tn_ex_qw ++ [22;3;1]%N) [22;3;1]%N
           [([[22;3;1]%N; [22]%N], firstn 5 tn_ex_sw); ([[22;3;1]%N], firstn 11 (skipn 5 tn_ex_sw)); ([], skipn 16 tn_ex_sw)]
           [[22;3]%N] [1]%N 0%N [10;7]%N
           [OpResData [22;3;3]%N; OpReqData [1;2;3]%N; OpResData [4]%N].
Example tn_ex_premises :
  wr_all_ok tn_ex_cb /\ g_allow_space_uri tn_ex_cfg = false /\ tn_connect_ok tn_ex_cfg tn_ex_rq = true /\
  tn_rsp_ok tn_ex_cfg tn_ex_rsp tn_ex_cuts = true /\ tn_2xx tn_ex_rsp = true /\ tn_h1_ok tn_ex_cfg tn_ex_rq tn_ex_rsp tn_ex_cuts tn_ex_h.
Proof.
  split; [intros hk n; reflexivity|]. split; [reflexivity|]. split; [vm_compute; reflexivity|]. split; [vm_compute; reflexivity|]. split; [vm_compute; reflexivity|].
  unfold tn_h1_ok. cbn [tn_ex_h h_qpre h_qlast h_glue h_items h_ppre h_u1 h_b h_u2 h_tail].
  split; [repeat constructor; vm_compute; discriminate|]. split; [vm_compute; discriminate|]. split; [vm_compute; reflexivity|]. split; [vm_compute; lia|].
  split; [repeat constructor; cbn [fst snd]; vm_compute; discriminate|]. split; [vm_compute; reflexivity|].
  split; [cbn [tc_refs_ok fst]; split; [right; vm_compute; lia|split; [right; vm_compute; lia|split; [left; reflexivity|exact I]]]|].
  split; [repeat constructor; discriminate|]. split; [vm_compute; reflexivity|]. split; [vm_compute; reflexivity|]. split; [vm_compute; reflexivity|].
  split; [vm_compute; lia|]. repeat constructor; cbn [tn_data_op]; discriminate.
Qed.
(* what the theorem says about this history, evaluated: return codes and consumed counts, one transaction, the oracle *)
Example tn_ex_run :
  let run := cp_run tn_ex_cb tn_ex_cfg connp_new (tn_h1_ops tn_ex_h) in
  map tn_o (snd run) = tn_h1_expect tn_ex_h /\
  tn_h1_expect tn_ex_h = [(-1, 0%nat); (c_HTP_STREAM_DATA, 10%nat); (c_HTP_STREAM_DATA_OTHER, 25%nat); (c_HTP_STREAM_DATA_OTHER, 0%nat); (c_HTP_STREAM_DATA_OTHER, 0%nat);
                          (c_HTP_STREAM_DATA, 5%nat); (c_HTP_STREAM_DATA_OTHER, 0%nat); (c_HTP_STREAM_DATA, 11%nat); (c_HTP_STREAM_DATA, 9%nat);
                          (c_HTP_STREAM_DATA, 2%nat); (c_HTP_STREAM_TUNNEL, 1%nat); (c_HTP_STREAM_TUNNEL, 0%nat); (c_HTP_STREAM_TUNNEL, 0%nat); (c_HTP_STREAM_TUNNEL, 0%nat)] /\
  map (option_map (fun t => (t_request_method t, t_response_status_number t))) (c_txs (fst run)) = [Some (Some wr_str_connect, 200)] /\
  chk_C16 (obs_run tn_ex_cb tn_ex_cfg connp_new (tn_h1_ops tn_ex_h)) = true.
Proof. vm_compute. repeat split; reflexivity. Qed.
(* the premise on the order of the operations is needed (listed finding server-first-tunnel-data-parsed-as-response): a response data
   call between the 2xx head and the client's first payload bytes is parsed as a new response -- a second transaction appears *)
Example tn_ex_server_first :
  map r_ntx (snd (cp_run tn_ex_cb tn_ex_cfg connp_new [OpOpen; OpReqData tn_ex_qw; OpResData tn_ex_sw; OpResData [50;50;48;32;104;105;13;10]%N; OpReqData [22;3;1;0]%N])) =
    [0; 1; 1; 2; 2]%nat.
Proof. vm_compute. reflexivity. Qed.
(* the probe: what looks like HTTP and what does not *)
Example tn_ex_probe : tn_probe_http [22;3;1]%N = false /\ tn_probe_http [71;69;84;32;47]%N = true /\ tn_probe_http [32;71;69;84;32;47]%N = true /\
  tn_probe_http [71;69;88;32;47]%N = false /\ tn_probe_http [] = false.
Proof. vm_compute. repeat split; reflexivity. Qed.

(* ================= THEOREM FOR RE-EXPORT (Properties_C16.v) =================
   tn_tunnel_established : see the statement above.  Premises: wr_all_ok cb, g_allow_space_uri g = false,
     tn_connect_ok g rq (request line CONNECT SP authority SP HTTP/1.x of the wire grammar, block of grammar fields, PSegRun.sg_fits),
     tn_rsp_ok g rsp cuts (PSegResThm: sr_response_ok, sr_cuts_ok, sr_fits), tn_2xx rsp,
     tn_h1_ok g rq rsp cuts h: chunks non-empty; the chunks before h_qlast end inside the request; request data inside the answer phase only
     before the LF of the status line (tc_refs_ok); the payload before its first LF / NUL is not HTTP for the model's own probe
     (tn_probe_http) and fits field_limit_hard; the tail consists of data calls with non-empty data. *)
Print Assumptions tn_tunnel_established.
