(* C06, part G (response side): the loop body of htp_connp_res_data iterated over the TCP chunks; identity body
   (Content-Length) and close-delimited body under every chunking. *)
Require Import Htp.Model.MConnTypes Htp.Model.MBstr Htp.Model.MTxCommon Htp.Model.MResLine Htp.Model.MTxRes Htp.Model.MRes.
Require Import Htp.Spec.SBody Htp.Proof.PBody Htp.Proof.PBodyRes.
Local Open Scope Z_scope.

Section Res.
Variable cb : cb_oracle.
Variable g : cfg.
Hypothesis cb_ok : forall n, cb H_RESPONSE_BODY_DATA n = CB_OK.

(* the part of htp_connp_res_data before the for(;;): a fresh chunk d *)
Definition bd_res_begin (d : bytes) (c : connp) : connp :=
  let c := rs_set_out (fun k => k <| k_data := Some d |> <| k_len := length d |> <| k_read := 0%nat |>
                                  <| k_consume := 0%nat |> <| k_receiver := 0%nat |>) c in
  c <| c_out_data_counter ::= Z.add (Z.of_nat (length d)) |>.

(* one pass of the for(;;) of rs_res_loop (no gap): inl = htp_connp_res_data returns, inr = goes round again *)
Definition bd_rs_iter (c : connp) : (connp * Z) + connp :=
  match rs_state_fn cb g (c_out_state c) c with
  | (ST_OK, c) =>
    if c_out_status c =? c_HTP_STREAM_TUNNEL then inl (c, c_HTP_STREAM_TUNNEL)
    else match rs_handle_state_change cb c with
         | (ST_OK, c) => inr c
         | (rc, c) => inl (rs_res_exit cb g rc c)
         end
  | (rc, c) => inl (rs_res_exit cb g rc c)
  end.
Lemma bd_rs_loop_unroll f c :
  rs_res_loop cb g (S f) false c = match bd_rs_iter c with inl r => r | inr c' => rs_res_loop cb g f false c' end.
Proof.
  cbn [rs_res_loop andb]. unfold bd_rs_iter.
  destruct (rs_state_fn cb g (c_out_state c) c) as [[] c1]; try reflexivity.
  destruct (c_out_status c1 =? c_HTP_STREAM_TUNNEL); [reflexivity|].
  destruct (rs_handle_state_change cb c1) as [[] c2]; reflexivity.
Qed.

Inductive bd_rs_reach : connp -> list bytes -> connp -> list bytes -> Prop :=
| bd_sr_refl c rem : bd_rs_reach c rem c rem
| bd_sr_iter c c1 rem c' rem' :
    bd_rs_iter c = inr c1 -> bd_rs_reach c1 rem c' rem' -> bd_rs_reach c rem c' rem'
| bd_sr_next c c1 d rem c' rem' :
    bd_rs_iter c = inl (c1, c_HTP_STREAM_DATA) -> bd_rs_reach (bd_res_begin d c1) rem c' rem' ->
    bd_rs_reach c (d :: rem) c' rem'.
Lemma bd_rs_reach_trans a ra b rb c rc : bd_rs_reach a ra b rb -> bd_rs_reach b rb c rc -> bd_rs_reach a ra c rc.
Proof. intros H1 H2. induction H1; [exact H2|eapply bd_sr_iter; eauto|eapply bd_sr_next; eauto]. Qed.

Definition bd_rs_hsc (c : connp) : connp :=
  if match c_out_state_previous c with Some s => res_state_eqb s (c_out_state c) | None => false end then c
  else c <| c_out_state_previous := Some (c_out_state c) |>.
Lemma bd_rs_hsc_spec c : res_state_eqb (c_out_state c) RES_HEADERS = false -> rs_handle_state_change cb c = (ST_OK, bd_rs_hsc c).
Proof.
  intros H. unfold rs_handle_state_change, bd_rs_hsc. rewrite H.
  destruct (c_out_state_previous c) as [s|]; [destruct (res_state_eqb s (c_out_state c))|]; reflexivity.
Qed.
Lemma bd_rs_iter_ok c c' :
  rs_state_fn cb g (c_out_state c) c = (ST_OK, c') -> (c_out_status c' =? c_HTP_STREAM_TUNNEL) = false ->
  res_state_eqb (c_out_state c') RES_HEADERS = false -> bd_rs_iter c = inr (bd_rs_hsc c').
Proof. intros H1 H2 H3. unfold bd_rs_iter. rewrite H1, H2, (bd_rs_hsc_spec _ H3). reflexivity. Qed.
Lemma bd_rs_iter_data c c' :
  rs_state_fn cb g (c_out_state c) c = (ST_DATA, c') -> k_receiver_hook (c_out c') = None ->
  bd_rs_iter c = inl (rs_set_out_status c_HTP_STREAM_DATA c', c_HTP_STREAM_DATA).
Proof. intros H1 H2. unfold bd_rs_iter. rewrite H1. unfold rs_res_exit, res_receiver_send_data. rewrite H2. reflexivity. Qed.

Lemma bd_rs_eqv_hsc c : bd_rs_eqv c (bd_rs_hsc c).
Proof. unfold bd_rs_hsc. destruct (c_out_state_previous c) as [s|]; [destruct (res_state_eqb s (c_out_state c))|]; repeat split. Qed.
Lemma bd_rs_hsc_misc c : c_out_state (bd_rs_hsc c) = c_out_state c /\ c_out_body_data_left (bd_rs_hsc c) = c_out_body_data_left c /\
  c_out_chunked_length (bd_rs_hsc c) = c_out_chunked_length c.
Proof. unfold bd_rs_hsc. destruct (c_out_state_previous c) as [s|]; [destruct (res_state_eqb s (c_out_state c))|]; repeat split. Qed.
Lemma bd_rs_inv_status o c : bd_rs_inv o c -> bd_rs_inv o (rs_set_out_status c_HTP_STREAM_DATA c).
Proof. intros [A B C D E F]. constructor; try assumption. split; reflexivity. Qed.
Lemma bd_rs_inv_begin o d c : bd_rs_inv o c -> bd_rs_inv o (bd_res_begin d c).
Proof.
  intros [A (t & B1 & B2) C D E F]. unfold bd_res_begin. cbv zeta.
  constructor; try assumption.
  - exists t. split; [erewrite bd_slot_ext; [exact B1|reflexivity|reflexivity]|exact B2].
  - exists d. cbn. repeat split; lia.
Qed.
Lemma bd_rs_begin_misc d c :
  bd_rs_rest (bd_res_begin d c) = d /\ (bd_rs_pending c = [] -> bd_rs_clean (bd_res_begin d c)) /\
  c_events (bd_res_begin d c) = c_events c /\ c_out_state (bd_res_begin d c) = c_out_state c /\
  c_out_body_data_left (bd_res_begin d c) = c_out_body_data_left c /\ c_out_chunked_length (bd_res_begin d c) = c_out_chunked_length c /\
  k_buf (c_out (bd_res_begin d c)) = k_buf (c_out c) /\ (forall i, tx_slot (bd_res_begin d c) i = tx_slot c i).
Proof.
  unfold bd_res_begin. cbv zeta. bd_rsplits; try reflexivity;
    try (intros H; split; cbn; auto; fail); try (intros i; apply bd_slot_ext; reflexivity).
Qed.

Record bd_rs_seg (o : nat) (c : connp) (rem : list bytes) (c' : connp) (rem' : list bytes) (payload : bytes) (dmsg : Z) : Prop := mk_bd_rs_seg {
  rg_reach : bd_rs_reach c rem c' rem';
  rg_inv : bd_rs_inv o c';
  rg_clean : bd_rs_clean c';
  rg_rem : Forall (fun d => d <> []) rem';
  rg_events : exists evs, c_events c' = evs ++ c_events c /\ bd_delivered H_RESPONSE_BODY_DATA evs = payload /\
                          bd_evs H_RESPONSE_BODY_DATA evs = evs;
  rg_lens : forall t, tx_slot c o = Some t ->
            exists t', tx_slot c' o = Some t' /\
                       t_response_entity_len t' = t_response_entity_len t + Z.of_nat (length payload) /\
                       t_response_message_len t' = t_response_message_len t + dmsg
}.

Lemma bd_rs_eqv_set_left c v : bd_rs_eqv c (c <| c_out_body_data_left := v |>). Proof. repeat split. Qed.
Lemma bd_rs_eqv_set_chunked c v : bd_rs_eqv c (c <| c_out_chunked_length := v |>). Proof. repeat split. Qed.
Lemma bd_rs_eqv_set_state c s : bd_rs_eqv c (rs_set_state s c). Proof. repeat split. Qed.
Lemma bd_rs_stepped_eqv o t dd c c' c'' : bd_rs_eqv c' c'' -> c_out_state c'' = c_out_state c' ->
  bd_rs_stepped o t dd c c' -> bd_rs_stepped o t dd c c''.
Proof.
  intros E E3 [A B C D F I]. constructor.
  - eapply bd_rs_eqv_inv; eauto.
  - intros rest H0. rewrite (bd_rs_eqv_rest _ _ E). auto.
  - intros H0. eapply bd_rs_eqv_clean; eauto.
  - rewrite (bd_rs_eqv_events _ _ E). exact D.
  - rewrite (bd_rs_eqv_slot _ _ o E). exact F.
  - congruence.
Qed.
Lemma bd_tx_res_lens_set t n :
  let t' := t <| t_response_message_len ::= Z.add n |> <| t_response_entity_len ::= Z.add n |> in
  t_response_entity_len t' = n + t_response_entity_len t /\ t_response_message_len t' = n + t_response_message_len t /\
  t_hook_response_body t' = t_hook_response_body t /\ t_res_cep t' = t_res_cep t.
Proof. repeat split. Qed.

(* abstract form of the RES_BODY_IDENTITY_CL_KNOWN step *)
Lemma bd_rs_cl_known_finish o t dd (n : Z) c c1 (r : st * connp) :
  bd_rs_inv o c -> tx_slot c o = Some t ->
  bd_rs_stepped o t dd c c1 -> c_out_chunked_length c1 = c_out_chunked_length c ->
  r = (let c2 := c1 <| c_out_body_data_left := n - Z.of_nat (length dd) |> in
       if n - Z.of_nat (length dd) =? 0
       then (ST_OK, bd_rs_deliver o (t <| t_response_message_len ::= Z.add (Z.of_nat (length dd)) |>
                                      <| t_response_entity_len ::= Z.add (Z.of_nat (length dd)) |>) None 0
                                  (rs_set_state RES_FINALIZE c2))
       else (ST_DATA, c2)) ->
  (n - Z.of_nat (length dd) <> 0 -> exists c',
     r = (ST_DATA, c') /\ bd_rs_stepped o t dd c c' /\ c_out_body_data_left c' = n - Z.of_nat (length dd) /\
     c_out_chunked_length c' = c_out_chunked_length c) /\
  (n - Z.of_nat (length dd) = 0 -> exists c' t',
     r = (ST_OK, c') /\ bd_rs_inv o c' /\
     (forall rest, bd_rs_rest c = dd ++ rest -> bd_rs_rest c' = rest) /\ (bd_rs_clean c -> bd_rs_clean c') /\
     c_events c' = mkev H_RESPONSE_BODY_DATA o None false None :: mkev H_RESPONSE_BODY_DATA o (Some dd) false None :: c_events c /\
     tx_slot c' o = Some t' /\ t_response_entity_len t' = t_response_entity_len t + Z.of_nat (length dd) /\
     t_response_message_len t' = t_response_message_len t + Z.of_nat (length dd) /\
     c_out_body_data_left c' = 0 /\ c_out_state c' = RES_FINALIZE /\ c_out_chunked_length c' = c_out_chunked_length c).
Proof.
  intros Inv Hl Hst K1 H. cbv zeta in H.
  set (c2 := c1 <| c_out_body_data_left := n - Z.of_nat (length dd) |>) in *.
  assert (E2 : bd_rs_eqv c1 c2 /\ c_out_body_data_left c2 = n - Z.of_nat (length dd) /\ c_out_chunked_length c2 = c_out_chunked_length c1 /\
               c_out_state c2 = c_out_state c1) by (repeat split).
  clearbody c2. destruct E2 as (E2 & L2 & K2 & S2).
  pose proof (bd_rs_stepped_eqv o t dd c c1 c2 E2 S2 Hst) as Hst2.
  split.
  - intros Hne. apply Z.eqb_neq in Hne. rewrite Hne in H.
    exists c2. split; [exact H|]. split; [exact Hst2|]. split; [exact L2|congruence].
  - intros He. rewrite He in H. cbn [Z.eqb] in H.
    set (t1 := t <| t_response_message_len ::= Z.add (Z.of_nat (length dd)) |> <| t_response_entity_len ::= Z.add (Z.of_nat (length dd)) |>) in *.
    destruct (bd_tx_res_lens_set t (Z.of_nat (length dd))) as (Q1 & Q2 & Q3 & Q4). fold t1 in Q1, Q2, Q3, Q4.
    set (c3 := rs_set_state RES_FINALIZE c2) in *.
    assert (E3 : bd_rs_eqv c2 c3 /\ c_out_body_data_left c3 = c_out_body_data_left c2 /\ c_out_chunked_length c3 = c_out_chunked_length c2 /\
                 c_out_state c3 = RES_FINALIZE) by (repeat split).
    clearbody c3. destruct E3 as (E3 & L3 & K3 & S3).
    destruct Hst2 as [I2 R2 C2 V2 T2 _].
    assert (T3 : tx_slot c3 o = Some t1) by (rewrite (bd_rs_eqv_slot _ _ o E3); exact T2).
    destruct (bd_rs_deliver_facts o t1 None 0 c3 T3) as (F1 & F2 & F3 & F4 & F5 & F6 & F7 & F8).
    set (c4 := bd_rs_deliver o t1 None 0 c3) in *. clearbody c4.
    pose proof (bd_rs_eqv_inv _ _ o E3 I2) as I3.
    destruct (bd_tx_res_lens_set t1 (Z.of_nat 0)) as (P1 & P2 & P3 & P4).
    eexists c4, _. split; [exact H|]. bd_rsplits.
    + destruct I3 as [A (t0 & B1 & B2 & B3) C D G (d & D1 & D2 & D3)]. constructor; rewrite ?F2, ?F3, ?F4; try assumption.
      * eexists. split; [exact F8|]. rewrite P3, P4, Q3, Q4. destruct (bs_live _ _ Inv) as (t9 & X1 & X2 & X3). rewrite Hl in X1. inversion X1; subst t9. auto.
      * exists d. auto.
    + intros rest Hr. unfold bd_rs_rest. rewrite F2. fold (bd_rs_rest c3). rewrite (bd_rs_eqv_rest _ _ E3). auto.
    + intros Hc. unfold bd_rs_clean, bd_rs_pending. rewrite F2. apply (bd_rs_eqv_clean _ _ E3). auto.
    + rewrite F1, (bd_rs_eqv_events _ _ E3), V2. reflexivity.
    + exact F8.
    + rewrite P1, Q1. cbn. lia.
    + rewrite P2, Q2. cbn. lia.
    + rewrite F6, L3, L2. lia.
    + rewrite F5. exact S3.
    + rewrite F7, K3, K2. exact K1.
Qed.

Lemma bd_rs_cl_known_step_abs o t c :
  bd_rs_inv o c -> tx_slot c o = Some t -> 0 < c_out_body_data_left c ->
  let n := c_out_body_data_left c in
  let dd := firstn (Z.to_nat n) (bd_rs_rest c) in
  (dd = [] -> rs_RES_BODY_IDENTITY_CL_KNOWN cb c = (ST_DATA, c)) /\
  (dd <> [] -> n - Z.of_nat (length dd) <> 0 -> exists c',
     rs_RES_BODY_IDENTITY_CL_KNOWN cb c = (ST_DATA, c') /\ bd_rs_stepped o t dd c c' /\
     c_out_body_data_left c' = n - Z.of_nat (length dd) /\ c_out_chunked_length c' = c_out_chunked_length c) /\
  (dd <> [] -> n - Z.of_nat (length dd) = 0 -> exists c' t',
     rs_RES_BODY_IDENTITY_CL_KNOWN cb c = (ST_OK, c') /\ bd_rs_inv o c' /\
     (forall rest, bd_rs_rest c = dd ++ rest -> bd_rs_rest c' = rest) /\ (bd_rs_clean c -> bd_rs_clean c') /\
     c_events c' = mkev H_RESPONSE_BODY_DATA o None false None :: mkev H_RESPONSE_BODY_DATA o (Some dd) false None :: c_events c /\
     tx_slot c' o = Some t' /\ t_response_entity_len t' = t_response_entity_len t + Z.of_nat (length dd) /\
     t_response_message_len t' = t_response_message_len t + Z.of_nat (length dd) /\
     c_out_body_data_left c' = 0 /\ c_out_state c' = RES_FINALIZE /\ c_out_chunked_length c' = c_out_chunked_length c).
Proof.
  intros Inv Hl Hn n dd. pose proof (bd_rs_cl_known_step cb cb_ok o t c Inv Hl Hn) as H. cbv zeta in H. fold n in H. fold dd in H.
  assert (Hsplit : bd_rs_rest c = dd ++ skipn (Z.to_nat n) (bd_rs_rest c)) by (symmetry; apply firstn_skipn).
  destruct (bd_rs_advance_stepped o t dd _ c Inv Hl Hsplit) as (Hst & L1 & K1).
  set (c1 := rs_advance (length dd) (bd_rs_deliver o t (Some dd) (length dd) c)) in *.
  fold n in L1. clearbody c1. rewrite L1 in H.
  split; [intros E; rewrite E in H; exact H|].
  assert (G : dd <> [] -> rs_RES_BODY_IDENTITY_CL_KNOWN cb c =
    (let c2 := c1 <| c_out_body_data_left := n - Z.of_nat (length dd) |> in
       if n - Z.of_nat (length dd) =? 0
       then (ST_OK, bd_rs_deliver o (t <| t_response_message_len ::= Z.add (Z.of_nat (length dd)) |>
                                      <| t_response_entity_len ::= Z.add (Z.of_nat (length dd)) |>) None 0
                                  (rs_set_state RES_FINALIZE c2))
       else (ST_DATA, c2))).
  { intros E. assert (E0 : (length dd =? 0)%nat = false) by (apply Nat.eqb_neq; destruct dd; [congruence|discriminate]).
    rewrite E0 in H. exact H. }
  split; intros E; destruct (bd_rs_cl_known_finish o t dd n c c1 _ Inv Hl Hst K1 (G E)) as (A & B); auto.
Qed.

Lemma bd_rs_stream_close_step_abs o t c :
  bd_rs_inv o c -> tx_slot c o = Some t ->
  (bd_rs_rest c = [] -> rs_RES_BODY_IDENTITY_STREAM_CLOSE cb c = (ST_DATA, c)) /\
  (bd_rs_rest c <> [] -> exists c', rs_RES_BODY_IDENTITY_STREAM_CLOSE cb c = (ST_DATA, c') /\ bd_rs_stepped o t (bd_rs_rest c) c c' /\
     c_out_body_data_left c' = c_out_body_data_left c /\ c_out_chunked_length c' = c_out_chunked_length c).
Proof.
  intros Inv Hl. pose proof (bd_rs_stream_close_step cb cb_ok o t c Inv Hl) as H. cbv zeta in H.
  split.
  - intros E. rewrite E in H. exact H.
  - intros E. assert (E0 : (length (bd_rs_rest c) =? 0)%nat = false) by (apply Nat.eqb_neq; destruct (bd_rs_rest c); [congruence|discriminate]).
    rewrite E0 in H. eexists. split; [exact H|].
    apply (bd_rs_advance_stepped o t (bd_rs_rest c) [] c Inv Hl). symmetry. apply app_nil_r.
Qed.

Lemma bd_tx_res_lens_get t n :
  t_response_entity_len (t <| t_response_message_len ::= Z.add n |> <| t_response_entity_len ::= Z.add n |>) = n + t_response_entity_len t /\
  t_response_message_len (t <| t_response_message_len ::= Z.add n |> <| t_response_entity_len ::= Z.add n |>) = n + t_response_message_len t.
Proof. split; reflexivity. Qed.

(* ================= (4) close-delimited body: RES_BODY_IDENTITY_STREAM_CLOSE delivers every byte of every chunk =================
   c_last is the parser at the beginning of the last call; that call returns HTP_DATA leaving c'' (nothing unread) *)
Theorem bd_rs_close_delimited o : forall rem c,
  bd_rs_inv o c -> c_out_state c = RES_BODY_IDENTITY_STREAM_CLOSE -> Forall (fun d => d <> []) rem ->
  exists c_last c'' evs,
    bd_rs_reach c rem c_last [] /\ rs_RES_BODY_IDENTITY_STREAM_CLOSE cb c_last = (ST_DATA, c'') /\
    bd_rs_inv o c'' /\ bd_rs_rest c'' = [] /\ c_out_state c'' = RES_BODY_IDENTITY_STREAM_CLOSE /\
    c_events c'' = evs ++ c_events c /\ bd_delivered H_RESPONSE_BODY_DATA evs = bd_rs_rest c ++ concat rem /\
    bd_evs H_RESPONSE_BODY_DATA evs = evs /\
    (forall t, tx_slot c o = Some t -> exists t', tx_slot c'' o = Some t' /\
       t_response_entity_len t' = t_response_entity_len t + Z.of_nat (length (bd_rs_rest c ++ concat rem)) /\
       t_response_message_len t' = t_response_message_len t + Z.of_nat (length (bd_rs_rest c ++ concat rem))).
Proof.
  induction rem as [|d' rem IH]; intros c Inv Hs Hrem.
  all: destruct (bs_live _ _ Inv) as (t & Hl & Hh & Hc).
  all: destruct (bd_rs_stream_close_step_abs o t c Inv Hl) as (S0 & S1).
  all: assert (Hfn : rs_state_fn cb g (c_out_state c) c = rs_RES_BODY_IDENTITY_STREAM_CLOSE cb c) by (rewrite Hs; reflexivity).
  - cbn [concat]. rewrite app_nil_r. destruct (bd_rs_rest c) as [|r0 rr] eqn:Er.
    + exists c, c, []. bd_rsplits; auto; try constructor.
      intros t0 Ht0. exists t0. cbn. bd_rsplits; auto; lia.
    + destruct S1 as (c' & F & [I R C V T S] & L & K); [discriminate|].
      exists c, c', [mkev H_RESPONSE_BODY_DATA o (Some (r0 :: rr)) false None]. bd_rsplits; auto; try constructor.
      * apply (R []). rewrite app_nil_r. exact Er.
      * congruence.
      * cbn. rewrite app_nil_r. reflexivity.
      * intros t0 Ht0. rewrite Hl in Ht0. inversion Ht0; subst t0. eexists. split; [exact T|].
        destruct (bd_tx_res_lens_get t (Z.of_nat (length (r0 :: rr)))) as (Q1 & Q2). rewrite Q1, Q2. split; lia.
  - pose proof (Forall_inv Hrem) as Hd'. pose proof (Forall_inv_tail Hrem) as Hrem'. cbn beta in Hd'.
    destruct (bd_rs_rest c) as [|r0 rr] eqn:Er.
    + specialize (S0 eq_refl).
      set (c1 := bd_res_begin d' (rs_set_out_status c_HTP_STREAM_DATA c)).
      destruct (bd_rs_begin_misc d' (rs_set_out_status c_HTP_STREAM_DATA c)) as (B1 & B2 & B3 & B4 & B5 & B6 & B7 & B8).
      assert (I1 : bd_rs_inv o c1) by (apply bd_rs_inv_begin; apply bd_rs_inv_status; exact Inv).
      assert (S1' : c_out_state c1 = RES_BODY_IDENTITY_STREAM_CLOSE) by (unfold c1; rewrite B4; exact Hs).
      destruct (IH c1 I1 S1' Hrem') as (cl & c'' & evs & R & F & I & Rs & St & Ev & Dl & Eo & Ln).
      exists cl, c'', evs. bd_rsplits; auto.
      all: first
        [ eapply bd_sr_next; [|exact R]; apply bd_rs_iter_data; [rewrite Hfn; exact S0|apply (bs_rcv _ _ Inv)]
        | rewrite Ev; unfold c1; rewrite B3; reflexivity
        | rewrite Dl; unfold c1; rewrite B1; reflexivity
        | intros t0 Ht0; destruct (Ln t0) as (t' & T1 & T2 & T3); [unfold c1; rewrite B8; rewrite <- Ht0; apply bd_slot_ext; reflexivity|];
          exists t'; unfold c1 in T2, T3; rewrite B1 in T2, T3; bd_rsplits; auto ].
    + destruct S1 as (c' & F & [I R C V T S] & L & K); [discriminate|].
      set (rc := r0 :: rr) in *.
      set (c1 := bd_res_begin d' (rs_set_out_status c_HTP_STREAM_DATA c')).
      destruct (bd_rs_begin_misc d' (rs_set_out_status c_HTP_STREAM_DATA c')) as (B1 & B2 & B3 & B4 & B5 & B6 & B7 & B8).
      assert (I1 : bd_rs_inv o c1) by (apply bd_rs_inv_begin; apply bd_rs_inv_status; exact I).
      assert (S1' : c_out_state c1 = RES_BODY_IDENTITY_STREAM_CLOSE) by (unfold c1; rewrite B4; cbn; congruence).
      destruct (IH c1 I1 S1' Hrem') as (cl & c'' & evs & R' & F' & I' & Rs & St & Ev & Dl & Eo & Ln).
      exists cl, c'', (evs ++ [mkev H_RESPONSE_BODY_DATA o (Some rc) false None]). bd_rsplits; auto.
      * eapply bd_sr_next; [|exact R']. apply bd_rs_iter_data; [rewrite Hfn; exact F|apply (bs_rcv _ _ I)].
      * rewrite Ev. unfold c1. rewrite B3. cbn. rewrite V, <- app_assoc. reflexivity.
      * unfold bd_delivered, bd_evs in *. rewrite filter_app, rev_app_distr, map_app, concat_app. cbn. rewrite app_nil_r.
        rewrite Dl. unfold c1. rewrite B1. reflexivity.
      * unfold bd_evs in *. rewrite filter_app, Eo. reflexivity.
      * intros t0 Ht0. rewrite Hl in Ht0. inversion Ht0; subst t0.
        destruct (Ln _ (eq_trans (B8 o) (eq_trans (bd_slot_ext _ _ o eq_refl eq_refl) T))) as (t' & T1 & T2 & T3).
        exists t'. unfold c1 in T2, T3. rewrite B1 in T2, T3.
        destruct (bd_tx_res_lens_get t (Z.of_nat (length rc))) as (Q1 & Q2). rewrite Q1 in T2. rewrite Q2 in T3.
        bd_rsplits; auto; rewrite ?T2, ?T3; cbn [concat]; rewrite !app_length; lia.
Qed.
End Res.
