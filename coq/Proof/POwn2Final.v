(* C18, second part: the final theorems of Proof/POwn2*.v, for re-export in Props/Properties_C18.v. *)
Require Import Htp.Model.Base Htp.Model.MOwn Htp.Model.MOwnCases Htp.Model.MOwn2 Htp.Proof.POwn Htp.Proof.POwn2 Htp.Proof.POwn2Uri Htp.Proof.POwn2Res Htp.Proof.POwn2Dec Htp.Proof.POwn2Tx Htp.Proof.POwn2Line.

(* ===== FINAL THEOREMS (every one: Closed under the global context) ===== *)
(* -- htp_parse_hostport / htp_parse_header_hostport / htp_parse_uri_hostport *)
Print Assumptions ow_safe_parse_hostport.
Print Assumptions ow_then_destroy_clean_parse_hostport.
Print Assumptions ow_parse_hostport_error_clears.
Print Assumptions ow_safe_parse_header_hostport.
Print Assumptions ow_then_destroy_clean_parse_header_hostport.
Print Assumptions ow_safe_parse_uri_hostport.
Print Assumptions ow_then_destroy_clean_parse_uri_hostport.
Print Assumptions ow_parse_uri_hostport_error_clears.
Print Assumptions ow_parse_uri_hostport_old_refuted.
Print Assumptions ow_parse_uri_hostport_old_refuted_v6.
Print Assumptions ow_parse_hostport_old_refuted.
(* -- htp_parse_uri / htp_normalize_parsed_uri / htp_tx_state_request_line *)
Print Assumptions ow_safe_parse_uri.
Print Assumptions ow_then_destroy_clean_parse_uri.
Print Assumptions ow_safe_normalize_parsed_uri.
Print Assumptions ow_then_destroy_clean_normalize_parsed_uri.
Print Assumptions ow_parse_normalize_free_clean.
Print Assumptions ow_safe_tx_state_request_line.
Print Assumptions ow_then_destroy_clean_tx_state_request_line.
(* -- htp_process_response_header_generic / htp_parse_response_header_generic *)
Print Assumptions ow_safe_process_response_header.
Print Assumptions ow_then_destroy_clean_process_response_header.
Print Assumptions ow_process_response_header_keeps_shape.
(* -- htp_connp_res_buffer / htp_connp_res_consolidate_data / htp_connp_res_clear_buffer *)
Print Assumptions ow_safe_res_buffer.
Print Assumptions ow_then_destroy_clean_res_buffer.
Print Assumptions ow_then_destroy_clean_res_consolidate.
Print Assumptions ow_then_destroy_clean_res_buffer_clear.
(* -- htp_gzip_decompressor_create / destroy, the chains, htp_connp_destroy_all with chains, htp_tx_state_response_headers *)
Print Assumptions ow_safe_decompressor_create.
Print Assumptions ow_then_destroy_clean_decompressor_create.
Print Assumptions ow_destroy_decompressors_clean.
Print Assumptions ow_connp2_destroy_all_clean.
Print Assumptions ow_safe_tx_state_response_headers.
Print Assumptions ow_then_destroy_clean_tx_state_response_headers.
Print Assumptions ow_tx_state_response_headers_twice_clean.
(* -- htp_urlenp_create / destroy, htp_mpartp_create / destroy, htp_tx_destroy with the request parsers *)
Print Assumptions ow_safe_urlenp_create.
Print Assumptions ow_then_destroy_clean_urlenp_create.
Print Assumptions ow_urlenp_destroy_clean.
Print Assumptions ow_safe_mpartp_create.
Print Assumptions ow_then_destroy_clean_mpartp_create.
Print Assumptions ow_mpartp_destroy_clean.
Print Assumptions ow_tx_destroy_full_clean.
Print Assumptions ow_tx_destroy_spec.
Print Assumptions ow_parsers_then_tx_destroy_clean.
(* -- htp_parse_response_line_generic / htp_parse_request_line_generic_ex *)
Print Assumptions ow_safe_parse_response_line.
Print Assumptions ow_then_destroy_clean_parse_response_line.
Print Assumptions ow_safe_parse_request_line.
Print Assumptions ow_then_destroy_clean_parse_request_line.
(* ===== END FINAL THEOREMS ===== *)
