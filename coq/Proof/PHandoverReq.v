(* C09, clause "hand-over progress" (request side): htp_connp_req_data answers HTP_STREAM_DATA_OTHER only when the
   request parser must wait for the response to a CONNECT.
     req_data_other_state  (no premise): after a DATA_OTHER answer the parser is in REQ_CONNECT_WAIT_RESPONSE and
                           in_status is HTP_STREAM_DATA_OTHER;
     req_data_other_zero   (between-calls invariant, non-empty chunk, stream not closed): a DATA_OTHER answer that
                           consumed nothing means the call started in REQ_CONNECT_CHECK or in
                           REQ_CONNECT_WAIT_RESPONSE with the response line not yet seen. *)
Require Import Htp.Model.MConnTypes Htp.Model.MTxCommon Htp.Model.MBstr Htp.Model.MReqLine Htp.Model.MReqUri Htp.Model.MTxReq Htp.Model.MReq.
Require Import Htp.Proof.PReq.
Require Import Htp.Proof.PTermReq.
Require Import Lia.
Local Open Scope Z_scope.

(* ---- part 1: which code paths produce the inner code HTP_DATA_OTHER ---- *)
Definition ndo (r : st * connp) : Prop := fst r <> ST_DATA_OTHER.

Lemma hookrc_ndo rc : rq_hookrc rc -> rc <> ST_DATA_OTHER.
Proof. intros [H|[H|H]]; rewrite H; discriminate. Qed.

Section NoOther.
Variable cb : cb_oracle.
Variable g : cfg.

Lemma with_tx_ndo (f : nat -> connp -> st * connp) c : (forall i, ndo (f i c)) -> ndo (rq_with_tx f c).
Proof. intros H. unfold rq_with_tx. destruct (c_in_tx c) as [i|]; [apply H|unfold ndo; cbn [fst]; discriminate]. Qed.

Lemma request_complete_ndo c : ndo (rq_request_complete cb g c).
Proof.
  unfold rq_request_complete. apply with_tx_ndo. intros i. unfold ndo. apply hookrc_ndo.
  pose proof (tx_state_request_complete_spec cb g i c) as S. cbv zeta in S. exact (proj1 (proj2 S)).
Qed.
Lemma request_line_ndo c : ndo (rq_with_tx (tx_state_request_line cb g) c).
Proof.
  apply with_tx_ndo. intros i. unfold ndo. apply hookrc_ndo.
  pose proof (tx_state_request_line_spec cb g i c) as S. cbv zeta in S. exact (proj1 (proj2 S)).
Qed.
Lemma request_headers_ndo c : ndo (rq_with_tx (tx_state_request_headers cb) c).
Proof.
  apply with_tx_ndo. intros i. unfold ndo. apply hookrc_ndo.
  pose proof (tx_state_request_headers_spec cb i c) as S. cbv zeta in S. exact (proj1 (proj2 S)).
Qed.
Lemma body_data_ndo d n c : ndo (rq_with_tx (fun i => tx_req_process_body_data_ex cb i d n) c).
Proof. apply with_tx_ndo. intros i. unfold ndo. apply hookrc_ndo. apply tx_req_process_body_data_ex_rc. Qed.

Lemma handle_state_change_ndo c : ndo (req_handle_state_change cb c).
Proof. unfold ndo. apply hookrc_ndo. exact (proj2 (req_handle_state_change_moved cb c)). Qed.

Ltac ndo_triv := unfold ndo; cbn [fst]; discriminate.

Lemma IDLE_ndo c : ndo (REQ_IDLE_fn cb g c).
Proof.
  unfold REQ_IDLE_fn. destruct (rq_at_end c); [ndo_triv|].
  destruct (connp_tx_create g c) as [[i|] c1]; [|ndo_triv].
  unfold ndo. apply hookrc_ndo. pose proof (tx_state_request_start_spec cb i c1) as S. cbv zeta in S. exact (proj1 (proj2 S)).
Qed.

Lemma LINE_complete_ndo c : ndo (REQ_LINE_complete cb g c).
Proof.
  unfold REQ_LINE_complete. destruct (req_consolidate_data g c) as [[rc1 c1] data].
  destruct rc1; try ndo_triv. destruct data as [|x data]; [ndo_triv|].
  destruct (htp_is_line_ignorable (g_personality g) (x :: data)); [ndo_triv|].
  match goal with |- context [rq_with_tx ?f ?a] => destruct (rq_with_tx f a) as [rc3 c3] end.
  destruct rc3; ndo_triv.
Qed.

Lemma LINE_loop_ndo n : forall c, ndo (REQ_LINE_loop cb g n c).
Proof.
  induction n as [|n IH]; intros c; cbn [REQ_LINE_loop].
  all: destruct ((c_in_status (rq_peek_next c) =? c_HTP_STREAM_CLOSED) &&
                 match k_next_byte (c_in (rq_peek_next c)) with None => true | Some _ => false end); [apply LINE_complete_ndo|].
  all: destruct (rq_copy_byte (rq_peek_next c)) as [c2|]; [|ndo_triv].
  all: destruct (rq_next_is c2 LF); [apply LINE_complete_ndo|].
  - ndo_triv.
  - apply IH.
Qed.

Lemma PROTOCOL_ndo c : ndo (REQ_PROTOCOL_fn c).
Proof.
  unfold REQ_PROTOCOL_fn. destruct (negb _); [ndo_triv|]. destruct (_ <? _)%nat; [ndo_triv|].
  match goal with |- context [rq_slice ?a ?b ?d] => destruct (rq_slice a b d) as [c1 rest] end.
  destruct (forallb htp_is_space rest); ndo_triv.
Qed.

Lemma header_line_ndo c r c2 : rq_header_line cb g c = (Some r, c2) -> ndo r.
Proof.
  unfold rq_header_line. destruct (req_consolidate_data g c) as [[rc1 c1] data].
  destruct rc1; try (intros H; injection H as <- _; ndo_triv).
  destruct (htp_is_line_terminator (g_personality g) data false); [|discriminate].
  intros H. injection H as <- _. apply request_headers_ndo.
Qed.

Lemma HEADERS_loop_ndo n : forall c, ndo (REQ_HEADERS_loop cb g n c).
Proof.
  induction n as [|n IH]; intros c; cbn [REQ_HEADERS_loop].
  all: destruct (c_in_status c =? c_HTP_STREAM_CLOSED); [apply request_headers_ndo|].
  all: destruct (rq_copy_byte c) as [c1|]; [|ndo_triv].
  all: destruct (if rq_next_is c1 LF then rq_header_line cb g c1 else (None, c1)) as [ret c2] eqn:E2.
  all: assert (S2 : match ret with Some r => ndo r | None => True end)
         by (destruct ret as [r|]; [|exact I]; destruct (rq_next_is c1 LF); [exact (header_line_ndo _ _ _ E2)|discriminate]).
  all: destruct ret as [r|]; [exact S2|].
  - ndo_triv.
  - apply IH.
Qed.

Lemma PROBE_ndo c : ndo (REQ_CONNECT_PROBE_DATA_fn cb g c).
Proof.
  unfold REQ_CONNECT_PROBE_DATA_fn.
  match goal with |- context [rq_peek_copy_until ?s ?n ?a] => destruct (rq_peek_copy_until s n a) as [b c1] end.
  destruct b; [|ndo_triv].
  destruct (req_consolidate_data g c1) as [[rc2 c2] data]. destruct rc2; try ndo_triv.
  destruct (rq_probe_method data) as [mstart pos]. destruct (negb _); [apply request_complete_ndo|ndo_triv].
Qed.

Lemma BODY_DETERMINE_ndo c : ndo (REQ_BODY_DETERMINE_fn c).
Proof.
  unfold REQ_BODY_DETERMINE_fn. destruct (_ =? c_HTP_CODING_CHUNKED); [ndo_triv|].
  destruct (_ =? c_HTP_CODING_IDENTITY); [destruct (negb _); ndo_triv|].
  destruct (_ =? c_HTP_CODING_NO_BODY); ndo_triv.
Qed.

Lemma consume_body_ndo n c : ndo (rq_consume_body cb n c).
Proof.
  unfold rq_consume_body.
  match goal with |- context [match k_data (c_in c) with Some _ => ?a | None => ?b end] =>
    destruct (match k_data (c_in c) with Some _ => a | None => b end) as [c1 data] end.
  pose proof (body_data_ndo data n c1) as H.
  destruct (rq_with_tx (fun i => tx_req_process_body_data_ex cb i data n) c1) as [rc2 c2].
  destruct rc2; first [ndo_triv | exact H].
Qed.

Lemma BODY_IDENTITY_ndo c : ndo (REQ_BODY_IDENTITY_fn cb c).
Proof.
  unfold REQ_BODY_IDENTITY_fn. destruct (_ =? 0)%nat; [ndo_triv|].
  match goal with |- context [rq_consume_body cb ?n ?a] => pose proof (consume_body_ndo n a) as H; destruct (rq_consume_body cb n a) as [rc1 c1] end.
  destruct rc1; try exact H. destruct (_ =? 0); ndo_triv.
Qed.

Lemma BODY_CHUNKED_DATA_ndo c : ndo (REQ_BODY_CHUNKED_DATA_fn cb c).
Proof.
  unfold REQ_BODY_CHUNKED_DATA_fn. destruct (_ =? 0)%nat; [ndo_triv|].
  match goal with |- context [rq_consume_body cb ?n ?a] => pose proof (consume_body_ndo n a) as H; destruct (rq_consume_body cb n a) as [rc1 c1] end.
  destruct rc1; try exact H. destruct (_ =? 0); ndo_triv.
Qed.

Lemma CHUNKED_DATA_END_loop_ndo n : forall c, ndo (REQ_BODY_CHUNKED_DATA_END_loop n c).
Proof.
  induction n as [|n IH]; intros c; cbn [REQ_BODY_CHUNKED_DATA_END_loop].
  all: destruct (rq_next_byte c) as [c1|]; [|ndo_triv].
  all: match goal with |- context [rq_next_is ?a LF] => destruct (rq_next_is a LF) end; [ndo_triv|].
  - ndo_triv.
  - apply IH.
Qed.

Lemma CHUNKED_LENGTH_loop_ndo n : forall c, ndo (REQ_BODY_CHUNKED_LENGTH_loop g n c).
Proof.
  induction n as [|n IH]; intros c; cbn [REQ_BODY_CHUNKED_LENGTH_loop].
  all: destruct (rq_copy_byte c) as [c1|]; [|ndo_triv].
  all: destruct (rq_next_is c1 LF).
  1,3: destruct (req_consolidate_data g c1) as [[rc2 c2] data]; destruct rc2; try ndo_triv;
       destruct (parse_chunked_length (htp_chomp data)) as [v w]; destruct (0 <? v); [ndo_triv|]; destruct (v =? 0); ndo_triv.
  - ndo_triv.
  - apply IH.
Qed.

Lemma FINALIZE_ndo c : ndo (REQ_FINALIZE_fn cb g c).
Proof.
  unfold REQ_FINALIZE_fn. destruct (rq_finalize_scan c) as [c1|c1|c1]; [apply request_complete_ndo|ndo_triv|].
  destruct (req_consolidate_data g c1) as [[rc2 c2] data]. destruct rc2; try ndo_triv.
  destruct data as [|x data]; [apply request_complete_ndo|].
  destruct (rq_probe_method (x :: data)) as [mstart pos].
  match goal with |- context [if ?b then rq_request_complete cb g ?a else _] => destruct b end; [apply request_complete_ndo|].
  match goal with |- ndo (match ?al with Some _ => _ | None => _ end) => destruct al as [[c5 d5]|] end; [|ndo_triv].
  pose proof (body_data_ndo (Some d5) 0%nat c5) as H.
  destruct (rq_with_tx (fun i => tx_req_process_body_data_ex cb i (Some d5) 0) c5) as [rc6 c6]. exact H.
Qed.

Lemma IGNORE_ndo c : ndo (REQ_IGNORE_DATA_AFTER_HTTP_0_9_fn c).
Proof. unfold REQ_IGNORE_DATA_AFTER_HTTP_0_9_fn. ndo_triv. Qed.

(* the state functions that do answer HTP_DATA_OTHER *)
Lemma CONNECT_CHECK_other c c' : REQ_CONNECT_CHECK_fn c = (ST_DATA_OTHER, c') ->
  c_in_state c' = REQ_CONNECT_WAIT_RESPONSE /\ c_in c' = c_in c.
Proof. unfold REQ_CONNECT_CHECK_fn. destruct (_ =? _); [|discriminate]. intros H. injection H as <-. split; reflexivity. Qed.
Lemma CONNECT_WAIT_other c c' : REQ_CONNECT_WAIT_RESPONSE_fn c = (ST_DATA_OTHER, c') ->
  c' = c /\ t_response_progress (rq_tx c) <= c_HTP_RESPONSE_LINE.
Proof.
  unfold REQ_CONNECT_WAIT_RESPONSE_fn. destruct (_ <=? _) eqn:E; [|destruct (_ && _); discriminate].
  intros H. injection H as <-. split; [reflexivity|apply Z.leb_le; exact E].
Qed.

(* the start-of-pass states from which the inner code can be HTP_DATA_OTHER *)
Definition ho_waiting (c : connp) : Prop :=
  c_in_state c = REQ_CONNECT_CHECK \/
  (c_in_state c = REQ_CONNECT_WAIT_RESPONSE /\ t_response_progress (rq_tx c) <= c_HTP_RESPONSE_LINE).

Lemma state_fn_other c c' : rq_state_fn cb g (c_in_state c) c = (ST_DATA_OTHER, c') ->
  c_in_state c' = REQ_CONNECT_WAIT_RESPONSE /\ c_in c' = c_in c /\ ho_waiting c.
Proof.
  unfold ho_waiting. destruct (c_in_state c) eqn:Es; cbn [rq_state_fn]; intros H.
  5: { destruct (CONNECT_CHECK_other _ _ H) as [A B]. split; [exact A|split; [exact B|left; reflexivity]]. }
  5: { destruct (CONNECT_WAIT_other _ _ H) as [A B]. subst c'. split; [exact Es|split; [reflexivity|right; split; [reflexivity|exact B]]]. }
  all: exfalso.
  all: match type of H with ?t = _ => assert (N : ndo t) end;
       [first [ apply IDLE_ndo | apply LINE_loop_ndo | apply PROTOCOL_ndo | apply HEADERS_loop_ndo | apply PROBE_ndo
              | apply BODY_DETERMINE_ndo | apply BODY_IDENTITY_ndo | apply CHUNKED_LENGTH_loop_ndo | apply BODY_CHUNKED_DATA_ndo
              | apply CHUNKED_DATA_END_loop_ndo | apply FINALIZE_ndo | apply IGNORE_ndo ]
       | rewrite H in N; apply N; reflexivity].
Qed.

(* the exit mapping *)
Lemma exit_other rc c c' : rq_exit cb g rc c = (c', c_HTP_STREAM_DATA_OTHER) ->
  rc = ST_DATA_OTHER /\ c_in_state c' = c_in_state c /\ c_in_status c' = c_HTP_STREAM_DATA_OTHER /\ c_in c' = c_in c.
Proof.
  unfold rq_exit. intros H. destruct rc.
  all: try (injection H as _ H; vm_compute in H; discriminate).
  - destruct (req_receiver_send_data cb false c) as [r1 c1]. injection H as _ H; vm_compute in H; discriminate.
  - destruct (rq_at_end c); [injection H as _ H; vm_compute in H; discriminate|].
    assert (E : c' = c <| c_in_status := c_HTP_STREAM_DATA_OTHER |>) by congruence. subst c'. repeat split.
  - destruct (req_receiver_send_data cb false c) as [r1 c1]. destruct (req_buffer g c1) as [brc c2].
    destruct brc; injection H as _ H; vm_compute in H; discriminate.
Qed.

(* one pass *)
Lemma inl_inj {A B : Type} (x y : A) : @inl A B x = inl y -> x = y.
Proof. congruence. Qed.
Lemma iter_other gap c c' : rq_iter cb g gap c = inl (c', c_HTP_STREAM_DATA_OTHER) ->
  c_in_state c' = REQ_CONNECT_WAIT_RESPONSE /\ c_in_status c' = c_HTP_STREAM_DATA_OTHER /\ c_in c' = c_in c /\ ho_waiting c.
Proof.
  unfold rq_iter. set (dispatch := if gap then _ else _).
  assert (D : match dispatch with
              | Some (rc, c1) => rc = ST_DATA_OTHER -> c_in_state c1 = REQ_CONNECT_WAIT_RESPONSE /\ c_in c1 = c_in c /\ ho_waiting c
              | None => True end).
  { subst dispatch. destruct gap.
    - destruct (_ || _).
      + destruct (rq_state_fn cb g (c_in_state c) c) as [rc c1] eqn:E1. intros ->. exact (state_fn_other _ _ E1).
      + destruct (req_state_eqb (c_in_state c) REQ_FINALIZE); [|exact I].
        pose proof (request_complete_ndo c) as N. destruct (rq_request_complete cb g c) as [rc c1]. intros ->. exfalso. apply N. reflexivity.
    - destruct (rq_state_fn cb g (c_in_state c) c) as [rc c1] eqn:E1. intros ->. exact (state_fn_other _ _ E1). }
  destruct dispatch as [[rc c1]|]; [|intros H; injection H as _ H; vm_compute in H; discriminate].
  assert (X : (inl (rq_exit cb g rc c1) : (connp * Z) + connp) = inl (c', c_HTP_STREAM_DATA_OTHER) ->
              c_in_state c' = REQ_CONNECT_WAIT_RESPONSE /\ c_in_status c' = c_HTP_STREAM_DATA_OTHER /\ c_in c' = c_in c /\ ho_waiting c).
  { intros H. apply inl_inj in H. destruct (exit_other _ _ _ H) as (-> & X2 & X3 & X4). destruct (D eq_refl) as (D1 & D2 & D3).
    repeat split; try congruence; exact D3. }
  destruct rc; try exact X.
  destruct (c_in_status c1 =? c_HTP_STREAM_TUNNEL); [intros H; injection H as _ H; vm_compute in H; discriminate|].
  pose proof (handle_state_change_ndo c1) as N. destruct (req_handle_state_change cb c1) as [rc2 c2].
  destruct rc2; try discriminate.
  all: intros H; apply inl_inj in H; destruct (exit_other _ _ _ H) as (X1 & _); try discriminate X1.
  exfalso. apply N. reflexivity.
Qed.

Lemma loop_other fuel gap : forall c c', rq_loop cb g fuel gap c = (c', c_HTP_STREAM_DATA_OTHER) ->
  c_in_state c' = REQ_CONNECT_WAIT_RESPONSE /\ c_in_status c' = c_HTP_STREAM_DATA_OTHER.
Proof.
  induction fuel as [|f IH]; intros c c' H; cbn [rq_loop] in H.
  - injection H as _ H. vm_compute in H. discriminate.
  - destruct (rq_iter cb g gap c) as [[c1 code1]|c1] eqn:E.
    + injection H as -> ->. destruct (iter_other _ _ _ E) as (A & B & _). split; assumption.
    + exact (IH _ _ H).
Qed.

End NoOther.

Theorem req_data_other_state cb g data len c c' :
  connp_req_data cb g data len c = (c', c_HTP_STREAM_DATA_OTHER) ->
  c_in_state c' = REQ_CONNECT_WAIT_RESPONSE /\ c_in_status c' = c_HTP_STREAM_DATA_OTHER.
Proof.
  unfold connp_req_data. intros H.
  destruct (c_in_status c =? c_HTP_STREAM_STOP); [injection H as _ H; vm_compute in H; discriminate|].
  destruct (c_in_status c =? c_HTP_STREAM_ERROR); [injection H as _ H; vm_compute in H; discriminate|].
  destruct (match c_in_tx c with None => negb (req_state_eqb (c_in_state c) REQ_IDLE) && negb (c_in_status c =? c_HTP_STREAM_TUNNEL) | Some _ => false end);
    [injection H as _ H; vm_compute in H; discriminate|].
  destruct ((len =? 0)%nat && negb (c_in_status c =? c_HTP_STREAM_CLOSED)); [injection H as _ H; vm_compute in H; discriminate|].
  cbv zeta in H.
  match type of H with (if ?b then _ else _) = _ => destruct b end; [injection H as _ H; vm_compute in H; discriminate|].
  exact (loop_other cb g _ _ _ _ H).
Qed.

(* ---- part 2: a DATA_OTHER answer that consumed nothing started in one of the two waiting states ---- *)
Section Zero.
Variable cb : cb_oracle.
Variable g : cfg.

Lemma iter_false c : rq_iter cb g false c =
  match rq_state_fn cb g (c_in_state c) c with
  | (ST_OK, c1) =>
    if c_in_status c1 =? c_HTP_STREAM_TUNNEL then inl (c1, c_HTP_STREAM_TUNNEL)
    else match req_handle_state_change cb c1 with
         | (ST_OK, c2) => inr c2
         | (rc, c2) => inl (rq_exit cb g rc c2)
         end
  | (rc, c1) => inl (rq_exit cb g rc c1)
  end.
Proof. unfold rq_iter. destruct (rq_state_fn cb g (c_in_state c) c) as [rc c1]. destruct rc; reflexivity. Qed.

(* a pass that goes round again: the state function answered OK; status, length kept; the read offset never goes
   back, and if it stayed the parser moved down the ladder rq_rank *)
Lemma pass_inr c c1 :
  rq_loop_inv false c -> rq_closed_empty c -> rq_iter cb g false c = inr c1 ->
  exists c0, rq_state_fn cb g (c_in_state c) c = (ST_OK, c0) /\
    c_in_state c1 = c_in_state c0 /\ rq_rd c1 = rq_rd c0 /\
    c_in_status c1 = c_in_status c /\ (rq_rd c <= rq_rd c1)%nat /\
    rq_loop_inv false c1 /\ (rq_rd c1 = rq_rd c -> (rq_rank c1 < rq_rank c)%nat).
Proof.
  intros Hinv Hce H.
  pose proof (rq_iter_spec cb g false c Hinv) as S. rewrite H in S. destruct S as [Hinv1 Hl].
  destruct (rt_pass_decreases cb g false c c1 Hinv Hce H) as [Hphi _].
  rewrite iter_false in H. destruct Hinv as [Hp Hr].
  destruct (rq_state_fn cb g (c_in_state c) c) as [rc c0] eqn:E1. destruct rc; try discriminate.
  assert (Hl' : c_in_state c = REQ_LINE -> rq_readable c) by (intros _; apply Hr; reflexivity).
  pose proof (rt_state_fn cb g _ _ Hp Hl' Hce E1) as D.
  destruct (rq_state_fn_step cb g _ _ _ Hp Hl' E1) as (_ & _ & S3 & _).
  destruct (c_in_status c0 =? c_HTP_STREAM_TUNNEL) eqn:Et; [discriminate|]. apply Z.eqb_neq in Et.
  destruct D as [D|[D1 D2]]; [contradiction|].
  pose proof (rt_handle_state_change cb c0) as [K _]. destruct (req_handle_state_change cb c0) as [rc2 c2]. cbn [snd] in K.
  destruct rc2; try discriminate. injection H as <-.
  apply rq_core_of_st in K. destruct K as [K Ks]. pose proof (rt_core_status _ _ K) as K1.
  apply rt_core_rd in K. destruct K as (K2 & K3 & _).
  exists c0. split; [reflexivity|]. split; [exact Ks|]. split; [exact K2|]. split; [congruence|]. split; [lia|].
  split; [exact Hinv1|]. intros Heq. unfold rq_phi in Hphi. lia.
Qed.

Lemma PROTOCOL_ok_state c c' : REQ_PROTOCOL_fn c = (ST_OK, c') -> c_in_state c' = REQ_HEADERS \/ c_in_state c' = REQ_FINALIZE.
Proof.
  assert (G : forall x, c_in_state (rq_to_headers x) = REQ_HEADERS).
  { intros x. unfold rq_to_headers.
    match goal with |- context [rq_tx_upd ?f ?a] => destruct (rt_fr_tx_upd f a) as (A & _) end. rewrite A. reflexivity. }
  unfold REQ_PROTOCOL_fn. destruct (negb _); [intros H; injection H as <-; left; apply G|].
  destruct (_ <? _)%nat; [intros H; injection H as <-; left; apply G|].
  match goal with |- context [rq_slice ?a ?b ?d] => destruct (rq_slice a b d) as [c1 rest] end.
  destruct (forallb htp_is_space rest); intros H; injection H as <-; [right; reflexivity|left; apply G].
Qed.

(* REQ_HEADERS on a stream that is not closed answers OK only after reading a byte *)
Lemma HEADERS_open_adv n c c' :
  rq_pre c -> c_in_status c <> c_HTP_STREAM_CLOSED -> (rq_len c - rq_rd c <= n)%nat ->
  REQ_HEADERS_loop cb g n c = (ST_OK, c') -> (rq_rd c < rq_rd c')%nat.
Proof.
  intros Hp Hncl Hn H. destruct n as [|n]; cbn [REQ_HEADERS_loop] in H.
  all: destruct (c_in_status c =? c_HTP_STREAM_CLOSED) eqn:Ecl; [apply Z.eqb_eq in Ecl; contradiction|].
  all: destruct (rq_copy_byte c) as [c1|] eqn:E1; [|discriminate].
  all: destruct (rq_pre_copy _ _ Hp E1) as [Hp1 _];
       pose proof (rq_copy_byte_some _ _ E1) as (C1 & C2 & C3 & C4 & C5 & C6 & C7 & C8).
  all: destruct (if rq_next_is c1 LF then rq_header_line cb g c1 else (None, c1)) as [ret c2] eqn:E2.
  all: assert (S2 : match ret with Some (rc0, c0) => rq_step_ok c1 c0 rc0 | None => rq_moved c1 c2 end)
         by (destruct (rq_next_is c1 LF); [exact (rq_header_line_step cb g _ _ _ Hp1 E2)|injection E2 as <- <-; apply rq_moved_refl]).
  all: destruct ret as [[rc0 c0]|]; [injection H as -> ->; destruct S2 as (_ & _ & S3 & _); lia|].
  - discriminate.
  - pose proof (rq_moved_facts _ _ S2 Hp1) as (F1 & F2 & _).
    destruct (REQ_HEADERS_loop_step cb g n c2 ST_OK c' (rq_pre_moved _ _ S2 Hp1) ltac:(lia) H) as (_ & _ & S3 & _). lia.
Qed.

Lemma loop_zero fuel : forall c c',
  rq_loop_inv false c -> c_in_status c <> c_HTP_STREAM_CLOSED ->
  rq_loop cb g fuel false c = (c', c_HTP_STREAM_DATA_OTHER) -> rq_rd c' = 0%nat ->
  rq_rd c = 0%nat /\ ho_waiting c.
Proof.
  induction fuel as [|f IH]; intros c c' Hinv Hncl H Hz; cbn [rq_loop] in H.
  - injection H as _ H. vm_compute in H. discriminate.
  - destruct (rq_iter cb g false c) as [[c1 code1]|c1] eqn:E.
    + injection H as -> ->. destruct (iter_other cb g _ _ _ E) as (_ & _ & B & W). split; [|exact W].
      unfold rq_rd in *. rewrite B in Hz. exact Hz.
    + assert (Hce : rq_closed_empty c) by (intros Hx; contradiction).
      destruct (pass_inr _ _ Hinv Hce E) as (c0 & E0 & P1 & P2 & P3 & P4 & P6 & P8).
      assert (Hncl1 : c_in_status c1 <> c_HTP_STREAM_CLOSED) by congruence.
      destruct (IH c1 c' P6 Hncl1 H Hz) as [Z1 W1].
      assert (Z0 : rq_rd c = 0%nat) by lia. split; [exact Z0|].
      assert (R10 : (10 <= rq_rank c1)%nat)
        by (unfold ho_waiting in W1; unfold rq_rank; destruct W1 as [W1|[W1 _]]; rewrite W1; lia).
      assert (P9 : (rq_rank c1 < rq_rank c)%nat) by (apply P8; lia). clear P8.
      assert (Hcl : (c_in_status c =? c_HTP_STREAM_CLOSED) = false) by (apply Z.eqb_neq; exact Hncl).
      remember (rq_rank c1) as r1 eqn:Er1. clear Er1.
      unfold rq_rank in P9. cbv zeta in P9. rewrite Hcl in P9.
      destruct Hinv as [Hp _].
      unfold ho_waiting. revert P9 E0. destruct (c_in_state c) eqn:Es; cbv beta iota; cbn [rq_state_fn]; intros P9 E0.
      all: try (exfalso; repeat match type of P9 with context [match ?x with _ => _ end] => destruct x end; lia).
      * (* REQ_PROTOCOL *)
        exfalso. unfold ho_waiting in W1. destruct (PROTOCOL_ok_state _ _ E0) as [Q|Q]; destruct W1 as [W1|[W1 _]]; congruence.
      * (* REQ_HEADERS *)
        exfalso. unfold REQ_HEADERS_fn in E0. pose proof (HEADERS_open_adv _ _ _ Hp Hncl (Nat.le_refl _) E0) as A. lia.
      * (* REQ_CONNECT_CHECK *)
        left. reflexivity.
Qed.

End Zero.

Theorem req_data_other_zero cb g d c c' :
  rq_inv c -> d <> [] -> c_in_status c <> c_HTP_STREAM_CLOSED ->
  connp_req_data cb g (Some d) (length d) c = (c', c_HTP_STREAM_DATA_OTHER) -> k_read (c_in c') = 0%nat ->
  c_in_state c = REQ_CONNECT_CHECK \/
  (c_in_state c = REQ_CONNECT_WAIT_RESPONSE /\ t_response_progress (rq_tx c) <= c_HTP_RESPONSE_LINE).
Proof.
  intros Hi Hd Hncl H Hz. unfold connp_req_data in H.
  destruct (c_in_status c =? c_HTP_STREAM_STOP); [injection H as _ H; vm_compute in H; discriminate|].
  destruct (c_in_status c =? c_HTP_STREAM_ERROR); [injection H as _ H; vm_compute in H; discriminate|].
  destruct (match c_in_tx c with None => negb (req_state_eqb (c_in_state c) REQ_IDLE) && negb (c_in_status c =? c_HTP_STREAM_TUNNEL) | Some _ => false end);
    [injection H as _ H; vm_compute in H; discriminate|].
  destruct ((length d =? 0)%nat && negb (c_in_status c =? c_HTP_STREAM_CLOSED)); [injection H as _ H; vm_compute in H; discriminate|].
  set (c1 := (rq_set_in _ c) <| c_in_chunk_count ::= S |> <| c_in_data_counter ::= Z.add (Z.of_nat (length d)) |>) in H.
  destruct (c_in_status c1 =? c_HTP_STREAM_TUNNEL); [injection H as _ H; vm_compute in H; discriminate|].
  set (c2 := if c_out_status c1 =? c_HTP_STREAM_DATA_OTHER then _ else c1) in H.
  assert (E2 : c_in c2 = c_in c1 /\ c_in_state c2 = c_in_state c /\ c_in_body_data_left c2 = c_in_body_data_left c /\
               c_in_chunked_length c2 = c_in_chunked_length c /\ c_in_status c2 = c_in_status c /\ rq_tx c2 = rq_tx c).
  { subst c2. destruct (c_out_status c1 =? c_HTP_STREAM_DATA_OTHER); repeat split; reflexivity. }
  destruct E2 as (E2 & E3 & E4 & E5 & E6 & E7).
  assert (L : k_len (c_in c2) = length d /\ k_read (c_in c2) = 0%nat /\ k_consume (c_in c2) = 0%nat /\ k_data (c_in c2) = Some d)
    by (rewrite E2; repeat split; reflexivity).
  destruct L as (L1 & L2 & L3 & L4).
  assert (Hinv : rq_loop_inv false c2).
  { unfold rq_loop_inv, rq_pre, rq_wf, rq_readable, rq_inv, rq_len, rq_rd, rq_cs. rewrite L1, L2, L3, L4, E3, E4, E5.
    repeat split; try lia; try exact Hi. intros _ Hn. discriminate Hn. }
  assert (Hncl2 : c_in_status c2 <> c_HTP_STREAM_CLOSED) by congruence.
  destruct (loop_zero cb g _ c2 c' Hinv Hncl2 H Hz) as [_ W].
  unfold ho_waiting in W. rewrite E3, E7 in W. exact W.
Qed.

(* ==== FINAL THEOREMS ==== *)
Print Assumptions req_data_other_state.
Print Assumptions req_data_other_zero.
