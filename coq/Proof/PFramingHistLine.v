(* C11 at history level: the request-line stage (htp_parse_request_line + the URI pipeline of htp_tx_state_request_line:
   htp_parse_uri / htp_parse_uri_hostport, htp_normalize_parsed_uri with its URL / path / UTF-8 decoders, the hostname check)
   raises NONE of the seven indicator bits of C11's decision tables (REQUEST_SMUGGLING, REQUEST_INVALID_T_E, REQUEST_INVALID_C_L,
   REQUEST_INVALID, HOST_MISSING, HOST_AMBIGUOUS, HOSTH_INVALID): it only ORs HTP_PATH_* bits and HTP_HOSTU_INVALID.
   Hence the transaction at the start of the header block is fr_clean, for EVERY request line of the wire grammar. *)
Require Import Htp.Model.Base Htp.Model.MBstr Htp.Model.MUri Htp.Model.MPath Htp.Model.MUrlenc Htp.Model.MConnTypes Htp.Model.MTxCommon Htp.Model.MReqLine Htp.Model.MReqUri Htp.Model.MTxReq.
Require Import Htp.Spec.SPath Htp.Spec.SWire Htp.Spec.SFraming Htp.Proof.PPathFlags Htp.Proof.PWire Htp.Proof.PSegLine Htp.Proof.PSegGen Htp.Proof.PFraming.

Definition fh_M : N :=
  N.lor c_HTP_REQUEST_SMUGGLING (N.lor c_HTP_REQUEST_INVALID_T_E (N.lor c_HTP_REQUEST_INVALID_C_L (N.lor c_HTP_REQUEST_INVALID
    (N.lor c_HTP_HOST_MISSING (N.lor c_HTP_HOST_AMBIGUOUS c_HTP_HOSTH_INVALID))))).
Definition fh_cl (f : N) : Prop := N.land f fh_M = 0%N.
Lemma fh_cl_lor f b : fh_cl f -> N.land b fh_M = 0%N -> fh_cl (N.lor f b).
Proof. unfold fh_cl. intros H1 H2. rewrite N.land_lor_distr_l, H1, H2. reflexivity. Qed.
Lemma fh_cl_bit f bit : fh_cl f -> N.land fh_M bit = bit -> fr_has f bit = false.
Proof. unfold fh_cl, fr_has. intros H Hb. rewrite <- Hb, N.land_assoc, H. reflexivity. Qed.
Lemma fh_cl_clean f : fh_cl f -> fr_clean f.
Proof. intros H. unfold fr_clean. repeat split; apply (fh_cl_bit f _ H); reflexivity. Qed.
Lemma fh_cl_set t bit : fh_cl (t_flags t) -> N.land bit fh_M = 0%N -> fh_cl (t_flags (t <| t_flags ::= (fun f => flag_set f bit) |>)).
Proof. intros H Hb. cbn [t_flags set]. cbn. unfold flag_set. apply fh_cl_lor; assumption. Qed.

(* ---- the path decoder ---- *)
Lemma fh_tok_flags c t : N.land (pth_tok_flags c t) fh_M = 0%N.
Proof.
  destruct t; cbn [pth_tok_flags]; unfold pth_u_flags, pth_fl;
    repeat match goal with |- context [if ?b then _ else _] => destruct b end; reflexivity.
Qed.
Lemma fh_lor_all l : (forall x, In x l -> N.land x fh_M = 0%N) -> N.land (pth_lor_all l) fh_M = 0%N.
Proof.
  induction l as [|a l IH]; intros H; [reflexivity|]. cbn [pth_lor_all fold_right]. rewrite N.land_lor_distr_l, (H a (or_introl eq_refl)).
  change (fold_right N.lor 0%N l) with (pth_lor_all l). rewrite IH; [reflexivity|]. intros x Hx. apply H. right. exact Hx.
Qed.
Lemma fh_decode_path c s st : fh_cl (fst st) -> fh_cl (fst (snd (pth_decode_path_st c s st))).
Proof.
  intros H. unfold pth_decode_path_st. destruct (pth_loop_lex c s 0%nat false st) as [_ E]. rewrite E. apply fh_cl_lor; [exact H|].
  apply fh_lor_all. intros x Hx. apply in_map_iff in Hx. destruct Hx as (t & <- & _). apply fh_tok_flags.
Qed.

(* ---- the UTF-8 stage ---- *)
Lemma fh_pth_flag f st : fh_cl (fst st) -> N.land f fh_M = 0%N -> fh_cl (fst (pth_flag f st)).
Proof. intros H Hf. unfold pth_flag. cbn [fst]. apply fh_cl_lor; assumption. Qed.
Lemma fh_pth_unwanted u st : fh_cl (fst st) -> fh_cl (fst (pth_unwanted u st)).
Proof. intros H. unfold pth_unwanted. destruct (Z.eqb _ _); exact H. Qed.
Lemma fh_utf8_finish v : fh_cl (fst (u_st v)) -> fh_cl (fst (utf8_finish v)).
Proof. intros H. unfold utf8_finish. destruct (u_seen v && _); [apply fh_pth_flag; [exact H|reflexivity]|exact H]. Qed.
Lemma fh_val_iter x v : fh_cl (fst (u_st v)) -> fh_cl (fst (u_st (utf8_val_iter x v))).
Proof.
  intros H. unfold utf8_val_iter. destruct (utf8_step (u_state v) (u_cp v) x) as [state cp].
  destruct (state =? utf8_ACCEPT)%N.
  - cbn [u_st]. destruct ((65279 <? cp) && (cp <? 65536))%N; [apply fh_pth_flag; [|reflexivity]|];
      (destruct (Nat.ltb 1 (S (u_counter v)) && utf8_overlong (S (u_counter v)) cp); [apply fh_pth_flag; [exact H|reflexivity]|exact H]).
  - destruct (state =? utf8_REJECT)%N; cbn [u_st]; [apply fh_pth_flag; [exact H|reflexivity]|exact H].
Qed.
Lemma fh_validate s st : fh_cl (fst st) -> fh_cl (fst (utf8_validate_path s st)).
Proof.
  intros H. unfold utf8_validate_path. apply fh_utf8_finish.
  assert (G : forall s v, fh_cl (fst (u_st v)) -> fh_cl (fst (u_st (fold_left (fun v x => utf8_val_iter x v) s v)))).
  { induction s0 as [|x s0 IH]; intros v Hv; [exact Hv|]. cbn [fold_left]. apply IH. apply fh_val_iter. exact Hv. }
  apply G. exact H.
Qed.
Lemma fh_dec_iter c x v : fh_cl (fst (u_st v)) -> fh_cl (fst (u_st (snd (utf8_dec_iter c x v)))).
Proof.
  intros H. unfold utf8_dec_iter. destruct (utf8_step (u_state v) (u_cp v) x) as [state cp].
  destruct (state =? utf8_ACCEPT)%N.
  - destruct (Nat.eqb (S (u_counter v)) 1); cbn [snd u_st]; [exact H|].
    destruct ((65280 <=? cp) && (cp <=? 65519))%N; [apply fh_pth_flag; [|reflexivity]|];
      (destruct (utf8_overlong (S (u_counter v)) cp); [apply fh_pth_flag; [exact H|reflexivity]|exact H]).
  - destruct (state =? utf8_REJECT)%N; cbn [snd u_st]; [|exact H]. apply fh_pth_unwanted. apply fh_pth_flag; [exact H|reflexivity].
Qed.
Lemma fh_dec_loop c : forall s v, fh_cl (fst (u_st v)) -> fh_cl (fst (u_st (snd (utf8_dec_loop c s v)))).
Proof.
  induction s as [|x r IH]; intros v H; [exact H|]. cbn [utf8_dec_loop].
  pose proof (fh_dec_iter c x v H) as H1. destruct (utf8_dec_iter c x v) as [[o1 adv] v1]. cbn [snd] in H1. destruct adv.
  - pose proof (IH v1 H1) as H2. destruct (utf8_dec_loop c r v1) as [out vf]. exact H2.
  - pose proof (fh_dec_iter c x v1 H1) as H2. destruct (utf8_dec_iter c x v1) as [[o2 a2] v2]. cbn [snd] in H2.
    pose proof (IH v2 H2) as H3. destruct (utf8_dec_loop c r v2) as [out vf]. exact H3.
Qed.
Lemma fh_decode_utf8 c s st : fh_cl (fst st) -> fh_cl (fst (snd (utf8_decode_path c s st))).
Proof.
  intros H. unfold utf8_decode_path. pose proof (fh_dec_loop c s (utf8_vars0 st) H) as H1.
  destruct (utf8_dec_loop c s (utf8_vars0 st)) as [out v]. cbn [snd] in *. apply fh_utf8_finish. exact H1.
Qed.

(* ---- the URI pipeline ---- *)
Definition fh_kc (a b : tx) : Prop := fh_cl (t_flags b) -> fh_cl (t_flags a).
Lemma fh_kc_urldecode g s t : fh_kc (snd (rq_urldecode_uri g s t)) t.
Proof.
  unfold rq_urldecode_uri, fh_kc. destruct (ud_urldecode_from _ _ _ _) as [[o fl] st]. cbn [snd t_flags set]. cbn. intros H.
  unfold flag_set.
  destruct (flag_has fl c_HTP_URLEN_RAW_NUL); [apply fh_cl_lor; [|reflexivity]|];
    (destruct (flag_has fl c_HTP_URLEN_ENCODED_NUL); [apply fh_cl_lor; [|reflexivity]|];
      (destruct (flag_has fl c_HTP_URLEN_INVALID_ENCODING); [apply fh_cl_lor; [exact H|reflexivity]|exact H])).
Qed.
Lemma fh_kc_urldecode_opt g s t : fh_kc (snd (rq_urldecode_uri_opt g s t)) t.
Proof.
  unfold rq_urldecode_uri_opt. destruct s as [s|]; [|intro H; exact H].
  pose proof (fh_kc_urldecode g s t) as H. destruct (rq_urldecode_uri g s t) as [o t']. exact H.
Qed.
Lemma fh_kc_normalize_path g p t : fh_kc (snd (rq_normalize_path g p t)) t.
Proof.
  unfold rq_normalize_path, fh_kc. intros H.
  pose proof (fh_decode_path (g_dec_url_path g) p (t_flags t, t_response_status_expected_number t) H) as H1.
  destruct (pth_decode_path_st _ _ _) as [p1 st1]. cbn [snd] in H1.
  destruct (d_bestfit (g_dec_url_path g)).
  - pose proof (fh_decode_utf8 (g_dec_url_path g) p1 st1 H1) as H2. destruct (utf8_decode_path _ _ _) as [p2 st2]. exact H2.
  - exact (fh_validate p1 st1 H1).
Qed.
Lemma fh_kc_normalize_parsed_uri g raw t : fh_kc (snd (htp_normalize_parsed_uri g raw t)) t.
Proof.
  unfold htp_normalize_parsed_uri.
  pose proof (fh_kc_urldecode_opt g (u_user raw) t) as H1. destruct (rq_urldecode_uri_opt g (u_user raw) t) as [user t1]. cbn [snd] in H1.
  pose proof (fh_kc_urldecode_opt g (u_pass raw) t1) as H2. destruct (rq_urldecode_uri_opt g (u_pass raw) t1) as [pass t2]. cbn [snd] in H2.
  pose proof (fh_kc_urldecode_opt g (u_host raw) t2) as H3. destruct (rq_urldecode_uri_opt g (u_host raw) t2) as [host t3]. cbn [snd] in H3.
  destruct (uri_norm_port_opt (u_port raw)) as [pn inv].
  set (t4 := if inv then t3 <| t_flags ::= (fun f => flag_set f c_HTP_HOSTU_INVALID) |> else t3).
  assert (H4 : fh_kc t4 t3) by (unfold t4, fh_kc; destruct inv; [intro H; apply fh_cl_set; [exact H|reflexivity]|intro H; exact H]).
  assert (H5 : fh_kc (snd (match u_path raw with
                           | None => (None, t4)
                           | Some p => let '(o, t) := rq_normalize_path g p t4 in (Some o, t)
                           end)) t4).
  { destruct (u_path raw) as [p|]; [|intro H; exact H]. pose proof (fh_kc_normalize_path g p t4) as H. destruct (rq_normalize_path g p t4). exact H. }
  destruct (match u_path raw with None => (None, t4) | Some p => let '(o, t) := rq_normalize_path g p t4 in (Some o, t) end) as [path t5]. cbn [snd] in H5.
  pose proof (fh_kc_urldecode_opt g (u_frag raw) t5) as H6. destruct (rq_urldecode_uri_opt g (u_frag raw) t5) as [frag t6]. cbn [snd] in H6 |- *.
  unfold fh_kc in *. tauto.
Qed.
Lemma fh_kc_uri_pipeline g is_connect u t t' : rq_uri_pipeline_opt g is_connect u t = Some t' -> fh_kc t' t.
Proof.
  unfold rq_uri_pipeline_opt. intros E.
  assert (Hr : match (if is_connect then rq_parse_uri_hostport (t_parsed_uri_raw t) u t else Some (rq_parse_uri_into (t_parsed_uri_raw t) u, t)) with
               | Some (raw, t0) => fh_kc t0 t | None => True end).
  { destruct is_connect; [|intro H; exact H]. unfold rq_parse_uri_hostport. destruct u as [s|]; [|exact I].
    destruct (parse_hostport s) as [[[hn port] pn] invalid]. destruct (match hn with Some h => _ | None => _ end); intro H; [apply fh_cl_set; [exact H|reflexivity]|exact H]. }
  destruct (if is_connect then _ else _) as [[raw t0]|]; [|discriminate].
  set (t1 := t0 <| t_parsed_uri_raw := raw |>) in *.
  assert (Hn : fh_kc (snd (match t_parsed_uri t1 with Some nu => (nu, t1) | None => htp_normalize_parsed_uri g raw t1 end)) t0).
  { destruct (t_parsed_uri t1) as [nu|]; [intro H; exact H|]. exact (fh_kc_normalize_parsed_uri g raw t1). }
  destruct (match t_parsed_uri t1 with Some nu => (nu, t1) | None => htp_normalize_parsed_uri g raw t1 end) as [nu t2]. cbn [snd] in Hn.
  inversion E as [E']. unfold fh_kc in *. intros H. specialize (Hn (Hr H)).
  destruct (u_host nu) as [h|]; [destruct (htp_validate_hostname h)|]; try exact Hn.
  apply (fh_cl_set (t2 <| t_parsed_uri := Some nu |>)); [exact Hn|reflexivity].
Qed.

(* the transaction at the start of the header block carries none of the seven indicator bits *)
Theorem fh_th0_clean g k m u pr : g_allow_space_uri g = false -> wr_wf_request_line m u pr = true ->
  fr_clean (t_flags (sg_th0 g k m u pr)).
Proof.
  intros Hsp Wl. apply fh_cl_clean.
  destruct (sg_tx_line_facts g Hsp (sg_t1 k) m u pr Wl eq_refl) as (E3 & _). cbv zeta in E3.
  pose proof (fh_kc_uri_pipeline _ _ _ _ _ E3) as Kc.
  assert (E2 : fh_cl (t_flags (htp_parse_request_line g (sg_t1 k <| t_request_line := Some (wr_ser_request_line m u pr) |>)))).
  { rewrite (wr_reqline_tx g (sg_t1 k <| t_request_line := Some (wr_ser_request_line m u pr) |>) m u pr Hsp Wl); reflexivity. }
  specialize (Kc E2). clear E2 E3. unfold sg_th0. revert Kc. generalize (sg_tx_line g (sg_t1 k) (wr_ser_request_line m u pr)). intros X Kc. exact Kc.
Qed.
Print Assumptions fh_th0_clean.
