(* C07, faithfulness of one LZMA layer (Content-Encoding: lzma), relative to a contract for LzmaDec_DecodeToBuf of the same
   shape as the inflate contract of PDecomp.v. What is specific to this layer in htp_gzip_decompressor_decompress: the 13 header
   bytes are buffered across calls (header_len) and never shown to the decoder (LzmaDec_Allocate gets them; the oracle question
   QLzAlloc carries no bytes, so the contract is about the stream AFTER the header), the call that completes the header may call
   the decoder with an EMPTY input, the return code is derived from (res, status), and the layer exists only if lzma_memlimit
   and response_lzma_layer_limit are positive. Streams with an end marker (LZMA_STATUS_FINISHED_WITH_MARK) only. *)
Require Import Htp.Model.Base Htp.Model.MBstr Htp.Model.MDecomp Htp.Proof.PDecomp Htp.Proof.PDecompLayers.
Local Open Scope Z_scope.

Section Lzma.
Variable lst : Type.
Variable lzinit : lst.                                                          (* state after LzmaDec_Allocate + LzmaDec_Init *)
Variable lzdecode : lst -> bytes -> nat -> lst * nat * bytes * Z * Z.           (* state', consumed, produced, res, status *)

Definition lzask (z : lst) (q : dz_query) : dz_ans * lst :=
  match q with
  | QLzAlloc => (mk_dz_ans 0 [] c_dz_SZ_OK 0, lzinit)
  | QLzDecode inp ao => let '(z', cn, out, rc, st) := lzdecode z inp ao in (mk_dz_ans cn out rc st, z')
  | _ => (mk_dz_ans 0 [] 0 0, z)
  end.

Variable lzvalid : lst -> bytes -> bytes -> Prop.
Hypothesis Hlz : forall z s pp offered rest ao,
  lzvalid z s pp -> s = offered ++ rest -> offered <> [] -> (0 < ao)%nat ->
  let '(z', cn, out, rc, st) := lzdecode z offered ao in
  (cn <= length offered)%nat /\ (length out <= ao)%nat /\ rc = c_dz_SZ_OK /\ exists p', pp = out ++ p' /\
  ((st <> c_dz_LZMA_STATUS_FINISHED_WITH_MARK /\ lzvalid z' (skipn cn s) p' /\ (0 < cn + length out)%nat /\ skipn cn s <> []) \/
   (st = c_dz_LZMA_STATUS_FINISHED_WITH_MARK /\ skipn cn s = [] /\ p' = [])).
(* the fresh decoder called without input (the call that completes the header with the last byte of a chunk): nothing happens *)
Hypothesis Hlz0 : forall s pp ao,
  lzvalid lzinit s pp ->
  let '(z', cn, out, rc, st) := lzdecode lzinit [] ao in
  out = [] /\ rc = c_dz_SZ_OK /\ st <> c_dz_LZMA_STATUS_FINISHED_WITH_MARK /\ lzvalid z' s pp.

Variable c : dz_cfg.
Variable t0 : Z * Z.
Hypothesis Hclock : forall k, dc_clock c k = t0.
Hypothesis Htlimit : 0 <= dc_tlimit c.
Hypothesis Hhook : forall k, dc_hook c k = c_HTP_OK.
Variable p : bytes.
Hypothesis Hbomb : Z.of_nat (length p) <= dc_bomb c.

Notation ask := lzask.
Notation world := (dz_world lst).
Notation LZ := c_dz_COMPRESSION_LZMA.
Notation dnext := (fun (ls : list dz_layer) (_ : dz_data) (w : world) => (ls, w, c_HTP_ERROR)).

Ltac wsimpl := cbn [w_o w_entity w_message w_events w_nhook w_nclock w_nbcb w_tbefore w_tspent w_tpass w_trace w_late
                    w_set_o w_set_entity w_set_message w_push_event w_tick_clock w_set_nbcb w_set_tbefore w_set_tspent
                    w_set_tpass w_set_trace w_set_late
                    dz_pass dz_restart dz_zinit dz_obuf dz_hlen dz_fed
                    dz_set_pass dz_set_restart dz_set_zinit dz_set_obuf dz_set_hlen dz_set_fed fst snd] in *.
Ltac csplit := repeat match goal with |- _ /\ _ => split end.

(* the layer while decoding (header complete: header_len = 14) *)
Definition dzz_LI (z : lst) (s_rem p_rem : bytes) (l : dz_layer) (w : world) : Prop :=
  lzvalid z s_rem p_rem /\ w_o lst w = z /\ dz_pass l = false /\ dz_zinit l = LZ /\ dz_hlen l = 14 /\
  dz_devs w ++ dz_obuf l ++ p_rem = p /\ (length (dz_obuf l) <= dz_BUF)%nat /\ w_entity lst w = Z.of_nat (length (dz_devs w)).
Definition dzz_LD (l : dz_layer) (w : world) : Prop :=
  dz_pass l = false /\ dz_zinit l = LZ /\ dz_hlen l = 14 /\ dz_obuf l = [] /\ dz_devs w = p /\ w_entity lst w = Z.of_nat (length (dz_devs w)).

Lemma dzz_BUF_pos : (0 < dz_BUF)%nat.
Proof. pose proof dz_BUF_val as H. rewrite dz_buf_size in H. lia. Qed.

(* the flush of a full buffer, in a benign world *)
Lemma dzz_flush z s_rem p_rem l (w : world) :
  dzz_LI z s_rem p_rem l w -> dz_BW lst t0 w ->
  exists l1 w1, dz_flush_full lst ask c dnext l [] w = inl (l1, [], w1) /\ (0 < dz_avail_out l1)%nat /\
    dzz_LI z s_rem p_rem l1 w1 /\ dz_BW lst t0 w1.
Proof.
  intros (Hv & Ho & Hp & Hz & Hh & Hpay & Hlen & Hent) HBW.
  unfold dz_flush_full. destruct (dz_avail_out l =? 0)%nat eqn:Hao.
  - apply Nat.eqb_eq in Hao. unfold dz_deliver.
    destruct (dz_callback_benign lst c t0 Hclock Htlimit Hhook [] (dz_some (dz_obuf l)) w HBW Hent) as (w1 & Hcb & HBW1 & Ho1 & Hd1 & He1 & Hm1).
    { left. rewrite <- Hpay in Hbomb. rewrite !app_length in Hbomb. unfold dz_len. cbn [dd_bytes dz_some]. lia. }
    rewrite Hcb. rewrite Z.eqb_refl. cbn [negb].
    exists (dz_set_obuf l []), w1. cbn [dd_bytes dz_some] in Hd1. split; [reflexivity|]. split.
    { unfold dz_avail_out. wsimpl. cbn [length]. pose proof dzz_BUF_pos. lia. }
    split; [|exact HBW1]. unfold dzz_LI. wsimpl. cbn [length app]. csplit; auto; try congruence; try lia.
    rewrite Hd1, <- app_assoc. exact Hpay.
  - apply Nat.eqb_neq in Hao. exists l, w. split; [reflexivity|]. split; [lia|]. split; [|exact HBW]. unfold dzz_LI. csplit; auto.
Qed.

(* what follows one decoder call made with a non-empty input *)
Lemma dzz_loop d fuel : forall input rest z p_rem l (w : world) rc0,
  dzz_LI z (input ++ rest) p_rem l w -> dz_BW lst t0 w -> input ++ rest <> [] -> (length input + length p_rem < fuel)%nat ->
  exists l' w' r, dz_loop lst ask c dnext fuel d l [] w input rc0 = (l', [], w', r) /\ dz_BW lst t0 w' /\
    ((rest <> [] /\ exists z' p_rem', dzz_LI z' rest p_rem' l' w') \/ (rest = [] /\ dzz_LD l' w')).
Proof.
  induction fuel as [|f IH]; intros input rest z p_rem l w rc0 HLI HBW Hne Hfuel; [lia|].
  cbn [dz_loop]. destruct input as [|b input'].
  { exists l, w, c_HTP_OK. split; [reflexivity|]. split; [exact HBW|]. left. cbn [app] in *. split; auto. exists z, p_rem. exact HLI. }
  set (input := b :: input') in *.
  destruct (dzz_flush z (input ++ rest) p_rem l w HLI HBW) as (l1 & w1 & Hfl & Hao1 & HLI1 & HBW1).
  destruct HLI1 as (Hv & Ho1 & Hp1 & Hz1 & Hh1 & Hpay1 & Hlen1 & Hent1).
  unfold dz_iter. rewrite Hfl.
  assert (Hin : input <> []) by (subst input; discriminate).
  pose proof (Hlz z (input ++ rest) p_rem input rest (dz_avail_out l1) Hv eq_refl Hin Hao1) as Hc.
  unfold dz_decode. rewrite Hz1, Z.eqb_refl. unfold dz_lz_header. rewrite Hh1.
  replace (14 <? c_dz_LZMA_HEADER_SIZE) with false by reflexivity. cbv beta iota. rewrite Hh1.
  replace (14 =? c_dz_LZMA_HEADER_SIZE) with false by reflexivity. cbv beta iota. rewrite Hh1.
  replace (14 >? c_dz_LZMA_HEADER_SIZE) with true by reflexivity.
  unfold dz_ask. rewrite Ho1. cbn [lzask].
  destruct (lzdecode z input (dz_avail_out l1)) as [[[[z' cn] out] rc] st].
  destruct Hc as (Hcn & Hout & Hrc & p' & Hp' & Hcase). wsimpl. cbn [da_consumed da_out da_rc da_status].
  rewrite (Nat.min_l _ _ Hcn). rewrite (firstn_all2 out Hout). subst rc. rewrite Z.eqb_refl.
  set (l2 := dz_set_obuf l1 (dz_obuf l1 ++ out)). set (w2 := w_set_o lst w1 z').
  assert (Hlen2 : (length (dz_obuf l2) <= dz_BUF)%nat).
  { subst l2. wsimpl. rewrite app_length. unfold dz_avail_out in Hout. lia. }
  unfold dz_after.
  destruct Hcase as [(Hst & Hv' & Hprog & Hmore)|(Hst & Hdone & Hp'nil)].
  - replace (st =? c_dz_LZMA_STATUS_FINISHED_WITH_MARK) with false by (symmetry; apply Z.eqb_neq; exact Hst).
    replace (c_dz_Z_OK =? c_dz_Z_DATA_ERROR) with false by reflexivity. rewrite andb_false_r.
    replace (c_dz_Z_OK =? c_dz_Z_STREAM_END) with false by reflexivity. rewrite Z.eqb_refl. cbn [negb].
    rewrite dz_skipn_app_le in Hv', Hmore by (exact [] || exact Hcn).
    destruct (IH (skipn cn input) rest z' p' l2 w2 c_dz_Z_OK) as (l3 & w3 & r3 & Hloop & HBW3 & Hres).
    + subst l2 w2. unfold dzz_LI. wsimpl. csplit; auto. rewrite <- Hpay1, Hp'. rewrite <- !app_assoc. reflexivity.
    + exact HBW1.
    + exact Hmore.
    + rewrite Hp', app_length in Hfuel. pose proof (skipn_length cn input). lia.
    + exists l3, w3, r3. auto.
  - subst st p'. rewrite app_nil_r in Hp'. rewrite Z.eqb_refl.
    replace (c_dz_Z_STREAM_END =? c_dz_Z_DATA_ERROR) with false by reflexivity. rewrite andb_false_r.
    rewrite Z.eqb_refl. unfold dz_deliver.
    assert (HBW2 : dz_BW lst t0 w2) by (subst w2; exact HBW1).
    assert (Hent2 : w_entity lst w2 = Z.of_nat (length (dz_devs w2))) by (subst w2; exact Hent1).
    destruct (dz_callback_benign lst c t0 Hclock Htlimit Hhook [] (dz_some (dz_obuf l2)) w2 HBW2 Hent2) as (w3 & Hcb & HBW3 & Ho3 & Hd3 & He3 & Hm3).
    { left. subst l2 w2. wsimpl. rewrite <- Hpay1, Hp' in Hbomb. rewrite !app_length in Hbomb. unfold dz_len. cbn [dd_bytes dz_some]. rewrite app_length.
      replace (dz_devs (w_set_o lst w1 z')) with (dz_devs w1) by reflexivity. lia. }
    rewrite Hcb. rewrite Z.eqb_refl. cbn [negb].
    exists (dz_set_obuf l2 []), w3, c_HTP_OK. split; [reflexivity|]. split; [exact HBW3|]. right.
    rewrite dz_skipn_app_le in Hdone by (exact [] || exact Hcn). apply app_eq_nil in Hdone. destruct Hdone as [_ Hrest]. split; auto.
    unfold dzz_LD. subst l2. wsimpl. csplit; auto.
    rewrite Hd3. cbn [dd_bytes dz_some]. subst w2. replace (dz_devs (w_set_o lst w1 z')) with (dz_devs w1) by reflexivity.
    rewrite <- Hpay1, Hp'. reflexivity.
Qed.

Lemma dzz_avail_empty : (dz_BUF - 0 =? 0)%nat = false.
Proof. reflexivity. Qed.

(* the call that completes the header: LzmaDec_Allocate, then the decoder sees what follows the header in this chunk *)
Lemma dzz_iter_header d l (w : world) ch rc0 k :
  dd_bytes d = ch -> dz_zinit l = LZ -> dz_obuf l = [] -> dz_hlen l = k -> 0 <= k < 13 -> 13 - k <= Z.of_nat (length ch) ->
  dz_iter lst ask c dnext d l [] w ch rc0 =
  dz_iter lst ask c dnext d (dz_set_hlen l 14) [] (w_set_o lst w lzinit) (skipn (Z.to_nat (13 - k)) ch) rc0.
Proof.
  intros Hd Hz Hob Hh Hk Hlen.
  unfold dz_iter, dz_flush_full, dz_avail_out. wsimpl. rewrite Hob. cbn [length]. rewrite dzz_avail_empty.
  unfold dz_decode. wsimpl. rewrite Hz, Z.eqb_refl. unfold dz_lz_header. wsimpl. rewrite Hh.
  replace (k <? c_dz_LZMA_HEADER_SIZE) with true by (symmetry; apply Z.ltb_lt; unfold c_dz_LZMA_HEADER_SIZE; lia).
  replace (14 <? c_dz_LZMA_HEADER_SIZE) with false by reflexivity.
  replace (c_dz_LZMA_HEADER_SIZE - k) with (13 - k) by reflexivity.
  replace (length ch <? Z.to_nat (13 - k))%nat with false by (symmetry; apply Nat.ltb_ge; lia).
  cbv beta iota. wsimpl. rewrite Hd.
  replace (k + Z.of_nat (Z.to_nat (13 - k))) with 13 by lia.
  replace (13 =? c_dz_LZMA_HEADER_SIZE) with true by reflexivity.
  replace (14 =? c_dz_LZMA_HEADER_SIZE) with false by reflexivity.
  unfold dz_ask at 1. cbn [lzask da_rc]. replace (c_dz_SZ_OK =? c_dz_SZ_OK) with true by reflexivity. cbn [negb]. cbv beta iota. wsimpl.
  replace (13 + 1 >? c_dz_LZMA_HEADER_SIZE) with true by reflexivity.
  replace (14 >? c_dz_LZMA_HEADER_SIZE) with true by reflexivity.
  unfold dz_avail_out. wsimpl. rewrite Hob.
  reflexivity.
Qed.

Lemma dzz_LI_ext z s_rem p_rem l (w w' : world) :
  dzz_LI z s_rem p_rem l w -> w_o lst w' = w_o lst w -> w_events lst w' = w_events lst w -> w_entity lst w' = w_entity lst w ->
  dzz_LI z s_rem p_rem l w'.
Proof.
  intros (Hv & Ho & Hp & Hz & Hh & Hpay & Hlen & Hent) H1 H2 H3.
  assert (Hd : dz_devs w' = dz_devs w) by (unfold dz_devs; rewrite H2; reflexivity).
  unfold dzz_LI. rewrite Hd, H1, H3. csplit; auto.
Qed.

(* a chunk that lies inside the header *)
Lemma dzz_loop_hdr_short d f l (w : world) ch k :
  dd_bytes d = ch -> ch <> [] -> dz_zinit l = LZ -> dz_obuf l = [] -> dz_hlen l = k -> 0 <= k -> k + Z.of_nat (length ch) < 13 ->
  exists r, dz_loop lst ask c dnext (S (S f)) d l [] w ch 0 = (dz_set_hlen l (k + Z.of_nat (length ch)), [], w, r).
Proof.
  intros Hd Hne Hz Hob Hh Hk Hlt. destruct ch as [|b ch']; [congruence|]. set (ch := b :: ch') in *.
  cbn [dz_loop]. unfold dz_iter, dz_flush_full, dz_avail_out. rewrite Hob. cbn [length]. rewrite dzz_avail_empty.
  unfold dz_decode. rewrite Hz, Z.eqb_refl. unfold dz_lz_header. rewrite Hh.
  replace (k <? c_dz_LZMA_HEADER_SIZE) with true by (symmetry; apply Z.ltb_lt; unfold c_dz_LZMA_HEADER_SIZE; lia).
  replace (c_dz_LZMA_HEADER_SIZE - k) with (13 - k) by reflexivity.
  replace (length ch <? Z.to_nat (13 - k))%nat with true by (symmetry; apply Nat.ltb_lt; lia).
  cbv beta iota. wsimpl. try rewrite Hh. rewrite Hd. rewrite skipn_all.
  replace (k + Z.of_nat (length ch) =? c_dz_LZMA_HEADER_SIZE) with false by (symmetry; apply Z.eqb_neq; unfold c_dz_LZMA_HEADER_SIZE; lia).
  cbv beta iota. wsimpl.
  replace (k + Z.of_nat (length ch) >? c_dz_LZMA_HEADER_SIZE) with false by (symmetry; rewrite Z.gtb_ltb; apply Z.ltb_ge; unfold c_dz_LZMA_HEADER_SIZE; lia).
  unfold dz_after, dz_avail_out. wsimpl. rewrite Hob. cbn [length].
  replace (dz_BUF - 0 <? dz_BUF)%nat with false by (symmetry; rewrite Nat.sub_0_r; apply Nat.ltb_irrefl). cbn [andb].
  replace (0 =? c_dz_Z_STREAM_END) with false by reflexivity. replace (0 =? c_dz_Z_OK) with true by reflexivity. cbn [negb].
  eexists. reflexivity.
Qed.

(* the chunk that completes the header *)
Lemma dzz_loop_hdr_done d f l (w : world) ch rest k :
  dd_bytes d = ch -> ch <> [] -> dz_pass l = false -> dz_zinit l = LZ -> dz_obuf l = [] -> dz_hlen l = k -> 0 <= k < 13 ->
  13 - k <= Z.of_nat (length ch) ->
  lzvalid lzinit (skipn (Z.to_nat (13 - k)) ch ++ rest) p -> skipn (Z.to_nat (13 - k)) ch ++ rest <> [] ->
  w_events lst w = [] -> w_entity lst w = 0 -> dz_BW lst t0 w -> (length ch + length p + 1 < S f)%nat ->
  exists l' w' r, dz_loop lst ask c dnext (S f) d l [] w ch 0 = (l', [], w', r) /\ dz_BW lst t0 w' /\
    ((rest <> [] /\ exists z' p_rem', dzz_LI z' rest p_rem' l' w') \/ (rest = [] /\ dzz_LD l' w')).
Proof.
  intros Hd Hne Hp Hz Hob Hh Hk Hlen Hv Hs Hev Hent HBW Hfuel.
  set (input' := skipn (Z.to_nat (13 - k)) ch) in *.
  set (l14 := dz_set_hlen l 14). set (w' := w_set_o lst w lzinit).
  assert (HLI : dzz_LI lzinit (input' ++ rest) p l14 w').
  { unfold dzz_LI. subst l14 w'. wsimpl. rewrite Hob. unfold dz_devs. wsimpl. rewrite Hev. cbn [rev map concat app length].
    csplit; auto. lia. }
  assert (HBW' : dz_BW lst t0 w') by exact HBW.
  assert (Hstep : dz_loop lst ask c dnext (S f) d l [] w ch 0 =
                  match dz_iter lst ask c dnext d l14 [] w' input' 0 with
                  | DzRet _ l rest w r => (l, rest, w, r)
                  | DzCont _ l rest w input rc => dz_loop lst ask c dnext f d l rest w input rc
                  | DzRestart _ l rest w consumed rc =>
                    match dz_enter d consumed with None => (l, rest, w, c_HTP_ERROR) | Some input => dz_loop lst ask c dnext f d l rest w input rc end
                  end).
  { cbn [dz_loop]. destruct ch as [|b ch']; [congruence|]. rewrite (dzz_iter_header d l w (b :: ch') 0 k Hd Hz Hob Hh Hk Hlen). reflexivity. }
  destruct input' as [|b' i'] eqn:Hi.
  - (* the header ends with the chunk: the decoder is called with no input *)
    rewrite Hstep. cbn [app] in *.
    unfold dz_iter, dz_flush_full, dz_avail_out. subst l14. wsimpl. rewrite Hob. cbn [length]. rewrite dzz_avail_empty.
    unfold dz_decode. wsimpl. rewrite Hz, Z.eqb_refl. unfold dz_lz_header. wsimpl.
    replace (14 <? c_dz_LZMA_HEADER_SIZE) with false by reflexivity. cbv beta iota. wsimpl.
    replace (14 =? c_dz_LZMA_HEADER_SIZE) with false by reflexivity. cbv beta iota. wsimpl.
    replace (14 >? c_dz_LZMA_HEADER_SIZE) with true by reflexivity.
    unfold dz_ask, dz_avail_out. subst w'. wsimpl. rewrite Hob. cbn [lzask length].
    pose proof (Hlz0 rest p (dz_BUF - 0)%nat Hv) as H0.
    destruct (lzdecode lzinit [] (dz_BUF - 0)) as [[[[z' cn] out] rc] st]. destruct H0 as (Hout & Hrc & Hst & Hv').
    subst out rc. cbn [da_consumed da_out da_rc da_status firstn]. wsimpl. cbn [length Nat.min skipn app]. rewrite firstn_nil.
    rewrite Z.eqb_refl. replace (st =? c_dz_LZMA_STATUS_FINISHED_WITH_MARK) with false by (symmetry; apply Z.eqb_neq; exact Hst).
    unfold dz_after, dz_avail_out. wsimpl. cbn [length].
    replace (dz_BUF - 0 <? dz_BUF)%nat with false by (symmetry; rewrite Nat.sub_0_r; apply Nat.ltb_irrefl). cbn [andb].
    replace (c_dz_Z_OK =? c_dz_Z_STREAM_END) with false by reflexivity. rewrite Z.eqb_refl. cbn [negb].
    destruct f as [|f']; [lia|]. cbn [dz_loop]. rewrite skipn_nil.
    eexists. eexists. eexists. split; [reflexivity|]. split; [exact HBW|]. left. split; [exact Hs|]. exists z', p.
    destruct HLI as (_ & _ & _ & _ & _ & Hpay & Hl & He). unfold dzz_LI. wsimpl. rewrite Hob in *. csplit; auto.
  - rewrite Hstep.
    assert (Hfold : match dz_iter lst ask c dnext d l14 [] w' (b' :: i') 0 with
                  | DzRet _ l rest w r => (l, rest, w, r)
                  | DzCont _ l rest w input rc => dz_loop lst ask c dnext f d l rest w input rc
                  | DzRestart _ l rest w consumed rc =>
                    match dz_enter d consumed with None => (l, rest, w, c_HTP_ERROR) | Some input => dz_loop lst ask c dnext f d l rest w input rc end
                  end = dz_loop lst ask c dnext (S f) d l14 [] w' (b' :: i') 0) by reflexivity.
    rewrite Hfold.
    apply (dzz_loop d (S f) (b' :: i') rest lzinit p l14 w' 0 HLI HBW' Hs).
    assert (length (b' :: i') <= length ch)%nat by (rewrite <- Hi; subst input'; rewrite skipn_length; lia). lia.
Qed.

Lemma dzz_enter0 ch : Z.of_nat (length ch) <= c_dz_UINT32_MAX -> dz_enter (dz_some ch) 0 = Some ch.
Proof.
  intros H. unfold dz_enter. cbn [dd_bytes dz_some skipn]. unfold dz_len. cbn [dd_bytes dz_some].
  replace (length ch <? 0)%nat with false by (symmetry; apply Nat.ltb_ge; lia).
  replace (Z.of_nat (length ch) >? c_dz_UINT32_MAX) with false by (symmetry; rewrite Z.gtb_ltb; apply Z.ltb_ge; lia). reflexivity.
Qed.

(* one data call of htp_tx_res_process_body_data_ex around the layer's loop, in a benign world *)
Lemma dzz_wrap (Q : dz_layer -> world -> Prop) (t : dz_tx lst) l ch :
  tx_chain lst t = [l] -> tx_cep lst t = LZ -> dz_pass l = false -> dz_BW0 lst (tx_w lst t) ->
  ch <> [] -> Z.of_nat (length ch) <= c_dz_UINT32_MAX ->
  (forall w2, dz_BW lst t0 w2 -> w_o lst w2 = w_o lst (tx_w lst t) -> w_events lst w2 = w_events lst (tx_w lst t) ->
              w_entity lst w2 = w_entity lst (tx_w lst t) ->
     exists l3 w3 r3, dz_loop lst ask c dnext (dc_fuel c) (dz_some ch) l [] w2 ch 0 = (l3, [], w3, r3) /\ dz_BW lst t0 w3 /\ Q l3 w3) ->
  exists l3 w3, Q l3 w3 /\ dz_BW lst t0 w3 /\
    fst (dz_process_body_data lst ask c t 0 (Some ch)) =
    mk_dz_tx lst [dz_set_fed l3 true] LZ (w_set_tpass lst (w_set_tspent lst (w_tick_clock lst w3) 0) false) (tx_err lst t).
Proof.
  intros Hch Hcep Hp HBW0 Hne Hu32 Hloop.
  set (t' := fst (dz_process_body_data lst ask c t 0 (Some ch))).
  assert (Ht' : t' = fst (dz_process_body_data lst ask c t 0 (Some ch))) by reflexivity. clearbody t'.
  unfold dz_process_body_data in Ht'. cbv zeta in Ht'. rewrite Hcep, Hch in Ht'.
  replace (dz_is_coded LZ) with true in Ht' by reflexivity.
  cbn [dz_data_of] in Ht'. unfold dz_gettimeofday at 1 in Ht'.
  set (w1 := w_set_message lst (tx_w lst t) (w_message lst (tx_w lst t) + 0 + dz_len (dz_some ch))) in *.
  set (w2 := w_set_nbcb lst (w_set_tbefore lst (w_tick_clock lst w1) (dc_clock c (w_nclock lst w1))) 0) in *.
  assert (HBW2 : dz_BW lst t0 w2) by (apply dz_BW_enter; [exact Hclock|exact HBW0]).
  cbn [length dz_decompress] in Ht'. unfold dz_layer_run in Ht'. rewrite Hp in Ht'. cbn [dd_null dz_some] in Ht'.
  rewrite (dzz_enter0 ch Hu32) in Ht'.
  destruct (Hloop w2 HBW2 eq_refl eq_refl eq_refl) as (l3 & w3 & r3 & Hl & HBW3 & HQ).
  rewrite Hl in Ht'. cbn [dd_bytes dz_some] in Ht'. destruct ch as [|b ch']; [congruence|].
  unfold dz_gettimeofday in Ht'. cbn [fst] in Ht'.
  rewrite (dz_after_call_benign lst c t0 Hclock Htlimit [] w3 HBW3) in Ht'. wsimpl.
  pose proof HBW3 as ((Hsp3 & Htp3) & Htb3). rewrite Htp3 in Ht'.
  exists l3, w3. split; [exact HQ|]. split; [exact HBW3|]. exact Ht'.
Qed.

(* between two body calls *)
Definition dzz_TH (k : Z) (t : dz_tx lst) : Prop :=
  exists l, tx_chain lst t = [l] /\ tx_cep lst t = LZ /\ dz_pass l = false /\ dz_zinit l = LZ /\ dz_obuf l = [] /\ dz_hlen l = k /\
            w_events lst (tx_w lst t) = [] /\ w_entity lst (tx_w lst t) = 0 /\ dz_BW0 lst (tx_w lst t).
Definition dzz_TI (z : lst) (s_rem p_rem : bytes) (t : dz_tx lst) : Prop :=
  exists l, tx_chain lst t = [l] /\ tx_cep lst t = LZ /\ dzz_LI z s_rem p_rem l (tx_w lst t) /\ dz_BW0 lst (tx_w lst t).
Definition dzz_TD (t : dz_tx lst) : Prop :=
  exists l, tx_chain lst t = [l] /\ tx_cep lst t = LZ /\ dzz_LD l (tx_w lst t) /\ dz_BW0 lst (tx_w lst t).

Lemma dzz_after_LI z s p_rem l (w3 : world) :
  dzz_LI z s p_rem l w3 -> dzz_LI z s p_rem (dz_set_fed l true) (w_set_tpass lst (w_set_tspent lst (w_tick_clock lst w3) 0) false).
Proof. intros H. unfold dzz_LI in *. wsimpl. exact H. Qed.
Lemma dzz_after_LD l (w3 : world) :
  dzz_LD l w3 -> dzz_LD (dz_set_fed l true) (w_set_tpass lst (w_set_tspent lst (w_tick_clock lst w3) 0) false).
Proof. intros H. unfold dzz_LD in *. wsimpl. exact H. Qed.
Lemma dzz_after_BW0 (w3 : world) : dz_BW0 lst (w_set_tpass lst (w_set_tspent lst (w_tick_clock lst w3) 0) false).
Proof. unfold dz_BW0. wsimpl. split; reflexivity. Qed.

Lemma dzz_process_data (t : dz_tx lst) z ch rest p_rem :
  dzz_TI z (ch ++ rest) p_rem t -> ch <> [] -> Z.of_nat (length ch) <= c_dz_UINT32_MAX -> (length ch + length p < dc_fuel c)%nat ->
  let t' := fst (dz_process_body_data lst ask c t 0 (Some ch)) in
  (rest <> [] /\ exists z' p', dzz_TI z' rest p' t') \/ (rest = [] /\ dzz_TD t').
Proof.
  intros (l & Hch & Hcep & HLI & HBW0) Hne Hu32 Hfuel t'. subst t'.
  pose proof HLI as (_ & _ & Hp & _ & _ & Hpay & _ & _).
  destruct (dzz_wrap (fun l3 w3 => (rest <> [] /\ exists z' p', dzz_LI z' rest p' l3 w3) \/ (rest = [] /\ dzz_LD l3 w3)) t l ch Hch Hcep Hp HBW0 Hne Hu32)
    as (l3 & w3 & HQ & HBW3 & Heq).
  { intros w2 HBW2 Ho2 Hev2 He2.
    apply (dzz_loop (dz_some ch) (dc_fuel c) ch rest z p_rem l w2 0 (dzz_LI_ext _ _ _ _ _ _ HLI Ho2 Hev2 He2) HBW2).
    - destruct ch; [congruence|discriminate].
    - rewrite <- Hpay in Hfuel. rewrite !app_length in Hfuel. lia. }
  rewrite Heq. destruct HQ as [(Hr & z' & p' & H)|(Hr & H)]; [left|right]; split; auto.
  - exists z', p', (dz_set_fed l3 true). cbn [tx_chain tx_cep tx_w]. split; [reflexivity|]. split; [reflexivity|]. split; [apply dzz_after_LI; exact H|apply dzz_after_BW0].
  - exists (dz_set_fed l3 true). cbn [tx_chain tx_cep tx_w]. split; [reflexivity|]. split; [reflexivity|]. split; [apply dzz_after_LD; exact H|apply dzz_after_BW0].
Qed.

(* a call during the header phase *)
Lemma dzz_process_hdr (t : dz_tx lst) k ch rest :
  dzz_TH k t -> 0 <= k < 13 -> ch <> [] -> Z.of_nat (length ch) <= c_dz_UINT32_MAX -> (length ch + length p + 2 < dc_fuel c)%nat ->
  let t' := fst (dz_process_body_data lst ask c t 0 (Some ch)) in
  (k + Z.of_nat (length ch) < 13 -> dzz_TH (k + Z.of_nat (length ch)) t') /\
  (13 <= k + Z.of_nat (length ch) -> lzvalid lzinit (skipn (Z.to_nat (13 - k)) ch ++ rest) p -> skipn (Z.to_nat (13 - k)) ch ++ rest <> [] ->
   (rest <> [] /\ exists z' p', dzz_TI z' rest p' t') \/ (rest = [] /\ dzz_TD t')).
Proof.
  intros (l & Hch & Hcep & Hp & Hz & Hob & Hh & Hev & Hent & HBW0) Hk Hne Hu32 Hfuel t'. subst t'. split.
  - intros Hlt.
    destruct (dzz_wrap (fun l3 w3 => l3 = dz_set_hlen l (k + Z.of_nat (length ch)) /\ w_events lst w3 = [] /\ w_entity lst w3 = 0) t l ch Hch Hcep Hp HBW0 Hne Hu32)
      as (l3 & w3 & (Hl3 & Hev3 & Hent3) & HBW3 & Heq).
    { intros w2 HBW2 Ho2 Hev2 He2. destruct (dc_fuel c) as [|[|f]] eqn:Hf; [lia|lia|].
      destruct (dzz_loop_hdr_short (dz_some ch) f l w2 ch k eq_refl Hne Hz Hob Hh ltac:(lia) Hlt) as (r & Hloop).
      exists (dz_set_hlen l (k + Z.of_nat (length ch))), w2, r. split; [exact Hloop|]. split; [exact HBW2|]. split; [reflexivity|].
      split; congruence. }
    rewrite Heq. exists (dz_set_fed l3 true). cbn [tx_chain tx_cep tx_w]. subst l3. wsimpl. repeat (split; [solve [auto]|]). apply dzz_after_BW0.
  - intros Hge Hv Hs.
    destruct (dzz_wrap (fun l3 w3 => (rest <> [] /\ exists z' p', dzz_LI z' rest p' l3 w3) \/ (rest = [] /\ dzz_LD l3 w3)) t l ch Hch Hcep Hp HBW0 Hne Hu32)
      as (l3 & w3 & HQ & HBW3 & Heq).
    { intros w2 HBW2 Ho2 Hev2 He2. destruct (dc_fuel c) as [|f] eqn:Hf; [lia|].
      apply (dzz_loop_hdr_done (dz_some ch) f l w2 ch rest k eq_refl Hne Hp Hz Hob Hh Hk ltac:(lia) Hv Hs); try congruence. lia. }
    rewrite Heq. destruct HQ as [(Hr & z' & p' & H)|(Hr & H)]; [left|right]; split; auto.
    + exists z', p', (dz_set_fed l3 true). cbn [tx_chain tx_cep tx_w]. split; [reflexivity|]. split; [reflexivity|]. split; [apply dzz_after_LI; exact H|apply dzz_after_BW0].
    + exists (dz_set_fed l3 true). cbn [tx_chain tx_cep tx_w]. split; [reflexivity|]. split; [reflexivity|]. split; [apply dzz_after_LD; exact H|apply dzz_after_BW0].
Qed.

Lemma dzz_process_null (t : dz_tx lst) :
  dzz_TD t ->
  let t' := fst (dz_process_body_data lst ask c t 0 None) in
  dz_devs (tx_w lst t') = p /\ tx_chain lst t' = [].
Proof.
  intros (l & Hch & Hcep & HLD & HBW0) t'. destruct HLD as (Hp & Hz & Hh & Hob & Hd & Hent).
  assert (Ht' : t' = fst (dz_process_body_data lst ask c t 0 None)) by reflexivity. clearbody t'.
  unfold dz_process_body_data in Ht'. cbv zeta in Ht'. rewrite Hcep, Hch in Ht'. replace (dz_is_coded LZ) with true in Ht' by reflexivity.
  cbn [dz_data_of] in Ht'. unfold dz_gettimeofday at 1 in Ht'.
  set (w1 := w_set_message lst (tx_w lst t) (w_message lst (tx_w lst t) + 0 + dz_len dz_null)) in *.
  set (w2 := w_set_nbcb lst (w_set_tbefore lst (w_tick_clock lst w1) (dc_clock c (w_nclock lst w1))) 0) in *.
  assert (HBW2 : dz_BW lst t0 w2) by (apply dz_BW_enter; [exact Hclock|exact HBW0]).
  cbn [length dz_decompress] in Ht'. unfold dz_layer_run in Ht'. rewrite Hp, Hob in Ht'. cbn [dd_null dz_null] in Ht'.
  assert (Hent2 : w_entity lst w2 = Z.of_nat (length (dz_devs w2))) by exact Hent.
  destruct (dz_callback_benign lst c t0 Hclock Htlimit Hhook [] dz_null w2 HBW2 Hent2) as (w3 & Hcb & HBW3 & Ho3 & Hd3 & He3 & Hm3).
  { left. replace (dz_devs w2) with (dz_devs (tx_w lst t)) by reflexivity. rewrite Hd. unfold dz_len. cbn. lia. }
  rewrite Hcb, Z.eqb_refl in Ht'. cbn [negb] in Ht'.
  unfold dz_gettimeofday in Ht'. rewrite (dz_after_call_benign lst c t0 Hclock Htlimit [] w3 HBW3) in Ht'. cbn [fst] in Ht'.
  pose proof HBW3 as ((Hsp3 & Htp3) & Htb3). wsimpl. rewrite Htp3 in Ht'.
  subst t'. cbn [tx_w tx_chain]. split; [|reflexivity].
  rewrite (dz_sim_devs lst _ _ (dz_destroy_sim lst ask _ _)).
  unfold dz_devs in *. wsimpl. rewrite Hd3. cbn [dd_bytes dz_null]. rewrite app_nil_r. exact Hd.
Qed.

Definition dzz_chunks_ok (chunks : list bytes) : Prop :=
  Forall (fun ch => ch <> [] /\ Z.of_nat (length ch) <= c_dz_UINT32_MAX /\ (length ch + length p + 2 < dc_fuel c)%nat) chunks.

Lemma dzz_calls chunks : forall (t : dz_tx lst) z p_rem,
  dzz_TI z (concat chunks) p_rem t -> concat chunks <> [] -> dzz_chunks_ok chunks ->
  dzz_TD (dz_calls lst ask c t (map (fun ch => (0, Some ch)) chunks)).
Proof.
  induction chunks as [|ch r IH]; intros t z p_rem HTI Hne Hall; [cbn in Hne; congruence|].
  inversion Hall as [|? ? (Hc1 & Hc2 & Hc3) Hall']; subst. cbn [map dz_calls concat] in *.
  destruct (dzz_process_data t z ch (concat r) p_rem HTI Hc1 Hc2 ltac:(lia)) as [(Hr & z' & p' & HTI')|(Hr & HTD)].
  - eapply IH; eauto.
  - destruct r as [|ch2 r2]; [exact HTD|].
    inversion Hall' as [|? ? (Hd1 & _) _]; subst. cbn [concat] in Hr. destruct ch2; [congruence|discriminate].
Qed.

Lemma dzz_app_split {A} (a : list A) : forall b1 c1 d1, a ++ b1 = c1 ++ d1 -> (length a <= length c1)%nat -> exists m, c1 = a ++ m /\ b1 = m ++ d1.
Proof.
  induction a as [|x a IH]; intros b1 c1 d1 H Hl; cbn [app] in *.
  - exists c1. auto.
  - destruct c1 as [|y c1]; [cbn in Hl; lia|]. cbn [app] in H. injection H as Hx H. subst y.
    destruct (IH b1 c1 d1 H ltac:(cbn [length] in Hl; lia)) as (m & Hc & Hb). exists m. subst c1. auto.
Qed.

Variable s : bytes.                                    (* the stream after the 13 header bytes *)
Hypothesis Hvalid : lzvalid lzinit s p.
Hypothesis Hs : s <> [].

Lemma dzz_calls_hdr chunks : forall (t : dz_tx lst) k hrem,
  dzz_TH k t -> 0 <= k < 13 -> Z.of_nat (length hrem) = 13 - k -> concat chunks = hrem ++ s -> dzz_chunks_ok chunks ->
  dzz_TD (dz_calls lst ask c t (map (fun ch => (0, Some ch)) chunks)).
Proof.
  induction chunks as [|ch r IH]; intros t k hrem HTH Hk Hlen Hcat Hall.
  { cbn [concat] in Hcat. symmetry in Hcat. apply app_eq_nil in Hcat. destruct Hcat; congruence. }
  inversion Hall as [|? ? (Hc1 & Hc2 & Hc3) Hall']; subst. cbn [map dz_calls concat] in *.
  destruct (dzz_process_hdr t k ch (concat r) HTH Hk Hc1 Hc2 Hc3) as [Hshort Hdone]. cbv zeta in Hshort, Hdone.
  destruct (Z_lt_ge_dec (k + Z.of_nat (length ch)) 13) as [Hlt|Hge].
  - specialize (Hshort Hlt).
    destruct (dzz_app_split ch (concat r) hrem s Hcat ltac:(lia)) as (m & Hh & Hr).
    apply (IH _ (k + Z.of_nat (length ch)) m Hshort); auto; try lia.
    rewrite Hh, app_length in Hlen. lia.
  - symmetry in Hcat. destruct (dzz_app_split hrem s ch (concat r) Hcat ltac:(lia)) as (m & Hh & Hr).
    assert (Hsk : skipn (Z.to_nat (13 - k)) ch = m).
    { rewrite Hh. rewrite skipn_app. rewrite skipn_all2 by lia. replace (Z.to_nat (13 - k) - length hrem)%nat with O by lia. reflexivity. }
    rewrite Hsk in Hdone. rewrite <- Hr in Hdone.
    destruct (Hdone ltac:(lia) Hvalid Hs) as [(Hr' & z' & p' & HTI)|(Hr' & HTD)].
    + apply (dzz_calls r _ z' p' HTI Hr' Hall').
    + destruct r as [|ch2 r2]; [exact HTD|].
      inversion Hall' as [|? ? (Hd1 & _) _]; subst. cbn [concat] in Hr'. destruct ch2; [congruence|discriminate].
Qed.

Hypothesis Henabled : dc_enabled c = true.
Hypothesis Hmem : 0 < dc_lzma_mem c.                   (* lzma_memlimit *)
Hypothesis Hlayers : 0 < dc_lzma_layers c.             (* response_lzma_layer_limit *)

Lemma dzz_headers (o : lst) :
  dz_response_headers lst ask c (Some s_lzma) (dz_world0 lst o) =
  mk_dz_tx lst [mk_dz_layer false 0 LZ [] 0 false] LZ (dz_world0 lst o) false.
Proof.
  unfold dz_response_headers. rewrite Henabled.
  replace (cmp_mem_nocasenorzero s_lzma s_gzip =? 0) with false by reflexivity.
  replace (cmp_mem_nocasenorzero s_lzma s_xgzip =? 0) with false by reflexivity.
  replace (cmp_mem_nocasenorzero s_lzma s_deflate =? 0) with false by reflexivity.
  replace (cmp_mem_nocasenorzero s_lzma s_xdeflate =? 0) with false by reflexivity.
  replace (cmp_mem_nocasenorzero s_lzma s_lzma =? 0) with true by reflexivity. cbn [orb].
  replace (LZ =? c_dz_COMPRESSION_GZIP) with false by reflexivity. replace (LZ =? c_dz_COMPRESSION_DEFLATE) with false by reflexivity.
  rewrite Z.eqb_refl. cbn [orb negb]. unfold dz_create. rewrite Z.eqb_refl.
  replace (dc_lzma_mem c >? 0) with true by (symmetry; rewrite Z.gtb_ltb; apply Z.ltb_lt; exact Hmem).
  replace (dc_lzma_layers c >? 0) with true by (symmetry; rewrite Z.gtb_ltb; apply Z.ltb_lt; exact Hlayers).
  reflexivity.
Qed.

(* L3: one LZMA layer, 13 header bytes then a stream with end marker, every chunking (cuts inside the header included) *)
Theorem dzz_lzma_faithful hdr chunks (o : lst) :
  length hdr = 13%nat -> concat chunks = hdr ++ s -> dzz_chunks_ok chunks ->
  dz_devs (tx_w lst (fst (dz_run lst ask c (Some s_lzma) (map (fun ch => (0, Some ch)) chunks ++ [(0, None)]) o))) = p.
Proof.
  intros Hh Hcat Hall. unfold dz_run. rewrite dzz_headers. cbn [fst tx_w tx_chain tx_cep].
  set (tx0 := mk_dz_tx lst [mk_dz_layer false 0 LZ [] 0 false] LZ (dz_world0 lst o) false).
  assert (HTH : dzz_TH 0 tx0).
  { exists (mk_dz_layer false 0 LZ [] 0 false). subst tx0. cbn [tx_chain tx_cep tx_w]. unfold dz_BW0, dz_world0. wsimpl. repeat (split; [reflexivity|]). split; reflexivity. }
  assert (Happ : forall (t : dz_tx lst) a b, dz_calls lst ask c t (a ++ b) = dz_calls lst ask c (dz_calls lst ask c t a) b).
  { intros t a. revert t. induction a as [|[e d] r IH]; intros t b; cbn [app dz_calls]; auto. }
  rewrite Happ.
  pose proof (dzz_calls_hdr chunks tx0 0 hdr HTH ltac:(lia) ltac:(lia) Hcat Hall) as HTD.
  set (t1 := dz_calls lst ask c tx0 (map (fun ch => (0, Some ch)) chunks)) in *.
  pose proof (dzz_process_null t1 HTD) as [Hd Hc]. cbv zeta in Hd, Hc.
  change (dz_calls lst ask c t1 [(0, None)]) with (fst (dz_process_body_data lst ask c t1 0 None)).
  rewrite Hc. cbn [dz_destroy]. exact Hd.
Qed.
End Lzma.

(* ------------------------------------------------------------------ a toy LZMA decoder (non-vacuity): the run-length records
   of PDecompLayers.v; LZMA_STATUS_FINISHED_WITH_MARK when the closing byte is consumed *)
Definition dzz_toy_decode (z : dzl_toy) (inp : bytes) (ao : nat) : dzl_toy * nat * bytes * Z * Z :=
  let '(z', cn, out, rc) := dzl_toy_inflate z inp ao in
  (z', cn, out, c_dz_SZ_OK, if rc =? c_dz_Z_STREAM_END then c_dz_LZMA_STATUS_FINISHED_WITH_MARK else 0).

Lemma dzz_toy_contract : forall z s pp offered rest ao,
  dzl_toy_valid z s pp -> s = offered ++ rest -> offered <> [] -> (0 < ao)%nat ->
  let '(z', cn, out, rc, st) := dzz_toy_decode z offered ao in
  (cn <= length offered)%nat /\ (length out <= ao)%nat /\ rc = c_dz_SZ_OK /\ exists p', pp = out ++ p' /\
  ((st <> c_dz_LZMA_STATUS_FINISHED_WITH_MARK /\ dzl_toy_valid z' (skipn cn s) p' /\ (0 < cn + length out)%nat /\ skipn cn s <> []) \/
   (st = c_dz_LZMA_STATUS_FINISHED_WITH_MARK /\ skipn cn s = [] /\ p' = [])).
Proof.
  intros z s pp offered rest ao Hv Hs Hne Hao. unfold dzz_toy_decode.
  pose proof (dzl_toy_contract z s pp offered rest ao Hv Hs Hne Hao) as H.
  destruct (dzl_toy_inflate z offered ao) as [[[z' cn] out] rc]. destruct H as (H1 & H2 & p' & H3 & H4).
  split; [exact H1|]. split; [exact H2|]. split; [reflexivity|]. exists p'. split; [exact H3|].
  destruct H4 as [(Hrc & H5)|(Hrc & H5)]; subst rc; [left|right]; (split; [|exact H5]); [discriminate|reflexivity].
Qed.

Lemma dzz_toy_contract0 : forall s pp ao,
  dzl_toy_valid TyH s pp ->
  let '(z', cn, out, rc, st) := dzz_toy_decode TyH [] ao in
  out = [] /\ rc = c_dz_SZ_OK /\ st <> c_dz_LZMA_STATUS_FINISHED_WITH_MARK /\ dzl_toy_valid z' s pp.
Proof. intros s pp ao Hv. cbn. repeat split; auto. discriminate. Qed.

Definition dzz_ex_hdr : bytes := [93;0;0;128;0;255;255;255;255;255;255;255;255]%N.
Definition dzz_ex_p : bytes := [1;1;1;2;3;3;7]%N.
Definition dzz_ex_s : bytes := dzl_toy_enc dzz_ex_p.
Definition dzz_ex_run (c : dz_cfg) (chunks : list bytes) : bytes :=
  dz_devs (tx_w _ (fst (dz_run dzl_toy (lzask dzl_toy TyH dzz_toy_decode) c (Some s_lzma) (map (fun ch => (0, Some ch)) chunks ++ [(0, None)]) TyDone))).

(* the theorem applies: cuts inside the header, at its end, and in the stream *)
Example dzz_lzma_example :
  dzz_ex_run (dzl_ex_cfg 200 2) [firstn 5 dzz_ex_hdr; skipn 5 dzz_ex_hdr; firstn 4 dzz_ex_s; skipn 4 dzz_ex_s] = dzz_ex_p.
Proof.
  unfold dzz_ex_run.
  apply (dzz_lzma_faithful dzl_toy TyH dzz_toy_decode dzl_toy_valid dzz_toy_contract dzz_toy_contract0 (dzl_ex_cfg 200 2) (0, 0))
    with (s := dzz_ex_s) (hdr := dzz_ex_hdr); try reflexivity.
  all: try (apply Z.leb_le; vm_compute; reflexivity); try (apply Z.ltb_lt; vm_compute; reflexivity); try discriminate.
  - unfold dzz_chunks_ok.
    repeat (apply Forall_cons; [split; [discriminate|split; [apply Z.leb_le; vm_compute; reflexivity|apply Nat.ltb_lt; vm_compute; reflexivity]]|]).
    apply Forall_nil.
Qed.

(* whole, bytewise, every single cut and every pair of cuts of header ++ stream *)
Example dzz_lzma_all_cuts :
  (let st := dzz_ex_hdr ++ dzz_ex_s in
   forallb (fun chunks => dzl_beq (dzz_ex_run (dzl_ex_cfg 200 2) chunks) dzz_ex_p)
           ([st] :: dzl_bytewise st :: dzl_cuts1 st ++ dzl_cuts2 st)) = true.
Proof. vm_cast_no_check (eq_refl true). Qed.

(* the premise on lzma_memlimit is needed: with the limit 0 the layer is created in passthrough mode and the coded bytes come out *)
Example dzz_lzma_memlimit_needed :
  let c0 := mk_dz_cfg true 100000000 2 1 0 100000 200 (fun _ => (0, 0)) (fun _ => c_HTP_OK) in
  dzz_ex_run c0 [dzz_ex_hdr ++ dzz_ex_s] = dzz_ex_hdr ++ dzz_ex_s.
Proof. vm_compute. reflexivity. Qed.

Print Assumptions dzz_lzma_faithful.
