(* C16: PSegRun.v, Section Run (what follows the empty line of a request without body) over the generalised world of PTunSeg.v. *)
Require Import Htp.Model.Base Htp.Model.MBstr Htp.Model.MConnTypes Htp.Model.MTxCommon Htp.Model.MReqLine Htp.Model.MReqUri Htp.Model.MTxReq.
Require Import Htp.Model.MReq Htp.Model.MRes Htp.Model.MConnp.
Require Import Htp.Spec.SWire Htp.Proof.PWire Htp.Proof.PWireHdr Htp.Proof.PWireBlock Htp.Proof.PWireConn Htp.Proof.PWireExch.
Require Import Htp.Proof.PWireRun Htp.Proof.PWirePres Htp.Proof.PWireGlue Htp.Proof.PSeg Htp.Proof.PSegLine Htp.Proof.PSegHdr Htp.Proof.PSegGen Htp.Proof.PSegRun.
Require Import Htp.Proof.PSegFold Htp.Proof.PSegPipe Htp.Proof.PTunBase Htp.Proof.PTunSeg Htp.Proof.PTunSegLine Htp.Proof.PTunSegHdr Htp.Proof.PTunSegFold.

Section Run.
Variable cb : cb_oracle.
Variable g : cfg.
Hypothesis Hcb : wr_all_ok cb.
Hypothesis Hspace : g_allow_space_uri g = false.
Variables m u pr : bytes.
Variable fs : list wr_field.
Hypothesis Wl : wr_wf_request_line m u pr = true.
Hypothesis Wb : wr_block_ok fs = true.
Hypothesis Wnf : existsb (fun f => wr_same (wf_name f) wr_str_content_length || wr_same (wf_name f) wr_str_transfer_encoding) fs = false.
Hypothesis Wc : wr_eqb m wr_str_connect = false.
Context {w : tg_world}.
Notation tg_cin := (tg_cinw w).
Let k := length (gw_done w).

(* ---- after the empty line: htp_tx_state_request_headers, REQ_CONNECT_CHECK, REQ_BODY_DETERMINE lead to REQ_FINALIZE ---- *)
Lemma tg_tail_fin c c1 d rd1 : c_in_state c = REQ_HEADERS ->
  rq_state_fn cb g REQ_HEADERS c = rq_with_tx (tx_state_request_headers cb) c1 ->
  tg_cin c1 d rd1 [] None REQ_HEADERS (Some REQ_HEADERS) (Some H_REQUEST_HEADER_DATA) (wr_block_tx fs (sg_th0 g k m u pr)) ->
  exists c5 fl, (forall f, rq_loop cb g (3 + f) false c = rq_loop cb g f false c5) /\
    tg_cin c5 d rd1 [] None REQ_FINALIZE (Some REQ_FINALIZE) None (sg_tpre g k m u pr fs fl).
Proof.
  intros Es Ef H1. destruct (sg_tb_facts g Hspace k m u pr fs Wl Wb Wnf) as (_ & _ & Pg & _ & (nu & Pu) & _ & _). cbv zeta in *.
  set (tb := wr_block_tx fs (sg_th0 g k m u pr)) in *.
  unfold rq_with_tx in Ef. rewrite (gi_tx _ _ _ _ _ _ _ _ _ H1) in Ef.
  destruct (tg_state_request_headers cb Hcb c1 d _ _ tb nu H1 Pg Pu) as (c2 & fl & E2 & H2). rewrite E2 in Ef.
  fold (sg_tpre g k m u pr fs fl) in H2.
  destruct (sg_tpre_facts g Hspace k m u pr fs Wl Wb Wnf fl Wc) as (M6 & TC & _).
  rewrite <- Es in Ef.
  destruct (tg_iter_ok cb g c c2 d _ _ _ _ _ _ _ Ef H2) as (c3 & E3 & H3); [discriminate|].
  destruct (tg_pass_connect_check cb g c3 d _ _ _ _ _ H3 M6) as (c4 & E4 & H4).
  destruct (tg_pass_body_determine cb g c4 d _ _ _ _ _ H4 TC) as (c5 & E5 & H5).
  exists c5, fl. split; [|exact H5]. intros f. change (3 + f)%nat with (S (S (S f))).
  rewrite (sg_rq_loop_inr cb g _ _ _ E3), (sg_rq_loop_inr cb g _ _ _ E4), (sg_rq_loop_inr cb g _ _ _ E5). reflexivity.
Qed.

(* ... and, when the chunk ends there, REQ_FINALIZE completes the request and REQ_IDLE returns HTP_STREAM_DATA *)
Lemma tg_tail c c1 d f : c_in_state c = REQ_HEADERS ->
  rq_state_fn cb g REQ_HEADERS c = rq_with_tx (tx_state_request_headers cb) c1 ->
  tg_cin c1 d (length d) [] None REQ_HEADERS (Some REQ_HEADERS) (Some H_REQUEST_HEADER_DATA) (wr_block_tx fs (sg_th0 g k m u pr)) ->
  exists cF rc fl, rq_loop cb g (5 + f) false c = (cF, rc) /\ c_txs cF = gw_done w ++ [Some (sg_tfin g k m u pr fs fl)].
Proof.
  intros Es Ef H1. destruct (tg_tail_fin c c1 d _ Es Ef H1) as (c5 & fl & St & H5).
  destruct (sg_tpre_facts g Hspace k m u pr fs Wl Wb Wnf fl Wc) as (_ & TC & Pg6 & Rp6 & Z6).
  change (5 + f)%nat with (3 + (2 + f))%nat. rewrite St. change (2 + f)%nat with (S (S f)).
  destruct (tg_pass_finalize cb g Hcb c5 d _ _ H5 TC Pg6 Rp6 Z6) as (c6 & E6 & H6). rewrite (sg_rq_loop_inr cb g _ _ _ E6).
  rewrite (sg_rq_loop_inl cb g _ _ _ (tg_pass_idle_end cb g c6 d _ _ _ _ H6)).
  eexists _, _, fl. split; [reflexivity|]. change (c_txs (c6 <| c_in_status := c_HTP_STREAM_DATA |>)) with (c_txs c6). apply (gl_txs _ _ _ _ _ _ _ H6).
Qed.
End Run.
