(* C03, request direction: REQ_IDLE, REQ_LINE cut anywhere, REQ_PROTOCOL. *)
Require Import Htp.Model.Base Htp.Model.MBstr Htp.Model.MConnTypes Htp.Model.MTxCommon Htp.Model.MReqLine Htp.Model.MReqUri Htp.Model.MTxReq.
Require Import Htp.Model.MReq Htp.Model.MRes Htp.Model.MConnp.
Require Import Htp.Spec.SWire Htp.Proof.PWire Htp.Proof.PWireHdr Htp.Proof.PWireBlock Htp.Proof.PWireConn Htp.Proof.PWireExch.
Require Import Htp.Proof.PWireRun Htp.Proof.PWirePres Htp.Proof.PWireGlue Htp.Proof.PSeg.

Definition sg_no_lf (s : bytes) : bool := forallb (fun b => negb (b =? LF)%N) s.

Section Line.
Variable cb : cb_oracle.
Variable g : cfg.
Hypothesis Hcb : wr_all_ok cb.
Hypothesis Hspace : g_allow_space_uri g = false.

(* the invariant of PWireGlue (status OPEN, nothing buffered) is an instance *)
Lemma sg_cin_of_inv c d rd cs st prev rh t : wr_inv c d rd cs st prev rh t -> (cs <= rd)%nat -> (rd <= length d)%nat ->
  sg_cin c d rd (firstn (rd - cs) (skipn cs d)) None st prev rh t.
Proof.
  intros [Hst Hs Hp Hd Hl Hr Hc Hb Hh Hrh Hrc Ht Htxs Hshift] H1 H2.
  constructor; try assumption; try (left; assumption); try lia.
  rewrite Hb, Hc. reflexivity.
Qed.

(* ---- REQ_LINE: scanning for the LF ---- *)
Lemma sg_line_scan_nolf d hdr prev rh t : forall u c rd p n,
  sg_cin c d rd p hdr REQ_LINE prev rh t -> skipn rd d = u -> sg_no_lf u = true -> (length u <= n)%nat ->
  exists c', REQ_LINE_loop cb g n c = (ST_DATA_BUFFER, c') /\ sg_cin c' d (length d) (p ++ u) hdr REQ_LINE prev rh t.
Proof.
  induction u as [|b u IH]; intros c rd p n H Hu Hnl Hn.
  - pose proof (sg_skipn_nil d rd Hu) as L. pose proof H as [A1 A2 A3 A4 A5 A6 A7 A8 A9 A10 A11 A12 A13 A14 A15].
    assert (E : rd = length d) by lia.
    rewrite wr_line_loop_eq, (sg_peek c d A4 A5). cbv zeta.
    match goal with |- context [rq_copy_byte ?x] => set (c0 := x) end.
    change (c_in_status c0) with (c_in_status c). rewrite (sg_live_closed _ A1). cbn [andb].
    unfold rq_copy_byte, rq_at_end. change (k_len (c_in c0)) with (k_len (c_in c)). change (k_read (c_in c0)) with (k_read (c_in c)).
    rewrite A5, A6, E, Nat.leb_refl. exists c0. split; [reflexivity|]. rewrite app_nil_r. unfold c0. apply sg_cin_next. rewrite <- E. exact H.
  - destruct (sg_skipn_cons d rd b u Hu) as (Hnth & Hu' & Hlt). pose proof H as [A1 A2 A3 A4 A5 A6 A7 A8 A9 A10 A11 A12 A13 A14 A15].
    cbn [sg_no_lf forallb] in Hnl. apply andb_prop in Hnl. destruct Hnl as [Hb Hnl]. apply negb_true_iff in Hb.
    cbn [length] in Hn. destruct n as [|n]; [lia|].
    rewrite wr_line_loop_eq, (sg_peek c d A4 A5). cbv zeta. rewrite A6, Hnth.
    match goal with |- context [rq_copy_byte ?x] => set (c0 := x) end.
    change (c_in_status c0) with (c_in_status c). rewrite (sg_live_closed _ A1). cbn [andb].
    assert (Hnth0 : nth_error d (k_read (c_in c0)) = Some b) by (change (k_read (c_in c0)) with (k_read (c_in c)); rewrite A6; exact Hnth).
    rewrite (wr_copy_byte c0 d b A4 A5 Hnth0).
    assert (Hnl' : rq_next_is (rq_set_in (wr_kadv b) c0) LF = false) by (unfold rq_next_is; cbn; exact Hb). rewrite Hnl'.
    assert (H0 : sg_cin c0 d rd p hdr REQ_LINE prev rh t) by (unfold c0; apply sg_cin_next; exact H).
    destruct (IH (rq_set_in (wr_kadv b) c0) (S rd) (p ++ [b]) n (sg_cin_adv _ _ _ _ _ _ _ _ _ b H0 Hnth) Hu' Hnl ltac:(lia)) as (c' & E & H').
    exists c'. split; [exact E|]. rewrite <- app_assoc in H'. exact H'.
Qed.
Lemma sg_line_scan_lf d hdr prev rh t u2 : forall u1 c rd p n,
  sg_cin c d rd p hdr REQ_LINE prev rh t -> skipn rd d = u1 ++ LF :: u2 -> sg_no_lf u1 = true -> (length u1 <= n)%nat ->
  exists c', REQ_LINE_loop cb g n c = REQ_LINE_complete cb g c' /\
             sg_cin c' d (rd + length u1 + 1) (p ++ u1 ++ [LF]) hdr REQ_LINE prev rh t /\ skipn (rd + length u1 + 1) d = u2.
Proof.
  induction u1 as [|b u1 IH]; intros c rd p n H Hu Hnl Hn.
  - cbn [app] in Hu. destruct (sg_skipn_cons d rd LF u2 Hu) as (Hnth & Hu' & Hlt). pose proof H as [A1 A2 A3 A4 A5 A6 A7 A8 A9 A10 A11 A12 A13 A14 A15].
    rewrite wr_line_loop_eq, (sg_peek c d A4 A5). cbv zeta. rewrite A6, Hnth.
    match goal with |- context [rq_copy_byte ?x] => set (c0 := x) end.
    change (c_in_status c0) with (c_in_status c). rewrite (sg_live_closed _ A1). cbn [andb].
    assert (Hnth0 : nth_error d (k_read (c_in c0)) = Some LF) by (change (k_read (c_in c0)) with (k_read (c_in c)); rewrite A6; exact Hnth).
    rewrite (wr_copy_byte c0 d LF A4 A5 Hnth0).
    assert (Hnl' : rq_next_is (rq_set_in (wr_kadv LF) c0) LF = true) by reflexivity. rewrite Hnl'.
    assert (H0 : sg_cin c0 d rd p hdr REQ_LINE prev rh t) by (unfold c0; apply sg_cin_next; exact H).
    eexists. split; [reflexivity|]. cbn [length app]. replace (rd + 0 + 1)%nat with (S rd) by lia.
    split; [apply sg_cin_adv; assumption|exact Hu'].
  - cbn [app] in Hu. destruct (sg_skipn_cons d rd b _ Hu) as (Hnth & Hu' & Hlt). pose proof H as [A1 A2 A3 A4 A5 A6 A7 A8 A9 A10 A11 A12 A13 A14 A15].
    cbn [sg_no_lf forallb] in Hnl. apply andb_prop in Hnl. destruct Hnl as [Hb Hnl]. apply negb_true_iff in Hb.
    cbn [length] in Hn. destruct n as [|n]; [lia|].
    rewrite wr_line_loop_eq, (sg_peek c d A4 A5). cbv zeta. rewrite A6, Hnth.
    match goal with |- context [rq_copy_byte ?x] => set (c0 := x) end.
    change (c_in_status c0) with (c_in_status c). rewrite (sg_live_closed _ A1). cbn [andb].
    assert (Hnth0 : nth_error d (k_read (c_in c0)) = Some b) by (change (k_read (c_in c0)) with (k_read (c_in c)); rewrite A6; exact Hnth).
    rewrite (wr_copy_byte c0 d b A4 A5 Hnth0).
    assert (Hnl' : rq_next_is (rq_set_in (wr_kadv b) c0) LF = false) by (unfold rq_next_is; cbn; exact Hb). rewrite Hnl'.
    assert (H0 : sg_cin c0 d rd p hdr REQ_LINE prev rh t) by (unfold c0; apply sg_cin_next; exact H).
    destruct (IH (rq_set_in (wr_kadv b) c0) (S rd) (p ++ [b]) n (sg_cin_adv _ _ _ _ _ _ _ _ _ b H0 Hnth) Hu' Hnl ltac:(lia)) as (c' & E & H' & Hr').
    exists c'. split; [exact E|]. cbn [length]. replace (rd + S (length u1) + 1)%nat with (S rd + length u1 + 1)%nat by lia.
    split; [|exact Hr']. rewrite <- app_assoc in H'. exact H'.
Qed.

(* ---- the request line is complete: htp_connp_REQ_LINE_complete on the assembled line ---- *)
Definition sg_tx_line (t : tx) (line : bytes) : tx :=
  let t2 := htp_parse_request_line g (t <| t_request_line := Some line |>) in
  match rq_uri_pipeline_opt g (t_request_method_number t2 =? c_HTP_M_CONNECT)%Z (t_request_uri t2) t2 with Some t3 => t3 | None => t2 end.

Lemma sg_tx_line_facts t m u p : wr_wf_request_line m u p = true -> t_is_protocol_0_9 t = false ->
  let t2 := htp_parse_request_line g (t <| t_request_line := Some (wr_ser_request_line m u p) |>) in
  let t3 := sg_tx_line t (wr_ser_request_line m u p) in
  rq_uri_pipeline_opt g (t_request_method_number t2 =? c_HTP_M_CONNECT)%Z (t_request_uri t2) t2 = Some t3 /\
    wr_line_fields t3 m u p /\ t_request_headers t3 = t_request_headers t /\ t_req_header_repetitions t3 = t_req_header_repetitions t /\
    t_request_progress t3 = t_request_progress t /\ t_response_progress t3 = t_response_progress t /\ (exists nu, t_parsed_uri t3 = Some nu).
Proof.
  intros W H09 t2 t3. set (line := wr_ser_request_line m u p) in *.
  assert (E2 : t2 = (t <| t_request_line := Some line |>) <| t_request_method := Some m |> <| t_request_method_number := htp_convert_method_to_number m |>
                 <| t_request_uri := Some u |> <| t_request_protocol := Some p |> <| t_request_protocol_number := wr_protocol_number p |>).
  { unfold t2. apply (wr_reqline_tx g _ m u p Hspace W). reflexivity. }
  assert (U2 : t_request_uri t2 = Some u) by (rewrite E2; reflexivity).
  destruct (wr_keep_uri_pipeline g (t_request_method_number t2 =? c_HTP_M_CONNECT)%Z u t2) as (t3' & E3 & K3 & P3).
  assert (Et : t3 = t3') by (unfold t3, sg_tx_line; fold line; fold t2; rewrite U2, E3; reflexivity).
  rewrite Et, U2. split; [exact E3|]. split.
  - apply (wr_line_fields_keep t2 t3' m u p K3). rewrite E2. repeat split. exact H09.
  - unfold wr_keep in K3. decompose [and] K3. rewrite E2 in *. cbn in *. repeat split; try congruence.
Qed.

Lemma sg_line_complete c d rd prev t m u p : wr_wf_request_line m u p = true -> t_is_protocol_0_9 t = false ->
  sg_cin c d rd (wr_ser_request_line m u p ++ [CR; LF]) None REQ_LINE prev None t ->
  (length (wr_ser_request_line m u p) + 2 <= g_field_limit_hard g)%nat ->
  exists c', REQ_LINE_complete cb g c = (ST_OK, c') /\
             sg_cin c' d rd [] None REQ_PROTOCOL prev None (sg_tx_line t (wr_ser_request_line m u p)).
Proof.
  intros W H09 H Hlim. set (line := wr_ser_request_line m u p) in *.
  destruct (wr_reqline_bytes m u p W) as (Hnolf & Hplain & (m0 & y & l & Esh & Sp0)). fold line in Hnolf, Hplain, Esh.
  unfold REQ_LINE_complete.
  destruct (sg_consolidate g c d rd _ None _ _ _ t H) as (c1 & E1 & H1); [rewrite app_length; cbn [length sg_olist]; lia|]. rewrite E1.
  assert (Ne : exists a r, line ++ [CR; LF] = a :: r) by (rewrite Esh; cbn [app]; eexists _, _; reflexivity).
  destruct Ne as (a & r & Ene). rewrite Ene. rewrite <- Ene.
  unfold htp_is_line_ignorable. rewrite Esh. cbn [app]. rewrite (wr_line_not_terminator _ m0 y l Sp0).
  change (m0 :: y :: l ++ [CR; LF]) with ((m0 :: y :: l) ++ [CR; LF]). rewrite <- Esh.
  rewrite (wr_chomp_line line [CR; LF] eq_refl Hplain).
  rewrite (sg_tx_upd c1 d rd _ _ _ _ _ t _ H1).
  set (t2 := htp_parse_request_line g (t <| t_request_line := Some line |>)).
  destruct (sg_tx_line_facts t m u p W H09) as (E3 & _). cbv zeta in E3. fold line in E3. fold t2 in E3.
  set (t3 := sg_tx_line t line) in *.
  set (c2 := c1 <| c_txs := [Some t2] |>).
  assert (H2 : sg_cin c2 d rd (line ++ [CR; LF]) None REQ_LINE prev None t2) by (eapply sg_cin_txs; exact H1).
  unfold rq_with_tx. rewrite (ci_tx _ _ _ _ _ _ _ _ _ H2). unfold tx_state_request_line, tx_get. rewrite (sg_cin_slot _ _ _ _ _ _ _ _ _ H2).
  rewrite E3. rewrite (sg_tx_put c2 d rd _ _ _ _ _ t2 t3 H2).
  rewrite !(wr_run_hook cb Hcb).
  eexists. split; [reflexivity|].
  eapply sg_cin_clear. eapply sg_cin_state. apply sg_cin_hook. apply sg_cin_hook. eapply sg_cin_txs. exact H2.
Qed.

(* ---- REQ_IDLE on the first chunk: the transaction is created ---- *)
Lemma sg_pass_idle c d : wr_idle c d -> d <> [] ->
  exists c', rq_iter cb g false c = inr c' /\ sg_cin c' d 0 [] None REQ_LINE (Some REQ_LINE) None wr_t1.
Proof.
  intros Hi Hne. destruct (wr_pass_idle cb g Hcb c d Hi Hne) as (c' & E & Inv). exists c'. split; [exact E|].
  apply (sg_cin_of_inv c' d 0 0 _ _ _ _ Inv); lia.
Qed.

(* ---- the pass through REQ_LINE that sees the LF ---- *)
Lemma sg_pass_line c d p u1 u2 t m u pr : wr_wf_request_line m u pr = true -> t_is_protocol_0_9 t = false ->
  sg_cin c d 0 p None REQ_LINE (Some REQ_LINE) None t -> d = u1 ++ LF :: u2 -> sg_no_lf u1 = true ->
  p ++ u1 ++ [LF] = wr_ser_request_line m u pr ++ [CR; LF] ->
  (length (wr_ser_request_line m u pr) + 2 <= g_field_limit_hard g)%nat ->
  exists c', rq_iter cb g false c = inr c' /\
    sg_cin c' d (length u1 + 1) [] None REQ_PROTOCOL (Some REQ_PROTOCOL) None (sg_tx_line t (wr_ser_request_line m u pr)) /\
    skipn (length u1 + 1) d = u2.
Proof.
  intros W H09 H Ed Hnl Ep Hlim.
  assert (Es : c_in_state c = REQ_LINE) by apply (ci_state _ _ _ _ _ _ _ _ _ H).
  assert (Ef : rq_state_fn cb g (c_in_state c) c = REQ_LINE_fn cb g c) by (rewrite Es; reflexivity).
  unfold REQ_LINE_fn in Ef. rewrite (ci_len _ _ _ _ _ _ _ _ _ H), (ci_read _ _ _ _ _ _ _ _ _ H), Nat.sub_0_r in Ef.
  destruct (sg_line_scan_lf d None (Some REQ_LINE) None t u2 u1 c 0 p (length d) H) as (c1 & E1 & H1 & Hr1); [cbn [skipn]; exact Ed|exact Hnl|rewrite Ed, app_length; lia|].
  rewrite E1 in Ef. cbn [Nat.add] in H1, Hr1. rewrite Ep in H1.
  destruct (sg_line_complete c1 d _ _ t m u pr W H09 H1 Hlim) as (c2 & E2 & H2). rewrite E2 in Ef.
  destruct (sg_iter_ok cb g c c2 d _ _ _ _ _ _ _ Ef H2) as (c3 & E3 & H3); [discriminate|].
  exists c3. split; [exact E3|]. split; [exact H3|exact Hr1].
Qed.

(* ---- REQ_PROTOCOL, and the state change into REQ_HEADERS (the raw-header receiver is installed) ---- *)
Lemma sg_pass_protocol c d rd t : sg_cin c d rd [] None REQ_PROTOCOL (Some REQ_PROTOCOL) None t -> t_is_protocol_0_9 t = false ->
  exists c', rq_iter cb g false c = inr c' /\
    sg_cin c' d rd [] None REQ_HEADERS (Some REQ_HEADERS) (Some H_REQUEST_HEADER_DATA) (t <| t_request_progress := c_HTP_REQUEST_HEADERS |>).
Proof.
  intros H H09. pose proof (sg_cin_slot _ _ _ _ _ _ _ _ _ H) as Hsl. pose proof H as [A1 A2 A3 A4 A5 A6 A7 A8 A9 A10 A11 A12 A13 A14 A15].
  unfold rq_iter. rewrite A2. cbn [rq_state_fn]. unfold REQ_PROTOCOL_fn, rq_tx, in_txi, tx_get. rewrite A13, Hsl, H09. cbn [negb].
  unfold rq_to_headers.
  assert (H1 : sg_cin (c <| c_in_state := REQ_HEADERS |>) d rd [] None REQ_HEADERS (Some REQ_PROTOCOL) None t) by (eapply sg_cin_state; exact H).
  rewrite (sg_tx_upd _ d rd _ _ _ _ _ t _ H1).
  set (t' := t <| t_request_progress := c_HTP_REQUEST_HEADERS |>).
  set (c1 := c <| c_in_state := REQ_HEADERS |> <| c_txs := [Some t'] |>).
  assert (H2 : sg_cin c1 d rd [] None REQ_HEADERS (Some REQ_PROTOCOL) None t') by (eapply sg_cin_txs; exact H1).
  change (c_in_status c1) with (c_in_status c). rewrite (sg_live_tunnel _ A1).
  unfold req_handle_state_change. change (c_in_state_previous c1) with (c_in_state_previous c). rewrite A3.
  change (c_in_state c1) with REQ_HEADERS. cbn [req_state_eqb]. change (c_in_tx c1) with (c_in_tx c). rewrite A13.
  unfold rq_tx, in_txi, tx_get. change (c_in_tx c1) with (c_in_tx c). rewrite A13, (sg_cin_slot _ _ _ _ _ _ _ _ _ H2).
  change (t_request_progress t') with c_HTP_REQUEST_HEADERS. change ((c_HTP_REQUEST_HEADERS =? c_HTP_REQUEST_HEADERS)%Z) with true. cbv iota.
  unfold req_receiver_set, req_receiver_finalize_clear. change (k_receiver_hook (c_in c1)) with (k_receiver_hook (c_in c)). rewrite A11.
  eexists. split; [reflexivity|].
  clearbody c1. destruct H2 as [B1 B2 B3 B4 B5 B6 B7 B8 B9 B10 B11 B12 B13 B14 B15].
  constructor; try assumption; try reflexivity; cbn; rewrite ?B2, ?B6; try reflexivity; lia.
Qed.
End Line.
