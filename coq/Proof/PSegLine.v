(* C03, request direction: REQ_IDLE, REQ_LINE cut anywhere, REQ_PROTOCOL. *)
Require Import Htp.Model.Base Htp.Model.MBstr Htp.Model.MConnTypes Htp.Model.MTxCommon Htp.Model.MReqLine Htp.Model.MReqUri Htp.Model.MTxReq.
Require Import Htp.Model.MReq Htp.Model.MRes Htp.Model.MConnp.
Require Import Htp.Spec.SWire Htp.Proof.PWire Htp.Proof.PWireHdr Htp.Proof.PWireBlock Htp.Proof.PWireConn Htp.Proof.PWireExch.
Require Import Htp.Proof.PWireRun Htp.Proof.PWirePres Htp.Proof.PWireGlue Htp.Proof.PSeg.

Definition sg_no_lf (s : bytes) : bool := forallb (fun b => negb (b =? LF)%N) s.

Section Line.
Variable cb : cb_oracle.
Variable g : cfg.
Hypothesis Hcb : wr_all_ok cb.
Hypothesis Hspace : g_allow_space_uri g = false.
Context {w : sg_world}.
Notation sg_cin := (sg_cinw w).
Notation sg_mid := (sg_midw w).

(* ---- REQ_LINE: scanning for the LF ---- *)
Lemma sg_line_scan_nolf d hdr prev rh t : forall u c rd p n,
  sg_cin c d rd p hdr REQ_LINE prev rh t -> skipn rd d = u -> sg_no_lf u = true -> (length u <= n)%nat ->
  exists c', REQ_LINE_loop cb g n c = (ST_DATA_BUFFER, c') /\ sg_cin c' d (length d) (p ++ u) hdr REQ_LINE prev rh t.
Proof.
  induction u as [|b u IH]; intros c rd p n H Hu Hnl Hn.
  - pose proof (sg_skipn_nil d rd Hu) as L. pose proof H as [A1 A2 A3 A4 A5 A6 A7 A8 A9 A10 A11 A12 A13 A14 A15 A16 A17].
    assert (E : rd = length d) by lia.
    rewrite wr_line_loop_eq, (sg_peek c d A4 A5). cbv zeta.
    match goal with |- context [rq_copy_byte ?x] => set (c0 := x) end.
    change (c_in_status c0) with (c_in_status c). rewrite (sg_live_closed _ A1). cbn [andb].
    unfold rq_copy_byte, rq_at_end. change (k_len (c_in c0)) with (k_len (c_in c)). change (k_read (c_in c0)) with (k_read (c_in c)).
    rewrite A5, A6, E, Nat.leb_refl. exists c0. split; [reflexivity|]. rewrite app_nil_r. unfold c0. apply sg_cin_next. rewrite <- E. exact H.
  - destruct (sg_skipn_cons d rd b u Hu) as (Hnth & Hu' & Hlt). pose proof H as [A1 A2 A3 A4 A5 A6 A7 A8 A9 A10 A11 A12 A13 A14 A15 A16 A17].
    cbn [sg_no_lf forallb] in Hnl. apply andb_prop in Hnl. destruct Hnl as [Hb Hnl]. apply negb_true_iff in Hb.
    cbn [length] in Hn. destruct n as [|n]; [lia|].
    rewrite wr_line_loop_eq, (sg_peek c d A4 A5). cbv zeta. rewrite A6, Hnth.
    match goal with |- context [rq_copy_byte ?x] => set (c0 := x) end.
    change (c_in_status c0) with (c_in_status c). rewrite (sg_live_closed _ A1). cbn [andb].
    assert (Hnth0 : nth_error d (k_read (c_in c0)) = Some b) by (change (k_read (c_in c0)) with (k_read (c_in c)); rewrite A6; exact Hnth).
    rewrite (wr_copy_byte c0 d b A4 A5 Hnth0).
    assert (Hnl' : rq_next_is (rq_set_in (wr_kadv b) c0) LF = false) by (unfold rq_next_is; cbn; exact Hb). rewrite Hnl'.
    assert (H0 : sg_cin c0 d rd p hdr REQ_LINE prev rh t) by (unfold c0; apply sg_cin_next; exact H).
    destruct (IH (rq_set_in (wr_kadv b) c0) (S rd) (p ++ [b]) n (sg_cin_adv _ _ _ _ _ _ _ _ _ b H0 Hnth) Hu' Hnl ltac:(lia)) as (c' & E & H').
    exists c'. split; [exact E|]. rewrite <- app_assoc in H'. exact H'.
Qed.
Lemma sg_line_scan_lf d hdr prev rh t u2 : forall u1 c rd p n,
  sg_cin c d rd p hdr REQ_LINE prev rh t -> skipn rd d = u1 ++ LF :: u2 -> sg_no_lf u1 = true -> (length u1 <= n)%nat ->
  exists c', REQ_LINE_loop cb g n c = REQ_LINE_complete cb g c' /\
             sg_cin c' d (rd + length u1 + 1) (p ++ u1 ++ [LF]) hdr REQ_LINE prev rh t /\ skipn (rd + length u1 + 1) d = u2.
Proof.
  induction u1 as [|b u1 IH]; intros c rd p n H Hu Hnl Hn.
  - cbn [app] in Hu. destruct (sg_skipn_cons d rd LF u2 Hu) as (Hnth & Hu' & Hlt). pose proof H as [A1 A2 A3 A4 A5 A6 A7 A8 A9 A10 A11 A12 A13 A14 A15 A16 A17].
    rewrite wr_line_loop_eq, (sg_peek c d A4 A5). cbv zeta. rewrite A6, Hnth.
    match goal with |- context [rq_copy_byte ?x] => set (c0 := x) end.
    change (c_in_status c0) with (c_in_status c). rewrite (sg_live_closed _ A1). cbn [andb].
    assert (Hnth0 : nth_error d (k_read (c_in c0)) = Some LF) by (change (k_read (c_in c0)) with (k_read (c_in c)); rewrite A6; exact Hnth).
    rewrite (wr_copy_byte c0 d LF A4 A5 Hnth0).
    assert (Hnl' : rq_next_is (rq_set_in (wr_kadv LF) c0) LF = true) by reflexivity. rewrite Hnl'.
    assert (H0 : sg_cin c0 d rd p hdr REQ_LINE prev rh t) by (unfold c0; apply sg_cin_next; exact H).
    eexists. split; [reflexivity|]. cbn [length app]. replace (rd + 0 + 1)%nat with (S rd) by lia.
    split; [apply sg_cin_adv; assumption|exact Hu'].
  - cbn [app] in Hu. destruct (sg_skipn_cons d rd b _ Hu) as (Hnth & Hu' & Hlt). pose proof H as [A1 A2 A3 A4 A5 A6 A7 A8 A9 A10 A11 A12 A13 A14 A15 A16 A17].
    cbn [sg_no_lf forallb] in Hnl. apply andb_prop in Hnl. destruct Hnl as [Hb Hnl]. apply negb_true_iff in Hb.
    cbn [length] in Hn. destruct n as [|n]; [lia|].
    rewrite wr_line_loop_eq, (sg_peek c d A4 A5). cbv zeta. rewrite A6, Hnth.
    match goal with |- context [rq_copy_byte ?x] => set (c0 := x) end.
    change (c_in_status c0) with (c_in_status c). rewrite (sg_live_closed _ A1). cbn [andb].
    assert (Hnth0 : nth_error d (k_read (c_in c0)) = Some b) by (change (k_read (c_in c0)) with (k_read (c_in c)); rewrite A6; exact Hnth).
    rewrite (wr_copy_byte c0 d b A4 A5 Hnth0).
    assert (Hnl' : rq_next_is (rq_set_in (wr_kadv b) c0) LF = false) by (unfold rq_next_is; cbn; exact Hb). rewrite Hnl'.
    assert (H0 : sg_cin c0 d rd p hdr REQ_LINE prev rh t) by (unfold c0; apply sg_cin_next; exact H).
    destruct (IH (rq_set_in (wr_kadv b) c0) (S rd) (p ++ [b]) n (sg_cin_adv _ _ _ _ _ _ _ _ _ b H0 Hnth) Hu' Hnl ltac:(lia)) as (c' & E & H' & Hr').
    exists c'. split; [exact E|]. cbn [length]. replace (rd + S (length u1) + 1)%nat with (S rd + length u1 + 1)%nat by lia.
    split; [|exact Hr']. rewrite <- app_assoc in H'. exact H'.
Qed.

(* ---- the request line is complete: htp_connp_REQ_LINE_complete on the assembled line ---- *)
Definition sg_tx_line (t : tx) (line : bytes) : tx :=
  let t2 := htp_parse_request_line g (t <| t_request_line := Some line |>) in
  match rq_uri_pipeline_opt g (t_request_method_number t2 =? c_HTP_M_CONNECT)%Z (t_request_uri t2) t2 with Some t3 => t3 | None => t2 end.

Lemma sg_tx_line_facts t m u p : wr_wf_request_line m u p = true -> t_is_protocol_0_9 t = false ->
  let t2 := htp_parse_request_line g (t <| t_request_line := Some (wr_ser_request_line m u p) |>) in
  let t3 := sg_tx_line t (wr_ser_request_line m u p) in
  rq_uri_pipeline_opt g (t_request_method_number t2 =? c_HTP_M_CONNECT)%Z (t_request_uri t2) t2 = Some t3 /\
    wr_line_fields t3 m u p /\ t_request_headers t3 = t_request_headers t /\ t_req_header_repetitions t3 = t_req_header_repetitions t /\
    t_request_progress t3 = t_request_progress t /\ t_response_progress t3 = t_response_progress t /\ (exists nu, t_parsed_uri t3 = Some nu).
Proof.
  intros W H09 t2 t3. set (line := wr_ser_request_line m u p) in *.
  assert (E2 : t2 = (t <| t_request_line := Some line |>) <| t_request_method := Some m |> <| t_request_method_number := htp_convert_method_to_number m |>
                 <| t_request_uri := Some u |> <| t_request_protocol := Some p |> <| t_request_protocol_number := wr_protocol_number p |>).
  { unfold t2. apply (wr_reqline_tx g _ m u p Hspace W). reflexivity. }
  assert (U2 : t_request_uri t2 = Some u) by (rewrite E2; reflexivity).
  destruct (wr_keep_uri_pipeline g (t_request_method_number t2 =? c_HTP_M_CONNECT)%Z u t2) as (t3' & E3 & K3 & P3).
  assert (Et : t3 = t3') by (unfold t3, sg_tx_line; fold line; fold t2; rewrite U2, E3; reflexivity).
  rewrite Et, U2. split; [exact E3|]. split.
  - apply (wr_line_fields_keep t2 t3' m u p K3). rewrite E2. repeat split. exact H09.
  - unfold wr_keep in K3. decompose [and] K3. rewrite E2 in *. cbn in *. repeat split; try congruence.
Qed.

Lemma sg_line_complete c d rd prev t m u p : wr_wf_request_line m u p = true -> t_is_protocol_0_9 t = false ->
  sg_cin c d rd (wr_ser_request_line m u p ++ [CR; LF]) None REQ_LINE prev None t ->
  (length (wr_ser_request_line m u p) + 2 <= g_field_limit_hard g)%nat ->
  exists c', REQ_LINE_complete cb g c = (ST_OK, c') /\
             sg_cin c' d rd [] None REQ_PROTOCOL prev None (sg_tx_line t (wr_ser_request_line m u p)).
Proof.
  intros W H09 H Hlim. set (line := wr_ser_request_line m u p) in *.
  destruct (wr_reqline_bytes m u p W) as (Hnolf & Hplain & (m0 & y & l & Esh & Sp0)). fold line in Hnolf, Hplain, Esh.
  unfold REQ_LINE_complete.
  destruct (sg_consolidate g c d rd _ None _ _ _ t H) as (c1 & E1 & H1); [rewrite app_length; cbn [length sg_olist]; lia|]. rewrite E1.
  assert (Ne : exists a r, line ++ [CR; LF] = a :: r) by (rewrite Esh; cbn [app]; eexists _, _; reflexivity).
  destruct Ne as (a & r & Ene). rewrite Ene. rewrite <- Ene.
  unfold htp_is_line_ignorable. rewrite Esh. cbn [app]. rewrite (wr_line_not_terminator _ m0 y l Sp0).
  change (m0 :: y :: l ++ [CR; LF]) with ((m0 :: y :: l) ++ [CR; LF]). rewrite <- Esh.
  rewrite (wr_chomp_line line [CR; LF] eq_refl Hplain).
  rewrite (sg_tx_upd c1 d rd _ _ _ _ _ t _ H1).
  set (t2 := htp_parse_request_line g (t <| t_request_line := Some line |>)).
  destruct (sg_tx_line_facts t m u p W H09) as (E3 & _). cbv zeta in E3. fold line in E3. fold t2 in E3.
  set (t3 := sg_tx_line t line) in *.
  set (c2 := sg_settx w t2 c1).
  assert (H2 : sg_cin c2 d rd (line ++ [CR; LF]) None REQ_LINE prev None t2) by (eapply sg_cin_txs; exact H1).
  unfold rq_with_tx. rewrite (ci_tx _ _ _ _ _ _ _ _ _ H2). unfold tx_state_request_line, tx_get. rewrite (sg_cin_slot _ _ _ _ _ _ _ _ _ H2).
  rewrite E3. rewrite (sg_tx_put c2 d rd _ _ _ _ _ t2 t3 H2).
  rewrite !(wr_run_hook cb Hcb).
  eexists. split; [reflexivity|].
  eapply sg_cin_clear. eapply sg_cin_state. apply sg_cin_hook. apply sg_cin_hook. eapply sg_cin_txs. exact H2.
Qed.

(* ---- the pass through REQ_LINE that sees the LF ---- *)
Lemma sg_pass_line c d p u1 u2 t m u pr : wr_wf_request_line m u pr = true -> t_is_protocol_0_9 t = false ->
  sg_cin c d 0 p None REQ_LINE (Some REQ_LINE) None t -> d = u1 ++ LF :: u2 -> sg_no_lf u1 = true ->
  p ++ u1 ++ [LF] = wr_ser_request_line m u pr ++ [CR; LF] ->
  (length (wr_ser_request_line m u pr) + 2 <= g_field_limit_hard g)%nat ->
  exists c', rq_iter cb g false c = inr c' /\
    sg_cin c' d (length u1 + 1) [] None REQ_PROTOCOL (Some REQ_PROTOCOL) None (sg_tx_line t (wr_ser_request_line m u pr)) /\
    skipn (length u1 + 1) d = u2.
Proof.
  intros W H09 H Ed Hnl Ep Hlim.
  assert (Es : c_in_state c = REQ_LINE) by apply (ci_state _ _ _ _ _ _ _ _ _ H).
  assert (Ef : rq_state_fn cb g (c_in_state c) c = REQ_LINE_fn cb g c) by (rewrite Es; reflexivity).
  unfold REQ_LINE_fn in Ef. rewrite (ci_len _ _ _ _ _ _ _ _ _ H), (ci_read _ _ _ _ _ _ _ _ _ H), Nat.sub_0_r in Ef.
  destruct (sg_line_scan_lf d None (Some REQ_LINE) None t u2 u1 c 0 p (length d) H) as (c1 & E1 & H1 & Hr1); [cbn [skipn]; exact Ed|exact Hnl|rewrite Ed, app_length; lia|].
  rewrite E1 in Ef. cbn [Nat.add] in H1, Hr1. rewrite Ep in H1.
  destruct (sg_line_complete c1 d _ _ t m u pr W H09 H1 Hlim) as (c2 & E2 & H2). rewrite E2 in Ef.
  destruct (sg_iter_ok cb g c c2 d _ _ _ _ _ _ _ Ef H2) as (c3 & E3 & H3); [discriminate|].
  exists c3. split; [exact E3|]. split; [exact H3|exact Hr1].
Qed.

(* ---- REQ_PROTOCOL, and the state change into REQ_HEADERS (the raw-header receiver is installed) ---- *)
Lemma sg_pass_protocol c d rd t : sg_cin c d rd [] None REQ_PROTOCOL (Some REQ_PROTOCOL) None t -> t_is_protocol_0_9 t = false ->
  exists c', rq_iter cb g false c = inr c' /\
    sg_cin c' d rd [] None REQ_HEADERS (Some REQ_HEADERS) (Some H_REQUEST_HEADER_DATA) (t <| t_request_progress := c_HTP_REQUEST_HEADERS |>).
Proof.
  intros H H09. pose proof (sg_cin_slot _ _ _ _ _ _ _ _ _ H) as Hsl. pose proof H as [A1 A2 A3 A4 A5 A6 A7 A8 A9 A10 A11 A12 A13 A14 A15 A16 A17].
  unfold rq_iter. rewrite A2. cbn [rq_state_fn]. unfold REQ_PROTOCOL_fn, rq_tx, in_txi, tx_get. rewrite A13, Hsl, H09. cbn [negb].
  unfold rq_to_headers.
  assert (H1 : sg_cin (c <| c_in_state := REQ_HEADERS |>) d rd [] None REQ_HEADERS (Some REQ_PROTOCOL) None t) by (eapply sg_cin_state; exact H).
  rewrite (sg_tx_upd _ d rd _ _ _ _ _ t _ H1).
  set (t' := t <| t_request_progress := c_HTP_REQUEST_HEADERS |>).
  set (c1 := sg_settx w t' (c <| c_in_state := REQ_HEADERS |>)).
  assert (H2 : sg_cin c1 d rd [] None REQ_HEADERS (Some REQ_PROTOCOL) None t') by (eapply sg_cin_txs; exact H1).
  change (c_in_status c1) with (c_in_status c). rewrite (sg_live_tunnel _ A1).
  unfold req_handle_state_change. change (c_in_state_previous c1) with (c_in_state_previous c). rewrite A3.
  change (c_in_state c1) with REQ_HEADERS. cbn [req_state_eqb]. change (c_in_tx c1) with (c_in_tx c). rewrite A13.
  unfold rq_tx, in_txi, tx_get. change (c_in_tx c1) with (c_in_tx c). rewrite A13, (sg_cin_slot _ _ _ _ _ _ _ _ _ H2).
  change (t_request_progress t') with c_HTP_REQUEST_HEADERS. change ((c_HTP_REQUEST_HEADERS =? c_HTP_REQUEST_HEADERS)%Z) with true. cbv iota.
  unfold req_receiver_set, req_receiver_finalize_clear. change (k_receiver_hook (c_in c1)) with (k_receiver_hook (c_in c)). rewrite A11.
  eexists. split; [reflexivity|].
  clearbody c1. destruct H2 as [B1 B2 B3 B4 B5 B6 B7 B8 B9 B10 B11 B12 B13 B14 B15 B16 B17].
  constructor; try assumption; try reflexivity; cbn; rewrite ?B2, ?B6; try reflexivity; lia.
Qed.
End Line.

(* ---- REQ_IDLE with data available: the next transaction is created ---- *)
(* the request side between two requests: no current transaction; p = the bytes of the next request line already seen
   (REQ_FINALIZE looks at them to decide whether a new request starts) *)
Record sg_idl (c : connp) (d : bytes) (rd : nat) (p : bytes) (done : list (option tx)) (fl : N) (prev : option req_state) : Prop := mk_sg_idl {
  il_status : sg_live (c_in_status c);
  il_state : c_in_state c = REQ_IDLE;
  il_prev : c_in_state_previous c = prev;
  il_data : k_data (c_in c) = Some d;
  il_len : k_len (c_in c) = length d;
  il_read : k_read (c_in c) = rd;
  il_rd : (rd <= length d)%nat;
  il_cons : (k_consume (c_in c) <= rd)%nat;
  il_seen : sg_olist (k_buf (c_in c)) ++ firstn (rd - k_consume (c_in c)) (skipn (k_consume (c_in c)) d) = p;
  il_hdr : k_header (c_in c) = None;
  il_rh : k_receiver_hook (c_in c) = None;
  il_rcv : (k_receiver (c_in c) <= rd)%nat;
  il_tx : c_in_tx c = None;
  il_txs : c_txs c = done;
  il_shift : c_txs_shifted c = 0%nat;
  il_flags : c_conn_flags c = fl;
  il_onext : c_out_next_tx_index c = 0%nat }.

(* htp_tx_create + htp_tx_state_request_start *)
Definition sg_t1 (k : nat) : tx := tx_new k k <| t_request_progress := c_HTP_REQUEST_LINE |>.
(* HTP_CONN_PIPELINED: a transaction is created while an earlier one has no response yet *)
Definition sg_next_flags (done : list (option tx)) (fl : N) : N := if (0 <? length done)%nat then flag_set fl c_HTP_CONN_PIPELINED else fl.

Lemma sg_cin_from_idl c c' d rd p done fl fl' prev t : sg_idl c d rd p done fl prev ->
  c_in_status c' = c_in_status c -> c_in_state c' = REQ_LINE -> c_in_state_previous c' = c_in_state_previous c -> c_in c' = c_in c ->
  c_in_tx c' = Some (length done) -> c_txs c' = done ++ [Some t] -> c_txs_shifted c' = 0%nat -> c_conn_flags c' = fl' -> c_out_next_tx_index c' = 0%nat ->
  sg_cinw (mk_sg_world done fl') c' d rd p None REQ_LINE prev None t.
Proof.
  intros [A1 A2 A3 A4 A5 A6 A7 A8 A9 A10 A11 A12 A13 A14 A15 A16 A17] E1 E2 E3 E4 E5 E6 E7 E8 E9.
  constructor; cbn [w_done w_flags]; rewrite ?E1, ?E3, ?E4; assumption.
Qed.

Section Idle.
Variable cb : cb_oracle.
Variable g : cfg.
Hypothesis Hcb : wr_all_ok cb.

(* the parser after htp_connp_tx_create + htp_tx_state_request_start, c0 = the parser with the connection flag set *)
Definition sg_idle_mk (done : list (option tx)) (c0 : connp) : connp :=
  let k := length done in
  let c1 := c0 <| c_txs := done ++ [Some (tx_new k k)] |> <| c_in_tx := Some k |> <| c_in_content_length := (-1)%Z |>
               <| c_in_body_data_left := (-1)%Z |> <| c_in_chunk_request_index := c_in_chunk_count c0 |> in
  (wr_hook_ev H_REQUEST_START k None false c1 <| c_in_state := REQ_LINE |>) <| c_txs := done ++ [Some (sg_t1 k)] |>.
Lemma sg_idle_mk_proj done c0 :
  c_in_status (sg_idle_mk done c0) = c_in_status c0 /\ c_in_state (sg_idle_mk done c0) = REQ_LINE /\
  c_in_state_previous (sg_idle_mk done c0) = c_in_state_previous c0 /\ c_in (sg_idle_mk done c0) = c_in c0 /\
  c_in_tx (sg_idle_mk done c0) = Some (length done) /\ c_txs (sg_idle_mk done c0) = done ++ [Some (sg_t1 (length done))] /\
  c_txs_shifted (sg_idle_mk done c0) = c_txs_shifted c0 /\ c_conn_flags (sg_idle_mk done c0) = c_conn_flags c0 /\
  c_out_next_tx_index (sg_idle_mk done c0) = c_out_next_tx_index c0.
Proof. repeat split. Qed.

Lemma sg_idle_fn c d rd p done fl prev : sg_idl c d rd p done fl prev -> (rd < length d)%nat ->
  (g_max_tx g = 0 \/ length done <= g_max_tx g)%nat ->
  exists c0, REQ_IDLE_fn cb g c = (ST_OK, sg_idle_mk done c0) /\
    c_conn_flags c0 = sg_next_flags done fl /\ c_in_status c0 = c_in_status c /\ c_in_state_previous c0 = c_in_state_previous c /\
    c_in c0 = c_in c /\ c_txs_shifted c0 = 0%nat /\ c_out_next_tx_index c0 = 0%nat.
Proof.
  intros [A1 A2 A3 A4 A5 A6 A7 A8 A9 A10 A11 A12 A13 A14 A15 A16 A17] Hlt Hmax.
  unfold REQ_IDLE_fn, rq_at_end. rewrite A5, A6.
  assert (L : (length d <=? rd)%nat = false) by (apply Nat.leb_gt; exact Hlt). rewrite L.
  unfold connp_tx_create. rewrite A14, A17.
  assert (Lm : ((0 <? g_max_tx g) && (g_max_tx g <? length done))%nat = false).
  { destruct Hmax as [E|E]; [rewrite E; reflexivity|]. apply andb_false_iff. right. apply Nat.ltb_ge. exact E. }
  rewrite Lm.
  set (c0 := if (0 <? length done)%nat then c <| c_conn_flags ::= (fun f => flag_set f c_HTP_CONN_PIPELINED) |> else c).
  assert (F0 : c_conn_flags c0 = sg_next_flags done fl /\ c_in_status c0 = c_in_status c /\ c_in_state_previous c0 = c_in_state_previous c /\
               c_in c0 = c_in c /\ c_txs_shifted c0 = 0%nat /\ c_out_next_tx_index c0 = 0%nat /\ c_txs c0 = done).
  { unfold c0, sg_next_flags. destruct (0 <? length done)%nat; cbn; rewrite ?A16; repeat split; assumption. }
  clearbody c0. destruct F0 as (F1 & F2 & F3 & F4 & F5 & F6 & F7). rewrite F5, F7. cbn [Nat.add].
  unfold tx_state_request_start. rewrite (wr_run_hook cb Hcb). cbv iota.
  cbn [c_in_tx wr_hook_ev emit bump_hook set].
  match goal with |- context [tx_upd ?x (length done) ?f] => set (c2 := x) end.
  assert (X2 : c_txs c2 = done ++ [Some (tx_new (length done) (length done))]) by reflexivity.
  assert (Y2 : c_txs_shifted c2 = 0%nat) by exact F5.
  rewrite (wr_tx_upd_ok c2 _ _ _ (sg_slot_at c2 done _ X2 Y2)), (sg_tx_put_at c2 done _ _ X2 Y2).
  exists c0. split; [reflexivity|]. repeat split; assumption.
Qed.

Lemma sg_pass_idle c d rd p done fl prev : sg_idl c d rd p done fl prev -> (rd < length d)%nat ->
  (g_max_tx g = 0 \/ length done <= g_max_tx g)%nat ->
  exists c', rq_iter cb g false c = inr c' /\
    sg_cinw (mk_sg_world done (sg_next_flags done fl)) c' d rd p None REQ_LINE (Some REQ_LINE) None (sg_t1 (length done)).
Proof.
  intros H Hlt Hmax. destruct (sg_idle_fn c d rd p done fl prev H Hlt Hmax) as (c0 & E1 & F1 & F2 & F3 & F4 & F5 & F6).
  destruct (sg_idle_mk_proj done c0) as (P1 & P2 & P3 & P4 & P5 & P6 & P7 & P8 & P9).
  apply (sg_iter_ok cb g c (sg_idle_mk done c0) d rd p None REQ_LINE prev None _); [rewrite (il_state _ _ _ _ _ _ _ H); exact E1| |discriminate].
  apply (sg_cin_from_idl c _ d rd p done fl _ prev _ H); congruence.
Qed.
End Idle.
