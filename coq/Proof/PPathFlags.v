(* C12 -- the path decoder against the escape tokeniser: output bytes and indicators. *)
Require Import Htp.Model.Base Htp.Model.MPath Htp.Spec.SPath.
Local Open Scope N_scope.

Lemma fst_flag f st : fst (pth_flag f st) = N.lor (fst st) f.
Proof. reflexivity. Qed.
Lemma fst_unwanted u st : fst (pth_unwanted u st) = fst st.
Proof. unfold pth_unwanted. destruct (Z.eqb _ _); reflexivity. Qed.
Lemma fst_mark_invalid c st : fst (pth_mark_invalid c st) = N.lor (fst st) c_HTP_PATH_INVALID_ENCODING.
Proof. unfold pth_mark_invalid. rewrite fst_unwanted, fst_flag. reflexivity. Qed.

Lemma pth_decode_u_spec c a0 a1 a2 a3 st :
  fst (pth_decode_u c a0 a1 a2 a3 st) = pth_u_value c (pth_x2c a0 a1) (pth_x2c a2 a3) /\
  fst (snd (pth_decode_u c a0 a1 a2 a3 st)) = N.lor (fst st) (pth_u_flags c (pth_x2c a0 a1) (pth_x2c a2 a3)).
Proof.
  unfold pth_decode_u, pth_u_flags, pth_issep, pth_fl, pth_u_value.
  destruct (pth_x2c a0 a1 =? 0).
  - destruct ((pth_x2c a2 a3 =? pth_SL) || (d_backslash c && (pth_x2c a2 a3 =? pth_BSL))); cbn [fst snd];
      rewrite ?fst_flag, ?N.lor_assoc, ?N.lor_0_r; auto.
  - destruct (pth_x2c a0 a1 =? 255);
      destruct ((pth_bestfit_u t_bestfit_1252 (pth_x2c a0 a1) (pth_x2c a2 a3) (d_replacement c) =? pth_SL)
                || (d_backslash c && (pth_bestfit_u t_bestfit_1252 (pth_x2c a0 a1) (pth_x2c a2 a3) (d_replacement c) =? pth_BSL)));
      cbn [fst snd]; rewrite ?fst_flag, ?fst_unwanted, ?fst_flag, ?N.lor_assoc, ?N.lor_0_r; auto.
Qed.

(* one look of the decoder at the head of the input = the token the tokeniser sees there *)
Lemma pth_step_lex c x r st :
  match pth_lex1 c (x :: r), pth_step c (x :: r) st with
  | (t, span, stop), Pth_stop st' =>
      stop = true /\ pth_interp c t = None /\ fst st' = N.lor (fst st) (pth_tok_flags c t)
  | (t, span, stop), Pth_skip adv st' =>
      stop = false /\ adv = span /\ pth_interp c t = None /\ fst st' = N.lor (fst st) (pth_tok_flags c t)
  | (t, span, stop), Pth_emit ch adv st' =>
      stop = false /\ adv = span /\ pth_interp c t = Some ch /\ fst st' = N.lor (fst st) (pth_tok_flags c t)
  end.
Proof.
  unfold pth_lex1, pth_step, pth_is_u.
  destruct (x =? pth_PCT).
  2: { destruct (x =? 0) eqn:E0.
       - apply N.eqb_eq in E0; subst x. cbn [pth_interp pth_tok_flags].
         destruct (d_nul_raw_term c); rewrite ?fst_unwanted, ?fst_flag; auto.
       - cbn. rewrite N.lor_0_r. auto. }
  destruct r as [|a1 [|a2 r2]].
  1,2: cbn [pth_interp pth_tok_flags]; destruct (pth_handling c); rewrite ?fst_mark_invalid; auto.
  destruct (d_u_decode c && ((a1 =? pth_u) || (a1 =? pth_U))).
  - (* %u *)
    destruct r2 as [|a3 [|a4 [|a5 r5]]].
    1,2,3: cbn [pth_interp pth_tok_flags]; destruct (pth_handling c); rewrite ?fst_mark_invalid, ?fst_unwanted; auto.
    destruct (c_isxdigit a2 && c_isxdigit a3 && c_isxdigit a4 && c_isxdigit a5).
    + pose proof (pth_decode_u_spec c a2 a3 a4 a5 (pth_unwanted (d_u_unwanted c) st)) as [Hv Hf].
      destruct (pth_decode_u c a2 a3 a4 a5 (pth_unwanted (d_u_unwanted c) st)) as [ch st1]. cbn [fst snd] in Hv, Hf.
      subst ch. cbn [pth_interp pth_tok_flags]. unfold pth_fl.
      destruct (pth_u_value c (pth_x2c a2 a3) (pth_x2c a4 a5) =? 0);
        rewrite ?fst_unwanted, ?fst_flag, Hf, ?fst_unwanted, ?N.lor_assoc, ?N.lor_0_r; auto.
    + destruct (pth_handling c) eqn:Eh; cbn [pth_interp pth_tok_flags]; rewrite ?Eh, ?fst_mark_invalid, ?fst_unwanted; auto.
      pose proof (pth_decode_u_spec c a2 a3 a4 a5 (pth_mark_invalid c (pth_unwanted (d_u_unwanted c) st))) as [Hv Hf].
      destruct (pth_decode_u c a2 a3 a4 a5 (pth_mark_invalid c (pth_unwanted (d_u_unwanted c) st))) as [ch st1].
      cbn [fst snd] in Hv, Hf. subst ch. rewrite Hf, fst_mark_invalid, fst_unwanted, ?N.lor_assoc. auto.
  - (* %HH *)
    destruct (c_isxdigit a1 && c_isxdigit a2).
    + cbv zeta. generalize (pth_x2c a1 a2) as b. intros b.
      assert (Hz : b = 0 -> pth_issep c b = false).
      { intros ->. unfold pth_issep. change (0 =? pth_SL) with false. change (0 =? pth_BSL) with false.
        rewrite andb_false_r. reflexivity. }
      fold (pth_issep c b).
      destruct (b =? 0) eqn:E0.
      * apply N.eqb_eq in E0. specialize (Hz E0). rewrite Hz. subst b. cbn [andb orb].
        destruct (d_nul_enc_term c) eqn:Et; cbn [pth_interp pth_tok_flags]; unfold pth_fl;
          rewrite ?Hz, ?Et; cbn [andb N.eqb]; rewrite ?fst_unwanted, ?fst_flag, ?N.lor_0_r; auto.
      * clear Hz. cbn [andb].
        destruct (pth_issep c b) eqn:Es; [destruct (d_sep_decode c) eqn:Ed|]; cbn [andb negb pth_interp pth_tok_flags];
          unfold pth_fl; rewrite ?E0, ?Es, ?Ed; cbn [andb negb];
          rewrite ?fst_unwanted, ?fst_flag, ?N.lor_0_l, ?N.lor_0_r; auto.
    + destruct (pth_handling c) eqn:Eh; cbn [pth_interp pth_tok_flags]; rewrite ?Eh, ?fst_mark_invalid; auto.
Qed.

Lemma pth_loop_lex c : forall rest skip prev st,
  fst (pth_loop c skip rest prev st) =
    pth_compress c prev (map (pth_post_byte c) (flat_map (fun t => pth_opt_list (pth_interp c t)) (pth_lex_loop c skip rest))) /\
  fst (snd (pth_loop c skip rest prev st)) = N.lor (fst st) (pth_lor_all (map (pth_tok_flags c) (pth_lex_loop c skip rest))).
Proof.
  induction rest as [|x r IH]; intros skip prev st; cbn [pth_loop pth_lex_loop].
  { unfold pth_compress. cbn. rewrite N.lor_0_r. destruct (d_sep_compress c); auto. }
  destruct skip as [|k]; [|apply IH].
  pose proof (pth_step_lex c x r st) as Hs.
  destruct (pth_lex1 c (x :: r)) as [[t span] stop].
  destruct (pth_step c (x :: r) st) as [st'|adv st'|ch adv st'].
  - destruct Hs as (-> & Hi & Hf). cbn [flat_map map pth_lor_all fold_right fst snd]. rewrite Hi, Hf. cbn.
    rewrite N.lor_0_r. unfold pth_compress. destruct (d_sep_compress c); auto.
  - destruct Hs as (-> & -> & Hi & Hf). cbn [flat_map map pth_lor_all fold_right]. rewrite Hi. cbn [pth_opt_list app].
    destruct (IH (span - 1)%nat prev st') as [I1 I2]. rewrite I1, I2, Hf, N.lor_assoc. auto.
  - destruct Hs as (-> & -> & Hi & Hf). cbn [flat_map map pth_lor_all fold_right]. rewrite Hi. cbn [pth_opt_list app map].
    assert (Hp : fst (pth_post c ch st') = pth_post_byte c ch /\ fst (snd (pth_post c ch st')) = fst st').
    { unfold pth_post, pth_post_byte. cbn [fst snd]. destruct (ch <? 32); rewrite ?fst_unwanted; auto. }
    destruct (pth_post c ch st') as [ch' st'']. cbn [fst snd] in Hp. destruct Hp as [-> Hp].
    unfold pth_compress. destruct (d_sep_compress c) eqn:Ec.
    + cbn [pth_squeeze]. destruct (pth_post_byte c ch =? pth_SL).
      * destruct prev.
        { destruct (IH (span - 1)%nat true st'') as [I1 I2]. unfold pth_compress in I1. rewrite Ec in I1.
          rewrite I1, I2, Hp, Hf, N.lor_assoc. auto. }
        destruct (IH (span - 1)%nat true st'') as [I1 I2]. unfold pth_compress in I1. rewrite Ec in I1.
        destruct (pth_loop c (span - 1) r true st'') as [o sf]. cbn [fst snd] in *. rewrite I1, I2, Hp, Hf, N.lor_assoc. auto.
      * destruct (IH (span - 1)%nat false st'') as [I1 I2]. unfold pth_compress in I1. rewrite Ec in I1.
        destruct (pth_loop c (span - 1) r false st'') as [o sf]. cbn [fst snd] in *. rewrite I1, I2, Hp, Hf, N.lor_assoc. auto.
    + destruct (IH (span - 1)%nat prev st'') as [I1 I2]. unfold pth_compress in I1. rewrite Ec in I1.
      destruct (pth_loop c (span - 1) r prev st'') as [o sf]. cbn [fst snd] in *. rewrite I1, I2, Hp, Hf, N.lor_assoc. auto.
Qed.

(* the decoded path is the interpretation of the token sequence *)
Theorem pth_decode_path_spec c s : fst (pth_decode_path c s) = pth_decode_spec c s.
Proof. apply (pth_loop_lex c s 0%nat false pth_st0). Qed.

(* the indicators raised are exactly those of the tokens that occur *)
Theorem pth_decode_path_flags c s :
  fst (snd (pth_decode_path c s)) = pth_lor_all (map (pth_tok_flags c) (pth_lex c s)).
Proof. destruct (pth_loop_lex c s 0%nat false pth_st0) as [_ H]. exact H. Qed.

(* ---- from "flags = OR over the tokens" to "raised iff a token of that kind occurs" ---- *)
Lemma has_lor f a b z z' : pth_has f (N.lor a b, z) = pth_has f (a, z') || pth_has f (b, z').
Proof.
  unfold pth_has. cbn [fst]. rewrite N.land_lor_distr_l.
  destruct (N.land a f =? 0) eqn:Ea, (N.land b f =? 0) eqn:Eb; cbn;
    rewrite ?N.eqb_eq, ?N.eqb_neq in *.
  - rewrite Ea, Eb. reflexivity.
  - rewrite Ea, N.lor_0_l. apply negb_true_iff, N.eqb_neq, Eb.
  - apply negb_true_iff, N.eqb_neq. intros H. apply N.lor_eq_0_iff in H as [H _]. auto.
  - apply negb_true_iff, N.eqb_neq. intros H. apply N.lor_eq_0_iff in H as [H _]. auto.
Qed.

Lemma has_lor_all f l z : pth_has f (pth_lor_all l, z) = existsb (fun x => pth_has f (x, z)) l.
Proof.
  induction l as [|a l IH]; cbn [pth_lor_all fold_right existsb]; [reflexivity|].
  rewrite (has_lor f a _ z z). f_equal. exact IH.
Qed.

Theorem pth_flag_iff c s f :
  pth_has f (snd (pth_decode_path c s)) = true <->
  exists t, In t (pth_lex c s) /\ pth_has f (pth_tok_flags c t, 0%Z) = true.
Proof.
  pose proof (pth_decode_path_flags c s) as H.
  destruct (snd (pth_decode_path c s)) as [fl z]. cbn [fst] in H. subst fl.
  change (pth_has f (pth_lor_all (map (pth_tok_flags c) (pth_lex c s)), z))
    with (pth_has f (pth_lor_all (map (pth_tok_flags c) (pth_lex c s)), 0%Z)).
  rewrite has_lor_all, existsb_exists. split.
  - intros (x & Hx & Hh). apply in_map_iff in Hx as (t & <- & Ht). eauto.
  - intros (t & Ht & Hh). exists (pth_tok_flags c t). split; [apply in_map; exact Ht|exact Hh].
Qed.

(* ---- per indicator: which token raises it (the flag constants are distinct bits: closed by computation) ---- *)
Ltac flagcase :=
  repeat match goal with
         | |- context [if ?b then _ else _] => destruct b eqn:?
         end; try reflexivity; try (vm_compute; reflexivity).

Lemma tok_invalid c t : pth_has c_HTP_PATH_INVALID_ENCODING (pth_tok_flags c t, 0%Z) = pth_raises_invalid t.
Proof. destruct t; cbn [pth_tok_flags pth_raises_invalid]; unfold pth_u_flags, pth_fl; flagcase. Qed.
Lemma tok_rawnul c t : pth_has c_HTP_PATH_RAW_NUL (pth_tok_flags c t, 0%Z) = pth_raises_rawnul t.
Proof. destruct t; cbn [pth_tok_flags pth_raises_rawnul]; unfold pth_u_flags, pth_fl; flagcase. Qed.
Lemma tok_encnul c t : pth_has c_HTP_PATH_ENCODED_NUL (pth_tok_flags c t, 0%Z) = pth_raises_encnul c t.
Proof.
  destruct t; cbn [pth_tok_flags pth_raises_encnul]; unfold pth_u_flags, pth_fl;
    try destruct (b =? 0); try destruct (pth_u_value c hi lo =? 0); flagcase.
Qed.
Lemma tok_encsep c t : pth_has c_HTP_PATH_ENCODED_SEPARATOR (pth_tok_flags c t, 0%Z) = pth_raises_encsep c t.
Proof.
  destruct t; cbn [pth_tok_flags pth_raises_encsep]; unfold pth_u_flags, pth_fl;
    try destruct (pth_issep c b); try destruct (pth_issep c (pth_u_value c hi lo)); flagcase.
Qed.
Lemma tok_overlong_u c t : pth_has c_HTP_PATH_OVERLONG_U (pth_tok_flags c t, 0%Z) = pth_raises_overlong_u t.
Proof.
  destruct t; cbn [pth_tok_flags pth_raises_overlong_u]; unfold pth_u_flags, pth_fl;
    try destruct (hi =? 0); flagcase.
Qed.
Lemma tok_halffull c t : pth_has c_HTP_PATH_HALF_FULL_RANGE (pth_tok_flags c t, 0%Z) = pth_raises_halffull t.
Proof.
  destruct t; cbn [pth_tok_flags pth_raises_halffull]; unfold pth_u_flags, pth_fl; try reflexivity;
    try (destruct (hi =? 0) eqn:E0; [apply N.eqb_eq in E0; subst hi; change (0 =? 255) with false|destruct (hi =? 255)]); flagcase.
Qed.

Theorem pth_decoder_flags_exact c s :
  let st := snd (pth_decode_path c s) in
  let occurs (p : pth_tok -> bool) := exists t, In t (pth_lex c s) /\ p t = true in
  (pth_has c_HTP_PATH_INVALID_ENCODING st = true <-> occurs pth_raises_invalid) /\
  (pth_has c_HTP_PATH_RAW_NUL st = true <-> occurs pth_raises_rawnul) /\
  (pth_has c_HTP_PATH_ENCODED_NUL st = true <-> occurs (pth_raises_encnul c)) /\
  (pth_has c_HTP_PATH_ENCODED_SEPARATOR st = true <-> occurs (pth_raises_encsep c)) /\
  (pth_has c_HTP_PATH_OVERLONG_U st = true <-> occurs pth_raises_overlong_u) /\
  (pth_has c_HTP_PATH_HALF_FULL_RANGE st = true <-> occurs pth_raises_halffull).
Proof.
  cbv zeta. repeat split; intros H.
  all: try (apply pth_flag_iff in H as (t & Ht & Hh); exists t; split; [exact Ht|]).
  all: try (destruct H as (t & Ht & Hh); apply pth_flag_iff; exists t; split; [exact Ht|]).
  all: first [ rewrite tok_invalid in * | rewrite tok_rawnul in * | rewrite tok_encnul in * | rewrite tok_encsep in *
             | rewrite tok_overlong_u in * | rewrite tok_halffull in * | rewrite <- tok_invalid in * ]; try assumption.
Qed.
