(* C03, response direction, chunk-coded response bodies: corollaries (the statement as an equation between the chunked and the
   single-chunk run; the encoder's format of SBody, for which the F1 side condition is vacuous), what the reference transaction
   says (response_entity_len = the data length, response_message_len = the coded length without the trailer block, the trailer
   fields in the response header table, progress COMPLETE), the vm_compute harness the statements were tested with before they
   were proved, and the block of theorems for re-export. *)
Require Import Htp.Model.Base Htp.Model.MBstr Htp.Model.MUri Htp.Model.MPath Htp.Model.MUrlenc Htp.Model.MConnTypes Htp.Model.MTxCommon.
Require Import Htp.Model.MReqLine Htp.Model.MReqUri Htp.Model.MTxReq Htp.Model.MResLine Htp.Model.MTxRes.
Require Import Htp.Model.MReq Htp.Model.MRes Htp.Model.MConnp.
Require Import Htp.Spec.SWire Htp.Spec.SBody Htp.Proof.PWire Htp.Proof.PWireHdr Htp.Proof.PWireBlock Htp.Proof.PWireConn Htp.Proof.PWireExch.
Require Import Htp.Proof.PWireRun Htp.Proof.PWirePres Htp.Proof.PWireGlue Htp.Proof.PSeg Htp.Proof.PSegLine Htp.Proof.PSegHdr Htp.Proof.PSegGen Htp.Proof.PSegRun.
Require Import Htp.Proof.PSegFold Htp.Proof.PSegRes Htp.Proof.PSegResLine Htp.Proof.PSegResHdr Htp.Proof.PSegResGen Htp.Proof.PSegResRun Htp.Proof.PSegResReq Htp.Proof.PSegResThm Htp.Proof.PSegResCanon.
Require Import Htp.Proof.PBody Htp.Proof.PSegChunkedRun Htp.Proof.PSegChunkedThm.
Require Import Htp.Proof.PSegResChGen Htp.Proof.PSegResCh Htp.Proof.PSegResChRun.

(* ================= chunked delivery = single-chunk delivery ================= *)
Theorem sr_response_chunked_chunking_obs : forall cb g rq r (cuts : list (list bytes)) (ks : list bd_chunk) (last : bytes) (tr : list wr_field)
    (tcuts : list (list bytes)) (chunks : list bytes),
  wr_all_ok cb -> g_allow_space_uri g = false -> wr_request_ok rq = true ->
  sr_response_ok r = true -> sr_cuts_ok r cuts = true -> sr_framed_ch cb g rq r cuts = true -> sr_fits g r cuts = true ->
  sr_cfbody_ok g r ks last tr tcuts = true ->
  Forall (fun x => x <> []) chunks -> concat chunks = sr_wire r cuts (sr_cfbody_wire ks last tr tcuts) ->
  sr_f1_free (sr_cfbody_wire ks last tr tcuts) (negb (sr_is_nil (sr_lines r cuts))) chunks = true ->
  c_txs (fst (cp_run cb g connp_new (OpOpen :: OpReqData (wr_request_wire rq) :: map OpResData chunks))) =
  c_txs (fst (cp_run cb g connp_new [OpOpen; OpReqData (wr_request_wire rq); OpResData (sr_wire r cuts (sr_cfbody_wire ks last tr tcuts))])).
Proof.
  intros cb g rq r cuts ks last tr tcuts chunks Hcb Hsp Wq Wr Wc Hfr Hfit Hb Hall Hc Hf1.
  rewrite (sr_response_chunked_chunking cb g rq r cuts ks last tr tcuts chunks Hcb Hsp Wq Wr Wc Hfr Hfit Hb Hall Hc Hf1).
  pose proof (sr_response_chunked_chunking cb g rq r cuts ks last tr tcuts [sr_wire r cuts (sr_cfbody_wire ks last tr tcuts)] Hcb Hsp Wq Wr Wc Hfr Hfit Hb) as E2.
  cbn [map] in E2. rewrite E2; [reflexivity| | |].
  - constructor; [apply sr_wire_ne|constructor].
  - cbn [concat]. apply app_nil_r.
  - apply sr_f1_free_single. exact Wr.
Qed.
Theorem sr_response_chunked_two_chunkings : forall cb g rq r (cuts : list (list bytes)) (ks : list bd_chunk) (last : bytes) (tr : list wr_field)
    (tcuts : list (list bytes)) (chunks1 chunks2 : list bytes),
  wr_all_ok cb -> g_allow_space_uri g = false -> wr_request_ok rq = true ->
  sr_response_ok r = true -> sr_cuts_ok r cuts = true -> sr_framed_ch cb g rq r cuts = true -> sr_fits g r cuts = true ->
  sr_cfbody_ok g r ks last tr tcuts = true ->
  Forall (fun x => x <> []) chunks1 -> concat chunks1 = sr_wire r cuts (sr_cfbody_wire ks last tr tcuts) ->
  sr_f1_free (sr_cfbody_wire ks last tr tcuts) (negb (sr_is_nil (sr_lines r cuts))) chunks1 = true ->
  Forall (fun x => x <> []) chunks2 -> concat chunks2 = sr_wire r cuts (sr_cfbody_wire ks last tr tcuts) ->
  sr_f1_free (sr_cfbody_wire ks last tr tcuts) (negb (sr_is_nil (sr_lines r cuts))) chunks2 = true ->
  sg_obs cb g (OpOpen :: OpReqData (wr_request_wire rq) :: map OpResData chunks1) =
  sg_obs cb g (OpOpen :: OpReqData (wr_request_wire rq) :: map OpResData chunks2).
Proof.
  intros cb g rq r cuts ks last tr tcuts ch1 ch2 Hcb Hsp Wq Wr Wc Hfr Hfit Hb A1 B1 C1 A2 B2 C2. unfold sg_obs.
  rewrite (sr_response_chunked_chunking cb g rq r cuts ks last tr tcuts ch1 Hcb Hsp Wq Wr Wc Hfr Hfit Hb A1 B1 C1).
  rewrite (sr_response_chunked_chunking cb g rq r cuts ks last tr tcuts ch2 Hcb Hsp Wq Wr Wc Hfr Hfit Hb A2 B2 C2). reflexivity.
Qed.

(* ================= a body wire that does not start with CR: the F1 side condition is vacuous ================= *)
Definition sr_head_not_cr (w : bytes) : bool := match w with b :: _ => negb (b =? CR)%N | [] => true end.
Lemma sr_f1_free_not_cr body has_hdr : sr_head_not_cr body = true -> forall chunks, sr_f1_free body has_hdr chunks = true.
Proof.
  intros Hh. induction chunks as [|x rest IH]; [reflexivity|]. cbn [sr_f1_free]. rewrite IH, andb_true_r.
  destruct body as [|b body']; [reflexivity|]. cbn [sr_head_not_cr] in Hh. apply negb_true_iff in Hh. rewrite Hh. reflexivity.
Qed.
Theorem sr_response_chunked_chunking_digit : forall cb g rq r (cuts : list (list bytes)) (ks : list bd_chunk) (last : bytes) (tr : list wr_field)
    (tcuts : list (list bytes)) (chunks : list bytes),
  wr_all_ok cb -> g_allow_space_uri g = false -> wr_request_ok rq = true ->
  sr_response_ok r = true -> sr_cuts_ok r cuts = true -> sr_framed_ch cb g rq r cuts = true -> sr_fits g r cuts = true ->
  sr_cfbody_ok g r ks last tr tcuts = true -> sr_head_not_cr (sr_cfbody_wire ks last tr tcuts) = true ->
  Forall (fun x => x <> []) chunks -> concat chunks = sr_wire r cuts (sr_cfbody_wire ks last tr tcuts) ->
  c_txs (fst (cp_run cb g connp_new (OpOpen :: OpReqData (wr_request_wire rq) :: map OpResData chunks))) =
  c_txs (fst (cp_run cb g connp_new [OpOpen; OpReqData (wr_request_wire rq); OpResData (sr_wire r cuts (sr_cfbody_wire ks last tr tcuts))])).
Proof.
  intros cb g rq r cuts ks last tr tcuts chunks Hcb Hsp Wq Wr Wc Hfr Hfit Hb Hh Hall Hc.
  apply (sr_response_chunked_chunking_obs cb g rq r cuts ks last tr tcuts chunks Hcb Hsp Wq Wr Wc Hfr Hfit Hb Hall Hc).
  apply sr_f1_free_not_cr. exact Hh.
Qed.

(* ================= the encoder of SBody (DESIGN Appendix A, C06): size in lower-case hex, optional extension, CR LF ================= *)
Lemma sr_hexd_not_cr x : (bd_hexd x =? CR)%N = false.
Proof. unfold bd_hexd. destruct (x <? 10)%N; apply N.eqb_neq; unfold CR; lia. Qed.
Lemma sr_hex_head : forall f n, exists x rest, bd_hex (S f) n = bd_hexd x :: rest.
Proof.
  induction f as [|f IH]; intros n.
  - cbn [bd_hex]. destruct (n <? 16)%N; eexists _, _; reflexivity.
  - change (bd_hex (S (S f)) n) with (if (n <? 16)%N then [bd_hexd n] else bd_hex (S f) (n / 16)%N ++ [bd_hexd (n mod 16)%N]).
    destruct (n <? 16)%N; [eexists _, _; reflexivity|]. destruct (IH (n / 16)%N) as (x & rest & E). rewrite E. eexists _, _. reflexivity.
Qed.
Lemma sr_enc_head_not_cr cs trw : sr_head_not_cr (bd_enc_body cs trw) = true.
Proof.
  unfold bd_enc_body. destruct cs as [|[c e] cs].
  - reflexivity.
  - unfold bd_enc_chunks. cbn [map concat fst snd]. unfold bd_enc_chunk, bd_hexlen. destruct (sr_hex_head 15 (N.of_nat (length c))) as (x & rest & E).
    rewrite E. cbn [app sr_head_not_cr]. rewrite sr_hexd_not_cr. reflexivity.
Qed.
Lemma sr_enc_body_wire cs tr tcuts :
  bd_enc_body cs (sg_fwire (sr_trailer_lines tr tcuts)) = sr_cfbody_wire (map sg_enc_chunk cs) bd_last_line tr tcuts.
Proof.
  unfold bd_enc_body, sr_cfbody_wire. f_equal. unfold bd_enc_chunks, bd_chunks_wire. rewrite map_map. f_equal. apply map_ext.
  intros [c e]. unfold bd_enc_chunk, sg_enc_chunk, bd_chunk_wire. cbn [fst snd bc_line bc_data bc_end]. rewrite <- !app_assoc. reflexivity.
Qed.
Theorem sr_response_chunked_chunking_encoder : forall cb g rq r (cuts : list (list bytes)) (cs : list (bytes * bytes)) (tr : list wr_field)
    (tcuts : list (list bytes)) (chunks : list bytes),
  wr_all_ok cb -> g_allow_space_uri g = false -> wr_request_ok rq = true ->
  sr_response_ok r = true -> sr_cuts_ok r cuts = true -> sr_framed_ch cb g rq r cuts = true -> sr_fits g r cuts = true ->
  sr_cfbody_ok g r (map sg_enc_chunk cs) bd_last_line tr tcuts = true ->
  Forall (fun x => x <> []) chunks -> concat chunks = sr_wire r cuts (bd_enc_body cs (sg_fwire (sr_trailer_lines tr tcuts))) ->
  c_txs (fst (cp_run cb g connp_new (OpOpen :: OpReqData (wr_request_wire rq) :: map OpResData chunks))) =
  c_txs (fst (cp_run cb g connp_new [OpOpen; OpReqData (wr_request_wire rq); OpResData (sr_wire r cuts (bd_enc_body cs (sg_fwire (sr_trailer_lines tr tcuts))))])).
Proof.
  intros cb g rq r cuts cs tr tcuts chunks Hcb Hsp Wq Wr Wc Hfr Hfit Hb Hall Hc.
  pose proof (sr_enc_head_not_cr cs (sg_fwire (sr_trailer_lines tr tcuts))) as Hh. rewrite sr_enc_body_wire in *.
  apply (sr_response_chunked_chunking_digit cb g rq r cuts _ bd_last_line tr tcuts chunks Hcb Hsp Wq Wr Wc Hfr Hfit Hb Hh Hall Hc).
Qed.

(* ================= what the reference transaction says ================= *)
(* ---- request processing keeps the two response length fields (the chain of PSegResCanon.rsp_* for another projection) ---- *)
Definition sr_rlk (t : tx) := (t_response_entity_len t, t_response_message_len t).

Lemma rlk_urldecode g s t : sr_rlk (snd (rq_urldecode_uri g s t)) = sr_rlk t.
Proof. unfold rq_urldecode_uri. destruct (ud_urldecode_from _ _ _ _) as [[o fl] st]. reflexivity. Qed.
Lemma rlk_urldecode_opt g s t : sr_rlk (snd (rq_urldecode_uri_opt g s t)) = sr_rlk t.
Proof.
  unfold rq_urldecode_uri_opt. destruct s as [s|]; [|reflexivity].
  pose proof (rlk_urldecode g s t) as H. destruct (rq_urldecode_uri g s t) as [o t']. exact H.
Qed.
Lemma rlk_normalize_path g p t : sr_rlk (snd (rq_normalize_path g p t)) = sr_rlk t.
Proof.
  unfold rq_normalize_path. destruct (pth_decode_path_st _ _ _) as [p1 st1].
  destruct (if d_bestfit (g_dec_url_path g) then _ else _) as [p2 st2]. reflexivity.
Qed.
Lemma rlk_normalize_parsed_uri g raw t : sr_rlk (snd (htp_normalize_parsed_uri g raw t)) = sr_rlk t.
Proof.
  unfold htp_normalize_parsed_uri.
  pose proof (rlk_urldecode_opt g (u_user raw) t) as H1. destruct (rq_urldecode_uri_opt g (u_user raw) t) as [user t1]. cbn [snd] in H1.
  pose proof (rlk_urldecode_opt g (u_pass raw) t1) as H2. destruct (rq_urldecode_uri_opt g (u_pass raw) t1) as [pass t2]. cbn [snd] in H2.
  pose proof (rlk_urldecode_opt g (u_host raw) t2) as H3. destruct (rq_urldecode_uri_opt g (u_host raw) t2) as [host t3]. cbn [snd] in H3.
  destruct (uri_norm_port_opt (u_port raw)) as [pn inv].
  set (t4 := if inv then t3 <| t_flags ::= (fun f => flag_set f c_HTP_HOSTU_INVALID) |> else t3).
  assert (H4 : sr_rlk t4 = sr_rlk t3) by (unfold t4; destruct inv; reflexivity).
  assert (H5 : sr_rlk (snd (match u_path raw with
                            | None => (None, t4)
                            | Some p => let '(o, t) := rq_normalize_path g p t4 in (Some o, t)
                            end)) = sr_rlk t4).
  { destruct (u_path raw) as [p|]; [|reflexivity]. pose proof (rlk_normalize_path g p t4) as H. destruct (rq_normalize_path g p t4). exact H. }
  destruct (match u_path raw with None => (None, t4) | Some p => let '(o, t) := rq_normalize_path g p t4 in (Some o, t) end) as [path t5]. cbn [snd] in H5.
  pose proof (rlk_urldecode_opt g (u_frag raw) t5) as H6. destruct (rq_urldecode_uri_opt g (u_frag raw) t5) as [frag t6]. cbn [snd] in H6 |- *.
  congruence.
Qed.
Lemma rlk_uri_pipeline g is_connect u t t' : rq_uri_pipeline_opt g is_connect (Some u) t = Some t' -> sr_rlk t' = sr_rlk t.
Proof.
  unfold rq_uri_pipeline_opt.
  assert (Hr : exists raw t0, (if is_connect then rq_parse_uri_hostport (t_parsed_uri_raw t) (Some u) t
                               else Some (rq_parse_uri_into (t_parsed_uri_raw t) (Some u), t)) = Some (raw, t0) /\ sr_rlk t0 = sr_rlk t).
  { destruct is_connect.
    - unfold rq_parse_uri_hostport. destruct (parse_hostport u) as [[[hn port] pn] invalid].
      eexists _, _. split; [reflexivity|]. destruct (match hn with Some h => invalid || negb (htp_validate_hostname h) | None => invalid end); reflexivity.
    - eexists _, _. split; reflexivity. }
  destruct Hr as (raw & t0 & Er & K0). rewrite Er.
  set (t1 := t0 <| t_parsed_uri_raw := raw |>).
  assert (Hn : exists nu t2, (match t_parsed_uri t1 with Some nu => (nu, t1) | None => htp_normalize_parsed_uri g raw t1 end) = (nu, t2) /\ sr_rlk t2 = sr_rlk t1).
  { destruct (t_parsed_uri t1) as [nu|].
    - eexists _, _. split; reflexivity.
    - pose proof (rlk_normalize_parsed_uri g raw t1) as H. destruct (htp_normalize_parsed_uri g raw t1) as [nu t2]. eexists _, _. split; [reflexivity|exact H]. }
  destruct Hn as (nu & t2 & En & K2). rewrite En. intros E. inversion E. subst t'.
  assert (K : sr_rlk t2 = sr_rlk t) by (rewrite K2; exact K0).
  destruct (u_host nu) as [h|]; [destruct (htp_validate_hostname h)|]; exact K.
Qed.
Lemma rlk_parse_request_line g t : sr_rlk (htp_parse_request_line g t) = sr_rlk t.
Proof.
  unfold htp_parse_request_line. cbv zeta.
  repeat match goal with
  | |- context [if ?b then _ else _] => destruct b
  | |- context [match ?x with Some _ => _ | None => _ end] => destruct x
  end; reflexivity.
Qed.
Lemma rlk_tx_line g t line : sr_rlk (sg_tx_line g t line) = sr_rlk t.
Proof.
  unfold sg_tx_line. cbv zeta. set (t2 := htp_parse_request_line g (t <| t_request_line := Some line |>)).
  assert (K2 : sr_rlk t2 = sr_rlk t) by (unfold t2; rewrite rlk_parse_request_line; reflexivity).
  destruct (t_request_uri t2) as [u|] eqn:Eu.
  - destruct (rq_uri_pipeline_opt g _ (Some u) t2) as [t3|] eqn:E3; [rewrite (rlk_uri_pipeline g _ u t2 t3 E3)|]; exact K2.
  - destruct (rq_uri_pipeline_opt g _ None t2) as [t3|] eqn:E3; [|exact K2].
    unfold rq_uri_pipeline_opt in E3. destruct (_ =? c_HTP_M_CONNECT)%Z; [discriminate|].
    cbv zeta in E3. destruct (t_parsed_uri _) as [nu|] in E3.
    + inversion E3. destruct (u_host nu) as [h|]; [destruct (htp_validate_hostname h)|]; exact K2.
    + pose proof (rlk_normalize_parsed_uri g (rq_parse_uri_into (t_parsed_uri_raw t2) None) (t2 <| t_parsed_uri_raw := rq_parse_uri_into (t_parsed_uri_raw t2) None |>)) as H.
      destruct (htp_normalize_parsed_uri g _ _) as [nu t4]. cbn [snd] in H. inversion E3.
      destruct (u_host nu) as [h|]; [destruct (htp_validate_hostname h)|]; change (sr_rlk t4 = sr_rlk t); rewrite H; exact K2.
Qed.
Lemma rlk_process_request_header line t : sr_rlk (htp_process_request_header_generic line t) = sr_rlk t.
Proof.
  unfold htp_process_request_header_generic. destruct (htp_parse_request_header_generic line) as [h txfl].
  cbn [t_request_headers set]. destruct (rq_hdr_find (t_request_headers t) (h_name h)) as [i|]; [|reflexivity].
  destruct (flag_has _ _ && _); [reflexivity|].
  destruct (flag_has (h_flags (nth i (t_request_headers t) h)) c_HTP_FIELD_REPEATED); reflexivity.
Qed.
Lemma rlk_block : forall fs t, sr_rlk (wr_block_tx fs t) = sr_rlk t.
Proof.
  induction fs as [|f fs IH]; intros t; [reflexivity|].
  unfold wr_block_tx. cbn [map fold_left]. fold (wr_block_tx fs (htp_process_request_header_generic (wr_field_line f) t)).
  rewrite IH. apply rlk_process_request_header.
Qed.
Lemma rlk_te_cl t : sr_rlk (rq_te_cl t) = sr_rlk t.
Proof.
  unfold rq_te_cl, tx_set_flag.
  destruct (rq_hdr_get_c (t_request_headers t) rq_str_transfer_encoding) as [te|]; destruct (rq_hdr_get_c (t_request_headers t) rq_str_content_length_lc) as [cl|].
  - destruct (negb (htp_header_has_token (h_value te) rq_str_chunked)); [reflexivity|]. destruct (t_request_protocol_number t <? c_HTP_PROTOCOL_1_1)%Z; reflexivity.
  - destruct (negb (htp_header_has_token (h_value te) rq_str_chunked)); [reflexivity|]. destruct (t_request_protocol_number t <? c_HTP_PROTOCOL_1_1)%Z; reflexivity.
  - destruct (flag_has (h_flags cl) c_HTP_FIELD_FOLDED); destruct (flag_has (h_flags cl) c_HTP_FIELD_REPEATED);
      destruct (parse_content_length (h_value cl) <? 0)%Z; reflexivity.
  - reflexivity.
Qed.
Lemma rlk_host nu t : sr_rlk (rq_host nu t) = sr_rlk t.
Proof. unfold rq_host, tx_set_flag. wr_split_ifs; reflexivity. Qed.
Lemma rlk_content_type t : sr_rlk (rq_content_type t) = sr_rlk t.
Proof. unfold rq_content_type. destruct (rq_hdr_get_c _ _); reflexivity. Qed.
Lemma rlk_hdr_end t : sr_rlk (sg_hdr_end t) = sr_rlk t.
Proof.
  unfold sg_hdr_end. cbv zeta. rewrite rlk_content_type.
  destruct (t_parsed_uri (rq_te_cl t)) as [nu|]; [rewrite rlk_host|]; apply rlk_te_cl.
Qed.
(* the transaction of a grammar request (PSegRun.sg_tref) has counted no response byte *)
Lemma rlk_set_progress t v : sr_rlk (t <| t_request_progress := v |>) = sr_rlk t. Proof. reflexivity. Qed.
Lemma rlk_tref g r : sr_rlk (sg_tref g r) = (0%Z, 0%Z).
Proof.
  unfold sg_tref, sg_tfin. rewrite rlk_set_progress, rlk_hdr_end, rlk_block. unfold sg_th0. rewrite rlk_set_progress, rlk_tx_line. reflexivity.
Qed.


Lemma sr_treq_lens cb g rq : wr_all_ok cb -> g_allow_space_uri g = false -> wr_request_ok rq = true -> sg_fits g rq = true ->
  sr_rlk (sr_treq cb g rq) = (0%Z, 0%Z).
Proof.
  intros Hcb Hsp Wq Hf.
  destruct (sr_after_request cb g rq Hcb Hsp Wq) as (t0 & Hr & Rep).
  assert (Et : sr_treq cb g rq = t0) by (unfold sr_treq; rewrite (ry_txs _ _ Hr); reflexivity). rewrite Et.
  assert (Hne : wr_request_wire rq <> []).
  { unfold wr_request_wire, wr_ser_request. intro E. apply app_eq_nil in E. destruct E as [_ E]. apply app_eq_nil in E. destruct E as [E _]. discriminate. }
  destruct (sg_request_chunking cb g rq [wr_request_wire rq] Hcb Hsp Wq Hf) as (t & T & M).
  { constructor; [exact Hne|constructor]. }
  { cbn [concat]. apply app_nil_r. }
  cbn [map] in T. rewrite (ry_txs _ _ Hr) in T. inversion T. subst t.
  change (sr_rlk t0) with (sr_rlk (sg_mask t0)). rewrite M. change (sr_rlk (sg_mask (sg_tref g rq))) with (sr_rlk (sg_tref g rq)). apply rlk_tref.
Qed.

(* the response side up to the body does not touch the two length fields either *)
Lemma rlk_process line t : sr_rlk (rs_process_response_header line t) = sr_rlk t.
Proof.
  unfold rs_process_response_header. destruct (rs_parse_response_header line (t_flags t)) as [h tf].
  cbn [t_response_headers set]. destruct (rs_hdr_find (t_response_headers t) (h_name h)) as [i|]; [|reflexivity].
  destruct (flag_has _ _ && _); [reflexivity|].
  destruct (flag_has (h_flags (nth i (t_response_headers t) h)) c_HTP_FIELD_REPEATED); reflexivity.
Qed.
Lemma rlk_flush hdr t : sr_rlk (sr_flush hdr t) = sr_rlk t.
Proof. destruct hdr; [apply rlk_process|reflexivity]. Qed.
Lemma rlk_lstep st l : sr_rlk (snd (sr_lstep st l)) = sr_rlk (snd st).
Proof.
  unfold sr_lstep. cbn [snd]. destruct (fst l); [apply rlk_flush|]. destruct (fst st) as [h|]; [|reflexivity].
  destruct (sr_k2 _ h (snd l)); [|reflexivity]. rewrite rlk_process. reflexivity.
Qed.
Lemma rlk_lrun : forall ls st, sr_rlk (sr_lrun ls st) = sr_rlk (snd st).
Proof.
  induction ls as [|l ls IH]; intros st.
  - unfold sr_lrun. cbn [fold_left]. apply rlk_flush.
  - rewrite sr_lrun_cons, IH. apply rlk_lstep.
Qed.
Lemma rlk_th0 t line : sr_rlk (sr_th0 t line) = sr_rlk t.
Proof.
  unfold sr_th0, sr_tx_line, sr_line_fix, rs_apply_response_line, sr_tx_start.
  repeat match goal with |- context [if ?b then _ else _] => destruct b end; reflexivity.
Qed.
Lemma rlk_tend t0 r cuts : sr_rlk (sr_tend t0 r cuts) = sr_rlk t0.
Proof. unfold sr_tend. rewrite rlk_lrun. cbn [snd]. apply rlk_th0. Qed.
Lemma rlk_hdrs_tx_ch t : sr_rlk (sr_hdrs_tx_ch t) = sr_rlk t.
Proof.
  unfold sr_hdrs_tx_ch, sr_det_tx_ch. cbv zeta.
  destruct (rs_hdr_get_c (t_response_headers t) rs_str_content_type); destruct (rs_hdr_get_c (t_response_headers t) rs_str_content_length); reflexivity.
Qed.

Lemma rlk_split a b : sr_rlk a = sr_rlk b -> t_response_entity_len a = t_response_entity_len b /\ t_response_message_len a = t_response_message_len b.
Proof. unfold sr_rlk. intros H. injection H as H1 H2. split; assumption. Qed.

Theorem sr_tchunked_lens : forall t0 r (cuts : list (list bytes)) (ks : list bd_chunk) (last : bytes) (tr : list wr_field) (tcuts : list (list bytes)),
  t_response_entity_len (sr_tchunked t0 r cuts ks last tr tcuts) = (t_response_entity_len t0 + Z.of_nat (length (bd_chunks_data ks)))%Z /\
  t_response_message_len (sr_tchunked t0 r cuts ks last tr tcuts) = (t_response_message_len t0 + Z.of_nat (length (bd_chunks_wire ks) + length last))%Z /\
  t_response_progress (sr_tchunked t0 r cuts ks last tr tcuts) = c_HTP_RESPONSE_COMPLETE.
Proof.
  intros t0 r cuts ks last tr tcuts. unfold sr_tchunked.
  set (E := Z.of_nat (length (bd_chunks_data ks))). set (M := Z.of_nat (length (bd_chunks_wire ks) + length last)).
  destruct (rlk_split _ _ (rlk_tend t0 r cuts)) as [K0e K0m]. destruct (rlk_split _ _ (rlk_hdrs_tx_ch (sr_tend t0 r cuts))) as [K1e K1m].
  set (TB := sr_hdrs_tx_ch (sr_tend t0 r cuts)) in *.
  destruct (rlk_split _ _ (rlk_lrun (sr_trailer_lines tr tcuts) (None, (sr_cbody E M TB) <| t_response_progress := c_HTP_RESPONSE_TRAILER |>))) as [K2e K2m]. cbn [snd] in K2e, K2m.
  set (TT := sr_lrun (sr_trailer_lines tr tcuts) (None, (sr_cbody E M TB) <| t_response_progress := c_HTP_RESPONSE_TRAILER |>)) in *.
  change (t_response_entity_len ((sr_cbody E M TB) <| t_response_progress := c_HTP_RESPONSE_TRAILER |>)) with (E + t_response_entity_len TB)%Z in K2e.
  change (t_response_message_len ((sr_cbody E M TB) <| t_response_progress := c_HTP_RESPONSE_TRAILER |>)) with (M + t_response_message_len TB)%Z in K2m.
  clearbody TT TB.
  split; [|split; [|reflexivity]].
  - change (t_response_entity_len (sr_tcomplete TT)) with (Z.of_nat 0 + t_response_entity_len TT)%Z. lia.
  - change (t_response_message_len (sr_tcomplete TT)) with (Z.of_nat 0 + t_response_message_len TT)%Z. lia.
Qed.

(* the trailer fields land in the response header table: the table at the end is the one obtained by processing the trailer lines
   on top of the transaction at the end of the header block (the body phase changes neither the table nor what the line
   processor reads besides it) *)
Theorem sr_tchunked_headers : forall t0 r (cuts : list (list bytes)) (ks : list bd_chunk) (last : bytes) (tr : list wr_field) (tcuts : list (list bytes)),
  t_response_headers (sr_tchunked t0 r cuts ks last tr tcuts) = t_response_headers (sr_lrun (sr_trailer_lines tr tcuts) (None, sr_tend t0 r cuts)).
Proof.
  intros t0 r cuts ks last tr tcuts. unfold sr_tchunked.
  set (E := Z.of_nat (length (bd_chunks_data ks))). set (M := Z.of_nat (length (bd_chunks_wire ks) + length last)).
  set (T := sr_tend t0 r cuts).
  assert (S0 : sr_sim ((sr_cbody E M (sr_hdrs_tx_ch T)) <| t_response_progress := c_HTP_RESPONSE_TRAILER |>) T).
  { unfold sr_sim, sr_rsp, sr_hdrs_tx_ch, sr_det_tx_ch. cbv zeta.
    destruct (rs_hdr_get_c (t_response_headers T) rs_str_content_type); destruct (rs_hdr_get_c (t_response_headers T) rs_str_content_length); repeat split; reflexivity. }
  set (T1 := (sr_cbody E M (sr_hdrs_tx_ch T)) <| t_response_progress := c_HTP_RESPONSE_TRAILER |>) in *.
  pose proof (sim_lrun (sr_trailer_lines tr tcuts) (None, T1) (None, T) eq_refl S0) as S1.
  destruct S1 as (_ & S1 & _). unfold sr_rsp in S1. injection S1 as S1 _.
  change (t_response_headers (sr_tcomplete ?x)) with (t_response_headers x). exact S1.
Qed.

(* every folding and chunking: the body was counted exactly once *)
Theorem sr_response_chunked_counted : forall cb g rq r (cuts : list (list bytes)) (ks : list bd_chunk) (last : bytes) (tr : list wr_field)
    (tcuts : list (list bytes)) (chunks : list bytes),
  wr_all_ok cb -> g_allow_space_uri g = false -> wr_request_ok rq = true -> sg_fits g rq = true -> g_tx_auto_destroy g = false ->
  sr_response_ok r = true -> sr_cuts_ok r cuts = true -> sr_framed_ch cb g rq r cuts = true -> sr_fits g r cuts = true ->
  sr_cfbody_ok g r ks last tr tcuts = true ->
  Forall (fun x => x <> []) chunks -> concat chunks = sr_wire r cuts (sr_cfbody_wire ks last tr tcuts) ->
  sr_f1_free (sr_cfbody_wire ks last tr tcuts) (negb (sr_is_nil (sr_lines r cuts))) chunks = true ->
  exists t, c_txs (fst (cp_run cb g connp_new (OpOpen :: OpReqData (wr_request_wire rq) :: map OpResData chunks))) = [Some t] /\
    t_response_entity_len t = Z.of_nat (length (bd_chunks_data ks)) /\
    t_response_message_len t = Z.of_nat (length (bd_chunks_wire ks) + length last) /\
    t_response_progress t = c_HTP_RESPONSE_COMPLETE /\
    t_response_headers t = t_response_headers (sr_lrun (sr_trailer_lines tr tcuts) (None, sr_tend (sr_treq cb g rq) r cuts)).
Proof.
  intros cb g rq r cuts ks last tr tcuts chunks Hcb Hsp Wq Hfq Had Wr Wc Hfr Hfit Hb Hall Hc Hf1.
  pose proof (sr_response_chunked_chunking cb g rq r cuts ks last tr tcuts chunks Hcb Hsp Wq Wr Wc Hfr Hfit Hb Hall Hc Hf1) as T.
  unfold sr_final in T. rewrite Had in T.
  exists (sr_tchunked (sr_treq cb g rq) r cuts ks last tr tcuts). split; [exact T|].
  destruct (sr_tchunked_lens (sr_treq cb g rq) r cuts ks last tr tcuts) as (L1 & L2 & L3).
  pose proof (sr_treq_lens cb g rq Hcb Hsp Wq Hfq) as L0. unfold sr_rlk in L0.
  assert (L0e : t_response_entity_len (sr_treq cb g rq) = 0%Z) by (revert L0; generalize (sr_treq cb g rq); intros X L0; injection L0 as A _; exact A).
  assert (L0m : t_response_message_len (sr_treq cb g rq) = 0%Z) by (revert L0; generalize (sr_treq cb g rq); intros X L0; injection L0 as _ A; exact A).
  rewrite L0e in L1. rewrite L0m in L2. cbn [Z.add] in L1, L2.
  split; [exact L1|]. split; [exact L2|]. split; [exact L3|]. apply sr_tchunked_headers.
Qed.

(* ================= non-vacuity and the vm_compute harness (evaluated BEFORE the proofs were written) ================= *)
Require Coq.Strings.String.
Import Coq.Strings.String.StringSyntax.
Local Open Scope string_scope.
Local Notation "a +++ b" := (@app N a b) (at level 60, right associativity).
(* HTTP/1.1 200 OK | Transfer-Encoding: chunked | X-A: b | | 3 | abc | 0A;name=value12345 | 0123456789 | 1 | CR | 0 | T-One: x | T-Two: | SP y | |
   three chunks (the second with an extension of more than 8 bytes, the third with a lone CR as data), two trailer fields, one folded *)
Definition sr_ex_chr : wr_response :=
  mk_wr_response wr_http11 (bd_str "200") (bd_str "OK")
    [mk_wr_field (bd_str "Transfer-Encoding") [SP] (bd_str "chunked") []; mk_wr_field (bd_str "X-A") [SP] (bd_str "b") []].
Definition sr_ex_cks : list bd_chunk :=
  [mk_bd_chunk (bd_lines ["3"]) (bd_str "abc") bd_CRLF;
   mk_bd_chunk (bd_lines ["0A;name=value12345"]) (bd_str "0123456789") bd_CRLF;
   mk_bd_chunk (bd_lines ["1"]) [CR] bd_CRLF].
Definition sr_ex_ctr : list wr_field := [mk_wr_field (bd_str "T-One") [SP] (bd_str "x") []; mk_wr_field (bd_str "T-Two") [SP] (bd_str "y") []].
Definition sr_ex_ctcuts : list (list bytes) := [[SP :: bd_str "x"]; [[]; SP :: bd_str "y"]].
Definition sr_ex_cwire : bytes := sr_wire sr_ex_chr (sr_cuts_whole sr_ex_chr) (sr_cfbody_wire sr_ex_cks bd_last_line sr_ex_ctr sr_ex_ctcuts).
Definition sr_ex_clens (l : list (option tx)) :=
  map (option_map (fun t => (t_response_progress t, t_response_entity_len t, t_response_message_len t, map h_name (t_response_headers t)))) l.

Example sr_ex_chunked_premises :
  sr_response_ok sr_ex_chr = true /\ sr_framed_ch sg_ex_ok (sg_ex_cfg 18000) wr_ex_req sr_ex_chr (sr_cuts_whole sr_ex_chr) = true /\
  sr_fits (sg_ex_cfg 18000) sr_ex_chr (sr_cuts_whole sr_ex_chr) = true /\
  sr_cfbody_ok (sg_ex_cfg 18000) sr_ex_chr sr_ex_cks bd_last_line sr_ex_ctr sr_ex_ctcuts = true /\
  sr_head_not_cr (sr_cfbody_wire sr_ex_cks bd_last_line sr_ex_ctr sr_ex_ctcuts) = true /\ length sr_ex_cwire = 128%nat /\
  sr_ex_cwire = bd_lines ["HTTP/1.1 200 OK"; "Transfer-Encoding: chunked"; "X-A: b"; ""; "3"; "abc"; "0A;name=value12345"; "0123456789"; "1"] +++
                [CR] +++ bd_lines [""; "0"; "T-One: x"; "T-Two:"; " y"; ""].
Proof. split; [vm_compute; reflexivity|]. split; [vm_compute; reflexivity|]. split; [vm_compute; reflexivity|]. split; [vm_compute; reflexivity|]. split; [vm_compute; reflexivity|]. split; vm_compute; reflexivity. Qed.
(* the byte-by-byte delivery and every single cut -- in particular every cut inside a size line: before its first digit, between
   its CR and its LF, inside the extension -- report what the single chunk reports: the transaction of the theorem,
   14 data bytes, 49 bytes of coded body counted (the trailer block is not), the trailer fields in the header table *)
Example sr_ex_chunked_bytewise :
  sr_ex_run (sg_ex_cfg 18000) (sg_bytewise sr_ex_cwire) = sr_ex_run (sg_ex_cfg 18000) [sr_ex_cwire] /\
  sr_ex_clens (sr_ex_run (sg_ex_cfg 18000) [sr_ex_cwire]) =
    [Some (c_HTP_RESPONSE_COMPLETE, 14%Z, 49%Z, [bd_str "Transfer-Encoding"; bd_str "X-A"; bd_str "T-One"; bd_str "T-Two"])] /\
  sr_ex_run (sg_ex_cfg 18000) [sr_ex_cwire] =
    sr_final (sg_ex_cfg 18000) (sr_tchunked (sr_treq sg_ex_ok (sg_ex_cfg 18000) wr_ex_req) sr_ex_chr (sr_cuts_whole sr_ex_chr) sr_ex_cks bd_last_line sr_ex_ctr sr_ex_ctcuts).
Proof. split; [vm_compute; reflexivity|]. split; vm_compute; reflexivity. Qed.
Example sr_ex_chunked_single_cuts :
  map (sr_ex_run (sg_ex_cfg 18000)) (sg_cuts1 sr_ex_cwire) = repeat (sr_ex_run (sg_ex_cfg 18000) [sr_ex_cwire]) 127.
Proof. vm_compute. reflexivity. Qed.
(* a shorter response, every double cut: HTTP/1.0 200 OK | transfer-encoding: Chunked | | 2;a | ab | 1 LF | c LF | 000 | T: v | *)
Definition sr_ex_chr1 : wr_response :=
  mk_wr_response wr_http10 (bd_str "200") (bd_str "OK") [mk_wr_field (bd_str "transfer-encoding") [SP] (bd_str "Chunked") []].
Definition sr_ex_cks1 : list bd_chunk := [mk_bd_chunk (bd_lines ["2;a"]) (bd_str "ab") bd_CRLF; mk_bd_chunk (bd_str "1" +++ [LF]) (bd_str "c") [LF]].
Definition sr_ex_ctr1 : list wr_field := [mk_wr_field (bd_str "T") [SP] (bd_str "v") []].
Definition sr_ex_cwire1 : bytes := sr_wire sr_ex_chr1 (sr_cuts_whole sr_ex_chr1) (sr_cfbody_wire sr_ex_cks1 (bd_lines ["000"]) sr_ex_ctr1 [[SP :: bd_str "v"]]).
Example sr_ex_chunked_double_cuts :
  sr_framed_ch sg_ex_ok (sg_ex_cfg 18000) wr_ex_req sr_ex_chr1 (sr_cuts_whole sr_ex_chr1) = true /\
  sr_cfbody_ok (sg_ex_cfg 18000) sr_ex_chr1 sr_ex_cks1 (bd_lines ["000"]) sr_ex_ctr1 [[SP :: bd_str "v"]] = true /\ length sr_ex_cwire1 = 73%nat /\
  map (sr_ex_run (sg_ex_cfg 18000)) (sg_cuts2 sr_ex_cwire1) = repeat (sr_ex_run (sg_ex_cfg 18000) [sr_ex_cwire1]) 2556.
Proof. split; [vm_compute; reflexivity|]. split; [vm_compute; reflexivity|]. split; vm_compute; reflexivity. Qed.
(* no chunk at all: 0 CRLF CRLF; and a Content-Length next to Transfer-Encoding: chunked (the code flags HTP_REQUEST_SMUGGLING and goes on) *)
Definition sr_ex_chr2 : wr_response :=
  mk_wr_response wr_http11 (bd_str "200") (bd_str "OK")
    [mk_wr_field (bd_str "Content-Length") [SP] (bd_str "7") []; mk_wr_field (bd_str "Transfer-Encoding") [SP] (bd_str "chunked") []].
Example sr_ex_chunked_empty :
  sr_cfbody_ok (sg_ex_cfg 18000) sr_ex_chr2 [] bd_last_line [] [] = true /\
  sr_framed_ch sg_ex_ok (sg_ex_cfg 18000) wr_ex_req sr_ex_chr2 (sr_cuts_whole sr_ex_chr2) = true /\
  let w := sr_wire sr_ex_chr2 (sr_cuts_whole sr_ex_chr2) (sr_cfbody_wire [] bd_last_line [] []) in
  map (sr_ex_run (sg_ex_cfg 18000)) (sg_cuts1 w) = repeat (sr_ex_run (sg_ex_cfg 18000) [w]) 70 /\
  map (option_map (fun t => (t_response_progress t, t_response_entity_len t, t_response_message_len t, t_flags t))) (sr_ex_run (sg_ex_cfg 18000) [w]) =
    [Some (c_HTP_RESPONSE_COMPLETE, 0%Z, 3%Z, c_HTP_REQUEST_SMUGGLING)] /\
  sr_ex_run (sg_ex_cfg 18000) [w] = sr_final (sg_ex_cfg 18000) (sr_tchunked (sr_treq sg_ex_ok (sg_ex_cfg 18000) wr_ex_req) sr_ex_chr2 (sr_cuts_whole sr_ex_chr2) [] bd_last_line [] []).
Proof. split; [vm_compute; reflexivity|]. split; [vm_compute; reflexivity|]. split; [vm_compute; reflexivity|]. split; vm_compute; reflexivity. Qed.
(* the general format allows a size line that starts with a chunk-control character; when that character is CR the known finding F1
   (C03.json F1-lfcr) applies to the end of the HEADER block exactly as for a Content-Length body that starts with CR: of the 68 single
   cuts of  ... chunked CRLF CRLF | CR SP 03 SP ;x LF abc junk LF 00 CRLF CRLF  the two that sr_f1_free rejects (between the CR and the LF
   of the last header line, and of the empty line) are the two whose transactions differ *)
Definition sr_ex_chr3 : wr_response := mk_wr_response wr_http11 (bd_str "200") (bd_str "OK") [mk_wr_field (bd_str "Transfer-Encoding") [SP] (bd_str "chunked") []].
Definition sr_ex_cks3 : list bd_chunk := [mk_bd_chunk ([CR] +++ bd_str " 03 ;x" +++ [LF]) (bd_str "abc") (bd_str "junk" +++ [LF])].
Definition sr_ex_cbody3 : bytes := sr_cfbody_wire sr_ex_cks3 (bd_lines ["00"]) [] [].
Definition sr_ex_cwire3 : bytes := sr_wire sr_ex_chr3 (sr_cuts_whole sr_ex_chr3) sr_ex_cbody3.
Example sr_ex_chunked_f1_exact :
  sr_cfbody_ok (sg_ex_cfg 18000) sr_ex_chr3 sr_ex_cks3 (bd_lines ["00"]) [] [] = true /\ sr_head_not_cr sr_ex_cbody3 = false /\
  forallb (fun ch => if sr_f1_free sr_ex_cbody3 true ch
                     then sr_fp_eqb (sr_fp (sr_ex_run (sg_ex_cfg 18000) ch)) (sr_fp (sr_ex_run (sg_ex_cfg 18000) [sr_ex_cwire3]))
                     else negb (sr_fp_eqb (sr_fp (sr_ex_run (sg_ex_cfg 18000) ch)) (sr_fp (sr_ex_run (sg_ex_cfg 18000) [sr_ex_cwire3]))))
          (sg_cuts1 sr_ex_cwire3) = true /\
  map (fun ch => length (hd [] ch)) (filter (fun ch => negb (sr_f1_free sr_ex_cbody3 true ch)) (sg_cuts1 sr_ex_cwire3)) = [44; 46]%nat /\
  sr_ex_clens (sr_ex_run (sg_ex_cfg 18000) [sr_ex_cwire3]) = [Some (c_HTP_RESPONSE_COMPLETE, 3%Z, 20%Z, [bd_str "Transfer-Encoding"])].
Proof. split; [vm_compute; reflexivity|]. split; [vm_compute; reflexivity|]. split; [vm_compute; reflexivity|]. split; vm_compute; reflexivity. Qed.
(* the limit premise on the size lines is needed and is exact (as on the request side): with field_limit_hard = 30 a size line of
   30 bytes is assembled from any two pieces; one of 31 bytes is accepted when it arrives in one piece after a chunk that did not end
   exactly at its start (nothing is buffered) and refused (the response stays in its body) when it is cut *)
Definition sr_ex_cwire_lim (n : nat) : bytes :=
  sr_wire sr_ex_chr3 (sr_cuts_whole sr_ex_chr3) (sr_cfbody_wire [mk_bd_chunk (sg_ex_cline n) (bd_str "abc") bd_CRLF] bd_last_line [] []).
Example sr_ex_chunked_limit :
  sr_fits (sg_ex_cfg 30) sr_ex_chr3 (sr_cuts_whole sr_ex_chr3) = true /\
  sr_cfbody_ok (sg_ex_cfg 30) sr_ex_chr3 [mk_bd_chunk (sg_ex_cline 26) (bd_str "abc") bd_CRLF] bd_last_line [] [] = true /\
  sr_cfbody_ok (sg_ex_cfg 30) sr_ex_chr3 [mk_bd_chunk (sg_ex_cline 27) (bd_str "abc") bd_CRLF] bd_last_line [] [] = false /\
  map (sr_ex_run (sg_ex_cfg 30)) (sg_cuts1 (sr_ex_cwire_lim 26)) = repeat (sr_ex_run (sg_ex_cfg 30) [sr_ex_cwire_lim 26]) 86 /\
  map (option_map t_response_progress) (sr_ex_run (sg_ex_cfg 30) [sr_ex_cwire_lim 27]) = [Some c_HTP_RESPONSE_COMPLETE] /\
  map (option_map t_response_progress) (sr_ex_run (sg_ex_cfg 30) [firstn 50 (sr_ex_cwire_lim 27); skipn 50 (sr_ex_cwire_lim 27)]) = [Some c_HTP_RESPONSE_BODY].
Proof. split; [vm_compute; reflexivity|]. split; [vm_compute; reflexivity|]. split; [vm_compute; reflexivity|]. split; [vm_compute; reflexivity|]. split; vm_compute; reflexivity. Qed.

(* ================= THEOREMS FOR RE-EXPORT (Properties_C03.v / Properties_C06.v): chunk-coded RESPONSE bodies with trailers =================
   PSegResChRun.sr_response_chunked_chunking   c_txs (OpOpen :: OpReqData request :: map OpResData chunks) = sr_final g (sr_tchunked (sr_treq cb g rq) r cuts ks last tr tcuts)
                                               for EVERY admissible chunking: ALL transaction fields, no mask
   sr_response_chunked_chunking_obs            c_txs (chunked run) = c_txs [OpOpen; OpReqData request; OpResData (whole response)]
   sr_response_chunked_two_chunkings           two admissible chunkings: sg_obs equal (sg_obs / sg_mask = c03_obs / c03_mask)
   sr_response_chunked_chunking_digit          the same as _obs when the coded body does not start with CR (sr_head_not_cr): no F1 premise
   sr_response_chunked_chunking_encoder        the body in the encoder's format SBody.bd_enc_body cs (trailer wire): no F1 premise
   sr_tchunked_lens / sr_tchunked_headers / sr_response_chunked_counted
                                               the reported response_entity_len is |bd_chunks_data ks|, response_message_len is |bd_chunks_wire ks| + |last|
                                               (size lines, data, line ends and the last-chunk line; the trailer block and the final empty line are NOT
                                               counted by the code), progress COMPLETE, response_headers = the trailer lines processed on top of the
                                               header block's table -- in every chunking (_counted needs sg_fits g rq and tx_auto_destroy = false)
   premises: wr_all_ok cb, g_allow_space_uri g = false, wr_request_ok rq = true,
             sr_response_ok r, sr_cuts_ok r cuts, sr_fits g r cuts                 as for PSegResThm.sr_response_chunking (F2 excluded by sr_response_ok)
             sr_framed_ch cb g rq r cuts = true                                    executable: the model's RES_BODY_DETERMINE decision at the end of the header block is
                                                                                   "Transfer-Encoding has `chunked`, request neither HEAD nor CONNECT" (Content-Length tolerated)
             sr_cfbody_ok g r ks last tr tcuts = true                              SBody: bd_chunk_ok bd_rs_line_value (size line = one LF-terminated line whose value is the
                                                                                   data length >= 1: extensions, leading zeros / white space, upper case, bare LF all covered),
                                                                                   bd_last_ok, bd_lines_fit (every size line <= field_limit_hard: exact, sr_ex_chunked_limit),
                                                                                   trailer fields wr_field_ok folded as tcuts (sg_fold_ok), sr_ffit for the trailer lines
             Forall (fun x => x <> []) chunks, concat chunks = sr_wire r cuts (sr_cfbody_wire ks last tr tcuts)
             sr_f1_free (sr_cfbody_wire ..) has_hdr chunks = true                  F1 (known finding) -- vacuous unless the first size line starts with CR (sr_ex_chunked_f1_exact)
   nothing refuted: the look-ahead data_probe_chunk_length reads out_buf ++ unconsumed = the seen prefix of the size line and never fires on a line whose value is >= 0
   (PSegResCh.sr_probe_pass, sr_clen_scan_nolf, sr_clen_scan_lf), whatever the cut. *)
Print Assumptions sr_response_chunked_chunking.
Print Assumptions sr_response_chunked_chunking_obs.
Print Assumptions sr_response_chunked_two_chunkings.
Print Assumptions sr_response_chunked_chunking_digit.
Print Assumptions sr_response_chunked_chunking_encoder.
Print Assumptions sr_tchunked_lens.
Print Assumptions sr_tchunked_headers.
Print Assumptions sr_response_chunked_counted.
